(* Outstation/SessionC03Proofs.v — property C03 (no event is lost, invented, or released before a confirmed
   response carried it), the part that lives in the session: WHEN the session tells the database to release
   the written events (clear_written_events), to offer them again (reset), and to write more of them.

   Proved over the session model Outstation/Session.v for all configurations, all states reachable from
   start-up (through `boundary_inv`: between two steps the reader holds no fragment and a deferred READ exists
   only in the unsolicited confirm wait), all events and all answers of the environment; then composed with the
   database model (Outstation/Full.v: `fevent_out`, `fstep`) for the event ids that leave the buffer.

   1. release_only_on_awaited_confirm   clear_written_events is called at most once per step, as the second
                                        observation, directly after the information callback of the CONFIRM the
                                        session was waiting for (UNS bit and sequence number match)
   2. abandoned_solicited_wait_resets   ISolTimeout / ISolNewRequest are directly followed by the reset;
      disconnect_resets, outstanding_step / outstanding_time  (every way out of a wait: clear or reset first)
   3. one_response_outstanding          while a response is outstanding no select / write call is made before
                                        the clear or the reset that ends the wait; wait_persists
   4. fevent_release / fstep_release    composed: the ids in the event buffer after a step are the ids before
                                        it, minus - only when the step's event is the awaited CONFIRM - exactly
                                        those Written at that moment; overflow only in the user's transaction *)
From Dnp3V Require Import Outstation.DbTypes Outstation.EventBuffer Outstation.EventBufferProofs Outstation.StaticDb
  Outstation.Database Outstation.Full Outstation.FullProofs.
From Dnp3V Require Import Outstation.Session Outstation.SessionLemmas_c04 Outstation.SessionLemmas_c03.
Import ListNotations.
Open Scope N_scope.

(* ---------- reachable states ------------------------------------------------------------------------------ *)

Inductive Reach (cfg : ocfg) : ostate -> Prop :=
| Reach_start : forall sel op iin a0, Reach cfg (fst (ostart cfg sel op iin a0))
| Reach_step : forall s ev ans, Reach cfg s -> Reach cfg (fst (ostep cfg s ev ans)).

Fixpoint ofinal (cfg : ocfg) (s : ostate) (evs : list (oevent * list answer)) : ostate :=
  match evs with
  | [] => s
  | (ev, ans) :: rest => ofinal cfg (fst (ostep cfg s ev ans)) rest
  end.

Lemma Reach_ofinal cfg evs : forall s, Reach cfg s -> Reach cfg (ofinal cfg s evs).
Proof.
  induction evs as [|[ev ans] rest IH]; intros s H; cbn [ofinal]; [exact H|]. apply IH. constructor. exact H.
Qed.

(* between two steps the reader holds no fragment, and a deferred READ exists only while an unsolicited
   response awaits its confirmation (SessionLemmas_c04.J) *)
Definition boundary_inv (s : ostate) : Prop := J s.

Theorem boundary_inv_start cfg sel op iin a0 : boundary_inv (fst (ostart cfg sel op iin a0)).
Proof.
  unfold boundary_inv, ostart.
  destruct (idle_loop 8 cfg (upd_answers (ostate_init cfg sel op iin) a0)) as [s' o] eqn:E.
  apply idle_loop_spec in E; [apply E|split; reflexivity|reflexivity].
Qed.

Theorem boundary_inv_step cfg s ev ans : boundary_inv s -> boundary_inv (fst (ostep cfg s ev ans)).
Proof.
  unfold boundary_inv. intros HJ. destruct (ostep cfg s ev ans) as [s' o] eqn:E.
  apply ostep_spec in E; [apply E|exact HJ].
Qed.

Theorem reach_boundary_inv cfg s : Reach cfg s -> boundary_inv s.
Proof. induction 1; [apply boundary_inv_start|apply boundary_inv_step; assumption]. Qed.

(* ---------- concrete histories for the non-vacuity examples ---------------------------------------------- *)

Definition ex_cfg (unsol : bool) : ocfg :=
  {| o_master := 1; o_any_master := false; o_unsol := unsol; o_broadcast := true; o_confirm_ms := 5000;
     o_select_ms := 5000; o_retries := Some 1%nat; o_retry_delay_ms := 1000; o_max_controls := None; o_sol_tx := 249;
     o_delay_ms := 0; o_cold := None; o_warm := None; o_wtime := 0; o_freeze := 0 |}.

Definition ev0 : answer := AEvinfo false false false false.
Definition ev1 : answer := AEvinfo true false false false.
Definition ex_st0 (unsol : bool) : ostate := fst (ostart (ex_cfg unsol) 0 0 0 [ev0]).
Definition ex_run (unsol : bool) (evs : list (oevent * list answer)) : ostate :=
  ofinal (ex_cfg unsol) (ex_st0 unsol) evs.

Lemma ex_run_reach unsol evs : Reach (ex_cfg unsol) (ex_run unsol evs).
Proof. apply Reach_ofinal. apply Reach_start. Qed.

(* one binary input event, g2v1 index 7 *)
Definition ex_body (i : N) : list N := [2; 1; 40; 1; 0; i; 0; 129].
(* READ class 1 from master 1, sequence q; the database selects, writes one event (all / not all fitted) *)
Definition ex_read (q : N) : oevent := ERx 1 None [192 + q; 1; 60; 2; 6] (DOk (192 + q) 1 RvOk (ObjOk [WCls 1] [true])).
Definition ex_read_ans (complete : bool) : list answer := [AIin2 0; AWrite complete true (ex_body 7); ev0].
Definition ex_confirm (uns : bool) (q : N) : oevent :=
  ERx 1 None [192 + (if uns then 16 else 0) + q; 0] (DOk (192 + (if uns then 16 else 0) + q) 0 RvOk (ObjOk [] [])).
(* RECORD_CURRENT_TIME, ENABLE / DISABLE_UNSOLICITED class 1 *)
Definition ex_req (q : N) : oevent := ERx 1 None [192 + q; 24] (DOk (192 + q) 24 RvOk (ObjOk [] [])).
Definition ex_enable (q : N) : oevent := ERx 1 None [192 + q; 20; 60; 2; 6] (DOk (192 + q) 20 RvOk (ObjOk [WCls 1] [true])).
Definition ex_disable (q : N) : oevent := ERx 1 None [192 + q; 21; 60; 2; 6] (DOk (192 + q) 21 RvOk (ObjOk [WCls 1] [true])).
Definition ex_disable_bc : oevent := ERx 1 (Some BOptional) [192; 21; 60; 2; 6] (DOk 192 21 RvOk (ObjOk [WCls 1] [true])).

(* a solicited response carrying an event awaits its CONFIRM (sequence 3): single fragment / first of several *)
Definition ex_sw : ostate := ex_run false [(ex_read 3, ex_read_ans true)].
Definition ex_sw2 : ostate := ex_run false [(ex_read 3, ex_read_ans false)].
(* unsolicited: null response confirmed, class 1 enabled, one event written into an unsolicited response
   (sequence 1) that awaits its CONFIRM *)
Definition ex_uhist : list (oevent * list answer) :=
  [(ex_confirm true 0, []); (ex_enable 1, [ev0]); (EDbChange, [AUnsol 1 (ex_body 7); ev0])].
Definition ex_uw : ostate := ex_run true ex_uhist.

Definition ex_out (unsol : bool) (s : ostate) (ev : oevent) (ans : list answer) : list oobs :=
  snd (ostep (ex_cfg unsol) s ev ans).

Example ex_states :
  s_control ex_sw = CSolWait {| se_ecsn := 3; se_fin := true |} 5000 RStep2 /\
  s_control ex_sw2 = CSolWait {| se_ecsn := 3; se_fin := false |} 5000 RStep2 /\
  s_control ex_uw = CUnsolWait {| r_ctl := 241; r_fn := 130; r_iin1 := 128; r_iin2 := 0; r_size := 12 |} false (Some 1%nat) 5002 /\
  waiting ex_sw = true /\ waiting ex_sw2 = true /\ waiting ex_uw = true /\ waiting (ex_st0 true) = false /\
  ex_out true (ex_run true (firstn 2 ex_uhist)) EDbChange [AUnsol 1 (ex_body 7); ev0]
  = [ODb (DbWriteUnsol true false false); ODb DbEvinfo; OTx 1 [241; 130; 128; 0; 2; 1; 40; 1; 0; 7; 0; 129];
     OInfo (IEnterUnsolWait 1)].
Proof. vm_compute. repeat split. Qed.

(* ---------- 1. release only on the awaited CONFIRM ----------------------------------------------------------- *)

Definition accepted (cfg : ocfg) (from : N) : Prop := o_any_master cfg = true \/ from = o_master cfg.

(* the event is a unicast CONFIRM from an accepted master whose UNS bit and sequence number are the ones the
   session is waiting for: the expected sequence number of the solicited series, or the sequence number of
   the outstanding unsolicited response (not the start-up null response, which carries no events);
   i is the information callback the session then makes *)
Definition awaited_confirm (cfg : ocfg) (s : ostate) (ev : oevent) (i : infocb) : Prop :=
  exists from bytes ctl obj,
    ev = ERx from None bytes (DOk ctl fn_confirm RvOk obj) /\ accepted cfg from /\
    ((exists se dl r, s_control s = CSolWait se dl r /\ ctl_uns ctl = false /\ ctl_seq ctl = se_ecsn se /\
                      i = ISolConfirmed (se_ecsn se)) \/
     (exists resp rt dl, s_control s = CUnsolWait resp false rt dl /\ ctl_uns ctl = true /\
                         ctl_seq ctl = ctl_seq (r_ctl resp) /\ i = IUnsolConfirmed (ctl_seq (r_ctl resp)))).

Lemma to_treq_request_iff cfg from d ctl fn obj :
  to_treq cfg from d = TqRequest ctl fn obj <-> d = DOk ctl fn RvOk obj /\ accepted cfg from.
Proof.
  unfold to_treq, accepted. destruct (o_any_master cfg); cbn [negb andb].
  - destruct d as [| |c f [|] ob]; split; try (intros H; discriminate H); try (intros [H _]; discriminate H).
    + intros H; inv_pair H. split; [reflexivity|left; reflexivity].
    + intros [H _]; inv_pair H. reflexivity.
  - destruct (from =? o_master cfg) eqn:E; cbn [negb].
    + apply N.eqb_eq in E.
      destruct d as [| |c f [|] ob]; split; try (intros H; discriminate H); try (intros [H _]; discriminate H).
      * intros H; inv_pair H. split; [reflexivity|right; reflexivity].
      * intros [H _]; inv_pair H. reflexivity.
    + apply N.eqb_neq in E. split; [intros H; discriminate H|]. intros [_ [H|H]]; [discriminate H|contradiction].
Qed.

Theorem releasing_spec cfg s ev i : releasing cfg s ev = Some i <-> awaited_confirm cfg s ev i.
Proof.
  unfold releasing, awaited_confirm. split.
  - destruct ev as [from bc bytes d|ms| |sel op|v|]; try discriminate.
    destruct (s_control s) as [|se dl r|resp [|] rt dl] eqn:Ec; try discriminate.
    + unfold sol_conf. destruct bc as [m|]; [discriminate|].
      destruct (to_treq cfg from d) as [|q|ctl fn obj] eqn:Et; try discriminate.
      apply to_treq_request_iff in Et. destruct Et as [-> Ha].
      destruct (fn =? fn_confirm) eqn:Ef; [|discriminate]. apply N.eqb_eq in Ef. subst fn.
      destruct (ctl_uns ctl) eqn:Eu; [discriminate|].
      destruct (ctl_seq ctl =? se_ecsn se) eqn:Eq; [|discriminate]. apply N.eqb_eq in Eq.
      cbn. intros H; inv_pair H. exists from, bytes, ctl, obj. split; [reflexivity|]. split; [exact Ha|].
      left. exists se, dl, r. auto.
    + unfold uconf_seq. destruct bc as [m|]; [discriminate|].
      destruct (to_treq cfg from d) as [|q|ctl fn obj] eqn:Et; try discriminate.
      apply to_treq_request_iff in Et. destruct Et as [-> Ha].
      destruct (fn =? fn_confirm) eqn:Ef; [|discriminate]. apply N.eqb_eq in Ef. subst fn.
      destruct (ctl_uns ctl) eqn:Eu; [|discriminate]. cbn [andb].
      destruct (ctl_seq ctl =? ctl_seq (r_ctl resp)) eqn:Eq; [|discriminate]. apply N.eqb_eq in Eq.
      intros H; inv_pair H. exists from, bytes, ctl, obj. split; [reflexivity|]. split; [exact Ha|].
      right. exists resp, rt, dl. rewrite Eq. auto.
  - intros (from & bytes & ctl & obj & -> & Ha & [(se & dl & r & Ec & Eu & Eq & ->)|(resp & rt & dl & Ec & Eu & Eq & ->)]).
    + rewrite Ec. unfold sol_conf.
      rewrite (proj2 (to_treq_request_iff cfg from _ ctl fn_confirm obj) (conj eq_refl Ha)).
      rewrite Eu, Eq, !N.eqb_refl. reflexivity.
    + rewrite Ec. unfold uconf_seq.
      rewrite (proj2 (to_treq_request_iff cfg from _ ctl fn_confirm obj) (conj eq_refl Ha)).
      rewrite Eu, Eq, !N.eqb_refl. cbn [andb]. rewrite N.eqb_refl. reflexivity.
Qed.

(* THEOREM 1.  In the output of any step from any reachable state, under any answers of the database:
   if the event is the awaited CONFIRM, the output is the information callback, then clear_written_events,
   and nothing after it releases again; for any other event clear_written_events is not called at all. *)
Theorem release_only_on_awaited_confirm : forall cfg s ev ans s' out,
  Reach cfg s -> ostep cfg s ev ans = (s', out) ->
  (forall i, awaited_confirm cfg s ev i ->
     exists rest, out = OInfo i :: ODb DbClearWritten :: rest /\ Forall nc rest) /\
  ((forall i, ~ awaited_confirm cfg s ev i) -> Forall nc out).
Proof.
  intros cfg s ev ans s' out HR H. apply reach_boundary_inv in HR.
  pose proof (ostep_release cfg s ev ans s' out HR H) as R. unfold release_only in R. split.
  - intros i Hi. apply releasing_spec in Hi. rewrite Hi in R. exact R.
  - intros Hn. destruct (releasing cfg s ev) as [i|] eqn:E; [|exact R].
    exfalso. apply (Hn i). apply releasing_spec. exact E.
Qed.

(* the same, read from the output: wherever clear_written_events appears *)
Corollary clear_written_position : forall cfg s ev ans s' out pre post,
  Reach cfg s -> ostep cfg s ev ans = (s', out) -> out = pre ++ ODb DbClearWritten :: post ->
  exists i, awaited_confirm cfg s ev i /\ pre = [OInfo i] /\ Forall nc post.
Proof.
  intros cfg s ev ans s' out pre post HR H Ho. apply reach_boundary_inv in HR.
  pose proof (ostep_release cfg s ev ans s' out HR H) as R. unfold release_only in R.
  destruct (releasing cfg s ev) as [i|] eqn:E.
  - destruct R as (rest & E1 & Hr). exists i. split; [apply releasing_spec; exact E|].
    rewrite E1 in Ho.
    destruct pre as [|x [|y pre]]; cbn in Ho.
    + discriminate Ho.
    + inversion Ho; subst. split; [reflexivity|exact Hr].
    + exfalso. inversion Ho; subst. rewrite Forall_forall in Hr.
      apply (Hr (ODb DbClearWritten)). apply in_or_app. right. left. reflexivity.
  - exfalso. subst out. rewrite Forall_forall in R. apply (R (ODb DbClearWritten)). apply in_or_app. right. left. reflexivity.
Qed.

(* start-up releases nothing *)
Theorem start_releases_nothing : forall cfg sel op iin a s o, ostart cfg sel op iin a = (s, o) -> Forall nc o.
Proof. exact ostart_nc. Qed.

(* the CONFIRM with the awaited sequence number releases (solicited, last / not last fragment; unsolicited);
   a CONFIRM with another sequence number, or with the wrong UNS bit, does not *)
Example ex_release_only_on_awaited_confirm :
  Reach (ex_cfg false) ex_sw /\ Reach (ex_cfg false) ex_sw2 /\ Reach (ex_cfg true) ex_uw /\
  awaited_confirm (ex_cfg false) ex_sw (ex_confirm false 3) (ISolConfirmed 3) /\
  ex_out false ex_sw (ex_confirm false 3) [] = [OInfo (ISolConfirmed 3); ODb DbClearWritten] /\
  ex_out false ex_sw2 (ex_confirm false 3) [AWrite true true (ex_body 8); ev0]
  = [OInfo (ISolConfirmed 3); ODb DbClearWritten; ODb DbWrite; ODb DbEvinfo; OTx 1 [100; 129; 128; 0; 2; 1; 40; 1; 0; 8; 0; 129]] /\
  awaited_confirm (ex_cfg true) ex_uw (ex_confirm true 1) (IUnsolConfirmed 1) /\
  ex_out true ex_uw (ex_confirm true 1) [] = [OInfo (IUnsolConfirmed 1); ODb DbClearWritten] /\
  (forall i, ~ awaited_confirm (ex_cfg false) ex_sw (ex_confirm false 4) i) /\
  ex_out false ex_sw (ex_confirm false 4) [] = [OInfo (ISolWrongSeq 3 4)] /\
  ex_out false ex_sw (ex_confirm true 3) [] = [OInfo (IUnexpectedConfirm true 3)] /\
  ex_out true ex_uw (ex_confirm true 2) [] = [] /\ ex_out true ex_uw (ex_confirm false 1) [] = [].
Proof.
  split; [apply ex_run_reach|]. split; [apply ex_run_reach|]. split; [apply ex_run_reach|].
  split; [apply releasing_spec; vm_compute; reflexivity|]. split; [vm_compute; reflexivity|].
  split; [vm_compute; reflexivity|].
  split; [apply releasing_spec; vm_compute; reflexivity|]. split; [vm_compute; reflexivity|].
  split; [intros i Hi; apply releasing_spec in Hi; vm_compute in Hi; discriminate Hi|].
  vm_compute. repeat split.
Qed.

Example ex_start_releases_nothing :
  snd (ostart (ex_cfg true) 0 0 0 [ev0]) = [ODb DbEvinfo; OTx 1 [240; 130; 128; 0]; OInfo (IEnterUnsolWait 0)].
Proof. vm_compute. reflexivity. Qed.

(* ---------- 2. abandoned responses are reset ------------------------------------------------------------------ *)

(* THEOREM 2a.  Whenever a solicited confirm wait is given up because the time ran out (ISolTimeout) or because
   another request arrived (ISolNewRequest), the very next observation is the reset of the database: before any
   select, write or event-info call that follows in the step. *)
Theorem abandoned_solicited_wait_resets : forall cfg s ev ans s' out,
  Reach cfg s -> ostep cfg s ev ans = (s', out) -> abandon_reset out.
Proof.
  intros cfg s ev ans s' out HR H. apply reach_boundary_inv in HR. exact (ostep_abandon_reset cfg s ev ans s' out HR H).
Qed.

Lemma abandon_reset_split : forall pre i post,
  abandon_reset (pre ++ OInfo i :: post) -> is_abandon i = true -> exists post', post = ODb DbReset :: post'.
Proof.
  induction pre as [|x pre IH]; intros i post H Hi.
  - cbn in H. rewrite Hi in H. destruct post as [|[d b|[]| | | | | |] post']; try destruct H. eauto.
  - cbn [app abandon_reset] in H. destruct x as [d b|c|c|j| |t| |]; try (eapply IH; eauto; fail).
    destruct (is_abandon j).
    + destruct (pre ++ OInfo i :: post) as [|[d b|[]| | | | | |] l] eqn:El; try destruct H.
      rewrite <- El in H. eapply IH; eauto.
    + eapply IH; eauto.
Qed.

Corollary abandoned_solicited_wait_resets_at : forall cfg s ev ans s' pre i post,
  Reach cfg s -> ostep cfg s ev ans = (s', pre ++ OInfo i :: post) ->
  (exists q, i = ISolTimeout q) \/ i = ISolNewRequest ->
  exists post', post = ODb DbReset :: post'.
Proof.
  intros cfg s ev ans s' pre i post HR H Hi.
  apply abandoned_solicited_wait_resets in H; [|exact HR]. eapply abandon_reset_split; [exact H|].
  destruct Hi as [[q ->]| ->]; reflexivity.
Qed.

(* THEOREM 2b.  A disconnect resets first, whatever the session was doing. *)
Theorem disconnect_resets : forall cfg s ans s' out,
  ostep cfg s EDisconnect ans = (s', out) -> exists rest, out = ODb DbReset :: OSessionEnd :: rest.
Proof.
  intros cfg s ans s' out H. unfold ostep in H.
  match type of H with context [idle_loop 8 cfg ?a] => destruct (idle_loop 8 cfg a) as [s2 o2] end.
  destruct (advance 64 cfg s2 (s_now s2 + settle_ms)) as [s3 o3]. inv_pair H. eauto.
Qed.

(* THEOREMS 2c / 3.  A response that may carry events is outstanding in state s (`waiting`).  Then the output of
   the next step is EITHER made of observations `wq s` only (solicited wait: no call into the database at all;
   unsolicited wait: at most the event-info probe for the answer to a request that is not a READ) and the same
   response is still outstanding afterwards, OR it is such a prefix followed by clear_written_events or reset.
   No time-out, new request, cancellation (DISABLE_UNSOLICITED, unicast or broadcast) or disconnect ends the
   wait silently, and nothing is selected or written before the clear / reset. *)
Theorem outstanding_step : forall cfg s ev ans s' out,
  waiting s = true -> ostep cfg s ev ans = (s', out) -> wait_shape s out s'.
Proof. exact ostep_wait. Qed.

(* the same for time passing inside a step (deadlines fired by `advance`), e.g. after the step itself entered the wait *)
Theorem outstanding_time : forall cfg target f s s' o,
  waiting s = true -> advance f cfg s target = (s', o) -> wait_shape s o s'.
Proof. intros cfg target. exact (advance_wait cfg target). Qed.

(* THEOREM 3 in terms of the output alone: a select / write call in a step that starts with a response
   outstanding is preceded, in that step, by the clear or the reset that ended the wait *)
Theorem one_response_outstanding : forall cfg s ev ans s' pre c post,
  waiting s = true -> ostep cfg s ev ans = (s', pre ++ ODb c :: post) -> is_mark c = true ->
  exists e, is_end e = true /\ In (ODb e) pre.
Proof.
  intros cfg s ev ans s' pre c post Hw H Hc. apply ostep_wait in H; [|exact Hw].
  assert (Hnq : ~ wq s (ODb c)).
  { unfold wq. destruct (s_control s); destruct c; try discriminate Hc; intros []. }
  destruct H as [[Hq _]|(pre' & e & post' & Ho & He & Hq)].
  - exfalso. apply Hnq. rewrite Forall_forall in Hq. apply Hq. apply in_or_app. right. left. reflexivity.
  - apply split_compare in Ho. destruct Ho as [Hi|[[Hx _]|Hi]].
    + exfalso. apply Hnq. rewrite Forall_forall in Hq. apply Hq. exact Hi.
    + inversion Hx; subst. destruct e; discriminate.
    + exists e. split; assumption.
Qed.

(* THEOREM 2 in terms of the output alone: when the event is not the awaited CONFIRM, what precedes the next
   select / write call is the RESET (so the events of the abandoned response are offered again) *)
Theorem abandoned_response_reset_before_reuse : forall cfg s ev ans s' pre c post,
  Reach cfg s -> waiting s = true -> (forall i, ~ awaited_confirm cfg s ev i) ->
  ostep cfg s ev ans = (s', pre ++ ODb c :: post) -> is_mark c = true -> In (ODb DbReset) pre.
Proof.
  intros cfg s ev ans s' pre c post HR Hw Hn H Hc.
  destruct (one_response_outstanding _ _ _ _ _ _ _ _ Hw H Hc) as (e & He & Hi).
  destruct (release_only_on_awaited_confirm _ _ _ _ _ _ HR H) as [_ Hnc]. specialize (Hnc Hn).
  destruct e; try discriminate He; [|exact Hi].
  exfalso. rewrite Forall_forall in Hnc. apply (Hnc (ODb DbClearWritten)). apply in_or_app. left. exact Hi.
Qed.

(* the wait does not end silently *)
Theorem wait_persists : forall cfg s ev ans s' out,
  waiting s = true -> ostep cfg s ev ans = (s', out) ->
  ~ In (ODb DbClearWritten) out -> ~ In (ODb DbReset) out ->
  same_wait s s' /\ Forall (wq s) out.
Proof.
  intros cfg s ev ans s' out Hw H N1 N2. apply ostep_wait in H; [|exact Hw].
  destruct H as [[Hq Hs]|(pre & e & post & -> & He & _)]; [split; assumption|].
  exfalso. destruct e; try discriminate He; [apply N1|apply N2]; apply in_or_app; right; left; reflexivity.
Qed.

(* every way out of the two waits, on the concrete states: time-out, new request, disconnect (solicited);
   retry then time-out without retry, DISABLE_UNSOLICITED unicast and broadcast, disconnect (unsolicited);
   and the ways that do not end the wait *)
Example ex_abandoned_responses_are_reset :
  ex_out false ex_sw (ESleep 6000) [] = [OAt 5000; OInfo (ISolTimeout 3); ODb DbReset] /\
  ex_out false ex_sw (ex_req 4) [ev1]
  = [OInfo ISolNewRequest; ODb DbReset; OInfo (IIdleRequest 24 4); ODb DbEvinfo; OTx 1 [196; 129; 130; 0]] /\
  ex_out false ex_sw EDisconnect [] = [ODb DbReset; OSessionEnd] /\
  ex_out true ex_uw (ESleep 10000) []
  = [OAt 5002; OInfo (IUnsolTimeout 1 true); OTx 1 [241; 130; 128; 0; 2; 1; 40; 1; 0; 7; 0; 129];
     OAt 10002; OInfo (IUnsolTimeout 1 false); ODb DbReset] /\
  ex_out true ex_uw (ex_disable 2) [ev1] = [ODb DbEvinfo; OTx 1 [194; 129; 130; 0]; ODb DbReset] /\
  ex_out true ex_uw ex_disable_bc [] = [OInfo (IBroadcast 21 0 0); ODb DbReset] /\
  ex_out true ex_uw EDisconnect [ev0] = [ODb DbReset; OSessionEnd] /\
  ex_out true ex_uw (ex_req 2) [ev1] = [ODb DbEvinfo; OTx 1 [194; 129; 130; 0]] /\
  same_wait ex_uw (fst (ostep (ex_cfg true) ex_uw (ex_req 2) [ev1])) /\
  same_wait ex_uw (fst (ostep (ex_cfg true) ex_uw (ESleep 5000) [])) /\
  same_wait ex_sw (fst (ostep (ex_cfg false) ex_sw (ex_read 3) [])) /\
  abandon_reset (ex_out false ex_sw (ex_req 4) [ev1]).
Proof. vm_compute. repeat split; eauto. Qed.

Example ex_one_response_outstanding :
  wait_shape ex_sw (ex_out false ex_sw (ex_req 4) [ev1]) (fst (ostep (ex_cfg false) ex_sw (ex_req 4) [ev1])) /\
  (* the read that follows the abandoned series selects and writes after the reset *)
  ex_out false ex_sw (ex_read 4) (ex_read_ans true)
  = [OInfo ISolNewRequest; ODb DbReset; OInfo (IIdleRequest 1 4); ODb DbSelect; ODb DbWrite; ODb DbEvinfo;
     OTx 1 [228; 129; 128; 0; 2; 1; 40; 1; 0; 7; 0; 129]; OInfo (IEnterSolWait 4)] /\
  (* a READ during the unsolicited wait is deferred: nothing is selected or written *)
  ex_out true ex_uw (ex_read 4) (ex_read_ans true) = [] /\
  (* ... until the CONFIRM arrives: clear first, then the deferred READ *)
  ex_out true (fst (ostep (ex_cfg true) ex_uw (ex_read 4) [])) (ex_confirm true 1) (ex_read_ans true)
  = [OInfo (IUnsolConfirmed 1); ODb DbClearWritten; ODb DbDeferredSelect; ODb DbWrite; ODb DbEvinfo;
     OTx 1 [228; 129; 128; 0; 2; 1; 40; 1; 0; 7; 0; 129]; OInfo (IEnterSolWait 4)].
Proof.
  split; [apply (outstanding_step (ex_cfg false) ex_sw (ex_req 4) [ev1]); [vm_compute; reflexivity|apply surjective_pairing]|].
  vm_compute. repeat split.
Qed.

(* ---------- 4. composed with the database model (Outstation/Full.v) ----------------------------------------- *)

(* the ids of the events in the buffer, oldest first; those marked Written; the others *)
Definition ev_ids (d : db) : list N := map r_id (eb_events (db_events d)).
Definition written_ids (d : db) : list N := map r_id (filter is_written (eb_events (db_events d))).
Definition unwritten_ids (d : db) : list N :=
  map r_id (filter (fun r => negb (is_written r)) (eb_events (db_events d))).

Lemma ids_core l l' (X : erec -> erec -> Prop) :
  Forall2 (fun r r' => core_eq r r' /\ X r r') l l' -> map r_id l' = map r_id l.
Proof. induction 1 as [|r r' l l' [[H _] _] _ IH]; cbn [map]; [reflexivity|]. rewrite IH, H. reflexivity. Qed.

Lemma ids_select_loop sel lim l : sel_ok sel -> map r_id (fst (select_loop sel lim l)) = map r_id l.
Proof. intros H. eapply ids_core. apply select_loop_core. exact H. Qed.

Lemma ids_select_by_header b h : map r_id (eb_events (fst (ebuf_select_by_header b h))) = map r_id (eb_events b).
Proof.
  destruct h as [k lim|t v lim]; cbn [ebuf_select_by_header].
  - unfold ebuf_select_by_class.
    pose proof (ids_select_loop (sel_class (eclass_eqb k Class1) (eclass_eqb k Class2) (eclass_eqb k Class3)) lim (eb_events b)
                  (sel_class_ok _ _ _)) as H.
    destruct (select_loop _ lim (eb_events b)) as [evs n]. exact H.
  - unfold ebuf_select_by_type.
    pose proof (ids_select_loop (sel_type t v) lim (eb_events b) (sel_type_ok _ _)) as H.
    destruct (select_loop _ lim (eb_events b)) as [evs n]. exact H.
Qed.

Lemma ids_db_select d h : ev_ids (fst (db_select d h)) = ev_ids d.
Proof.
  unfold ev_ids. destruct h as [h|h]; cbn [db_select].
  - destruct (sdb_select (db_static d) h) as [s' iin]. reflexivity.
  - pose proof (ids_select_by_header (db_events d) h) as H.
    destruct (ebuf_select_by_header (db_events d) h) as [e' n]. exact H.
Qed.

Lemma ids_reset d : ev_ids (db_reset d) = ev_ids d.
Proof. unfold ev_ids, db_reset. cbn [db_events ebuf_reset eb_events]. rewrite map_map. reflexivity. Qed.

Lemma ids_select_headers : forall hs d, ev_ids (fst (fst (select_headers d hs))) = ev_ids d.
Proof.
  induction hs as [|h r IH]; intros d; cbn [select_headers]; [reflexivity|].
  destruct (rh_classify h) as [|x| |].
  - specialize (IH d). destruct (select_headers d r) as [[d' v] u]. exact IH.
  - pose proof (ids_db_select d x) as Hs. destruct (db_select d x) as [d1 v1].
    specialize (IH d1). destruct (select_headers d1 r) as [[d2 v2] u]. cbn [fst] in *. congruence.
  - apply IH.
  - specialize (IH d). destruct (select_headers d r) as [[d' v] u]. exact IH.
Qed.

Lemma ids_select_deferred d hs : ev_ids (fst (fst (select_deferred d hs))) = ev_ids d.
Proof. unfold select_deferred. rewrite ids_select_headers. apply ids_reset. Qed.

Lemma ids_mark_written : forall l k, map r_id (mark_written k l) = map r_id l.
Proof.
  induction l as [|r l IH]; intros k; cbn [mark_written map]; [reflexivity|].
  destruct (is_selected r); [destruct k|]; cbn [map]; rewrite ?IH; reflexivity.
Qed.

Lemma ids_write_hdrs b budget : map r_id (eb_events (fst (ebuf_write_hdrs b budget))) = map r_id (eb_events b).
Proof.
  unfold ebuf_write_hdrs.
  destruct (write_loop (eb_events b) (ew_new budget) (eb_written b)) as [[[[evs w] cnt] n] c] eqn:E.
  apply write_loop_spec in E. destruct E as (_ & -> & _). apply ids_mark_written.
Qed.

Lemma ids_write_response d budget : ev_ids (fst (db_write_response d budget)) = ev_ids d.
Proof.
  unfold ev_ids, db_write_response. pose proof (ids_write_hdrs (db_events d) budget) as H.
  destruct (ebuf_write_hdrs (db_events d) budget) as [e r]. cbn [fst] in H.
  destruct (wr_complete r); [destruct (sdb_write_hdrs (db_static d) (wr_rem r)) as [s0 [[out x] c]]|]; exact H.
Qed.

Lemma ids_write_events_only d budget : ev_ids (fst (db_write_events_only d budget)) = ev_ids d.
Proof.
  unfold ev_ids, db_write_events_only, ebuf_write. pose proof (ids_write_hdrs (db_events d) budget) as H.
  destruct (ebuf_write_hdrs (db_events d) budget) as [e r]. exact H.
Qed.

Lemma ids_unsol_answer F d c1 c2 c3 : ev_ids (fst (unsol_answer F d c1 c2 c3)) = ev_ids d.
Proof.
  unfold unsol_answer, db_select_event_classes.
  pose proof (ids_select_loop (sel_class c1 c2 c3) None (eb_events (db_events (db_reset d))) (sel_class_ok _ _ _)) as H.
  unfold ebuf_select_by_class. destruct (select_loop _ None _) as [evs n]. cbn [fst] in H.
  assert (H1 : ev_ids (mkDb (db_static (db_reset d)) (with_events (db_events (db_reset d)) evs)) = ev_ids d).
  { unfold ev_ids at 1. cbn [db_events with_events eb_events]. rewrite H. apply ids_reset. }
  destruct (n =? 0); [exact H1|].
  match goal with |- context [db_write_events_only ?a ?b] => pose proof (ids_write_events_only a b) as H2;
    destruct (db_write_events_only a b) as [d2 [bytes written]] end.
  cbn [fst] in *. congruence.
Qed.

Lemma ids_write_answer F d : ev_ids (fst (write_answer F d)) = ev_ids d.
Proof.
  unfold write_answer.
  match goal with |- context [db_write_response d ?b] => pose proof (ids_write_response d b) as H;
    destruct (db_write_response d b) as [d1 [[bytes he] cpl]] end. exact H.
Qed.

(* clear_written_events removes exactly the Written records and reports their ids *)
Lemma ids_clear d :
  ev_ids (fst (db_clear_written d)) = unwritten_ids d /\ fst (snd (db_clear_written d)) = written_ids d.
Proof.
  unfold ev_ids, unwritten_ids, written_ids, db_clear_written.
  pose proof (clear_written_releases_exactly_written (db_events d)) as [H1 H2].
  destruct (ebuf_clear_written (db_events d)) as [e ids]. cbn [fst snd db_events] in *. rewrite H1, H2. split; reflexivity.
Qed.

(* every id is either Written or not: clear_written_events splits the buffer *)
Lemma ids_partition d x : In x (ev_ids d) <-> In x (unwritten_ids d) \/ In x (written_ids d).
Proof.
  unfold ev_ids, unwritten_ids, written_ids. rewrite !in_map_iff. split.
  - intros (r & Hr & Hi). destruct (is_written r) eqn:E.
    + right. exists r. split; [exact Hr|]. apply filter_In. auto.
    + left. exists r. split; [exact Hr|]. apply filter_In. rewrite E. auto.
  - intros [(r & Hr & Hi)|(r & Hr & Hi)]; apply filter_In in Hi; exists r; tauto.
Qed.

Theorem clear_written_ids : forall d,
  ev_ids (fst (db_clear_written d)) = unwritten_ids d /\ fst (snd (db_clear_written d)) = written_ids d /\
  forall x, In x (ev_ids d) <-> In x (unwritten_ids d) \/ In x (written_ids d).
Proof. intros d. exact (conj (proj1 (ids_clear d)) (conj (proj2 (ids_clear d)) (ids_partition d))). Qed.

(* a pass of the replay over observations without clear_written_events keeps the ids *)
Lemma walk_ids F : forall rest d c n log, Forall nc rest ->
  match walk F d c n log rest with
  | WDone d' _ _ => ev_ids d' = ev_ids d
  | WAsk d' _ _ _ k => ev_ids d' = ev_ids d /\ (n <= k)%nat
  | WBad _ => True
  end.
Proof.
  induction rest as [|o tl IH]; intros d c n log Hnc; cbn [walk]; [reflexivity|].
  inversion Hnc as [|x l Hx Hl]; subst.
  assert (Hstep : forall d0 c0 log0, ev_ids d0 = ev_ids d ->
            match walk F d0 c0 (S n) log0 tl with
            | WDone d' _ _ => ev_ids d' = ev_ids d
            | WAsk d' _ _ _ k => ev_ids d' = ev_ids d /\ (n <= k)%nat
            | WBad _ => True
            end).
  { intros d0 c0 log0 Hd. specialize (IH d0 c0 (S n) log0 Hl).
    destruct (walk F d0 c0 (S n) log0 tl) as [d' c' log'|d' c' log' a k|log']; [congruence| |exact I].
    destruct IH as [A B]. split; [congruence|lia]. }
  destruct o as [dest bytes|call|cb|i| |t| |]; try (apply Hstep; reflexivity); try exact I.
  - destruct call as [| |c1 c2 c3| | | |].
    + destruct tl as [|[] tl']; try exact I.
      pose proof (ids_select_headers (request_headers (wc_cur c)) d) as H.
      destruct (select_headers d _) as [[d1 v] u]. split; [exact H|lia].
    + destruct tl as [|[] tl']; try exact I.
      pose proof (ids_write_answer F d) as H. destruct (write_answer F d) as [d1 a]. split; [exact H|lia].
    + pose proof (ids_unsol_answer F d c1 c2 c3) as H.
      destruct (unsol_answer F d c1 c2 c3) as [d1 [cnt body]]. destruct (cnt =? 0); (split; [exact H|lia]).
    + destruct Hx.
    + apply Hstep. apply ids_reset.
    + destruct tl as [|[] tl']; try exact I. split; [reflexivity|lia].
    + destruct tl as [|[] tl']; try exact I.
      pose proof (ids_select_deferred d (request_headers (deferred_request c))) as H.
      destruct (select_deferred d _) as [[d1 v] u]. split; [exact H|lia].
  - destruct i; apply Hstep; reflexivity.
Qed.

Lemma Forall_skipn {A} (P : A -> Prop) : forall k l, Forall P l -> Forall P (skipn k l).
Proof.
  induction k as [|k IH]; intros l H; [exact H|]. destruct l as [|x l]; [constructor|].
  cbn [skipn]. apply IH. inversion H; assumption.
Qed.

Lemma releasing_info cfg s ev i : releasing cfg s ev = Some i -> (exists q, i = ISolConfirmed q) \/ (exists q, i = IUnsolConfirmed q).
Proof.
  intros H. apply releasing_spec in H.
  destruct H as (from & bytes & ctl & obj & _ & _ & [(se & dl & r & _ & _ & _ & ->)|(resp & rt & dl & _ & _ & _ & ->)]); eauto.
Qed.

Section Replay.
  Variable F : fcfg.
  Variable run : list answer -> ostate * list oobs.
  Variable d0 : db.
  Variable rel : option infocb.
  Hypothesis Hrel : forall a, release_only rel (snd (run a)).
  Hypothesis Hrel_info : forall i, rel = Some i -> (exists q, i = ISolConfirmed q) \/ (exists q, i = IUnsolConfirmed q).

  (* the ids in the buffer at the end of a converged replay / at any point of it *)
  Definition fin_ids (d : db) : Prop :=
    match rel with None => ev_ids d = ev_ids d0 | Some _ => ev_ids d = unwritten_ids d0 end.
  Definition rinv_ids (r : rstate) : Prop :=
    match rel with
    | None => ev_ids (rs_db r) = ev_ids d0
    | Some _ => (rs_settled r = 0%nat /\ rs_db r = d0) \/ ((2 <= rs_settled r)%nat /\ ev_ids (rs_db r) = unwritten_ids d0)
    end.

  Lemma walk_from r : rinv_ids r ->
    match walk F (rs_db r) (rs_ctx r) (rs_settled r) (rs_log r)
               (skipn (rs_settled r) (snd (run (rs_answers r ++ [sentinel])))) with
    | WDone d' _ _ => fin_ids d'
    | WAsk d' _ _ _ k => match rel with None => ev_ids d' = ev_ids d0 | Some _ => (2 <= k)%nat /\ ev_ids d' = unwritten_ids d0 end
    | WBad _ => True
    end.
  Proof.
    unfold rinv_ids, fin_ids. intros Hr. pose proof (Hrel (rs_answers r ++ [sentinel])) as Ho.
    set (out := snd (run (rs_answers r ++ [sentinel]))) in *. unfold release_only in Ho.
    destruct rel as [i|] eqn:Erel.
    - destruct Ho as (rest & Eo & Hnc).
      destruct Hr as [[Hs Hd]|[Hs Hd]].
      + rewrite Hs, Hd, Eo. cbn [skipn].
        assert (Hw : forall c log, walk F d0 c 0 log (OInfo i :: ODb DbClearWritten :: rest)
                      = let '(d1, (ids, cnt)) := db_clear_written d0 in
                        walk F d1 c 2 (FCleared ids (c_c1 cnt) (c_c2 cnt) (c_c3 cnt) :: FObs (ODb DbClearWritten) :: FObs (OInfo i) :: log) rest).
        { intros c log. destruct (Hrel_info i eq_refl) as [[q ->]|[q ->]]; reflexivity. }
        rewrite Hw. pose proof (ids_clear d0) as [Hc _].
        destruct (db_clear_written d0) as [d1 [ids cnt]]. cbn [fst] in Hc.
        match goal with |- context [walk F d1 ?c 2%nat ?l rest] => pose proof (walk_ids F rest d1 c 2%nat l Hnc) as Hwk;
          destruct (walk F d1 c 2%nat l rest) as [d' c' log'|d' c' log' a k|log'] end; [congruence| |exact I].
        destruct Hwk as [A B]. split; [exact B|congruence].
      + assert (Hsk : Forall nc (skipn (rs_settled r) out)).
        { rewrite Eo. destruct (rs_settled r) as [|[|m]]; try lia. cbn [skipn]. apply Forall_skipn. exact Hnc. }
        pose proof (walk_ids F _ (rs_db r) (rs_ctx r) (rs_settled r) (rs_log r) Hsk) as Hwk.
        destruct (walk F (rs_db r) (rs_ctx r) (rs_settled r) (rs_log r) (skipn (rs_settled r) out)) as [d' c' log'|d' c' log' a k|log'];
          [congruence| |exact I].
        destruct Hwk as [A B]. split; [lia|congruence].
    - pose proof (walk_ids F _ (rs_db r) (rs_ctx r) (rs_settled r) (rs_log r) (Forall_skipn nc (rs_settled r) out Ho)) as Hwk.
      destruct (walk F (rs_db r) (rs_ctx r) (rs_settled r) (rs_log r) (skipn (rs_settled r) out)) as [d' c' log'|d' c' log' a k|log'];
        [congruence| |exact I].
      destruct Hwk as [A B]. congruence.
  Qed.

  Lemma replay_ids : forall fuel r r', rinv_ids r ->
    (replay fuel F run r = RDone r' -> fin_ids (rs_db r')) /\ (replay fuel F run r = RFail r' -> rinv_ids r').
  Proof.
    induction fuel as [|f IH]; intros r r' Hr; cbn [replay].
    { split; [discriminate|]. intros H; inv_pair H. exact Hr. }
    pose proof (walk_from r Hr) as Hw.
    destruct (walk F (rs_db r) (rs_ctx r) (rs_settled r) (rs_log r) (skipn (rs_settled r) (snd (run (rs_answers r ++ [sentinel])))))
      as [d c log|d c log a k|log].
    - split; [|discriminate]. intros H; inv_pair H. exact Hw.
    - apply IH. unfold rinv_ids. cbn [rs_db rs_settled]. destruct rel; [right|]; exact Hw.
    - split; [discriminate|]. intros H; inv_pair H. exact Hr.
  Qed.

  Lemma replay_event_ids c :
    let ro := replay_event F d0 c run in
    ~ In FReplayError (ro_log ro) -> fin_ids (ro_db ro).
  Proof.
    unfold replay_event. cbv zeta.
    match goal with |- context [replay replay_fuel F run ?x] => set (r0 := x) end.
    assert (H0 : rinv_ids r0). { unfold rinv_ids. destruct rel; [left; split; reflexivity|reflexivity]. }
    destruct (replay replay_fuel F run r0) as [r|r] eqn:R.
    - destruct (run (rs_answers r)) as [s1 out]. cbn [ro_db ro_log]. intros _.
      exact (proj1 (replay_ids _ _ _ H0) R).
    - destruct (run (rs_answers r)) as [s1 out]. cbn [ro_log]. intros Hno. exfalso. apply Hno. apply in_rev_cons_r.
  Qed.
End Replay.

Local Opaque replay_event.

(* THEOREM 4a.  One session event of the composed model (the database in the loop, its answers computed), from a
   session state satisfying the boundary invariant, database d: if the event is the awaited CONFIRM, the step's
   observations begin with the information callback and clear_written_events, and the ids left in the buffer are
   exactly those NOT marked Written in d - the database as it was at the moment of the call, since only the
   information callback precedes it (the ids reported to the application are `written_ids d`: ids_clear); for
   any other event, whatever the session does in the step (select, write, reset, time-outs, ...), the ids in
   the buffer are the same before and after: nothing is removed, nothing is invented. *)
Theorem fevent_release : forall F st d ev,
  boundary_inv (fs_s st) ->
  let ro := fevent_out F st d ev in
  ~ In FReplayError (ro_log ro) ->
  (forall i, awaited_confirm (f_o F) (fs_s st) ev i ->
     ev_ids (ro_db ro) = unwritten_ids d /\
     exists rest, ro_out ro = OInfo i :: ODb DbClearWritten :: rest /\ Forall nc rest) /\
  ((forall i, ~ awaited_confirm (f_o F) (fs_s st) ev i) ->
     ev_ids (ro_db ro) = ev_ids d /\ Forall nc (ro_out ro)).
Proof.
  intros F st d ev HJ ro Hno.
  pose proof (fevent_complete F st d ev Hno) as [Hrun _]. fold ro in Hrun.
  pose proof (ostep_release _ _ _ _ _ _ HJ Hrun) as Hout.
  assert (Hrel : forall a, release_only (releasing (f_o F) (fs_s st) ev) (snd (ostep (f_o F) (fs_s st) ev a))).
  { intros a. destruct (ostep (f_o F) (fs_s st) ev a) as [s1 o1] eqn:E. cbn [snd].
    exact (ostep_release _ _ _ _ _ _ HJ E). }
  pose proof (replay_event_ids F (fun a => ostep (f_o F) (fs_s st) ev a) d (releasing (f_o F) (fs_s st) ev) Hrel
                (releasing_info (f_o F) (fs_s st) ev) (ctx_of (f_o F) (fs_s st) ev) Hno) as Hids.
  change (replay_event F d (ctx_of (f_o F) (fs_s st) ev) (fun a => ostep (f_o F) (fs_s st) ev a)) with ro in Hids.
  unfold fin_ids, release_only in *. split.
  - intros i Hi. apply releasing_spec in Hi. rewrite Hi in Hids, Hout. split; assumption.
  - intros Hn. destruct (releasing (f_o F) (fs_s st) ev) as [i|] eqn:E; [|split; assumption].
    exfalso. apply (Hn i). apply releasing_spec. exact E.
Qed.

(* start-up: the buffer is empty and stays empty *)
Theorem fstart_release : forall F sel op iin,
  ~ In FReplayError (snd (fstart F sel op iin)) -> ev_ids (fs_db (fst (fstart F sel op iin))) = [].
Proof.
  intros F sel op iin Hno.
  assert (Hrel : forall a, release_only None (snd (ostart (f_o F) sel op iin a))).
  { intros a. destruct (ostart (f_o F) sel op iin a) as [s1 o1] eqn:E. cbn [snd release_only].
    eapply ostart_nc. exact E. }
  assert (Hinfo : forall i, @None infocb = Some i -> (exists q, i = ISolConfirmed q) \/ (exists q, i = IUnsolConfirmed q))
    by discriminate.
  exact (replay_event_ids F (fun a => ostart (f_o F) sel op iin a) (fdb_new F) None Hrel Hinfo ctx_start Hno).
Qed.

(* the boundary invariant holds along every history of the composed model *)
Inductive FReach (F : fcfg) : fstate -> Prop :=
| FReach_start : forall sel op iin, FReach F (fst (fstart F sel op iin))
| FReach_step : forall st op, FReach F st -> FReach F (fst (fstep F st op)).

Lemma fstart_boundary F sel op iin : boundary_inv (fs_s (fst (fstart F sel op iin))).
Proof.
  unfold fstart. cbn [fst fs_s]. unfold fstart_out.
  destruct (replay_event_inv F (fdb_new F) ctx_start (fun a => ostart (f_o F) sel op iin a)) as (_ & _ & Hr).
  cbv beta in Hr. pose proof (boundary_inv_start (f_o F) sel op iin (ro_answers (replay_event F (fdb_new F) ctx_start (fun a => ostart (f_o F) sel op iin a)))) as H.
  rewrite Hr in H. exact H.
Qed.

Lemma fevent_boundary F st d ev : boundary_inv (fs_s st) -> boundary_inv (fs_s (fst (fevent F st d ev))).
Proof.
  intros HJ. unfold fevent. cbn [fst fs_s]. unfold fevent_out.
  destruct (replay_event_inv F d (ctx_of (f_o F) (fs_s st) ev) (fun a => ostep (f_o F) (fs_s st) ev a)) as (_ & _ & Hr).
  cbv beta in Hr.
  pose proof (boundary_inv_step (f_o F) (fs_s st) ev (ro_answers (replay_event F d (ctx_of (f_o F) (fs_s st) ev) (fun a => ostep (f_o F) (fs_s st) ev a))) HJ) as H.
  rewrite Hr in H. exact H.
Qed.

Theorem freach_boundary_inv F st : FReach F st -> boundary_inv (fs_s st).
Proof.
  induction 1 as [sel op iin|st op _ IH]; [apply fstart_boundary|].
  destruct (fstep_fevent F st op) as [-> _]. apply fevent_boundary. exact IH.
Qed.

(* what the user's transaction of a script operation does to the event buffer: nothing, or one insert *)
Lemma fop_event_db st op :
  db_events (fst (fop_event st op)) = db_events (fs_db st) \/
  exists t i v var k, op = FUpdate t i v /\
    db_events (fst (fop_event st op)) = fst (ebuf_insert (db_events (fs_db st)) i k t v var).
Proof.
  destruct op as [from bc bytes|ms|t i k|t i v|sel op|v|]; cbn [fop_event fst]; try (left; reflexivity).
  - left. unfold db_add. destruct (sdb_add (db_static (fs_db st)) t i (default_pconfig t k)) as [s ok]. reflexivity.
  - unfold db_update. destruct (sdb_update (db_static (fs_db st)) t i v true Detect) as [[s ex] [[var k]|]].
    + right. exists t, i, v, var, k. split; [reflexivity|].
      destruct (ebuf_insert (db_events (fs_db st)) i k t v var) as [e r]. reflexivity.
    + left. reflexivity.
Qed.

(* THEOREM 4b.  One operation of a script, from any state reachable in the composed model.  Let d1 be the
   database after the user's transaction of the operation (FUpdate: at most one ebuf_insert - the only place where
   an overflow can discard an event, see C03_insert_overflow_discards_oldest_same_type; every other operation:
   the event buffer untouched).  Then the session's part of the operation leaves the ids of d1 in the buffer,
   except when the operation is the reception of the awaited CONFIRM: then exactly the ids marked Written at
   that moment leave (d1 is the database before the operation: a reception has no user transaction). *)
Theorem fstep_release : forall F st op,
  FReach F st -> ~ In FReplayError (snd (fstep F st op)) ->
  let d1 := fst (fop_event st op) in
  let ev := snd (fop_event st op) in
  let st' := fst (fstep F st op) in
  (db_events d1 = db_events (fs_db st) \/
   exists t i v var k, op = FUpdate t i v /\ db_events d1 = fst (ebuf_insert (db_events (fs_db st)) i k t v var)) /\
  (forall i, awaited_confirm (f_o F) (fs_s st) ev i ->
     d1 = fs_db st /\ ev_ids (fs_db st') = unwritten_ids (fs_db st)) /\
  ((forall i, ~ awaited_confirm (f_o F) (fs_s st) ev i) -> ev_ids (fs_db st') = ev_ids d1).
Proof.
  intros F st op HR Hno d1 ev st'. apply freach_boundary_inv in HR.
  split; [apply fop_event_db|].
  destruct (fstep_fevent F st op) as [Hst [pre Hlog]].
  assert (Hno' : ~ In FReplayError (ro_log (fevent_out F st d1 ev))).
  { intros Hin. apply Hno. rewrite Hlog. apply in_or_app. right. exact Hin. }
  pose proof (fevent_release F st d1 ev HR Hno') as [A B].
  assert (Hdb : fs_db st' = ro_db (fevent_out F st d1 ev)) by (unfold st'; rewrite Hst; reflexivity).
  split.
  - intros i Hi. destruct (A i Hi) as [A1 _].
    assert (Hd : d1 = fs_db st).
    { destruct Hi as (from & bytes & ctl & obj & Hev & _). unfold ev, d1 in *.
      destruct op; cbn [fop_event snd fst] in *; try discriminate Hev; reflexivity. }
    split; [exact Hd|]. rewrite Hdb, A1, Hd. reflexivity.
  - intros Hn. rewrite Hdb. apply (B Hn).
Qed.

(* ---- a concrete history of the composed model ---- *)

Fixpoint ffinal (F : fcfg) (st : fstate) (ops : list fop) : fstate :=
  match ops with
  | [] => st
  | op :: rest => ffinal F (fst (fstep F st op)) rest
  end.

Lemma FReach_ffinal F ops : forall st, FReach F st -> FReach F (ffinal F st ops).
Proof. induction ops as [|op rest IH]; intros st H; cbn [ffinal]; [exact H|]. apply IH. constructor. exact H. Qed.

Definition ex_full_cfg (evbuf : N) : fcfg :=
  {| f_o := {| o_master := 1; o_any_master := false; o_unsol := true; o_broadcast := true;
               o_confirm_ms := 5000; o_select_ms := 5000; o_retries := None; o_retry_delay_ms := 5000;
               o_max_controls := None; o_sol_tx := 2048; o_delay_ms := 0; o_cold := None; o_warm := None;
               o_wtime := 0; o_freeze := 1 |};
     f_unsol_tx := 2048; f_evbuf := evbuf |}.

Definition ex_bi (v : N) (t : N) : meas := mkMeas v 1 (Some (true, t)) [].

(* one class 1 point, the CONFIRM of the null unsolicited response, two events, a class 1 poll: the response
   carrying both events (ids 0 and 1, now Written) awaits its CONFIRM, sequence 1 *)
Definition ex_full_ops : list fop :=
  [FAdd TBinary 0 (Some Class1);
   FRx 1 None [208; 0];
   FUpdate TBinary 0 (ex_bi 1 1000);
   FUpdate TBinary 0 (ex_bi 0 2000);
   FRx 1 None [193; 1; 60; 2; 6]].

Definition ex_fst (evbuf : N) : fstate := ffinal (ex_full_cfg evbuf) (fst (fstart (ex_full_cfg evbuf) 0 0 0)) ex_full_ops.

Lemma ex_fst_reach evbuf : FReach (ex_full_cfg evbuf) (ex_fst evbuf).
Proof. apply FReach_ffinal. constructor. Qed.

Definition has_replay_error (l : list fobs) : bool :=
  existsb (fun x => match x with FReplayError => true | _ => false end) l.

Lemma no_replay_error l : has_replay_error l = false -> ~ In FReplayError l.
Proof.
  intros H Hin. unfold has_replay_error in H.
  assert (E : existsb (fun x => match x with FReplayError => true | _ => false end) l = true).
  { apply existsb_exists. exists FReplayError. split; [exact Hin|reflexivity]. }
  congruence.
Qed.

(* the CONFIRM with sequence 1 is awaited and releases exactly the two Written events; a CONFIRM with another
   sequence number, a time-out, a further update leave every id in the buffer (the time-out resets: nothing is
   Written any more, the events are offered again); with a buffer of one event per type the second update
   overflows INSIDE the user's transaction: id 0 is discarded there, the session part of the step removes nothing *)
Example ex_fstep_release :
  let F := ex_full_cfg 5 in
  let st := ex_fst 5 in
  FReach F st /\ waiting (fs_s st) = true /\
  ev_ids (fs_db st) = [0; 1] /\ written_ids (fs_db st) = [0; 1] /\ unwritten_ids (fs_db st) = [] /\
  awaited_confirm (f_o F) (fs_s st) (snd (fop_event st (FRx 1 None [193; 0]))) (ISolConfirmed 1) /\
  has_replay_error (snd (fstep F st (FRx 1 None [193; 0]))) = false /\
  ev_ids (fs_db (fst (fstep F st (FRx 1 None [193; 0])))) = [] /\
  In (FCleared [0; 1] 0 0 0) (snd (fstep F st (FRx 1 None [193; 0]))) /\
  (forall i, ~ awaited_confirm (f_o F) (fs_s st) (snd (fop_event st (FRx 1 None [194; 0]))) i) /\
  ev_ids (fs_db (fst (fstep F st (FRx 1 None [194; 0])))) = [0; 1] /\
  has_replay_error (snd (fstep F st (FSleep 6000))) = false /\
  ev_ids (fs_db (fst (fstep F st (FSleep 6000)))) = [0; 1] /\
  written_ids (fs_db (fst (fstep F st (FSleep 6000)))) = [] /\
  ev_ids (fs_db (fst (fstep F st (FUpdate TBinary 0 (ex_bi 1 3000))))) = [0; 1; 2] /\
  written_ids (fs_db (fst (fstep F st (FUpdate TBinary 0 (ex_bi 1 3000))))) = [0; 1] /\
  ev_ids (fs_db (ex_fst 1)) = [1] /\
  ev_ids (fst (fop_event (ex_fst 1) (FUpdate TBinary 0 (ex_bi 1 3000)))) = [2] /\
  ev_ids (fs_db (fst (fstep (ex_full_cfg 1) (ex_fst 1) (FUpdate TBinary 0 (ex_bi 1 3000))))) = [2].
Proof.
  cbv zeta. split; [apply ex_fst_reach|].
  split; [vm_compute; reflexivity|]. split; [vm_compute; reflexivity|]. split; [vm_compute; reflexivity|].
  split; [vm_compute; reflexivity|].
  split; [apply releasing_spec; vm_compute; reflexivity|].
  split; [vm_compute; reflexivity|]. split; [vm_compute; reflexivity|].
  split; [vm_compute; tauto|].
  split; [intros i Hi; apply releasing_spec in Hi; vm_compute in Hi; discriminate Hi|].
  vm_compute. repeat split.
Qed.
