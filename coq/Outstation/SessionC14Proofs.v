(* Outstation/SessionC14Proofs.v — property C14 over the session model. *)
From Dnp3V Require Import Outstation.Session Outstation.SessionLemmas_c14.
Open Scope N_scope.

(* ---------- histories ------------------------------------------------------------------------------ *)

(* what an observer of the session sees: the events fed in (with the time they arrive at) and the
   observations the session makes *)
Inductive item := IEv (t : Z) (ev : oevent) | IOb (o : oobs).

(* durations are not negative *)
Definition ev_ok (ev : oevent) : Prop := match ev with ESleep ms => (0 <= ms)%Z | _ => True end.

(* the states reachable from start-up, with the history that leads to them: any configuration, any
   events, any answers of the environment *)
Inductive Trace (cfg : ocfg) : ostate -> list item -> Prop :=
| Tr_start : forall sel op iin a s o, ostart cfg sel op iin a = (s, o) -> Trace cfg s (map IOb o)
| Tr_step : forall s tr ev a s' o,
    Trace cfg s tr -> ev_ok ev -> ostep cfg s ev a = (s', o) ->
    Trace cfg s' (tr ++ IEv (s_now s) ev :: map IOb o).

Definition Reach (cfg : ocfg) (s : ostate) : Prop := exists tr, Trace cfg s tr.

(* ---------- the basic invariant ------------------------------------------------------------------ *)

Definition Inv (cfg : ocfg) (s : ostate) : Prop :=
  last_ok s /\
  match s_control s with
  | CUnsolWait r n ret dl =>
      r_fn r = 130 /\ o_unsol cfg = true /\
      (if n then ret = Some 0%nat /\ r_size r = 0%nat /\ s_unsol s = UNullRequired
       else exists d, s_unsol s = UReady d)
  | _ => True
  end.

Lemma inv_not_wait : forall cfg s, last_ok s -> is_uw (s_control s) = false -> Inv cfg s.
Proof. intros cfg s Hl Hu. split; [exact Hl|]. destruct (s_control s); try exact I. discriminate. Qed.

Lemma inv_idle : forall cfg s, last_ok s -> s_control s = CIdle -> Inv cfg s.
Proof. intros cfg s Hl Hc. apply inv_not_wait; [exact Hl|rewrite Hc; reflexivity]. Qed.

Lemma ustep_inv : forall cfg e s o s', ustep cfg e s o s' -> Inv cfg s -> Inv cfg s'.
Proof.
  intros cfg e s o s' H [Hl Hw]. destruct H.
  - (* quiet *)
    destruct H as [Hbl _ _]. split; [auto|]. unfold qv in H1.
    destruct H2 as [Hc|[Hu Hu']].
    + rewrite Hc. destruct (s_control s) as [| |r n ret dl]; try exact I.
      destruct Hw as (Hf & Hu & Hn). split; [exact Hf|]. split; [exact Hu|].
      destruct n; [|destruct Hn as [d Hd]; exists d; congruence].
      destruct Hn as (H1' & H2' & H3'). repeat split; congruence.
    + destruct (s_control s'); try exact I. discriminate.
  - (* null *)
    destruct H2 as (r & o1 & _ & _ & Hf & _ & Hsz & Hc & _ & _ & Hu & _ & _ & _ & _ & Hla).
    split; [eapply last_ok_same; eauto|]. rewrite Hc. repeat split; auto. congruence.
  - (* data *)
    destruct H6 as (r & o1 & _ & _ & Hf & _ & Hsz & Hc & _ & _ & Hu & _ & _ & _ & _ & Hla).
    split; [eapply last_ok_same; eauto|]. rewrite Hc. repeat split; auto. exists dl. congruence.
  - split; [auto|]. rewrite H1. exact I.
  - split; [apply H8; exact Hl|]. rewrite H4. exact I.
  - (* retry *)
    subst s'. split; [exact Hl|]. cbn. rewrite H in Hw. destruct Hw as (Hf & Hu & Hn).
    split; [exact Hf|]. split; [exact Hu|]. destruct n; [|exact Hn].
    destruct Hn as (-> & _). discriminate H1.
  - split; [eapply last_ok_same; [|exact Hl]; congruence|]. rewrite H3. exact I.
  - subst s'. split; [exact Hl|exact I].
  - subst s'. split; [exact Hl|]. cbn. rewrite H. exact I.
  - subst s'. split; [|exact I]. intros l r Hs. discriminate Hs.
  - subst s'. split; assumption.
Qed.

Lemma micros_ind_inv : forall cfg e s o s', micros cfg e s o s' -> Inv cfg s -> Inv cfg s'.
Proof.
  induction 1 as [s|s o1 s1 o2 s2 o Hm Hms IH Ho]; intros Hi; [exact Hi|].
  apply IH. eapply ustep_inv; [apply micro_ustep; exact Hm|exact Hi].
Qed.

Lemma inv_upd_now : forall cfg s t, Inv cfg s -> Inv cfg (upd_now s t).
Proof. intros cfg s t H. exact H. Qed.

Lemma inv_init : forall cfg sel op iin a, Inv cfg (upd_answers (ostate_init cfg sel op iin) a).
Proof. intros. split; [intros l r H; discriminate H|exact I]. Qed.

Theorem trace_inv : forall cfg s tr, Trace cfg s tr -> Inv cfg s.
Proof.
  induction 1 as [sel op iin a s o H|s tr ev a s' o Ht IH Hev H].
  - apply ostart_micros in H. eapply micros_ind_inv; [exact H|apply inv_init].
  - apply ostep_micros in H. destruct H as (s1 & Hm & Hs).
    assert (Hi : Inv cfg s1) by (eapply micros_ind_inv; eauto).
    destruct Hs as [-> |(t & -> & _)]; [exact Hi|apply inv_upd_now; exact Hi].
Qed.

(* ---------- invariants with a promise about every observation ------------------------------------- *)

Section Invariant.
  Variable cfg : ocfg.
  Variable P : ostate -> Prop.
  Variable Q : oobs -> Prop.
  Hypothesis Pinit : forall sel op iin a, P (upd_answers (ostate_init cfg sel op iin) a).
  Hypothesis Pstep : forall e s o s', ustep cfg e s o s' -> Inv cfg s -> P s -> P s' /\ Forall Q o.
  Hypothesis Pnow : forall s t, P s -> P (upd_now s t).

  Lemma micros_P : forall e s o s', micros cfg e s o s' -> Inv cfg s -> P s -> P s' /\ Forall Q o.
  Proof.
    induction 1 as [s|s o1 s1 o2 s2 o Hm Hms IH Ho]; intros Hi Hp; [split; [exact Hp|constructor]|].
    apply micro_ustep in Hm. destruct (Pstep _ _ _ _ Hm Hi Hp) as [Hp1 Hq1].
    destruct (IH (ustep_inv _ _ _ _ _ Hm Hi) Hp1) as [Hp2 Hq2].
    split; [exact Hp2|]. subst o. apply Forall_app. split; assumption.
  Qed.

  Theorem trace_P : forall s tr, Trace cfg s tr -> P s /\ forall o, In (IOb o) tr -> Q o.
  Proof.
    induction 1 as [sel op iin a s o H|s tr ev a s' o Ht IH Hev H].
    - apply ostart_micros in H. destruct (micros_P _ _ _ _ H (inv_init _ _ _ _ _) (Pinit _ _ _ _)) as [Hp Hq].
      split; [exact Hp|]. intros x Hx. apply in_map_iff in Hx. destruct Hx as (y & Hy & Hin).
      inversion Hy; subst. rewrite Forall_forall in Hq. auto.
    - destruct IH as [Hp Hq]. pose proof (trace_inv _ _ _ Ht) as Hi.
      apply ostep_micros in H. destruct H as (s1 & Hm & Hs).
      destruct (micros_P _ _ _ _ Hm Hi Hp) as [Hp1 Hq1].
      split; [destruct Hs as [-> |(t & -> & _)]; [exact Hp1|apply Pnow; exact Hp1]|].
      intros x Hx. apply in_app_or in Hx. destruct Hx as [Hx|[Hx|Hx]]; [auto|discriminate Hx|].
      apply in_map_iff in Hx. destruct Hx as (y & Hy & Hin). inversion Hy; subst.
      rewrite Forall_forall in Hq1. auto.
  Qed.
End Invariant.

(* ---------- monitors: automata reading the history -------------------------------------------------- *)

Inductive mres (M : Type) := Bad | Dead | Live (m : M).
Arguments Bad {M}. Arguments Dead {M}. Arguments Live {M} m.

Section Monitor.
  Variable cfg : ocfg.
  Variable M : Type.
  Variable mstep : M -> item -> option M.

  (* Bad: the history violates the rule; Dead: the model ran out of fuel (nothing is claimed after) *)
  Fixpoint mrun (m : M) (l : list item) : mres M :=
    match l with
    | [] => Live m
    | IOb OOutOfFuel :: _ => Dead
    | x :: r => match mstep m x with Some m' => mrun m' r | None => Bad end
    end.

  Lemma mrun_app : forall l1 l2 m,
    mrun m (l1 ++ l2) = match mrun m l1 with Live m' => mrun m' l2 | Bad => Bad | Dead => Dead end.
  Proof.
    induction l1 as [|x r IH]; intros l2 m; [reflexivity|].
    cbn [app mrun]. destruct x as [t ev|o].
    - destruct (mstep m (IEv t ev)); [apply IH|reflexivity].
    - destruct o; try (destruct (mstep m _); [apply IH|reflexivity]). reflexivity.
  Qed.

  Lemma mrun_live_nofuel : forall l m m', mrun m l = Live m' -> ~ In (IOb OOutOfFuel) l.
  Proof.
    induction l as [|x r IH]; intros m m' H Hin; [exact Hin|].
    destruct Hin as [Hx|Hin].
    - subst x. discriminate H.
    - cbn [mrun] in H. destruct x as [t ev|o].
      + destruct (mstep m (IEv t ev)) eqn:E; [eapply IH; eauto|discriminate].
      + destruct o; try (destruct (mstep m _) eqn:E; [eapply IH; eauto|discriminate]). discriminate.
  Qed.

  Lemma mrun_skip : forall l m,
    Forall (fun o => mstep m (IOb o) = Some m /\ o <> OOutOfFuel) l -> mrun m (map IOb l) = Live m.
  Proof.
    induction l as [|x r IH]; intros m H; [reflexivity|].
    inversion H as [|x' r' [Hx Hnf] Hr]; subst. cbn [map mrun].
    destruct x; try (rewrite Hx; apply IH; exact Hr). contradiction Hnf. reflexivity.
  Qed.

  Lemma mrun_cons : forall o l m m',
    o <> OOutOfFuel -> mstep m (IOb o) = Some m' -> mrun m (IOb o :: l) = mrun m' l.
  Proof. intros o l m m' Hnf H. cbn [mrun]. destruct o; try (rewrite H; reflexivity). contradiction Hnf. reflexivity. Qed.

  (* Rin ev: what holds while the step for event ev runs; Rout: what holds between steps.  The start-up
     run counts as the step of a wake-up by the database. *)
  Variable Rin : oevent -> ostate -> M -> Prop.
  Variable Rout : ostate -> M -> Prop.
  Variable m0 : M.
  Hypothesis Hinit : forall sel op iin a, Rin EDbChange (upd_answers (ostate_init cfg sel op iin) a) m0.
  Hypothesis Hstep : forall ev s o s' m,
    ustep cfg (Some ev) s o s' -> Inv cfg s -> Rin ev s m ->
    o = [OOutOfFuel] \/ exists m', mrun m (map IOb o) = Live m' /\ Rin ev s' m'.
  Hypothesis Hev : forall s m ev,
    ev_ok ev -> good s -> Inv cfg s -> Rout s m ->
    exists m', mstep m (IEv (s_now s) ev) = Some m' /\ Rin ev s m'.
  Hypothesis Hend : forall ev s m, Rin ev s m -> good s -> Rout s m.
  Hypothesis Hnow : forall ev s m t,
    Inv cfg s -> Rin ev s m -> quiet_until cfg s t -> good s -> Rout (upd_now s t) m.

  Lemma micros_run : forall ev s o s', micros cfg (Some ev) s o s' -> forall m, Inv cfg s -> Rin ev s m ->
    mrun m (map IOb o) = Dead \/ exists m', mrun m (map IOb o) = Live m' /\ Rin ev s' m'.
  Proof.
    intros ev s o s' H. remember (Some ev) as e eqn:He.
    induction H as [s|s o1 s1 o2 s2 o Hm Hms IH Ho]; intros m Hi Hr; [right; exists m; split; [reflexivity|exact Hr]|].
    subst e. apply micro_ustep in Hm. subst o. rewrite map_app, mrun_app.
    destruct (Hstep _ _ _ _ _ Hm Hi Hr) as [-> |(m1 & Hm1 & Hr1)]; [left; reflexivity|].
    rewrite Hm1. apply IH; [eapply ustep_inv; eauto|exact Hr1].
  Qed.

  Lemma nofuel_map : forall o, ~ In (IOb OOutOfFuel) (map IOb o) -> ~ In OOutOfFuel o.
  Proof. intros o H Hin. apply H. apply in_map_iff. exists OOutOfFuel. split; [reflexivity|exact Hin]. Qed.

  Theorem trace_run : forall s tr, Trace cfg s tr ->
    mrun m0 tr = Dead \/ exists m, mrun m0 tr = Live m /\ Rout s m /\ good s.
  Proof.
    induction 1 as [sel op iin a s o H|s tr ev a s' o Ht IH Hok H].
    - pose proof (ostart_good _ _ _ _ _ _ _ H) as Hg.
      assert (Hms : micros cfg (Some EDbChange) (upd_answers (ostate_init cfg sel op iin) a) o s).
      { unfold ostart in H. eapply idle_loop_micros; [reflexivity|exact H]. }
      destruct (micros_run _ _ _ _ Hms m0 (inv_init _ _ _ _ _) (Hinit _ _ _ _)) as [Hd|(m & Hm & Hr)]; [left; exact Hd|].
      right. exists m. split; [exact Hm|].
      assert (Hg2 : good s).
      { destruct Hg as [Hf|Hg]; [|exact Hg]. exfalso.
        apply mrun_live_nofuel in Hm. apply nofuel_map in Hm. contradiction. }
      split; [eapply Hend; eauto|exact Hg2].
    - rewrite mrun_app. destruct IH as [Hd|(m & Hm & Hr & Hg)]; [left; rewrite Hd; reflexivity|].
      rewrite Hm. pose proof (trace_inv _ _ _ Ht) as Hi.
      destruct (Hev s m ev Hok Hg Hi Hr) as (m1 & Hm1 & Hr1).
      cbn [mrun]. rewrite Hm1.
      pose proof (ostep_good _ _ _ _ _ _ Hg H) as Hg'.
      apply ostep_micros in H. destruct H as (s1 & Hms & Hs).
      destruct (micros_run _ _ _ _ Hms m1 Hi Hr1) as [Hd|(m2 & Hm2 & Hr2)]; [left; exact Hd|].
      right. exists m2. split; [exact Hm2|].
      pose proof Hm2 as Hnf. apply mrun_live_nofuel in Hnf. apply nofuel_map in Hnf.
      assert (Hg2 : good s') by (destruct Hg' as [Hf|Hg']; [contradiction|exact Hg']).
      split; [|exact Hg2].
      destruct Hs as [-> |(t & -> & [Hf|Hq])]; [eapply Hend; [exact Hr2|exact Hg2]|contradiction|].
      eapply Hnow; [eapply micros_ind_inv; eauto|exact Hr2|exact Hq|exact Hg2].
  Qed.
End Monitor.

Arguments mrun {M} mstep m l.

(* ---------- 1. unsolicited responses disabled: every fragment sent is a solicited response ------- *)

Definition tx_solicited (o : oobs) : Prop := match o with OTx _ b => nth 1 b 0 = 129 | _ => True end.

Lemma qob_tx_solicited : forall l, Forall qob l -> Forall tx_solicited l.
Proof.
  intros l H. eapply Forall_impl; [|exact H]. intros o [Ho| ->]; [|exact I].
  destruct o; try exact I. exact Ho.
Qed.

Theorem unsol_disabled_silent : forall cfg s tr,
  o_unsol cfg = false -> Trace cfg s tr ->
  forall d b, In (IOb (OTx d b)) tr -> nth 1 b 0 = 129.
Proof.
  intros cfg s tr Hu Ht d b Hin.
  assert (H : is_uw (s_control s) = false /\ forall o, In (IOb o) tr -> tx_solicited o).
  { eapply (trace_P cfg (fun s => is_uw (s_control s) = false) tx_solicited); [reflexivity| |auto|exact Ht].
    intros e x o x' H [Hl Hw] Hp. destruct H.
    - split; [destruct H2 as [-> |[_ H2]]; assumption|]. apply qob_tx_solicited. auto.
    - congruence.
    - congruence.
    - rewrite H in Hp. discriminate.
    - rewrite H in Hp. discriminate.
    - rewrite H in Hp. discriminate.
    - rewrite H in Hp. discriminate.
    - subst. split; [reflexivity|]. repeat constructor.
    - congruence.
    - subst. split; [reflexivity|]. repeat constructor.
    - subst. split; [exact Hp|]. repeat constructor. }
  destruct H as [_ H]. apply (H _ Hin).
Qed.

(* ---------- 2. only empty responses, each with a fresh sequence number, until one is confirmed ---- *)

Definition is_unsol (b : list N) : bool := nth 1 b 0 =? 130.

(* state: has a confirmation been seen; the sequence number the next empty response must carry *)
Definition null_mon (m : bool * N) (it : item) : option (bool * N) :=
  let '(conf, q) := m in
  match it with
  | IOb (OTx _ b) =>
      if is_unsol b then
        if conf then Some m
        else if (length b =? 4)%nat && (nth 0 b 0 =? 240 + q) then Some (false, seq16_next q) else None
      else Some m
  | IOb (OInfo (IUnsolConfirmed _)) => Some (true, q)
  | _ => Some m
  end.

Definition null_rel (s : ostate) (m : bool * N) : Prop :=
  fst m = false -> s_unsol s = UNullRequired /\ s_unsol_seq s = snd m /\ snd m < 16.

Lemma qob_not_fuel : forall o, qob o -> o <> OOutOfFuel.
Proof. intros o [H| ->] E; [subst; exact H|discriminate]. Qed.

Lemma solob_not_unsol : forall d b, solob (OTx d b) -> is_unsol b = false.
Proof. intros d b H. unfold is_unsol. cbn in H. rewrite H. reflexivity. Qed.

Lemma null_mon_qob : forall m o, qob o -> null_mon m (IOb o) = Some m /\ o <> OOutOfFuel.
Proof.
  intros [conf q] o Hq. split; [|apply qob_not_fuel; exact Hq].
  destruct Hq as [Hs| ->]; [|reflexivity].
  destruct o; try reflexivity.
  - cbn [null_mon]. rewrite (solob_not_unsol _ _ Hs). reflexivity.
  - destruct i; try reflexivity. destruct Hs.
Qed.

Lemma evq_qob : forall o, evq o -> qob o.
Proof. intros o H. left. apply evq_solob. exact H. Qed.

Lemma uns_ctl_val : forall q, q < 16 -> uns_ctl q = 240 + q.
Proof. intros q H. unfold uns_ctl, ctl_byte. rewrite N.mod_small by exact H. reflexivity. Qed.

Lemma seq16_next_lt : forall q, seq16_next q < 16.
Proof. intros q. unfold seq16_next. apply N.mod_lt. discriminate. Qed.

Lemma response_bytes_len : forall r buf, r_size r = 0%nat -> length (response_bytes r buf) = 4%nat.
Proof. intros r buf H. unfold response_bytes. rewrite H. reflexivity. Qed.

Lemma null_hstep : forall cfg e s o s' m,
  ustep cfg e s o s' -> Inv cfg s -> null_rel s m ->
  o = [OOutOfFuel] \/ exists m', mrun null_mon m (map IOb o) = Live m' /\ null_rel s' m'.
Proof.
  intros cfg e s o s' [conf q] H [Hl Hw] Hr. unfold null_rel in *. cbn [fst snd] in *.
  assert (Hskip : forall l, Forall qob l -> forall m, mrun null_mon m (map IOb l) = Live m).
  { intros l Hq m. apply mrun_skip. eapply Forall_impl; [|exact Hq]. intros a Ha. apply null_mon_qob. exact Ha. }
  destruct H.
  - (* quiet *) right. exists (conf, q). split; [apply Hskip; auto|]. unfold qv in H1.
    cbn [fst snd]. intros Hc. destruct (Hr Hc) as (A & B & C). split; [congruence|split; [congruence|exact C]].
  - (* null *) right.
    destruct H2 as (r & o1 & -> & Ho1 & Hf & Hctl & Hsz & Hc & Hq & Hb & Hu & _).
    rewrite map_app, mrun_app, Hskip by (eapply Forall_impl; [|exact Ho1]; apply evq_qob).
    cbn [map]. destruct conf.
    + exists (true, q). split; [|discriminate].
      erewrite mrun_cons; [|discriminate|cbn [null_mon]; unfold is_unsol; rewrite nth1_response_bytes, Hf; reflexivity].
      reflexivity.
    + destruct (Hr eq_refl) as (A & B & C). exists (false, seq16_next q). split.
      * erewrite mrun_cons; [|discriminate|]; cycle 1.
        { cbn [null_mon]. unfold is_unsol. rewrite nth1_response_bytes, Hf. cbn [N.eqb Pos.eqb].
          rewrite response_bytes_len by exact Hsz. rewrite nth0_response_bytes, Hctl, B, uns_ctl_val by exact C.
          rewrite N.eqb_refl. reflexivity. }
        reflexivity.
      * cbn [fst snd]. intros _. split; [congruence|]. split; [congruence|apply seq16_next_lt].
  - (* data: only after a confirmation *) right. destruct conf; [|destruct (Hr eq_refl) as (A & _); congruence].
    exists (true, q). split; [|discriminate]. subst o.
    destruct H6 as (r & o1 & -> & Ho1 & Hf & _).
    cbn [map]. erewrite mrun_cons; [|discriminate|reflexivity].
    rewrite map_app, mrun_app, Hskip by (eapply Forall_impl; [|exact Ho1]; apply evq_qob).
    cbn [map]. erewrite mrun_cons; [|discriminate|cbn [null_mon]; unfold is_unsol; rewrite nth1_response_bytes, Hf; reflexivity].
    reflexivity.
  - (* confirmed *) right. exists (true, q). split; [|discriminate]. subst o. destruct n; reflexivity.
  - (* DISABLE_UNSOLICITED in the wait *) right. exists (conf, q). subst o. split.
    + rewrite map_app, mrun_app, Hskip by (apply solob_qob; auto). destruct n; reflexivity.
    + cbn [fst snd]. intros Hc. destruct (Hr Hc) as (A & B & C). rewrite H in Hw. destruct Hw as (_ & _ & Hn).
      destruct n; [|destruct Hn as [d Hd]; congruence]. split; [exact H5|]. split; [congruence|exact C].
  - (* retry: never for an empty response *) right. rewrite H in Hw. destruct Hw as (Hf & _ & Hn).
    destruct n; [destruct Hn as (-> & _); discriminate H1|]. destruct Hn as [d Hd].
    destruct conf; [|destruct (Hr eq_refl) as (A & _); congruence].
    exists (true, q). split; [|discriminate]. subst o. unfold repeat_unsolicited. cbn [map].
    erewrite mrun_cons; [|discriminate|reflexivity]. erewrite mrun_cons; [|discriminate|reflexivity].
    erewrite mrun_cons; [|discriminate|cbn [null_mon]; unfold is_unsol; rewrite nth1_response_bytes, Hf; reflexivity].
    reflexivity.
  - (* timeout *) right. exists (conf, q). subst o. split; [destruct n; reflexivity|].
    cbn [fst snd]. intros Hc. destruct (Hr Hc) as (A & B & C). rewrite H in Hw. destruct Hw as (_ & _ & Hn).
    destruct n; [|destruct Hn as [d Hd]; congruence]. split; [exact H4|]. split; [congruence|exact C].
  - right. exists (conf, q). subst. split; [reflexivity|exact Hr].
  - right. exists (conf, q). subst. split; [reflexivity|exact Hr].
  - right. exists (conf, q). subst. split; [reflexivity|exact Hr].
  - left. assumption.
Qed.

Theorem null_until_confirmed_mon : forall cfg s tr,
  Trace cfg s tr -> mrun null_mon (false, 0) tr <> Bad.
Proof.
  intros cfg s tr Ht.
  destruct (trace_run cfg _ null_mon (fun _ => null_rel) null_rel (false, 0)) with (s := s) (tr := tr)
    as [Hd|(m & Hm & _)];
    try (rewrite Hd; discriminate); try (rewrite Hm; discriminate); try exact Ht.
  - intros sel op iin a _. split; [reflexivity|split; reflexivity].
  - intros ev x o x' m. apply null_hstep.
  - intros x [conf q] ev _ _ _ Hr. exists (conf, q). split; [reflexivity|exact Hr].
  - intros ev x m Hr _. exact Hr.
  - intros ev x m t _ Hr _ _. exact Hr.
Qed.

(* in plain terms: before the first confirmation the k-th unsolicited response is 4 bytes long and
   carries sequence number k mod 16 *)
Fixpoint unsol_txs (l : list item) : list (list N) :=
  match l with
  | [] => []
  | IOb (OTx _ b) :: r => if is_unsol b then b :: unsol_txs r else unsol_txs r
  | _ :: r => unsol_txs r
  end.

Fixpoint null_seq (q : N) (l : list (list N)) : Prop :=
  match l with
  | [] => True
  | b :: r => length b = 4%nat /\ nth 0 b 0 = 240 + q /\ null_seq (seq16_next q) r
  end.

Definition no_confirm (l : list item) : Prop := forall q, ~ In (IOb (OInfo (IUnsolConfirmed q))) l.
Definition no_fuel (l : list item) : Prop := ~ In (IOb OOutOfFuel) l.

Lemma null_mon_seq : forall l q,
  mrun null_mon (false, q) l <> Bad -> no_confirm l -> no_fuel l -> null_seq q (unsol_txs l).
Proof.
  induction l as [|x r IH]; intros q H Hc Hf; [exact I|].
  assert (Hc' : no_confirm r) by (intros z Hz; apply (Hc z); right; exact Hz).
  assert (Hf' : no_fuel r) by (intros Hz; apply Hf; right; exact Hz).
  destruct x as [t ev|o]; [apply IH; assumption|].
  destruct o; try (apply IH; assumption).
  - cbn [unsol_txs]. cbn [mrun null_mon] in H. destruct (is_unsol bytes); [|apply IH; assumption].
    destruct (_ && _) eqn:E; [|contradiction H; reflexivity].
    apply andb_true_iff in E. destruct E as [E1 E2]. apply Nat.eqb_eq in E1. apply N.eqb_eq in E2.
    split; [exact E1|]. split; [exact E2|]. apply IH; assumption.
  - destruct i; try (apply IH; assumption). exfalso. apply (Hc ecsn). left. reflexivity.
  - exfalso. apply Hf. left. reflexivity.
Qed.

Lemma mrun_prefix : forall (M : Type) (f : M -> item -> option M) m l1 l2,
  mrun f m (l1 ++ l2) <> Bad -> mrun f m l1 <> Bad.
Proof. intros M f m l1 l2 H E. apply H. rewrite mrun_app, E. reflexivity. Qed.

Theorem null_until_confirmed : forall cfg s tr pre post,
  Trace cfg s tr -> tr = pre ++ post -> no_confirm pre -> no_fuel pre ->
  null_seq 0 (unsol_txs pre).
Proof.
  intros cfg s tr pre post Ht -> Hc Hf. apply null_mon_seq; [|exact Hc|exact Hf].
  eapply mrun_prefix. eapply null_until_confirmed_mon. exact Ht.
Qed.

(* the state side: an empty response is never retried, and it is what a session in NullRequired waits for *)
Theorem null_never_retried : forall cfg s tr r ret dl,
  Trace cfg s tr -> s_control s = CUnsolWait r true ret dl ->
  ret = Some 0%nat /\ r_size r = 0%nat /\ s_unsol s = UNullRequired.
Proof.
  intros cfg s tr r ret dl Ht Hc. apply trace_inv in Ht. destruct Ht as [_ Hw]. rewrite Hc in Hw.
  destruct Hw as (_ & _ & H). exact H.
Qed.

(* ---------- 3/4/5. one series at a time: first transmission, identical re-sends, bounded retries ----- *)

(* what the monitor knows about the outstanding response: nothing outstanding / bytes b outstanding with
   `ret` re-sends left / b outstanding unless the DISABLE_UNSOLICITED just answered (or just processed
   by broadcast) ended the wait /
   a retry was announced, the re-send of b is due *)
Inductive wst :=
| WNone
| WSome (b : list N) (ret : option nat)
| WMaybe (b : list N) (ret : option nat)
| WResend (b : list N) (ret : option nat).

Record sm := { sm_w : wst; sm_armed : bool; sm_dis : bool; sm_conf : bool }.

Definition sm_set_w (m : sm) (w : wst) : sm :=
  {| sm_w := w; sm_armed := sm_armed m; sm_dis := sm_dis m; sm_conf := sm_conf m |}.

(* the event is a DISABLE_UNSOLICITED request addressed to this outstation alone *)
Definition is_disable_ev (ev : oevent) : bool :=
  match ev with ERx _ None _ (DOk _ fn RvOk _) => fn =? 21 | _ => false end.

Definition series_mon (cfg : ocfg) (m : sm) (it : item) : option sm :=
  match it with
  | IEv _ ev => Some {| sm_w := sm_w m; sm_armed := sm_armed m; sm_dis := is_disable_ev ev; sm_conf := sm_conf m |}
  | IOb (ODb (DbWriteUnsol c1 c2 c3)) =>
      (* event data is collected: some class enabled, an empty response was confirmed before, nothing outstanding *)
      match sm_w m with
      | WNone | WMaybe _ _ =>
          if (c1 || c2 || c3) && sm_conf m
          then Some {| sm_w := sm_w m; sm_armed := true; sm_dis := sm_dis m; sm_conf := sm_conf m |}
          else None
      | _ => None
      end
  | IOb (OTx _ b) =>
      if is_unsol b then
        match sm_w m with
        | WResend b0 ret => if bytes_eqb b0 b then Some (sm_set_w m (WSome b0 ret)) else None
        | WSome _ _ => None
        | WNone | WMaybe _ _ =>
            if (4 <? length b)%nat && negb (sm_armed m) then None
            else Some {| sm_w := WSome b (if sm_armed m then o_retries cfg else Some 0%nat);
                         sm_armed := false; sm_dis := sm_dis m; sm_conf := sm_conf m |}
        end
      else if sm_dis m then
        match sm_w m with WSome b0 ret => Some (sm_set_w m (WMaybe b0 ret)) | _ => Some m end
      else Some m
  | IOb (OInfo (IUnsolTimeout _ retry)) =>
      match sm_w m with
      | WSome b ret | WMaybe b ret =>
          if retry then (if can_retry ret then Some (sm_set_w m (WResend b (dec_retries ret))) else None)
          else Some (sm_set_w m WNone)
      | _ => None
      end
  | IOb (OInfo (IUnsolConfirmed _)) =>
      match sm_w m with
      | WSome _ _ | WMaybe _ _ => Some {| sm_w := WNone; sm_armed := sm_armed m; sm_dis := sm_dis m; sm_conf := true |}
      | _ => None
      end
  | IOb OSessionEnd => Some (sm_set_w m WNone)
  | IOb (OInfo (IBroadcast fn action _)) =>
      (* a DISABLE_UNSOLICITED processed (action 0) by broadcast ends the wait too, without an answer (fix F30) *)
      if (fn =? 21) && (action =? 0)
      then match sm_w m with WSome b0 ret => Some (sm_set_w m (WMaybe b0 ret)) | _ => Some m end
      else Some m
  | _ => Some m
  end.

Definition sm0 : sm := {| sm_w := WNone; sm_armed := false; sm_dis := false; sm_conf := false |}.

Definition w_rel (s : ostate) (w : wst) : Prop :=
  match s_control s with
  | CUnsolWait r n ret dl =>
      w = WSome (response_bytes r (s_unsol_buf s)) ret \/ w = WMaybe (response_bytes r (s_unsol_buf s)) ret
  | _ => w = WNone \/ exists b ret, w = WMaybe b ret
  end.

Definition series_rel (e : option oevent) (s : ostate) (m : sm) : Prop :=
  sm_armed m = false /\
  (sm_conf m = false -> s_unsol s = UNullRequired) /\
  pend_ok e s /\
  match e with Some ev => sm_dis m = is_disable_ev ev | None => True end /\
  w_rel s (sm_w m).

(* the solicited side can only turn "outstanding" into "outstanding unless the wait just ended" *)
Definition relax (m m' : sm) : Prop :=
  m' = m \/ exists b ret, sm_w m = WSome b ret /\ m' = sm_set_w m (WMaybe b ret).

Lemma relax_refl : forall m, relax m m.
Proof. left. reflexivity. Qed.

Lemma relax_fields : forall m m', relax m m' ->
  sm_armed m' = sm_armed m /\ sm_dis m' = sm_dis m /\ sm_conf m' = sm_conf m.
Proof. intros m m' [-> |(b & ret & _ & ->)]; repeat split. Qed.

Lemma relax_trans : forall a b c, relax a b -> relax b c -> relax a c.
Proof.
  intros a b c [-> |(x & r & Hw & ->)] H; [exact H|].
  destruct H as [-> |(x' & r' & Hw' & ->)]; [right; eauto|]. cbn in Hw'. discriminate.
Qed.

Lemma series_mon_qob : forall cfg m o, qob o ->
  exists m', series_mon cfg m (IOb o) = Some m' /\ relax m m' /\ o <> OOutOfFuel.
Proof.
  intros cfg m o Hq. pose proof (qob_not_fuel _ Hq) as Hnf.
  assert (Hsame : series_mon cfg m (IOb o) = Some m ->
                  exists m', series_mon cfg m (IOb o) = Some m' /\ relax m m' /\ o <> OOutOfFuel).
  { intros E. exists m. split; [exact E|]. split; [apply relax_refl|exact Hnf]. }
  destruct Hq as [Hs| ->]; [|apply Hsame; reflexivity].
  destruct o; try (apply Hsame; reflexivity).
  - assert (E : series_mon cfg m (IOb (OTx dest bytes)) =
                if sm_dis m then match sm_w m with WSome b0 ret => Some (sm_set_w m (WMaybe b0 ret)) | _ => Some m end
                else Some m)
      by (cbn [series_mon]; rewrite (solob_not_unsol _ _ Hs); reflexivity).
    destruct (sm_dis m); [|apply Hsame; exact E].
    destruct (sm_w m) as [|b ret|b ret|b ret] eqn:Ew; try (apply Hsame; exact E).
    eexists. split; [exact E|]. split; [right; eauto|exact Hnf].
  - destruct c; try (apply Hsame; reflexivity); destruct Hs.
  - destruct i; try (apply Hsame; reflexivity); try (destruct Hs; fail).
    clear Hsame. cbn [series_mon].
    destruct ((fn =? 21) && (action =? 0)); [|exists m; split; [reflexivity|]; split; [apply relax_refl|exact Hnf]].
    destruct (sm_w m) as [|b ret|b ret|b ret] eqn:Ew; try (exists m; split; [reflexivity|]; split; [apply relax_refl|exact Hnf]).
    eexists. split; [reflexivity|]. split; [right; eauto|exact Hnf].
  - destruct Hs.
Qed.

Lemma series_mon_quiet : forall cfg l m, Forall qob l ->
  exists m', mrun (series_mon cfg) m (map IOb l) = Live m' /\ relax m m'.
Proof.
  induction l as [|o r IH]; intros m H; [exists m; split; [reflexivity|apply relax_refl]|].
  inversion H as [|o' r' Ho Hr]; subst.
  destruct (series_mon_qob cfg m o Ho) as (m1 & H1 & R1 & Hnf).
  destruct (IH m1 Hr) as (m2 & H2 & R2).
  exists m2. split; [|eapply relax_trans; eauto].
  cbn [map]. erewrite mrun_cons; [exact H2|exact Hnf|exact H1].
Qed.

Lemma relax_same : forall m m', relax m m' -> (forall b ret, sm_w m <> WSome b ret) -> m' = m.
Proof. intros m m' [-> |(b & ret & Hw & _)] H; [reflexivity|]. exfalso. eapply H. exact Hw. Qed.

Lemma w_rel_idle_not_some : forall s w, is_uw (s_control s) = false -> w_rel s w -> forall b ret, w <> WSome b ret.
Proof.
  intros s w Hu Hw b ret E. unfold w_rel in Hw. destruct (s_control s); try discriminate;
    destruct Hw as [-> |(b' & r' & ->)]; discriminate.
Qed.

Lemma bytes_eqb_refl : forall b, bytes_eqb b b = true.
Proof. induction b as [|x r IH]; [reflexivity|]. cbn. rewrite N.eqb_refl. exact IH. Qed.

Lemma any_enabled_or : forall s c1 c2 c3, s_enabled s = (c1, c2, c3) -> any_enabled s = c1 || c2 || c3.
Proof. intros s c1 c2 c3 H. unfold any_enabled. rewrite H. reflexivity. Qed.

Lemma w_rel_idle : forall s w, is_uw (s_control s) = false ->
  (w_rel s w <-> (w = WNone \/ exists b ret, w = WMaybe b ret)).
Proof. intros s w H. unfold w_rel. destruct (s_control s); try discriminate; reflexivity. Qed.

Lemma relax_w_rel : forall s s' m m',
  w_rel s (sm_w m) -> relax m m' -> s_control s' = s_control s -> s_unsol_buf s' = s_unsol_buf s ->
  w_rel s' (sm_w m').
Proof.
  intros s s' m m' Hw [-> |(b & ret & Hs & ->)] Hc Hb; unfold w_rel in *; rewrite Hc, Hb.
  - exact Hw.
  - cbn [sm_w sm_set_w]. rewrite Hs in Hw. destruct (s_control s).
    + destruct Hw as [Hw|(b' & r' & Hw)]; discriminate.
    + destruct Hw as [Hw|(b' & r' & Hw)]; discriminate.
    + destruct Hw as [Hw|Hw]; [|discriminate]. inversion Hw; subst. right. reflexivity.
Qed.

Lemma series_mon_first : forall cfg m d B,
  is_unsol B = true -> (sm_w m = WNone \/ exists b r, sm_w m = WMaybe b r) ->
  ((4 <? length B)%nat && negb (sm_armed m)) = false ->
  series_mon cfg m (IOb (OTx d B)) =
  Some {| sm_w := WSome B (if sm_armed m then o_retries cfg else Some 0%nat);
          sm_armed := false; sm_dis := sm_dis m; sm_conf := sm_conf m |}.
Proof.
  intros cfg m d B Hu Hw Hl. cbn [series_mon]. rewrite Hu.
  destruct Hw as [-> |(b & r & ->)]; rewrite Hl; reflexivity.
Qed.

Lemma is_unsol_response : forall r buf, r_fn r = 130 -> is_unsol (response_bytes r buf) = true.
Proof. intros r buf H. unfold is_unsol. rewrite nth1_response_bytes, H. reflexivity. Qed.

(* the run of the monitor over a freshly started series *)
Lemma series_started : forall cfg s s' n size buf o m,
  started cfg s s' n size buf o -> s_control s = CIdle -> w_rel s (sm_w m) ->
  ((size <= 4)%nat \/ sm_armed m = true) ->
  (if sm_armed m then o_retries cfg else Some 0%nat) = (if n then Some 0%nat else o_retries cfg) ->
  exists m', mrun (series_mon cfg) m (map IOb o) = Live m' /\
             sm_armed m' = false /\ sm_dis m' = sm_dis m /\ sm_conf m' = sm_conf m /\ w_rel s' (sm_w m').
Proof.
  intros cfg s s' n size buf o m (r & o1 & -> & Ho1 & Hf & Hctl & Hsz & Hc & Hq & Hb & _) Hi Hw Hlen Hret.
  assert (Hidle : is_uw (s_control s) = false) by (rewrite Hi; reflexivity).
  destruct (series_mon_quiet cfg o1 m) as (m1 & Hm1 & R1).
  { eapply Forall_impl; [|exact Ho1]. apply evq_qob. }
  assert (E1 : m1 = m) by (eapply relax_same; [exact R1|]; eapply w_rel_idle_not_some; eauto). subst m1.
  rewrite map_app, mrun_app, Hm1. cbn [map].
  apply (w_rel_idle s _ Hidle) in Hw.
  erewrite mrun_cons; [|discriminate|].
  2:{ apply series_mon_first; [apply is_unsol_response; exact Hf|exact Hw|].
      unfold response_bytes. cbn [length app]. rewrite firstn_length. rewrite Hsz.
      destruct Hlen as [Hlen|Hlen]; [|rewrite Hlen; apply andb_false_r].
      replace (size - 4)%nat with 0%nat by lia. reflexivity. }
  erewrite mrun_cons; [|discriminate|reflexivity]. cbn [mrun].
  eexists. split; [reflexivity|]. cbn [sm_armed sm_dis sm_conf sm_w]. repeat split.
  unfold w_rel. rewrite Hc, Hb. left. rewrite Hret. reflexivity.
Qed.

Lemma frag_src_event : forall e s from bc bytes d,
  pend_ok e s -> frag_src e s from bc bytes d -> e = Some (ERx from bc bytes d).
Proof. intros e s from bc bytes d Hp [H|[fid H]]; [exact H|eapply Hp; exact H]. Qed.

(* the answer to the DISABLE_UNSOLICITED makes the monitor unsure whether the wait goes on *)
Lemma series_mon_disable : forall cfg oa from b m,
  Forall solob (oa ++ [OTx from b]) -> sm_dis m = true ->
  (exists B ret, sm_w m = WSome B ret \/ sm_w m = WMaybe B ret) ->
  exists m', mrun (series_mon cfg) m (map IOb (oa ++ [OTx from b])) = Live m' /\
             sm_armed m' = sm_armed m /\ sm_dis m' = sm_dis m /\ sm_conf m' = sm_conf m /\
             exists B ret, sm_w m' = WMaybe B ret.
Proof.
  intros cfg oa from b m Hs Hd (B & ret & Hw).
  apply Forall_app in Hs. destruct Hs as [Hoa Hb]. inversion Hb as [|x y Hb1 _]; subst.
  destruct (series_mon_quiet cfg oa m (solob_qob _ Hoa)) as (m1 & Hm1 & R1).
  destruct (relax_fields _ _ R1) as (Fa & Fd & Fc).
  rewrite map_app, mrun_app, Hm1. cbn [map].
  assert (Hw1 : sm_w m1 = WSome B ret \/ sm_w m1 = WMaybe B ret).
  { destruct R1 as [-> |(b' & r' & Hs' & ->)]; [exact Hw|]. right. cbn.
    destruct Hw as [Hw|Hw]; congruence. }
  assert (E : series_mon cfg m1 (IOb (OTx from b)) =
              match sm_w m1 with WSome b0 r0 => Some (sm_set_w m1 (WMaybe b0 r0)) | _ => Some m1 end).
  { cbn [series_mon]. rewrite (solob_not_unsol _ _ Hb1). rewrite Fd, Hd. reflexivity. }
  destruct Hw1 as [Hw1|Hw1]; rewrite Hw1 in E.
  - erewrite mrun_cons; [|discriminate|exact E]. cbn [mrun]. eexists. split; [reflexivity|].
    cbn. repeat split; try assumption. eauto.
  - erewrite mrun_cons; [|discriminate|exact E]. cbn [mrun]. eexists. split; [reflexivity|].
    repeat split; try assumption. eauto.
Qed.

(* the report of a DISABLE_UNSOLICITED processed by broadcast does the same *)
Lemma series_mon_bcast_disable : forall cfg m,
  (exists B ret, sm_w m = WSome B ret \/ sm_w m = WMaybe B ret) ->
  exists m', mrun (series_mon cfg) m (map IOb [OInfo (IBroadcast 21 0 0)]) = Live m' /\
             sm_armed m' = sm_armed m /\ sm_dis m' = sm_dis m /\ sm_conf m' = sm_conf m /\
             exists B ret, sm_w m' = WMaybe B ret.
Proof.
  intros cfg m (B & ret & Hw). cbn [map].
  assert (E : series_mon cfg m (IOb (OInfo (IBroadcast 21 0 0))) =
              match sm_w m with WSome b0 r0 => Some (sm_set_w m (WMaybe b0 r0)) | _ => Some m end) by reflexivity.
  destruct Hw as [Hw|Hw]; rewrite Hw in E.
  - erewrite mrun_cons; [|discriminate|exact E]. cbn [mrun]. eexists. split; [reflexivity|].
    cbn. repeat split. eauto.
  - erewrite mrun_cons; [|discriminate|exact E]. cbn [mrun]. eexists. split; [reflexivity|].
    repeat split. eauto.
Qed.

Lemma series_hstep : forall cfg e s o s' m,
  ustep cfg e s o s' -> Inv cfg s -> series_rel e s m ->
  o = [OOutOfFuel] \/ exists m', mrun (series_mon cfg) m (map IOb o) = Live m' /\ series_rel e s' m'.
Proof.
  intros cfg e s o s' m H [Hl Hw] (Ha & Hc & Hp & He & Hwr).
  assert (Hev : forall m2, sm_dis m2 = sm_dis m ->
          match e with Some ev => sm_dis m2 = is_disable_ev ev | None => True end).
  { intros m2 Hd. destruct e; [|exact I]. congruence. }
  assert (Hpsame : forall s2, s_pending s2 = s_pending s -> pend_ok e s2).
  { intros s2 E from bc bytes d fid Hx. eapply Hp. rewrite <- E. exact Hx. }
  destruct H.
  - (* quiet *)
    right. destruct (series_mon_quiet cfg o m (H0 Hl)) as (m' & Hm & Hrx).
    exists m'. split; [exact Hm|].
    destruct (relax_fields _ _ Hrx) as (Fa & Fd & Fc). unfold qv in H1.
    split; [congruence|]. split; [rewrite Fc; intros X; specialize (Hc X); congruence|].
    split; [apply H; exact Hp|]. split; [apply Hev; exact Fd|].
    destruct H2 as [Hcs|[Hu Hu']].
    + eapply relax_w_rel; eauto. congruence.
    + assert (m' = m) by (eapply relax_same; [exact Hrx|exact (w_rel_idle_not_some s _ Hu Hwr)]). subst m'.
      apply (w_rel_idle _ _ Hu'). apply (w_rel_idle _ _ Hu). exact Hwr.
  - (* an empty response is sent *)
    right. destruct (series_started cfg s s' true 0 (s_unsol_buf s) o m H2 H Hwr) as (m' & Hm & Fa & Fd & Fc & Hw').
    { left. lia. } { rewrite Ha. reflexivity. }
    exists m'. split; [exact Hm|]. destruct H2 as (r & o1 & _ & _ & _ & _ & _ & _ & _ & _ & Hu & _ & _ & Hpe & _).
    split; [exact Fa|]. split; [rewrite Fc; intros X; rewrite Hu; auto|].
    split; [apply Hpsame; exact Hpe|]. split; [apply Hev; exact Fd|exact Hw'].
  - (* event data is sent *)
    right. subst o.
    assert (Hcf : sm_conf m = true) by (destruct (sm_conf m); [reflexivity|]; rewrite (Hc eq_refl) in H1; discriminate).
    assert (Hidle : is_uw (s_control s) = false) by (rewrite H; reflexivity).
    pose proof (proj1 (w_rel_idle s _ Hidle) Hwr) as Hwn.
    set (m1 := {| sm_w := sm_w m; sm_armed := true; sm_dis := sm_dis m; sm_conf := sm_conf m |}).
    assert (E1 : series_mon cfg m (IOb (ODb (DbWriteUnsol c1 c2 c3))) = Some m1).
    { subst m1. destruct m as [mw ma md mc]. cbn [sm_w sm_armed sm_dis sm_conf] in *. subst mc.
      cbn [series_mon sm_w sm_conf]. rewrite <- (any_enabled_or s c1 c2 c3 H4), H3. cbn [andb].
      destruct Hwn as [-> |(b & r & ->)]; reflexivity. }
    cbn [map]. erewrite mrun_cons; [|discriminate|exact E1].
    destruct (series_started cfg s s' false (4 + length body) (buf_set (s_unsol_buf s) body) o' m1 H6 H Hwr)
      as (m' & Hm & Fa & Fd & Fc & Hw'). { right. reflexivity. } { reflexivity. }
    exists m'. split; [exact Hm|]. destruct H6 as (r & o1 & _ & _ & _ & _ & _ & _ & _ & _ & Hu & _ & _ & Hpe & _).
    split; [exact Fa|]. split; [rewrite Fc; cbn; intros X; congruence|].
    split; [apply Hpsame; exact Hpe|]. split; [apply Hev; exact Fd|exact Hw'].
  - (* confirmed *)
    right. subst o. unfold w_rel in Hwr. rewrite H in Hwr.
    set (m1 := {| sm_w := WNone; sm_armed := sm_armed m; sm_dis := sm_dis m; sm_conf := true |}).
    assert (E1 : series_mon cfg m (IOb (OInfo (IUnsolConfirmed (ctl_seq (r_ctl resp))))) = Some m1).
    { cbn [series_mon]. destruct Hwr as [-> | ->]; reflexivity. }
    exists m1. split.
    + cbn [map]. erewrite mrun_cons; [|discriminate|exact E1]. destruct n; reflexivity.
    + split; [exact Ha|]. split; [discriminate|]. split; [apply H5; exact Hp|]. split; [apply Hev; reflexivity|].
      unfold w_rel. rewrite H1. left. reflexivity.
  - (* DISABLE_UNSOLICITED during the wait *)
    right. subst o.
    unfold w_rel in Hwr. rewrite H in Hwr.
    assert (Hmon : exists m', mrun (series_mon cfg) m (map IOb o1) = Live m' /\
                     sm_armed m' = sm_armed m /\ sm_dis m' = sm_dis m /\ sm_conf m' = sm_conf m /\
                     exists B r, sm_w m' = WMaybe B r).
    { destruct bc as [bm|].
      - (* by broadcast: only the report *)
        subst o1. apply series_mon_bcast_disable. destruct Hwr as [Hwr|Hwr]; eauto.
      - (* addressed to this outstation: the answer *)
        destruct H3 as (oa & b & ->).
        assert (Hdis : sm_dis m = true).
        { pose proof (frag_src_event _ _ _ _ _ _ Hp H0) as E. subst e. rewrite He. reflexivity. }
        apply (series_mon_disable cfg oa from b m (H2 Hl) Hdis). destruct Hwr as [Hwr|Hwr]; eauto. }
    destruct Hmon as (m' & Hm & Fa & Fd & Fc & Hw').
    exists m'. split.
    + rewrite map_app, mrun_app, Hm. destruct n; [reflexivity|]. cbn [map]. erewrite mrun_cons; [reflexivity|discriminate|reflexivity].
    + split; [congruence|]. split.
      * rewrite Fc. intros X. specialize (Hc X). rewrite H in Hw. destruct Hw as (_ & _ & Hn).
        destruct n; [exact H5|destruct Hn as [d Hd]; congruence].
      * split; [apply H8; exact Hp|]. split; [apply Hev; exact Fd|].
        unfold w_rel. rewrite H4. right. exact Hw'.
  - (* retry *)
    right. subst o s'. unfold w_rel in Hwr. rewrite H in Hwr. rewrite H in Hw. destruct Hw as (Hf & _).
    set (B := response_bytes resp (s_unsol_buf s)) in *.
    set (m1 := sm_set_w m (WResend B (dec_retries ret))).
    set (m2 := sm_set_w m (WSome B (dec_retries ret))).
    assert (E1 : series_mon cfg m (IOb (OInfo (IUnsolTimeout (ctl_seq (r_ctl resp)) true))) = Some m1).
    { cbn [series_mon]. destruct Hwr as [-> | ->]; rewrite H1; reflexivity. }
    assert (E2 : series_mon cfg m1 (IOb (OTx (o_master cfg) B)) = Some m2).
    { cbn [series_mon]. unfold B at 1. rewrite (is_unsol_response _ _ Hf). cbn [sm_w m1 sm_set_w].
      rewrite bytes_eqb_refl. reflexivity. }
    exists m2. split.
    + unfold repeat_unsolicited. fold B. cbn [map].
      erewrite mrun_cons; [|discriminate|reflexivity].
      erewrite mrun_cons; [|discriminate|exact E1].
      erewrite mrun_cons; [|discriminate|exact E2]. reflexivity.
    + split; [exact Ha|]. split; [exact Hc|]. split; [apply Hpsame; reflexivity|]. split; [apply Hev; reflexivity|].
      unfold w_rel. cbn. left. reflexivity.
  - (* timeout, the series ends *)
    right. subst o. unfold w_rel in Hwr. rewrite H in Hwr.
    set (m1 := sm_set_w m WNone).
    assert (E1 : series_mon cfg m (IOb (OInfo (IUnsolTimeout (ctl_seq (r_ctl resp)) false))) = Some m1).
    { cbn [series_mon]. destruct Hwr as [-> | ->]; reflexivity. }
    exists m1. split.
    + cbn [map]. erewrite mrun_cons; [|discriminate|reflexivity].
      erewrite mrun_cons; [|discriminate|exact E1]. destruct n; reflexivity.
    + split; [exact Ha|]. split.
      * intros X. specialize (Hc X). rewrite H in Hw. destruct Hw as (_ & _ & Hn).
        destruct n; [exact H4|destruct Hn as [d Hd]; congruence].
      * split; [apply Hpsame; congruence|]. split; [apply Hev; reflexivity|].
        unfold w_rel. rewrite H3. left. reflexivity.
  - (* solicited confirm timeout *)
    right. subst o s'. exists m. split; [reflexivity|].
    split; [exact Ha|]. split; [exact Hc|]. split; [apply Hpsame; reflexivity|]. split; [exact He|].
    assert (Hu : is_uw (s_control s) = false) by (rewrite H; reflexivity).
    apply (w_rel_idle s _ Hu) in Hwr. apply w_rel_idle; [reflexivity|exact Hwr].
  - (* the retry delay is over *)
    right. subst o s'. exists m. split; [reflexivity|].
    split; [exact Ha|]. split; [exact Hc|]. split; [apply Hpsame; reflexivity|]. split; [exact He|].
    unfold w_rel in *. cbn. exact Hwr.
  - (* disconnect *)
    right. subst o s'. exists (sm_set_w m WNone). split; [reflexivity|].
    split; [exact Ha|]. split; [exact Hc|]. split; [apply pend_ok_none; reflexivity|]. split; [exact He|].
    unfold w_rel. cbn. left. reflexivity.
  - left. assumption.
Qed.

Definition series_rin (ev : oevent) (s : ostate) (m : sm) : Prop := series_rel (Some ev) s m.
Definition series_rout (s : ostate) (m : sm) : Prop := series_rel None s m.

Theorem series_accepted : forall cfg s tr,
  Trace cfg s tr -> mrun (series_mon cfg) sm0 tr <> Bad.
Proof.
  intros cfg s tr Ht.
  destruct (trace_run cfg _ (series_mon cfg) series_rin series_rout sm0) with (s := s) (tr := tr) as [Hd|(m & Hm & _)];
    try (rewrite Hd; discriminate); try (rewrite Hm; discriminate); try exact Ht.
  - intros sel op iin a. split; [reflexivity|]. split; [reflexivity|]. split; [apply pend_ok_none; reflexivity|].
    split; [reflexivity|]. left. reflexivity.
  - intros ev x o x' m. apply series_hstep.
  - intros x m ev _ [Hg _] _ (Ha & Hc & Hp & _ & Hw). eexists. split; [reflexivity|].
    split; [exact Ha|]. split; [exact Hc|]. split; [apply pend_ok_none; exact Hg|]. split; [reflexivity|exact Hw].
  - intros ev x m (Ha & Hc & Hp & _ & Hw) [Hg _].
    split; [exact Ha|]. split; [exact Hc|]. split; [apply pend_ok_none; exact Hg|]. split; [exact I|exact Hw].
  - intros ev x m t _ (Ha & Hc & Hp & _ & Hw) _ [Hg _].
    split; [exact Ha|]. split; [exact Hc|]. split; [apply pend_ok_none; exact Hg|]. split; [exact I|exact Hw].
Qed.

(* ---------- 5. a re-send comes exactly one confirm timeout after the previous transmission --------- *)

Record tm := { tm_clock : Z; tm_last : option Z; tm_resend : bool }.

Definition timing_mon (cfg : ocfg) (m : tm) (it : item) : option tm :=
  match it with
  | IEv t _ => Some {| tm_clock := t; tm_last := tm_last m; tm_resend := tm_resend m |}
  | IOb (OAt t) => Some {| tm_clock := t; tm_last := tm_last m; tm_resend := tm_resend m |}
  | IOb (OInfo (IUnsolTimeout _ true)) =>
      Some {| tm_clock := tm_clock m; tm_last := tm_last m; tm_resend := true |}
  | IOb (OTx _ b) =>
      if is_unsol b then
        if tm_resend m then
          match tm_last m with
          | Some t0 =>
              if (tm_clock m =? t0 + o_confirm_ms cfg)%Z
              then Some {| tm_clock := tm_clock m; tm_last := Some (tm_clock m); tm_resend := false |}
              else None
          | None => None
          end
        else Some {| tm_clock := tm_clock m; tm_last := Some (tm_clock m); tm_resend := false |}
      else Some m
  | _ => Some m
  end.

Definition tm0 : tm := {| tm_clock := 0; tm_last := None; tm_resend := false |}.

Definition wait_timed (cfg : ocfg) (s : ostate) (m : tm) : Prop :=
  forall r n ret dl, s_control s = CUnsolWait r n ret dl ->
    tm_last m = Some (dl - o_confirm_ms cfg)%Z /\ (s_now s <= dl)%Z.

Definition timing_rin (cfg : ocfg) (ev : oevent) (s : ostate) (m : tm) : Prop :=
  tm_resend m = false /\ tm_clock m = s_now s /\ wait_timed cfg s m.

Definition timing_rout (cfg : ocfg) (s : ostate) (m : tm) : Prop :=
  tm_resend m = false /\ wait_timed cfg s m.

Lemma timing_mon_qob : forall cfg m o, qob o -> timing_mon cfg m (IOb o) = Some m /\ o <> OOutOfFuel.
Proof.
  intros cfg m o Hq. split; [|apply qob_not_fuel; exact Hq].
  destruct Hq as [Hs| ->]; [|reflexivity].
  destruct o; try reflexivity.
  - cbn [timing_mon]. rewrite (solob_not_unsol _ _ Hs). reflexivity.
  - destruct i; try reflexivity. destruct Hs.
  - destruct Hs.
Qed.

Lemma timing_skip : forall cfg l m, Forall qob l -> mrun (timing_mon cfg) m (map IOb l) = Live m.
Proof.
  intros cfg l m H. apply mrun_skip. eapply Forall_impl; [|exact H]. intros a Ha. apply timing_mon_qob. exact Ha.
Qed.

Lemma timing_started : forall cfg s s' n size buf o m,
  (0 <= o_confirm_ms cfg)%Z ->
  started cfg s s' n size buf o -> tm_resend m = false -> tm_clock m = s_now s ->
  exists m', mrun (timing_mon cfg) m (map IOb o) = Live m' /\
             tm_resend m' = false /\ tm_clock m' = s_now s' /\ wait_timed cfg s' m'.
Proof.
  intros cfg s s' n size buf o m Hpos (r & o1 & -> & Ho1 & Hf & _ & _ & Hc & _ & _ & _ & Hn & _) Hr Hk.
  rewrite map_app, mrun_app, timing_skip by (eapply Forall_impl; [|exact Ho1]; apply evq_qob).
  cbn [map]. erewrite mrun_cons; [|discriminate|].
  2:{ cbn [timing_mon]. rewrite (is_unsol_response _ _ Hf), Hr. reflexivity. }
  erewrite mrun_cons; [|discriminate|reflexivity]. cbn [mrun].
  eexists. split; [reflexivity|]. cbn [tm_resend tm_clock tm_last].
  split; [reflexivity|]. split; [congruence|].
  intros r' n' ret' dl' Hc'. rewrite Hc in Hc'. inversion Hc'; subst. rewrite Hk, Hn. cbn [tm_last]. split; [f_equal; lia|lia].
Qed.

Lemma timing_hstep : forall cfg ev s o s' m,
  (0 <= o_confirm_ms cfg)%Z ->
  ustep cfg (Some ev) s o s' -> Inv cfg s -> timing_rin cfg ev s m ->
  o = [OOutOfFuel] \/ exists m', mrun (timing_mon cfg) m (map IOb o) = Live m' /\ timing_rin cfg ev s' m'.
Proof.
  intros cfg ev s o s' m Hpos H [Hl Hw] (Hr & Hk & Hwt). unfold timing_rin.
  assert (Hidle : forall x m', s_control x = CIdle -> wait_timed cfg x m').
  { intros x m' Hc r n ret dl Hc'. congruence. }
  destruct H.
  - (* quiet *)
    right. exists m. split; [apply timing_skip; auto|]. unfold qv in H1.
    split; [exact Hr|]. split; [congruence|].
    intros r n ret dl Hc'. destruct H2 as [Hcs|[Hu Hu']].
    + rewrite Hcs in Hc'. destruct (Hwt _ _ _ _ Hc') as [A B]. split; [exact A|]. replace (s_now s') with (s_now s) by congruence. exact B.
    + rewrite Hc' in Hu'. discriminate.
  - right. destruct (timing_started cfg s s' true 0 (s_unsol_buf s) o m Hpos H2 Hr Hk) as (m' & A & B & C & D).
    exists m'. auto.
  - right. subst o. cbn [map]. erewrite mrun_cons; [|discriminate|reflexivity].
    destruct (timing_started cfg s s' false _ _ o' m Hpos H6 Hr Hk) as (m' & A & B & C & D).
    exists m'. auto.
  - (* confirmed *)
    right. exists m. subst o. split; [destruct n; reflexivity|].
    split; [exact Hr|]. split; [congruence|apply Hidle; exact H1].
  - (* DISABLE_UNSOLICITED *)
    right. exists m. subst o. split.
    + rewrite map_app, mrun_app, timing_skip by (apply solob_qob; auto). destruct n; reflexivity.
    + split; [exact Hr|]. split; [congruence|apply Hidle; exact H4].
  - (* retry *)
    right. subst o s'. destruct (Hwt _ _ _ _ H) as [A B]. rewrite H in Hw. destruct Hw as (Hf & _).
    assert (Ht : t = dl) by lia. clear H2. subst t.
    unfold repeat_unsolicited. cbn [map].
    erewrite mrun_cons; [|discriminate|reflexivity].
    erewrite mrun_cons; [|discriminate|reflexivity].
    erewrite mrun_cons; [|discriminate|].
    2:{ cbn [timing_mon tm_resend tm_last tm_clock]. rewrite (is_unsol_response _ _ Hf), A.
        replace (dl - o_confirm_ms cfg + o_confirm_ms cfg)%Z with dl by lia. rewrite Z.eqb_refl. reflexivity. }
    cbn [mrun]. eexists. split; [reflexivity|]. cbn [tm_resend tm_clock tm_last].
    split; [reflexivity|]. split; [reflexivity|].
    intros r' n' ret' dl' Hc'. cbn in Hc'. inversion Hc'; subst. cbn [s_now upd_control upd_now tm_last].
    split; [f_equal; lia|lia].
  - (* timeout *)
    right. subst o. cbn [map]. erewrite mrun_cons; [|discriminate|reflexivity].
    erewrite mrun_cons; [|discriminate|reflexivity].
    eexists. split; [destruct n; reflexivity|]. cbn [tm_resend tm_clock tm_last].
    split; [exact Hr|]. split; [congruence|apply Hidle; exact H3].
  - right. subst o s'. eexists. split; [reflexivity|]. cbn [tm_resend tm_clock tm_last].
    split; [exact Hr|]. split; [reflexivity|apply Hidle; reflexivity].
  - right. subst o s'. eexists. split; [reflexivity|]. cbn [tm_resend tm_clock tm_last].
    split; [exact Hr|]. split; [reflexivity|apply Hidle; exact H].
  - right. subst o s'. exists m. split; [reflexivity|].
    split; [exact Hr|]. split; [exact Hk|apply Hidle; reflexivity].
  - left. assumption.
Qed.

Theorem retry_timing : forall cfg s tr,
  (0 <= o_confirm_ms cfg)%Z -> Trace cfg s tr -> mrun (timing_mon cfg) tm0 tr <> Bad.
Proof.
  intros cfg s tr Hpos Ht.
  destruct (trace_run cfg _ (timing_mon cfg) (timing_rin cfg) (timing_rout cfg) tm0) with (s := s) (tr := tr)
    as [Hd|(m & Hm & _)];
    try (rewrite Hd; discriminate); try (rewrite Hm; discriminate); try exact Ht.
  - intros sel op iin a. split; [reflexivity|]. split; [reflexivity|]. intros r n ret dl Hc. discriminate Hc.
  - intros ev x o x' m. apply timing_hstep. exact Hpos.
  - intros x m ev _ _ _ [Hr Hw]. eexists. split; [reflexivity|]. split; [exact Hr|]. split; [reflexivity|exact Hw].
  - intros ev x m (Hr & _ & Hw) _. split; assumption.
  - intros ev x m t [_ Hi] (Hr & _ & Hw) Hq _. split; [exact Hr|].
    intros r n ret dl Hc. cbn in Hc. destruct (Hw _ _ _ _ Hc) as [A B]. split; [exact A|].
    unfold quiet_until, next_deadline in Hq. rewrite Hc in Hq. cbn. lia.
Qed.

(* ---------- one step from a reachable state --------------------------------------------------------- *)

Lemma trace_good : forall cfg s tr, Trace cfg s tr -> In (IOb OOutOfFuel) tr \/ good s.
Proof.
  induction 1 as [sel op iin a s o H|s tr ev a s' o Ht IH Hev H].
  - apply ostart_good in H. destruct H as [H|H]; [left|right; exact H].
    apply in_map_iff. exists OOutOfFuel. split; [reflexivity|exact H].
  - destruct IH as [IH|Hg]; [left; apply in_or_app; left; exact IH|].
    apply (ostep_good _ _ _ _ _ _ Hg) in H. destruct H as [H|H]; [left|right; exact H].
    apply in_or_app. right. right. apply in_map_iff. exists OOutOfFuel. split; [reflexivity|exact H].
Qed.

Section StepInv.
  Variable cfg : ocfg.
  Variable ev : oevent.
  Variable P : ostate -> Prop.
  Variable Q : oobs -> Prop.
  Hypothesis Pstep : forall x o x', ustep cfg (Some ev) x o x' -> Inv cfg x -> P x -> P x' /\ Forall Q o.

  Lemma micros_P_ev : forall x o x', micros cfg (Some ev) x o x' -> Inv cfg x -> P x -> P x' /\ Forall Q o.
  Proof.
    intros x o x' H. remember (Some ev) as e eqn:He.
    induction H as [s|s o1 s1 o2 s2 o Hm Hms IH Ho]; intros Hi Hp; [split; [exact Hp|constructor]|].
    subst e. apply micro_ustep in Hm. destruct (Pstep _ _ _ Hm Hi Hp) as [Hp1 Hq1].
    destruct (IH (ustep_inv _ _ _ _ _ Hm Hi) Hp1) as [Hp2 Hq2].
    split; [exact Hp2|]. subst o. apply Forall_app. split; assumption.
  Qed.

  Theorem step_P : forall s a s' o,
    Inv cfg s -> P s -> ostep cfg s ev a = (s', o) ->
    Forall Q o /\ exists s1, P s1 /\ (s' = s1 \/ exists t, s' = upd_now s1 t).
  Proof.
    intros s a s' o Hi Hp H. apply ostep_micros in H. destruct H as (s1 & Hm & Hs).
    destruct (micros_P_ev _ _ _ Hm Hi Hp) as [Hp1 Hq]. split; [exact Hq|].
    exists s1. split; [exact Hp1|]. destruct Hs as [Hs|(t & Hs & _)]; [left; exact Hs|right; eauto].
  Qed.
End StepInv.

(* ---------- the enabled classes ---------------------------------------------------------------------- *)

Definition cls_of (h : whdr) : N :=
  match h with WCls 1 => 1 | WCls 2 => 2 | WCls 3 => 3 | _ => 0 end.

Lemma cls_step_eq : forall en c1 c2 c3 v h,
  cls_step en ((c1, c2, c3), v) h =
  match cls_of h with
  | 1 => ((en, c2, c3), v) | 2 => ((c1, en, c3), v) | 3 => ((c1, c2, en), v)
  | _ => ((c1, c2, c3), N.lor v iin2_no_func)
  end.
Proof.
  intros en c1 c2 c3 v h. destruct h; try reflexivity.
  destruct c as [|[[q|q|]|[q|q|]|]]; reflexivity.
Qed.

Definition has_cls (k : N) (hdrs : list whdr) : bool := existsb (fun h => cls_of h =? k) hdrs.

Lemma set_classes_spec : forall en hdrs c1 c2 c3,
  set_classes en hdrs (c1, c2, c3) =
  (if has_cls 1 hdrs then en else c1, if has_cls 2 hdrs then en else c2, if has_cls 3 hdrs then en else c3).
Proof.
  intros en hdrs. unfold set_classes.
  assert (H : forall c1 c2 c3 v, fst (fold_left (cls_step en) hdrs ((c1, c2, c3), v)) =
    (if has_cls 1 hdrs then en else c1, if has_cls 2 hdrs then en else c2, if has_cls 3 hdrs then en else c3)).
  { induction hdrs as [|h r IH]; intros c1 c2 c3 v; [reflexivity|].
    cbn [fold_left]. rewrite cls_step_eq. unfold has_cls. cbn [existsb].
    destruct (cls_of h) as [|[[q|q|]|[q|q|]|]]; rewrite IH; unfold has_cls; cbn [N.eqb Pos.eqb orb];
      try reflexivity;
      repeat match goal with |- context [if ?b then _ else _] => destruct b end; reflexivity. }
  intros c1 c2 c3. apply H.
Qed.

Lemma set_classes_idem : forall en hdrs e, set_classes en hdrs (set_classes en hdrs e) = set_classes en hdrs e.
Proof.
  intros en hdrs [[c1 c2] c3]. rewrite !set_classes_spec.
  destruct (has_cls 1 hdrs), (has_cls 2 hdrs), (has_cls 3 hdrs); reflexivity.
Qed.

Lemma set_classes_false_none : forall hdrs, set_classes false hdrs (false, false, false) = (false, false, false).
Proof.
  intros hdrs. rewrite set_classes_spec.
  destruct (has_cls 1 hdrs), (has_cls 2 hdrs), (has_cls 3 hdrs); reflexivity.
Qed.

Lemma any_enabled_false : forall s, any_enabled s = false -> s_enabled s = (false, false, false).
Proof.
  intros s H. unfold any_enabled in H. destruct (s_enabled s) as [[a b] c]. destruct a, b, c; try discriminate. reflexivity.
Qed.

(* the enabled classes change by the ENABLE/DISABLE_UNSOLICITED request of the current event only *)
Definition changed_by (cfg : ocfg) (ev : oevent) (e0 e1 : bool * bool * bool) : Prop :=
  exists from bc bytes ctl fn hdrs rh,
    ev = ERx from bc bytes (DOk ctl fn RvOk (ObjOk hdrs rh)) /\ o_unsol cfg = true /\ (fn = 20 \/ fn = 21) /\
    e1 = set_classes (fn =? 20) hdrs e0.

Lemma en_step_cases : forall cfg ev x x',
  pend_ok (Some ev) x -> en_step cfg (Some ev) x x' ->
  s_enabled x' = s_enabled x \/ changed_by cfg ev (s_enabled x) (s_enabled x').
Proof.
  intros cfg ev x x' Hp [H|(from & bc & bytes & d & Hsrc & Hen)]; [left; exact H|].
  pose proof (frag_src_event _ _ _ _ _ _ Hp Hsrc) as E. inversion E; subst.
  destruct Hen as [H|(ctl & fn & hdrs & rh & -> & Hu & Hf & He)]; [left; exact H|].
  right. exists from, bc, bytes, ctl, fn, hdrs, rh. repeat split; auto.
Qed.

Lemma changed_twice : forall cfg ev e0 e1 e2,
  changed_by cfg ev e0 e1 -> changed_by cfg ev e1 e2 -> changed_by cfg ev e0 e2.
Proof.
  intros cfg ev e0 e1 e2 (f & b & y & c & fn & h & r & E1 & Hu & Hf & ->) (f' & b' & y' & c' & fn' & h' & r' & E2 & _ & _ & ->).
  rewrite E1 in E2. inversion E2; subst. rewrite set_classes_idem.
  exists f', b', y', c', fn', h', r'. repeat split; auto.
Qed.

Definition en_rel (cfg : ocfg) (ev : oevent) (s x : ostate) : Prop :=
  s_enabled x = s_enabled s \/ changed_by cfg ev (s_enabled s) (s_enabled x).

Lemma en_rel_step : forall cfg ev s x x',
  en_rel cfg ev s x -> pend_ok (Some ev) x -> en_step cfg (Some ev) x x' -> en_rel cfg ev s x'.
Proof.
  intros cfg ev s x x' Hr Hp He. destruct (en_step_cases _ _ _ _ Hp He) as [E|Hc].
  - destruct Hr as [Hr|Hr]; [left; congruence|right; rewrite E; exact Hr].
  - destruct Hr as [Hr|Hr]; [right; rewrite <- Hr; exact Hc|right; eapply changed_twice; eauto].
Qed.

Lemma en_rel_same : forall cfg ev s x x', en_rel cfg ev s x -> s_enabled x' = s_enabled x -> en_rel cfg ev s x'.
Proof. intros cfg ev s x x' [H|H] E; [left; congruence|right; rewrite E; exact H]. Qed.

(* what a micro-step does to the reader's fragment and the enabled classes, uniformly *)
Lemma ustep_pend_en : forall cfg ev x o x',
  ustep cfg (Some ev) x o x' -> pend_ok (Some ev) x ->
  pend_ok (Some ev) x' /\ en_step cfg (Some ev) x x'.
Proof.
  intros cfg ev x o x' H Hp.
  assert (Hsame : s_pending x' = s_pending x -> pend_ok (Some ev) x').
  { intros E from bc bytes d fid Hx. eapply Hp. rewrite <- E. exact Hx. }
  destruct H.
  - destruct H as [_ Hb He]. split; [auto|exact He].
  - destruct H2 as (r & o1 & _ & _ & _ & _ & _ & _ & _ & _ & _ & _ & _ & Hpe & Hen & _). split; [auto|left; exact Hen].
  - destruct H6 as (r & o1 & _ & _ & _ & _ & _ & _ & _ & _ & _ & _ & _ & Hpe & Hen & _). split; [auto|left; exact Hen].
  - split; [auto|left; congruence].
  - destruct H8 as [_ Hb He]. split; [auto|exact He].
  - subst x'. split; [apply Hsame; reflexivity|left; reflexivity].
  - split; [apply Hsame; congruence|left; congruence].
  - subst x'. split; [apply Hsame; reflexivity|left; reflexivity].
  - subst x'. split; [apply Hsame; reflexivity|left; reflexivity].
  - subst x'. split; [apply pend_ok_none; reflexivity|left; reflexivity].
  - subst x'. split; [exact Hp|left; reflexivity].
Qed.

(* 3b/3c: the classes given to the database are the enabled ones *)
Definition classes_ok (cfg : ocfg) (ev : oevent) (s : ostate) (o : oobs) : Prop :=
  match o with
  | ODb (DbWriteUnsol c1 c2 c3) =>
      (c1, c2, c3) = s_enabled s \/ changed_by cfg ev (s_enabled s) (c1, c2, c3)
  | _ => True
  end.

Lemma qob_classes_ok : forall cfg ev s l, Forall qob l -> Forall (classes_ok cfg ev s) l.
Proof.
  intros cfg ev s l H. eapply Forall_impl; [|exact H]. intros o [Ho| ->]; [|exact I].
  destruct o; try exact I. destruct c; try exact I. destruct Ho.
Qed.

Lemma started_classes_ok : forall cfg ev s0 s s' n size buf o,
  started cfg s s' n size buf o -> Forall (classes_ok cfg ev s0) o.
Proof.
  intros cfg ev s0 s s' n size buf o (r & o1 & -> & Ho1 & _).
  apply Forall_app. split; [apply qob_classes_ok; eapply Forall_impl; [|exact Ho1]; apply evq_qob|].
  repeat constructor.
Qed.

Theorem enabled_classes_step : forall cfg s tr ev a s' o,
  Trace cfg s tr -> no_fuel tr -> ostep cfg s ev a = (s', o) ->
  Forall (classes_ok cfg ev s) o /\ en_rel cfg ev s s'.
Proof.
  intros cfg s tr ev a s' o Ht Hnf Hstep.
  pose proof (trace_inv _ _ _ Ht) as Hi.
  destruct (trace_good _ _ _ Ht) as [Hf|[Hg _]]; [contradiction|].
  destruct (step_P cfg ev (fun x => pend_ok (Some ev) x /\ en_rel cfg ev s x) (classes_ok cfg ev s))
    with (s := s) (a := a) (s' := s') (o := o) as (Hq & s1 & [_ Hp1] & Hs); try assumption.
  - intros x ob x' Hu [Hl Hw] [Hp He].
    destruct (ustep_pend_en _ _ _ _ _ Hu Hp) as [Hp' Hen].
    split; [split; [exact Hp'|eapply en_rel_step; eauto]|].
    destruct Hu.
    + apply qob_classes_ok. auto.
    + eapply started_classes_ok; eauto.
    + subst ob. constructor; [|eapply started_classes_ok; eauto].
      cbn [classes_ok]. destruct He as [He|He]; [left; congruence|right; rewrite <- H4; exact He].
    + subst ob. destruct n; repeat constructor.
    + subst ob. apply Forall_app. split; [apply qob_classes_ok; apply solob_qob; auto|destruct n; repeat constructor].
    + subst ob. repeat constructor.
    + subst ob. destruct n; repeat constructor.
    + subst ob. repeat constructor.
    + subst ob. repeat constructor.
    + subst ob. repeat constructor.
    + subst ob. repeat constructor.
  - split; [apply pend_ok_none; exact Hg|left; reflexivity].
  - split; [exact Hq|]. destruct Hs as [-> |(t & ->)]; exact Hp1.
Qed.

(* ---------- 7. nothing enabled: no event data is sent ------------------------------------------------ *)

Definition is_enable_ev (ev : oevent) : bool :=
  match ev with ERx _ _ _ (DOk _ fn RvOk _) => fn =? 20 | _ => false end.

(* an unsolicited response carrying data is the outstanding one of state s *)
Definition only_resend (s : ostate) (o : oobs) : Prop :=
  match o with
  | OTx _ b =>
      is_unsol b = true -> (4 < length b)%nat ->
      exists r ret dl, s_control s = CUnsolWait r false ret dl /\ b = response_bytes r (s_unsol_buf s)
  | _ => True
  end.

Lemma qob_only_resend : forall s l, Forall qob l -> Forall (only_resend s) l.
Proof.
  intros s l H. eapply Forall_impl; [|exact H]. intros o [Ho| ->]; [|exact I].
  destruct o; try exact I. cbn [only_resend]. intros Hu. rewrite (solob_not_unsol _ _ Ho) in Hu. discriminate.
Qed.

Lemma started_null_only_resend : forall cfg s0 s s' buf o,
  started cfg s s' true 0 buf o -> Forall (only_resend s0) o.
Proof.
  intros cfg s0 s s' buf o (r & o1 & -> & Ho1 & _ & _ & Hsz & _).
  apply Forall_app. split; [apply qob_only_resend; eapply Forall_impl; [|exact Ho1]; apply evq_qob|].
  constructor; [|repeat constructor]. cbn [only_resend]. intros _ Hl.
  rewrite response_bytes_len in Hl by exact Hsz. lia.
Qed.

Definition dis_inv (ev : oevent) (s x : ostate) : Prop :=
  pend_ok (Some ev) x /\ any_enabled x = false /\
  forall r n ret dl, s_control x = CUnsolWait r n ret dl ->
    n = true \/ (exists ret0 dl0, s_control s = CUnsolWait r false ret0 dl0 /\ s_unsol_buf x = s_unsol_buf s).

Lemma any_enabled_eq : forall x x', s_enabled x' = s_enabled x -> any_enabled x' = any_enabled x.
Proof. intros x x' H. unfold any_enabled. rewrite H. reflexivity. Qed.

Theorem disable_stops : forall cfg s tr ev a s' o,
  Trace cfg s tr -> no_fuel tr -> any_enabled s = false -> is_enable_ev ev = false ->
  ostep cfg s ev a = (s', o) ->
  any_enabled s' = false /\ Forall (only_resend s) o.
Proof.
  intros cfg s tr ev a s' o Ht Hnf Hany Hev Hstep.
  pose proof (trace_inv _ _ _ Ht) as Hi.
  destruct (trace_good _ _ _ Ht) as [Hf|[Hg _]]; [contradiction|].
  destruct (step_P cfg ev (dis_inv ev s) (only_resend s))
    with (s := s) (a := a) (s' := s') (o := o) as (Hq & s1 & (_ & Hp1 & _) & Hs); try assumption.
  - intros x ob x' Hu [Hl Hw] (Hp & Ha & Hwt).
    destruct (ustep_pend_en _ _ _ _ _ Hu Hp) as [Hp' Hen].
    assert (Ha' : any_enabled x' = false).
    { destruct (en_step_cases _ _ _ _ Hp Hen) as [E|(f & b & y & c & fn & h & r & -> & _ & Hf & E)].
      - rewrite (any_enabled_eq _ _ E). exact Ha.
      - destruct Hf as [-> | ->]; [discriminate Hev|].
        unfold any_enabled. rewrite E, (any_enabled_false _ Ha). cbn [N.eqb Pos.eqb].
        rewrite set_classes_false_none. reflexivity. }
    assert (Hidle : s_control x' = CIdle -> dis_inv ev s x').
    { intros Hc. split; [exact Hp'|]. split; [exact Ha'|]. intros r n ret dl Hc'. congruence. }
    destruct Hu.
    + split; [|apply qob_only_resend; auto]. split; [exact Hp'|]. split; [exact Ha'|].
      unfold qv in H1. intros r n ret dl Hc'. destruct H2 as [Hcs|[Hu Hu']].
      * rewrite Hcs in Hc'. destruct (Hwt _ _ _ _ Hc') as [E|(r0 & d0 & E1 & E2)]; [left; exact E|right].
        exists r0, d0. split; [exact E1|congruence].
      * rewrite Hc' in Hu'. discriminate.
    + split; [|eapply started_null_only_resend; eauto]. split; [exact Hp'|]. split; [exact Ha'|].
      destruct H2 as (r & o1 & _ & _ & _ & _ & _ & Hc & _). intros r' n ret dl Hc'. rewrite Hc in Hc'.
      inversion Hc'; subst. left. reflexivity.
    + congruence.
    + split; [apply Hidle; assumption|]. subst ob. destruct n; repeat constructor.
    + split; [apply Hidle; assumption|]. subst ob. apply Forall_app.
      split; [apply qob_only_resend; apply solob_qob; auto|destruct n; repeat constructor].
    + subst ob x'. rewrite H in Hw. destruct Hw as (Hf & _ & Hn). split.
      * split; [exact Hp'|]. split; [exact Ha'|]. intros r' n' ret' dl' Hc'. cbn in Hc'. inversion Hc'; subst.
        destruct (Hwt _ _ _ _ H) as [E|(r0 & d0 & E1 & E2)]; [left; exact E|right; exists r0, d0; split; [exact E1|exact E2]].
      * constructor; [exact I|]. constructor; [exact I|]. unfold repeat_unsolicited. constructor; [|constructor].
        cbn [only_resend]. intros _ Hlen.
        destruct (Hwt _ _ _ _ H) as [E|(r0 & d0 & E1 & E2)].
        -- subst n. destruct Hn as (_ & Hsz & _). rewrite response_bytes_len in Hlen by exact Hsz. lia.
        -- exists resp, r0, d0. split; [exact E1|]. rewrite E2. reflexivity.
    + split; [apply Hidle; assumption|]. subst ob. destruct n; repeat constructor.
    + subst ob x'. split; [apply Hidle; reflexivity|repeat constructor].
    + subst ob x'. split; [apply Hidle; exact H|repeat constructor].
    + subst ob x'. split; [apply Hidle; reflexivity|repeat constructor].
    + subst ob x'. split; [|repeat constructor]. split; [exact Hp'|]. split; [exact Ha'|exact Hwt].
  - split; [apply pend_ok_none; exact Hg|]. split; [exact Hany|].
    intros r n ret dl Hc. destruct n; [left; reflexivity|right]. exists ret, dl. split; [exact Hc|reflexivity].
  - split; [|exact Hq]. destruct Hs as [-> |(t & ->)]; exact Hp1.
Qed.

(* ---------- 6. no new series before the retry delay is over ------------------------------------------ *)

(* the clock of the step: the last OAt marker, or the time the step began at *)
Definition delay_mon (t : Z) (clock : Z) (it : item) : option Z :=
  match it with
  | IOb (OAt u) => Some u
  | IOb (OTx _ b) => if is_unsol b then (if (t <=? clock)%Z then Some clock else None) else Some clock
  | _ => Some clock
  end.

Definition delay_rin (t : Z) (ev : oevent) (x : ostate) (clock : Z) : Prop :=
  clock = s_now x /\
  ((t <= s_now x)%Z \/ (s_unsol x = UReady (Some t) /\ is_uw (s_control x) = false)).

Lemma delay_mon_qob : forall t m o, qob o -> delay_mon t m (IOb o) = Some m /\ o <> OOutOfFuel.
Proof.
  intros t m o Hq. split; [|apply qob_not_fuel; exact Hq].
  destruct Hq as [Hs| ->]; [|reflexivity].
  destruct o; try reflexivity.
  - cbn [delay_mon]. rewrite (solob_not_unsol _ _ Hs). reflexivity.
  - destruct Hs.
Qed.

Lemma delay_skip : forall t l m, Forall qob l -> mrun (delay_mon t) m (map IOb l) = Live m.
Proof.
  intros t l m H. apply mrun_skip. eapply Forall_impl; [|exact H]. intros a Ha. apply delay_mon_qob. exact Ha.
Qed.

Lemma delay_started : forall cfg t x x' n size buf o,
  started cfg x x' n size buf o -> (t <= s_now x)%Z ->
  mrun (delay_mon t) (s_now x) (map IOb o) = Live (s_now x) /\ s_now x' = s_now x.
Proof.
  intros cfg t x x' n size buf o (r & o1 & -> & Ho1 & Hf & _ & _ & _ & _ & _ & _ & Hn & _) Ht.
  split; [|exact Hn].
  rewrite map_app, mrun_app, delay_skip by (eapply Forall_impl; [|exact Ho1]; apply evq_qob).
  cbn [map]. erewrite mrun_cons; [|discriminate|].
  2:{ cbn [delay_mon]. rewrite (is_unsol_response _ _ Hf). apply Z.leb_le in Ht. rewrite Ht. reflexivity. }
  erewrite mrun_cons; [|discriminate|reflexivity]. reflexivity.
Qed.

Lemma delay_hstep : forall cfg t ev x o x' m,
  ustep cfg (Some ev) x o x' -> Inv cfg x -> delay_rin t ev x m ->
  o = [OOutOfFuel] \/ exists m', mrun (delay_mon t) m (map IOb o) = Live m' /\ delay_rin t ev x' m'.
Proof.
  intros cfg t ev x o x' m H [Hl Hw] [-> Hd]. unfold delay_rin.
  assert (Hwait : forall r n ret dl, s_control x = CUnsolWait r n ret dl -> (t <= s_now x)%Z).
  { intros r n ret dl Hc. destruct Hd as [Hd|[_ Hd]]; [exact Hd|]. rewrite Hc in Hd. discriminate. }
  destruct H.
  - right. exists (s_now x). split; [apply delay_skip; auto|]. unfold qv in H1.
    split; [congruence|]. destruct Hd as [Hd|[Hd1 Hd2]]; [left; replace (s_now x') with (s_now x) by congruence; exact Hd|].
    right. split; [congruence|]. destruct H2 as [Hcs|[_ Hu]]; [rewrite Hcs; exact Hd2|exact Hu].
  - right. assert (Ht : (t <= s_now x)%Z) by (destruct Hd as [Hd|[Hd _]]; [exact Hd|congruence]).
    destruct (delay_started cfg t x x' _ _ _ _ H2 Ht) as [A B].
    exists (s_now x). split; [exact A|]. split; [congruence|left; lia].
  - right. assert (Ht : (t <= s_now x)%Z).
    { destruct Hd as [Hd|[Hd _]]; [exact Hd|]. rewrite H1 in Hd. inversion Hd; subst.
      cbn [unsol_ready] in H2. apply Z.leb_le in H2. exact H2. }
    subst o. destruct (delay_started cfg t x x' _ _ _ _ H6 Ht) as [A B].
    exists (s_now x). split; [cbn [map]; erewrite mrun_cons; [exact A|discriminate|reflexivity]|].
    split; [congruence|left; lia].
  - right. pose proof (Hwait _ _ _ _ H) as Ht. exists (s_now x). subst o.
    split; [destruct n; reflexivity|]. assert (s_now x' = s_now x) by congruence. split; [congruence|left; lia].
  - right. pose proof (Hwait _ _ _ _ H) as Ht. exists (s_now x). subst o. split.
    + rewrite map_app, mrun_app, delay_skip by (apply solob_qob; auto). destruct n; reflexivity.
    + assert (s_now x' = s_now x) by congruence. split; [congruence|left; lia].
  - right. pose proof (Hwait _ _ _ _ H) as Ht. subst o x'. rewrite H in Hw. destruct Hw as (Hf & _).
    exists t0. split.
    + unfold repeat_unsolicited. cbn [map]. erewrite mrun_cons; [|discriminate|reflexivity].
      erewrite mrun_cons; [|discriminate|reflexivity].
      erewrite mrun_cons; [reflexivity|discriminate|].
      cbn [delay_mon]. rewrite (is_unsol_response _ _ Hf).
      assert (E : (t <=? t0)%Z = true) by (apply Z.leb_le; lia). rewrite E. reflexivity.
    + split; [reflexivity|left; cbn; lia].
  - right. pose proof (Hwait _ _ _ _ H) as Ht. subst o. exists t0. split.
    + cbn [map]. erewrite mrun_cons; [|discriminate|reflexivity].
      erewrite mrun_cons; [|discriminate|reflexivity]. destruct n; reflexivity.
    + split; [congruence|left; lia].
  - right. subst o x'. exists t0. split; [reflexivity|]. split; [reflexivity|]. cbn.
    destruct Hd as [Hd|[Hd1 Hd2]]; [left; lia|right; split; [exact Hd1|reflexivity]].
  - right. subst o x'. exists t0. split; [reflexivity|]. split; [reflexivity|]. cbn.
    destruct Hd as [Hd|[Hd1 Hd2]]; [left; lia|]. left. rewrite H1 in Hd1. inversion Hd1; subst. lia.
  - right. subst o x'. exists (s_now x). split; [reflexivity|]. split; [reflexivity|]. cbn.
    destruct Hd as [Hd|[Hd1 Hd2]]; [left; exact Hd|right; split; [exact Hd1|reflexivity]].
  - left. assumption.
Qed.

(* in plain terms *)
Fixpoint stamp (t0 : Z) (o : list oobs) : list (Z * oobs) :=
  match o with
  | [] => []
  | OAt t :: r => (t, OAt t) :: stamp t r
  | x :: r => (t0, x) :: stamp t0 r
  end.

Fixpoint time_after (t0 : Z) (o : list oobs) : Z :=
  match o with [] => t0 | OAt t :: r => time_after t r | _ :: r => time_after t0 r end.

Lemma delay_mon_stamp : forall t o c c',
  mrun (delay_mon t) c (map IOb o) = Live c' ->
  c' = time_after c o /\
  forall u d b, In (u, OTx d b) (stamp c o) -> is_unsol b = true -> (t <= u)%Z.
Proof.
  intros t. induction o as [|x r IH]; intros c c' H.
  - cbn in H. inversion H; subst. split; [reflexivity|]. intros u d b [].
  - cbn [map mrun] in H. destruct x; cbn [delay_mon] in H; try (apply IH in H; destruct H as [A B]; split; [exact A|];
      intros u d b [Hx|Hx]; [discriminate Hx|eapply B; eauto]; fail).
    + destruct (is_unsol bytes) eqn:Eu.
      * destruct (t <=? c)%Z eqn:El; [|discriminate]. apply IH in H. destruct H as [A B]. split; [exact A|].
        intros u d b [Hx|Hx]; [inversion Hx; subst; intros _; apply Z.leb_le; exact El|eapply B; eauto].
      * apply IH in H. destruct H as [A B]. split; [exact A|].
        intros u d b [Hx|Hx]; [inversion Hx; subst; congruence|eapply B; eauto].
    + discriminate.
Qed.

Theorem retry_delay_respected : forall cfg s tr t ev a s' o,
  Trace cfg s tr -> s_unsol s = UReady (Some t) -> is_uw (s_control s) = false ->
  ostep cfg s ev a = (s', o) -> ~ In OOutOfFuel o ->
  (forall u d b, In (u, OTx d b) (stamp (s_now s) o) -> is_unsol b = true -> (t <= u)%Z) /\
  ((t <= time_after (s_now s) o)%Z \/ (s_unsol s' = UReady (Some t) /\ is_uw (s_control s') = false)).
Proof.
  intros cfg s tr t ev a s' o Ht Hu Hc Hstep Hnf.
  pose proof (trace_inv _ _ _ Ht) as Hi.
  apply ostep_micros in Hstep. destruct Hstep as (s1 & Hm & Hs).
  destruct (micros_run cfg Z (delay_mon t) (delay_rin t) (delay_hstep cfg t) ev s o s1 Hm (s_now s) Hi)
    as [Hd|(c' & Hrun & Hc' & Hr)].
  - split; [reflexivity|]. right. split; assumption.
  - exfalso. assert (X : exists m', mrun (delay_mon t) (s_now s) (map IOb o) = Live m' \/ True) by (exists 0%Z; right; exact I).
    clear X. revert Hd Hnf. generalize (s_now s). clear. induction o as [|x r IH]; intros c Hd Hnf; [discriminate|].
    cbn [map mrun] in Hd. destruct x; try (destruct (delay_mon t c _); [eapply IH; [exact Hd|intros X; apply Hnf; right; exact X]|discriminate]).
    apply Hnf. left. reflexivity.
  - apply delay_mon_stamp in Hrun. destruct Hrun as [A B]. split; [exact B|].
    destruct Hr as [Hr|[Hr1 Hr2]]; [left; rewrite <- A, Hc'; exact Hr|right].
    destruct Hs as [-> |(t1 & -> & _)]; split; assumption.
Qed.

(* ---------- 6a. what ends a series without confirmation arms the retry delay ----------------------- *)

Theorem retry_delay_set : forall cfg s r s' ns o,
  end_unsol cfg s false r = (s', ns, o) -> r <> UrConfirmed ->
  s_unsol s' = UReady (Some (s_now s + o_retry_delay_ms cfg)%Z) /\ s_control s' = CIdle /\
  ns = (o_retry_delay_ms cfg <=? 0)%Z /\ o = [ODb DbReset].
Proof.
  intros cfg s r s' ns o H Hr. apply end_unsol_spec in H. destruct H as (Hc & _ & Hu & Ho & Hn).
  destruct r; [contradiction Hr; reflexivity| |]; repeat split; assumption.
Qed.

Theorem check_not_ready : forall cfg s t,
  s_unsol s = UReady (Some t) -> (s_now s < t)%Z -> check_unsolicited cfg s = (s, false, []).
Proof.
  intros cfg s t Hu Hl. unfold check_unsolicited. destruct (negb (o_unsol cfg)); [reflexivity|].
  rewrite Hu. apply Z.leb_gt in Hl. rewrite Hl. reflexivity.
Qed.

(* 3 (core): check_unsolicited sends event data only when ready, enabled, after NullRequired is left *)
Theorem data_start_conditions : forall cfg x x' b o d bytes,
  check_unsolicited cfg x = (x', b, o) -> In (OTx d bytes) o -> (4 < length bytes)%nat ->
  o_unsol cfg = true /\
  exists dl c1 c2 c3 o',
    s_unsol x = UReady dl /\ unsol_ready x dl = true /\ any_enabled x = true /\ s_enabled x = (c1, c2, c3) /\
    o = ODb (DbWriteUnsol c1 c2 c3) :: o'.
Proof.
  intros cfg x x' b o d bytes H Hin Hlen. apply check_unsolicited_spec in H.
  destruct H as [[-> _]|[(Hu & Hs & Hst)|(Hu & dl & c1 & c2 & c3 & body & o' & Hs & Hr & Ha & He & -> & Hst)]].
  - destruct Hin.
  - exfalso. destruct Hst as (r & o1 & -> & Ho1 & _ & _ & Hsz & _).
    apply in_app_or in Hin. destruct Hin as [Hin|[Hin|[Hin|[]]]].
    + rewrite Forall_forall in Ho1. apply Ho1 in Hin. destruct Hin as [Hin|Hin]; discriminate Hin.
    + inversion Hin; subst. rewrite response_bytes_len in Hlen by exact Hsz. lia.
    + discriminate Hin.
  - split; [exact Hu|]. exists dl, c1, c2, c3, o'. repeat split; assumption.
Qed.

(* ---------- 8. a READ during the wait ------------------------------------------------------------------ *)

Definition next_fid (s : ostate) : N := (s_frame_id s + 1) mod 4294967296.

Lemma classify_read : forall s bytes ctl hdrs rh,
  classify s None bytes ctl 1 (ObjOk hdrs rh) = FtNewRead hdrs rh \/
  exists r, classify s None bytes ctl 1 (ObjOk hdrs rh) = FtRepeatRead r hdrs rh.
Proof.
  intros s bytes ctl hdrs rh. unfold classify. cbn [N.eqb fn_confirm Pos.eqb fn_read].
  destruct (match s_last s with Some l => _ | None => false end); [right; eauto|left; reflexivity].
Qed.

(* an accepted READ addressed to this outstation is not answered and not dropped: it is kept *)
Theorem read_deferred : forall cfg s resp n ret dl from bytes d ctl hdrs rh,
  s_control s = CUnsolWait resp n ret dl ->
  to_treq cfg from d = TqRequest ctl 1 (ObjOk hdrs rh) ->
  on_rx cfg s from None bytes d =
  (deferred_set (upd_frame_id s (next_fid s)) bytes (ctl_seq ctl) from rh, []).
Proof.
  intros cfg s resp n ret dl from bytes d ctl hdrs rh Hc Ht. unfold on_rx. cbv zeta.
  change (s_control (upd_frame_id s ((s_frame_id s + 1) mod 4294967296))) with (s_control s). rewrite Hc.
  unfold unsol_wait_fragment. rewrite Ht.
  change (classify (upd_frame_id s ((s_frame_id s + 1) mod 4294967296)) None bytes ctl 1 (ObjOk hdrs rh))
    with (classify s None bytes ctl 1 (ObjOk hdrs rh)).
  destruct (classify_read s bytes ctl hdrs rh) as [-> |[r ->]]; reflexivity.
Qed.

(* what any fragment during the wait does to the deferred READ *)
Theorem deferred_superseded : forall cfg s resp from bc bytes d fid s1 res o,
  unsol_wait_fragment cfg s resp from bc bytes d fid = (s1, res, o) ->
  match to_treq cfg from d with
  | TqNone => s_deferred s1 = s_deferred s
  | TqError _ => s_deferred s1 = None
  | TqRequest ctl fn obj =>
      match classify s bc bytes ctl fn obj with
      | FtUnsolConfirm _ | FtSolConfirm _ => s_deferred s1 = s_deferred s
      | FtNewRead _ rh | FtRepeatRead _ _ rh =>
          s_deferred s1 = Some {| df_bytes := bytes; df_seq := ctl_seq ctl; df_from := from;
                                  df_iin2 := if forallb (fun b => b) rh then 0 else iin2_param |} /\
          res = None /\ o = []
      | _ => s_deferred s1 = None
      end
  end.
Proof.
  intros cfg s resp from bc bytes d fid s1 res o H. unfold unsol_wait_fragment in H.
  destruct (to_treq cfg from d) as [|q|ctl fn obj].
  - inv_pair H. reflexivity.
  - destruct (write_error_response (upd_deferred s None) from bc q) as [s2 o2] eqn:E. inv_pair H.
    apply write_error_response_spec in E. destruct E as [Hf _]. apply frame_wview in Hf. destruct Hf as (_ & Hd & _).
    exact Hd.
  - cbv zeta in H. destruct (classify s bc bytes ctl fn obj) as [iin2|hdrs rh|rsp hdrs rh|hdrs|rsp|m|q|q].
    + destruct (write_solicited (upd_deferred s None) from (empty_solicited (ctl_seq ctl) iin2)) as [[s2 r2] o2] eqn:E.
      inv_pair H. apply write_solicited_frame in E. apply frame_wview in E. destruct E as (_ & Hd & _). exact Hd.
    + inv_pair H. repeat split.
    + inv_pair H. repeat split.
    + destruct (handle_non_read cfg (upd_deferred s None) fn (ctl_seq ctl) fid bytes hdrs) as [[s2 r] o1] eqn:E1.
      apply handle_non_read_spec in E1. destruct E1 as (Hg & _). apply gview_wview in Hg. destruct Hg as (_ & Hd & _).
      destruct r as [r0|].
      * destruct (write_solicited s2 from r0) as [[s3 r1] o2] eqn:E2. inv_pair H.
        apply write_solicited_frame in E2. apply frame_wview in E2. destruct E2 as (_ & Hd3 & _).
        cbn. rewrite Hd3, Hd. reflexivity.
      * inv_pair H. cbn. rewrite Hd. reflexivity.
    + inv_pair H. reflexivity.
    + destruct (process_broadcast cfg (upd_deferred s None) m fid ctl fn bytes obj) as [s2 o2] eqn:E. inv_pair H.
      apply process_broadcast_spec in E. destruct E as (Hg & _). apply gview_wview in Hg. destruct Hg as (_ & Hd & _).
      exact Hd.
    + inv_pair H. pose proof (bcast_confirmed_frame s false q) as Hf. apply frame_wview in Hf.
      destruct Hf as (_ & Hd & _). exact Hd.
    + destruct (q =? ctl_seq (r_ctl resp)); inv_pair H; [|reflexivity].
      pose proof (bcast_confirmed_frame s true q) as Hf. apply frame_wview in Hf.
      destruct Hf as (_ & Hd & _). exact Hd.
Qed.

(* requests other than READ are answered in the step they arrive in *)
Definition is_tx_to (from : N) (seq : N) (o : oobs) : Prop :=
  exists b, o = OTx from b /\ nth 1 b 0 = 129 /\ ctl_seq (nth 0 b 0) = seq mod 16.

Theorem non_read_immediate : forall cfg s resp from bc bytes d fid s1 res o ctl fn obj,
  unsol_wait_fragment cfg s resp from bc bytes d fid = (s1, res, o) ->
  to_treq cfg from d = TqRequest ctl fn obj ->
  match classify s bc bytes ctl fn obj with
  | FtMalformed _ => exists o1 x, o = o1 ++ [x] /\ is_tx_to from (ctl_seq ctl) x /\ Forall evq o1
  | FtNewNonRead _ =>
      noresp_fn fn \/
      exists o1 x, o = o1 ++ [x] /\ is_tx_to from (ctl_seq ctl) x /\ Forall (fun y => exob y \/ evq y) o1
  | FtRepeatNonRead (Some r) => o = [OTx from (response_bytes r (s_sol_buf s))]
  | _ => True
  end.
Proof.
  intros cfg s resp from bc bytes d fid s1 res o ctl fn obj H Ht. unfold unsol_wait_fragment in H.
  rewrite Ht in H. cbv zeta in H.
  destruct (classify s bc bytes ctl fn obj) as [iin2|hdrs rh|rsp hdrs rh|hdrs|rsp|m|q|q]; try exact I.
  - destruct (write_solicited (upd_deferred s None) from (empty_solicited (ctl_seq ctl) iin2)) as [[s2 r2] o2] eqn:E.
    inv_pair H. apply write_solicited_spec in E. destruct E as (o1 & -> & Ho1 & Hf & Hc & _).
    exists o1, (OTx from (response_bytes r2 (s_sol_buf s1))). split; [reflexivity|]. split; [|exact Ho1].
    eexists. split; [reflexivity|]. rewrite nth1_response_bytes, nth0_response_bytes, Hf, Hc.
    split; [reflexivity|]. cbn [empty_solicited r_ctl]. apply ctl_seq_ctl_byte.
  - destruct (handle_non_read cfg (upd_deferred s None) fn (ctl_seq ctl) fid bytes hdrs) as [[s2 r] o1] eqn:E1.
    apply handle_non_read_spec in E1. destruct E1 as (_ & Ho1 & Hr & Hn & _).
    destruct r as [r0|]; [right|left; apply Hn; reflexivity].
    destruct (write_solicited s2 from r0) as [[s3 r1] o2] eqn:E2. inv_pair H.
    apply write_solicited_spec in E2. destruct E2 as (oz & -> & Hoz & Hf & Hc & _).
    destruct (Hr r0 eq_refl) as [Hf0 Hc0].
    exists (o1 ++ oz), (OTx from (response_bytes r1 (s_sol_buf s3))). split; [rewrite app_assoc; reflexivity|].
    split.
    + eexists. split; [reflexivity|]. rewrite nth1_response_bytes, nth0_response_bytes, Hf, Hc, Hc0.
      split; [exact Hf0|]. apply ctl_seq_ctl_byte.
    + apply Forall_app. split; (eapply Forall_impl; [|eassumption]); intros y Hy; [left|right]; exact Hy.
  - destruct rsp as [r|]; [|exact I]. inv_pair H. reflexivity.
Qed.

(* a step of the idle loop entered at the deferred-READ stage begins with what handle_deferred does *)
Lemma idle_run_St3 : forall cfg f ns s s2 o,
  idle_run (S f) cfg (St3 ns) s = (s2, o) ->
  exists s3 o3 rest, handle_deferred cfg s ns = (s3, o3) /\ o = o3 ++ rest.
Proof.
  intros cfg f ns s s2 o H. cbn [idle_run] in H.
  destruct (handle_deferred cfg s ns) as [s3 o3] eqn:E. exists s3, o3.
  destruct (s_control s3).
  - destruct (idle_run f cfg (St4 ns) s3) as [s4 o4]. inv_pair H. exists o4. split; reflexivity.
  - inv_pair H. exists []. rewrite app_nil_r. split; reflexivity.
  - inv_pair H. exists []. rewrite app_nil_r. split; reflexivity.
Qed.

(* the answer to a deferred READ: selected in the database, answered to its sender with its sequence number *)
Definition served (df : deferred) (o : list oobs) : Prop :=
  exists o1 b o2, o = ODb DbDeferredSelect :: o1 ++ OTx (df_from df) b :: o2 /\ Forall dbq o1 /\
                  nth 1 b 0 = 129 /\ ctl_seq (nth 0 b 0) = df_seq df mod 16.

Lemma resume_St3_served : forall cfg ns s s2 o df,
  resume_at cfg (St3 ns) s = (s2, o) -> s_deferred s = Some df ->
  exists ans, served df ans /\ exists tl, o = ans ++ tl.
Proof.
  intros cfg ns s s2 o df H Hd. unfold resume_at in H. apply idle_run_St3 in H.
  destruct H as (s3 & o3 & rest & E & ->). apply handle_deferred_spec in E. rewrite Hd in E.
  destruct E as (_ & _ & _ & _ & o1 & b & o2 & -> & Ho1 & Hb1 & Hb0 & _).
  exists (ODb DbDeferredSelect :: o1 ++ OTx (df_from df) b :: o2). split; [|exists rest; reflexivity].
  exists o1, b, o2. repeat split; assumption.
Qed.

(* the confirm timeout with a READ pending: no retry, the series ends, the READ is answered *)
Theorem deferred_served_timeout : forall cfg s resp n ret dl df s2 o,
  s_control s = CUnsolWait resp n ret dl -> s_deferred s = Some df ->
  fire_deadline cfg s = (s2, o) ->
  exists ans tl,
    o = OInfo (IUnsolTimeout (ctl_seq (r_ctl resp)) false) :: (if n then [] else [ODb DbReset]) ++ ans ++ tl /\
    served df ans.
Proof.
  intros cfg s resp n ret dl df s2 o Hc Hd H. unfold fire_deadline in H. rewrite Hc in H. cbv zeta in H.
  rewrite Hd in H. rewrite andb_false_r in H.
  destruct (end_unsol cfg s n UrTimeout) as [[s3 ns] o2] eqn:E2.
  destruct (resume_at cfg (St3 ns) s3) as [s4 o3] eqn:E3. inv_pair H.
  apply end_unsol_spec in E2. destruct E2 as (_ & Hv & _ & -> & _).
  assert (Hd2 : s_deferred s3 = Some df) by congruence.
  destruct (resume_St3_served _ _ _ _ _ _ E3 Hd2) as (ans & Hs & tl & ->).
  exists ans, tl. split; [|exact Hs]. cbn [app]. destruct n; reflexivity.
Qed.

(* the confirmation with a READ pending *)
Theorem deferred_served_confirm : forall cfg s resp n ret dl df from bytes d ctl obj s2 o,
  s_control s = CUnsolWait resp n ret dl -> s_deferred s = Some df ->
  to_treq cfg from d = TqRequest ctl fn_confirm obj ->
  ctl_uns ctl = true -> ctl_seq ctl = ctl_seq (r_ctl resp) ->
  on_rx cfg s from None bytes d = (s2, o) ->
  exists ans tl,
    o = OInfo (IUnsolConfirmed (ctl_seq (r_ctl resp))) :: (if n then [] else [ODb DbClearWritten]) ++ ans ++ tl /\
    served df ans.
Proof.
  intros cfg s resp n ret dl df from bytes d ctl obj s2 o Hc Hd Ht Hu Hq H. unfold on_rx in H. cbv zeta in H.
  change (s_control (upd_frame_id s ((s_frame_id s + 1) mod 4294967296))) with (s_control s) in H. rewrite Hc in H.
  unfold unsol_wait_fragment in H. rewrite Ht in H. cbv zeta in H.
  unfold classify in H. cbn [N.eqb fn_confirm] in H. rewrite Hu, Hq, N.eqb_refl in H.
  match type of H with (let '(_, _) := ?X in _) = _ => destruct X as [[s3 ns] o2] eqn:E2 end.
  match type of H with (let '(_, _) := ?X in _) = _ => destruct X as [s4 o3] eqn:E3 end. inv_pair H.
  apply end_unsol_spec in E2. destruct E2 as (_ & Hv & _ & -> & _).
  match type of Hv with context [s_deferred (bcast_confirmed ?x ?u ?q)] =>
    pose proof (bcast_confirmed_frame x u q) as Hbf end.
  apply frame_wview in Hbf. destruct Hbf as (_ & Hbd & _). psimpl_in Hbd. psimpl_in Hv.
  assert (Hd2 : s_deferred s3 = Some df) by congruence.
  destruct (resume_St3_served _ _ _ _ _ _ E3 Hd2) as (ans & Hs & tl & ->).
  exists ans, tl. split; [|exact Hs]. cbn [app]. destruct n; reflexivity.
Qed.

Lemma advance_first : forall f cfg s target d,
  next_deadline cfg s = Some d -> (d <= target)%Z ->
  advance (S f) cfg s target =
  let '(s1, o1) := fire_deadline cfg (upd_now s (Z.max d (s_now s))) in
  let '(s2, o2) := advance f cfg s1 target in (s2, OAt (Z.max d (s_now s)) :: o1 ++ o2).
Proof.
  intros f cfg s target d Hn Hle. cbn [advance]. rewrite Hn. apply Z.leb_le in Hle. rewrite Hle. reflexivity.
Qed.

(* as a step: time passes up to the deadline with a READ pending *)
Theorem deferred_served_sleep : forall cfg s resp n ret dl df ms a s2 o,
  s_control s = CUnsolWait resp n ret dl -> s_deferred s = Some df -> (dl <= s_now s + ms)%Z ->
  ostep cfg s (ESleep ms) a = (s2, o) ->
  exists ans tl,
    o = OAt (Z.max dl (s_now s)) :: OInfo (IUnsolTimeout (ctl_seq (r_ctl resp)) false)
        :: (if n then [] else [ODb DbReset]) ++ ans ++ tl /\
    served df ans.
Proof.
  intros cfg s resp n ret dl df ms a s2 o Hc Hd Hle H. unfold ostep in H.
  set (s0 := upd_answers s a) in *.
  assert (Hn : next_deadline cfg s0 = Some dl) by (unfold next_deadline; subst s0; psimpl; rewrite Hc; reflexivity).
  rewrite (advance_first _ cfg s0 _ dl Hn Hle) in H.
  destruct (fire_deadline cfg (upd_now s0 (Z.max dl (s_now s0)))) as [s1 o1] eqn:E1.
  match type of H with context [advance ?f cfg s1 ?tg] => destruct (advance f cfg s1 tg) as [s3 o3] eqn:E3 end.
  cbv beta iota in H. inv_pair H.
  eapply (deferred_served_timeout cfg _ resp n ret dl df) in E1; [|exact Hc|exact Hd].
  destruct E1 as (ans & tl & -> & Hs). exists ans, (tl ++ o3). split; [|exact Hs].
  cbn [app]. f_equal. f_equal. rewrite <- !app_assoc. reflexivity.
Qed.

(* ---------- histories by computation (for the examples) ------------------------------------------------ *)

Fixpoint trace_from (cfg : ocfg) (s : ostate) (evs : list (oevent * list answer)) : ostate * list item :=
  match evs with
  | [] => (s, [])
  | (ev, a) :: r =>
      let '(s1, o) := ostep cfg s ev a in
      let '(s2, tr) := trace_from cfg s1 r in
      (s2, IEv (s_now s) ev :: map IOb o ++ tr)
  end.

Definition trace_of (cfg : ocfg) (sel op iin : N) (a : list answer) (evs : list (oevent * list answer))
  : ostate * list item :=
  let '(s0, o0) := ostart cfg sel op iin a in
  let '(s1, tr) := trace_from cfg s0 evs in (s1, map IOb o0 ++ tr).

Lemma trace_from_Trace : forall cfg evs s tr,
  Trace cfg s tr -> Forall (fun p => ev_ok (fst p)) evs ->
  Trace cfg (fst (trace_from cfg s evs)) (tr ++ snd (trace_from cfg s evs)).
Proof.
  induction evs as [|[ev a] r IH]; intros s tr Ht Hok; cbn [trace_from].
  - cbn [fst snd]. rewrite app_nil_r. exact Ht.
  - inversion Hok as [|x y Hx Hy]; subst. cbn [fst] in Hx.
    destruct (ostep cfg s ev a) as [s1 o] eqn:E.
    pose proof (Tr_step cfg s tr ev a s1 o Ht Hx E) as Ht1.
    specialize (IH s1 _ Ht1 Hy). destruct (trace_from cfg s1 r) as [s2 tr2]. cbn [fst snd] in *.
    rewrite <- app_assoc in IH. cbn [app] in IH. exact IH.
Qed.

Theorem trace_of_Trace : forall cfg sel op iin a evs,
  Forall (fun p => ev_ok (fst p)) evs ->
  Trace cfg (fst (trace_of cfg sel op iin a evs)) (snd (trace_of cfg sel op iin a evs)).
Proof.
  intros cfg sel op iin a evs Hok. unfold trace_of.
  destruct (ostart cfg sel op iin a) as [s0 o0] eqn:E.
  pose proof (Tr_start cfg sel op iin a s0 o0 E) as Ht.
  pose proof (trace_from_Trace cfg evs s0 _ Ht Hok) as H.
  destruct (trace_from cfg s0 evs) as [s1 tr]. exact H.
Qed.
