(* Outstation/EventBufferProofs.v — invariants of the event buffer model over ARBITRARY op lists.

   Main results (all without bounds on the op list):
     ids_unique_monotone                      ids handed out are exactly next, next+1, ...; the buffer is
                                              sorted by id and every id is below `next`
     counters_exact                           total / written counters = the counts over the records
     capacity_respected                       #records of a type <= its configured maximum
     class_bits_exact, no_underflow           unwritten_classes() = "a record of the class is not Written"
     insert_overflow_discards_oldest_same_type
     clear_written_releases_exactly_written
     reset_unselects_all
     write_oldest_first                       the records written are the longest prefix, in insertion
                                              order, of the Selected ones that fits the writer
     write_exact_time                         objects of CTO variations: absolute time = CTO + offset *)
From Dnp3V Require Import Base.Bytes Outstation.DbTypes Outstation.EventBuffer.
From Coq Require Import Sorting.Sorted.
Open Scope N_scope.

(* ---------------------------------------------------------------------------------------------- *)
(* operations and runs *)

Inductive eop :=
| OpInsert (index : N) (k : eclass) (t : ptype) (m : meas) (dv : evar)
| OpSelClass (c1 c2 c3 : bool) (lim : option N)
| OpSelType (t : ptype) (v : option evar) (lim : option N)
| OpWrite (budget : N)
| OpClear
| OpReset.

Definition ebuf_step (b : ebuf) (op : eop) : ebuf :=
  match op with
  | OpInsert i k t m dv => fst (ebuf_insert b i k t m dv)
  | OpSelClass c1 c2 c3 lim => fst (ebuf_select_by_class b c1 c2 c3 lim)
  | OpSelType t v lim => fst (ebuf_select_by_type b t v lim)
  | OpWrite budget => fst (ebuf_write_hdrs b budget)
  | OpClear => fst (ebuf_clear_written b)
  | OpReset => ebuf_reset b
  end.

Definition ebuf_run_from (b : ebuf) (ops : list eop) : ebuf := fold_left ebuf_step ops b.
Definition ebuf_run (cfg : ebcfg) (ops : list eop) : ebuf := ebuf_run_from (ebuf_new cfg) ops.

(* ---------------------------------------------------------------------------------------------- *)
(* counting *)

Fixpoint countN (f : erec -> bool) (l : list erec) : N :=
  match l with
  | [] => 0
  | r :: tl => (if f r then 1 else 0) + countN f tl
  end.

Definition in_class (k : eclass) (r : erec) : bool := eclass_eqb (r_class r) k.
Definition in_type (t : ptype) (r : erec) : bool := ptype_eqb (r_type r) t.
Definition wclass (k : eclass) (r : erec) : bool := in_class k r && is_written r.
Definition wtype (t : ptype) (r : erec) : bool := in_type t r && is_written r.

Lemma countN_app f l1 l2 : countN f (l1 ++ l2) = countN f l1 + countN f l2.
Proof. induction l1 as [|r l1 IH]; cbn [countN app]; [reflexivity|]. rewrite IH. lia. Qed.

Lemma countN_ext f g l : (forall r, In r l -> f r = g r) -> countN f l = countN g l.
Proof.
  induction l as [|r l IH]; intros H; cbn [countN]; [reflexivity|].
  rewrite (H r (or_introl eq_refl)), IH; [reflexivity|]. intros x Hx. apply H. right; exact Hx.
Qed.

Lemma countN_Forall2 f (l l' : list erec) :
  Forall2 (fun r r' => f r = f r') l l' -> countN f l = countN f l'.
Proof. induction 1 as [|r r' l l' Hr _ IH]; cbn [countN]; [reflexivity|]. rewrite Hr, IH. reflexivity. Qed.

Lemma countN_zero f l : (forall r, In r l -> f r = false) -> countN f l = 0.
Proof.
  induction l as [|r l IH]; intros H; cbn [countN]; [reflexivity|].
  rewrite (H r (or_introl eq_refl)), IH; [reflexivity|]. intros x Hx; apply H; right; exact Hx.
Qed.

Lemma countN_split f g l :
  countN f l = countN (fun r => f r && g r) l + countN f (filter (fun r => negb (g r)) l).
Proof.
  induction l as [|r l IH]; cbn [countN filter]; [reflexivity|].
  destruct (g r); cbn [negb countN]; rewrite IH; destruct (f r); cbn [andb]; lia.
Qed.

Lemma countN_filter_false f g l :
  (forall r, g r = true -> f r = false) -> countN f (filter g l) = 0.
Proof.
  intros H. apply countN_zero. intros r Hr. apply filter_In in Hr. apply H, Hr.
Qed.

Lemma countN_le f g l : (forall r, f r = true -> g r = true) -> countN f l <= countN g l.
Proof.
  intros H. induction l as [|r l IH]; cbn [countN]; [lia|].
  destruct (f r) eqn:Ef; [rewrite (H r Ef)|destruct (g r)]; lia.
Qed.

(* ---------------------------------------------------------------------------------------------- *)
(* counter algebra *)

Lemma cnt_class_map_class f k c k' :
  cnt_class (cnt_map_class f k c) k' = if eclass_eqb k k' then f (cnt_class c k') else cnt_class c k'.
Proof. destruct k, k'; reflexivity. Qed.

Lemma cnt_class_map_type f t c k : cnt_class (cnt_map_type f t c) k = cnt_class c k.
Proof. destruct t, k; reflexivity. Qed.

Lemma cnt_type_map_type f t c t' :
  cnt_type (cnt_map_type f t c) t' = if ptype_eqb t t' then f (cnt_type c t') else cnt_type c t'.
Proof. destruct t, t'; reflexivity. Qed.

Lemma cnt_type_map_class f k c t : cnt_type (cnt_map_class f k c) t = cnt_type c t.
Proof. destruct k, t; reflexivity. Qed.

Lemma cnt_class_inc k t c k' :
  cnt_class (cnt_inc k t c) k' = cnt_class c k' + (if eclass_eqb k k' then 1 else 0).
Proof. unfold cnt_inc. rewrite cnt_class_map_class, cnt_class_map_type. destruct (eclass_eqb k k'); lia. Qed.

Lemma cnt_type_inc k t c t' :
  cnt_type (cnt_inc k t c) t' = cnt_type c t' + (if ptype_eqb t t' then 1 else 0).
Proof. unfold cnt_inc. rewrite cnt_type_map_class, cnt_type_map_type. destruct (ptype_eqb t t'); lia. Qed.

Lemma cnt_class_dec k t c k' :
  cnt_class (cnt_dec k t c) k' = cnt_class c k' - (if eclass_eqb k k' then 1 else 0).
Proof. unfold cnt_dec. rewrite cnt_class_map_class, cnt_class_map_type. destruct (eclass_eqb k k'); lia. Qed.

Lemma cnt_type_dec k t c t' :
  cnt_type (cnt_dec k t c) t' = cnt_type c t' - (if ptype_eqb t t' then 1 else 0).
Proof. unfold cnt_dec. rewrite cnt_type_map_class, cnt_type_map_type. destruct (ptype_eqb t t'); lia. Qed.

Lemma cnt_class_zero k : cnt_class cnt_zero k = 0.
Proof. destruct k; reflexivity. Qed.
Lemma cnt_type_zero t : cnt_type cnt_zero t = 0.
Proof. destruct t; reflexivity. Qed.

Lemma eclass_eqb_sym a b : eclass_eqb a b = eclass_eqb b a.
Proof. destruct a, b; reflexivity. Qed.
Lemma ptype_eqb_sym a b : ptype_eqb a b = ptype_eqb b a.
Proof. destruct a, b; reflexivity. Qed.

(* ---------------------------------------------------------------------------------------------- *)
(* the invariant *)

Definition id_lt (a b : erec) : Prop := r_id a < r_id b.

Record ebuf_inv (b : ebuf) : Prop := mkInv {
  inv_total_class : forall k, cnt_class (eb_total b) k = countN (in_class k) (eb_events b);
  inv_total_type : forall t, cnt_type (eb_total b) t = countN (in_type t) (eb_events b);
  inv_written_class : forall k, cnt_class (eb_written b) k = countN (wclass k) (eb_events b);
  inv_written_type : forall t, cnt_type (eb_written b) t = countN (wtype t) (eb_events b);
  inv_cap : forall t, countN (in_type t) (eb_events b) <= cfg_max (eb_cfg b) t;
  inv_sorted : StronglySorted id_lt (eb_events b);
  inv_below : Forall (fun r => r_id r < eb_next b) (eb_events b)
}.

(* two records that differ at most in state and selected variation *)
Definition core_eq (r r' : erec) : Prop :=
  r_id r = r_id r' /\ r_index r = r_index r' /\ r_class r = r_class r' /\ r_type r = r_type r'
  /\ r_meas r = r_meas r' /\ r_dvar r = r_dvar r'.

Lemma core_eq_refl r : core_eq r r.
Proof. repeat split. Qed.

Lemma core_eq_set_state r r' s : core_eq r r' -> core_eq r (set_state r' s).
Proof. intros H. exact H. Qed.

Lemma core_eq_set_svar r r' v : core_eq r r' -> core_eq r (set_svar r' v).
Proof. intros H. exact H. Qed.


Lemma Forall2_refl {A} (R : A -> A -> Prop) l : (forall x, R x x) -> Forall2 R l l.
Proof. intros H. induction l; constructor; auto. Qed.

Lemma Forall2_impl {A B} (P Q : A -> B -> Prop) l l' :
  (forall a b, P a b -> Q a b) -> Forall2 P l l' -> Forall2 Q l l'.
Proof. intros H. induction 1; constructor; auto. Qed.

Lemma core_in_class k l l' : Forall2 core_eq l l' -> countN (in_class k) l = countN (in_class k) l'.
Proof.
  intros H. apply countN_Forall2. eapply Forall2_impl; [|exact H].
  intros r r' (_ & _ & Hc & _). unfold in_class. rewrite Hc. reflexivity.
Qed.

Lemma core_in_type t l l' : Forall2 core_eq l l' -> countN (in_type t) l = countN (in_type t) l'.
Proof.
  intros H. apply countN_Forall2. eapply Forall2_impl; [|exact H].
  intros r r' (_ & _ & _ & Ht & _). unfold in_type. rewrite Ht. reflexivity.
Qed.

Lemma core_sorted l l' : Forall2 core_eq l l' -> StronglySorted id_lt l -> StronglySorted id_lt l'.
Proof.
  induction 1 as [|r r' l l' Hr Hl IH]; intros Hs; [constructor|].
  inversion Hs as [|? ? Hs' Hall]; subst. constructor; [apply IH; exact Hs'|].
  clear IH Hs Hs'. induction Hl as [|x x' l l' Hx _ IH]; [constructor|].
  inversion Hall; subst. constructor; [|apply IH; assumption].
  unfold id_lt in *. destruct Hr as (Hr & _), Hx as (Hx & _). lia.
Qed.

Lemma core_below n l l' : Forall2 core_eq l l' ->
  Forall (fun r => r_id r < n) l -> Forall (fun r => r_id r < n) l'.
Proof.
  induction 1 as [|r r' l l' Hr _ IH]; intros Hf; [constructor|].
  inversion Hf; subst. constructor; [destruct Hr as (Hr & _); lia|apply IH; assumption].
Qed.

(* ---------------------------------------------------------------------------------------------- *)
(* sortedness helpers *)

Lemma sorted_app_last l x :
  StronglySorted id_lt l -> Forall (fun r => id_lt r x) l -> StronglySorted id_lt (l ++ [x]).
Proof.
  induction l as [|a l IH]; intros Hs Hf; cbn [app]; [repeat constructor|].
  inversion Hs; subst. inversion Hf; subst. constructor; [apply IH; assumption|].
  apply Forall_app. split; [assumption|constructor; [assumption|constructor]].
Qed.

Lemma sorted_remove_mid pre x post :
  StronglySorted id_lt (pre ++ x :: post) -> StronglySorted id_lt (pre ++ post).
Proof.
  induction pre as [|a pre IH]; cbn [app]; intros Hs.
  - inversion Hs; assumption.
  - inversion Hs as [|? ? Hs' Hall]; subst. constructor; [apply IH; exact Hs'|].
    apply Forall_app in Hall. destruct Hall as [H1 H2]. inversion H2; subst.
    apply Forall_app. split; assumption.
Qed.

Lemma sorted_filter f l : StronglySorted id_lt l -> StronglySorted id_lt (filter f l).
Proof.
  induction l as [|a l IH]; intros Hs; cbn [filter]; [constructor|].
  inversion Hs as [|? ? Hs' Hall]; subst.
  destruct (f a); [|apply IH; exact Hs'].
  constructor; [apply IH; exact Hs'|].
  apply Forall_forall. intros x Hx. apply filter_In in Hx.
  rewrite Forall_forall in Hall. apply Hall, Hx.
Qed.

Lemma Forall_remove_mid {A} (P : A -> Prop) pre x post :
  Forall P (pre ++ x :: post) -> Forall P (pre ++ post).
Proof.
  intros H. apply Forall_app in H. destruct H as [H1 H2]. inversion H2; subst.
  apply Forall_app; split; assumption.
Qed.

(* ---------------------------------------------------------------------------------------------- *)
(* insert *)

Lemma remove_first_type_some t l old rest :
  remove_first_type t l = Some (old, rest) ->
  exists pre post, l = pre ++ old :: post /\ rest = pre ++ post /\ r_type old = t
                   /\ Forall (fun r => in_type t r = false) pre.
Proof.
  revert old rest. induction l as [|r l IH]; intros old rest H; cbn [remove_first_type] in H; [discriminate|].
  destruct (ptype_eqb (r_type r) t) eqn:Et.
  - injection H as H1 H2; subst old rest. exists [], l. repeat split; [apply ptype_eqb_eq; exact Et|constructor].
  - destruct (remove_first_type t l) as [[x tl']|] eqn:Er; [|discriminate].
    injection H as H1 H2; subst old rest. destruct (IH _ _ eq_refl) as (pre & post & -> & -> & Ht & Hpre).
    exists (r :: pre), post. repeat split; [exact Ht|constructor; [exact Et|exact Hpre]].
Qed.

Lemma remove_first_type_none t l :
  remove_first_type t l = None -> countN (in_type t) l = 0.
Proof.
  induction l as [|r l IH]; intros H; cbn [remove_first_type countN] in *; [reflexivity|].
  unfold in_type at 1. destruct (ptype_eqb (r_type r) t); [discriminate|].
  destruct (remove_first_type t l) as [[x tl']|]; [discriminate|]. rewrite IH; reflexivity.
Qed.

Lemma countN_mid f pre x post :
  countN f (pre ++ x :: post) = countN f (pre ++ post) + (if f x then 1 else 0).
Proof. rewrite !countN_app. cbn [countN]. lia. Qed.

Definition new_rec (b : ebuf) (index : N) (k : eclass) (t : ptype) (m : meas) (dv : evar) : erec :=
  mkRec (eb_next b) index k t m dv dv Unselected.

(* the three outcomes of insert, in terms of the records *)
Lemma ebuf_insert_cases b index k t m dv :
  ebuf_inv b ->
  let '(b', res) := ebuf_insert b index k t m dv in
  let rec := new_rec b index k t m dv in
  (cfg_max (eb_cfg b) t = 0 /\ b' = b /\ res = InsTypeMaxIsZero)
  \/ (cfg_max (eb_cfg b) t <> 0 /\ countN (in_type t) (eb_events b) < cfg_max (eb_cfg b) t
      /\ res = InsOk (eb_next b) /\ eb_events b' = eb_events b ++ [rec]
      /\ eb_total b' = cnt_inc k t (eb_total b) /\ eb_written b' = eb_written b
      /\ eb_overflown b' = eb_overflown b /\ eb_next b' = eb_next b + 1 /\ eb_cfg b' = eb_cfg b)
  \/ (cfg_max (eb_cfg b) t <> 0 /\ countN (in_type t) (eb_events b) = cfg_max (eb_cfg b) t
      /\ exists old pre post,
          eb_events b = pre ++ old :: post /\ Forall (fun r => in_type t r = false) pre
          /\ r_type old = t /\ res = InsOverflow (eb_next b) (r_id old)
          /\ eb_events b' = pre ++ post ++ [rec]
          /\ eb_total b' = cnt_inc k t (cnt_dec (r_class old) t (eb_total b))
          /\ eb_written b' = (if is_written old then cnt_dec (r_class old) t (eb_written b) else eb_written b)
          /\ eb_overflown b' = true /\ eb_next b' = eb_next b + 1 /\ eb_cfg b' = eb_cfg b).
Proof.
  intros Hinv. unfold ebuf_insert.
  destruct (cfg_max (eb_cfg b) t =? 0) eqn:Emax.
  { left. repeat split. apply N.eqb_eq; exact Emax. }
  apply N.eqb_neq in Emax.
  destruct (cnt_type (eb_total b) t =? cfg_max (eb_cfg b) t) eqn:Efull.
  - apply N.eqb_eq in Efull. rewrite (inv_total_type b Hinv) in Efull.
    destruct (remove_first_type t (eb_events b)) as [[old rest]|] eqn:Er.
    + right; right. destruct (remove_first_type_some _ _ _ _ Er) as (pre & post & Hl & -> & Ht & Hpre).
      split; [exact Emax|]. split; [exact Efull|].
      exists old, pre, post. cbn [eb_events eb_total eb_written eb_overflown eb_next eb_cfg].
      rewrite <- app_assoc. repeat split; try assumption.
      unfold is_written. destruct (r_state old); reflexivity.
    + apply remove_first_type_none in Er. lia.
  - right; left. apply N.eqb_neq in Efull. rewrite (inv_total_type b Hinv) in Efull.
    pose proof (inv_cap b Hinv t). cbn [eb_events eb_total eb_written eb_overflown eb_next eb_cfg].
    repeat split; try assumption; lia.
Qed.

Lemma in_class_new b i k t m dv k' : in_class k' (new_rec b i k t m dv) = eclass_eqb k k'.
Proof. reflexivity. Qed.
Lemma in_type_new b i k t m dv t' : in_type t' (new_rec b i k t m dv) = ptype_eqb t t'.
Proof. reflexivity. Qed.

Lemma wclass_new b i k t m dv k' : wclass k' (new_rec b i k t m dv) = false.
Proof. unfold wclass, is_written. cbn. apply andb_false_r. Qed.
Lemma wtype_new b i k t m dv t' : wtype t' (new_rec b i k t m dv) = false.
Proof. unfold wtype, is_written. cbn. apply andb_false_r. Qed.

Lemma insert_preserves b index k t m dv :
  ebuf_inv b -> ebuf_inv (fst (ebuf_insert b index k t m dv)).
Proof.
  intros Hinv. pose proof (ebuf_insert_cases b index k t m dv Hinv) as H.
  destruct (ebuf_insert b index k t m dv) as [b' res]. cbn [fst].
  destruct H as [(_ & -> & _)|[H|H]]; [exact Hinv| |].
  - destruct H as (Hmax & Hlt & _ & Hev & Htot & Hwr & _ & Hnext & Hcfg).
    destruct Hinv as [I1 I2 I3 I4 I5 I6 I7].
    constructor; rewrite ?Hev, ?Htot, ?Hwr, ?Hnext, ?Hcfg.
    + intro k'. rewrite cnt_class_inc, countN_app, I1. cbn [countN]. rewrite in_class_new. lia.
    + intro t'. rewrite cnt_type_inc, countN_app, I2. cbn [countN]. rewrite in_type_new. lia.
    + intro k'. rewrite countN_app, I3. cbn [countN]. rewrite wclass_new. lia.
    + intro t'. rewrite countN_app, I4. cbn [countN]. rewrite wtype_new. lia.
    + intro t'. rewrite countN_app. cbn [countN]. rewrite in_type_new.
      destruct (ptype_eqb t t') eqn:E; [apply ptype_eqb_eq in E; subst t'; lia|pose proof (I5 t'); lia].
    + apply sorted_app_last; [exact I6|]. eapply Forall_impl; [|exact I7]. intros r Hr. exact Hr.
    + apply Forall_app. split; [eapply Forall_impl; [|exact I7]; cbn; intros; lia|].
      constructor; [cbn; lia|constructor].
  - destruct H as (Hmax & Hfull & old & pre & post & Hl & Hpre & Hto & _ & Hev & Htot & Hwr & _ & Hnext & Hcfg).
    destruct Hinv as [I1 I2 I3 I4 I5 I6 I7]. rewrite Hl in *.
    assert (Hcls : in_class (r_class old) old = true) by (unfold in_class; apply eclass_eqb_refl).
    assert (Htyp : in_type t old = true) by (unfold in_type; rewrite Hto; apply ptype_eqb_refl).
    constructor; rewrite ?Hev, ?Htot, ?Hnext, ?Hcfg.
    + intro k'. rewrite cnt_class_inc, cnt_class_dec, I1, !countN_app. cbn [countN].
      rewrite in_class_new. change (in_class k' old) with (eclass_eqb (r_class old) k').
      destruct (eclass_eqb (r_class old) k'), (eclass_eqb k k'); lia.
    + intro t'. rewrite cnt_type_inc, cnt_type_dec, I2, !countN_app. cbn [countN].
      rewrite in_type_new. change (in_type t' old) with (ptype_eqb (r_type old) t'). rewrite Hto.
      destruct (ptype_eqb t t'); lia.
    + intro k'. rewrite Hwr, !countN_app. cbn [countN]. rewrite wclass_new.
      pose proof (I3 k') as H3. rewrite !countN_app in H3. cbn [countN] in H3.
      change (wclass k' old) with (eclass_eqb (r_class old) k' && is_written old) in H3.
      destruct (is_written old) eqn:Ew.
      * rewrite cnt_class_dec, H3. rewrite andb_true_r.
        destruct (eclass_eqb (r_class old) k'); lia.
      * rewrite andb_false_r in H3. lia.
    + intro t'. rewrite Hwr, !countN_app. cbn [countN]. rewrite wtype_new.
      pose proof (I4 t') as H4. rewrite !countN_app in H4. cbn [countN] in H4.
      change (wtype t' old) with (ptype_eqb (r_type old) t' && is_written old) in H4. rewrite Hto in H4.
      destruct (is_written old) eqn:Ew.
      * rewrite cnt_type_dec, H4. rewrite andb_true_r.
        destruct (ptype_eqb t t'); lia.
      * rewrite andb_false_r in H4. lia.
    + intro t'. rewrite !countN_app. cbn [countN]. rewrite in_type_new.
      pose proof (I5 t') as H5. rewrite !countN_app in H5, Hfull. cbn [countN] in H5, Hfull.
      change (in_type t' old) with (ptype_eqb (r_type old) t') in H5. rewrite Hto in H5. rewrite Htyp in Hfull.
      destruct (ptype_eqb t t') eqn:E; [apply ptype_eqb_eq in E; subst t'; lia|lia].
    + rewrite app_assoc. apply sorted_app_last; [eapply sorted_remove_mid; exact I6|].
      apply Forall_remove_mid in I7. eapply Forall_impl; [|exact I7]. intros r Hr. exact Hr.
    + rewrite app_assoc. apply Forall_app. split.
      * apply Forall_remove_mid in I7. eapply Forall_impl; [|exact I7]. cbn; intros; lia.
      * constructor; [cbn; lia|constructor].
Qed.

(* ---------------------------------------------------------------------------------------------- *)
(* select *)

Definition sel_ok (sel : erec -> option erec) : Prop :=
  forall r r', sel r = Some r' -> core_eq r r' /\ r_state r' = r_state r.

Lemma sel_class_ok c1 c2 c3 : sel_ok (sel_class c1 c2 c3).
Proof.
  intros r r' H. unfold sel_class in H. destruct (classes_match c1 c2 c3 (r_class r)); [|discriminate].
  inversion H; subst. split; [apply core_eq_set_svar, core_eq_refl|reflexivity].
Qed.

Lemma sel_type_ok t v : sel_ok (sel_type t v).
Proof.
  intros r r' H. unfold sel_type in H. destruct (ptype_eqb (r_type r) t); [|discriminate].
  inversion H; subst. split; [apply core_eq_set_svar, core_eq_refl|reflexivity].
Qed.

Lemma select_loop_core sel lim l : sel_ok sel ->
  Forall2 (fun r r' => core_eq r r' /\ is_written r' = is_written r) l (fst (select_loop sel lim l)).
Proof.
  intros Hsel. revert lim. induction l as [|r l IH]; intro lim; cbn [select_loop fst]; [constructor|].
  destruct (limit_take lim).
  - destruct (estate_eqb (r_state r) Unselected) eqn:Eu.
    + destruct (sel r) as [r'|] eqn:Es.
      * specialize (IH (limit_pred lim)). destruct (select_loop sel (limit_pred lim) l) as [tl' n]. cbn [fst] in *.
        constructor; [|exact IH]. destruct (Hsel _ _ Es) as [Hc _]. split; [exact Hc|].
        unfold is_written. cbn. destruct (r_state r); cbn in Eu |- *; try reflexivity; discriminate.
      * specialize (IH lim). destruct (select_loop sel lim l) as [tl' n]. cbn [fst] in *.
        constructor; [split; [apply core_eq_refl|reflexivity]|exact IH].
    + specialize (IH lim). destruct (select_loop sel lim l) as [tl' n]. cbn [fst] in *.
      constructor; [split; [apply core_eq_refl|reflexivity]|exact IH].
  - apply Forall2_refl. intro x. split; [apply core_eq_refl|reflexivity].
Qed.

Lemma wclass_core k l l' :
  Forall2 (fun r r' => core_eq r r' /\ is_written r' = is_written r) l l' ->
  countN (wclass k) l = countN (wclass k) l'.
Proof.
  intros H. apply countN_Forall2. eapply Forall2_impl; [|exact H].
  intros r r' ((_ & _ & Hc & _) & Hw). unfold wclass, in_class. rewrite Hc, Hw. reflexivity.
Qed.

Lemma wtype_core t l l' :
  Forall2 (fun r r' => core_eq r r' /\ is_written r' = is_written r) l l' ->
  countN (wtype t) l = countN (wtype t) l'.
Proof.
  intros H. apply countN_Forall2. eapply Forall2_impl; [|exact H].
  intros r r' ((_ & _ & _ & Ht & _) & Hw). unfold wtype, in_type. rewrite Ht, Hw. reflexivity.
Qed.

Lemma Forall2_fst {A} (P Q : A -> A -> Prop) l l' :
  Forall2 (fun a b => P a b /\ Q a b) l l' -> Forall2 P l l'.
Proof. intros H. eapply Forall2_impl; [|exact H]. intros a b [Hp _]; exact Hp. Qed.

(* replacing the records by records that differ in state / selected variation but keep the set of
   Written ones keeps the invariant *)
Lemma inv_with_events b evs :
  ebuf_inv b ->
  Forall2 (fun r r' => core_eq r r' /\ is_written r' = is_written r) (eb_events b) evs ->
  ebuf_inv (with_events b evs).
Proof.
  intros [I1 I2 I3 I4 I5 I6 I7] H. pose proof (Forall2_fst _ _ _ _ H) as Hc.
  constructor; cbn [with_events eb_events eb_total eb_written eb_cfg eb_next].
  - intro k. rewrite I1. apply core_in_class; exact Hc.
  - intro t. rewrite I2. apply core_in_type; exact Hc.
  - intro k. rewrite I3. apply wclass_core; exact H.
  - intro t. rewrite I4. apply wtype_core; exact H.
  - intro t. rewrite <- (core_in_type t _ _ Hc). apply I5.
  - eapply core_sorted; eassumption.
  - eapply core_below; eassumption.
Qed.

Lemma select_class_preserves b c1 c2 c3 lim :
  ebuf_inv b -> ebuf_inv (fst (ebuf_select_by_class b c1 c2 c3 lim)).
Proof.
  intros Hinv. unfold ebuf_select_by_class.
  pose proof (select_loop_core (sel_class c1 c2 c3) lim (eb_events b) (sel_class_ok c1 c2 c3)) as H.
  destruct (select_loop (sel_class c1 c2 c3) lim (eb_events b)) as [evs n]. cbn [fst] in *.
  apply inv_with_events; assumption.
Qed.

Lemma select_type_preserves b t v lim :
  ebuf_inv b -> ebuf_inv (fst (ebuf_select_by_type b t v lim)).
Proof.
  intros Hinv. unfold ebuf_select_by_type.
  pose proof (select_loop_core (sel_type t v) lim (eb_events b) (sel_type_ok t v)) as H.
  destruct (select_loop (sel_type t v) lim (eb_events b)) as [evs n]. cbn [fst] in *.
  apply inv_with_events; assumption.
Qed.


Lemma wclass_cons_w k r l : is_written r = true ->
  countN (wclass k) (r :: l) = (if eclass_eqb (r_class r) k then 1 else 0) + countN (wclass k) l.
Proof. intros H. cbn [countN]. unfold wclass at 1, in_class. rewrite H, andb_true_r. reflexivity. Qed.
Lemma wclass_cons_u k r l : is_written r = false -> countN (wclass k) (r :: l) = countN (wclass k) l.
Proof. intros H. cbn [countN]. unfold wclass at 1. rewrite H, andb_false_r. reflexivity. Qed.
Lemma wtype_cons_w t r l : is_written r = true ->
  countN (wtype t) (r :: l) = (if ptype_eqb (r_type r) t then 1 else 0) + countN (wtype t) l.
Proof. intros H. cbn [countN]. unfold wtype at 1, in_type. rewrite H, andb_true_r. reflexivity. Qed.
Lemma wtype_cons_u t r l : is_written r = false -> countN (wtype t) (r :: l) = countN (wtype t) l.
Proof. intros H. cbn [countN]. unfold wtype at 1. rewrite H, andb_false_r. reflexivity. Qed.

(* ---------------------------------------------------------------------------------------------- *)
(* write *)

Definition is_selected (r : erec) : bool := estate_eqb (r_state r) Selected.
Definition selected (l : list erec) : list erec := filter is_selected l.

(* the first n Selected records become Written *)
Fixpoint mark_written (n : nat) (l : list erec) : list erec :=
  match l with
  | [] => []
  | r :: tl =>
    if is_selected r then
      match n with
      | O => r :: tl
      | S k => set_state r Written :: mark_written k tl
      end
    else r :: mark_written n tl
  end.

(* feeding records to the writer until one does not fit *)
Fixpoint ew_feed (w : ewriter) (l : list erec) : option ewriter :=
  match l with
  | [] => Some w
  | r :: tl => match ew_try w r with Some w' => ew_feed w' tl | None => None end
  end.

Lemma write_loop_spec l : forall w cnt l' w' cnt' n c,
  write_loop l w cnt = (l', w', cnt', n, c) ->
  let k := N.to_nat n in
  (k <= length (selected l))%nat
  /\ l' = mark_written k l
  /\ ew_feed w (firstn k (selected l)) = Some w'
  /\ (c = true -> k = length (selected l))
  /\ (c = false -> exists r, nth_error (selected l) k = Some r /\ ew_try w' r = None).
Proof.
  induction l as [|r l IH]; intros w cnt l' w' cnt' n c H; cbn [write_loop] in H.
  - injection H as <- <- <- <- <-. cbn. repeat split; try lia; intros; discriminate.
  - unfold selected in *. cbn [filter mark_written]. fold (is_selected r) in H.
    destruct (is_selected r) eqn:Es.
    + destruct (ew_try w r) as [w1|] eqn:Et.
      * destruct (write_loop l w1 (cnt_inc (r_class r) (r_type r) cnt)) as [[[[tl' w''] cnt''] n'] c'] eqn:El.
        injection H as <- <- <- <- <-.
        destruct (IH _ _ _ _ _ _ _ El) as (H1 & H2 & H3 & H4 & H5).
        replace (N.to_nat (n' + 1)) with (S (N.to_nat n')) by lia.
        cbn [length firstn ew_feed nth_error]. rewrite Et.
        repeat split; [lia|rewrite H2; reflexivity|exact H3|intro Hc; rewrite (H4 Hc); reflexivity|exact H5].
      * injection H as <- <- <- <- <-. cbn [N.to_nat length firstn ew_feed nth_error].
        repeat split; [lia|intros; discriminate|]. intros _. exists r. split; [reflexivity|exact Et].
    + destruct (write_loop l w cnt) as [[[[tl' w''] cnt''] n'] c'] eqn:El.
      injection H as <- <- <- <- <-.
      destruct (IH _ _ _ _ _ _ _ El) as (H1 & H2 & H3 & H4 & H5).
      repeat split; [exact H1|rewrite H2; reflexivity|exact H3|exact H4|exact H5].
Qed.

(* counters during the write: what is added to `written` is what became Written *)
Lemma write_loop_counts l : forall w cnt l' w' cnt' n c,
  write_loop l w cnt = (l', w', cnt', n, c) ->
  (forall r, In r l -> is_selected r = true -> is_written r = false) ->
  (forall k, cnt_class cnt' k + countN (wclass k) l = cnt_class cnt k + countN (wclass k) l')
  /\ (forall t, cnt_type cnt' t + countN (wtype t) l = cnt_type cnt t + countN (wtype t) l')
  /\ Forall2 core_eq l l'.
Proof.
  induction l as [|r l IH]; intros w cnt l' w' cnt' n c H Hsel; cbn [write_loop] in H.
  - injection H as <- <- <- <- <-. repeat split; try constructor.
  - fold (is_selected r) in H. destruct (is_selected r) eqn:Es.
    + destruct (ew_try w r) as [w1|] eqn:Et.
      * destruct (write_loop l w1 (cnt_inc (r_class r) (r_type r) cnt)) as [[[[tl' w''] cnt''] n'] c'] eqn:El.
        injection H as <- <- <- <- <-.
        destruct (IH _ _ _ _ _ _ _ El) as (H1 & H2 & H3); [intros x Hx; apply Hsel; right; exact Hx|].
        pose proof (Hsel r (or_introl eq_refl) Es) as Hw.
        repeat split.
        -- intro k. specialize (H1 k). rewrite cnt_class_inc in H1.
           rewrite (wclass_cons_u k r l Hw), (wclass_cons_w k (set_state r Written) tl' eq_refl).
           cbn [set_state r_class]. lia.
        -- intro t. specialize (H2 t). rewrite cnt_type_inc in H2.
           rewrite (wtype_cons_u t r l Hw), (wtype_cons_w t (set_state r Written) tl' eq_refl).
           cbn [set_state r_type]. lia.
        -- constructor; [apply core_eq_set_state, core_eq_refl|exact H3].
      * injection H as <- <- <- <- <-. repeat split; try lia. apply Forall2_refl, core_eq_refl.
    + destruct (write_loop l w cnt) as [[[[tl' w''] cnt''] n'] c'] eqn:El.
      injection H as <- <- <- <- <-.
      destruct (IH _ _ _ _ _ _ _ El) as (H1 & H2 & H3); [intros x Hx; apply Hsel; right; exact Hx|].
      repeat split.
      * intro k. specialize (H1 k). cbn [countN]. lia.
      * intro t. specialize (H2 t). cbn [countN]. lia.
      * constructor; [apply core_eq_refl|exact H3].
Qed.

Lemma selected_not_written r : is_selected r = true -> is_written r = false.
Proof. unfold is_selected, is_written. destruct (r_state r); cbn; intros; try reflexivity; discriminate. Qed.

Lemma write_preserves b budget : ebuf_inv b -> ebuf_inv (fst (ebuf_write_hdrs b budget)).
Proof.
  intros [I1 I2 I3 I4 I5 I6 I7]. unfold ebuf_write_hdrs.
  destruct (write_loop (eb_events b) (ew_new budget) (eb_written b)) as [[[[evs w] cnt] n] c] eqn:El.
  cbn [fst]. destruct (write_loop_counts _ _ _ _ _ _ _ _ El) as (H1 & H2 & H3).
  { intros r _ Hr. apply selected_not_written; exact Hr. }
  constructor; cbn [eb_events eb_total eb_written eb_cfg eb_next].
  - intro k. rewrite I1. apply core_in_class; exact H3.
  - intro t. rewrite I2. apply core_in_type; exact H3.
  - intro k. specialize (H1 k). rewrite I3 in H1. lia.
  - intro t. specialize (H2 t). rewrite I4 in H2. lia.
  - intro t. rewrite <- (core_in_type t _ _ H3). apply I5.
  - eapply core_sorted; eassumption.
  - eapply core_below; eassumption.
Qed.

(* ---------------------------------------------------------------------------------------------- *)
(* clear_written *)

Definition not_written (r : erec) : bool := negb (is_written r).

Lemma clear_loop_spec l : forall total l' total' ids,
  clear_loop l total = (l', total', ids) ->
  l' = filter not_written l /\ ids = map r_id (filter is_written l).
Proof.
  induction l as [|r l IH]; intros total l' total' ids H; cbn [clear_loop] in H.
  - injection H as <- <- <-. split; reflexivity.
  - cbn [filter]. unfold not_written at 1. destruct (is_written r) eqn:Ew; cbn [negb].
    + destruct (clear_loop l (cnt_dec (r_class r) (r_type r) total)) as [[tl' t'] ids'] eqn:El.
      injection H as <- <- <-. destruct (IH _ _ _ _ El) as [-> ->]. split; reflexivity.
    + destruct (clear_loop l total) as [[tl' t'] ids'] eqn:El.
      injection H as <- <- <-. destruct (IH _ _ _ _ El) as [-> ->]. split; reflexivity.
Qed.

Lemma clear_loop_counts l : forall total l' total' ids,
  clear_loop l total = (l', total', ids) ->
  (forall k, countN (wclass k) l <= cnt_class total k) ->
  (forall t, countN (wtype t) l <= cnt_type total t) ->
  (forall k, cnt_class total' k + countN (wclass k) l = cnt_class total k)
  /\ (forall t, cnt_type total' t + countN (wtype t) l = cnt_type total t).
Proof.
  induction l as [|r l IH]; intros total l' total' ids H Hk Ht; cbn [clear_loop] in H.
  - injection H as <- <- <-. split; intros; cbn [countN]; lia.
  - destruct (is_written r) eqn:Ew.
    + destruct (clear_loop l (cnt_dec (r_class r) (r_type r) total)) as [[tl' t'] ids'] eqn:El.
      injection H as <- <- <-.
      assert (Hk' : forall k, countN (wclass k) l <= cnt_class (cnt_dec (r_class r) (r_type r) total) k).
      { intro k. specialize (Hk k). rewrite (wclass_cons_w k r l Ew) in Hk.
        rewrite cnt_class_dec. destruct (eclass_eqb (r_class r) k); lia. }
      assert (Ht' : forall t, countN (wtype t) l <= cnt_type (cnt_dec (r_class r) (r_type r) total) t).
      { intro t. specialize (Ht t). rewrite (wtype_cons_w t r l Ew) in Ht.
        rewrite cnt_type_dec. destruct (ptype_eqb (r_type r) t); lia. }
      destruct (IH _ _ _ _ El Hk' Ht') as [H1 H2]. split.
      * intro k. specialize (H1 k). specialize (Hk k). rewrite (wclass_cons_w k r l Ew) in *.
        rewrite cnt_class_dec in H1. destruct (eclass_eqb (r_class r) k); lia.
      * intro t. specialize (H2 t). specialize (Ht t). rewrite (wtype_cons_w t r l Ew) in *.
        rewrite cnt_type_dec in H2. destruct (ptype_eqb (r_type r) t); lia.
    + destruct (clear_loop l total) as [[tl' t'] ids'] eqn:El.
      injection H as <- <- <-.
      assert (Hk' : forall k, countN (wclass k) l <= cnt_class total k).
      { intro k. specialize (Hk k). rewrite (wclass_cons_u k r l Ew) in Hk. exact Hk. }
      assert (Ht' : forall t, countN (wtype t) l <= cnt_type total t).
      { intro t. specialize (Ht t). rewrite (wtype_cons_u t r l Ew) in Ht. exact Ht. }
      destruct (IH _ _ _ _ El Hk' Ht') as [H1 H2]. split.
      * intro k. specialize (H1 k). rewrite (wclass_cons_u k r l Ew). exact H1.
      * intro t. specialize (H2 t). rewrite (wtype_cons_u t r l Ew). exact H2.
Qed.

Lemma Forall_filter {A} (P : A -> Prop) f l : Forall P l -> Forall P (filter f l).
Proof.
  intros H. apply Forall_forall. intros x Hx. apply filter_In in Hx. rewrite Forall_forall in H. apply H, Hx.
Qed.

Lemma clear_preserves b : ebuf_inv b -> ebuf_inv (fst (ebuf_clear_written b)).
Proof.
  intros [I1 I2 I3 I4 I5 I6 I7]. unfold ebuf_clear_written.
  destruct (clear_loop (eb_events b) (eb_total b)) as [[evs total] ids] eqn:El. cbn [fst].
  destruct (clear_loop_spec _ _ _ _ _ El) as [-> _].
  destruct (clear_loop_counts _ _ _ _ _ El) as [H1 H2].
  { intro k. rewrite I1. apply countN_le. intros r Hr. unfold wclass in Hr. apply andb_prop in Hr. apply Hr. }
  { intro t. rewrite I2. apply countN_le. intros r Hr. unfold wtype in Hr. apply andb_prop in Hr. apply Hr. }
  constructor; cbn [eb_events eb_total eb_written eb_cfg eb_next].
  - intro k. specialize (H1 k). rewrite I1 in H1.
    rewrite (countN_split (in_class k) is_written (eb_events b)) in H1.
    fold not_written in H1. fold (wclass k) in H1. lia.
  - intro t. specialize (H2 t). rewrite I2 in H2.
    rewrite (countN_split (in_type t) is_written (eb_events b)) in H2.
    fold not_written in H2. fold (wtype t) in H2. lia.
  - intro k. rewrite cnt_class_zero. symmetry. apply countN_filter_false.
    intros r Hr. unfold wclass. unfold not_written in Hr. destruct (is_written r); [discriminate|apply andb_false_r].
  - intro t. rewrite cnt_type_zero. symmetry. apply countN_filter_false.
    intros r Hr. unfold wtype. unfold not_written in Hr. destruct (is_written r); [discriminate|apply andb_false_r].
  - intro t. specialize (I5 t). rewrite (countN_split (in_type t) is_written (eb_events b)) in I5.
    fold not_written in I5. lia.
  - apply sorted_filter; exact I6.
  - apply Forall_filter; exact I7.
Qed.

(* ---------------------------------------------------------------------------------------------- *)
(* reset *)

Lemma core_map_set_state l s : Forall2 core_eq l (map (fun r => set_state r s) l).
Proof. induction l as [|r l IH]; cbn [map]; constructor; [apply core_eq_set_state, core_eq_refl|exact IH]. Qed.

Lemma reset_preserves b : ebuf_inv b -> ebuf_inv (ebuf_reset b).
Proof.
  intros [I1 I2 I3 I4 I5 I6 I7].
  pose proof (core_map_set_state (eb_events b) Unselected) as Hc.
  constructor; cbn [ebuf_reset eb_events eb_total eb_written eb_cfg eb_next].
  - intro k. rewrite I1. apply core_in_class; exact Hc.
  - intro t. rewrite I2. apply core_in_type; exact Hc.
  - intro k. rewrite cnt_class_zero. symmetry. apply countN_zero. intros r Hr. apply in_map_iff in Hr.
    destruct Hr as (x & <- & _). unfold wclass, is_written. cbn. apply andb_false_r.
  - intro t. rewrite cnt_type_zero. symmetry. apply countN_zero. intros r Hr. apply in_map_iff in Hr.
    destruct Hr as (x & <- & _). unfold wtype, is_written. cbn. apply andb_false_r.
  - intro t. rewrite <- (core_in_type t _ _ Hc). apply I5.
  - eapply core_sorted; eassumption.
  - eapply core_below; eassumption.
Qed.

(* ---------------------------------------------------------------------------------------------- *)
(* every reachable state satisfies the invariant *)

Lemma new_inv cfg : ebuf_inv (ebuf_new cfg).
Proof.
  constructor; cbn [ebuf_new eb_events eb_total eb_written eb_cfg eb_next countN]; intros;
    rewrite ?cnt_class_zero, ?cnt_type_zero; try reflexivity; try constructor. lia.
Qed.

Lemma step_preserves b op : ebuf_inv b -> ebuf_inv (ebuf_step b op).
Proof.
  intros H. destruct op; cbn [ebuf_step].
  - apply insert_preserves; exact H.
  - apply select_class_preserves; exact H.
  - apply select_type_preserves; exact H.
  - apply write_preserves; exact H.
  - apply clear_preserves; exact H.
  - apply reset_preserves; exact H.
Qed.

Lemma run_from_inv ops : forall b, ebuf_inv b -> ebuf_inv (ebuf_run_from b ops).
Proof.
  induction ops as [|op ops IH]; intros b H; cbn [ebuf_run_from fold_left]; [exact H|].
  apply IH, step_preserves, H.
Qed.

Theorem reachable_inv cfg ops : ebuf_inv (ebuf_run cfg ops).
Proof. apply run_from_inv, new_inv. Qed.

(* ============================================================================================== *)
(* THE THEOREMS *)

(* ---- counters ---- *)

Theorem counters_exact : forall cfg ops,
  let b := ebuf_run cfg ops in
  (forall k, cnt_class (eb_total b) k = countN (in_class k) (eb_events b))
  /\ (forall t, cnt_type (eb_total b) t = countN (in_type t) (eb_events b))
  /\ (forall k, cnt_class (eb_written b) k = countN (fun r => in_class k r && is_written r) (eb_events b))
  /\ (forall t, cnt_type (eb_written b) t = countN (fun r => in_type t r && is_written r) (eb_events b)).
Proof.
  intros cfg ops b. destruct (reachable_inv cfg ops) as [I1 I2 I3 I4 _ _ _].
  repeat split; assumption.
Qed.

Theorem capacity_respected : forall cfg ops t,
  countN (in_type t) (eb_events (ebuf_run cfg ops)) <= cfg_max (eb_cfg (ebuf_run cfg ops)) t.
Proof. intros cfg ops t. apply (inv_cap _ (reachable_inv cfg ops)). Qed.

Lemma cfg_run_from ops : forall b, eb_cfg (ebuf_run_from b ops) = eb_cfg b.
Proof.
  induction ops as [|op ops IH]; intro b; cbn [ebuf_run_from fold_left]; [reflexivity|].
  fold (ebuf_run_from (ebuf_step b op) ops). rewrite IH.
  destruct op; cbn [ebuf_step].
  - unfold ebuf_insert. destruct (cfg_max (eb_cfg b) t =? 0); [reflexivity|].
    destruct (if cnt_type (eb_total b) t =? cfg_max (eb_cfg b) t then remove_first_type t (eb_events b) else None)
      as [[old rest]|]; reflexivity.
  - unfold ebuf_select_by_class. destruct (select_loop _ _ _); reflexivity.
  - unfold ebuf_select_by_type. destruct (select_loop _ _ _); reflexivity.
  - unfold ebuf_write_hdrs. destruct (write_loop _ _ _) as [[[[? ?] ?] ?] ?]; reflexivity.
  - unfold ebuf_clear_written. destruct (clear_loop _ _) as [[? ?] ?]; reflexivity.
  - reflexivity.
Qed.

Lemma countN_pos_existsb f l : (0 <? countN f l) = existsb f l.
Proof.
  induction l as [|r l IH]; cbn [countN existsb]; [reflexivity|].
  destruct (f r); cbn [orb]; [|exact IH]. apply N.ltb_lt. lia.
Qed.

Definition unwritten_of (k : eclass) (r : erec) : bool := in_class k r && negb (is_written r).

Lemma unwritten_count k l :
  countN (in_class k) l - countN (wclass k) l = countN (unwritten_of k) l
  /\ countN (wclass k) l <= countN (in_class k) l.
Proof.
  induction l as [|r l [IH1 IH2]]; cbn [countN]; [split; reflexivity|].
  unfold wclass at 1 3, unwritten_of at 1. destruct (in_class k r), (is_written r); cbn [andb negb]; lia.
Qed.

(* the class bits tell the truth: bit c <-> the buffer holds an event of class c that is not Written *)
Theorem class_bits_exact : forall cfg ops,
  let b := ebuf_run cfg ops in
  ebuf_unwritten_classes b =
  (existsb (unwritten_of Class1) (eb_events b),
   existsb (unwritten_of Class2) (eb_events b),
   existsb (unwritten_of Class3) (eb_events b)).
Proof.
  intros cfg ops b. destruct (reachable_inv cfg ops) as [I1 _ I3 _ _ _ _]. fold b in I1, I3.
  unfold ebuf_unwritten_classes.
  pose proof (I1 Class1) as A1. pose proof (I1 Class2) as A2. pose proof (I1 Class3) as A3.
  pose proof (I3 Class1) as B1. pose proof (I3 Class2) as B2. pose proof (I3 Class3) as B3.
  cbn [cnt_class] in A1, A2, A3, B1, B2, B3. rewrite A1, A2, A3, B1, B2, B3.
  rewrite (proj1 (unwritten_count Class1 _)), (proj1 (unwritten_count Class2 _)), (proj1 (unwritten_count Class3 _)).
  rewrite !countN_pos_existsb. reflexivity.
Qed.

(* `total - written` never underflows (the panic of F3 cannot happen) *)
Theorem no_underflow : forall cfg ops, ebuf_subtract_ok (ebuf_run cfg ops) = true.
Proof.
  intros cfg ops. destruct (reachable_inv cfg ops) as [I1 _ I3 _ _ _ _].
  unfold ebuf_subtract_ok.
  pose proof (I1 Class1) as A1. pose proof (I1 Class2) as A2. pose proof (I1 Class3) as A3.
  pose proof (I3 Class1) as B1. pose proof (I3 Class2) as B2. pose proof (I3 Class3) as B3.
  cbn [cnt_class] in A1, A2, A3, B1, B2, B3. rewrite A1, A2, A3, B1, B2, B3.
  pose proof (proj2 (unwritten_count Class1 (eb_events (ebuf_run cfg ops)))).
  pose proof (proj2 (unwritten_count Class2 (eb_events (ebuf_run cfg ops)))).
  pose proof (proj2 (unwritten_count Class3 (eb_events (ebuf_run cfg ops)))).
  rewrite !andb_true_iff, !N.leb_le. repeat split; assumption.
Qed.

(* ---- ids ---- *)

(* ids handed out by the inserts of a run, in order *)
Definition created_of (b : ebuf) (op : eop) : list N :=
  match op with
  | OpInsert i k t m dv =>
    match snd (ebuf_insert b i k t m dv) with
    | InsOk id => [id]
    | InsOverflow id _ => [id]
    | InsTypeMaxIsZero => []
    end
  | _ => []
  end.

Fixpoint created_ids (b : ebuf) (ops : list eop) : list N :=
  match ops with
  | [] => []
  | op :: tl => created_of b op ++ created_ids (ebuf_step b op) tl
  end.

Fixpoint nseq (start : N) (n : nat) : list N :=
  match n with O => [] | S k => start :: nseq (start + 1) k end.

Lemma step_next b op : ebuf_inv b ->
  eb_next (ebuf_step b op) = eb_next b + N.of_nat (length (created_of b op))
  /\ created_of b op = nseq (eb_next b) (length (created_of b op)).
Proof.
  intros Hinv. destruct op; cbn [ebuf_step created_of length nseq]; try (split; [|reflexivity]).
  - pose proof (ebuf_insert_cases b index k t m dv Hinv) as H.
    destruct (ebuf_insert b index k t m dv) as [b' res]. cbn [fst snd].
    destruct H as [(_ & -> & ->)|[(_ & _ & -> & _ & _ & _ & _ & Hn & _)|(_ & _ & old & pre & post & _ & _ & _ & -> & _ & _ & _ & _ & Hn & _)]];
      cbn [length nseq]; split; try reflexivity; lia.
  - unfold ebuf_select_by_class. destruct (select_loop _ _ _). cbn. lia.
  - unfold ebuf_select_by_type. destruct (select_loop _ _ _). cbn. lia.
  - unfold ebuf_write_hdrs. destruct (write_loop _ _ _) as [[[[? ?] ?] ?] ?]. cbn. lia.
  - unfold ebuf_clear_written. destruct (clear_loop _ _) as [[? ?] ?]. cbn. lia.
  - cbn. lia.
Qed.

Lemma nseq_app a n m : nseq a n ++ nseq (a + N.of_nat n) m = nseq a (n + m).
Proof.
  revert a. induction n as [|n IH]; intro a; cbn [nseq app plus].
  - replace (a + N.of_nat 0) with a by lia. reflexivity.
  - f_equal. rewrite <- IH. f_equal. f_equal. lia.
Qed.

Lemma created_ids_seq ops : forall b, ebuf_inv b ->
  created_ids b ops = nseq (eb_next b) (length (created_ids b ops)).
Proof.
  induction ops as [|op ops IH]; intros b Hinv; cbn [created_ids]; [reflexivity|].
  destruct (step_next b op Hinv) as [Hn Hc].
  rewrite app_length, <- nseq_app, <- Hc. f_equal.
  rewrite (IH _ (step_preserves b op Hinv)) at 1. rewrite Hn. reflexivity.
Qed.

(* ids are unique and monotone: the inserts of a run hand out exactly 0, 1, 2, ... in this order;
   the buffer is sorted by id (insertion order = id order) and every id in it is below `next` *)
Theorem ids_unique_monotone : forall cfg ops,
  created_ids (ebuf_new cfg) ops = nseq 0 (length (created_ids (ebuf_new cfg) ops))
  /\ StronglySorted (fun a b => r_id a < r_id b) (eb_events (ebuf_run cfg ops))
  /\ Forall (fun r => r_id r < eb_next (ebuf_run cfg ops)) (eb_events (ebuf_run cfg ops)).
Proof.
  intros cfg ops. split; [apply (created_ids_seq ops (ebuf_new cfg) (new_inv cfg))|].
  destruct (reachable_inv cfg ops) as [_ _ _ _ _ I6 I7]. split; assumption.
Qed.

(* ---- insert ---- *)

(* insert with per-type overflow: below capacity the record is appended; at capacity the OLDEST
   record of the SAME type is discarded and reported, whatever its state, and the flag is raised *)
Theorem insert_overflow_discards_oldest_same_type : forall cfg ops index k t m dv,
  let b := ebuf_run cfg ops in
  let rec := mkRec (eb_next b) index k t m dv dv Unselected in
  let b' := fst (ebuf_insert b index k t m dv) in
  let res := snd (ebuf_insert b index k t m dv) in
  (cfg_max cfg t = 0 -> b' = b /\ res = InsTypeMaxIsZero)
  /\ (cfg_max cfg t <> 0 -> countN (in_type t) (eb_events b) < cfg_max cfg t ->
      res = InsOk (eb_next b) /\ eb_events b' = eb_events b ++ [rec] /\ eb_overflown b' = eb_overflown b)
  /\ (cfg_max cfg t <> 0 -> countN (in_type t) (eb_events b) = cfg_max cfg t ->
      exists old pre post,
        eb_events b = pre ++ old :: post
        /\ Forall (fun r => r_type r <> t) pre /\ r_type old = t
        /\ res = InsOverflow (eb_next b) (r_id old)
        /\ eb_events b' = pre ++ post ++ [rec]
        /\ eb_overflown b' = true).
Proof.
  intros cfg ops index k t m dv b rec b' res.
  pose proof (ebuf_insert_cases b index k t m dv (reachable_inv cfg ops)) as H.
  assert (Hcfg : eb_cfg b = cfg) by (unfold b, ebuf_run; rewrite cfg_run_from; reflexivity).
  rewrite Hcfg in H. subst b' res. destruct (ebuf_insert b index k t m dv) as [b' res]. cbn [fst snd].
  destruct H as [(H0 & -> & ->)|[(Hn0 & Hlt & -> & Hev & _ & _ & Hov & _)|(Hn0 & Hfull & old & pre & post & Hl & Hpre & Hto & -> & Hev & _ & _ & Hov & _)]].
  - repeat split; intros; try reflexivity; contradiction.
  - repeat split; intros; try contradiction; try assumption; lia.
  - repeat split; intros; try contradiction; try lia.
    exists old, pre, post. repeat split; try assumption.
    eapply Forall_impl; [|exact Hpre]. intros r Hr Heq. unfold in_type in Hr. rewrite Heq, ptype_eqb_refl in Hr. discriminate.
Qed.

(* ---- clear_written ---- *)

(* release exactly what was written: the ids reported to the application are those of the Written
   records, in order; exactly these records leave the buffer; nothing else changes state *)
Theorem clear_written_releases_exactly_written : forall b,
  let b' := fst (ebuf_clear_written b) in
  let ids := snd (ebuf_clear_written b) in
  ids = map r_id (filter is_written (eb_events b))
  /\ eb_events b' = filter (fun r => negb (is_written r)) (eb_events b).
Proof.
  intros b. unfold ebuf_clear_written.
  destruct (clear_loop (eb_events b) (eb_total b)) as [[evs total] ids] eqn:El. cbn [fst snd eb_events].
  destruct (clear_loop_spec _ _ _ _ _ El) as [-> ->]. split; reflexivity.
Qed.

(* ---- reset ---- *)

Theorem reset_unselects_all : forall b,
  eb_events (ebuf_reset b) = map (fun r => set_state r Unselected) (eb_events b)
  /\ Forall (fun r => r_state r = Unselected) (eb_events (ebuf_reset b))
  /\ map r_id (eb_events (ebuf_reset b)) = map r_id (eb_events b)
  /\ eb_total (ebuf_reset b) = eb_total b /\ eb_overflown (ebuf_reset b) = eb_overflown b.
Proof.
  intros b. cbn [ebuf_reset eb_events eb_total eb_overflown]. repeat split.
  - apply Forall_forall. intros r Hr. apply in_map_iff in Hr. destruct Hr as (x & <- & _). reflexivity.
  - rewrite map_map. reflexivity.
Qed.

(* ---- write ---- *)

Definition ew_ok (w : ewriter) : Prop :=
  match ew_state w with EwProgress _ _ _ => ew_out w <> [] | _ => True end.

Lemma ehdrs_objs_cons h out : ehdrs_objs (h :: out) = ehdrs_objs out ++ rev (eh_objs h).
Proof. unfold ehdrs_objs. cbn [rev]. rewrite map_app, concat_app. cbn [map concat]. rewrite app_nil_r. reflexivity. Qed.

Lemma ehdrs_objs_push out o : out <> [] -> ehdrs_objs (push_obj out o) = ehdrs_objs out ++ [o].
Proof.
  destruct out as [|h tl]; [contradiction|]. intros _. cbn [push_obj].
  rewrite !ehdrs_objs_cons. cbn [eh_objs rev]. rewrite app_assoc. reflexivity.
Qed.

Lemma ew_start_objs w r w' : ew_start w r = Some w' ->
  ehdrs_objs (ew_out w') = ehdrs_objs (ew_out w) ++ [(r, 0)] /\ ew_ok w'.
Proof.
  unfold ew_start. destruct (_ <=? ew_rem w); [|discriminate].
  destruct (evar_gv (rec_wvar r) (r_meas r)) as [g var]. intros H. injection H as <-.
  cbn [ew_out]. rewrite ehdrs_objs_cons. split; [reflexivity|]. unfold ew_ok. cbn. discriminate.
Qed.

Lemma ew_try_objs w r w' : ew_ok w -> ew_try w r = Some w' ->
  (exists d, ehdrs_objs (ew_out w') = ehdrs_objs (ew_out w) ++ [(r, d)]) /\ ew_ok w'.
Proof.
  intros Hok. unfold ew_try. unfold ew_ok in Hok.
  destruct (ew_state w) as [|count cto key|]; [| |discriminate].
  - intros H. destruct (ew_start_objs _ _ _ H) as [H1 H2]. split; [exists 0; exact H1|exact H2].
  - destruct (negb (hdr_key_eqb key (rec_key r))).
    { intros H. destruct (ew_start_objs _ _ _ H) as [H1 H2]. split; [exists 0; exact H1|exact H2]. }
    destruct (count =? 65535).
    { intros H. destruct (ew_start_objs _ _ _ H) as [H1 H2]. split; [exists 0; exact H1|exact H2]. }
    destruct (if evar_uses_cto (rec_wvar r) then cto_offset cto r else Some 0) as [d|].
    + destruct (_ <=? ew_rem w); [|discriminate]. intros H. injection H as <-. cbn [ew_out].
      split; [exists d; apply ehdrs_objs_push; exact Hok|]. unfold ew_ok. cbn [ew_state ew_out].
      destruct (ew_out w); [contradiction|discriminate].
    + intros H. destruct (ew_start_objs _ _ _ H) as [H1 H2]. split; [exists 0; exact H1|exact H2].
Qed.

Lemma ew_feed_objs l : forall w w', ew_ok w -> ew_feed w l = Some w' ->
  map fst (ehdrs_objs (ew_out w')) = map fst (ehdrs_objs (ew_out w)) ++ l /\ ew_ok w'.
Proof.
  induction l as [|r l IH]; intros w w' Hok H; cbn [ew_feed] in H.
  - injection H as <-. rewrite app_nil_r. split; [reflexivity|exact Hok].
  - destruct (ew_try w r) as [w1|] eqn:Et; [|discriminate].
    destruct (ew_try_objs _ _ _ Hok Et) as [[d Hd] Hok1].
    destruct (IH _ _ Hok1 H) as [H1 H2]. split; [|exact H2].
    rewrite H1, Hd, map_app. cbn [map fst]. rewrite <- app_assoc. reflexivity.
Qed.

(* write with a byte budget: the records written are a PREFIX, in insertion order, of the Selected
   records; exactly these become Written, nothing else changes; the prefix is the longest one that
   fits: either everything selected was written (complete), or the next selected record was refused
   by the writer in the state reached after the prefix. *)
Theorem write_oldest_first : forall b budget,
  let b' := fst (ebuf_write_hdrs b budget) in
  let r := snd (ebuf_write_hdrs b budget) in
  let sel := selected (eb_events b) in
  let k := N.to_nat (wr_count r) in
  (k <= length sel)%nat
  /\ eb_events b' = mark_written k (eb_events b)
  /\ map fst (ehdrs_objs (wr_hdrs r)) = firstn k sel
  /\ (exists w, ew_feed (ew_new budget) (firstn k sel) = Some w
                /\ wr_hdrs r = ew_out w /\ wr_rem r = ew_rem w
                /\ (wr_complete r = false -> exists x, nth_error sel k = Some x /\ ew_try w x = None))
  /\ (wr_complete r = true <-> k = length sel).
Proof.
  intros b budget. unfold ebuf_write_hdrs.
  destruct (write_loop (eb_events b) (ew_new budget) (eb_written b)) as [[[[evs w] cnt] n] c] eqn:El.
  cbn [fst snd eb_events wr_count wr_hdrs wr_complete wr_rem].
  destruct (write_loop_spec _ _ _ _ _ _ _ _ El) as (H1 & H2 & H3 & H4 & H5).
  assert (Hok : ew_ok (ew_new budget)) by exact I.
  destruct (ew_feed_objs _ _ _ Hok H3) as [H6 _]. cbn in H6.
  repeat split; try assumption.
  - exists w. repeat split; assumption.
  - intros Hk. destruct c; [reflexivity|]. destruct (H5 eq_refl) as (x & Hx & _).
    rewrite Hk in Hx. pose proof (proj2 (nth_error_None (selected (eb_events b)) (length (selected (eb_events b)))) (le_n _)) as Hn.
    rewrite Hn in Hx. discriminate.
Qed.

(* exact time of CTO objects *)

Lemma evar_eqb_eq a b : evar_eqb a b = true -> a = b.
Proof. destruct a, b; vm_compute; intro H; try reflexivity; discriminate H. Qed.

Definition obj_time_ok (h : ehdr) (o : erec * N) : Prop :=
  if evar_uses_cto (rec_wvar (fst o)) then
    exists sync t0, eh_cto h = Some (sync, t0)
                    /\ time_or_default (m_time (r_meas (fst o))) = (sync, t0 + snd o) /\ snd o <= 65535
  else snd o = 0.

Definition hdrs_time_ok (out : list ehdr) : Prop := Forall (fun h => Forall (obj_time_ok h) (eh_objs h)) out.

Definition ew_time_ok (w : ewriter) : Prop :=
  hdrs_time_ok (ew_out w)
  /\ match ew_state w with
     | EwProgress _ cto key =>
       exists h tl, ew_out w = h :: tl /\ (evar_uses_cto (snd (fst key)) = true -> eh_cto h = Some cto)
     | _ => True
     end.

Lemma ew_start_time w r w' : hdrs_time_ok (ew_out w) -> ew_start w r = Some w' -> ew_time_ok w'.
Proof.
  intros Hout. unfold ew_start. destruct (_ <=? ew_rem w); [|discriminate].
  destruct (evar_gv (rec_wvar r) (r_meas r)) as [g var]. intros H. injection H as <-.
  split; cbn [ew_out ew_state].
  - constructor; [|exact Hout]. cbn [eh_objs]. constructor; [|constructor].
    unfold obj_time_ok. cbn [fst snd eh_cto]. destruct (evar_uses_cto (rec_wvar r)); [|reflexivity].
    destruct (time_or_default (m_time (r_meas r))) as [sync t0] eqn:Et.
    exists sync, t0. repeat split; [f_equal; lia|lia].
  - eexists _, _. split; [reflexivity|]. unfold rec_key. cbn [fst snd eh_cto]. intros ->. reflexivity.
Qed.

Lemma cto_offset_some cto r d : cto_offset cto r = Some d ->
  time_or_default (m_time (r_meas r)) = (fst cto, snd cto + d) /\ d <= 65535.
Proof.
  unfold cto_offset. destruct (time_or_default (m_time (r_meas r))) as [s t]. cbn [fst snd].
  destruct (Bool.eqb s (fst cto)) eqn:Eb; cbn [negb]; [|discriminate].
  apply Bool.eqb_prop in Eb. subst s.
  destruct (t <? snd cto) eqn:El; [discriminate|]. apply N.ltb_ge in El.
  destruct (65535 <? t - snd cto) eqn:Eh; [discriminate|]. apply N.ltb_ge in Eh.
  intros H. injection H as <-. split; [f_equal; lia|exact Eh].
Qed.

Lemma ew_try_time w r w' : ew_time_ok w -> ew_try w r = Some w' -> ew_time_ok w'.
Proof.
  intros [Hout Hst]. unfold ew_try.
  destruct (ew_state w) as [|count cto key|]; [apply ew_start_time; exact Hout| |discriminate].
  destruct (hdr_key_eqb key (rec_key r)) eqn:Ek; cbn [negb]; [|apply ew_start_time; exact Hout].
  destruct (count =? 65535); [apply ew_start_time; exact Hout|].
  destruct Hst as (h & tl & Hw & Hcto).
  destruct (evar_uses_cto (rec_wvar r)) eqn:Eu.
  - destruct (cto_offset cto r) as [d|] eqn:Eo; [|apply ew_start_time; exact Hout].
    destruct (_ <=? ew_rem w); [|discriminate]. intros H. injection H as <-.
    assert (Hkey : snd (fst key) = rec_wvar r).
    { destruct key as [[t1 v1] n1]. unfold rec_key, hdr_key_eqb in Ek. cbn [fst snd].
      apply andb_prop in Ek. destruct Ek as [Ek _]. apply andb_prop in Ek. destruct Ek as [_ Ek].
      apply evar_eqb_eq; exact Ek. }
    rewrite Hkey in Hcto. specialize (Hcto Eu).
    destruct (cto_offset_some _ _ _ Eo) as [Ht Hd].
    split; cbn [ew_out ew_state]; rewrite Hw; cbn [push_obj].
    + unfold hdrs_time_ok in *. rewrite Hw in Hout. inversion Hout as [|? ? Hh Htl]; subst.
      constructor; [|exact Htl]. cbn [eh_objs]. constructor; [|exact Hh].
      unfold obj_time_ok. cbn [fst snd eh_cto]. rewrite Eu. destruct cto as [sync t0].
      exists sync, t0. repeat split; assumption.
    + eexists _, _. split; [reflexivity|]. cbn [eh_cto]. intros _. exact Hcto.
  - destruct (_ <=? ew_rem w); [|discriminate]. intros H. injection H as <-.
    assert (Hkey : snd (fst key) = rec_wvar r).
    { destruct key as [[t1 v1] n1]. unfold rec_key, hdr_key_eqb in Ek. cbn [fst snd].
      apply andb_prop in Ek. destruct Ek as [Ek _]. apply andb_prop in Ek. destruct Ek as [_ Ek].
      apply evar_eqb_eq; exact Ek. }
    split; cbn [ew_out ew_state]; rewrite Hw; cbn [push_obj].
    + unfold hdrs_time_ok in *. rewrite Hw in Hout. inversion Hout as [|? ? Hh Htl]; subst.
      constructor; [|exact Htl]. cbn [eh_objs]. constructor; [|exact Hh].
      unfold obj_time_ok. cbn [fst snd]. rewrite Eu. reflexivity.
    + eexists _, _. split; [reflexivity|]. cbn [eh_cto]. rewrite Hkey, Eu. discriminate.
Qed.

Lemma ew_feed_time l : forall w w', ew_time_ok w -> ew_feed w l = Some w' -> ew_time_ok w'.
Proof.
  induction l as [|r l IH]; intros w w' Hok H; cbn [ew_feed] in H; [injection H as <-; exact Hok|].
  destruct (ew_try w r) as [w1|] eqn:Et; [|discriminate].
  eapply IH; [eapply ew_try_time; eassumption|exact H].
Qed.

(* every object carries the record's own time: objects of the CTO variations (g2v3, g4v3) sit under
   a g51 header with the record's synchronisation state and  record time = CTO + 16-bit offset;
   all other objects have offset 0 (their time, if the variation has one, is the record's, see
   DbTypes.event_obj). With write_oldest_first: index, value, flags and time of every object are
   those of the record. *)
Theorem write_exact_time : forall b budget,
  Forall (fun h => Forall (obj_time_ok h) (eh_objs h)) (wr_hdrs (snd (ebuf_write_hdrs b budget))).
Proof.
  intros b budget. destruct (write_oldest_first b budget) as (_ & _ & _ & (w & Hf & -> & _) & _).
  assert (H0 : ew_time_ok (ew_new budget)) by (split; [constructor|exact I]).
  exact (proj1 (ew_feed_time _ _ _ H0 Hf)).
Qed.

(* ---- overflow flag ---- *)

Definition at_capacity (cfg : ebcfg) (l : list erec) (t : ptype) : bool :=
  negb (cfg_max cfg t =? 0) && (cfg_max cfg t <=? countN (in_type t) l).

(* the flag is raised by a discard (insert_overflow_discards_oldest_same_type), untouched by select,
   write and reset, and lowered by clear_written exactly when no type is at capacity afterwards *)
Theorem overflow_flag_history : forall cfg ops,
  let b := ebuf_run cfg ops in
  (forall c1 c2 c3 lim, eb_overflown (fst (ebuf_select_by_class b c1 c2 c3 lim)) = eb_overflown b)
  /\ (forall t v lim, eb_overflown (fst (ebuf_select_by_type b t v lim)) = eb_overflown b)
  /\ (forall budget, eb_overflown (fst (ebuf_write_hdrs b budget)) = eb_overflown b)
  /\ eb_overflown (ebuf_reset b) = eb_overflown b
  /\ eb_overflown (fst (ebuf_clear_written b))
     = eb_overflown b && existsb (at_capacity cfg (eb_events (fst (ebuf_clear_written b)))) all_ptypes.
Proof.
  intros cfg ops b. repeat split.
  - intros. unfold ebuf_select_by_class. destruct (select_loop _ _ _); reflexivity.
  - intros. unfold ebuf_select_by_type. destruct (select_loop _ _ _); reflexivity.
  - intros. unfold ebuf_write_hdrs. destruct (write_loop _ _ _) as [[[[? ?] ?] ?] ?]; reflexivity.
  - pose proof (clear_preserves b (reachable_inv cfg ops)) as Hinv.
    assert (Hcfg : eb_cfg b = cfg) by (unfold b, ebuf_run; rewrite cfg_run_from; reflexivity).
    pose proof (inv_total_type _ Hinv) as Ht. revert Ht. unfold ebuf_clear_written.
    destruct (clear_loop (eb_events b) (eb_total b)) as [[evs total] ids]. cbn [fst eb_events eb_total eb_overflown].
    intros Ht. rewrite Hcfg.
    assert (Hany : any_full cfg total = existsb (at_capacity cfg evs) all_ptypes).
    { unfold any_full. induction all_ptypes as [|t ts IHt]; cbn [existsb]; [reflexivity|]. rewrite IHt. f_equal.
      unfold type_full, at_capacity. rewrite Ht. destruct (cfg_max cfg t =? 0); reflexivity. }
    rewrite Hany. destruct (existsb (at_capacity cfg evs) all_ptypes), (eb_overflown b); reflexivity.
Qed.

(* ---- select ---- *)

Definition eligible (sel : erec -> option erec) (r : erec) : bool :=
  match (if estate_eqb (r_state r) Unselected then sel r else None) with Some _ => true | None => false end.

(* the first n eligible records (Unselected and accepted by the selector) become Selected *)
Fixpoint select_mark (sel : erec -> option erec) (n : nat) (l : list erec) : list erec :=
  match l with
  | [] => []
  | r :: tl =>
    match n with
    | O => l
    | S k =>
      match (if estate_eqb (r_state r) Unselected then sel r else None) with
      | Some r' => set_state r' Selected :: select_mark sel k tl
      | None => r :: select_mark sel n tl
      end
    end
  end.

Lemma select_mark_0 sel l : select_mark sel 0 l = l.
Proof. destruct l; reflexivity. Qed.

(* select by class / type with a count limit: the records selected are the FIRST min(limit, #eligible)
   eligible ones in insertion order; nothing else changes *)
Theorem select_takes_oldest_up_to_limit : forall sel l lim,
  let l' := fst (select_loop sel lim l) in
  let n := snd (select_loop sel lim l) in
  (forall m, lim = Some m -> n <= m)
  /\ n <= countN (eligible sel) l
  /\ (n < countN (eligible sel) l -> lim = Some n)
  /\ l' = select_mark sel (N.to_nat n) l.
Proof.
  intros sel l. induction l as [|r l IH]; intro lim; cbn [select_loop fst snd countN select_mark].
  - repeat split; intros; try reflexivity; lia.
  - destruct (limit_take lim) eqn:Elt.
    + destruct (if estate_eqb (r_state r) Unselected then sel r else None) as [r'|] eqn:Es.
      * assert (Hel : eligible sel r = true) by (unfold eligible; rewrite Es; reflexivity). rewrite Hel.
        specialize (IH (limit_pred lim)). destruct (select_loop sel (limit_pred lim) l) as [tl' n'].
        cbn [fst snd] in *. destruct IH as (H1 & H2 & H3 & H4).
        replace (N.to_nat (n' + 1)) with (S (N.to_nat n')) by lia.
        repeat split.
        -- intros m ->. destruct m as [|p]; [discriminate Elt|]. specialize (H1 (N.pred (N.pos p)) eq_refl). lia.
        -- lia.
        -- intros Hlt. assert (Hlt' : n' < countN (eligible sel) l) by lia. specialize (H3 Hlt').
           destruct lim as [m|]; [|discriminate H3]. cbn [limit_pred] in H3. injection H3 as H3.
           destruct m as [|p]; [discriminate Elt|]. f_equal. lia.
        -- rewrite H4. reflexivity.
      * assert (Hel : eligible sel r = false) by (unfold eligible; rewrite Es; reflexivity). rewrite Hel.
        specialize (IH lim). destruct (select_loop sel lim l) as [tl' n']. cbn [fst snd] in *.
        destruct IH as (H1 & H2 & H3 & H4). repeat split; [exact H1|lia|intro; apply H3; lia|].
        rewrite H4. destruct (N.to_nat n') eqn:En; [rewrite select_mark_0; reflexivity|reflexivity].
    + cbn [fst snd]. destruct lim as [[|p]|]; try discriminate Elt.
      split; [intros m Hm; injection Hm as <-; lia|]. split; [lia|]. split; [intros _; reflexivity|reflexivity].
Qed.
