(* Outstation/FullProofs.v — theorems about the composed outstation model Outstation/Full.v.

   (i)   the digest: `frag_digest` is total (a Gallina function) and its result has one of three shapes
         determined by the first two octets; fewer than two octets give DInsuf.
   (ii)  the replay: every iteration appends exactly one answer (the answer list only grows), a pass
         that reaches the end of an output saw no open question in it, and a step whose log does not
         contain FReplayError IS a run of the session model on the answers the replay computed, with no
         OMissingAnswer in it.
   (iii) composition for C13: the answer the replay gives to a DbEvinfo call is
         (db_unwritten_classes, db_is_overflown) of the database state reached by replaying the calls
         before it, and the response the session then transmits (write_solicited / write_unsolicited,
         through response_iin) carries exactly these bits. *)
From Dnp3V Require Import Base.Bytes App.Grammar.
From Dnp3V Require Import Outstation.DbTypes Outstation.EventBuffer Outstation.StaticDb Outstation.Database.
From Dnp3V Require Import Outstation.Session Outstation.Full.
Import ListNotations.
Open Scope N_scope.

(* ================================================================================================ *)
(* (i) the digest                                                                                    *)

Theorem frag_digest_short bytes : (length bytes < 2)%nat -> frag_digest bytes = DInsuf.
Proof.
  destruct bytes as [|a [|b r]]; cbn [length]; intros H; try lia; reflexivity.
Qed.

(* what a digest says about the fragment it was made from *)
Definition digest_shape (bytes : list N) (d : digest) : Prop :=
  match d with
  | DInsuf => True
  | DUnknown seq code =>
      nth_error bytes 1 = Some code /\ afunction_known code = false /\
      exists c, nth_error bytes 0 = Some c /\ seq = ac_seq (actl_of c)
  | DOk ctl fn rv obj =>
      nth_error bytes 0 = Some ctl /\ nth_error bytes 1 = Some fn /\ afunction_known fn = true /\
      match obj with
      | ObjOk hdrs rh => length hdrs = length rh
      | ObjErr v => v = 1 \/ v = 2 \/ v = 4
      end
  end.

Lemma iin2_of_obj_err_cases e : iin2_of_obj_err e = 1 \/ iin2_of_obj_err e = 2 \/ iin2_of_obj_err e = 4.
Proof. destruct e; cbn; auto. Qed.

Lemma digest_of_parsed_shape ctl pf :
  match digest_of_parsed ctl pf with
  | DOk c f _ obj => c = ctl /\ f = ah_function (pf_header pf) /\
                     match obj with
                     | ObjOk hdrs rh => length hdrs = length rh
                     | ObjErr v => v = 1 \/ v = 2 \/ v = 4
                     end
  | _ => False
  end.
Proof.
  unfold digest_of_parsed. destruct (headers_of pf) as [hs|e].
  - repeat split. rewrite !map_length. reflexivity.
  - repeat split. apply iin2_of_obj_err_cases.
Qed.

(* totality: frag_digest is defined on every byte string (it is a function), and its value is tied to
   the octets of the fragment as follows *)
Theorem frag_digest_total bytes : exists d, frag_digest bytes = d /\ digest_shape bytes d.
Proof.
  exists (frag_digest bytes). split; [reflexivity|].
  unfold frag_digest, parse_fragment, aparse_header.
  destruct bytes as [|c [|f r]]; try exact I.
  destruct (afunction_known f) eqn:Ek.
  - destruct (afunction_has_iin f) eqn:Ei.
    + destruct r as [|i1 [|i2 r']]; try exact I.
      match goal with |- digest_shape _ (digest_of_parsed ?c0 ?pf0) =>
        pose proof (digest_of_parsed_shape c0 pf0) as H; destruct (digest_of_parsed c0 pf0) as [| |c1 f1 rv obj] end;
        try contradiction.
      destruct H as (-> & -> & H). cbn. repeat split; auto.
    + match goal with |- digest_shape _ (digest_of_parsed ?c0 ?pf0) =>
        pose proof (digest_of_parsed_shape c0 pf0) as H; destruct (digest_of_parsed c0 pf0) as [| |c1 f1 rv obj] end;
        try contradiction.
      destruct H as (-> & -> & H). cbn. repeat split; auto.
  - cbn. repeat split; auto. exists c. split; reflexivity.
Qed.

(* ================================================================================================ *)
(* (ii) the replay loop                                                                              *)

(* a question the session puts to the database *)
Definition is_question (o : oobs) : bool :=
  match o with
  | ODb DbEvinfo | ODb DbWrite | ODb DbSelect | ODb DbDeferredSelect | ODb (DbWriteUnsol _ _ _) => true
  | _ => false
  end.

(* a pass that reaches the end saw neither an open question nor a missing answer *)
Lemma walk_done_clean F : forall rest d c n log d' c' log',
  walk F d c n log rest = WDone d' c' log' ->
  Forall (fun o => is_missing o = false /\ is_question o = false) rest.
Proof.
  induction rest as [|o tl IH]; intros d c n log d' c' log' H; [constructor|].
  cbn [walk] in H.
  destruct o as [dest bytes|call|cb|i| |t| |].
  - constructor; [split; reflexivity|]. eapply IH; exact H.
  - destruct call as [| |c1 c2 c3| | | |].
    + destruct tl as [|[] tl']; try discriminate H.
      destruct (select_headers d _) as [[d1 v] u]. discriminate H.
    + destruct tl as [|[] tl']; try discriminate H.
      destruct (write_answer F d) as [d1 a]. discriminate H.
    + destruct (unsol_answer F d c1 c2 c3) as [d1 [cnt body]]. destruct (cnt =? 0); discriminate H.
    + destruct (db_clear_written d) as [d1 [ids cnt]].
      constructor; [split; reflexivity|]. eapply IH; exact H.
    + constructor; [split; reflexivity|]. eapply IH; exact H.
    + destruct tl as [|[] tl']; discriminate H.
    + destruct tl as [|[] tl']; try discriminate H.
      destruct (select_deferred d _) as [[d1 v] u]. discriminate H.
  - constructor; [split; reflexivity|]. eapply IH; exact H.
  - destruct i; (constructor; [split; reflexivity|]; eapply IH; exact H).
  - constructor; [split; reflexivity|]. eapply IH; exact H.
  - constructor; [split; reflexivity|]. eapply IH; exact H.
  - discriminate H.
  - constructor; [split; reflexivity|]. eapply IH; exact H.
Qed.

(* one iteration = one more answer; the list of answers only grows *)
Lemma replay_extends fuel F run : forall r r',
  replay fuel F run r = RDone r' \/ replay fuel F run r = RFail r' ->
  exists l, rs_answers r' = rs_answers r ++ l.
Proof.
  induction fuel as [|f IH]; intros r r' H.
  - cbn [replay] in H. destruct H as [H|H]; [discriminate|]. inversion H; subst. exists []. rewrite app_nil_r. reflexivity.
  - cbn [replay] in H.
    destruct (walk F (rs_db r) (rs_ctx r) (rs_settled r) (rs_log r)
                   (skipn (rs_settled r) (snd (run (rs_answers r ++ [sentinel]))))) as [d c log|d c log a k|log].
    + destruct H as [H|H]; [|discriminate]. inversion H; subst. exists []. cbn. rewrite app_nil_r. reflexivity.
    + apply IH in H. destruct H as [l Hl]. cbn [rs_answers] in Hl. exists (a :: l).
      rewrite Hl, <- app_assoc. reflexivity.
    + destruct H as [H|H]; [discriminate|]. inversion H; subst. exists []. cbn. rewrite app_nil_r. reflexivity.
Qed.

(* the unfolding of one iteration, for the record: when the pass finds a question, the next iteration
   starts from the answers extended by exactly that one answer *)
Lemma replay_step f F run r d c log a k :
  walk F (rs_db r) (rs_ctx r) (rs_settled r) (rs_log r) (skipn (rs_settled r) (snd (run (rs_answers r ++ [sentinel]))))
  = WAsk d c log a k ->
  replay (S f) F run r
  = replay f F run {| rs_answers := rs_answers r ++ [a]; rs_db := d; rs_ctx := c; rs_settled := k; rs_log := log |}.
Proof. intros H. cbn [replay]. rewrite H. reflexivity. Qed.

(* when the replay converges, the last pass went to the end of the output of the run on
   (answers ++ [sentinel]) without meeting a question *)
Lemma replay_done_clean fuel F run : forall r r',
  replay fuel F run r = RDone r' ->
  exists settled,
    Forall (fun o => is_missing o = false /\ is_question o = false)
           (skipn settled (snd (run (rs_answers r' ++ [sentinel])))) /\
    rs_settled r' = length (snd (run (rs_answers r' ++ [sentinel]))).
Proof.
  induction fuel as [|f IH]; intros r r' H; [discriminate H|].
  cbn [replay] in H.
  destruct (walk F (rs_db r) (rs_ctx r) (rs_settled r) (rs_log r)
                 (skipn (rs_settled r) (snd (run (rs_answers r ++ [sentinel]))))) as [d c log|d c log a k|log] eqn:W.
  - inversion H; subst. cbn [rs_answers rs_settled]. exists (rs_settled r). split; [|reflexivity].
    eapply walk_done_clean; exact W.
  - eapply IH; exact H.
  - discriminate H.
Qed.

Lemma in_rev_cons_r (x : fobs) l : In x (rev (x :: l)).
Proof. apply in_rev. rewrite rev_involutive. left. reflexivity. Qed.

(* a step of the composed model whose log does not contain FReplayError IS a run of the session model
   on the computed answers, and that run asks nothing that was left without an answer *)
Theorem replay_event_complete F d c run s1 d1 ans out log :
  replay_event F d c run = (s1, d1, ans, out, log) ->
  ~ In FReplayError log ->
  run ans = (s1, out) /\ Forall (fun o => o <> OMissingAnswer) out.
Proof.
  unfold replay_event. intros H Hno.
  destruct (replay replay_fuel F run _) as [r|r] eqn:R.
  - destruct (run (rs_answers r)) as [s1' out'] eqn:Erun.
    inversion H; subst; clear H.
    destruct (forallb (fun o => negb (is_missing o)) out && (length out =? rs_settled r)%nat) eqn:Ok.
    + split; [exact Erun|].
      apply andb_prop in Ok. destruct Ok as [Ok _].
      rewrite forallb_forall in Ok. apply Forall_forall. intros o Ho Heq. subst o.
      specialize (Ok _ Ho). discriminate Ok.
    + exfalso. apply Hno. apply in_rev_cons_r.
  - destruct (run (rs_answers r)) as [s1' out'] eqn:Erun.
    inversion H; subst; clear H. exfalso. apply Hno. apply in_rev_cons_r.
Qed.

(* the same at the level of one script operation *)
Theorem fevent_complete F st d ev st1 log :
  fevent F st d ev = (st1, log) -> ~ In FReplayError log ->
  exists ans out, ostep (f_o F) (fs_s st) ev ans = (fs_s st1, out) /\ Forall (fun o => o <> OMissingAnswer) out.
Proof.
  unfold fevent. intros H Hno.
  destruct (replay_event F d (ctx_of (f_o F) (fs_s st) ev) (fun a => ostep (f_o F) (fs_s st) ev a))
    as [[[[s1 d1] ans] out] log'] eqn:E.
  inversion H; subst; clear H.
  apply replay_event_complete in E; [|exact Hno]. destruct E as [E1 E2].
  exists ans, out. split; [exact E1|exact E2].
Qed.

(* ================================================================================================ *)
(* (iii) composition for C13                                                                         *)

(* the replay's answer to a DbEvinfo call is computed from the database state reached by replaying
   every call that precedes it in the output *)
Lemma walk_evinfo F : forall rest d c n log d' c' log' c1 c2 c3 v k,
  walk F d c n log rest = WAsk d' c' log' (AEvinfo c1 c2 c3 v) k ->
  exists pre post cpre logpre,
    rest = pre ++ ODb DbEvinfo :: OMissingAnswer :: post /\
    walk F d c n log pre = WDone d' cpre logpre /\
    (c1, c2, c3) = db_unwritten_classes d' /\ v = db_is_overflown d' /\
    k = S (n + length pre) /\ log' = FAns (AEvinfo c1 c2 c3 v) :: FObs (ODb DbEvinfo) :: logpre.
Proof.
  induction rest as [|o tl IH]; intros d c n log d' c' log' c1 c2 c3 v k H; [discriminate H|].
  cbn [walk] in H.
  assert (Hstep : forall d0 c0 log0,
             walk F d0 c0 (S n) log0 tl = WAsk d' c' log' (AEvinfo c1 c2 c3 v) k ->
             (forall pre, walk F d c n log (o :: pre) = walk F d0 c0 (S n) log0 pre) ->
             exists pre post cpre logpre,
               o :: tl = pre ++ ODb DbEvinfo :: OMissingAnswer :: post /\
               walk F d c n log pre = WDone d' cpre logpre /\
               (c1, c2, c3) = db_unwritten_classes d' /\ v = db_is_overflown d' /\
               k = S (n + length pre) /\ log' = FAns (AEvinfo c1 c2 c3 v) :: FObs (ODb DbEvinfo) :: logpre).
  { intros d0 c0 log0 Hw Heq. apply IH in Hw.
    destruct Hw as (pre & post & cpre & logpre & E1 & E2 & E3 & E4 & E5 & E6).
    exists (o :: pre), post, cpre, logpre. repeat split; auto.
    - rewrite E1. reflexivity.
    - rewrite Heq. exact E2.
    - rewrite E5. cbn [length]. lia. }
  destruct o as [dest bytes|call|cb|i| |t| |].
  - eapply Hstep; [exact H|]. intros pre. reflexivity.
  - destruct call as [| |b1 b2 b3| | | |].
    + destruct tl as [|[] tl']; try discriminate H.
      destruct (select_headers d _) as [[d1 v1] u]. discriminate H.
    + destruct tl as [|[] tl']; try discriminate H.
      unfold write_answer in H.
      destruct (db_write_response d _) as [d1 [[bytes he] cpl]]. discriminate H.
    + destruct (unsol_answer F d b1 b2 b3) as [d1 [cnt body]]. destruct (cnt =? 0); discriminate H.
    + destruct (db_clear_written d) as [d1 [ids cnt]] eqn:Ec.
      eapply Hstep; [exact H|]. intros pre. cbn [walk]. rewrite Ec. reflexivity.
    + eapply Hstep; [exact H|]. intros pre. reflexivity.
    + destruct tl as [|[] tl']; try discriminate H.
      unfold evinfo_answer_of in H.
      destruct (db_unwritten_classes d) as [[u1 u2] u3] eqn:Eu.
      inversion H; subst; clear H.
      exists [], tl', c', log. repeat split; auto.
    + destruct tl as [|[] tl']; try discriminate H.
      destruct (select_deferred d _) as [[d1 v1] u]. discriminate H.
  - eapply Hstep; [exact H|]. intros pre. reflexivity.
  - destruct i; (eapply Hstep; [exact H|]; intros pre; reflexivity).
  - eapply Hstep; [exact H|]. intros pre. reflexivity.
  - eapply Hstep; [exact H|]. intros pre. reflexivity.
  - discriminate H.
  - eapply Hstep; [exact H|]. intros pre. reflexivity.
Qed.

Lemma iin1_class_bits (r c1 c2 c3 bc a0 a1 a2 : bool) :
  let x := b2n r 128 + b2n c1 2 + b2n c2 4 + b2n c3 8 + b2n bc 1 + b2n a0 16 + b2n a1 32 + b2n a2 64 in
  N.testbit x 1 = c1 /\ N.testbit x 2 = c2 /\ N.testbit x 3 = c3.
Proof. destruct r, c1, c2, c3, bc, a0, a1, a2; repeat split; reflexivity. Qed.

Lemma iin2_overflow_bit (v a3 : bool) : N.testbit (b2n v 8 + b2n a3 32) 3 = v.
Proof. destruct v, a3; reflexivity. Qed.

(* get_response_iin: with the answer (c1, c2, c3, ovf) at the head of the answers, the class bits of
   IIN1 and the overflow bit of IIN2 are exactly the answer *)
Lemma response_iin_bits s c1 c2 c3 v rest s' iin1 iin2 o :
  s_answers s = AEvinfo c1 c2 c3 v :: rest ->
  response_iin s = (s', (iin1, iin2), o) ->
  o = [ODb DbEvinfo] /\ s_answers s' = rest /\
  N.testbit iin1 1 = c1 /\ N.testbit iin1 2 = c2 /\ N.testbit iin1 3 = c3 /\ N.testbit iin2 3 = v.
Proof.
  unfold response_iin, ask_evinfo. intros Ha. rewrite Ha.
  cbn [s_last_bcast upd_answers s_app_iin s_restart_iin].
  set (a := s_app_iin s).
  intros H.
  assert (Hs : s_answers s' = rest).
  { destruct (s_last_bcast s) as [[]|]; inversion H; subst; reflexivity. }
  assert (Ho : o = [ODb DbEvinfo]).
  { destruct (s_last_bcast s) as [[]|]; inversion H; subst; reflexivity. }
  assert (Hi : iin1 = b2n (s_restart_iin s) 128 + b2n c1 2 + b2n c2 4 + b2n c3 8
                      + b2n (match s_last_bcast s with Some _ => true | None => false end) 1
                      + b2n (N.testbit a 0) 16 + b2n (N.testbit a 1) 32 + b2n (N.testbit a 2) 64
               /\ iin2 = b2n v 8 + b2n (N.testbit a 3) 32).
  { destruct (s_last_bcast s) as [[]|]; inversion H; subst; split; reflexivity. }
  destruct Hi as [-> ->].
  destruct (iin1_class_bits (s_restart_iin s) c1 c2 c3
              (match s_last_bcast s with Some _ => true | None => false end)
              (N.testbit a 0) (N.testbit a 1) (N.testbit a 2)) as (B1 & B2 & B3).
  repeat split; auto. apply iin2_overflow_bit.
Qed.

Definition class_bits (bytes : list N) : bool * bool * bool :=
  (N.testbit (nth 2 bytes 0) 1, N.testbit (nth 2 bytes 0) 2, N.testbit (nth 2 bytes 0) 3).
Definition overflow_bit (bytes : list N) : bool := N.testbit (nth 3 bytes 0) 3.

(* a response as the handlers build it: no IIN1 bit, and of IIN2 at most NO_FUNC_CODE_SUPPORT,
   OBJECT_UNKNOWN, PARAMETER_ERROR (every constructor of Session.v: empty_solicited, control_response,
   unsol_header, the READ responses with the database's IIN2) *)
Definition handler_response (r : response) : Prop := r_iin1 r = 0 /\ N.testbit (r_iin2 r) 3 = false.

Lemma or_iin_bits r iin1 iin2 :
  handler_response r ->
  N.testbit (r_iin1 (or_iin r (iin1, iin2))) 1 = N.testbit iin1 1 /\
  N.testbit (r_iin1 (or_iin r (iin1, iin2))) 2 = N.testbit iin1 2 /\
  N.testbit (r_iin1 (or_iin r (iin1, iin2))) 3 = N.testbit iin1 3 /\
  N.testbit (r_iin2 (or_iin r (iin1, iin2))) 3 = N.testbit iin2 3.
Proof.
  intros [H1 H2]. unfold or_iin. cbn [r_iin1 r_iin2 fst snd]. rewrite H1.
  rewrite N.lor_0_l, N.lor_spec, H2. auto.
Qed.

(* write_solicited *)
Lemma write_solicited_bits s dest r c1 c2 c3 v rest s' r' o :
  s_answers s = AEvinfo c1 c2 c3 v :: rest -> handler_response r ->
  write_solicited s dest r = (s', r', o) ->
  exists bytes, o = [ODb DbEvinfo; OTx dest bytes] /\ class_bits bytes = (c1, c2, c3) /\ overflow_bit bytes = v.
Proof.
  intros Ha Hr. unfold write_solicited.
  destruct (response_iin s) as [[s1 [iin1 iin2]] o1] eqn:E.
  eapply response_iin_bits in E; [|exact Ha].
  destruct E as (-> & _ & B1 & B2 & B3 & B4).
  destruct (or_iin_bits r iin1 iin2 Hr) as (Q1 & Q2 & Q3 & Q4).
  intros H. inversion H; subst; clear H.
  eexists. split; [reflexivity|].
  unfold class_bits, overflow_bit, response_bytes. cbn [nth app].
  destruct (s_last_bcast s1) as [[]|]; cbn [with_ctl r_iin1 r_iin2];
    rewrite Q1, Q2, Q3, Q4; auto.
Qed.

(* write_unsolicited *)
Lemma write_unsolicited_bits cfg s r c1 c2 c3 v rest s' r' o :
  s_answers s = AEvinfo c1 c2 c3 v :: rest -> handler_response r ->
  write_unsolicited cfg s r = (s', r', o) ->
  exists bytes, o = [ODb DbEvinfo; OTx (o_master cfg) bytes] /\ class_bits bytes = (c1, c2, c3) /\ overflow_bit bytes = v.
Proof.
  intros Ha Hr. unfold write_unsolicited.
  destruct (response_iin s) as [[s1 [iin1 iin2]] o1] eqn:E.
  eapply response_iin_bits in E; [|exact Ha].
  destruct E as (-> & _ & B1 & B2 & B3 & B4).
  destruct (or_iin_bits r iin1 iin2 Hr) as (Q1 & Q2 & Q3 & Q4).
  intros H. inversion H; subst; clear H.
  eexists. split; [reflexivity|].
  unfold class_bits, overflow_bit, response_bytes. cbn [nth app].
  rewrite Q1, Q2, Q3, Q4. auto.
Qed.

(* THE COMPOSITION.  Let a pass of the replay stop at a DbEvinfo call and answer it (WAsk ... a ...).
   Then a = AEvinfo of the database state d' reached by replaying the calls before it (walk over the
   prefix ends in d'), and when the session, holding that answer next, transmits a response - solicited
   or unsolicited - the class bits and the overflow bit of the transmitted octets are
   db_unwritten_classes d' and db_is_overflown d'. *)
Theorem c13_composition F rest d c n log d' c' log' c1 c2 c3 v k :
  walk F d c n log rest = WAsk d' c' log' (AEvinfo c1 c2 c3 v) k ->
  (exists pre post cpre logpre,
      rest = pre ++ ODb DbEvinfo :: OMissingAnswer :: post /\ walk F d c n log pre = WDone d' cpre logpre) /\
  (forall s dest r more s' r' o,
      s_answers s = AEvinfo c1 c2 c3 v :: more -> handler_response r ->
      write_solicited s dest r = (s', r', o) ->
      exists bytes, o = [ODb DbEvinfo; OTx dest bytes] /\
                    class_bits bytes = db_unwritten_classes d' /\ overflow_bit bytes = db_is_overflown d') /\
  (forall cfg s r more s' r' o,
      s_answers s = AEvinfo c1 c2 c3 v :: more -> handler_response r ->
      write_unsolicited cfg s r = (s', r', o) ->
      exists bytes, o = [ODb DbEvinfo; OTx (o_master cfg) bytes] /\
                    class_bits bytes = db_unwritten_classes d' /\ overflow_bit bytes = db_is_overflown d').
Proof.
  intros H. apply walk_evinfo in H.
  destruct H as (pre & post & cpre & logpre & E1 & E2 & E3 & E4 & _ & _).
  split; [exists pre, post, cpre, logpre; auto|]. split.
  - intros s dest r more s' r' o Ha Hr Hw.
    destruct (write_solicited_bits _ _ _ _ _ _ _ _ _ _ _ Ha Hr Hw) as (bytes & Ho & Hc & Hv).
    exists bytes. rewrite <- E3, <- E4. auto.
  - intros cfg s r more s' r' o Ha Hr Hw.
    destruct (write_unsolicited_bits _ _ _ _ _ _ _ _ _ _ _ Ha Hr Hw) as (bytes & Ho & Hc & Hv).
    exists bytes. rewrite <- E3, <- E4. auto.
Qed.
