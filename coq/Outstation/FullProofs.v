(* Outstation/FullProofs.v — theorems about the composed outstation model Outstation/Full.v.

   (i)   the digest: `frag_digest` is total (a Gallina function) and its result has one of three shapes
         determined by the first two octets; fewer than two octets give DInsuf.
   (ii)  the replay: every iteration appends exactly one answer (the answer list only grows), a pass
         that reaches the end of an output saw no open question in it, and a step whose log does not
         contain FReplayError IS a run of the session model on the answers the replay computed, with no
         OMissingAnswer in it.
   (iii) composition for C13: the answer the replay gives to a DbEvinfo call is
         (db_unwritten_classes, db_is_overflown) of the database state reached by replaying the calls
         before it, and the response the session then transmits (write_solicited / write_unsolicited,
         through response_iin) carries exactly these bits - first locally (c13_composition), then for
         whole steps of the composed model (fevent_c13, fstep_c13, fstart_c13): EVERY response a step
         builds and transmits carries the class bits and the overflow bit of the database state at the
         moment of its DbEvinfo call.  The session half of that is Outstation/SessionEvinfo.v. *)
From Dnp3V Require Import Base.Bytes App.Grammar.
From Dnp3V Require Import Outstation.DbTypes Outstation.EventBuffer Outstation.StaticDb Outstation.Database.
From Dnp3V Require Import Outstation.Session Outstation.SessionEvinfo Outstation.Full.
Import ListNotations.
Open Scope N_scope.

(* ================================================================================================ *)
(* (i) the digest                                                                                    *)

Theorem frag_digest_short bytes : (length bytes < 2)%nat -> frag_digest bytes = DInsuf.
Proof.
  destruct bytes as [|a [|b r]]; cbn [length]; intros H; try lia; reflexivity.
Qed.

(* what a digest says about the fragment it was made from *)
Definition digest_shape (bytes : list N) (d : digest) : Prop :=
  match d with
  | DInsuf => True
  | DUnknown seq code =>
      nth_error bytes 1 = Some code /\ afunction_known code = false /\
      exists c, nth_error bytes 0 = Some c /\ seq = ac_seq (actl_of c)
  | DOk ctl fn rv obj =>
      nth_error bytes 0 = Some ctl /\ nth_error bytes 1 = Some fn /\ afunction_known fn = true /\
      match obj with
      | ObjOk hdrs rh => length hdrs = length rh
      | ObjErr v => v = 1 \/ v = 2 \/ v = 4
      end
  end.

Lemma iin2_of_obj_err_cases e : iin2_of_obj_err e = 1 \/ iin2_of_obj_err e = 2 \/ iin2_of_obj_err e = 4.
Proof. destruct e; cbn; auto. Qed.

Lemma digest_of_parsed_shape ctl pf :
  match digest_of_parsed ctl pf with
  | DOk c f _ obj => c = ctl /\ f = ah_function (pf_header pf) /\
                     match obj with
                     | ObjOk hdrs rh => length hdrs = length rh
                     | ObjErr v => v = 1 \/ v = 2 \/ v = 4
                     end
  | _ => False
  end.
Proof.
  unfold digest_of_parsed. destruct (headers_of pf) as [hs|e].
  - repeat split. rewrite !map_length. reflexivity.
  - repeat split. apply iin2_of_obj_err_cases.
Qed.

(* totality: frag_digest is defined on every byte string (it is a function), and its value is tied to
   the octets of the fragment as follows *)
Theorem frag_digest_total bytes : exists d, frag_digest bytes = d /\ digest_shape bytes d.
Proof.
  exists (frag_digest bytes). split; [reflexivity|].
  unfold frag_digest, parse_fragment, aparse_header.
  destruct bytes as [|c [|f r]]; try exact I.
  destruct (afunction_known f) eqn:Ek.
  - destruct (afunction_has_iin f) eqn:Ei.
    + destruct r as [|i1 [|i2 r']]; try exact I.
      match goal with |- digest_shape _ (digest_of_parsed ?c0 ?pf0) =>
        pose proof (digest_of_parsed_shape c0 pf0) as H; destruct (digest_of_parsed c0 pf0) as [| |c1 f1 rv obj] end;
        try contradiction.
      destruct H as (-> & -> & H). cbn. repeat split; auto.
    + match goal with |- digest_shape _ (digest_of_parsed ?c0 ?pf0) =>
        pose proof (digest_of_parsed_shape c0 pf0) as H; destruct (digest_of_parsed c0 pf0) as [| |c1 f1 rv obj] end;
        try contradiction.
      destruct H as (-> & -> & H). cbn. repeat split; auto.
  - cbn. repeat split; auto. exists c. split; reflexivity.
Qed.

(* ================================================================================================ *)
(* (ii) the replay loop                                                                              *)

(* a question the session puts to the database *)
Definition is_question (o : oobs) : bool :=
  match o with
  | ODb DbEvinfo | ODb DbWrite | ODb DbSelect | ODb DbDeferredSelect | ODb (DbWriteUnsol _ _ _) => true
  | _ => false
  end.

(* a pass that reaches the end saw neither an open question nor a missing answer *)
Lemma walk_done_clean F : forall rest d c n log d' c' log',
  walk F d c n log rest = WDone d' c' log' ->
  Forall (fun o => is_missing o = false /\ is_question o = false) rest.
Proof.
  induction rest as [|o tl IH]; intros d c n log d' c' log' H; [constructor|].
  cbn [walk] in H.
  destruct o as [dest bytes|call|cb|i| |t| |].
  - constructor; [split; reflexivity|]. eapply IH; exact H.
  - destruct call as [| |c1 c2 c3| | | |].
    + destruct tl as [|[] tl']; try discriminate H.
      destruct (select_headers d _) as [[d1 v] u]. discriminate H.
    + destruct tl as [|[] tl']; try discriminate H.
      destruct (write_answer F d) as [d1 a]. discriminate H.
    + destruct (unsol_answer F d c1 c2 c3) as [d1 [cnt body]]. destruct (cnt =? 0); discriminate H.
    + destruct (db_clear_written d) as [d1 [ids cnt]].
      constructor; [split; reflexivity|]. eapply IH; exact H.
    + constructor; [split; reflexivity|]. eapply IH; exact H.
    + destruct tl as [|[] tl']; discriminate H.
    + destruct tl as [|[] tl']; try discriminate H.
      destruct (select_deferred d _) as [[d1 v] u]. discriminate H.
  - constructor; [split; reflexivity|]. eapply IH; exact H.
  - destruct i; (constructor; [split; reflexivity|]; eapply IH; exact H).
  - constructor; [split; reflexivity|]. eapply IH; exact H.
  - constructor; [split; reflexivity|]. eapply IH; exact H.
  - discriminate H.
  - constructor; [split; reflexivity|]. eapply IH; exact H.
Qed.

(* one iteration = one more answer; the list of answers only grows *)
Lemma replay_extends fuel F run : forall r r',
  replay fuel F run r = RDone r' \/ replay fuel F run r = RFail r' ->
  exists l, rs_answers r' = rs_answers r ++ l.
Proof.
  induction fuel as [|f IH]; intros r r' H.
  - cbn [replay] in H. destruct H as [H|H]; [discriminate|]. inversion H; subst. exists []. rewrite app_nil_r. reflexivity.
  - cbn [replay] in H.
    destruct (walk F (rs_db r) (rs_ctx r) (rs_settled r) (rs_log r)
                   (skipn (rs_settled r) (snd (run (rs_answers r ++ [sentinel]))))) as [d c log|d c log a k|log].
    + destruct H as [H|H]; [|discriminate]. inversion H; subst. exists []. cbn. rewrite app_nil_r. reflexivity.
    + apply IH in H. destruct H as [l Hl]. cbn [rs_answers] in Hl. exists (a :: l).
      rewrite Hl, <- app_assoc. reflexivity.
    + destruct H as [H|H]; [discriminate|]. inversion H; subst. exists []. cbn. rewrite app_nil_r. reflexivity.
Qed.

(* the unfolding of one iteration, for the record: when the pass finds a question, the next iteration
   starts from the answers extended by exactly that one answer *)
Lemma replay_step f F run r d c log a k :
  walk F (rs_db r) (rs_ctx r) (rs_settled r) (rs_log r) (skipn (rs_settled r) (snd (run (rs_answers r ++ [sentinel]))))
  = WAsk d c log a k ->
  replay (S f) F run r
  = replay f F run {| rs_answers := rs_answers r ++ [a]; rs_db := d; rs_ctx := c; rs_settled := k; rs_log := log;
                      rs_snaps := if answer_is_evinfo a then rs_snaps r ++ [d] else rs_snaps r |}.
Proof. intros H. cbn [replay]. rewrite H. reflexivity. Qed.

(* when the replay converges, the last pass went to the end of the output of the run on
   (answers ++ [sentinel]) without meeting a question *)
Lemma replay_done_clean fuel F run : forall r r',
  replay fuel F run r = RDone r' ->
  exists settled,
    Forall (fun o => is_missing o = false /\ is_question o = false)
           (skipn settled (snd (run (rs_answers r' ++ [sentinel])))) /\
    rs_settled r' = length (snd (run (rs_answers r' ++ [sentinel]))).
Proof.
  induction fuel as [|f IH]; intros r r' H; [discriminate H|].
  cbn [replay] in H.
  destruct (walk F (rs_db r) (rs_ctx r) (rs_settled r) (rs_log r)
                 (skipn (rs_settled r) (snd (run (rs_answers r ++ [sentinel]))))) as [d c log|d c log a k|log] eqn:W.
  - inversion H; subst. cbn [rs_answers rs_settled]. exists (rs_settled r). split; [|reflexivity].
    eapply walk_done_clean; exact W.
  - eapply IH; exact H.
  - discriminate H.
Qed.

Lemma in_rev_cons_r (x : fobs) l : In x (rev (x :: l)).
Proof. apply in_rev. rewrite rev_involutive. left. reflexivity. Qed.

(* a step of the composed model whose log does not contain FReplayError IS a run of the session model
   on the computed answers, and that run asks nothing that was left without an answer *)
Theorem replay_event_complete F d c run :
  let ro := replay_event F d c run in
  ~ In FReplayError (ro_log ro) ->
  run (ro_answers ro) = (ro_s ro, ro_out ro) /\ Forall (fun o => o <> OMissingAnswer) (ro_out ro).
Proof.
  unfold replay_event. cbv zeta.
  destruct (replay replay_fuel F run _) as [r|r] eqn:R.
  - destruct (run (rs_answers r)) as [s1 out] eqn:Erun. cbn [ro_log ro_answers ro_s ro_out].
    destruct (forallb (fun o => negb (is_missing o)) out && (length out =? rs_settled r)%nat) eqn:Ok.
    + intros _. split; [exact Erun|].
      apply andb_prop in Ok. destruct Ok as [Ok _].
      rewrite forallb_forall in Ok. apply Forall_forall. intros o Ho Heq. subst o.
      specialize (Ok _ Ho). discriminate Ok.
    + intros Hno. exfalso. apply Hno. apply in_rev_cons_r.
  - destruct (run (rs_answers r)) as [s1 out] eqn:Erun. cbn [ro_log].
    intros Hno. exfalso. apply Hno. apply in_rev_cons_r.
Qed.

(* the same at the level of one session event of the script *)
Theorem fevent_complete F st d ev :
  let ro := fevent_out F st d ev in
  ~ In FReplayError (ro_log ro) ->
  ostep (f_o F) (fs_s st) ev (ro_answers ro) = (ro_s ro, ro_out ro) /\
  Forall (fun o => o <> OMissingAnswer) (ro_out ro).
Proof. unfold fevent_out. apply replay_event_complete. Qed.

(* ================================================================================================ *)
(* (iii) composition for C13                                                                         *)

(* the replay's answer to a DbEvinfo call is computed from the database state reached by replaying
   every call that precedes it in the output *)
Lemma walk_evinfo F : forall rest d c n log d' c' log' c1 c2 c3 v k,
  walk F d c n log rest = WAsk d' c' log' (AEvinfo c1 c2 c3 v) k ->
  exists pre post cpre logpre,
    rest = pre ++ ODb DbEvinfo :: OMissingAnswer :: post /\
    walk F d c n log pre = WDone d' cpre logpre /\
    (c1, c2, c3) = db_unwritten_classes d' /\ v = db_is_overflown d' /\
    k = S (n + length pre) /\ log' = FAns (AEvinfo c1 c2 c3 v) :: FObs (ODb DbEvinfo) :: logpre.
Proof.
  induction rest as [|o tl IH]; intros d c n log d' c' log' c1 c2 c3 v k H; [discriminate H|].
  cbn [walk] in H.
  assert (Hstep : forall d0 c0 log0,
             walk F d0 c0 (S n) log0 tl = WAsk d' c' log' (AEvinfo c1 c2 c3 v) k ->
             (forall pre, walk F d c n log (o :: pre) = walk F d0 c0 (S n) log0 pre) ->
             exists pre post cpre logpre,
               o :: tl = pre ++ ODb DbEvinfo :: OMissingAnswer :: post /\
               walk F d c n log pre = WDone d' cpre logpre /\
               (c1, c2, c3) = db_unwritten_classes d' /\ v = db_is_overflown d' /\
               k = S (n + length pre) /\ log' = FAns (AEvinfo c1 c2 c3 v) :: FObs (ODb DbEvinfo) :: logpre).
  { intros d0 c0 log0 Hw Heq. apply IH in Hw.
    destruct Hw as (pre & post & cpre & logpre & E1 & E2 & E3 & E4 & E5 & E6).
    exists (o :: pre), post, cpre, logpre. repeat split; auto.
    - rewrite E1. reflexivity.
    - rewrite Heq. exact E2.
    - rewrite E5. cbn [length]. lia. }
  destruct o as [dest bytes|call|cb|i| |t| |].
  - eapply Hstep; [exact H|]. intros pre. reflexivity.
  - destruct call as [| |b1 b2 b3| | | |].
    + destruct tl as [|[] tl']; try discriminate H.
      destruct (select_headers d _) as [[d1 v1] u]. discriminate H.
    + destruct tl as [|[] tl']; try discriminate H.
      unfold write_answer in H.
      destruct (db_write_response d _) as [d1 [[bytes he] cpl]]. discriminate H.
    + destruct (unsol_answer F d b1 b2 b3) as [d1 [cnt body]]. destruct (cnt =? 0); discriminate H.
    + destruct (db_clear_written d) as [d1 [ids cnt]] eqn:Ec.
      eapply Hstep; [exact H|]. intros pre. cbn [walk]. rewrite Ec. reflexivity.
    + eapply Hstep; [exact H|]. intros pre. reflexivity.
    + destruct tl as [|[] tl']; try discriminate H.
      unfold evinfo_answer_of in H.
      destruct (db_unwritten_classes d) as [[u1 u2] u3] eqn:Eu.
      inversion H; subst; clear H.
      exists [], tl', c', log. repeat split; auto.
    + destruct tl as [|[] tl']; try discriminate H.
      destruct (select_deferred d _) as [[d1 v1] u]. discriminate H.
  - eapply Hstep; [exact H|]. intros pre. reflexivity.
  - destruct i; (eapply Hstep; [exact H|]; intros pre; reflexivity).
  - eapply Hstep; [exact H|]. intros pre. reflexivity.
  - eapply Hstep; [exact H|]. intros pre. reflexivity.
  - discriminate H.
  - eapply Hstep; [exact H|]. intros pre. reflexivity.
Qed.

(* (response_iin_bits, or_iin_bits, class_bits, overflow_bit, clean: Outstation/SessionEvinfo.v) *)

(* a response as the handlers build it: no IIN1 bit, and of IIN2 at most NO_FUNC_CODE_SUPPORT,
   OBJECT_UNKNOWN, PARAMETER_ERROR *)
Definition handler_response (r : response) : Prop := clean r.

(* write_solicited *)
Lemma write_solicited_bits s dest r c1 c2 c3 v rest s' r' o :
  s_answers s = AEvinfo c1 c2 c3 v :: rest -> handler_response r ->
  write_solicited s dest r = (s', r', o) ->
  exists bytes, o = [ODb DbEvinfo; OTx dest bytes] /\ class_bits bytes = (c1, c2, c3) /\ overflow_bit bytes = v.
Proof.
  intros Ha Hr Hw. pose proof (write_solicited_T _ _ _ _ _ _ Hr Hw) as (Ht & _ & _).
  rewrite Ha in Ht.
  assert (Ho : exists bytes, o = [ODb DbEvinfo; OTx dest bytes]).
  { unfold write_solicited in Hw. destruct (response_iin s) as [[s1 iin] o1] eqn:E.
    destruct iin as [i1 i2]. eapply response_iin_bits in E; [|exact Ha]. destruct E as (-> & _).
    inversion Hw; subst. eexists. reflexivity. }
  destruct Ho as [bytes ->]. exists bytes. split; [reflexivity|].
  inversion Ht; subst; try discriminate;
    try (match goal with H : iin_ok _ _ _ _ _ |- _ => exact H end);
    try (match goal with H : head_not_ev _ |- _ => destruct H end).
Qed.

(* write_unsolicited *)
Lemma write_unsolicited_bits cfg s r c1 c2 c3 v rest s' r' o :
  s_answers s = AEvinfo c1 c2 c3 v :: rest -> handler_response r ->
  write_unsolicited cfg s r = (s', r', o) ->
  exists bytes, o = [ODb DbEvinfo; OTx (o_master cfg) bytes] /\ class_bits bytes = (c1, c2, c3) /\ overflow_bit bytes = v.
Proof.
  intros Ha Hr Hw. pose proof (write_unsolicited_T _ _ _ _ _ _ Hr Hw) as (Ht & _ & _).
  rewrite Ha in Ht.
  assert (Ho : exists bytes, o = [ODb DbEvinfo; OTx (o_master cfg) bytes]).
  { unfold write_unsolicited in Hw. destruct (response_iin s) as [[s1 iin] o1] eqn:E.
    destruct iin as [i1 i2]. eapply response_iin_bits in E; [|exact Ha]. destruct E as (-> & _).
    inversion Hw; subst. eexists. reflexivity. }
  destruct Ho as [bytes ->]. exists bytes. split; [reflexivity|].
  inversion Ht; subst; try discriminate;
    try (match goal with H : iin_ok _ _ _ _ _ |- _ => exact H end);
    try (match goal with H : head_not_ev _ |- _ => destruct H end).
Qed.

(* THE COMPOSITION.  Let a pass of the replay stop at a DbEvinfo call and answer it (WAsk ... a ...).
   Then a = AEvinfo of the database state d' reached by replaying the calls before it (walk over the
   prefix ends in d'), and when the session, holding that answer next, transmits a response - solicited
   or unsolicited - the class bits and the overflow bit of the transmitted octets are
   db_unwritten_classes d' and db_is_overflown d'. *)
Theorem c13_composition F rest d c n log d' c' log' c1 c2 c3 v k :
  walk F d c n log rest = WAsk d' c' log' (AEvinfo c1 c2 c3 v) k ->
  (exists pre post cpre logpre,
      rest = pre ++ ODb DbEvinfo :: OMissingAnswer :: post /\ walk F d c n log pre = WDone d' cpre logpre) /\
  (forall s dest r more s' r' o,
      s_answers s = AEvinfo c1 c2 c3 v :: more -> handler_response r ->
      write_solicited s dest r = (s', r', o) ->
      exists bytes, o = [ODb DbEvinfo; OTx dest bytes] /\
                    class_bits bytes = db_unwritten_classes d' /\ overflow_bit bytes = db_is_overflown d') /\
  (forall cfg s r more s' r' o,
      s_answers s = AEvinfo c1 c2 c3 v :: more -> handler_response r ->
      write_unsolicited cfg s r = (s', r', o) ->
      exists bytes, o = [ODb DbEvinfo; OTx (o_master cfg) bytes] /\
                    class_bits bytes = db_unwritten_classes d' /\ overflow_bit bytes = db_is_overflown d').
Proof.
  intros H. apply walk_evinfo in H.
  destruct H as (pre & post & cpre & logpre & E1 & E2 & E3 & E4 & _ & _).
  split; [exists pre, post, cpre, logpre; auto|]. split.
  - intros s dest r more s' r' o Ha Hr Hw.
    destruct (write_solicited_bits _ _ _ _ _ _ _ _ _ _ _ Ha Hr Hw) as (bytes & Ho & Hc & Hv).
    exists bytes. rewrite <- E3, <- E4. auto.
  - intros cfg s r more s' r' o Ha Hr Hw.
    destruct (write_unsolicited_bits _ _ _ _ _ _ _ _ _ _ _ Ha Hr Hw) as (bytes & Ho & Hc & Hv).
    exists bytes. rewrite <- E3, <- E4. auto.
Qed.

(* ================================================================================================ *)
(* (iii, continued) whole steps of the composed model                                                 *)

(* ---- the IIN2 values that enter the session from the parser and the database are small ------------ *)

Lemma frag_digest_small bytes : sm_digest (frag_digest bytes).
Proof.
  destruct (frag_digest_total bytes) as (d & <- & Hs).
  destruct (frag_digest bytes) as [| |ctl fn rv [v|hdrs rh]]; cbn; try exact I.
  destruct Hs as (_ & _ & _ & [->| [->| ->]]); reflexivity.
Qed.

Lemma sdb_push_sm d it : sm (snd (sdb_push d it)).
Proof. unfold sdb_push. destruct (_ =? _); reflexivity. Qed.

Lemma sdb_select_type_sm d t v r : sm (snd (sdb_select_type d t v r)).
Proof.
  unfold sdb_select_type.
  destruct (match r with Some r0 => Some r0 | None => pmap_full_range (sd_maps d t) end) as [[a b]|];
    [apply sdb_push_sm|reflexivity].
Qed.

Lemma sdb_select_class0_sm l : forall acc, sm (snd acc) -> sm (snd (fold_left sdb_select_class0_type l acc)).
Proof.
  induction l as [|t l IH]; intros [d iin] Hacc; cbn [fold_left]; [exact Hacc|].
  apply IH. unfold sdb_select_class0_type. destruct (sd_c0 d t); [|exact Hacc].
  pose proof (sdb_select_type_sm d t None None) as Hs.
  destruct (sdb_select_type d t None None) as [d' i]. cbn [snd] in *. apply sm_lor; assumption.
Qed.

Lemma sdb_select_sm d h : sm (snd (sdb_select d h)).
Proof.
  destruct h as [|t v r]; cbn [sdb_select]; [|apply sdb_select_type_sm].
  apply sdb_select_class0_sm. reflexivity.
Qed.

Lemma db_select_sm d h : sm (snd (db_select d h)).
Proof.
  destruct h as [h|h]; cbn [db_select].
  - pose proof (sdb_select_sm (db_static d) h) as Hs. destruct (sdb_select (db_static d) h) as [s' iin]. exact Hs.
  - destruct (ebuf_select_by_header (db_events d) h) as [e' n]. reflexivity.
Qed.

Lemma select_headers_sm : forall hs d, sm (snd (fst (select_headers d hs))).
Proof.
  induction hs as [|h r IH]; intros d; cbn [select_headers]; [reflexivity|].
  destruct (rh_classify h) as [|x| |].
  - specialize (IH d). destruct (select_headers d r) as [[d' v] u]. cbn [fst snd] in *.
    apply sm_lor; [reflexivity|exact IH].
  - pose proof (db_select_sm d x) as Hs. destruct (db_select d x) as [d1 v1].
    specialize (IH d1). destruct (select_headers d1 r) as [[d2 v2] u]. cbn [fst snd] in *.
    apply sm_lor; assumption.
  - apply IH.
  - specialize (IH d). destruct (select_headers d r) as [[d' v] u]. exact IH.
Qed.

(* every answer the replay computes is small *)
Lemma walk_ask_small F : forall rest d c n log d' c' log' a k,
  walk F d c n log rest = WAsk d' c' log' a k -> sm_ans a.
Proof.
  induction rest as [|o tl IH]; intros d c n log d' c' log' a k H; [discriminate H|].
  cbn [walk] in H.
  destruct o as [dest bytes|call|cb|i| |t| |]; try (eapply IH; exact H); try discriminate H.
  - destruct call as [| |b1 b2 b3| | | |].
    + destruct tl as [|[] tl']; try discriminate H.
      pose proof (select_headers_sm (request_headers (wc_cur c)) d) as Hs.
      destruct (select_headers d _) as [[d1 v1] u]. inversion H; subst. exact Hs.
    + destruct tl as [|[] tl']; try discriminate H.
      unfold write_answer in H. destruct (db_write_response d _) as [d1 [[bytes he] cpl]].
      inversion H; subst. exact I.
    + destruct (unsol_answer F d b1 b2 b3) as [d1 [cnt body]]. destruct (cnt =? 0); inversion H; subst; exact I.
    + destruct (db_clear_written d) as [d1 [ids cnt]]. eapply IH; exact H.
    + eapply IH; exact H.
    + destruct tl as [|[] tl']; try discriminate H. inversion H; subst.
      unfold evinfo_answer_of. destruct (db_unwritten_classes d') as [[u1 u2] u3]. exact I.
    + destruct tl as [|[] tl']; try discriminate H.
      unfold select_deferred in H.
      pose proof (select_headers_sm (firstn deferred_capacity (filter hdr_is_read (request_headers (deferred_request c)))) (db_reset d)) as Hs.
      destruct (select_headers (db_reset d) _) as [[d1 v1] u]. inversion H; subst. exact Hs.
  - destruct i; eapply IH; exact H.
Qed.

(* an AEvinfo answer is the one of the database state the pass hands back *)
Lemma walk_ask_ev F rest d c n log d' c' log' a k :
  walk F d c n log rest = WAsk d' c' log' a k -> answer_is_evinfo a = true -> a = evinfo_answer_of d'.
Proof.
  intros H Ha. destruct a as [v|cpl he b|cnt b|c1 c2 c3 v]; try discriminate Ha.
  apply walk_evinfo in H. destruct H as (pre & post & cpre & logpre & _ & _ & E3 & E4 & _).
  unfold evinfo_answer_of. rewrite <- E3, <- E4. reflexivity.
Qed.

(* ---- invariants of the replay ------------------------------------------------------------------------ *)

Definition evinfos (l : list answer) : list answer := filter answer_is_evinfo l.

Definition rinv (r : rstate) : Prop :=
  Forall sm_ans (rs_answers r) /\ evinfos (rs_answers r) = map evinfo_answer_of (rs_snaps r).

Lemma replay_inv fuel F run : forall r r',
  rinv r -> replay fuel F run r = RDone r' \/ replay fuel F run r = RFail r' -> rinv r'.
Proof.
  induction fuel as [|f IH]; intros r r' Hr H.
  - cbn [replay] in H. destruct H as [H|H]; [discriminate|]. inversion H; subst. exact Hr.
  - cbn [replay] in H.
    destruct (walk F (rs_db r) (rs_ctx r) (rs_settled r) (rs_log r)
                   (skipn (rs_settled r) (snd (run (rs_answers r ++ [sentinel]))))) as [d c log|d c log a k|log] eqn:W.
    + destruct H as [H|H]; [|discriminate]. inversion H; subst. exact Hr.
    + eapply IH; [|exact H]. destruct Hr as [A B]. split; cbn [rs_answers rs_snaps].
      * apply Forall_app. split; [exact A|]. constructor; [|constructor]. eapply walk_ask_small; exact W.
      * unfold evinfos in *. rewrite filter_app. cbn [filter].
        destruct (answer_is_evinfo a) eqn:Ea.
        -- rewrite map_app. cbn [map]. rewrite B. f_equal. f_equal. eapply walk_ask_ev; eauto.
        -- rewrite app_nil_r. exact B.
    + destruct H as [H|H]; [discriminate|]. inversion H; subst. exact Hr.
Qed.

Lemma replay_event_inv F d c run :
  let ro := replay_event F d c run in
  Forall sm_ans (ro_answers ro) /\ evinfos (ro_answers ro) = map evinfo_answer_of (ro_snaps ro) /\
  run (ro_answers ro) = (ro_s ro, ro_out ro).
Proof.
  unfold replay_event. cbv zeta.
  assert (H0 : rinv {| rs_answers := []; rs_db := d; rs_ctx := c; rs_settled := 0; rs_log := []; rs_snaps := [] |}).
  { split; [constructor|reflexivity]. }
  destruct (replay replay_fuel F run _) as [r|r] eqn:R.
  - pose proof (replay_inv _ _ _ _ _ H0 (or_introl R)) as [A B].
    destruct (run (rs_answers r)) as [s1 out] eqn:E. cbn [ro_answers ro_snaps ro_s ro_out]. auto.
  - pose proof (replay_inv _ _ _ _ _ H0 (or_intror R)) as [A B].
    destruct (run (rs_answers r)) as [s1 out] eqn:E. cbn [ro_answers ro_snaps ro_s ro_out]. auto.
Qed.

(* ---- the responses a step builds and transmits ------------------------------------------------------- *)

(* (destination, octets) of every fragment transmitted directly after a DbEvinfo call, in order *)
Fixpoint fresh_tx (o : list oobs) : list (N * list N) :=
  match o with
  | [] => []
  | x :: tl =>
      match x, tl with
      | ODb DbEvinfo, OTx dest bytes :: _ => (dest, bytes) :: fresh_tx tl
      | _, _ => fresh_tx tl
      end
  end.

Lemma fresh_tx_plain x l : is_ev x = false -> fresh_tx (x :: l) = fresh_tx l.
Proof. destruct x as [|[]| | | | | |]; cbn; intros H; try reflexivity; discriminate H. Qed.

Definition ev_ok (e : answer) (p : N * list N) : Prop :=
  match e with AEvinfo c1 c2 c3 v => iin_ok c1 c2 c3 v (snd p) | _ => False end.

Lemma tracked_pairs a o a' :
  tracked a o a' -> Forall (fun x => x <> OMissingAnswer) o ->
  exists used, evinfos a = used ++ evinfos a' /\ Forall2 ev_ok used (fresh_tx o).
Proof.
  induction 1 as [a|a x l a' Hx Ht IH|x a l a' Hx Ht IH|c1 c2 c3 v a dest bytes l a' Hok Ht IH|a dest bytes l a' Hh Ht IH];
    intros Hm.
  - exists []. split; [reflexivity|constructor].
  - inversion Hm; subst. destruct (IH H2) as (used & E & F). exists used. rewrite fresh_tx_plain; auto.
  - destruct (IH Hm) as (used & E & F). exists used. split; [|exact F].
    unfold evinfos in *. cbn [filter]. change (answer_is_evinfo x) with (is_evans x). rewrite Hx. exact E.
  - inversion Hm; subst. inversion H2; subst. destruct (IH H4) as (used & E & F).
    exists (AEvinfo c1 c2 c3 v :: used). split.
    + unfold evinfos in *. cbn [filter answer_is_evinfo]. rewrite E. reflexivity.
    + cbn [fresh_tx]. constructor; [exact Hok|exact F].
  - inversion Hm; subst. inversion H2; subst. exfalso. apply H3. reflexivity.
Qed.

Lemma Forall2_weaken {A B} (P Q : A -> B -> Prop) : (forall x y, P x y -> Q x y) ->
  forall l q, Forall2 P l q -> Forall2 Q l q.
Proof. intros H l q F. induction F; constructor; auto. Qed.

Lemma Forall2_map_left {A B C} (f : A -> B) (P : B -> C -> Prop) : forall l q,
  Forall2 P (map f l) q -> Forall2 (fun x y => P (f x) y) l q.
Proof.
  induction l as [|x l IH]; intros q H; cbn [map] in H; inversion H; subst; constructor; auto.
Qed.

(* the statement about one list of database snapshots and one output *)
Definition iin_truthful (snaps : list db) (out : list oobs) : Prop :=
  exists used rest, snaps = used ++ rest /\
    Forall2 (fun dsnap p => class_bits (snd p) = db_unwritten_classes dsnap /\
                            overflow_bit (snd p) = db_is_overflown dsnap) used (fresh_tx out).

Theorem replay_event_c13 F d c run :
  (forall ans s' o, Forall sm_ans ans -> run ans = (s', o) -> exists a', tracked ans o a') ->
  let ro := replay_event F d c run in
  ~ In FReplayError (ro_log ro) -> iin_truthful (ro_snaps ro) (ro_out ro).
Proof.
  intros Hrun ro Hno.
  destruct (replay_event_inv F d c run) as (Hsm & Hev & Hr). fold ro in Hsm, Hev, Hr.
  destruct (replay_event_complete F d c run Hno) as [_ Hmiss]. fold ro in Hmiss.
  destruct (Hrun _ _ _ Hsm Hr) as [a' Ht].
  destruct (tracked_pairs _ _ _ Ht Hmiss) as (used & E & F2).
  rewrite Hev in E. apply map_eq_app in E. destruct E as (l1 & l2 & E1 & E2 & _).
  exists l1, l2. split; [exact E1|]. subst used. apply Forall2_map_left in F2.
  eapply Forall2_weaken; [|exact F2]. intros dsnap p. unfold ev_ok, evinfo_answer_of.
  destruct (db_unwritten_classes dsnap) as [[c1 c2] c3]. intros [A B]. split; assumption.
Qed.

(* ---- one session event, one script operation, the start-up -------------------------------------------- *)

Local Opaque replay_event.

(* EVERY RESPONSE BUILT AND TRANSMITTED during one event of the composed model (fresh_tx: the fragments
   sent directly after a DbEvinfo call; retransmissions are repeats of such fragments) carries the class
   bits and the overflow bit of the database state at the moment of that DbEvinfo call (ro_snaps: the
   states the replay had reached when it answered the calls, see walk_evinfo / walk_ask_ev). *)
Theorem fevent_c13 F st d ev :
  small_pd (fs_s st) -> sm_event ev ->
  let ro := fevent_out F st d ev in
  ~ In FReplayError (ro_log ro) -> iin_truthful (ro_snaps ro) (ro_out ro).
Proof.
  intros Hpd Hev. unfold fevent_out. apply replay_event_c13.
  intros ans s' o Hans H. exists (s_answers s').
  exact (proj1 (ostep_tracked _ _ _ _ _ _ Hpd Hans Hev H)).
Qed.

Theorem fstart_c13 F sel op appiin :
  let ro := fstart_out F sel op appiin in
  ~ In FReplayError (ro_log ro) -> iin_truthful (ro_snaps ro) (ro_out ro).
Proof.
  unfold fstart_out. apply replay_event_c13.
  intros ans s' o Hans H. exists (s_answers s').
  exact (proj1 (ostart_tracked _ _ _ _ _ _ _ Hans H)).
Qed.

(* the hypotheses of fevent_c13 hold along every history of the composed model *)
Lemma fevent_small F st d ev :
  small_pd (fs_s st) -> sm_event ev -> small_pd (fs_s (fst (fevent F st d ev))).
Proof.
  intros Hpd Hev. unfold fevent. cbn [fst fs_s]. unfold fevent_out.
  destruct (replay_event_inv F d (ctx_of (f_o F) (fs_s st) ev) (fun a => ostep (f_o F) (fs_s st) ev a))
    as (Hsm & _ & Hr).
  cbv beta in Hr.
  exact (proj2 (ostep_tracked _ _ _ _ _ _ Hpd Hsm Hev Hr)).
Qed.

(* the session event (and the database it meets) of a script operation *)
Definition fop_event (st : fstate) (op : fop) : db * oevent :=
  match op with
  | FRx from bc bytes => (fs_db st, ERx from bc bytes (frag_digest bytes))
  | FSleep ms => (fs_db st, ESleep ms)
  | FAdd t i k => (fst (db_add (fs_db st) t i (default_pconfig t k)), EDbChange)
  | FUpdate t i v => (fst (db_update (fs_db st) t i v true Detect), EDbChange)
  | FHandler sel op => (fs_db st, EHandler sel op)
  | FAppIin v => (fs_db st, EAppIin v)
  | FDisconnect => (fs_db st, EDisconnect)
  end.

Lemma fop_event_small st op : sm_event (snd (fop_event st op)).
Proof. destruct op; cbn; try exact I. apply frag_digest_small. Qed.

Lemma fstep_fevent F st op :
  fst (fstep F st op) = fst (fevent F st (fst (fop_event st op)) (snd (fop_event st op))) /\
  exists pre, snd (fstep F st op) = pre ++ snd (fevent F st (fst (fop_event st op)) (snd (fop_event st op))).
Proof.
  destruct op as [from bc bytes|ms|t i k|t i v|sel op|v|]; cbn [fstep fop_event fst snd].
  - destruct (fevent F st (fs_db st) (ERx from bc bytes (frag_digest bytes))) as [st1 log]. split; [reflexivity|].
    eexists [_]. reflexivity.
  - split; [reflexivity|exists []; reflexivity].
  - destruct (db_add (fs_db st) t i (default_pconfig t k)) as [d1 ok]. cbn [fst].
    destruct (fevent F st d1 EDbChange) as [st1 log]. split; [reflexivity|]. eexists [_]. reflexivity.
  - destruct (db_update (fs_db st) t i v true Detect) as [d1 info]. cbn [fst].
    destruct (fevent F st d1 EDbChange) as [st1 log]. split; [reflexivity|]. eexists [_]. reflexivity.
  - split; [reflexivity|exists []; reflexivity].
  - split; [reflexivity|exists []; reflexivity].
  - split; [reflexivity|exists []; reflexivity].
Qed.

Theorem fstep_small F st op : small_pd (fs_s st) -> small_pd (fs_s (fst (fstep F st op))).
Proof.
  intros H. destruct (fstep_fevent F st op) as [-> _]. apply fevent_small; [exact H|apply fop_event_small].
Qed.

Theorem fstart_small F sel op appiin : small_pd (fs_s (fst (fstart F sel op appiin))).
Proof.
  unfold fstart. cbn [fst fs_s]. unfold fstart_out.
  destruct (replay_event_inv F (fdb_new F) ctx_start (fun a => ostart (f_o F) sel op appiin a)) as (Hsm & _ & Hr).
  cbv beta in Hr.
  exact (proj2 (ostart_tracked _ _ _ _ _ _ _ Hsm Hr)).
Qed.

(* one script operation *)
Theorem fstep_c13 F st op :
  small_pd (fs_s st) ->
  let ro := fevent_out F st (fst (fop_event st op)) (snd (fop_event st op)) in
  ~ In FReplayError (snd (fstep F st op)) -> iin_truthful (ro_snaps ro) (ro_out ro).
Proof.
  intros Hpd ro Hno. apply fevent_c13; [exact Hpd|apply fop_event_small|].
  intros Hin. apply Hno. destruct (fstep_fevent F st op) as [_ [pre ->]].
  apply in_or_app. right. exact Hin.
Qed.
