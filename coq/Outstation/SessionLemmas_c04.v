(* Outstation/SessionLemmas_c04.v — helper lemmas about Outstation/Session.v for property C04:
   frames (which fields a function leaves alone), which callbacks each handler can emit, the idle loop
   processes the pending fragment at most once (idle_run_safe) and, with the fuel given by the model,
   exactly once leaving nothing pending (idle_run_J), and the resulting description of one step
   (ostep_spec). *)
From Dnp3V Require Import Outstation.Session.
Open Scope N_scope.

Ltac prj := cbn [s_now s_control s_restart_iin s_enabled s_last s_select s_unsol s_unsol_seq s_deferred
  s_last_recorded s_last_bcast s_sol_buf s_unsol_buf s_pending s_frame_id s_notify s_sel_status s_op_status
  s_app_iin s_answers s_bcast_rep upd_bcast_rep upd_control upd_now upd_restart upd_enabled upd_last upd_select upd_unsol upd_unsol_seq
  upd_deferred upd_last_recorded upd_last_bcast upd_sol_buf upd_unsol_buf upd_pending upd_frame_id upd_notify
  upd_knobs upd_answers session_reset] in *.

(* ---------- observations without callbacks ---------- *)
Definition is_cb (o : oobs) : bool := match o with OCb _ => true | _ => false end.
Definition no_cb (l : list oobs) : Prop := forallb (fun o => negb (is_cb o)) l = true.

Lemma no_cb_app a b : no_cb (a ++ b) <-> no_cb a /\ no_cb b.
Proof. unfold no_cb. rewrite forallb_app, andb_true_iff. tauto. Qed.
Lemma no_cb_nil : no_cb [].
Proof. reflexivity. Qed.
Lemma no_cb_cons x l : no_cb (x :: l) <-> is_cb x = false /\ no_cb l.
Proof. unfold no_cb. cbn [forallb]. rewrite andb_true_iff, negb_true_iff. tauto. Qed.
Lemma no_cb_In l : no_cb l -> forall c, ~ In (OCb c) l.
Proof.
  unfold no_cb. intros H c Hin. rewrite forallb_forall in H. apply H in Hin. discriminate.
Qed.
Lemma no_cb_filter l : no_cb l -> filter is_cb l = [].
Proof.
  induction l as [|x l IH]; intros H; [reflexivity|]. apply no_cb_cons in H. destruct H as [Hx Hl].
  cbn [filter]. rewrite Hx. auto.
Qed.

(* ---------- frames ---------- *)
Inductive fld := FNow | FFid | FSelSt | FOpSt | FPend | FNotify | FDef | FCtl | FLast | FSel | FBuf.

Definition fld_eq (f : fld) (s s' : ostate) : Prop :=
  match f with
  | FNow => s_now s' = s_now s
  | FFid => s_frame_id s' = s_frame_id s
  | FSelSt => s_sel_status s' = s_sel_status s
  | FOpSt => s_op_status s' = s_op_status s
  | FPend => s_pending s' = s_pending s
  | FNotify => s_notify s' = s_notify s
  | FDef => s_deferred s' = s_deferred s
  | FCtl => s_control s' = s_control s
  | FLast => s_last s' = s_last s
  | FSel => s_select s' = s_select s
  | FBuf => s_sol_buf s' = s_sol_buf s
  end.

Definition fld_eqb (a b : fld) : bool :=
  match a, b with
  | FNow, FNow | FFid, FFid | FSelSt, FSelSt | FOpSt, FOpSt | FPend, FPend | FNotify, FNotify
  | FDef, FDef | FCtl, FCtl | FLast, FLast | FSel, FSel | FBuf, FBuf => true
  | _, _ => false
  end.
Lemma fld_eqb_eq a b : fld_eqb a b = true -> a = b.
Proof. destruct a, b; cbn; intros; congruence. Qed.

Definition pres (fs : list fld) (s s' : ostate) : Prop := Forall (fun f => fld_eq f s s') fs.

Definition fall : list fld := [FNow; FFid; FSelSt; FOpSt; FPend; FNotify; FDef; FCtl; FLast; FSel; FBuf].

Definition fsub (a b : list fld) : bool := forallb (fun f => existsb (fld_eqb f) b) a.

Lemma pres_sub a b s s' : fsub a b = true -> pres b s s' -> pres a s s'.
Proof.
  unfold fsub, pres. rewrite forallb_forall, !Forall_forall. intros Hs Hb f Hf.
  apply Hs in Hf. apply existsb_exists in Hf. destruct Hf as [g [Hg Heq]].
  apply fld_eqb_eq in Heq. subst g. auto.
Qed.

Lemma pres_refl fs s : pres fs s s.
Proof. unfold pres. apply Forall_forall. intros f _. destruct f; reflexivity. Qed.

Lemma pres_trans fs s1 s2 s3 : pres fs s1 s2 -> pres fs s2 s3 -> pres fs s1 s3.
Proof.
  unfold pres. rewrite !Forall_forall. intros H1 H2 f Hf. specialize (H1 f Hf). specialize (H2 f Hf).
  destruct f; cbn [fld_eq] in *; congruence.
Qed.

Lemma pres_get f fs s s' : existsb (fld_eqb f) fs = true -> pres fs s s' -> fld_eq f s s'.
Proof.
  intros He Hp. apply existsb_exists in He. destruct He as [g [Hg Heq]]. apply fld_eqb_eq in Heq. subst g.
  unfold pres in Hp. rewrite Forall_forall in Hp. auto.
Qed.

Lemma pres_trans2 a b c s1 s2 s3 : fsub c a = true -> fsub c b = true ->
  pres a s1 s2 -> pres b s2 s3 -> pres c s1 s3.
Proof.
  intros Ha Hb H1 H2. apply pres_trans with s2; [apply (pres_sub c a)|apply (pres_sub c b)]; assumption.
Qed.

(* solve `pres fs s (upd... s)` *)
Ltac pres_now := unfold pres, fall; repeat constructor; prj; try reflexivity.

Ltac pget f H := let X := fresh "P" in
  match type of H with pres ?fs ?s ?s' => pose proof (pres_get f fs s s' eq_refl H) as X; cbn [fld_eq] in X end.

(* ---------- leaf functions ---------- *)
Lemma ask_evinfo_pres s s1 r o : ask_evinfo s = (s1, r, o) -> pres fall s s1 /\ no_cb o.
Proof.
  unfold ask_evinfo. destruct (s_answers s) as [|[] rest]; intros H; inversion H; subst;
    split; try pres_now; reflexivity.
Qed.
Lemma ask_iin2_pres s c s1 r o : ask_iin2 s c = (s1, r, o) -> pres fall s s1 /\ no_cb o.
Proof.
  unfold ask_iin2. destruct (s_answers s) as [|[] rest]; intros H; inversion H; subst;
    split; try pres_now; reflexivity.
Qed.
Lemma ask_write_pres s s1 r o : ask_write s = (s1, r, o) -> pres fall s s1 /\ no_cb o.
Proof.
  unfold ask_write. destruct (s_answers s) as [|[] rest]; intros H; inversion H; subst;
    split; try pres_now; reflexivity.
Qed.
Lemma ask_unsol_pres s s1 r : ask_unsol s = (s1, r) -> pres fall s s1.
Proof.
  unfold ask_unsol. destruct (s_answers s) as [|[] rest]; intros H; inversion H; subst; pres_now.
Qed.

Lemma response_iin_pres s s1 iin o : response_iin s = (s1, iin, o) -> pres fall s s1 /\ no_cb o.
Proof.
  unfold response_iin. destruct (ask_evinfo s) as [[s0 [[[c1 c2] c3] ovf]] o0] eqn:E.
  apply ask_evinfo_pres in E. destruct E as [E1 E2]. intros H. inversion H; subst. split; [|exact E2].
  eapply pres_trans; [exact E1|]. destruct (s_last_bcast s0) as [[]|]; try apply pres_refl; pres_now.
Qed.

Lemma bcast_reported_pres s c : pres fall s (bcast_reported s c).
Proof. unfold bcast_reported. destruct (s_last_bcast s) as [[]|]; try apply pres_refl; pres_now. Qed.
Lemma bcast_confirmed_pres s u q : pres fall s (bcast_confirmed s u q).
Proof. unfold bcast_confirmed. destruct (rep_eqb _ _ _); try apply pres_refl; pres_now. Qed.
Lemma bcast_confirmed_select s u q : s_select (bcast_confirmed s u q) = s_select s.
Proof. unfold bcast_confirmed. destruct (rep_eqb _ _ _); reflexivity. Qed.
Lemma bcast_reported_bcast s c : s_last_bcast (bcast_reported s c) = s_last_bcast s.
Proof. unfold bcast_reported. destruct (s_last_bcast s) as [[]|] eqn:E; prj; auto. Qed.
Lemma bcast_reported_sol_buf s c : s_sol_buf (bcast_reported s c) = s_sol_buf s.
Proof. unfold bcast_reported. destruct (s_last_bcast s) as [[]|]; reflexivity. Qed.

Lemma write_solicited_pres s dest r s1 r1 o :
  write_solicited s dest r = (s1, r1, o) ->
  pres fall s s1 /\ no_cb o /\ r_size r1 = r_size r /\
  exists pre, o = pre ++ [OTx dest (response_bytes r1 (s_sol_buf s1))].
Proof.
  unfold write_solicited. destruct (response_iin s) as [[s0 iin] o0] eqn:E.
  apply response_iin_pres in E. destruct E as [E1 E2]. intros H. inversion H; subst. clear H.
  split; [eapply pres_trans; [exact E1|apply bcast_reported_pres]|].
  split; [apply no_cb_app; split; [exact E2|reflexivity]|].
  split; [destruct (s_last_bcast s0) as [[]|]; reflexivity|]. rewrite bcast_reported_sol_buf. eexists; reflexivity.
Qed.

Lemma write_unsolicited_pres cfg s r s1 r1 o :
  write_unsolicited cfg s r = (s1, r1, o) -> pres fall s s1 /\ no_cb o.
Proof.
  unfold write_unsolicited. destruct (response_iin s) as [[s0 iin] o0] eqn:E.
  apply response_iin_pres in E. destruct E as [E1 E2]. intros H. inversion H; subst. clear H.
  split; [eapply pres_trans; [exact E1|apply bcast_reported_pres]|]. apply no_cb_app; split; [exact E2|reflexivity].
Qed.

Lemma write_error_response_pres s from bc seq s1 o :
  write_error_response s from bc seq = (s1, o) -> pres fall s s1 /\ no_cb o.
Proof.
  unfold write_error_response. destruct bc; [intros H; inversion H; subst; split; [apply pres_refl|reflexivity]|].
  destruct seq; [|intros H; inversion H; subst; split; [apply pres_refl|reflexivity]].
  destruct (write_solicited s from (empty_solicited n iin2_no_func)) as [[s0 r0] o0] eqn:E.
  apply write_solicited_pres in E. destruct E as [E1 [E2 _]]. intros H; inversion H; subst. auto.
Qed.

Definition fnosel : list fld := [FNow; FFid; FSelSt; FOpSt; FPend; FNotify; FDef; FCtl; FLast].
Definition fnobuf : list fld := [FNow; FFid; FSelSt; FOpSt; FPend; FNotify; FDef; FCtl; FLast; FSel].

Lemma format_read_response_pres s fir seq iin2 s1 r se o :
  format_read_response s fir seq iin2 = (s1, r, se, o) -> pres fnobuf s s1 /\ no_cb o.
Proof.
  unfold format_read_response. destruct (ask_write s) as [[s0 [[c e] b]] o0] eqn:E.
  apply ask_write_pres in E. destruct E as [E1 E2]. intros H; inversion H; subst. split; [|exact E2].
  apply (pres_trans2 fall fnobuf fnobuf _ s0 _ eq_refl eq_refl E1). pres_now.
Qed.

Lemma format_first_read_response_pres s seq s1 r se o :
  format_first_read_response s seq = (s1, r, se, o) -> pres fnobuf s s1 /\ no_cb o.
Proof.
  unfold format_first_read_response. destruct (ask_iin2 s DbSelect) as [[s0 v] o0] eqn:E.
  apply ask_iin2_pres in E. destruct E as [E1 E2].
  destruct (format_read_response s0 true seq v) as [[[s2 r2] se2] o2] eqn:F.
  apply format_read_response_pres in F. destruct F as [F1 F2]. intros H; inversion H; subst.
  split; [|apply no_cb_app; auto]. exact (pres_trans2 fall fnobuf fnobuf _ _ _ eq_refl eq_refl E1 F1).
Qed.

(* ---------- the control echo: which callbacks ---------- *)
Definition mode_cb (mode : ctl_mode) (o : oobs) : Prop :=
  match o with
  | OCb CbBeginFragment => True
  | OCb (CbSelect _ _ _ _) => mode = CmSelect
  | OCb (CbOperate _ _ _ t _) => mode = CmOperate t
  | _ => False
  end.

Lemma item_status_consulted s cfg mode num st g v idx obj :
  item_status s cfg mode num = (st, true) ->
  mode_cb mode (OCb (match mode with CmOperate t => CbOperate g v idx t obj | _ => CbSelect g v idx obj end)).
Proof.
  unfold item_status. destruct mode as [|t|x]; cbn [mode_cb]; auto.
  intros H; inversion H.
Qed.

Lemma ctl_one_header_cbs s cfg cap mode g v prefix items :
  forall written n hs num started w ok cbs st num' started',
  ctl_one_header s cfg cap mode g v prefix written n hs num started items = (w, ok, cbs, st, num', started') ->
  Forall (mode_cb mode) cbs.
Proof.
  induction items as [|[idx obj] rest IH]; intros written n hs num started w ok cbs st num' started' H.
  - cbn [ctl_one_header] in H. inversion H; subst. constructor.
  - cbn [ctl_one_header] in H.
    destruct (item_status s cfg mode num) as [st0 consulted] eqn:Ei.
    destruct (echo_items cap g v prefix written n hs [(idx, replace_status obj st0)]) as [w1 ok1] eqn:Ee.
    assert (Hcb : Forall (mode_cb mode)
              (if consulted then (if started then [] else [OCb CbBeginFragment]) ++
                 [OCb (match mode with CmOperate t => CbOperate g v idx t obj | _ => CbSelect g v idx obj end)]
               else [])).
    { destruct consulted; [|constructor]. apply Forall_app. split.
      - destruct started; repeat constructor.
      - constructor; [|constructor]. eapply item_status_consulted; eauto. }
    destruct ok1.
    + destruct (ctl_one_header s cfg cap mode g v prefix w1 (n + 1) hs (num + 1) (started || consulted) rest)
        as [[[[[w2 ok2] cbs2] st2] num2] started2] eqn:Er.
      inversion H; subst. apply Forall_app. split; [exact Hcb|]. eapply IH; eauto.
    + inversion H; subst. exact Hcb.
Qed.

Lemma ctl_headers_cbs s cfg cap mode hdrs :
  forall written num started w ok cbs st started',
  ctl_headers s cfg cap mode written num started hdrs = (w, ok, cbs, st, started') ->
  Forall (mode_cb mode) cbs.
Proof.
  induction hdrs as [|h rest IH]; intros written num started w ok cbs st started' H.
  - cbn [ctl_headers] in H. inversion H; subst. constructor.
  - cbn [ctl_headers] in H. destruct h; try (eapply IH; eauto; fail).
    destruct (ctl_one_header s cfg cap mode g v prefix written 0 (length written) num started items)
      as [[[[[w1 ok1] cbs1] st1] num1] started1] eqn:E1.
    apply ctl_one_header_cbs in E1. destruct ok1.
    + destruct (ctl_headers s cfg cap mode w1 num1 started1 rest) as [[[[w2 ok2] cbs2] st2] started2] eqn:E2.
      inversion H; subst. apply Forall_app. split; [exact E1|]. eapply IH; eauto.
    + inversion H; subst. exact E1.
Qed.

Definition noack_cb (o : oobs) : Prop :=
  match o with
  | OCb CbBeginFragment => True
  | OCb (CbOperate _ _ _ OpDoNr _) => True
  | _ => False
  end.

Lemma noack_items_cbs s cfg g v items : forall num started cbs num' started',
  noack_items s cfg g v num started items = (cbs, num', started') -> Forall noack_cb cbs.
Proof.
  induction items as [|[idx obj] rest IH]; intros num started cbs num' started' H; cbn [noack_items] in H.
  - inversion H; subst. constructor.
  - match type of H with context [noack_items s cfg g v (num + 1) ?st rest] =>
      destruct (noack_items s cfg g v (num + 1) st rest) as [[cbs2 num2] started2] eqn:Er end.
    inversion H; subst. apply Forall_app. split; [|eapply IH; eauto].
    destruct (match o_max_controls cfg with Some m => num <? m | None => true end); [|constructor].
    apply Forall_app; split; [destruct started; repeat constructor|repeat constructor].
Qed.

Lemma noack_headers_cbs s cfg hdrs : forall num started cbs started',
  noack_headers s cfg num started hdrs = (cbs, started') -> Forall noack_cb cbs.
Proof.
  induction hdrs as [|h rest IH]; intros num started cbs started' H; cbn [noack_headers] in H.
  - inversion H; subst. constructor.
  - destruct h; try (eapply IH; eauto; fail).
    destruct (noack_items s cfg g v num started items) as [[cbs1 num1] started1] eqn:E1.
    destruct (noack_headers s cfg num1 started1 rest) as [cbs2 started2] eqn:E2.
    inversion H; subst. apply Forall_app. split; [eapply noack_items_cbs; eauto|eapply IH; eauto].
Qed.

(* ---------- handle_controls ---------- *)
Definition optype_fn (t : optype) : N :=
  match t with OpSbo => fn_operate | OpDo => fn_direct_operate | OpDoNr => fn_direct_operate_nr end.

Definition cb_fn (c : callback) (fn : N) : Prop :=
  match c with
  | CbSelect _ _ _ _ => fn = fn_select
  | CbOperate _ _ _ t _ => fn = optype_fn t
  | _ => True
  end.

Definition op_matched (cfg : ocfg) (s : ostate) (seq fid : N) (bytes : list N) : Prop :=
  exists sel, s_select s = Some sel /\ match_operate cfg s sel seq fid (objects_of bytes) = None.

Definition sel_new (seq fid : N) (now : Z) (bytes : list N) : select_state :=
  {| ss_seq := seq; ss_frame_id := fid; ss_time := now; ss_objects := objects_of bytes |}.

Definition sel_established (cfg : ocfg) (s : ostate) (fn seq fid : N) (bytes : list N) (hdrs : list whdr)
           (s1 : ostate) (o : list oobs) : Prop :=
  exists echo cbs started, fn = fn_select /\ all_controls hdrs = true /\
    ctl_headers s cfg (o_sol_tx cfg - 4) CmSelect [] 0 false hdrs = (echo, true, cbs, 0, started) /\
    s_select s1 = Some (sel_new seq fid (s_now s) bytes) /\ incl cbs o.

Definition fctl : list fld := [FNow; FFid; FSelSt; FOpSt; FPend; FNotify; FDef; FCtl; FLast].

Lemma handle_controls_spec cfg s fn seq fid bytes hdrs s1 r o :
  handle_controls cfg s fn seq fid bytes hdrs = (s1, r, o) ->
  (fn = fn_select \/ fn = fn_operate \/ fn = fn_direct_operate \/ fn = fn_direct_operate_nr) ->
  pres fctl s s1 /\
  (forall c, In (OCb c) o -> cb_fn c fn /\ (fn = fn_operate -> op_matched cfg s seq fid bytes)) /\
  (s_select s1 = s_select s \/ sel_established cfg s fn seq fid bytes hdrs s1 o).
Proof.
  unfold handle_controls. intros H Hfn.
  destruct (negb (all_controls hdrs)) eqn:Ea.
  { inversion H; subst. split; [apply pres_refl|]. split; [intros c []|left; reflexivity]. }
  apply negb_false_iff in Ea.
  destruct (fn =? fn_direct_operate_nr) eqn:E6.
  { apply N.eqb_eq in E6. destruct (noack_headers s cfg 0 false hdrs) as [cbs started] eqn:En.
    apply noack_headers_cbs in En. inversion H; subst. split; [apply pres_refl|].
    split; [|left; reflexivity]. intros c Hin. split; [|intros Hc; discriminate Hc].
    apply in_app_or in Hin. destruct Hin as [Hin|Hin].
    - rewrite Forall_forall in En. apply En in Hin. destruct c; cbn in Hin |- *; try tauto.
      destruct t; cbn in *; tauto.
    - destruct started; cbn in Hin; [destruct Hin as [Hin|[]]; inversion Hin; subst; exact I|destruct Hin]. }
  destruct (fn =? fn_select) eqn:E3.
  { apply N.eqb_eq in E3.
    destruct (ctl_headers s cfg (o_sol_tx cfg - 4) CmSelect [] 0 false hdrs) as [[[[echo ok] cbs] st] started] eqn:Ec.
    pose proof (ctl_headers_cbs _ _ _ _ _ _ _ _ _ _ _ _ _ Ec) as Hcbs.
    inversion H; subst s1 r o. clear H.
    split.
    { destruct (ok && (st =? 0)); pres_now. }
    split.
    { intros c Hin. split; [|intros Hc; rewrite E3 in Hc; discriminate Hc].
      apply in_app_or in Hin. destruct Hin as [Hin|Hin].
      - rewrite Forall_forall in Hcbs. apply Hcbs in Hin. destruct c; cbn in Hin |- *; try tauto.
        discriminate Hin.
      - destruct started; cbn in Hin; [destruct Hin as [Hin|[]]; inversion Hin; subst; exact I|destruct Hin]. }
    destruct (ok && (st =? 0)) eqn:Eok.
    - right. apply andb_true_iff in Eok. destruct Eok as [Eok Est]. apply N.eqb_eq in Est. subst ok st.
      exists echo, cbs, started. split; [exact E3|]. split; [exact Ea|]. split; [exact Ec|].
      split; [reflexivity|]. intros x Hx. apply in_or_app. left. exact Hx.
    - left. reflexivity. }
  destruct (fn =? fn_direct_operate) eqn:E5.
  { apply N.eqb_eq in E5.
    destruct (ctl_headers s cfg (o_sol_tx cfg - 4) (CmOperate OpDo) [] 0 false hdrs) as [[[[echo ok] cbs] st] started] eqn:Ec.
    pose proof (ctl_headers_cbs _ _ _ _ _ _ _ _ _ _ _ _ _ Ec) as Hcbs.
    inversion H; subst s1 r o. clear H.
    split; [pres_now|]. split; [|left; reflexivity].
    intros c Hin. split; [|intros Hc; rewrite E5 in Hc; discriminate Hc].
    apply in_app_or in Hin. destruct Hin as [Hin|Hin].
    - rewrite Forall_forall in Hcbs. apply Hcbs in Hin. destruct c; cbn in Hin |- *; try tauto.
      + discriminate Hin.
      + injection Hin as <-. exact E5.
    - destruct started; cbn in Hin; [destruct Hin as [Hin|[]]; inversion Hin; subst; exact I|destruct Hin]. }
  assert (Hop : fn = fn_operate).
  { apply N.eqb_neq in E6, E3, E5. destruct Hfn as [?|[?|[?|?]]]; congruence. }
  destruct (s_select s) as [sel|] eqn:Esel.
  2:{ destruct (ctl_headers s cfg (o_sol_tx cfg - 4) (CmStatus 2) [] 0 false hdrs) as [[[[echo ok] cbs] st] started] eqn:Ec.
      inversion H; subst s1 r o. split; [pres_now|]. split; [intros c []|left; prj; exact Esel]. }
  destruct (match_operate cfg s sel seq fid (objects_of bytes)) as [status|] eqn:Em.
  { destruct (ctl_headers s cfg (o_sol_tx cfg - 4) (CmStatus status) [] 0 false hdrs) as [[[[echo ok] cbs] st] started] eqn:Ec.
    inversion H; subst s1 r o. split; [pres_now|]. split; [intros c []|left; prj; exact Esel]. }
  destruct (ctl_headers s cfg (o_sol_tx cfg - 4) (CmOperate OpSbo) [] 0 false hdrs) as [[[[echo ok] cbs] st] started] eqn:Ec.
  pose proof (ctl_headers_cbs _ _ _ _ _ _ _ _ _ _ _ _ _ Ec) as Hcbs.
  inversion H; subst s1 r o. clear H.
  split; [pres_now|]. split; [|left; prj; exact Esel].
  intros c Hin. split; [|intros _; exists sel; split; [exact Esel|exact Em]].
  apply in_app_or in Hin. destruct Hin as [Hin|Hin].
  - rewrite Forall_forall in Hcbs. apply Hcbs in Hin. destruct c; cbn in Hin |- *; try tauto.
    + discriminate Hin.
    + injection Hin as <-. exact Hop.
  - destruct started; cbn in Hin; [destruct Hin as [Hin|[]]; inversion Hin; subst; exact I|destruct Hin].
Qed.

(* ---------- the other non-READ functions ---------- *)
Definition misc_obs (o : oobs) : Prop :=
  match o with
  | OCb (CbSelect _ _ _ _) | OCb (CbOperate _ _ _ _ _) | OCb CbBeginFragment | OCb CbEndFragment => False
  | _ => True
  end.

Lemma misc_cb_fn c fn : misc_obs (OCb c) -> cb_fn c fn.
Proof. destruct c; cbn; tauto. Qed.

Lemma write_iin_bits_spec bits : forall s s1 v o,
  write_iin_bits s bits = (s1, v, o) -> pres fall s s1 /\ Forall misc_obs o.
Proof.
  induction bits as [|[idx value] rest IH]; intros s s1 v o H; cbn [write_iin_bits] in H.
  - inversion H; subst. split; [apply pres_refl|constructor].
  - destruct (idx =? 7).
    + destruct value.
      * destruct (write_iin_bits s rest) as [[s2 v2] o2] eqn:E. inversion H; subst. eapply IH; eauto.
      * destruct (write_iin_bits (upd_restart s false) rest) as [[s2 v2] o2] eqn:E. inversion H; subst.
        apply IH in E. destruct E as [E1 E2]. split; [|constructor; [exact I|exact E2]].
        eapply pres_trans; [|exact E1]. pres_now.
    + destruct (write_iin_bits s rest) as [[s2 v2] o2] eqn:E. inversion H; subst. eapply IH; eauto.
Qed.

Lemma write_header_spec cfg s h s1 v o :
  write_header cfg s h = (s1, v, o) -> pres fall s s1 /\ Forall misc_obs o.
Proof.
  unfold write_header. destruct h; try (intros H; inversion H; subst; split; [apply pres_refl|constructor]; fail).
  - apply write_iin_bits_spec.
  - destruct t; intros H; inversion H; subst; split; try apply pres_refl; repeat constructor.
  - destruct t; [|intros H; inversion H; subst; split; [apply pres_refl|constructor]].
    destruct (s_last_recorded s); [|intros H; inversion H; subst; split; [apply pres_refl|constructor]].
    destruct (max_timestamp - n <? Z.to_N (s_now s - z)); intros H; inversion H; subst;
      split; try apply pres_refl; try pres_now; repeat constructor.
Qed.

Lemma handle_write_headers_spec cfg hdrs : forall s s1 v o,
  handle_write_headers cfg s hdrs = (s1, v, o) -> pres fall s s1 /\ Forall misc_obs o.
Proof.
  induction hdrs as [|h rest IH]; intros s s1 v o H; cbn [handle_write_headers] in H.
  - inversion H; subst. split; [apply pres_refl|constructor].
  - destruct (write_header cfg s h) as [[s2 v2] o2] eqn:E1.
    destruct (handle_write_headers cfg s2 rest) as [[s3 v3] o3] eqn:E2.
    inversion H; subst. apply write_header_spec in E1. apply IH in E2.
    destruct E1 as [A1 A2], E2 as [B1 B2]. split; [eapply pres_trans; eauto|apply Forall_app; auto].
Qed.

Lemma freeze_header_spec cfg ft t i h v o : freeze_header cfg ft t i h = (v, o) -> Forall misc_obs o.
Proof. unfold freeze_header. destruct h; intros H; inversion H; subst; repeat constructor. Qed.

Lemma handle_freeze_spec cfg ft hdrs : forall v o, handle_freeze cfg ft hdrs = (v, o) -> Forall misc_obs o.
Proof.
  induction hdrs as [|h rest IH]; intros v o H; cbn [handle_freeze] in H.
  - inversion H; subst. constructor.
  - destruct (freeze_header cfg ft 0 0 h) as [v1 o1] eqn:E1. destruct (handle_freeze cfg ft rest) as [v2 o2] eqn:E2.
    inversion H; subst. apply Forall_app. split; [eapply freeze_header_spec; eauto|eapply IH; eauto].
Qed.

Lemma handle_freeze_at_time_spec cfg hdrs : forall timing v o,
  handle_freeze_at_time cfg timing hdrs = (v, o) -> Forall misc_obs o.
Proof.
  induction hdrs as [|h rest IH]; intros timing v o H; cbn [handle_freeze_at_time] in H.
  - inversion H; subst. constructor.
  - assert (Hgen : forall v o,
      match timing with
      | None => let '(v, o) := handle_freeze_at_time cfg timing rest in (N.lor iin2_param v, o)
      | Some (t, i) =>
          let '(v1, o1) := freeze_header cfg 2 t i h in
          let '(v2, o2) := handle_freeze_at_time cfg timing rest in (N.lor v1 v2, o1 ++ o2)
      end = (v, o) -> Forall misc_obs o).
    { intros v' o' H'. destruct timing as [[t i]|].
      - destruct (freeze_header cfg 2 t i h) as [v1 o1] eqn:E1.
        destruct (handle_freeze_at_time cfg (Some (t, i)) rest) as [v2 o2] eqn:E2.
        inversion H'; subst. apply Forall_app. split; [eapply freeze_header_spec; eauto|eapply IH; eauto].
      - destruct (handle_freeze_at_time cfg None rest) as [v2 o2] eqn:E2. inversion H'; subst. eapply IH; eauto. }
    destruct h; try (eapply Hgen; eauto; fail).
    destruct x.
    + eapply IH; eauto.
    + destruct (handle_freeze_at_time cfg timing rest) as [v2 o2] eqn:E2. inversion H; subst. eapply IH; eauto.
Qed.

Lemma enable_disable_pres cfg s en seq hdrs s1 r : enable_disable cfg s en seq hdrs = (s1, r) -> pres fall s s1.
Proof.
  unfold enable_disable. destruct (negb (o_unsol cfg)); [intros H; inversion H; subst; apply pres_refl|].
  match goal with |- context [fold_left ?f hdrs ?a] => destruct (fold_left f hdrs a) as [e v] end.
  intros H; inversion H; subst. pres_now.
Qed.

Lemma restart_response_pres seq s d s1 r : restart_response seq s d = (s1, r) -> pres fnobuf s s1.
Proof.
  unfold restart_response. destruct d as [[ms v]|]; intros H; inversion H; subst; [pres_now|apply pres_refl].
Qed.

Lemma handle_non_read_spec cfg s fn seq fid bytes hdrs s1 r o :
  handle_non_read cfg s fn seq fid bytes hdrs = (s1, r, o) ->
  pres fctl s s1 /\
  (forall c, In (OCb c) o -> cb_fn c fn /\ (fn = fn_operate -> op_matched cfg s seq fid bytes)) /\
  (s_select s1 = s_select s \/ sel_established cfg s fn seq fid bytes hdrs s1 o).
Proof.
  unfold handle_non_read. cbv zeta.
  intros H.
  match type of H with (match ?X with _ => _ end) = _ => destruct X as [[sa ra] oa] eqn:EX end.
  inversion H; subst sa oa. clear H. revert EX.
  assert (Hmisc : forall s1' (o' : list oobs) (code : N), fn = code -> code <> fn_operate ->
            pres fctl s s1' -> s_select s1' = s_select s -> Forall misc_obs o' ->
            pres fctl s s1' /\
            (forall c, In (OCb c) o' -> cb_fn c fn /\ (fn = fn_operate -> op_matched cfg s seq fid bytes)) /\
            (s_select s1' = s_select s \/ sel_established cfg s fn seq fid bytes hdrs s1' o')).
  { intros s1' o' code Hfn Hne Hp Hs Hm. split; [exact Hp|]. split; [|left; exact Hs].
    intros c Hin. split; [apply misc_cb_fn; rewrite Forall_forall in Hm; apply (Hm _ Hin)|].
    intros Hc. congruence. }
  destruct (fn =? fn_write) eqn:E.
  { apply N.eqb_eq in E. destruct (handle_write_headers cfg s hdrs) as [[s2 v] o2] eqn:E2.
    intros H; inversion H; subst s1 ra o. apply handle_write_headers_spec in E2. destruct E2 as [A B].
    apply (Hmisc _ _ _ E); [discriminate|eapply pres_sub; [|exact A]; reflexivity| |exact B].
    pget FSel A. exact P. }
  clear E. destruct (fn =? fn_delay_measure) eqn:E.
  { apply N.eqb_eq in E. intros H; inversion H; subst s1 ra o.
    apply (Hmisc _ _ _ E); [discriminate|pres_now|reflexivity|constructor]. }
  clear E. destruct (fn =? fn_record_time) eqn:E.
  { apply N.eqb_eq in E. intros H; inversion H; subst s1 ra o.
    apply (Hmisc _ _ _ E); [discriminate|pres_now|reflexivity|constructor]. }
  clear E. destruct (fn =? fn_cold_restart) eqn:E.
  { apply N.eqb_eq in E. destruct (restart_response seq s (o_cold cfg)) as [s2 r2] eqn:E2.
    intros H; inversion H; subst s1 ra o. apply restart_response_pres in E2.
    apply (Hmisc _ _ _ E); [discriminate|eapply pres_sub; [|exact E2]; reflexivity| |repeat constructor].
    pget FSel E2. exact P. }
  clear E. destruct (fn =? fn_warm_restart) eqn:E.
  { apply N.eqb_eq in E. destruct (restart_response seq s (o_warm cfg)) as [s2 r2] eqn:E2.
    intros H; inversion H; subst s1 ra o. apply restart_response_pres in E2.
    apply (Hmisc _ _ _ E); [discriminate|eapply pres_sub; [|exact E2]; reflexivity| |repeat constructor].
    pget FSel E2. exact P. }
  clear E. destruct ((fn =? fn_select) || (fn =? fn_operate) || (fn =? fn_direct_operate) || (fn =? fn_direct_operate_nr)) eqn:E.
  { intros H. apply handle_controls_spec in H; [exact H|].
    rewrite !orb_true_iff, !N.eqb_eq in E. tauto. }
  assert (Hnop : fn <> fn_operate).
  { rewrite !orb_false_iff in E. destruct E as [[[_ E] _] _]. apply N.eqb_neq in E. exact E. }
  clear E.
  assert (Hmisc2 : forall (o' : list oobs), Forall misc_obs o' ->
            pres fctl s s /\
            (forall c, In (OCb c) o' -> cb_fn c fn /\ (fn = fn_operate -> op_matched cfg s seq fid bytes)) /\
            (s_select s = s_select s \/ sel_established cfg s fn seq fid bytes hdrs s o')).
  { intros o' Hm. apply (Hmisc s o' fn eq_refl Hnop (pres_refl _ _) eq_refl Hm). }
  destruct (fn =? fn_immediate_freeze).
  { destruct (handle_freeze cfg 0 hdrs) as [v o2] eqn:E2. intros H; inversion H; subst s1 ra o.
    apply Hmisc2. eapply handle_freeze_spec; eauto. }
  destruct (fn =? fn_immediate_freeze_nr).
  { destruct (handle_freeze cfg 0 hdrs) as [v o2] eqn:E2. intros H; inversion H; subst s1 ra o.
    apply Hmisc2. eapply handle_freeze_spec; eauto. }
  destruct (fn =? fn_freeze_clear).
  { destruct (handle_freeze cfg 1 hdrs) as [v o2] eqn:E2. intros H; inversion H; subst s1 ra o.
    apply Hmisc2. eapply handle_freeze_spec; eauto. }
  destruct (fn =? fn_freeze_clear_nr).
  { destruct (handle_freeze cfg 1 hdrs) as [v o2] eqn:E2. intros H; inversion H; subst s1 ra o.
    apply Hmisc2. eapply handle_freeze_spec; eauto. }
  destruct (fn =? fn_freeze_at_time).
  { destruct (handle_freeze_at_time cfg None hdrs) as [v o2] eqn:E2. intros H; inversion H; subst s1 ra o.
    apply Hmisc2. eapply handle_freeze_at_time_spec; eauto. }
  destruct (fn =? fn_freeze_at_time_nr).
  { destruct (handle_freeze_at_time cfg None hdrs) as [v o2] eqn:E2. intros H; inversion H; subst s1 ra o.
    apply Hmisc2. eapply handle_freeze_at_time_spec; eauto. }
  destruct (fn =? fn_enable_unsol).
  { destruct (enable_disable cfg s true seq hdrs) as [s2 r2] eqn:E2. intros H; inversion H; subst s1 ra o.
    apply enable_disable_pres in E2.
    apply (Hmisc _ _ fn eq_refl Hnop); [eapply pres_sub; [|exact E2]; reflexivity| |constructor].
    pget FSel E2. exact P. }
  destruct (fn =? fn_disable_unsol).
  { destruct (enable_disable cfg s false seq hdrs) as [s2 r2] eqn:E2. intros H; inversion H; subst s1 ra o.
    apply enable_disable_pres in E2.
    apply (Hmisc _ _ fn eq_refl Hnop); [eapply pres_sub; [|exact E2]; reflexivity| |constructor].
    pget FSel E2. exact P. }
  intros H; inversion H; subst s1 ra o. apply Hmisc2. constructor.
Qed.

(* ---------- broadcast ---------- *)
Lemma process_broadcast_spec cfg s m fid ctl fn bytes obj s1 o :
  process_broadcast cfg s m fid ctl fn bytes obj = (s1, o) ->
  pres fall s s1 /\
  (forall c, In (OCb c) o -> exists hdrs rh, obj = ObjOk hdrs rh /\ cb_fn c fn /\
                              fn <> fn_select /\ fn <> fn_operate /\ fn <> fn_direct_operate).
Proof.
  unfold process_broadcast.
  assert (P0 : pres fall s (upd_bcast_rep (upd_last_bcast s (Some m)) None)) by pres_now.
  destruct (negb (o_broadcast cfg)).
  { intros H; inversion H; subst. split; [exact P0|]. intros c [Hc|[]]; discriminate Hc. }
  destruct obj as [e|hdrs rh].
  { intros H; inversion H; subst. split; [exact P0|]. intros c [Hc|[]]; discriminate Hc. }
  assert (Hdone : forall s1' (o' : list oobs) (code : N), fn = code ->
            code <> fn_select -> code <> fn_operate -> code <> fn_direct_operate ->
            pres fall s s1' -> Forall misc_obs o' ->
            pres fall s s1' /\
            (forall c, In (OCb c) (o' ++ [OInfo (IBroadcast fn 0 0)]) -> exists hdrs0 rh0, ObjOk hdrs rh = ObjOk hdrs0 rh0 /\ cb_fn c fn /\
                              fn <> fn_select /\ fn <> fn_operate /\ fn <> fn_direct_operate)).
  { intros s1' o' code Hfn H3 H4 H5 Hp Hm. split; [exact Hp|]. intros c Hin. exists hdrs, rh.
    split; [reflexivity|]. split; [|subst fn; auto].
    apply in_app_or in Hin. destruct Hin as [Hin|[Hin|[]]]; [|discriminate Hin].
    apply misc_cb_fn. rewrite Forall_forall in Hm. apply (Hm _ Hin). }
  destruct (fn =? fn_write) eqn:E.
  { apply N.eqb_eq in E. destruct (handle_write_headers cfg (upd_bcast_rep (upd_last_bcast s (Some m)) None) hdrs) as [[s2 v] o2] eqn:E2.
    apply handle_write_headers_spec in E2. destruct E2 as [A B]. intros H; inversion H; subst s1 o.
    apply (Hdone _ _ _ E); try discriminate; [exact (pres_trans _ _ _ _ P0 A)|exact B]. }
  clear E. destruct (fn =? fn_direct_operate_nr) eqn:E.
  { apply N.eqb_eq in E.
    destruct (handle_controls cfg (upd_bcast_rep (upd_last_bcast s (Some m)) None) fn (ctl_seq ctl) fid bytes hdrs) as [[s2 r2] o2] eqn:E2.
    intros H; inversion H; subst s1 o. clear H.
    pose proof E2 as E3. apply handle_controls_spec in E3; [|tauto]. destruct E3 as [_ [Hcb _]].
    assert (s2 = upd_bcast_rep (upd_last_bcast s (Some m)) None).
    { revert E2. unfold handle_controls. destruct (negb (all_controls hdrs)); [intros H; inversion H; reflexivity|].
      rewrite E. rewrite N.eqb_refl.
      destruct (noack_headers (upd_bcast_rep (upd_last_bcast s (Some m)) None) cfg 0 false hdrs). intros H; inversion H; reflexivity. }
    subst s2. split; [exact P0|]. intros c Hin. exists hdrs, rh. split; [reflexivity|].
    apply in_app_or in Hin. destruct Hin as [Hin|[Hin|[]]]; [|discriminate Hin].
    apply Hcb in Hin. destruct Hin as [Hin _]. split; [exact Hin|]. rewrite E. repeat split; discriminate. }
  clear E. destruct (fn =? fn_immediate_freeze_nr) eqn:E.
  { apply N.eqb_eq in E. destruct (handle_freeze cfg 0 hdrs) as [v o2] eqn:E2. intros H; inversion H; subst s1 o.
    apply (Hdone _ _ _ E); try discriminate; [exact P0|eapply handle_freeze_spec; eauto]. }
  clear E. destruct (fn =? fn_freeze_clear_nr) eqn:E.
  { apply N.eqb_eq in E. destruct (handle_freeze cfg 1 hdrs) as [v o2] eqn:E2. intros H; inversion H; subst s1 o.
    apply (Hdone _ _ _ E); try discriminate; [exact P0|eapply handle_freeze_spec; eauto]. }
  clear E. destruct (fn =? fn_freeze_at_time_nr) eqn:E.
  { apply N.eqb_eq in E. destruct (handle_freeze_at_time cfg None hdrs) as [v o2] eqn:E2. intros H; inversion H; subst s1 o.
    apply (Hdone _ _ _ E); try discriminate; [exact P0|eapply handle_freeze_at_time_spec; eauto]. }
  clear E. destruct (fn =? fn_record_time) eqn:E.
  { apply N.eqb_eq in E. intros H; inversion H; subst s1 o.
    apply (Hdone _ [] _ E); try discriminate; [pres_now|constructor]. }
  clear E. destruct (fn =? fn_disable_unsol) eqn:E.
  { apply N.eqb_eq in E. destruct (enable_disable cfg (upd_bcast_rep (upd_last_bcast s (Some m)) None) false (ctl_seq ctl) hdrs) as [s2 r2] eqn:E2.
    apply enable_disable_pres in E2. intros H; inversion H; subst s1 o.
    apply (Hdone _ [] _ E); try discriminate; [exact (pres_trans _ _ _ _ P0 E2)|constructor]. }
  clear E. destruct (fn =? fn_enable_unsol) eqn:E.
  { apply N.eqb_eq in E. destruct (enable_disable cfg (upd_bcast_rep (upd_last_bcast s (Some m)) None) true (ctl_seq ctl) hdrs) as [s2 r2] eqn:E2.
    apply enable_disable_pres in E2. intros H; inversion H; subst s1 o.
    apply (Hdone _ [] _ E); try discriminate; [exact (pres_trans _ _ _ _ P0 E2)|constructor]. }
  intros H; inversion H; subst. split; [exact P0|]. intros c [Hc|[]]; discriminate Hc.
Qed.

(* ---------- handle_one_request_from_idle ---------- *)
Lemma bytes_eqb_eq a : forall b, bytes_eqb a b = true <-> a = b.
Proof.
  induction a as [|x a IH]; intros [|y b]; cbn [bytes_eqb]; split; intros H; try reflexivity; try discriminate.
  - apply andb_true_iff in H. destruct H as [H1 H2]. apply N.eqb_eq in H1. apply IH in H2. congruence.
  - inversion H; subst. rewrite N.eqb_refl. cbn. apply IH. reflexivity.
Qed.

Definition last_matches (last : option last_request) (seq : N) (bytes : list N) : Prop :=
  exists l, last = Some l /\ lr_seq l = seq /\ lr_bytes l = bytes.

Definition repeat_flag (last : option last_request) (seq : N) (bytes : list N) : bool :=
  match last with
  | Some l => (lr_seq l =? seq) && bytes_eqb (lr_bytes l) bytes
  | None => false
  end.

Lemma repeat_flag_iff last seq bytes : repeat_flag last seq bytes = true <-> last_matches last seq bytes.
Proof.
  unfold repeat_flag, last_matches. destruct last as [l|].
  - rewrite andb_true_iff, N.eqb_eq, bytes_eqb_eq. split.
    + intros [A B]. exists l. auto.
    + intros [l' [E [A B]]]. inversion E; subst. auto.
  - split; [discriminate|]. intros [l [E _]]. discriminate E.
Qed.

Definition finish_idle (cfg : ocfg) (from seq : N) (bytes : list N) (o0 : list oobs)
           (s1 : ostate) (resp : option response) (se : option series) (repeat : bool) (o1 : list oobs)
  : ostate * list oobs :=
  match resp with
  | Some r =>
      if repeat then
        let o2 := repeat_solicited s1 from r in
        let se' := match se with None => if ctl_con (r_ctl r) then Some {| se_ecsn := ctl_seq (r_ctl r); se_fin := true |} else None | x => x end in
        let s2 := upd_last s1 (mk_last seq bytes (Some r) se') in
        match se' with
        | Some x => (upd_control s2 (CSolWait x (confirm_deadline cfg s2) RStep2), o0 ++ o1 ++ o2 ++ [OInfo (IEnterSolWait (se_ecsn x))])
        | None => (s2, o0 ++ o1 ++ o2)
        end
      else
        let '(s2, r', o2) := write_solicited s1 from r in
        let se' := match se with None => if ctl_con (r_ctl r') then Some {| se_ecsn := ctl_seq (r_ctl r'); se_fin := true |} else None | x => x end in
        let s3 := upd_last s2 (mk_last seq bytes (Some r') se') in
        match se' with
        | Some x => (upd_control s3 (CSolWait x (confirm_deadline cfg s3) RStep2), o0 ++ o1 ++ o2 ++ [OInfo (IEnterSolWait (se_ecsn x))])
        | None => (s3, o0 ++ o1 ++ o2)
        end
  | None => (upd_last s1 (mk_last seq bytes None se), o0 ++ o1)
  end.

Definition rebase_if_fresh (s : ostate) (fid : N) : ostate :=
  match s_select s with
  | Some sel =>
      if (ss_frame_id sel + 1) mod 4294967296 =? fid
      then upd_select s (Some {| ss_seq := ss_seq sel; ss_frame_id := fid;
                                 ss_time := ss_time sel; ss_objects := ss_objects sel |})
      else s
  | None => s
  end.

Lemma handle_from_idle_eq cfg s from bc bytes d fid :
  handle_from_idle cfg s from bc bytes d fid =
  match to_treq cfg from d with
  | TqNone => (s, [])
  | TqError seq => write_error_response s from bc seq
  | TqRequest ctl fn obj =>
      let seq := ctl_seq ctl in
      let o0 := [OInfo (IIdleRequest fn seq)] in
      match classify s bc bytes ctl fn obj with
      | FtMalformed iin2 => finish_idle cfg from seq bytes o0 s (Some (empty_solicited seq iin2)) None false []
      | FtNewRead _ _ | FtRepeatRead _ _ _ =>
          let '(s1, r, se, o1) := format_first_read_response s seq in
          finish_idle cfg from seq bytes o0 s1 (Some r) se false o1
      | FtNewNonRead hdrs =>
          let '(s1, r, o1) := handle_non_read cfg s fn seq fid bytes hdrs in
          finish_idle cfg from seq bytes o0 s1 r None false o1
      | FtRepeatNonRead last => finish_idle cfg from seq bytes o0 (rebase_if_fresh s fid) last None true []
      | FtBroadcast m =>
          let '(s1, o1) := process_broadcast cfg s m fid ctl fn bytes obj in (s1, o0 ++ o1)
      | FtSolConfirm _ | FtUnsolConfirm _ => (s, o0)
      end
  end.
Proof. reflexivity. Qed.

Definition ffin : list fld := [FNow; FFid; FSelSt; FOpSt; FPend; FNotify; FDef; FSel; FBuf].

Definition idle_or_solwait (c0 c : control) : Prop :=
  c = c0 \/ exists x dl, c = CSolWait x dl RStep2.

Lemma finish_idle_spec cfg from seq bytes o0 s1 resp se repeat o1 s2 o2 :
  finish_idle cfg from seq bytes o0 s1 resp se repeat o1 = (s2, o2) ->
  pres ffin s1 s2 /\ last_matches (s_last s2) seq bytes /\ idle_or_solwait (s_control s1) (s_control s2) /\
  exists rest, o2 = o0 ++ o1 ++ rest /\ no_cb rest /\
    (forall r0, resp = Some r0 -> repeat = false ->
       exists r', r_size r' = r_size r0 /\ In (OTx from (response_bytes r' (s_sol_buf s1))) rest).
Proof.
  unfold finish_idle. destruct resp as [r|].
  2:{ intros H; inversion H; subst. split; [pres_now|]. split; [eexists; split; [reflexivity|split; reflexivity]|].
      split; [left; reflexivity|]. exists []. rewrite app_nil_r. split; [reflexivity|]. split; [reflexivity|].
      intros r0 Hr; discriminate Hr. }
  destruct repeat.
  - destruct se as [x|]; [|destruct (ctl_con (r_ctl r))]; cbv zeta; intros H; inversion H; subst; clear H;
      (split; [pres_now|]; split; [eexists; split; [reflexivity|split; reflexivity]|];
       split; [first [left; reflexivity | right; eexists; eexists; reflexivity]|];
       eexists; split; [reflexivity|]; split; [reflexivity|]; intros r0 _ Hf; discriminate Hf).
  - destruct (write_solicited s1 from r) as [[sa r'] oa] eqn:Ew.
    apply write_solicited_pres in Ew. destruct Ew as [A [B [C [pre D]]]].
    assert (Hbuf : s_sol_buf sa = s_sol_buf s1) by (pget FBuf A; exact P).
    assert (Hctl : s_control sa = s_control s1) by (pget FCtl A; exact P).
    assert (Htx : In (OTx from (response_bytes r' (s_sol_buf s1))) oa).
    { rewrite D. apply in_or_app. right. left. rewrite Hbuf. reflexivity. }
    destruct se as [x|]; [|destruct (ctl_con (r_ctl r'))]; cbv zeta; intros H; inversion H; subst s2 o2; clear H;
      (split; [apply (pres_trans2 fall ffin ffin _ sa _ eq_refl eq_refl A); pres_now|];
       split; [eexists; split; [reflexivity|split; reflexivity]|];
       split; [first [left; exact Hctl | right; eexists; eexists; reflexivity]|]).
    + exists (oa ++ [OInfo (IEnterSolWait (se_ecsn x))]). split; [reflexivity|].
      split; [apply no_cb_app; split; [exact B|reflexivity]|].
      intros r0 Hr _. inversion Hr; subst r0. exists r'. split; [exact C|]. apply in_or_app. left. exact Htx.
    + eexists. split; [reflexivity|].
      split; [apply no_cb_app; split; [exact B|reflexivity]|].
      intros r0 Hr _. inversion Hr; subst r0. exists r'. split; [exact C|]. apply in_or_app. left. exact Htx.
    + exists oa. split; [reflexivity|]. split; [exact B|].
      intros r0 Hr _. inversion Hr; subst r0. exists r'. split; [exact C|]. exact Htx.
Qed.

Definition sel_rebase (sel : select_state) (fid : N) : select_state :=
  {| ss_seq := ss_seq sel; ss_frame_id := fid; ss_time := ss_time sel; ss_objects := ss_objects sel |}.

Record frag_spec (cfg : ocfg) (sm : ostate) (from : N) (bc : option bcast_mode) (bytes : list N) (d : digest)
       (fid : N) (s2 : ostate) (o2 : list oobs) : Prop := {
  fs_cb : forall c, In (OCb c) o2 ->
          exists ctl fn hdrs rh, to_treq cfg from d = TqRequest ctl fn (ObjOk hdrs rh) /\ cb_fn c fn /\
            (bc <> None -> fn <> fn_select /\ fn <> fn_operate /\ fn <> fn_direct_operate) /\
            (fn = fn_operate -> op_matched cfg sm (ctl_seq ctl) fid bytes);
  fs_sel : s_select s2 = s_select sm \/
           (exists ctl hdrs rh, bc = None /\ to_treq cfg from d = TqRequest ctl fn_select (ObjOk hdrs rh) /\
              sel_established cfg sm fn_select (ctl_seq ctl) fid bytes hdrs s2 o2) \/
           (exists sel ctl fn hdrs rh, bc = None /\ to_treq cfg from d = TqRequest ctl fn (ObjOk hdrs rh) /\
              fn <> fn_confirm /\ fn <> fn_read /\ last_matches (s_last sm) (ctl_seq ctl) bytes /\
              s_select sm = Some sel /\ (ss_frame_id sel + 1) mod 4294967296 = fid /\
              s_select s2 = Some (sel_rebase sel fid));
  fs_rec : bc = None -> forall ctl fn hdrs rh, to_treq cfg from d = TqRequest ctl fn (ObjOk hdrs rh) ->
           fn <> fn_confirm -> fn <> fn_read -> last_matches (s_last s2) (ctl_seq ctl) bytes;
  fs_rep : bc = None -> forall ctl fn obj, to_treq cfg from d = TqRequest ctl fn obj ->
           last_matches (s_last sm) (ctl_seq ctl) bytes -> no_cb o2
}.

Lemma in_ocb_split c (o0 o1 rest : list oobs) :
  no_cb o0 -> no_cb rest -> In (OCb c) (o0 ++ o1 ++ rest) -> In (OCb c) o1.
Proof.
  intros H0 Hr Hin. apply in_app_or in Hin. destruct Hin as [Hin|Hin]; [exfalso; exact (no_cb_In _ H0 _ Hin)|].
  apply in_app_or in Hin. destruct Hin as [Hin|Hin]; [exact Hin|exfalso; exact (no_cb_In _ Hr _ Hin)].
Qed.

Definition fidle : list fld := [FNow; FFid; FSelSt; FOpSt; FPend; FNotify; FDef].

Lemma handle_from_idle_spec cfg s from bc bytes d fid s2 o2 :
  handle_from_idle cfg s from bc bytes d fid = (s2, o2) ->
  pres fidle s s2 /\ idle_or_solwait (s_control s) (s_control s2) /\
  frag_spec cfg s from bc bytes d fid s2 o2.
Proof.
  rewrite handle_from_idle_eq. destruct (to_treq cfg from d) as [|eseq|ctl fn obj] eqn:Et.
  - intros H; inversion H; subst. split; [apply pres_refl|]. split; [left; reflexivity|].
    constructor; [intros c []|left; reflexivity|intros; congruence|intros; reflexivity].
  - intros H. apply write_error_response_pres in H. destruct H as [A B].
    split; [eapply pres_sub; [|exact A]; reflexivity|]. split; [left; pget FCtl A; exact P|].
    constructor; [| |intros; congruence|intros; exact B].
    + intros c Hin. exfalso. exact (no_cb_In _ B _ Hin).
    + left. pget FSel A. exact P.
  - cbv zeta. destruct bc as [m|].
    { cbn [classify]. destruct (process_broadcast cfg s m fid ctl fn bytes obj) as [s1 o1] eqn:Ep.
      apply process_broadcast_spec in Ep. destruct Ep as [A B]. intros H; inversion H; subst s2 o2. clear H.
      split; [eapply pres_sub; [|exact A]; reflexivity|]. split; [left; pget FCtl A; exact P|].
      constructor; try (intros; discriminate).
      - intros c [Hin|Hin]; [discriminate Hin|]. apply B in Hin. destruct Hin as [hdrs [rh [Ho [Hf Hn]]]].
        subst obj. exists ctl, fn, hdrs, rh. split; [exact Et|]. split; [exact Hf|]. split; [intros _; exact Hn|].
        intros Hc. exfalso. tauto.
      - left. pget FSel A. exact P. }
    unfold classify. destruct (fn =? fn_confirm) eqn:E0.
    { apply N.eqb_eq in E0.
      assert (Hgen : (s, [OInfo (IIdleRequest fn (ctl_seq ctl))]) = (s2, o2) ->
                pres fidle s s2 /\ idle_or_solwait (s_control s) (s_control s2) /\ frag_spec cfg s from None bytes d fid s2 o2).
      { intros H; inversion H; subst s2 o2. split; [apply pres_refl|]. split; [left; reflexivity|].
        constructor.
        - intros c [Hin|[]]; discriminate Hin.
        - left; reflexivity.
        - intros _ ctl' fn' hdrs rh Ht Hn _. rewrite Et in Ht; inversion Ht; subst. congruence.
        - intros; reflexivity. }
      destruct (ctl_uns ctl); exact Hgen. }
    apply N.eqb_neq in E0.
    destruct obj as [iin2|hdrs rh].
    { intros H. apply finish_idle_spec in H. destruct H as [A [B [C [rest [D [E F]]]]]].
      split; [eapply pres_sub; [|exact A]; reflexivity|]. split; [exact C|].
      constructor.
      - intros c Hin. rewrite D in Hin. apply in_ocb_split in Hin; [destruct Hin|reflexivity|exact E].
      - left. pget FSel A. exact P.
      - intros _ ctl' fn' hdrs rh Ht. congruence.
      - intros _ ctl' fn' obj' _ _. rewrite D. apply no_cb_app. split; [reflexivity|exact E]. }
    change (match s_last s with Some l => (lr_seq l =? ctl_seq ctl) && bytes_eqb (lr_bytes l) bytes | None => false end)
      with (repeat_flag (s_last s) (ctl_seq ctl) bytes).
    assert (Hread : (let '(s1, r, se, o1) := format_first_read_response s (ctl_seq ctl) in
                     finish_idle cfg from (ctl_seq ctl) bytes [OInfo (IIdleRequest fn (ctl_seq ctl))] s1 (Some r) se false o1) = (s2, o2) ->
                    fn = fn_read ->
                    pres fidle s s2 /\ idle_or_solwait (s_control s) (s_control s2) /\ frag_spec cfg s from None bytes d fid s2 o2).
    { destruct (format_first_read_response s (ctl_seq ctl)) as [[[s1 r] se] o1] eqn:Ef.
      apply format_first_read_response_pres in Ef. destruct Ef as [A0 B0].
      intros H Hfn. apply finish_idle_spec in H. destruct H as [A [B [C [rest [D [E F]]]]]].
      split; [exact (pres_trans2 fnobuf ffin fidle _ _ _ eq_refl eq_refl A0 A)|].
      split; [pget FCtl A0; rewrite <- P; exact C|].
      assert (Hno : no_cb o2).
      { rewrite D. apply no_cb_app. split; [reflexivity|]. apply no_cb_app. auto. }
      constructor.
      - intros c Hin. exfalso. exact (no_cb_In _ Hno _ Hin).
      - left. pget FSel A. pget FSel A0. congruence.
      - intros _ ctl' fn' hdrs' rh' Ht _ Hn. rewrite Et in Ht; inversion Ht; subst. congruence.
      - intros; exact Hno. }
    destruct (repeat_flag (s_last s) (ctl_seq ctl) bytes) eqn:Er.
    + destruct (fn =? fn_read) eqn:E1; [apply N.eqb_eq in E1; intros H; apply Hread; assumption|].
      apply N.eqb_neq in E1. clear Hread. apply repeat_flag_iff in Er.
      intros H. apply finish_idle_spec in H. destruct H as [A [B [C [rest [D [E F]]]]]].
      assert (P1 : pres fidle s (rebase_if_fresh s fid)).
      { unfold rebase_if_fresh. destruct (s_select s); [|apply pres_refl].
        destruct (_ =? fid); [pres_now|apply pres_refl]. }
      assert (P2 : s_control (rebase_if_fresh s fid) = s_control s).
      { unfold rebase_if_fresh. destruct (s_select s); [|reflexivity]. destruct (_ =? fid); reflexivity. }
      split; [exact (pres_trans2 fidle ffin fidle _ _ _ eq_refl eq_refl P1 A)|].
      split; [rewrite <- P2; exact C|].
      assert (Hno : no_cb o2).
      { rewrite D. apply no_cb_app. split; [reflexivity|]. exact E. }
      constructor.
      * intros c Hin. exfalso. exact (no_cb_In _ Hno _ Hin).
      * pget FSel A. rewrite P. unfold rebase_if_fresh. destruct (s_select s) as [sel|] eqn:Es; [|left; exact Es].
        destruct ((ss_frame_id sel + 1) mod 4294967296 =? fid) eqn:Ef; [|left; exact Es].
        right. right. apply N.eqb_eq in Ef. exists sel, ctl, fn, hdrs, rh. repeat split; auto.
      * intros _ ctl' fn' hdrs' rh' Ht _ _. rewrite Et in Ht; inversion Ht; subst. exact B.
      * intros; exact Hno.
    + destruct (fn =? fn_read) eqn:E1; [apply N.eqb_eq in E1; intros H; apply Hread; assumption|].
      apply N.eqb_neq in E1. clear Hread.
      destruct (handle_non_read cfg s fn (ctl_seq ctl) fid bytes hdrs) as [[s1 r] o1] eqn:Eh.
      apply handle_non_read_spec in Eh. destruct Eh as [A0 [B0 C0]].
      intros H. apply finish_idle_spec in H. destruct H as [A [B [C [rest [D [E F]]]]]].
      split; [exact (pres_trans2 fctl ffin fidle _ _ _ eq_refl eq_refl A0 A)|].
      split; [pget FCtl A0; rewrite <- P; exact C|].
      constructor.
      * intros c Hin. rewrite D in Hin. apply in_ocb_split in Hin; [|reflexivity|exact E].
        apply B0 in Hin. destruct Hin as [H1 H2]. exists ctl, fn, hdrs, rh. split; [exact Et|].
        split; [exact H1|]. split; [intros Hc; congruence|exact H2].
      * pget FSel A. destruct C0 as [C0|C0]; [left; congruence|].
        right. left. destruct C0 as [echo [cbs [started [Hfn [Hall [Hctl [Hsel Hincl]]]]]]].
        subst fn. exists ctl, hdrs, rh. split; [reflexivity|]. split; [exact Et|].
        exists echo, cbs, started. repeat split; auto; [congruence|].
        intros x Hx. rewrite D. apply in_or_app. right. apply in_or_app. left. auto.
      * intros _ ctl' fn' hdrs' rh' Ht _ _. rewrite Et in Ht; inversion Ht; subst. exact B.
      * intros _ ctl' fn' obj' Ht Hl. rewrite Et in Ht; inversion Ht; subst. apply repeat_flag_iff in Hl. congruence.
Qed.

(* ---------- the echo depends on the state only through the handler knobs ---------- *)
Lemma item_status_ext s s' cfg mode num :
  s_sel_status s' = s_sel_status s -> s_op_status s' = s_op_status s ->
  item_status s' cfg mode num = item_status s cfg mode num.
Proof. intros H1 H2. unfold item_status. rewrite H1, H2. reflexivity. Qed.

Lemma ctl_one_header_ext s s' cfg cap mode g v prefix items :
  s_sel_status s' = s_sel_status s -> s_op_status s' = s_op_status s ->
  forall written n hs num started,
  ctl_one_header s' cfg cap mode g v prefix written n hs num started items =
  ctl_one_header s cfg cap mode g v prefix written n hs num started items.
Proof.
  intros H1 H2. induction items as [|[idx obj] rest IH]; intros written n hs num started; cbn [ctl_one_header].
  - reflexivity.
  - rewrite (item_status_ext s s' cfg mode num H1 H2).
    destruct (item_status s cfg mode num) as [st consulted].
    destruct (echo_items cap g v prefix written n hs [(idx, replace_status obj st)]) as [w1 ok].
    destruct ok; [|reflexivity]. rewrite IH. reflexivity.
Qed.

Lemma ctl_headers_ext s s' cfg cap mode hdrs :
  s_sel_status s' = s_sel_status s -> s_op_status s' = s_op_status s ->
  forall written num started,
  ctl_headers s' cfg cap mode written num started hdrs = ctl_headers s cfg cap mode written num started hdrs.
Proof.
  intros H1 H2. induction hdrs as [|h rest IH]; intros written num started; cbn [ctl_headers].
  - reflexivity.
  - destruct h; try apply IH.
    rewrite (ctl_one_header_ext s s' cfg cap mode g v prefix items H1 H2).
    destruct (ctl_one_header s cfg cap mode g v prefix written 0 (length written) num started items)
      as [[[[[w1 ok] cbs] st] num1] started1].
    destruct ok; [|reflexivity]. rewrite IH. reflexivity.
Qed.

Lemma op_matched_ext cfg s s' seq fid bytes :
  s_select s' = s_select s -> s_now s' = s_now s ->
  op_matched cfg s' seq fid bytes -> op_matched cfg s seq fid bytes.
Proof.
  intros H1 H2 [sel [A B]]. exists sel. split; [congruence|]. unfold match_operate in *. rewrite <- H2. exact B.
Qed.

Lemma sel_established_ext cfg s s' fn seq fid bytes hdrs s2 o :
  s_sel_status s' = s_sel_status s -> s_op_status s' = s_op_status s -> s_now s' = s_now s ->
  sel_established cfg s' fn seq fid bytes hdrs s2 o -> sel_established cfg s fn seq fid bytes hdrs s2 o.
Proof.
  intros H1 H2 H3 [echo [cbs [started [A [B [C [D E]]]]]]]. exists echo, cbs, started.
  rewrite (ctl_headers_ext s s' cfg _ _ hdrs H1 H2) in C. rewrite H3 in D. auto.
Qed.

(* ---------- a fragment in the unsolicited confirm wait ---------- *)
Definition funsol : list fld := [FNow; FFid; FSelSt; FOpSt; FPend; FNotify; FCtl].

Lemma unsol_wait_fragment_spec cfg s resp from bc bytes d fid s2 res o2 :
  unsol_wait_fragment cfg s resp from bc bytes d fid = (s2, res, o2) ->
  pres funsol s s2 /\ frag_spec cfg s from bc bytes d fid s2 o2.
Proof.
  unfold unsol_wait_fragment. destruct (to_treq cfg from d) as [|eseq|ctl fn obj] eqn:Et.
  - intros H; inversion H; subst. split; [apply pres_refl|].
    constructor; [intros c []|left; reflexivity|intros; congruence|intros; reflexivity].
  - destruct (write_error_response (upd_deferred s None) from bc eseq) as [s1 o] eqn:Ew.
    apply write_error_response_pres in Ew. destruct Ew as [A B]. intros H; inversion H; subst s2 res o2.
    assert (P0 : pres funsol s (upd_deferred s None)) by pres_now.
    split; [exact (pres_trans2 funsol fall funsol _ _ _ eq_refl eq_refl P0 A)|].
    constructor; [| |intros; congruence|intros; exact B].
    + intros c Hin. exfalso. exact (no_cb_In _ B _ Hin).
    + left. pget FSel A. exact P.
  - cbv zeta. destruct bc as [m|].
    { cbn [classify]. destruct (process_broadcast cfg (upd_deferred s None) m fid ctl fn bytes obj) as [s1 o1] eqn:Ep.
      apply process_broadcast_spec in Ep. destruct Ep as [A B]. intros H; inversion H; subst s2 res o2. clear H.
      assert (P0 : pres funsol s (upd_deferred s None)) by pres_now.
      split; [exact (pres_trans2 funsol fall funsol _ _ _ eq_refl eq_refl P0 A)|].
      constructor; try (intros; discriminate).
      - intros c Hin. apply B in Hin. destruct Hin as [hdrs [rh [Ho [Hf Hn]]]].
        subst obj. exists ctl, fn, hdrs, rh. split; [exact Et|]. split; [exact Hf|]. split; [intros _; exact Hn|].
        intros Hc. exfalso. tauto.
      - left. pget FSel A. exact P. }
    unfold classify. destruct (fn =? fn_confirm) eqn:E0.
    { apply N.eqb_eq in E0.
      assert (Hgen : forall s', pres funsol s s' -> s_select s' = s_select s -> forall res',
                (s', res', @nil oobs) = (s2, res, o2) \/ (exists q, (s', res', [OInfo (IUnsolConfirmed q)]) = (s2, res, o2)) ->
                pres funsol s s2 /\ frag_spec cfg s from None bytes d fid s2 o2).
      { intros s' Hp Hs res' H.
        assert (Hno : s' = s2 /\ no_cb o2 /\ forall c, ~ In (OCb c) o2).
        { destruct H as [H|[q H]]; inversion H; subst; split; try reflexivity; split; try reflexivity.
          - intros c [].
          - intros c [Hc|[]]; discriminate Hc. }
        destruct Hno as [? [Hno Hno2]]. subst s'. split; [exact Hp|].
        constructor.
        - intros c Hin. exfalso. exact (Hno2 _ Hin).
        - left; exact Hs.
        - intros _ ctl' fn' hdrs rh Ht Hn _. rewrite Et in Ht; inversion Ht; subst. congruence.
        - intros; exact Hno. }
      destruct (ctl_uns ctl).
      - destruct (ctl_seq ctl =? ctl_seq (r_ctl resp)); intros H.
        + eapply (Hgen (bcast_confirmed s true (ctl_seq ctl)));
            [eapply pres_sub; [|apply bcast_confirmed_pres]; reflexivity|apply bcast_confirmed_select|right; eexists; exact H].
        + eapply (Hgen s); [apply pres_refl|reflexivity|left; exact H].
      - intros H. eapply (Hgen (bcast_confirmed s false (ctl_seq ctl)));
          [eapply pres_sub; [|apply bcast_confirmed_pres]; reflexivity|apply bcast_confirmed_select|left; exact H]. }
    apply N.eqb_neq in E0.
    destruct obj as [iin2|hdrs rh].
    { destruct (write_solicited (upd_deferred s None) from (empty_solicited (ctl_seq ctl) iin2)) as [[s1 r1] o1] eqn:Ew.
      apply write_solicited_pres in Ew. destruct Ew as [A [B _]]. intros H; inversion H; subst s2 res o2.
      assert (P0 : pres funsol s (upd_deferred s None)) by pres_now.
      split; [exact (pres_trans2 funsol fall funsol _ _ _ eq_refl eq_refl P0 A)|].
      constructor; [| |intros; congruence|intros; exact B].
      + intros c Hin. exfalso. exact (no_cb_In _ B _ Hin).
      + left. pget FSel A. exact P. }
    change (match s_last s with Some l => (lr_seq l =? ctl_seq ctl) && bytes_eqb (lr_bytes l) bytes | None => false end)
      with (repeat_flag (s_last s) (ctl_seq ctl) bytes).
    assert (Hread : (deferred_set s bytes (ctl_seq ctl) from rh, @None unsol_result, @nil oobs) = (s2, res, o2) ->
                    fn = fn_read -> pres funsol s s2 /\ frag_spec cfg s from None bytes d fid s2 o2).
    { intros H Hfn. inversion H; subst s2 res o2. split; [unfold deferred_set; pres_now|].
      constructor.
      - intros c [].
      - left; reflexivity.
      - intros _ ctl' fn' hdrs' rh' Ht _ Hn. rewrite Et in Ht; inversion Ht; subst. congruence.
      - intros; reflexivity. }
    destruct (repeat_flag (s_last s) (ctl_seq ctl) bytes) eqn:Er.
    + destruct (fn =? fn_read) eqn:E1; [apply N.eqb_eq in E1; intros H; apply Hread; assumption|].
      apply N.eqb_neq in E1. clear Hread. apply repeat_flag_iff in Er.
      intros H; inversion H; subst s2 res o2. clear H. split; [pres_now|].
      assert (Hno : no_cb match (match s_last s with Some l => lr_response l | None => None end) with
                          | Some r => repeat_solicited s from r | None => [] end).
      { destruct (match s_last s with Some l => lr_response l | None => None end); reflexivity. }
      constructor.
      * intros c Hin. exfalso. exact (no_cb_In _ Hno _ Hin).
      * left; reflexivity.
      * intros _ ctl' fn' hdrs' rh' Ht _ _. rewrite Et in Ht; inversion Ht; subst. exact Er.
      * intros; exact Hno.
    + destruct (fn =? fn_read) eqn:E1; [apply N.eqb_eq in E1; intros H; apply Hread; assumption|].
      apply N.eqb_neq in E1. clear Hread.
      destruct (handle_non_read cfg (upd_deferred s None) fn (ctl_seq ctl) fid bytes hdrs) as [[s1 r] o1] eqn:Eh.
      apply handle_non_read_spec in Eh. destruct Eh as [A0 [B0 C0]].
      assert (P0 : pres funsol s (upd_deferred s None)) by pres_now.
      assert (Hw : exists s3 r' o3, pres fall s1 s3 /\ no_cb o3 /\
                 match r with
                 | Some r0 => let '(s2, r1, o2) := write_solicited s1 from r0 in (s2, Some r1, o2)
                 | None => (s1, None, [])
                 end = (s3, r', o3)).
      { destruct r as [r0|].
        - destruct (write_solicited s1 from r0) as [[s3 r1] o3] eqn:Ew. apply write_solicited_pres in Ew.
          destruct Ew as [A [B _]]. exists s3, (Some r1), o3. auto.
        - exists s1, None, []. split; [apply pres_refl|]. split; reflexivity. }
      destruct Hw as [s3 [r' [o3 [A3 [B3 Hw]]]]]. rewrite Hw.
      intros H; inversion H; subst s2 res o2. clear H.
      assert (P3 : pres funsol s s3).
      { apply (pres_trans2 funsol funsol funsol _ (upd_deferred s None) _ eq_refl eq_refl P0).
        exact (pres_trans2 fctl fall funsol _ _ _ eq_refl eq_refl A0 A3). }
      split; [apply (pres_trans funsol _ s3 _ P3); pres_now|].
      constructor.
      * intros c Hin. apply in_app_or in Hin. destruct Hin as [Hin|Hin]; [|exfalso; exact (no_cb_In _ B3 _ Hin)].
        apply B0 in Hin. destruct Hin as [H1 H2]. exists ctl, fn, hdrs, rh. split; [exact Et|].
        split; [exact H1|]. split; [intros Hc; congruence|].
        intros Hf. apply H2 in Hf. revert Hf. apply op_matched_ext; reflexivity.
      * pget FSel A3. prj. destruct C0 as [C0|C0]; [left; prj; congruence|].
        right. left. destruct C0 as [echo [cbs [started [Hfn [Hall [Hctl [Hsel Hincl]]]]]]].
        subst fn. exists ctl, hdrs, rh. split; [reflexivity|]. split; [exact Et|].
        apply (sel_established_ext cfg s (upd_deferred s None)); try reflexivity.
        exists echo, cbs, started. repeat split; auto; [prj; congruence|].
        intros x Hx. apply in_or_app. left. auto.
      * intros _ ctl' fn' hdrs' rh' Ht _ _. rewrite Et in Ht; inversion Ht; subst.
        eexists. split; [reflexivity|]. split; reflexivity.
      * intros _ ctl' fn' obj' Ht Hl. rewrite Et in Ht; inversion Ht; subst. apply repeat_flag_iff in Hl. congruence.
Qed.

(* ---------- quiet parts of the idle loop ---------- *)
Definition fnoctl : list fld := [FNow; FFid; FSelSt; FOpSt; FPend; FNotify; FDef; FLast; FSel; FBuf].

Lemma start_unsol_spec cfg s r is_null s1 o :
  start_unsol cfg s r is_null = (s1, o) ->
  pres fnoctl s s1 /\ no_cb o /\ exists r1 rt dl, s_control s1 = CUnsolWait r1 is_null rt dl.
Proof.
  unfold start_unsol. destruct (write_unsolicited cfg s r) as [[s0 r1] o0] eqn:E.
  apply write_unsolicited_pres in E. destruct E as [A B]. intros H; inversion H; subst.
  split; [apply (pres_trans2 fall fnoctl fnoctl _ s0 _ eq_refl eq_refl A); pres_now|].
  split; [apply no_cb_app; split; [exact B|reflexivity]|]. eexists; eexists; eexists; reflexivity.
Qed.

Lemma check_unsolicited_spec cfg s s1 ns o :
  check_unsolicited cfg s = (s1, ns, o) ->
  pres fnoctl s s1 /\ no_cb o /\
  (s_control s1 = s_control s \/ exists r1 isn rt dl, s_control s1 = CUnsolWait r1 isn rt dl).
Proof.
  unfold check_unsolicited.
  assert (Hsame : (s, false, @nil oobs) = (s1, ns, o) -> pres fnoctl s s1 /\ no_cb o /\
            (s_control s1 = s_control s \/ exists r1 isn rt dl, s_control s1 = CUnsolWait r1 isn rt dl)).
  { intros H; inversion H; subst. split; [apply pres_refl|]. split; [reflexivity|left; reflexivity]. }
  destruct (negb (o_unsol cfg)); [exact Hsame|].
  destruct (s_unsol s) as [|deadline].
  - destruct (start_unsol cfg (upd_unsol_seq s (seq16_next (s_unsol_seq s))) (unsol_header (s_unsol_seq s) 0) true)
      as [s2 o2] eqn:E.
    apply start_unsol_spec in E. destruct E as [A [B [r1 [rt [dl C]]]]]. intros H; inversion H; subst.
    split; [apply (pres_trans fnoctl _ (upd_unsol_seq s (seq16_next (s_unsol_seq s))) _); [pres_now|exact A]|].
    split; [exact B|]. right. eexists; eexists; eexists; eexists; exact C.
  - destruct (negb match deadline with Some t => (t <=? s_now s)%Z | None => true end); [exact Hsame|].
    destruct (negb (any_enabled s)); [exact Hsame|].
    destruct (ask_unsol s) as [s0 [count body]] eqn:E. apply ask_unsol_pres in E.
    destruct (s_enabled s) as [[c1 c2] c3].
    destruct (count =? 0).
    { intros H; inversion H; subst. split; [eapply pres_sub; [|exact E]; reflexivity|].
      split; [reflexivity|]. left. pget FCtl E. exact P. }
    match goal with |- context [start_unsol cfg ?S ?R false] => destruct (start_unsol cfg S R false) as [s3 o3] eqn:E3;
      assert (P3 : pres fnoctl s0 S) by pres_now end.
    apply start_unsol_spec in E3. destruct E3 as [A [B [r1 [rt [dl C]]]]]. intros H; inversion H; subst.
    split; [apply (pres_trans2 fall fnoctl fnoctl _ s0 _ eq_refl eq_refl E); eapply pres_trans; eauto|].
    split; [apply no_cb_cons; split; [reflexivity|exact B]|]. right. eexists; eexists; eexists; eexists; exact C.
Qed.

Definition fdef : list fld := [FNow; FFid; FSelSt; FOpSt; FPend; FSel].

Lemma handle_deferred_spec cfg s nosleep s1 o :
  handle_deferred cfg s nosleep = (s1, o) ->
  pres fdef s s1 /\ no_cb o /\ s_deferred s1 = None /\
  (s_deferred s = None -> s1 = s) /\
  (s_control s1 = s_control s \/ exists x dl, s_control s1 = CSolWait x dl (RStep4 nosleep)).
Proof.
  unfold handle_deferred. destruct (s_deferred s) as [d|] eqn:Ed.
  2:{ intros H; inversion H; subst. split; [apply pres_refl|]. split; [reflexivity|]. split; [exact Ed|].
      split; [reflexivity|left; reflexivity]. }
  destruct (ask_iin2 (upd_notify (upd_deferred s None) true) DbDeferredSelect) as [[sa iin2] oa] eqn:Ea.
  apply ask_iin2_pres in Ea. destruct Ea as [A1 A2].
  destruct (format_read_response sa true (df_seq d) (N.lor (df_iin2 d) iin2)) as [[[sb r] se] ob] eqn:Eb.
  apply format_read_response_pres in Eb. destruct Eb as [B1 B2].
  destruct (write_solicited sb (df_from d) r) as [[sc r'] oc] eqn:Ec.
  apply write_solicited_pres in Ec. destruct Ec as [C1 [C2 _]].
  assert (P0 : pres fdef s (upd_notify (upd_deferred s None) true)) by pres_now.
  assert (Pc : pres fdef s sc).
  { apply (pres_trans fdef _ _ _ P0). apply (pres_trans2 fall fnobuf fdef _ sa _ eq_refl eq_refl A1).
    exact (pres_trans2 fnobuf fall fnobuf _ sb _ eq_refl eq_refl B1 C1). }
  assert (Dc : s_deferred sc = None).
  { pget FDef A1. pget FDef B1. pget FDef C1. prj. congruence. }
  assert (Cc : s_control sc = s_control s).
  { pget FCtl A1. pget FCtl B1. pget FCtl C1. prj. congruence. }
  cbv zeta.
  destruct se as [x|]; [|destruct (ctl_con (r_ctl r'))]; intros H; inversion H; subst s1 o; clear H;
    (split; [apply (pres_trans fdef _ sc _ Pc); pres_now|]);
    (split; [repeat (apply no_cb_app; split); auto; reflexivity|]);
    (split; [prj; exact Dc|]); (split; [intros Hc; discriminate Hc|]);
    first [left; prj; exact Cc | right; eexists; eexists; reflexivity].
Qed.

Lemma end_unsol_spec cfg s is_null res s1 ns o :
  end_unsol cfg s is_null res = (s1, ns, o) ->
  pres fnoctl s s1 /\ no_cb o /\ s_control s1 = CIdle.
Proof.
  unfold end_unsol. destruct is_null; destruct res; intros H; inversion H; subst;
    (split; [pres_now|split; reflexivity]).
Qed.

(* ---------- idle_run: at most one fragment is processed, everything else is quiet ---------- *)
Definition fq : list fld := [FNow; FFid; FSelSt; FOpSt; FSel].

Definition quiet (s s' : ostate) (o : list oobs) : Prop :=
  pres fq s s' /\ no_cb o /\ (s_deferred s = None -> s_deferred s' = None /\ s_last s' = s_last s).

Lemma quiet_refl s : quiet s s [].
Proof. split; [apply pres_refl|]. split; [reflexivity|auto]. Qed.

Lemma quiet_trans s1 s2 s3 o1 o2 : quiet s1 s2 o1 -> quiet s2 s3 o2 -> quiet s1 s3 (o1 ++ o2).
Proof.
  intros [A1 [B1 C1]] [A2 [B2 C2]]. split; [eapply pres_trans; eauto|]. split; [apply no_cb_app; auto|].
  intros H. destruct (C1 H) as [D1 L1]. destruct (C2 D1) as [D2 L2]. split; [exact D2|congruence].
Qed.

Lemma quiet_of_pres fs s s' o :
  fsub [FNow; FFid; FSelSt; FOpSt; FSel; FDef; FLast] fs = true -> pres fs s s' -> no_cb o -> quiet s s' o.
Proof.
  intros Hs Hp Hn. apply (pres_sub _ _ _ _ Hs) in Hp. split; [eapply pres_sub; [|exact Hp]; reflexivity|].
  split; [exact Hn|]. pget FDef Hp. pget FLast Hp. intros H. split; congruence.
Qed.

Definition frag : Type := (N * option bcast_mode * list N * digest * N)%type.

Definition proc (cfg : ocfg) (sm : ostate) (fr : frag) (s2 : ostate) (o2 : list oobs) : Prop :=
  let '(from, bc, bytes, d, fid) := fr in
  handle_from_idle cfg sm from bc bytes d fid = (s2, o2) \/
  exists resp res, unsol_wait_fragment cfg sm resp from bc bytes d fid = (s2, res, o2).

Definition ir_res (cfg : ocfg) (s s' : ostate) (out : list oobs) : Prop :=
  (quiet s s' out /\ s_pending s' = s_pending s) \/
  (exists fr sm s2 o1 o2 o3, s_pending s = Some fr /\ quiet s sm o1 /\ s_pending sm = None /\
     proc cfg sm fr s2 o2 /\ quiet s2 s' o3 /\ s_pending s' = None /\ out = o1 ++ o2 ++ o3).

Lemma ir_res_before cfg s s1 s' oa ob :
  quiet s s1 oa -> s_pending s1 = s_pending s -> ir_res cfg s1 s' ob -> ir_res cfg s s' (oa ++ ob).
Proof.
  intros Hq Hp [[Hq1 Hp1]|[fr [sm [s2 [o1 [o2 [o3 [P1 [Q1 [P2 [Hpr [Q2 [P3 Ho]]]]]]]]]]]]].
  - left. split; [eapply quiet_trans; eauto|congruence].
  - right. exists fr, sm, s2, (oa ++ o1), o2, o3. split; [congruence|]. split; [eapply quiet_trans; eauto|].
    split; [exact P2|]. split; [exact Hpr|]. split; [exact Q2|]. split; [exact P3|]. rewrite Ho, <- app_assoc. reflexivity.
Qed.

Lemma ir_res_none_quiet cfg s s' out :
  s_pending s = None -> ir_res cfg s s' out -> quiet s s' out /\ s_pending s' = None.
Proof.
  intros Hp [[Hq Hp1]|[fr [sm [s2 [o1 [o2 [o3 [P1 _]]]]]]]]; [split; [exact Hq|congruence]|congruence].
Qed.

Lemma proc_pending cfg sm fr s2 o2 : proc cfg sm fr s2 o2 -> s_pending s2 = s_pending sm.
Proof.
  destruct fr as [[[[from bc] bytes] d] fid]. intros [H|[resp [res H]]].
  - apply handle_from_idle_spec in H. destruct H as [A _]. pget FPend A. exact P.
  - apply unsol_wait_fragment_spec in H. destruct H as [A _]. pget FPend A. exact P.
Qed.

Lemma idle_run_safe cfg : forall f st s s' out, idle_run f cfg st s = (s', out) -> ir_res cfg s s' out.
Proof.
  induction f as [|f IH]; intros st s s' out H.
  { cbn [idle_run] in H. inversion H; subst. left. split; [|reflexivity].
    split; [apply pres_refl|]. split; [reflexivity|auto]. }
  cbn [idle_run] in H. destruct st as [| |ns|ns].
  - (* St1 *)
    destruct (s_pending s) as [[[[[from bc] bytes] d] fid]|] eqn:Ep.
    + destruct (handle_from_idle cfg (upd_pending s None) from bc bytes d fid) as [s1 o1] eqn:Eh.
      assert (Hpr : proc cfg (upd_pending s None) (from, bc, bytes, d, fid) s1 o1) by (left; exact Eh).
      assert (Hp1 : s_pending s1 = None) by (rewrite (proc_pending _ _ _ _ _ Hpr); reflexivity).
      assert (Hq0 : quiet s (upd_pending s None) []).
      { apply (quiet_of_pres [FNow; FFid; FSelSt; FOpSt; FSel; FDef; FLast]); [reflexivity| |reflexivity]. pres_now. }
      destruct (s_control s1) eqn:Ec.
      * destruct (idle_run f cfg St2 s1) as [s2 o2] eqn:Er. inversion H; subst s' out. clear H.
        apply IH in Er. apply (ir_res_none_quiet _ _ _ _ Hp1) in Er. destruct Er as [Q2 P2].
        right. exists (from, bc, bytes, d, fid), (upd_pending s None), s1, [], o1, o2.
        split; [exact Ep|]. split; [exact Hq0|]. split; [reflexivity|]. split; [exact Hpr|].
        split; [exact Q2|]. split; [exact P2|reflexivity].
      * inversion H; subst s' out. clear H.
        right. exists (from, bc, bytes, d, fid), (upd_pending s None), s1, [], o1, [].
        rewrite app_nil_r. split; [exact Ep|]. split; [exact Hq0|]. split; [reflexivity|]. split; [exact Hpr|].
        split; [apply quiet_refl|]. split; [exact Hp1|reflexivity].
      * inversion H; subst s' out. clear H.
        right. exists (from, bc, bytes, d, fid), (upd_pending s None), s1, [], o1, [].
        rewrite app_nil_r. split; [exact Ep|]. split; [exact Hq0|]. split; [reflexivity|]. split; [exact Hpr|].
        split; [apply quiet_refl|]. split; [exact Hp1|reflexivity].
    + destruct (s_control s) eqn:Ec.
      * destruct (idle_run f cfg St2 s) as [s2 o2] eqn:Er. inversion H; subst s' out. apply IH in Er. exact Er.
      * inversion H; subst. left. split; [apply quiet_refl|reflexivity].
      * inversion H; subst. left. split; [apply quiet_refl|reflexivity].
  - (* St2 *)
    destruct (check_unsolicited cfg s) as [[s2 ns2] o2] eqn:Ecu.
    apply check_unsolicited_spec in Ecu. destruct Ecu as [A [B C]].
    assert (Hq : quiet s s2 o2) by (apply (quiet_of_pres fnoctl); auto).
    assert (Hp : s_pending s2 = s_pending s) by (pget FPend A; exact P).
    destruct (s_control s2) as [|se dl rs|resp is_null rt dl] eqn:Ec.
    + destruct (idle_run f cfg (St3 false) s2) as [s3 o3] eqn:Er. inversion H; subst s' out.
      apply IH in Er. eapply ir_res_before; eauto.
    + inversion H; subst s' out. left. split; [exact Hq|exact Hp].
    + destruct (s_pending s2) as [[[[[from bc] bytes] d] fid]|] eqn:Ep2.
      2:{ inversion H; subst s' out. left. split; [exact Hq|congruence]. }
      destruct (unsol_wait_fragment cfg (upd_pending s2 None) resp from bc bytes d fid) as [[s3 res] o3] eqn:Eu.
      assert (Hpr : proc cfg (upd_pending s2 None) (from, bc, bytes, d, fid) s3 o3) by (right; eauto).
      assert (Hp3 : s_pending s3 = None) by (rewrite (proc_pending _ _ _ _ _ Hpr); reflexivity).
      assert (Hq0 : quiet s (upd_pending s2 None) (o2 ++ [])).
      { eapply quiet_trans; [exact Hq|]. apply (quiet_of_pres [FNow; FFid; FSelSt; FOpSt; FSel; FDef; FLast]); [reflexivity| |reflexivity]. pres_now. }
      rewrite app_nil_r in Hq0.
      destruct res as [r|].
      * destruct (end_unsol cfg s3 is_null r) as [[s4 ns4] o4] eqn:Ee.
        apply end_unsol_spec in Ee. destruct Ee as [A4 [B4 C4]].
        destruct (idle_run f cfg (St3 ns4) s4) as [s5 o5] eqn:Er. inversion H; subst s' out. clear H.
        apply IH in Er.
        assert (Hp4 : s_pending s4 = None) by (pget FPend A4; congruence).
        apply (ir_res_none_quiet _ _ _ _ Hp4) in Er. destruct Er as [Q5 P5].
        right. exists (from, bc, bytes, d, fid), (upd_pending s2 None), s3, o2, o3, (o4 ++ o5).
        split; [congruence|]. split; [exact Hq0|]. split; [reflexivity|]. split; [exact Hpr|].
        split; [eapply quiet_trans; [|exact Q5]; apply (quiet_of_pres fnoctl); auto|]. split; [exact P5|reflexivity].
      * inversion H; subst s' out. clear H.
        right. exists (from, bc, bytes, d, fid), (upd_pending s2 None), s3, o2, o3, [].
        split; [congruence|]. split; [exact Hq0|]. split; [reflexivity|]. split; [exact Hpr|].
        split; [apply quiet_refl|]. split; [exact Hp3|]. rewrite app_nil_r. reflexivity.
  - (* St3 *)
    destruct (handle_deferred cfg s ns) as [s3 o3] eqn:Ed.
    apply handle_deferred_spec in Ed. destruct Ed as [A [B [C [D E]]]].
    assert (Hq : quiet s s3 o3).
    { split; [eapply pres_sub; [|exact A]; reflexivity|]. split; [exact B|]. intros Hn. rewrite (D Hn). auto. }
    assert (Hp : s_pending s3 = s_pending s) by (pget FPend A; exact P).
    destruct (s_control s3) eqn:Ec.
    + destruct (idle_run f cfg (St4 ns) s3) as [s4 o4] eqn:Er. inversion H; subst s' out.
      apply IH in Er. eapply ir_res_before; eauto.
    + inversion H; subst s' out. left. split; [exact Hq|exact Hp].
    + inversion H; subst s' out. left. split; [exact Hq|exact Hp].
  - (* St4 *)
    destruct (s_pending s) eqn:Ep; [apply IH in H; exact H|].
    destruct ns; [apply IH in H; exact H|].
    destruct (s_notify s).
    + apply IH in H. change out with ([] ++ out). eapply ir_res_before; [| |exact H]; [|reflexivity].
      apply (quiet_of_pres [FNow; FFid; FSelSt; FOpSt; FSel; FDef; FLast]); [reflexivity| |reflexivity]. pres_now.
    + inversion H; subst. left. split; [apply quiet_refl|reflexivity].
Qed.

(* ---------- idle_run: the fuel suffices, nothing stays pending ---------- *)
Definition is_unsol_wait (c : control) : Prop := match c with CUnsolWait _ _ _ _ => True | _ => False end.

Definition J (s : ostate) : Prop :=
  s_pending s = None /\ (s_deferred s = None \/ is_unsol_wait (s_control s)).

Definition b2 (b : bool) : nat := if b then 1%nat else 0%nat.
Definition pflag (s : ostate) : bool := match s_pending s with Some _ => true | None => false end.
Definition dflag (s : ostate) : bool := match s_deferred s with Some _ => true | None => false end.

Definition need (st : stage) (p n d : bool) : nat :=
  match st with
  | St1 => 4 + 4 * b2 (n || d)
  | St2 => if p then 11 else 3 + 4 * b2 (n || d)
  | St3 ns => 2 + 4 * (b2 (p || ns) + b2 (n || d))
  | St4 ns => 1 + 4 * (b2 (p || ns) + b2 n)
  end%nat.

Definition pre (st : stage) (s : ostate) : Prop :=
  s_control s = CIdle /\
  match st with
  | St3 _ => s_pending s = None \/ s_deferred s = None
  | _ => s_deferred s = None
  end.

Lemma handle_deferred_notify cfg s ns s1 o :
  handle_deferred cfg s ns = (s1, o) -> s_deferred s <> None -> s_notify s1 = true.
Proof.
  unfold handle_deferred. destruct (s_deferred s) as [d|] eqn:Ed; [|congruence]. intros H _. revert H.
  destruct (ask_iin2 (upd_notify (upd_deferred s None) true) DbDeferredSelect) as [[sa iin2] oa] eqn:Ea.
  apply ask_iin2_pres in Ea. destruct Ea as [A1 A2].
  destruct (format_read_response sa true (df_seq d) (N.lor (df_iin2 d) iin2)) as [[[sb r] se] ob] eqn:Eb.
  apply format_read_response_pres in Eb. destruct Eb as [B1 B2].
  destruct (write_solicited sb (df_from d) r) as [[sc r'] oc] eqn:Ec.
  apply write_solicited_pres in Ec. destruct Ec as [C1 [C2 _]].
  assert (Nc : s_notify sc = true).
  { pget FNotify A1. pget FNotify B1. pget FNotify C1. prj. congruence. }
  cbv zeta. destruct se as [x|]; [|destruct (ctl_con (r_ctl r'))]; intros H; inversion H; subst; prj; exact Nc.
Qed.

Lemma b2_le1 b : (b2 b <= 1)%nat.
Proof. destruct b; cbn; lia. Qed.

Lemma idle_run_J cfg : forall f st s s' out,
  (need st (pflag s) (s_notify s) (dflag s) <= f)%nat -> pre st s ->
  idle_run f cfg st s = (s', out) -> J s'.
Proof.
  induction f as [|f IH]; intros st s s' out Hn [Hc Hpre] H.
  { exfalso. destruct st; cbn [need] in Hn; try lia. destruct (pflag s); lia. }
  cbn [idle_run] in H. destruct st as [| |ns|ns].
  - (* St1 *)
    destruct (s_pending s) as [[[[[from bc] bytes] d] fid]|] eqn:Ep.
    + destruct (handle_from_idle cfg (upd_pending s None) from bc bytes d fid) as [s1 o1] eqn:Eh.
      apply handle_from_idle_spec in Eh. destruct Eh as [A [B _]]. prj.
      pget FPend A. pget FNotify A. pget FDef A. prj.
      destruct B as [B|[x [dl B]]].
      * rewrite B, Hc in H. destruct (idle_run f cfg St2 s1) as [s2 o2] eqn:Er. inversion H; subst s' out.
        eapply (IH St2 s1); [|split; [congruence|congruence]|exact Er].
        unfold pflag, dflag in *. rewrite P, P0, P1. rewrite Hpre in *. cbn [need] in *. lia.
      * rewrite B in H. inversion H; subst s' out. split; [exact P|left; congruence].
    + rewrite Hc in H. destruct (idle_run f cfg St2 s) as [s2 o2] eqn:Er. inversion H; subst s' out.
      eapply (IH St2 s); [|split; assumption|exact Er].
      unfold pflag, dflag in *. rewrite Ep, Hpre in *. cbn [need] in *. lia.
  - (* St2 *)
    destruct (check_unsolicited cfg s) as [[s2 ns2] o2] eqn:Ecu.
    apply check_unsolicited_spec in Ecu. destruct Ecu as [A [_ C]].
    pget FPend A. pget FNotify A. pget FDef A.
    destruct C as [C|[r1 [isn [rt [dl C]]]]].
    + rewrite C, Hc in H. destruct (idle_run f cfg (St3 false) s2) as [s3 o3] eqn:Er. inversion H; subst s' out.
      eapply (IH (St3 false) s2); [|split; [congruence|right; congruence]|exact Er].
      unfold pflag, dflag in *. rewrite P, P0, P1. rewrite Hpre in *. cbn [need] in *.
      destruct (s_pending s); cbn [b2 orb] in *; pose proof (b2_le1 (s_notify s || false)); lia.
    + rewrite C in H. destruct (s_pending s2) as [[[[[from bc] bytes] d] fid]|] eqn:Ep2.
      2:{ inversion H; subst s' out. split; [exact Ep2|right; rewrite C; exact I]. }
      destruct (unsol_wait_fragment cfg (upd_pending s2 None) r1 from bc bytes d fid) as [[s3 res] o3] eqn:Eu.
      apply unsol_wait_fragment_spec in Eu. destruct Eu as [A3 _].
      pget FPend A3. pget FNotify A3. pget FCtl A3. prj.
      destruct res as [r|].
      * destruct (end_unsol cfg s3 isn r) as [[s4 ns4] o4] eqn:Ee.
        apply end_unsol_spec in Ee. destruct Ee as [A4 [_ C4]].
        pget FPend A4. pget FNotify A4.
        destruct (idle_run f cfg (St3 ns4) s4) as [s5 o5] eqn:Er. inversion H; subst s' out.
        eapply (IH (St3 ns4) s4); [|split; [exact C4|left; congruence]|exact Er].
        assert (Hp : pflag s = true) by (unfold pflag; rewrite <- P; reflexivity).
        rewrite Hp in Hn. cbn [need] in Hn |- *.
        assert (Hp4 : pflag s4 = false) by (unfold pflag; rewrite P5, P2; reflexivity).
        rewrite Hp4. cbn [orb]. pose proof (b2_le1 ns4). pose proof (b2_le1 (s_notify s4 || dflag s4)). lia.
      * inversion H; subst s' out. split; [exact P2|right; rewrite P4, C; exact I].
  - (* St3 *)
    destruct (handle_deferred cfg s ns) as [s3 o3] eqn:Ed.
    pose proof (handle_deferred_notify _ _ _ _ _ Ed) as Hnot.
    apply handle_deferred_spec in Ed. destruct Ed as [A [_ [D [E F]]]].
    pget FPend A.
    destruct F as [F|[x [dl F]]].
    + rewrite F, Hc in H. destruct (idle_run f cfg (St4 ns) s3) as [s4 o4] eqn:Er. inversion H; subst s' out.
      eapply (IH (St4 ns) s3); [|split; [congruence|exact D]|exact Er].
      unfold pflag, dflag in *. rewrite P. cbn [need] in *.
      destruct (s_deferred s) as [dd|] eqn:Edd.
      * rewrite Hnot by discriminate. rewrite orb_true_r in Hn. cbn [b2] in *. lia.
      * rewrite (E eq_refl). rewrite orb_false_r in Hn. lia.
    + rewrite F in H. inversion H; subst s' out. split; [|left; exact D].
      rewrite P. destruct Hpre as [Hpre|Hpre]; [exact Hpre|]. rewrite (E Hpre) in F. congruence.
  - (* St4 *)
    destruct (s_pending s) as [fr|] eqn:Ep.
    + eapply (IH St1 s); [|split; assumption|exact H].
      unfold pflag, dflag in *. rewrite Ep, Hpre in *. cbn [need orb b2] in *. rewrite orb_false_r. lia.
    + destruct ns.
      * eapply (IH St1 s); [|split; assumption|exact H].
        unfold pflag, dflag in *. rewrite Ep, Hpre in *. cbn [need orb b2] in *. rewrite orb_false_r. lia.
      * destruct (s_notify s) eqn:En.
        -- eapply (IH St1 (upd_notify s false)); [|split; assumption|exact H].
           unfold pflag, dflag in *. prj. rewrite Hpre. rewrite Ep in Hn. cbn [need orb b2] in *. lia.
        -- inversion H; subst. split; [exact Ep|left; exact Hpre].
Qed.

Lemma need_le st p n d : (need st p n d <= 12)%nat.
Proof. destruct st as [| |ns|ns]; try destruct ns; destruct p, n, d; cbn; lia. Qed.

Lemma idle_run32_J cfg st s s' out : pre st s -> idle_run 32 cfg st s = (s', out) -> J s'.
Proof.
  intros Hp H. eapply idle_run_J; [|exact Hp|exact H].
  pose proof (need_le st (pflag s) (s_notify s) (dflag s)). lia.
Qed.

Lemma idle_loop8 cfg s : idle_loop 8 cfg s = idle_run 32 cfg St1 s.
Proof. reflexivity. Qed.

Lemma stage_of_pre r s : s_control s = CIdle -> s_deferred s = None -> pre (stage_of r) s.
Proof. intros H1 H2. destruct r; split; assumption. Qed.

(* quiet up to the clock *)
Definition fqt : list fld := [FFid; FSelSt; FOpSt; FSel].

Definition quietT (s s' : ostate) (o : list oobs) : Prop :=
  pres fqt s s' /\ no_cb o /\ (s_deferred s = None -> s_deferred s' = None /\ s_last s' = s_last s).

Lemma quiet_quietT s s' o : quiet s s' o -> quietT s s' o.
Proof. intros [A [B C]]. split; [eapply pres_sub; [|exact A]; reflexivity|auto]. Qed.

Lemma quietT_refl s : quietT s s [].
Proof. apply quiet_quietT, quiet_refl. Qed.

Lemma quietT_trans s1 s2 s3 o1 o2 : quietT s1 s2 o1 -> quietT s2 s3 o2 -> quietT s1 s3 (o1 ++ o2).
Proof.
  intros [A1 [B1 C1]] [A2 [B2 C2]]. split; [eapply pres_trans; eauto|]. split; [apply no_cb_app; auto|].
  intros H. destruct (C1 H) as [D1 L1]. destruct (C2 D1) as [D2 L2]. split; [exact D2|congruence].
Qed.

Lemma quietT_upd_now s t : quietT s (upd_now s t) [].
Proof. split; [pres_now|]. split; [reflexivity|]. intros H. prj. auto. Qed.

Lemma J_upd_now s t : J s -> J (upd_now s t).
Proof. intros H. exact H. Qed.

(* ---------- deadlines ---------- *)
Lemma resume_at_spec cfg st s s' o :
  pre st s -> s_pending s = None -> resume_at cfg st s = (s', o) -> quiet s s' o /\ J s'.
Proof.
  unfold resume_at. intros Hpre Hp H. split.
  - apply idle_run_safe in H. apply ir_res_none_quiet in H; [|exact Hp]. apply H.
  - eapply idle_run32_J; eauto.
Qed.

Lemma idle_loop_spec cfg s s' o :
  pre St1 s -> s_pending s = None -> idle_loop 8 cfg s = (s', o) -> quiet s s' o /\ J s'.
Proof.
  rewrite idle_loop8. intros Hpre Hp H. split.
  - apply idle_run_safe in H. apply ir_res_none_quiet in H; [|exact Hp]. apply H.
  - eapply idle_run32_J; eauto.
Qed.

Lemma fire_deadline_spec cfg s s' o :
  J s -> fire_deadline cfg s = (s', o) -> quiet s s' o /\ J s'.
Proof.
  intros [Jp Jd] H. unfold fire_deadline in H. destruct (s_control s) as [|se dl r|resp is_null retries dl] eqn:Ec.
  - destruct Jd as [Jd|Jd]; [|destruct Jd].
    eapply resume_at_spec; [|exact Jp|exact H]. split; assumption.
  - destruct Jd as [Jd|Jd]; [|destruct Jd].
    destruct (resume_at cfg (stage_of r) (upd_control s CIdle)) as [s1 o1] eqn:Er.
    inversion H; subst s' o. clear H.
    assert (Hq0 : quiet s (upd_control s CIdle) [OInfo (ISolTimeout (se_ecsn se)); ODb DbReset]).
    { apply (quiet_of_pres [FNow; FFid; FSelSt; FOpSt; FSel; FDef; FLast]); [reflexivity|pres_now|reflexivity]. }
    apply resume_at_spec in Er; [|apply stage_of_pre; [reflexivity|exact Jd]|exact Jp].
    destruct Er as [Q1 J1]. split; [|exact J1].
    exact (quiet_trans _ _ _ _ _ Hq0 Q1).
  - set (can_retry := match retries with Some 0%nat => false | _ => true end) in H.
    destruct (can_retry && match s_deferred s with Some _ => false | None => true end).
    + inversion H; subst s' o. clear H. split.
      * apply (quiet_of_pres [FNow; FFid; FSelSt; FOpSt; FSel; FDef; FLast]); [reflexivity|pres_now|reflexivity].
      * split; [exact Jp|right; exact I].
    + destruct (end_unsol cfg s is_null UrTimeout) as [[s1 ns] o1] eqn:Ee.
      apply end_unsol_spec in Ee. destruct Ee as [A [B C]].
      destruct (resume_at cfg (St3 ns) s1) as [s2 o2] eqn:Er.
      inversion H; subst s' o. clear H.
      assert (Hp1 : s_pending s1 = None) by (pget FPend A; congruence).
      apply resume_at_spec in Er; [|split; [exact C|left; exact Hp1]|exact Hp1].
      destruct Er as [Q2 J2]. split; [|exact J2].
      assert (Q0 : quiet s s [OInfo (IUnsolTimeout (ctl_seq (r_ctl resp)) false)]).
      { apply (quiet_of_pres fall); [reflexivity|apply pres_refl|reflexivity]. }
      assert (Q1 : quiet s s1 o1) by (apply (quiet_of_pres fnoctl); [reflexivity|exact A|exact B]).
      exact (quiet_trans _ _ _ _ _ Q0 (quiet_trans _ _ _ _ _ Q1 Q2)).
Qed.

Lemma advance_spec cfg target : forall f s s' o,
  J s -> advance f cfg s target = (s', o) -> quietT s s' o /\ J s' /\ s_now s' = target.
Proof.
  induction f as [|f IH]; intros s s' o HJ H; cbn [advance] in H.
  { inversion H; subst. split; [|split; [exact HJ|reflexivity]].
    split; [pres_now|]. split; [reflexivity|]. intros Hd; prj; auto. }
  destruct (next_deadline cfg s) as [dl|].
  2:{ inversion H; subst. split; [apply quietT_upd_now|split; [exact HJ|reflexivity]]. }
  destruct (dl <=? target)%Z.
  2:{ inversion H; subst. split; [apply quietT_upd_now|split; [exact HJ|reflexivity]]. }
  destruct (fire_deadline cfg (upd_now s (Z.max dl (s_now s)))) as [s1 o1] eqn:Ef.
  apply fire_deadline_spec in Ef; [|exact HJ]. destruct Ef as [Q1 J1].
  destruct (advance f cfg s1 target) as [s2 o2] eqn:Ea. inversion H; subst s' o. clear H.
  apply IH in Ea; [|exact J1]. destruct Ea as [Q2 [J2 N2]].
  split; [|split; assumption].
  change (OAt (Z.max dl (s_now s)) :: o1 ++ o2) with ([OAt (Z.max dl (s_now s))] ++ o1 ++ o2).
  eapply quietT_trans; [|eapply quietT_trans; [apply quiet_quietT; exact Q1|exact Q2]].
  split; [pres_now|]. split; [reflexivity|]. intros Hd; prj; auto.
Qed.

(* ---------- a fragment in the solicited confirm wait ---------- *)
Definition skipped (cfg : ocfg) (from : N) (bc : option bcast_mode) (d : digest) : Prop :=
  to_treq cfg from d = TqNone \/
  exists ctl fn obj, to_treq cfg from d = TqRequest ctl fn obj /\ bc = None /\ (fn = fn_confirm \/ fn = fn_read).

Lemma sol_wait_fragment_spec cfg s se dl from bc bytes d out o :
  sol_wait_fragment cfg s se dl from bc bytes d = (out, o) ->
  no_cb o /\ (out = SoNewRequest \/ skipped cfg from bc d).
Proof.
  unfold sol_wait_fragment, skipped. destruct (to_treq cfg from d) as [|eseq|ctl fn obj] eqn:Et.
  - intros H; inversion H; subst. split; [reflexivity|right; left; reflexivity].
  - intros H; inversion H; subst. split; [reflexivity|left; reflexivity].
  - destruct bc as [m|]; [cbn [classify]; intros H; inversion H; subst; split; [reflexivity|left; reflexivity]|].
    unfold classify. destruct (fn =? fn_confirm) eqn:E0.
    { apply N.eqb_eq in E0.
      assert (Hsk : exists ctl0 fn0 obj0, TqRequest ctl fn obj = TqRequest ctl0 fn0 obj0 /\ @None bcast_mode = None /\ (fn0 = fn_confirm \/ fn0 = fn_read)).
      { exists ctl, fn, obj. auto. }
      destruct (ctl_uns ctl).
      - intros H; inversion H; subst. split; [reflexivity|right; right; exact Hsk].
      - destruct (ctl_seq ctl =? se_ecsn se); intros H; inversion H; subst; (split; [reflexivity|right; right; exact Hsk]). }
    destruct obj as [iin2|hdrs rh]; [intros H; inversion H; subst; split; [reflexivity|left; reflexivity]|].
    destruct (match s_last s with Some l => (lr_seq l =? ctl_seq ctl) && bytes_eqb (lr_bytes l) bytes | None => false end).
    + destruct (fn =? fn_read) eqn:E1.
      * apply N.eqb_eq in E1. intros H; inversion H; subst out o. split.
        -- destruct (match s_last s with Some l => lr_response l | None => None end); reflexivity.
        -- right. right. exists ctl, fn, (ObjOk hdrs rh). auto.
      * intros H; inversion H; subst; split; [reflexivity|left; reflexivity].
    + destruct (fn =? fn_read); intros H; inversion H; subst; split; try reflexivity; left; reflexivity.
Qed.

(* ---------- on_rx ---------- *)
Lemma resume_at_proc cfg st s s' o :
  pre st s -> resume_at cfg st s = (s', o) -> ir_res cfg s s' o /\ J s'.
Proof.
  unfold resume_at. intros Hpre H. split; [eapply idle_run_safe; eauto|eapply idle_run32_J; eauto].
Qed.

Lemma idle_loop_proc cfg s s' o :
  pre St1 s -> idle_loop 8 cfg s = (s', o) -> ir_res cfg s s' o /\ J s'.
Proof.
  rewrite idle_loop8. intros Hpre H. split; [eapply idle_run_safe; eauto|eapply idle_run32_J; eauto].
Qed.

Definition fproc : list fld := [FNow; FFid; FSelSt; FOpSt; FPend].

Lemma proc_pres cfg sm fr s2 o2 : proc cfg sm fr s2 o2 -> pres fproc sm s2.
Proof.
  destruct fr as [[[[from bc] bytes] d] fid]. intros [H|[resp [res H]]].
  - apply handle_from_idle_spec in H. destruct H as [A _]. eapply pres_sub; [|exact A]. reflexivity.
  - apply unsol_wait_fragment_spec in H. destruct H as [A _]. eapply pres_sub; [|exact A]. reflexivity.
Qed.

Definition rx_mid (s sm : ostate) (fid : N) : Prop :=
  s_frame_id sm = fid /\ s_now sm = s_now s /\ s_sel_status sm = s_sel_status s /\
  s_op_status sm = s_op_status s /\ s_select sm = s_select s /\ s_last sm = s_last s /\ s_pending sm = None.

Definition rx_res (Q : ostate -> ostate -> list oobs -> Prop) (cfg : ocfg) (s : ostate) (from : N)
           (bc : option bcast_mode) (bytes : list N) (d : digest) (fid : N) (s' : ostate) (out : list oobs) : Prop :=
  (no_cb out /\ s_select s' = s_select s /\ skipped cfg from bc d) \/
  (exists sm s2 o1 o2 o3, out = o1 ++ o2 ++ o3 /\ no_cb o1 /\ rx_mid s sm fid /\
     proc cfg sm (from, bc, bytes, d, fid) s2 o2 /\
     (s_deferred sm = None \/ exists resp res, unsol_wait_fragment cfg sm resp from bc bytes d fid = (s2, res, o2)) /\
     Q s2 s' o3).

Definition frx : list fld := [FNow; FSelSt; FOpSt].

Lemma frx_intro s s' :
  s_now s' = s_now s -> s_sel_status s' = s_sel_status s -> s_op_status s' = s_op_status s -> pres frx s s'.
Proof. intros. unfold pres, frx. repeat constructor; assumption. Qed.


(* the common part: a pending fragment run through the idle loop *)
Lemma pending_run cfg s s1 fid from bc bytes d s' o oa :
  J s -> s_deferred s = None ->
  pres [FNow; FSelSt; FOpSt; FSel; FDef; FLast] s s1 -> s_frame_id s1 = fid ->
  s_pending s1 = Some (from, bc, bytes, d, fid) -> no_cb oa ->
  ir_res cfg s1 s' o -> J s' ->
  pres frx s s' /\ s_frame_id s' = fid /\ rx_res quiet cfg s from bc bytes d fid s' (oa ++ o).
Proof.
  intros HJ Hd P1 F1 Hp1 Hoa Hir HJ'.
  destruct Hir as [[_ Hp]|[fr [sm [s2 [o1 [o2 [o3 [Pa [Qa [Pb [Hpr [Qb [Pc Ho]]]]]]]]]]]]].
  { exfalso. destruct HJ' as [HJ' _]. congruence. }
  rewrite Hp1 in Pa. inversion Pa; subst fr. clear Pa.
  pose proof (proc_pres _ _ _ _ _ Hpr) as P2.
  destruct Qa as [Qa1 [Qa2 Qa3]]. destruct Qb as [Qb1 [Qb2 Qb3]].
  pget FNow P1. pget FSelSt P1. pget FOpSt P1. pget FSel P1. pget FDef P1. pget FLast P1.
  pget FNow Qa1. pget FFid Qa1. pget FSelSt Qa1. pget FOpSt Qa1. pget FSel Qa1.
  pget FNow P2. pget FFid P2. pget FSelSt P2. pget FOpSt P2.
  pget FNow Qb1. pget FFid Qb1. pget FSelSt Qb1. pget FOpSt Qb1.
  assert (Hd1 : s_deferred s1 = None) by congruence.
  destruct (Qa3 Hd1) as [Dm Lm].
  split; [apply frx_intro; congruence|].
  split; [congruence|].
  right. exists sm, s2, (oa ++ o1), o2, o3.
  split; [rewrite Ho, <- app_assoc; reflexivity|]. split; [apply no_cb_app; auto|].
  split; [unfold rx_mid; repeat split; congruence|]. split; [exact Hpr|]. split; [left; exact Dm|].
  split; [exact Qb1|auto].
Qed.

Lemma on_rx_spec cfg s from bc bytes d s' out :
  J s -> on_rx cfg s from bc bytes d = (s', out) ->
  let fid := (s_frame_id s + 1) mod 4294967296 in
  J s' /\ pres frx s s' /\ s_frame_id s' = fid /\ rx_res quiet cfg s from bc bytes d fid s' out.
Proof.
  intros HJ H fid. pose proof HJ as [Jp Jd]. unfold on_rx in H. fold fid in H.
  set (s0 := upd_frame_id s fid) in *.
  assert (P0 : pres [FNow; FSelSt; FOpSt; FSel; FDef; FLast; FPend; FCtl; FNotify] s s0) by (subst s0; pres_now).
  change (s_control s0) with (s_control s) in H.
  destruct (s_control s) as [|se dl r|resp is_null retries dl] eqn:Ec.
  - (* idle *)
    destruct Jd as [Jd|Jd]; [|destruct Jd].
    apply idle_loop_proc in H; [|split; [exact Ec|exact Jd]]. destruct H as [Hir HJ'].
    split; [exact HJ'|].
    change out with ([] ++ out).
    eapply (pending_run cfg s (upd_pending s0 (Some (from, bc, bytes, d, fid)))); eauto; try reflexivity.
    subst s0. pres_now.
  - (* solicited confirm wait *)
    destruct Jd as [Jd|Jd]; [|destruct Jd].
    destruct (sol_wait_fragment cfg s0 se dl from bc bytes d) as [outc o] eqn:Es.
    apply sol_wait_fragment_spec in Es. destruct Es as [Ho Hsk].
    destruct outc as [dl'|respond_to|].
    + destruct Hsk as [Hsk|Hsk]; [discriminate Hsk|]. inversion H; subst s' out. clear H.
      split; [split; [exact Jp|left; exact Jd]|]. split; [subst s0; pres_now|]. split; [reflexivity|].
      left. split; [exact Ho|]. split; [reflexivity|exact Hsk].
    + destruct Hsk as [Hsk|Hsk]; [discriminate Hsk|].
      set (s1 := upd_last_bcast s0 None) in *.
      assert (P1 : pres [FNow; FSelSt; FOpSt; FSel; FDef; FLast; FPend; FCtl; FNotify] s s1) by (subst s1 s0; pres_now).
      assert (F1 : s_frame_id s1 = fid) by reflexivity.
      pose proof P1 as P1'.
      pget FNow P1'. pget FSelSt P1'. pget FOpSt P1'. pget FSel P1'. pget FDef P1'. pget FPend P1'.
      clearbody s1. clear P1'.
      destruct (se_fin se).
      * destruct (resume_at cfg (stage_of r) (upd_control s1 CIdle)) as [s2 o2] eqn:Er.
        inversion H; subst s' out. clear H.
        apply resume_at_spec in Er; [|apply stage_of_pre; [reflexivity|prj; congruence]|prj; congruence].
        destruct Er as [[Q1 [Q2 Q3]] J2]. split; [exact J2|].
        pget FNow Q1. pget FFid Q1. pget FSelSt Q1. pget FOpSt Q1. pget FSel Q1. prj.
        split; [apply frx_intro; congruence|]. split; [congruence|].
        left. split; [apply no_cb_app; split; [exact Ho|apply no_cb_cons; split; [reflexivity|exact Q2]]|].
        split; [congruence|exact Hsk].
      * destruct (format_read_response s1 false (seq16_next (se_ecsn se)) 0) as [[[s2 rsp] next] o2] eqn:Ef.
        apply format_read_response_pres in Ef. destruct Ef as [A2 B2].
        destruct (write_solicited s2 respond_to rsp) as [[s3 rsp'] o3] eqn:Ew.
        apply write_solicited_pres in Ew. destruct Ew as [A3 [B3 _]].
        set (s4 := upd_last s3 match s_last s3 with
                               | Some l => Some {| lr_seq := lr_seq l; lr_bytes := lr_bytes l; lr_response := Some rsp'; lr_series := lr_series l |}
                               | None => None end) in *.
        assert (PP4 : pres [FNow; FFid; FSelSt; FOpSt; FSel; FDef; FPend] s1 s4).
        { apply (pres_trans2 fnobuf [FNow; FFid; FSelSt; FOpSt; FSel; FDef; FPend] [FNow; FFid; FSelSt; FOpSt; FSel; FDef; FPend] _ s2 _ eq_refl eq_refl A2).
          apply (pres_trans2 fall [FNow; FFid; FSelSt; FOpSt; FSel; FDef; FPend] [FNow; FFid; FSelSt; FOpSt; FSel; FDef; FPend] _ s3 _ eq_refl eq_refl A3).
          subst s4. pres_now. }
        pget FNow PP4. pget FFid PP4. pget FSelSt PP4. pget FOpSt PP4. pget FSel PP4. pget FDef PP4. pget FPend PP4. clearbody s4.
        assert (Hno : no_cb (o ++ [ODb DbClearWritten] ++ o2 ++ o3)).
        { apply no_cb_app; split; [exact Ho|]. apply no_cb_cons; split; [reflexivity|]. apply no_cb_app; auto. }
        destruct next as [n|].
        -- inversion H; subst s' out. clear H. prj.
           split; [split; [prj; congruence|left; prj; congruence]|].
           split; [apply frx_intro; prj; congruence|]. split; [prj; congruence|].
           left. split; [exact Hno|]. split; [prj; congruence|exact Hsk].
        -- destruct (resume_at cfg (stage_of r) (upd_control s4 CIdle)) as [s5 o5] eqn:Er.
           inversion H; subst s' out. clear H.
           apply resume_at_spec in Er; [|apply stage_of_pre; [reflexivity|prj; congruence]|prj; congruence].
           destruct Er as [[Q1 [Q2 Q3]] J5]. split; [exact J5|].
           pget FNow Q1. pget FFid Q1. pget FSelSt Q1. pget FOpSt Q1. pget FSel Q1. prj.
           split; [apply frx_intro; congruence|]. split; [congruence|].
           left. split; [|split; [congruence|exact Hsk]].
           apply no_cb_app; split; [exact Ho|]. apply no_cb_cons; split; [reflexivity|].
           apply no_cb_app; split; [exact B2|]. apply no_cb_app; split; [exact B3|exact Q2].
    + destruct (resume_at cfg (stage_of r) (upd_pending (upd_control s0 CIdle) (Some (from, bc, bytes, d, fid)))) as [s2 o2] eqn:Er.
      inversion H; subst s' out. clear H.
      apply resume_at_proc in Er; [|apply stage_of_pre; [reflexivity|exact Jd]]. destruct Er as [Hir HJ'].
      split; [exact HJ'|].
      assert (Heq : o ++ ODb DbReset :: o2 = (o ++ [ODb DbReset]) ++ o2) by (rewrite <- app_assoc; reflexivity).
      cbn [app]. rewrite Heq.
      eapply (pending_run cfg s (upd_pending (upd_control s0 CIdle) (Some (from, bc, bytes, d, fid)))); eauto; try reflexivity.
      * subst s0. pres_now.
      * apply no_cb_app; split; [exact Ho|reflexivity].
  - (* unsolicited confirm wait *)
    destruct (unsol_wait_fragment cfg s0 resp from bc bytes d fid) as [[s1 res] o] eqn:Eu.
    pose proof (unsol_wait_fragment_spec _ _ _ _ _ _ _ _ _ _ _ Eu) as [A1 _].
    assert (Hpr : proc cfg s0 (from, bc, bytes, d, fid) s1 o) by (right; eauto).
    assert (Hmid : rx_mid s s0 fid) by (unfold rx_mid; subst s0; prj; repeat split; auto).
    pget FNow A1. pget FFid A1. pget FSelSt A1. pget FOpSt A1. pget FPend A1. pget FCtl A1.
    pget FNow P0. pget FSelSt P0. pget FOpSt P0. pget FPend P0. pget FCtl P0.
    assert (F0 : s_frame_id s0 = fid) by reflexivity.
    destruct res as [r|].
    + destruct (end_unsol cfg s1 is_null r) as [[s2 ns] o2] eqn:Ee.
      apply end_unsol_spec in Ee. destruct Ee as [A2 [B2 C2]].
      destruct (resume_at cfg (St3 ns) s2) as [s3 o3] eqn:Er.
      inversion H; subst s' out. clear H.
      assert (Hp2 : s_pending s2 = None) by (pget FPend A2; congruence).
      apply resume_at_spec in Er; [|split; [exact C2|left; exact Hp2]|exact Hp2].
      destruct Er as [Q3 J3]. split; [exact J3|].
      assert (Q2 : quiet s1 s2 o2) by (apply (quiet_of_pres fnoctl); [reflexivity|exact A2|exact B2]).
      pose proof (quiet_trans _ _ _ _ _ Q2 Q3) as Q23. destruct Q23 as [Qa Qb].
      pget FNow Qa. pget FFid Qa. pget FSelSt Qa. pget FOpSt Qa.
      split; [apply frx_intro; congruence|]. split; [congruence|].
      right. exists s0, s1, [], o, (o2 ++ o3). split; [reflexivity|]. split; [reflexivity|].
      split; [exact Hmid|]. split; [exact Hpr|]. split; [right; eauto|]. split; [exact Qa|exact Qb].
    + inversion H; subst s' out. clear H.
      split; [split; [congruence|right; replace (s_control s1) with (CUnsolWait resp is_null retries dl) by congruence; exact I]|].
      split; [apply frx_intro; congruence|]. split; [congruence|].
      right. exists s0, s1, [], o, []. split; [rewrite app_nil_r; reflexivity|]. split; [reflexivity|].
      split; [exact Hmid|]. split; [exact Hpr|]. split; [right; eauto|apply quiet_refl].
Qed.

(* ---------- the step ---------- *)
Lemma rx_res_after cfg s from bc bytes d fid s1 o1 s' o2 :
  rx_res quiet cfg s from bc bytes d fid s1 o1 -> quietT s1 s' o2 ->
  rx_res quietT cfg s from bc bytes d fid s' (o1 ++ o2).
Proof.
  intros [[A [B C]]|[sm [s2 [oa [ob [oc [Ho [Hoa [Hmid [Hpr [Hd Hq]]]]]]]]]]] Hq2.
  - left. destruct Hq2 as [Q1 [Q2 _]]. split; [apply no_cb_app; auto|]. split; [|exact C].
    pget FSel Q1. congruence.
  - right. exists sm, s2, oa, ob, (oc ++ o2). split; [rewrite Ho, <- !app_assoc; reflexivity|].
    split; [exact Hoa|]. split; [exact Hmid|]. split; [exact Hpr|]. split; [exact Hd|].
    eapply quietT_trans; [apply quiet_quietT; exact Hq|exact Hq2].
Qed.

Lemma rx_res_ext Q cfg s s0 from bc bytes d fid s' o :
  s_now s0 = s_now s -> s_sel_status s0 = s_sel_status s -> s_op_status s0 = s_op_status s ->
  s_select s0 = s_select s -> s_last s0 = s_last s ->
  rx_res Q cfg s0 from bc bytes d fid s' o -> rx_res Q cfg s from bc bytes d fid s' o.
Proof.
  intros E1 E2 E3 E4 E5 [[A [B C]]|[sm [s2 [oa [ob [oc [Ho [Hoa [Hmid [Hpr [Hd Hq]]]]]]]]]]].
  - left. split; [exact A|]. split; [congruence|exact C].
  - right. exists sm, s2, oa, ob, oc. split; [exact Ho|]. split; [exact Hoa|]. split; [|auto].
    unfold rx_mid in *. destruct Hmid as [M1 [M2 [M3 [M4 [M5 [M6 M7]]]]]]. repeat split; congruence.
Qed.

Definition step_res (cfg : ocfg) (s : ostate) (ev : oevent) (s' : ostate) (out : list oobs) : Prop :=
  match ev with
  | ERx from bc bytes d =>
      let fid := (s_frame_id s + 1) mod 4294967296 in
      s_sel_status s' = s_sel_status s /\ s_op_status s' = s_op_status s /\
      s_now s' = (s_now s + settle_ms)%Z /\ s_frame_id s' = fid /\
      rx_res quietT cfg s from bc bytes d fid s' out
  | ESleep ms => quietT s s' out /\ s_now s' = (s_now s + ms)%Z
  | EDbChange => quietT s s' out /\ s_now s' = (s_now s + settle_ms)%Z
  | EHandler sel op => out = [] /\ pres [FNow; FFid; FSel; FDef; FLast] s s'
  | EAppIin v => out = [] /\ pres [FNow; FFid; FSel; FDef; FLast; FSelSt; FOpSt] s s'
  | EDisconnect =>
      no_cb out /\ s_select s' = None /\ s_frame_id s' = s_frame_id s /\
      s_sel_status s' = s_sel_status s /\ s_op_status s' = s_op_status s
  end.

Lemma ostep_spec cfg s ev ans s' out :
  J s -> ostep cfg s ev ans = (s', out) -> J s' /\ step_res cfg s ev s' out.
Proof.
  intros HJ H. unfold ostep in H.
  set (s0 := upd_answers s ans) in *.
  assert (J0 : J s0) by exact HJ.
  assert (P0 : pres fall s s0) by (subst s0; pres_now).
  pget FNow P0. pget FFid P0. pget FSelSt P0. pget FOpSt P0. pget FPend P0. pget FDef P0. pget FCtl P0.
  pget FLast P0. pget FSel P0.
  assert (Q0 : quietT s s0 []).
  { apply quiet_quietT. apply (quiet_of_pres fall); [reflexivity|exact P0|reflexivity]. }
  clearbody s0.
  destruct ev as [from bc bytes d|ms| |sel op|v|]; cbn [step_res].
  - destruct (on_rx cfg s0 from bc bytes d) as [s1 o1] eqn:Eo.
    apply on_rx_spec in Eo; [|exact J0]. cbv zeta in Eo. destruct Eo as [J1 [A1 [F1 R1]]].
    destruct (advance 64 cfg s1 (s_now s1 + settle_ms)) as [s2 o2] eqn:Ea.
    apply advance_spec in Ea; [|exact J1]. destruct Ea as [Q2 [J2 N2]].
    inversion H; subst s' out. clear H. split; [exact J2|].
    pget FNow A1. pget FSelSt A1. pget FOpSt A1. destruct Q2 as [Qa Qb].
    pget FFid Qa. pget FSelSt Qa. pget FOpSt Qa.
    split; [congruence|]. split; [congruence|]. split; [congruence|]. split; [congruence|].
    rewrite <- P1. apply (rx_res_ext quietT cfg s s0); auto.
    eapply rx_res_after; [exact R1|split; assumption].
  - destruct (advance 4096 cfg s0 (s_now s0 + ms)) as [s2 o2] eqn:Ea.
    apply advance_spec in Ea; [|exact J0]. destruct Ea as [Q2 [J2 N2]].
    inversion H; subst s' out. split; [exact J2|]. split; [|congruence].
    exact (quietT_trans _ _ _ _ _ Q0 Q2).
  - destruct J0 as [Jp Jd].
    assert (H1 : exists s1 o1, quiet s0 s1 o1 /\ J s1 /\
              match s_control s0 with CIdle => idle_loop 8 cfg s0 | _ => (upd_notify s0 true, []) end = (s1, o1)).
    { destruct (s_control s0) eqn:Ec.
      - destruct Jd as [Jd|Jd]; [|destruct Jd].
        destruct (idle_loop 8 cfg s0) as [s1 o1] eqn:Ei. exists s1, o1.
        apply idle_loop_spec in Ei; [|split; assumption|exact Jp]. destruct Ei as [A B]. auto.
      - exists (upd_notify s0 true), []. split; [|split; [|reflexivity]].
        + apply (quiet_of_pres [FNow; FFid; FSelSt; FOpSt; FSel; FDef; FLast]); [reflexivity|pres_now|reflexivity].
        + split; [exact Jp|]. destruct Jd as [Jd|Jd]; [left; exact Jd|destruct Jd].
      - exists (upd_notify s0 true), []. split; [|split; [|reflexivity]].
        + apply (quiet_of_pres [FNow; FFid; FSelSt; FOpSt; FSel; FDef; FLast]); [reflexivity|pres_now|reflexivity].
        + split; [exact Jp|right; prj; rewrite Ec; exact I]. }
    destruct H1 as [s1 [o1 [Q1 [J1 E1]]]]. rewrite E1 in H.
    destruct (advance 64 cfg s1 (s_now s1 + settle_ms)) as [s2 o2] eqn:Ea.
    apply advance_spec in Ea; [|exact J1]. destruct Ea as [Q2 [J2 N2]].
    inversion H; subst s' out. split; [exact J2|].
    destruct Q1 as [Qa Qb]. pget FNow Qa. split; [|congruence].
    change (o1 ++ o2) with ([] ++ o1 ++ o2).
    exact (quietT_trans _ _ _ _ _ Q0 (quietT_trans _ _ _ _ _ (quiet_quietT _ _ _ (conj Qa Qb)) Q2)).
  - inversion H; subst s' out. split; [exact J0|]. split; [reflexivity|].
    unfold pres. repeat constructor; cbn [fld_eq]; prj; congruence.
  - inversion H; subst s' out. split; [exact J0|]. split; [reflexivity|].
    unfold pres. repeat constructor; cbn [fld_eq]; prj; congruence.
  - set (s1 := upd_pending (upd_control (session_reset s0) CIdle) None) in *.
    destruct (idle_loop 8 cfg s1) as [s2 o2] eqn:Ei.
    apply idle_loop_spec in Ei; [|split; reflexivity|reflexivity]. destruct Ei as [[Qa [Qb Qc]] J2].
    destruct (advance 64 cfg s2 (s_now s2 + settle_ms)) as [s3 o3] eqn:Ea.
    apply advance_spec in Ea; [|exact J2]. destruct Ea as [[Qd [Qe Qf]] [J3 N3]].
    inversion H; subst s' out. split; [exact J3|].
    pget FFid Qa. pget FSelSt Qa. pget FOpSt Qa. pget FSel Qa.
    pget FFid Qd. pget FSelSt Qd. pget FOpSt Qd. pget FSel Qd.
    assert (E1 : s_select s1 = None) by reflexivity.
    assert (E2 : s_frame_id s1 = s_frame_id s0) by reflexivity.
    assert (E3 : s_sel_status s1 = s_sel_status s0) by reflexivity.
    assert (E4 : s_op_status s1 = s_op_status s0) by reflexivity.
    split; [apply no_cb_cons; split; [reflexivity|]; apply no_cb_cons; split; [reflexivity|]; apply no_cb_app; auto|].
    split; [congruence|]. split; [congruence|]. split; congruence.
Qed.

(* ---------- consequences for the processed fragment ---------- *)
Lemma proc_frag_spec cfg sm from bc bytes d fid s2 o2 :
  proc cfg sm (from, bc, bytes, d, fid) s2 o2 -> frag_spec cfg sm from bc bytes d fid s2 o2.
Proof.
  intros [H|[resp [res H]]].
  - apply handle_from_idle_spec in H. apply H.
  - apply unsol_wait_fragment_spec in H. apply H.
Qed.

Lemma no_cb_intro l : (forall c, ~ In (OCb c) l) -> no_cb l.
Proof.
  intros H. unfold no_cb. apply forallb_forall. intros x Hx. destruct x; try reflexivity.
  exfalso. exact (H _ Hx).
Qed.

Lemma match_operate_none cfg s sel seq fid objs :
  match_operate cfg s sel seq fid objs = None <->
  seq16_next (ss_seq sel) = seq /\ (ss_frame_id sel + 1) mod 4294967296 = fid /\ ss_objects sel = objs /\
  (s_now s - ss_time sel <= o_select_ms cfg)%Z.
Proof.
  unfold match_operate.
  destruct (seq16_next (ss_seq sel) =? seq) eqn:E1; cbn [negb].
  2:{ apply N.eqb_neq in E1. split; [discriminate|tauto]. }
  destruct ((ss_frame_id sel + 1) mod 4294967296 =? fid) eqn:E2; cbn [negb].
  2:{ apply N.eqb_neq in E2. split; [discriminate|tauto]. }
  destruct (bytes_eqb (ss_objects sel) objs) eqn:E3; cbn [negb].
  2:{ split; [discriminate|]. intros [_ [_ [H _]]]. apply bytes_eqb_eq in H. congruence. }
  apply N.eqb_eq in E1, E2. apply bytes_eqb_eq in E3.
  destruct (o_select_ms cfg <? s_now s - ss_time sel)%Z eqn:E4.
  - apply Z.ltb_lt in E4. split; [discriminate|]. intros [_ [_ [_ H]]]. lia.
  - apply Z.ltb_ge in E4. split; [intros _; auto|reflexivity].
Qed.

Lemma match_operate_status cfg s sel seq fid objs st :
  match_operate cfg s sel seq fid objs = Some st -> st = 1 \/ st = 2.
Proof.
  unfold match_operate.
  destruct (negb (seq16_next (ss_seq sel) =? seq)); [intros H; inversion H; auto|].
  destruct (negb ((ss_frame_id sel + 1) mod 4294967296 =? fid)); [intros H; inversion H; auto|].
  destruct (negb (bytes_eqb (ss_objects sel) objs)); [intros H; inversion H; auto|].
  destruct (o_select_ms cfg <? s_now s - ss_time sel)%Z; intros H; inversion H; auto.
Qed.

Lemma unsol_wait_nonread_deferred cfg s resp from bytes d fid s2 res o2 ctl fn hdrs rh :
  unsol_wait_fragment cfg s resp from None bytes d fid = (s2, res, o2) ->
  to_treq cfg from d = TqRequest ctl fn (ObjOk hdrs rh) -> fn <> fn_confirm -> fn <> fn_read ->
  s_deferred s2 = None.
Proof.
  unfold unsol_wait_fragment. intros H Ht H0 H1. rewrite Ht in H. cbv zeta in H. unfold classify in H.
  apply N.eqb_neq in H0, H1. rewrite H0, H1 in H.
  destruct (match s_last s with Some l => (lr_seq l =? ctl_seq ctl) && bytes_eqb (lr_bytes l) bytes | None => false end).
  - inversion H; subst. reflexivity.
  - destruct (handle_non_read cfg (upd_deferred s None) fn (ctl_seq ctl) fid bytes hdrs) as [[s1 r] o1] eqn:Eh.
    apply handle_non_read_spec in Eh. destruct Eh as [A0 _]. pget FDef A0.
    destruct r as [r0|].
    + destruct (write_solicited s1 from r0) as [[s3 r1] o3] eqn:Ew. apply write_solicited_pres in Ew.
      destruct Ew as [A3 _]. pget FDef A3. inversion H; subst. prj. congruence.
    + inversion H; subst. prj. congruence.
Qed.

(* a new non-READ request: the handler result and the transmitted response *)
Definition nonread_run (cfg : ocfg) (sm' : ostate) (from fn seq fid : N) (bytes : list N) (hdrs : list whdr)
           (s2 : ostate) (o2 : list oobs) : Prop :=
  exists s1 r o1 pre rest,
    handle_non_read cfg sm' fn seq fid bytes hdrs = (s1, r, o1) /\ o2 = pre ++ o1 ++ rest /\
    no_cb pre /\ no_cb rest /\ s_select s2 = s_select s1 /\
    (forall r0, r = Some r0 -> exists r', r_size r' = r_size r0 /\ In (OTx from (response_bytes r' (s_sol_buf s1))) rest).

Lemma handle_from_idle_new cfg sm from bytes d fid ctl fn hdrs rh s2 o2 :
  to_treq cfg from d = TqRequest ctl fn (ObjOk hdrs rh) -> fn <> fn_confirm -> fn <> fn_read ->
  ~ last_matches (s_last sm) (ctl_seq ctl) bytes ->
  handle_from_idle cfg sm from None bytes d fid = (s2, o2) ->
  nonread_run cfg sm from fn (ctl_seq ctl) fid bytes hdrs s2 o2.
Proof.
  intros Ht H0 H1 Hl. rewrite handle_from_idle_eq, Ht. cbv zeta. unfold classify.
  apply N.eqb_neq in H0, H1. rewrite H0, H1.
  change (match s_last sm with Some l => (lr_seq l =? ctl_seq ctl) && bytes_eqb (lr_bytes l) bytes | None => false end)
    with (repeat_flag (s_last sm) (ctl_seq ctl) bytes).
  destruct (repeat_flag (s_last sm) (ctl_seq ctl) bytes) eqn:Er; [apply repeat_flag_iff in Er; contradiction|].
  destruct (handle_non_read cfg sm fn (ctl_seq ctl) fid bytes hdrs) as [[s1 r] o1] eqn:Eh.
  intros H. apply finish_idle_spec in H. destruct H as [A [B [C [rest [D [E F]]]]]].
  exists s1, r, o1, [OInfo (IIdleRequest fn (ctl_seq ctl))], rest.
  split; [exact Eh|]. split; [exact D|]. split; [reflexivity|]. split; [exact E|].
  split; [pget FSel A; exact P|]. intros r0 Hr. apply (F r0 Hr eq_refl).
Qed.

Lemma unsol_wait_new cfg sm resp from bytes d fid ctl fn hdrs rh s2 res o2 :
  to_treq cfg from d = TqRequest ctl fn (ObjOk hdrs rh) -> fn <> fn_confirm -> fn <> fn_read ->
  ~ last_matches (s_last sm) (ctl_seq ctl) bytes ->
  unsol_wait_fragment cfg sm resp from None bytes d fid = (s2, res, o2) ->
  nonread_run cfg (upd_deferred sm None) from fn (ctl_seq ctl) fid bytes hdrs s2 o2.
Proof.
  intros Ht H0 H1 Hl. unfold unsol_wait_fragment. rewrite Ht. cbv zeta. unfold classify.
  apply N.eqb_neq in H0, H1. rewrite H0, H1.
  change (match s_last sm with Some l => (lr_seq l =? ctl_seq ctl) && bytes_eqb (lr_bytes l) bytes | None => false end)
    with (repeat_flag (s_last sm) (ctl_seq ctl) bytes).
  destruct (repeat_flag (s_last sm) (ctl_seq ctl) bytes) eqn:Er; [apply repeat_flag_iff in Er; contradiction|].
  destruct (handle_non_read cfg (upd_deferred sm None) fn (ctl_seq ctl) fid bytes hdrs) as [[s1 r] o1] eqn:Eh.
  destruct r as [r0|].
  - destruct (write_solicited s1 from r0) as [[s3 r1] o3] eqn:Ew. apply write_solicited_pres in Ew.
    destruct Ew as [A3 [B3 [C3 [pre D3]]]]. intros H; inversion H; subst s2 res o2. clear H.
    exists s1, (Some r0), o1, [], o3. split; [exact Eh|]. split; [reflexivity|]. split; [reflexivity|].
    split; [exact B3|]. split; [pget FSel A3; prj; exact P|].
    intros r0' Hr. inversion Hr; subst r0'. exists r1. split; [exact C3|].
    rewrite D3. apply in_or_app. right. left. pget FBuf A3. rewrite P. reflexivity.
  - intros H; inversion H; subst s2 res o2. clear H.
    exists s1, None, o1, [], []. split; [exact Eh|]. split; [rewrite app_nil_r; reflexivity|]. split; [reflexivity|].
    split; [reflexivity|]. split; [reflexivity|]. intros r0 Hr; discriminate Hr.
Qed.

Lemma proc_new cfg sm from bytes d fid ctl fn hdrs rh s2 o2 :
  proc cfg sm (from, None, bytes, d, fid) s2 o2 ->
  to_treq cfg from d = TqRequest ctl fn (ObjOk hdrs rh) -> fn <> fn_confirm -> fn <> fn_read ->
  ~ last_matches (s_last sm) (ctl_seq ctl) bytes ->
  exists sm', (sm' = sm \/ sm' = upd_deferred sm None) /\
    nonread_run cfg sm' from fn (ctl_seq ctl) fid bytes hdrs s2 o2.
Proof.
  intros [H|[resp [res H]]] Ht H0 H1 Hl.
  - exists sm. split; [left; reflexivity|]. eapply handle_from_idle_new; eauto.
  - exists (upd_deferred sm None). split; [right; reflexivity|]. eapply unsol_wait_new; eauto.
Qed.
