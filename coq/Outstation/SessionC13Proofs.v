(* Outstation/SessionC13Proofs.v — property C13 (internal indication bits tell the truth), the bits
   that live in the session: what get_response_iin puts into a response (exactly the database's
   class/overflow answer, the restart flag, the broadcast indication, the application's bits), the
   life of the restart bit (set at start-up, cleared only by a WRITE of IIN1.7 = 0, untouched by a
   reconnect), and the life of the broadcast indication (reported once; a confirm-mandatory one
   stays until the CONFIRM of the response that reported it).  Proved over the session model
   Outstation/Session.v for all configurations, all states satisfying `boundary_inv` (which holds in
   every state reachable from start-up), all events and all answers of the environment. *)
From Dnp3V Require Import Outstation.Session Outstation.SessionLemmas_c12 Outstation.SessionLemmas_c04
  Outstation.SessionLemmas_c13.
Import ListNotations.
Open Scope N_scope.

(* ---------- reachable states and the invariant -------------------------------------------------- *)

Inductive Reach (cfg : ocfg) : ostate -> Prop :=
| Reach_start : forall sel op iin a0, Reach cfg (fst (ostart cfg sel op iin a0))
| Reach_step : forall s ev ans, Reach cfg s -> Reach cfg (fst (ostep cfg s ev ans)).

(* the state after a whole history *)
Fixpoint ofinal (cfg : ocfg) (s : ostate) (evs : list (oevent * list answer)) : ostate :=
  match evs with
  | [] => s
  | (ev, ans) :: rest => ofinal cfg (fst (ostep cfg s ev ans)) rest
  end.

Lemma Reach_ofinal cfg evs : forall s, Reach cfg s -> Reach cfg (ofinal cfg s evs).
Proof.
  induction evs as [|[ev ans] rest IH]; intros s H; cbn [ofinal]; [exact H|]. apply IH. constructor. exact H.
Qed.

(* ---------- concrete histories for the non-vacuity examples ----------------------------------------- *)

Definition ex_cfg (unsol : bool) : ocfg :=
  {| o_master := 1; o_any_master := false; o_unsol := unsol; o_broadcast := true; o_confirm_ms := 5000;
     o_select_ms := 5000; o_retries := None; o_retry_delay_ms := 1000; o_max_controls := None; o_sol_tx := 249;
     o_delay_ms := 0; o_cold := None; o_warm := None; o_wtime := 0; o_freeze := 0 |}.

(* the database: class 1 and class 3 events available, a buffer has overflown *)
Definition ex_evinfo : answer := AEvinfo true false true true.
(* RECORD_CURRENT_TIME, sequence q, from master 1 *)
Definition ex_req (q : N) : oevent := ERx 1 None [192 + q; 24] (DOk (192 + q) 24 RvOk (ObjOk [] [])).
Definition ex_bcast (m : bcast_mode) : oevent := ERx 1 (Some m) [192; 24] (DOk 192 24 RvOk (ObjOk [] [])).
Definition ex_confirm (uns : bool) (q : N) : oevent :=
  ERx 1 None [192 + (if uns then 16 else 0) + q; 0] (DOk (192 + (if uns then 16 else 0) + q) 0 RvOk (ObjOk [] [])).
(* WRITE g80v1 index 7 := 0 *)
Definition ex_write_clear (q : N) : oevent :=
  ERx 1 None [192 + q; 2; 80; 1; 0; 7; 7; 0] (DOk (192 + q) 2 RvOk (ObjOk [WIin [(7, false)]] [])).

(* start-up with the application reporting need-time and configuration-corrupt (bits 0 and 3) *)
Definition ex_st0 (unsol : bool) : ostate := fst (ostart (ex_cfg unsol) 0 0 9 []).
Definition ex_run (unsol : bool) (evs : list (oevent * list answer)) : ostate :=
  ofinal (ex_cfg unsol) (ex_st0 unsol) evs.

Lemma ex_run_reach unsol evs : Reach (ex_cfg unsol) (ex_run unsol evs).
Proof. apply Reach_ofinal. apply Reach_start. Qed.

(* what the examples look at *)
Definition ex_view (s : ostate) := (s_control s, s_restart_iin s, s_last_bcast s, s_bcast_rep s).

(* between two steps the reader holds no fragment, and a deferred READ exists only while an
   unsolicited response awaits its confirmation *)
Definition boundary_inv (s : ostate) : Prop :=
  s_pending s = None /\
  (s_deferred s = None \/ exists resp is_null retries dl, s_control s = CUnsolWait resp is_null retries dl).

Lemma boundary_inv_J s : boundary_inv s <-> J s.
Proof.
  unfold boundary_inv, J, is_unsol_wait. split; intros [A B]; (split; [exact A|]).
  - destruct B as [B|(r & n & k & dl & B)]; [left; exact B|right; rewrite B; exact I].
  - destruct B as [B|B]; [left; exact B|right]. destruct (s_control s); try destruct B. eauto.
Qed.

Theorem boundary_inv_start cfg sel op iin a0 : boundary_inv (fst (ostart cfg sel op iin a0)).
Proof.
  apply boundary_inv_J. unfold ostart.
  destruct (idle_loop 8 cfg (upd_answers (ostate_init cfg sel op iin) a0)) as [s' o] eqn:E.
  apply idle_loop_spec in E; [apply E|split; reflexivity|reflexivity].
Qed.

Theorem boundary_inv_step cfg s ev ans : boundary_inv s -> boundary_inv (fst (ostep cfg s ev ans)).
Proof.
  rewrite !boundary_inv_J. intros HJ. destruct (ostep cfg s ev ans) as [s' o] eqn:E.
  apply ostep_spec in E; [apply E|exact HJ].
Qed.

Theorem reach_boundary_inv cfg s : Reach cfg s -> boundary_inv s.
Proof. induction 1; [apply boundary_inv_start|apply boundary_inv_step; assumption]. Qed.

Example ex_boundary_inv :
  boundary_inv (ex_run false [(ex_bcast BMandatory, []); (ex_req 2, [ex_evinfo])]) /\
  boundary_inv (ex_run true [(ex_bcast BMandatory, []); (ex_req 5, [ex_evinfo])]).
Proof. split; [apply (reach_boundary_inv (ex_cfg false))|apply (reach_boundary_inv (ex_cfg true))]; apply ex_run_reach. Qed.

(* ---------- 1. the IIN octets of a response ------------------------------------------------------- *)

(* `bit_of l n` is bit n of the octet whose bits are listed in l, least significant first *)
Theorem response_iin_bits : forall s s' iin1 iin2 o,
  response_iin s = (s', (iin1, iin2), o) ->
  let '(c1, c2, c3, ovf) := evinfo_answer s in
  let a := s_app_iin s in
  (forall n, N.testbit iin1 n =
     bit_of [bcast_pending s; c1; c2; c3; N.testbit a 0; N.testbit a 1; N.testbit a 2; s_restart_iin s] n) /\
  (forall n, N.testbit iin2 n = bit_of [false; false; false; ovf; false; N.testbit a 3; false; false] n).
Proof. exact response_iin_exact. Qed.

(* after a confirm-mandatory broadcast: IIN1 = restart 128 + need-time 16 + class3 8 + class1 2 + broadcast 1,
   IIN2 = overflow 8 + configuration-corrupt 32; and the same octets leave in the next response *)
Example ex_response_iin_bits :
  let s := upd_answers (ex_run false [(ex_bcast BMandatory, [])]) [ex_evinfo] in
  evinfo_answer s = (true, false, true, true) /\ s_app_iin s = 9 /\ bcast_pending s = true /\ s_restart_iin s = true /\
  snd (fst (response_iin s)) = (155, 40) /\
  snd (ostep (ex_cfg false) (ex_run false [(ex_bcast BMandatory, [])]) (ex_req 2) [ex_evinfo])
  = [OInfo (IIdleRequest 24 2); ODb DbEvinfo; OTx 1 [226; 129; 155; 40]; OInfo (IEnterSolWait 2)].
Proof. vm_compute. repeat split. Qed.

(* the application's answer is what the last EAppIin event said; nothing else changes it *)
Theorem app_iin_step : forall cfg s ev ans s' o,
  boundary_inv s -> ostep cfg s ev ans = (s', o) ->
  s_app_iin s' = match ev with EAppIin v => v | _ => s_app_iin s end.
Proof.
  intros cfg s ev ans s' o HJ H. apply boundary_inv_J in HJ.
  assert (D : (exists v, ev = EAppIin v) \/ forall v, ev <> EAppIin v).
  { destruct ev; try (right; intros v0 Hx; discriminate Hx). left. eauto. }
  destruct D as [[v Hv]|Hn].
  - subst ev. apply ostep_appiin in H. tauto.
  - apply ostep_sr in H; [|exact HJ|exact Hn]. destruct H as (_ & _ & A).
    destruct ev; try exact A. exfalso. exact (Hn v eq_refl).
Qed.

Example ex_app_iin_step :
  s_app_iin (ex_st0 false) = 9 /\
  s_app_iin (fst (ostep (ex_cfg false) (ex_st0 false) (EAppIin 4) [])) = 4 /\
  s_app_iin (fst (ostep (ex_cfg false) (ex_st0 false) (ex_req 2) [ex_evinfo])) = 9.
Proof. vm_compute. repeat split. Qed.

(* ---------- 2. the restart bit ---------------------------------------------------------------------- *)

(* the event is a WRITE from an accepted master that holds a g80v1 header writing IIN1.7 := 0 *)
Definition restart_clearing_event (cfg : ocfg) (ev : oevent) : Prop :=
  exists from bc bytes ctl hdrs rh,
    ev = ERx from bc bytes (DOk ctl fn_write RvOk (ObjOk hdrs rh)) /\
    (o_any_master cfg = true \/ from = o_master cfg) /\ clears_restart hdrs = true.

Lemma to_treq_accepts cfg from d ctl fn obj :
  to_treq cfg from d = TqRequest ctl fn obj ->
  d = DOk ctl fn RvOk obj /\ (o_any_master cfg = true \/ from = o_master cfg).
Proof.
  intros H. split; [eapply to_treq_request; exact H|]. unfold to_treq in H.
  destruct (o_any_master cfg); [left; reflexivity|]. right.
  destruct (from =? o_master cfg) eqn:E; [apply N.eqb_eq; exact E|discriminate H].
Qed.

Lemma clearing_write_event cfg from bc bytes d :
  clearing_write cfg from d -> restart_clearing_event cfg (ERx from bc bytes d).
Proof.
  intros (ctl & hdrs & rh & Ht & Hc). apply to_treq_accepts in Ht. destruct Ht as [Hd Hm]. subst d.
  exists from, bc, bytes, ctl, hdrs, rh. auto.
Qed.

Theorem restart_at_start : forall cfg sel op iin a0, s_restart_iin (fst (ostart cfg sel op iin a0)) = true.
Proof.
  intros. unfold ostart.
  destruct (idle_loop 8 cfg (upd_answers (ostate_init cfg sel op iin) a0)) as [s' o] eqn:E.
  apply idle_loop_qs in E; [|reflexivity]. destruct E as ([E|[_ []]] & _). cbn [fst]. rewrite E. reflexivity.
Qed.

Example ex_restart_at_start : s_restart_iin (ex_st0 false) = true /\ s_restart_iin (ex_st0 true) = true.
Proof. vm_compute. split; reflexivity. Qed.

Theorem restart_step : forall cfg s ev ans s' o,
  boundary_inv s -> ostep cfg s ev ans = (s', o) ->
  s_restart_iin s' = s_restart_iin s \/ (s_restart_iin s' = false /\ restart_clearing_event cfg ev).
Proof.
  intros cfg s ev ans s' o HJ H. apply boundary_inv_J in HJ.
  assert (D : (exists v, ev = EAppIin v) \/ forall v, ev <> EAppIin v).
  { destruct ev; try (right; intros v0 Hx; discriminate Hx). left. eauto. }
  destruct D as [[v Hv]|Hn].
  - subst ev. apply ostep_appiin in H. left. tauto.
  - apply ostep_sr in H; [|exact HJ|exact Hn]. destruct H as ([A|[A W]] & _); [left; exact A|right].
    split; [exact A|]. destruct ev; cbn [ev_Wr] in W; try contradiction. apply clearing_write_event. exact W.
Qed.

(* the WRITE clears the bit (second disjunct), any other request leaves it *)
Example ex_restart_step :
  boundary_inv (ex_st0 false) /\ s_restart_iin (ex_st0 false) = true /\
  s_restart_iin (fst (ostep (ex_cfg false) (ex_st0 false) (ex_write_clear 1) [ex_evinfo])) = false /\
  restart_clearing_event (ex_cfg false) (ex_write_clear 1) /\
  s_restart_iin (fst (ostep (ex_cfg false) (ex_st0 false) (ex_req 1) [ex_evinfo])) = true.
Proof.
  split; [apply (reach_boundary_inv (ex_cfg false)), (ex_run_reach false [])|].
  split; [vm_compute; reflexivity|]. split; [vm_compute; reflexivity|]. split; [|vm_compute; reflexivity].
  exists 1, None, [193; 2; 80; 1; 0; 7; 7; 0], 193, [WIin [(7, false)]], []. repeat split. right. reflexivity.
Qed.

(* once cleared it stays cleared; only a received fragment can clear it: time, database changes,
   application events and a disconnect (SessionState::reset) leave it alone *)
Theorem restart_step_cases : forall cfg s ev ans s' o,
  boundary_inv s -> ostep cfg s ev ans = (s', o) ->
  (s_restart_iin s = false -> s_restart_iin s' = false) /\
  ((forall from bc bytes d, ev <> ERx from bc bytes d) -> s_restart_iin s' = s_restart_iin s).
Proof.
  intros cfg s ev ans s' o HJ H. destruct (restart_step _ _ _ _ _ _ HJ H) as [A|[A W]].
  - split; intros; congruence.
  - split; [intros; exact A|]. intros Hn. destruct W as (from & bc & bytes & ctl & hdrs & rh & Hev & _).
    exfalso. exact (Hn _ _ _ _ Hev).
Qed.

Example ex_restart_step_cases :
  let s := ex_run false [(ex_write_clear 1, [ex_evinfo])] in
  s_restart_iin s = false /\
  s_restart_iin (fst (ostep (ex_cfg false) s (ex_req 2) [ex_evinfo])) = false /\
  s_restart_iin (fst (ostep (ex_cfg false) (ex_st0 false) EDisconnect [])) = true.
Proof. vm_compute. repeat split. Qed.

(* set from start-up, across any history (reconnects included), until such a WRITE arrives *)
Theorem restart_until_written : forall cfg sel op iin a0 evs,
  Forall (fun ea => ~ restart_clearing_event cfg (fst ea)) evs ->
  s_restart_iin (ofinal cfg (fst (ostart cfg sel op iin a0)) evs) = true.
Proof.
  intros cfg sel op iin a0 evs.
  assert (G : forall s, boundary_inv s -> s_restart_iin s = true ->
            Forall (fun ea => ~ restart_clearing_event cfg (fst ea)) evs -> s_restart_iin (ofinal cfg s evs) = true).
  { induction evs as [|[ev ans] rest IH]; intros s HJ Hr Hf; cbn [ofinal]; [exact Hr|].
    inversion Hf as [|x l Hx Hl]; subst. cbn [fst] in Hx.
    destruct (ostep cfg s ev ans) as [s' o] eqn:E. cbn [fst].
    apply IH; [|destruct (restart_step _ _ _ _ _ _ HJ E) as [A|[_ W]]; [congruence|contradiction]|exact Hl].
    pose proof (boundary_inv_step cfg s ev ans HJ) as HJ'. rewrite E in HJ'. exact HJ'. }
  apply G; [apply boundary_inv_start|apply restart_at_start].
Qed.

Example ex_restart_until_written :
  let evs := [(EDisconnect, []); (ESleep 100000, []); (ex_bcast BOptional, []); (ex_req 2, [ex_evinfo])] in
  Forall (fun ea => ~ restart_clearing_event (ex_cfg false) (fst ea)) evs /\
  s_restart_iin (ex_run false evs) = true.
Proof.
  split; [|vm_compute; reflexivity].
  repeat constructor; intros (from & bc & bytes & ctl & hdrs & rh & Hx & _); discriminate Hx.
Qed.

(* the WRITE handler: IIN1.7 is cleared exactly when a header asks for it *)
Theorem write_clears_restart_exact : forall cfg s hdrs s1 v o,
  handle_write_headers cfg s hdrs = (s1, v, o) ->
  s_restart_iin s1 = (if clears_restart hdrs then false else s_restart_iin s) /\
  s_last_bcast s1 = s_last_bcast s /\ s_bcast_rep s1 = s_bcast_rep s.
Proof. intros cfg s hdrs s1 v o H. apply handle_write_headers_trk in H. tauto. Qed.

Example ex_write_clears_restart_exact :
  s_restart_iin (fst (fst (handle_write_headers (ex_cfg false) (ex_st0 false) [WIin [(7, false)]]))) = false /\
  s_restart_iin (fst (fst (handle_write_headers (ex_cfg false) (ex_st0 false) [WIin [(7, true)]; WAttr]))) = true /\
  clears_restart [WIin [(4, false); (7, false)]] = true /\ clears_restart [WIin [(7, true)]; WAttr] = false.
Proof. vm_compute. repeat split. Qed.

(* ---------- 3. the broadcast indication, confirm-mandatory ------------------------------------------ *)

(* a received broadcast raises the indication and forgets any earlier reporter *)
Theorem broadcast_received : forall cfg s m fid ctl fn bytes obj s1 o,
  process_broadcast cfg s m fid ctl fn bytes obj = (s1, o) ->
  s_last_bcast s1 = Some m /\ s_bcast_rep s1 = None.
Proof. intros cfg s m fid ctl fn bytes obj s1 o H. apply process_broadcast_trk in H. tauto. Qed.

Example ex_broadcast_received :
  ex_view (ex_run false [(ex_bcast BMandatory, [])]) = (CIdle, true, Some BMandatory, None) /\
  ex_view (ex_run false [(ex_bcast BMandatory, []); (ex_req 2, [ex_evinfo]); (ESleep 6000, []); (ex_bcast BOptional, [])])
  = (CIdle, true, Some BOptional, None).
Proof. vm_compute. split; reflexivity. Qed.

(* the indication after a step: unchanged; or one that needs no confirmation was consumed (it is
   consumed only by get_response_iin, i.e. by being reported); or the step received a newer broadcast;
   or it received, in the unsolicited confirm wait, the CONFIRM naming the response recorded in
   s_bcast_rep; or, in the solicited confirm wait, the expected CONFIRM of the series *)
Theorem bcast_step : forall cfg s ev ans s' o,
  boundary_inv s -> ostep cfg s ev ans = (s', o) ->
  s_last_bcast s' = s_last_bcast s \/
  (s_last_bcast s' = None /\ s_last_bcast s <> Some BMandatory) \/
  exists from bc bytes d, ev = ERx from bc bytes d /\ bcast_cause cfg s from bc d.
Proof.
  intros cfg s ev ans s' o HJ H. apply boundary_inv_J in HJ.
  assert (D : (exists v, ev = EAppIin v) \/ forall v, ev <> EAppIin v).
  { destruct ev; try (right; intros v0 Hx; discriminate Hx). left. eauto. }
  destruct D as [[v Hv]|Hn].
  - subst ev. apply ostep_appiin in H. left. tauto.
  - apply ostep_sr in H; [|exact HJ|exact Hn]. destruct H as (_ & [B|[B|W]] & _); [left; exact B|right; left; exact B|].
    right. right. destruct ev as [from bc bytes d|ms| |sel op|v|]; cbn [ev_Wb] in W; try contradiction.
    exists from, bc, bytes, d. split; [reflexivity|exact W].
Qed.

(* solicited: the response to request 2 reported the indication (CON set, reporter (solicited, 2));
   the CONFIRM with sequence 3 leaves it, the CONFIRM with sequence 2 clears it *)
Example ex_bcast_step_solicited :
  let s := ex_run false [(ex_bcast BMandatory, []); (ex_req 2, [ex_evinfo])] in
  ex_view s = (CSolWait {| se_ecsn := 2; se_fin := true |} 5001 RStep2, true, Some BMandatory, Some (false, 2)) /\
  s_last_bcast (fst (ostep (ex_cfg false) s (ex_confirm false 3) [])) = Some BMandatory /\
  s_last_bcast (fst (ostep (ex_cfg false) s (ESleep 100) [])) = Some BMandatory /\
  s_last_bcast (fst (ostep (ex_cfg false) s (ex_confirm false 2) [])) = None /\
  bcast_cause (ex_cfg false) s 1 None (DOk 194 0 RvOk (ObjOk [] [])).
Proof.
  split; [vm_compute; reflexivity|]. split; [vm_compute; reflexivity|]. split; [vm_compute; reflexivity|].
  split; [vm_compute; reflexivity|].
  right. exists 194, (ObjOk [] []). split; [reflexivity|]. split; [reflexivity|]. right.
  exists {| se_ecsn := 2; se_fin := true |}, 5001%Z, RStep2. repeat split.
Qed.

(* unsolicited confirm wait (null response 0 outstanding): the broadcast arrives, request 5 is answered
   and its response becomes the reporter; the CONFIRM of the unsolicited response does not clear the
   indication, the solicited CONFIRM 5 does; a non-mandatory indication is consumed by the report *)
Example ex_bcast_step_unsolicited :
  let s := ex_run true [(ex_bcast BMandatory, []); (ex_req 5, [ex_evinfo])] in
  (exists resp dl, s_control s = CUnsolWait resp true (Some 0%nat) dl /\ ctl_seq (r_ctl resp) = 0) /\
  s_last_bcast s = Some BMandatory /\ s_bcast_rep s = Some (false, 5) /\
  ex_view (fst (ostep (ex_cfg true) s (ex_confirm true 0) [])) = (CIdle, true, Some BMandatory, Some (false, 5)) /\
  s_last_bcast (fst (ostep (ex_cfg true) s (ex_confirm false 5) [])) = None /\
  bcast_cause (ex_cfg true) s 1 None (DOk 197 0 RvOk (ObjOk [] [])) /\
  s_last_bcast (ex_run true [(ex_bcast BOptional, [])]) = Some BOptional /\
  s_last_bcast (ex_run true [(ex_bcast BOptional, []); (ex_req 5, [ex_evinfo])]) = None.
Proof.
  split; [eexists; eexists; vm_compute; split; reflexivity|].
  split; [vm_compute; reflexivity|]. split; [vm_compute; reflexivity|]. split; [vm_compute; reflexivity|].
  split; [vm_compute; reflexivity|]. split; [|split; vm_compute; reflexivity].
  right. exists 197, (ObjOk [] []). split; [reflexivity|]. split; [reflexivity|]. left.
  split; [vm_compute; eauto|vm_compute; reflexivity].
Qed.

(* hence a pending confirm-mandatory indication survives every step but those three *)
Theorem mandatory_step : forall cfg s ev ans s' o,
  boundary_inv s -> ostep cfg s ev ans = (s', o) -> s_last_bcast s = Some BMandatory ->
  s_last_bcast s' = Some BMandatory \/
  exists from bc bytes d, ev = ERx from bc bytes d /\ bcast_cause cfg s from bc d.
Proof.
  intros cfg s ev ans s' o HJ H Hm. destruct (bcast_step _ _ _ _ _ _ HJ H) as [B|[[_ B]|W]].
  - left. congruence.
  - contradiction.
  - right. exact W.
Qed.

(* The solicited confirm wait does NOT always wait for the reporter.  History: broadcast, request 5
   answered (CON, IIN1.0), no confirm (timeout), a second confirm-mandatory broadcast (s_bcast_rep
   forgotten), request 5 retransmitted: the stored response is repeated without a new
   get_response_iin and the session waits for CONFIRM 5 with no reporter recorded; that CONFIRM clears
   the indication of the second broadcast (third exception of mandatory_step, not the second).
   So `CSolWait se .. -> s_last_bcast = Some BMandatory -> s_bcast_rep = Some (false, se_ecsn se)` is
   NOT an invariant of the model. *)
Example ex_solwait_without_reporter :
  let h := [(ex_bcast BMandatory, []); (ex_req 5, [ex_evinfo]); (ESleep 6000, []); (ex_bcast BMandatory, [])] in
  let s := ex_run false (h ++ [(ex_req 5, [])]) in
  snd (ostep (ex_cfg false) (ex_run false h) (ex_req 5) [])
    = [OInfo (IIdleRequest 24 5); OTx 1 [229; 129; 155; 40]; OInfo (IEnterSolWait 5)] /\
  ex_view s = (CSolWait {| se_ecsn := 5; se_fin := true |} 11003 RStep2, true, Some BMandatory, None) /\
  ex_view (fst (ostep (ex_cfg false) s (ex_confirm false 5) [])) = (CIdle, true, None, None).
Proof. vm_compute. repeat split. Qed.

Lemma response_iin_bit0 s s0 iin1 iin2 o :
  response_iin s = (s0, (iin1, iin2), o) -> N.testbit iin1 0 = bcast_pending s.
Proof.
  intros H. pose proof (response_iin_exact _ _ _ _ _ H) as X.
  destruct (evinfo_answer s) as [[[c1 c2] c3] ovf]. destruct X as [X _]. exact (X 0).
Qed.

(* a first solicited transmission: IIN1.0 reports the indication; an indication that needs no
   confirmation is thereby consumed; a confirm-mandatory one stays, the response asks for a
   confirmation and records itself as the reporter *)
Theorem write_solicited_reports : forall s dest r s1 r1 o,
  write_solicited s dest r = (s1, r1, o) ->
  (exists pre, o = pre ++ [OTx dest (response_bytes r1 (s_sol_buf s1))]) /\
  N.testbit (r_iin1 r1) 0 = N.testbit (r_iin1 r) 0 || bcast_pending s /\
  match s_last_bcast s with
  | Some BMandatory =>
      ctl_con (r_ctl r1) = true /\ s_last_bcast s1 = Some BMandatory /\
      s_bcast_rep s1 = Some (ctl_uns (r_ctl r1), ctl_seq (r_ctl r1))
  | _ => s_last_bcast s1 = None /\ s_bcast_rep s1 = s_bcast_rep s
  end.
Proof.
  intros s dest r s1 r1 o H.
  split; [apply write_solicited_pres in H; tauto|]. split.
  - unfold write_solicited in H. destruct (response_iin s) as [[s0 [iin1 iin2]] o0] eqn:E.
    apply response_iin_bit0 in E. inversion H; subst s1 r1 o; clear H. rewrite <- E.
    destruct (s_last_bcast s0) as [[]|]; cbn [with_ctl or_iin r_iin1 fst]; apply N.lor_spec.
  - apply write_solicited_trk in H. destruct H as [_ H]. destruct (s_last_bcast s) as [[]|]; tauto.
Qed.

Example ex_write_solicited_reports :
  let s := upd_answers (ex_run false [(ex_bcast BMandatory, [])]) [ex_evinfo] in
  let '(s1, r1, o) := write_solicited s 1 (empty_solicited 2 0) in
  s_last_bcast s = Some BMandatory /\
  r1 = {| r_ctl := 226; r_fn := 129; r_iin1 := 155; r_iin2 := 40; r_size := 0 |} /\
  o = [ODb DbEvinfo; OTx 1 [226; 129; 155; 40]] /\
  s_last_bcast s1 = Some BMandatory /\ s_bcast_rep s1 = Some (false, 2) /\ ctl_con 226 = true.
Proof. vm_compute. repeat split. Qed.

Theorem write_unsolicited_reports : forall cfg s r s1 r1 o,
  write_unsolicited cfg s r = (s1, r1, o) ->
  (exists pre, o = pre ++ [OTx (o_master cfg) (response_bytes r1 (s_unsol_buf s1))]) /\
  N.testbit (r_iin1 r1) 0 = N.testbit (r_iin1 r) 0 || bcast_pending s /\
  match s_last_bcast s with
  | Some BMandatory =>
      s_last_bcast s1 = Some BMandatory /\ s_bcast_rep s1 = Some (ctl_uns (r_ctl r1), ctl_seq (r_ctl r1))
  | _ => s_last_bcast s1 = None /\ s_bcast_rep s1 = s_bcast_rep s
  end.
Proof.
  intros cfg s r s1 r1 o H.
  split; [apply write_unsolicited_spec in H; destruct H as (_ & (pre & Hp & _) & _); eauto|]. split.
  - unfold write_unsolicited in H. destruct (response_iin s) as [[s0 [iin1 iin2]] o0] eqn:E.
    apply response_iin_bit0 in E. inversion H; subst s1 r1 o; clear H. rewrite <- E.
    cbn [or_iin r_iin1 fst]. apply N.lor_spec.
  - apply write_unsolicited_trk in H. tauto.
Qed.

Example ex_write_unsolicited_reports :
  let s := upd_answers (ex_run false [(ex_bcast BMandatory, [])]) [ex_evinfo] in
  let '(s1, r1, o) := write_unsolicited (ex_cfg false) s (unsol_header 3 0) in
  r1 = {| r_ctl := 243; r_fn := 130; r_iin1 := 155; r_iin2 := 40; r_size := 0 |} /\
  o = [ODb DbEvinfo; OTx 1 [243; 130; 155; 40]] /\
  s_last_bcast s1 = Some BMandatory /\ s_bcast_rep s1 = Some (true, 3).
Proof. vm_compute. repeat split. Qed.

(* ---------- 4. the broadcast indication, no confirmation required ------------------------------------ *)

(* reported exactly once: the response being built carries IIN1.0, the indication is gone afterwards,
   and the next response does not carry it *)
Theorem bcast_reported_once : forall s m s' iin1 iin2 o,
  response_iin s = (s', (iin1, iin2), o) -> s_last_bcast s = Some m -> m <> BMandatory ->
  N.testbit iin1 0 = true /\ s_last_bcast s' = None /\ s_bcast_rep s' = s_bcast_rep s /\
  forall s'' iin1' iin2' o', response_iin s' = (s'', (iin1', iin2'), o') -> N.testbit iin1' 0 = false.
Proof.
  intros s m s' iin1 iin2 o H Hm Hn.
  pose proof (response_iin_bit0 _ _ _ _ _ H) as B0. apply response_iin_trk in H. destruct H as (_ & R & L).
  assert (L' : s_last_bcast s' = None).
  { rewrite L, Hm. destruct m; try reflexivity. contradiction. }
  split; [rewrite B0; unfold bcast_pending; rewrite Hm; reflexivity|]. split; [exact L'|]. split; [exact R|].
  intros s'' iin1' iin2' o' H'. apply response_iin_bit0 in H'. rewrite H'. unfold bcast_pending. rewrite L'. reflexivity.
Qed.

(* the response to request 2 carries IIN1.0 (155 is odd), the response to request 3 does not (154) *)
Example ex_bcast_reported_once :
  let s := ex_run false [(ex_bcast BOptional, [])] in
  s_last_bcast s = Some BOptional /\
  snd (ostep (ex_cfg false) s (ex_req 2) [ex_evinfo])
    = [OInfo (IIdleRequest 24 2); ODb DbEvinfo; OTx 1 [194; 129; 155; 40]] /\
  s_last_bcast (fst (ostep (ex_cfg false) s (ex_req 2) [ex_evinfo])) = None /\
  snd (ostep (ex_cfg false) (fst (ostep (ex_cfg false) s (ex_req 2) [ex_evinfo])) (ex_req 3) [ex_evinfo])
    = [OInfo (IIdleRequest 24 3); ODb DbEvinfo; OTx 1 [195; 129; 154; 40]].
Proof. vm_compute. repeat split. Qed.

(* building a response never raises an indication and keeps a confirm-mandatory one *)
Theorem response_iin_indication : forall s s' iin o,
  response_iin s = (s', iin, o) ->
  s_last_bcast s' = match s_last_bcast s with Some BMandatory => Some BMandatory | _ => None end /\
  s_restart_iin s' = s_restart_iin s /\ s_bcast_rep s' = s_bcast_rep s.
Proof. intros s s' iin o H. apply response_iin_trk in H. unfold after_report in H. tauto. Qed.

Example ex_response_iin_indication :
  s_last_bcast (fst (fst (response_iin (ex_run false [(ex_bcast BMandatory, [])])))) = Some BMandatory /\
  s_last_bcast (fst (fst (response_iin (ex_run false [(ex_bcast BNotRequired, [])])))) = None /\
  s_last_bcast (fst (fst (response_iin (ex_st0 false)))) = None.
Proof. vm_compute. repeat split. Qed.

(* ---------- 5. reconnect ------------------------------------------------------------------------------- *)

Theorem session_reset_bits : forall s,
  s_last_bcast (session_reset s) = s_last_bcast s /\ s_restart_iin (session_reset s) = s_restart_iin s /\
  s_bcast_rep (session_reset s) = None /\ s_app_iin (session_reset s) = s_app_iin s.
Proof. intros s. repeat split; reflexivity. Qed.

Example ex_session_reset_bits :
  let s := ex_run false [(ex_bcast BMandatory, []); (ex_req 2, [ex_evinfo])] in
  s_bcast_rep s = Some (false, 2) /\
  ex_view (session_reset s)
  = (CSolWait {| se_ecsn := 2; se_fin := true |} 5001 RStep2, true, Some BMandatory, None).
Proof. vm_compute. split; reflexivity. Qed.

Theorem disconnect_step : forall cfg s ans s' o,
  boundary_inv s -> ostep cfg s EDisconnect ans = (s', o) ->
  s_restart_iin s' = s_restart_iin s /\ s_app_iin s' = s_app_iin s /\
  (s_last_bcast s' = s_last_bcast s \/ (s_last_bcast s' = None /\ s_last_bcast s <> Some BMandatory)).
Proof.
  intros cfg s ans s' o HJ H.
  pose proof (restart_step_cases _ _ _ _ _ _ HJ H) as [_ R].
  pose proof (app_iin_step _ _ _ _ _ _ HJ H) as A. cbn in A.
  split; [apply R; intros; discriminate|]. split; [exact A|].
  destruct (bcast_step _ _ _ _ _ _ HJ H) as [B|[B|(from & bc & bytes & d & Hx & _)]]; [left; exact B|right; exact B|].
  discriminate Hx.
Qed.

(* the link is dropped while a reported confirm-mandatory indication awaits its CONFIRM: the indication
   and the restart bit survive, the reporter is forgotten (a late CONFIRM 2 will not clear it) *)
Example ex_disconnect_step :
  let s := ex_run false [(ex_bcast BMandatory, []); (ex_req 2, [ex_evinfo])] in
  let s' := fst (ostep (ex_cfg false) s EDisconnect []) in
  ex_view s' = (CIdle, true, Some BMandatory, None) /\
  s_last_bcast (fst (ostep (ex_cfg false) s' (ex_confirm false 2) [])) = Some BMandatory.
Proof. vm_compute. split; reflexivity. Qed.
