(* Outstation/StaticDb.v — executable model of
     dnp3/src/outstation/database/details/range/static_db.rs  (StaticDatabase, PointMap, SelectionQueue,
                                                               event detectors)
     dnp3/src/outstation/database/details/range/writer.rs     (RangeWriter: header / continuation
                                                               logic including bit-packed octets)
     dnp3/src/outstation/database/details/range/traits.rs     (StaticVariation::promote / get_write_info)

   A PointMap (BTreeMap<u16, Point>) is an association list in ascending index order (`pmap_insert`
   keeps it sorted; StaticDbProofs.v: `sdb_wf`).  The selection queue holds (type, start, stop,
   requested variation); `sdb_write` resumes at the index that did not fit, exactly as
   `write_typed_range` returns Err(wrap(IndexRange::new(index, range.stop), variation)).

   Output of `sdb_write` is structured (headers with the points they carry); `shdrs_bytes` renders it.
   The code patches the `stop` field and the current bit-packed octet in place; rendering the final
   header is the same thing.

   Not modelled: g34 analog dead-band reads, frozen analog inputs (unsupported by the code as well),
   device attributes; event detection for analog types only with dead-band 0.0 (DbTypes.v). *)
From Dnp3V Require Import Base.Bytes Outstation.DbTypes.
Open Scope N_scope.

Record pconfig := mkPc {
  pc_class : option eclass;
  pc_svar : svar;
  pc_evar : evar;
  pc_deadband : N            (* counters: u32; analog: must be the bits of 0.0 *)
}.

Record point := mkPt {
  p_current : meas;
  p_selected : meas;          (* frozen at selection time *)
  p_last_event : meas;
  p_config : pconfig
}.

Definition pmap : Type := list (N * point).

Fixpoint pmap_get (m : pmap) (i : N) : option point :=
  match m with
  | [] => None
  | (k, p) :: tl => if k =? i then Some p else pmap_get tl i
  end.

(* insert keeping ascending order; false when the index exists *)
Fixpoint pmap_insert (m : pmap) (i : N) (p : point) : pmap * bool :=
  match m with
  | [] => ([(i, p)], true)
  | (k, q) :: tl =>
    if i <? k then ((i, p) :: m, true)
    else if i =? k then (m, false)
    else let '(tl', ok) := pmap_insert tl i p in ((k, q) :: tl', ok)
  end.

Fixpoint pmap_remove (m : pmap) (i : N) : pmap * bool :=
  match m with
  | [] => ([], false)
  | (k, q) :: tl =>
    if k =? i then (tl, true)
    else let '(tl', ok) := pmap_remove tl i in ((k, q) :: tl', ok)
  end.

Fixpoint pmap_update (m : pmap) (i : N) (f : point -> point) : pmap :=
  match m with
  | [] => []
  | (k, q) :: tl => if k =? i then (k, f q) :: tl else (k, q) :: pmap_update tl i f
  end.

Definition in_range (a b : N) (kp : N * point) : bool := (a <=? fst kp) && (fst kp <=? b).

(* BTreeMap::range(start..=stop) *)
Definition pmap_range (m : pmap) (a b : N) : pmap := filter (in_range a b) m.

(* select_range_with_variation: selected := current for every point in range *)
Definition pmap_select (m : pmap) (a b : N) : pmap :=
  map (fun kp => if in_range a b kp
                 then (fst kp, mkPt (p_current (snd kp)) (p_current (snd kp)) (p_last_event (snd kp)) (p_config (snd kp)))
                 else kp) m.

(* full_range: first and last key *)
Definition pmap_full_range (m : pmap) : option (N * N) :=
  match m with
  | [] => None
  | (k, _) :: _ => Some (k, last (map fst m) k)
  end.

(* VariationRange *)
Record qitem := mkQ { q_type : ptype; q_start : N; q_stop : N; q_var : option svar }.

Record sdb := mkSdb {
  sd_c0 : ptype -> bool;          (* ClassZeroConfig *)
  sd_cap : N;                     (* capacity of the selection queue *)
  sd_queue : list qitem;
  sd_maps : ptype -> pmap
}.

Definition DEFAULT_MAX_READ_REQUEST_HEADERS : N := 64.

Definition sdb_new (max_read_selection : option N) (c0 : ptype -> bool) : sdb :=
  mkSdb c0
        (match max_read_selection with
         | Some x => N.max x DEFAULT_MAX_READ_REQUEST_HEADERS
         | None => DEFAULT_MAX_READ_REQUEST_HEADERS
         end)
        [] (fun _ => []).

Definition set_map (d : sdb) (t : ptype) (m : pmap) : sdb :=
  mkSdb (sd_c0 d) (sd_cap d) (sd_queue d) (fun t' => if ptype_eqb t' t then m else sd_maps d t').
Definition set_queue (d : sdb) (q : list qitem) : sdb :=
  mkSdb (sd_c0 d) (sd_cap d) q (sd_maps d).

Definition sdb_reset (d : sdb) : sdb := set_queue d [].

Definition sdb_add (d : sdb) (t : ptype) (i : N) (cfg : pconfig) : sdb * bool :=
  let dm := default_meas t in
  let '(m, ok) := pmap_insert (sd_maps d t) i (mkPt dm dm dm cfg) in
  (if ok then set_map d t m else d, ok).

Definition sdb_remove (d : sdb) (t : ptype) (i : N) : sdb * bool :=
  let '(m, ok) := pmap_remove (sd_maps d t) i in
  (if ok then set_map d t m else d, ok).

Definition sdb_get (d : sdb) (t : ptype) (i : N) : option meas :=
  match pmap_get (sd_maps d t) i with Some p => Some (p_current p) | None => None end.

(* ---------------------------------------------------------------------------------------------- *)
(* update and event detection *)

Inductive event_mode := Detect | Force | Suppress.

Definition abs_diff (a b : N) : N := if b <? a then a - b else b - a.

(* EventDetector::is_event *)
Definition is_event (t : ptype) (deadband : N) (a b : meas) : bool :=
  match t with
  | TBinary | TBos => negb (bool_wire_flags a =? bool_wire_flags b)
  | TDoubleBit => negb (dbit_wire_flags a =? dbit_wire_flags b)
  | TCounter | TFrozen =>
    negb (m_flags a =? m_flags b) || (deadband <? abs_diff (m_val a) (m_val b))
  | TAnalog | TAos =>
    negb (m_flags a =? m_flags b) || f64_differs (m_val a) (m_val b)
  | TOctet => negb (forallb (fun x => x) (map (fun p => fst p =? snd p) (combine (m_oct a) (m_oct b)))
                    && (length (m_oct a) =? length (m_oct b))%nat)
  end.

(* StaticDatabase::update: (new db, point exists, event to insert) *)
Definition sdb_update (d : sdb) (t : ptype) (i : N) (v : meas) (update_static : bool) (mode : event_mode)
  : sdb * bool * option (evar * eclass) :=
  match pmap_get (sd_maps d t) i with
  | None => (d, false, None)
  | Some p =>
    let cur := if update_static then v else p_current p in
    let fire :=
      match mode with
      | Suppress => false
      | Force => true
      | Detect => is_event t (pc_deadband (p_config p)) (p_last_event p) v
      end in
    let le := if fire then v else p_last_event p in
    let ev := if fire then
                match pc_class (p_config p) with
                | Some k => Some (pc_evar (p_config p), k)
                | None => None
                end
              else None in
    (set_map d t (pmap_update (sd_maps d t) i (fun _ => mkPt cur (p_selected p) le (p_config p))),
     true, ev)
  end.

(* ---------------------------------------------------------------------------------------------- *)
(* select *)

Definition IIN2_PARAMETER_ERROR : N := 4.

(* SelectionQueue::push_back *)
Definition sdb_push (d : sdb) (it : qitem) : sdb * N :=
  if N.of_nat (length (sd_queue d)) =? sd_cap d then (d, IIN2_PARAMETER_ERROR)
  else (set_queue d (sd_queue d ++ [it]), 0).

(* select_by_type *)
Definition sdb_select_type (d : sdb) (t : ptype) (v : option svar) (range : option (N * N)) : sdb * N :=
  let r := match range with Some r => Some r | None => pmap_full_range (sd_maps d t) end in
  match r with
  | None => (d, 0)
  | Some (a, b) => sdb_push (set_map d t (pmap_select (sd_maps d t) a b)) (mkQ t a b v)
  end.

Definition sdb_select_class0_type (acc : sdb * N) (t : ptype) : sdb * N :=
  let '(d, iin) := acc in
  if sd_c0 d t then
    let '(d', i) := sdb_select_type d t None None in (d', N.lor iin i)
  else acc.

Inductive static_header :=
| SelClass0
| SelType (t : ptype) (v : option svar) (range : option (N * N)).

Definition sdb_select (d : sdb) (h : static_header) : sdb * N :=
  match h with
  | SelClass0 => fold_left sdb_select_class0_type all_ptypes (d, 0)
  | SelType t v r => sdb_select_type d t v r
  end.

(* ---------------------------------------------------------------------------------------------- *)
(* the range writer *)

(* one point as it is written: index, (group, variation) octets, body *)
Record sitem := mkSi { si_type : ptype; si_index : N; si_gv : N * N; si_body : sbody }.

Definition point_item (t : ptype) (var : option svar) (kp : N * point) : sitem :=
  let p := snd kp in
  let v := svar_promote (match var with Some x => x | None => pc_svar (p_config p) end) (p_selected p) in
  mkSi t (fst kp) (svar_gv v (p_selected p)) (static_body v (p_selected p)).

(* one written header: items newest first *)
Record shdr := mkSh { sh_gv : N * N; sh_items : list sitem }.

Inductive kstate := KFixed | KBit (pos : N) | KDbit (pos : N).

Inductive rwstate :=
| RwStart
| RwHeader (gv : N * N) (last : N) (k : kstate)
| RwFull.

Record rwriter := mkRw { rw_rem : N; rw_state : rwstate; rw_out : list shdr }.

Definition body_first_len (b : sbody) : N :=
  match b with SFixed bs => N.of_nat (length bs) | _ => 1 end.
Definition body_kstate (b : sbody) : kstate :=
  match b with SFixed _ => KFixed | SBit _ => KBit 1 | SDbit _ => KDbit 2 end.

(* is_consecutive *)
Definition is_consecutive (last next : N) : bool := (last <? next) && (next =? last + 1).

Definition gv_eqb (a b : N * N) : bool := (fst a =? fst b) && (snd a =? snd b).

(* RangeWriter::start_header: 3 octets (group, variation, qualifier 0x01) + start + stop + first value *)
Definition rw_start (w : rwriter) (it : sitem) : option rwriter :=
  let need := 7 + body_first_len (si_body it) in
  if need <=? rw_rem w
  then Some (mkRw (rw_rem w - need) (RwHeader (si_gv it) (si_index it) (body_kstate (si_body it)))
                  (mkSh (si_gv it) [it] :: rw_out w))
  else None.

Definition push_item (out : list shdr) (it : sitem) : list shdr :=
  match out with
  | h :: tl => mkSh (sh_gv h) (it :: sh_items h) :: tl
  | [] => []
  end.

(* RangeWriter::write_next_value: (octets needed, next type state) *)
Definition next_need (k : kstate) (b : sbody) : N * kstate :=
  match k with
  | KFixed => (body_first_len b, KFixed)
  | KBit pos => if pos <? 8 then (0, KBit (pos + 1)) else (1, KBit 1)
  | KDbit pos => if pos <? 8 then (0, KDbit (pos + 2)) else (1, KDbit 2)
  end.

(* RangeWriter::try_write without the trap to Full *)
Definition rw_try (w : rwriter) (it : sitem) : option rwriter :=
  match rw_state w with
  | RwFull => None
  | RwStart => rw_start w it
  | RwHeader gv last k =>
    if gv_eqb gv (si_gv it) && is_consecutive last (si_index it) then
      let '(need, k') := next_need k (si_body it) in
      if need <=? rw_rem w
      then Some (mkRw (rw_rem w - need) (RwHeader gv (si_index it) k') (push_item (rw_out w) it))
      else None
    else rw_start w it
  end.

(* write_typed_range over the points of the range: None = all written, Some i = resume at index i *)
Fixpoint range_loop (items : list sitem) (w : rwriter) : rwriter * option N :=
  match items with
  | [] => (w, None)
  | it :: tl =>
    match rw_try w it with
    | Some w' => range_loop tl w'
    | None => (w, Some (si_index it))
    end
  end.

Definition qitem_items (maps : ptype -> pmap) (q : qitem) : list sitem :=
  map (point_item (q_type q) (q_var q)) (pmap_range (maps (q_type q)) (q_start q) (q_stop q)).

(* StaticDatabase::write: a fresh RangeWriter per queue entry, one cursor *)
Fixpoint queue_loop (maps : ptype -> pmap) (q : list qitem) (rem : N) (out : list shdr)
  : list qitem * N * list shdr * bool :=
  match q with
  | [] => ([], rem, out, true)
  | it :: tl =>
    match range_loop (qitem_items maps it) (mkRw rem RwStart out) with
    | (w, None) => queue_loop maps tl (rw_rem w) (rw_out w)
    | (w, Some i) => (mkQ (q_type it) i (q_stop it) (q_var it) :: tl, rw_rem w, rw_out w, false)
    end
  end.

(* ---------------------------------------------------------------------------------------------- *)
(* rendering *)

Fixpoint pack_bits (width : N) (vals : list N) (pos : N) (acc : N) : list N :=
  match vals with
  | [] => if pos =? 0 then [] else [acc]
  | v :: tl =>
    if pos <? 8 then pack_bits width tl (pos + width) (acc + v * 2 ^ pos)
    else acc :: pack_bits width tl width v
  end.

Definition sbody_bits (b : sbody) : N :=
  match b with SBit x => if x then 1 else 0 | SDbit d => d | SFixed _ => 0 end.

Definition items_body (items : list sitem) : list N :=
  match items with
  | [] => []
  | it :: _ =>
    match si_body it with
    | SFixed _ => concat (map (fun i => match si_body i with SFixed bs => bs | _ => [] end) items)
    | SBit _ => pack_bits 1 (map (fun i => sbody_bits (si_body i)) items) 0 0
    | SDbit _ => pack_bits 2 (map (fun i => sbody_bits (si_body i)) items) 0 0
    end
  end.

Definition shdr_bytes (h : shdr) : list N :=
  let items := rev (sh_items h) in
  match items with
  | [] => []
  | first :: _ =>
    [fst (sh_gv h); snd (sh_gv h); 1] ++ le_bytes 2 (si_index first)
    ++ le_bytes 2 (si_index (last items first)) ++ items_body items
  end.

Definition shdrs_bytes (out : list shdr) : list N := concat (map shdr_bytes (rev out)).

(* the points in the order written *)
Definition shdrs_items (out : list shdr) : list sitem := concat (map (fun h => rev (sh_items h)) (rev out)).

(* ---------------------------------------------------------------------------------------------- *)
(* write *)

(* headers (newest first), octets left, complete, new state *)
Definition sdb_write_hdrs (d : sdb) (budget : N) : sdb * (list shdr * N * bool) :=
  let '(q, rem, out, c) := queue_loop (sd_maps d) (sd_queue d) budget [] in
  (set_queue d q, (out, rem, c)).

Definition sdb_write (d : sdb) (budget : N) : sdb * (list N * bool) :=
  let '(d', (out, _, c)) := sdb_write_hdrs d budget in (d', (shdrs_bytes out, c)).

(* everything the current selection still has to report, in order *)
Definition sdb_pending (d : sdb) : list sitem := concat (map (qitem_items (sd_maps d)) (sd_queue d)).
