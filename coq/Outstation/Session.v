(* Outstation/Session.v — model of dnp3/src/outstation/session.rs (with control/select.rs,
   control/collection.rs echo writing, deferred.rs) as a deterministic transducer:

     step : config -> state -> event (+ the answers of the session's environment) ->
            state * list of observations

   Observations are everything the session does at its boundaries: fragments handed to the
   transport writer, calls into the database, callbacks to the control handler / application /
   information interfaces.  What the environment answers (the database's replies, the real parser's
   digest of a received fragment) is an INPUT of the step: the theorems quantify over all of it.

   What is abstracted (see DESIGN.md section 9): the request parser (its verdict arrives as a
   digest made by the real parser; the parser is property C09's subject), the database (its
   answers are inputs; the database is verified separately, properties C03/C11/C13 at database
   level), xxh64 (a digest is modelled by the bytes it is computed from), the keep-alive link
   status request (disabled in every configuration this model is run against), decode logging.
   Definitions only. *)
From Dnp3V Require Export Base.Bytes.
From Dnp3V Require Export Link.Frame.   (* bcast_mode *)
Open Scope N_scope.

(* ---------- configuration ---------------------------------------------------------------- *)

Record ocfg := {
  o_master : N;
  o_any_master : bool;
  o_unsol : bool;
  o_broadcast : bool;
  o_confirm_ms : Z;
  o_select_ms : Z;
  o_retries : option nat;
  o_retry_delay_ms : Z;
  o_max_controls : option N;
  o_sol_tx : nat;             (* solicited transmit buffer size *)
  o_delay_ms : N;             (* application: processing delay *)
  o_cold : option (bool * N); (* application: restart delay, true = milliseconds *)
  o_warm : option (bool * N);
  o_wtime : N;                (* application: write_absolute_time result 0 ok / 1 not supported / 2 parameter error *)
  o_freeze : N                (* application: freeze_counter result, same coding *)
}.

(* ---------- what the real parser says about a received fragment ---------------------------- *)

Inductive whdr :=
| WIin (bits : list (N * bool))            (* g80v1 range: (index, value) *)
| WAbsTime (t : option N)                  (* g50v1 count; None = not exactly one *)
| WLastRec (t : option N)                  (* g50v3 *)
| WCls (c : N)                             (* g60v2/3/4 all objects: 1,2,3 *)
| WFrzAll | WFrzRange (a b : N)            (* g20v0 *)
| WFt (x : option (N * N))                 (* g50v2 time + interval *)
| WAttr | WDb34
| WCtl (g v prefix : N) (items : list (N * list N))   (* control header: index, object bytes *)
| WOther.

Inductive objres := ObjErr (iin2 : N) | ObjOk (hdrs : list whdr) (rh : list bool).

Inductive rvres := RvOk | RvBad.

Inductive digest :=
| DInsuf
| DUnknown (seq code : N)
| DOk (ctl fn : N) (rv : rvres) (obj : objres).

(* answers of the environment, in the order the session asks *)
Inductive answer :=
| AIin2 (v : N)
| AWrite (complete has_events : bool) (body : list N)
| AUnsol (count : N) (body : list N)
| AEvinfo (c1 c2 c3 ovf : bool).

Inductive oevent :=
| ERx (from : N) (bc : option bcast_mode) (bytes : list N) (d : digest)
| ESleep (ms : Z)
| EDbChange            (* a database transaction by the user: notify *)
| EHandler (sel op : N)
| EAppIin (v : N)
| EDisconnect.

(* ---------- observations ------------------------------------------------------------------- *)

Inductive dbcall := DbSelect | DbWrite | DbWriteUnsol (c1 c2 c3 : bool) | DbClearWritten | DbReset
                  | DbEvinfo | DbDeferredSelect.

Inductive optype := OpSbo | OpDo | OpDoNr.

Inductive callback :=
| CbBeginFragment | CbEndFragment
| CbSelect (g v idx : N) (obj : list N)
| CbOperate (g v idx : N) (t : optype) (obj : list N)
| CbWriteTime (t : N)
| CbColdRestart | CbWarmRestart
| CbFreeze (indices : option (N * N)) (ftype : N) (time interval : N)   (* ftype 0 imm, 1 clear, 2 at-time *)
| CbWriteAttr.

Inductive infocb :=
| IIdleRequest (fn seq : N)
| IBroadcast (fn : N) (action : N) (arg : N)   (* 0 processed 1 ignored 2 badobj 3 unsupported(fn) *)
| IEnterSolWait (ecsn : N) | ISolTimeout (ecsn : N) | ISolConfirmed (ecsn : N) | ISolNewRequest
| ISolWrongSeq (ecsn seq : N) | IUnexpectedConfirm (uns : bool) (seq : N)
| IEnterUnsolWait (ecsn : N) | IUnsolTimeout (ecsn : N) (retry : bool) | IUnsolConfirmed (ecsn : N)
| IClearRestart.

Inductive oobs :=
| OTx (dest : N) (bytes : list N)
| ODb (c : dbcall)
| OCb (c : callback)
| OInfo (i : infocb)
| OSessionEnd
| OAt (t : Z)           (* what follows happened at virtual time t (a deadline fired) *)
| OMissingAnswer        (* the model asked the environment something the trace has no answer for *)
| OOutOfFuel.

(* ---------- session state ------------------------------------------------------------------ *)

Record response := { r_ctl : N; r_fn : N; r_iin1 : N; r_iin2 : N; r_size : nat }.

Record series := { se_ecsn : N; se_fin : bool }.

Record last_request := { lr_seq : N; lr_bytes : list N; lr_response : option response;
                         lr_series : option series }.

Record select_state := { ss_seq : N; ss_frame_id : N; ss_time : Z; ss_objects : list N }.

Record deferred := { df_bytes : list N; df_seq : N; df_from : N; df_iin2 : N }.

Inductive unsol_state := UNullRequired | UReady (deadline : option Z).

(* where run_idle_state continues when a solicited series ends: after handle_one_request_from_idle
   (then unsolicited is checked), or after handle_deferred_read (then the select!, which returns
   at once when the unsolicited check of that iteration had answered NoSleep) *)
Inductive resume := RStep2 | RStep4 (nosleep : bool).

Inductive control :=
| CIdle
| CSolWait (s : series) (deadline : Z) (r : resume)
| CUnsolWait (resp : response) (is_null : bool) (retries : option nat) (deadline : Z).

Record ostate := {
  s_now : Z;
  s_control : control;
  s_restart_iin : bool;
  s_enabled : bool * bool * bool;             (* unsolicited classes 1,2,3 *)
  s_last : option last_request;
  s_select : option select_state;
  s_unsol : unsol_state;
  s_unsol_seq : N;
  s_deferred : option deferred;
  s_last_recorded : option Z;
  s_last_bcast : option bcast_mode;
  s_sol_buf : list N;                         (* solicited tx buffer from offset 4 *)
  s_unsol_buf : list N;
  s_pending : option (N * option bcast_mode * list N * digest * N);  (* fragment held by the reader, with its frame id *)
  s_frame_id : N;                             (* frame id of the last fragment read *)
  s_notify : bool;                            (* stored wake-up permit of the database *)
  s_sel_status : N; s_op_status : N; s_app_iin : N;
  s_answers : list answer;
  s_bcast_rep : option (bool * N)          (* UNS bit and sequence of the response that last reported a
                                             confirm-mandatory broadcast (fix F25) *)
}.

Definition ostate_init (cfg : ocfg) (sel op appiin : N) : ostate := {|
  s_now := 0; s_control := CIdle; s_restart_iin := true; s_enabled := (false, false, false);
  s_last := None; s_select := None; s_unsol := UNullRequired; s_unsol_seq := 0;
  s_deferred := None; s_last_recorded := None; s_last_bcast := None;
  s_sol_buf := []; s_unsol_buf := []; s_pending := None; s_frame_id := 0; s_notify := false;
  s_sel_status := sel; s_op_status := op; s_app_iin := appiin; s_answers := []; s_bcast_rep := None |}.

(* ---------- small helpers ------------------------------------------------------------------- *)

Definition seq16_next (s : N) : N := (s + 1) mod 16.

Definition ctl_byte (fir fin con uns : bool) (seq : N) : N :=
  (if fir then 128 else 0) + (if fin then 64 else 0) + (if con then 32 else 0)
  + (if uns then 16 else 0) + seq mod 16.

Definition ctl_seq (c : N) : N := c mod 16.
Definition ctl_uns (c : N) : bool := N.testbit c 4.
Definition ctl_con (c : N) : bool := N.testbit c 5.

Definition set_con (c : N) : N := if ctl_con c then c else c + 32.

Definition fn_confirm : N := 0.   Definition fn_read : N := 1.    Definition fn_write : N := 2.
Definition fn_select : N := 3.    Definition fn_operate : N := 4. Definition fn_direct_operate : N := 5.
Definition fn_direct_operate_nr : N := 6.
Definition fn_immediate_freeze : N := 7.  Definition fn_immediate_freeze_nr : N := 8.
Definition fn_freeze_clear : N := 9.      Definition fn_freeze_clear_nr : N := 10.
Definition fn_freeze_at_time : N := 11.   Definition fn_freeze_at_time_nr : N := 12.
Definition fn_cold_restart : N := 13.     Definition fn_warm_restart : N := 14.
Definition fn_enable_unsol : N := 20.     Definition fn_disable_unsol : N := 21.
Definition fn_delay_measure : N := 23.    Definition fn_record_time : N := 24.
Definition fn_response : N := 129.        Definition fn_unsol_response : N := 130.

Definition iin2_no_func : N := 1.  Definition iin2_param : N := 4.

Definition empty_solicited (seq iin2 : N) : response :=
  {| r_ctl := ctl_byte true true false false seq; r_fn := fn_response; r_iin1 := 0; r_iin2 := iin2; r_size := 0 |}.

Definition with_iin2 (r : response) (v : N) : response :=
  {| r_ctl := r_ctl r; r_fn := r_fn r; r_iin1 := r_iin1 r; r_iin2 := N.lor (r_iin2 r) v; r_size := r_size r |}.

(* the buffer keeps whatever lay beyond a shorter write *)
Definition buf_set (old body : list N) : list N := body ++ skipn (length body) old.

(* Response::header.write over the start of the buffer, then max(4, size) bytes are sent *)
Definition response_bytes (r : response) (buf : list N) : list N :=
  [r_ctl r; r_fn r; r_iin1 r; r_iin2 r] ++ firstn (r_size r - 4) buf.

Definition req_result_iin2 (code : N) : N :=
  if code =? 0 then 0 else if code =? 1 then iin2_no_func else iin2_param.

Definition st_obs := (ostate * list oobs)%type.

Definition emit (s : ostate) (o : list oobs) : st_obs := (s, o).

(* record-update helpers *)
Definition upd_control (s : ostate) (c : control) : ostate :=
  {| s_now := s_now s; s_control := c; s_restart_iin := s_restart_iin s; s_enabled := s_enabled s;
     s_last := s_last s; s_select := s_select s; s_unsol := s_unsol s; s_unsol_seq := s_unsol_seq s;
     s_deferred := s_deferred s; s_last_recorded := s_last_recorded s; s_last_bcast := s_last_bcast s;
     s_sol_buf := s_sol_buf s; s_unsol_buf := s_unsol_buf s; s_pending := s_pending s;
     s_frame_id := s_frame_id s; s_notify := s_notify s; s_sel_status := s_sel_status s;
     s_op_status := s_op_status s; s_app_iin := s_app_iin s; s_answers := s_answers s;
     s_bcast_rep := s_bcast_rep s |}.
Definition upd_now (s : ostate) (t : Z) : ostate :=
  {| s_now := t; s_control := s_control s; s_restart_iin := s_restart_iin s; s_enabled := s_enabled s;
     s_last := s_last s; s_select := s_select s; s_unsol := s_unsol s; s_unsol_seq := s_unsol_seq s;
     s_deferred := s_deferred s; s_last_recorded := s_last_recorded s; s_last_bcast := s_last_bcast s;
     s_sol_buf := s_sol_buf s; s_unsol_buf := s_unsol_buf s; s_pending := s_pending s;
     s_frame_id := s_frame_id s; s_notify := s_notify s; s_sel_status := s_sel_status s;
     s_op_status := s_op_status s; s_app_iin := s_app_iin s; s_answers := s_answers s;
     s_bcast_rep := s_bcast_rep s |}.
Definition upd_restart (s : ostate) (b : bool) : ostate :=
  {| s_now := s_now s; s_control := s_control s; s_restart_iin := b; s_enabled := s_enabled s;
     s_last := s_last s; s_select := s_select s; s_unsol := s_unsol s; s_unsol_seq := s_unsol_seq s;
     s_deferred := s_deferred s; s_last_recorded := s_last_recorded s; s_last_bcast := s_last_bcast s;
     s_sol_buf := s_sol_buf s; s_unsol_buf := s_unsol_buf s; s_pending := s_pending s;
     s_frame_id := s_frame_id s; s_notify := s_notify s; s_sel_status := s_sel_status s;
     s_op_status := s_op_status s; s_app_iin := s_app_iin s; s_answers := s_answers s;
     s_bcast_rep := s_bcast_rep s |}.
Definition upd_enabled (s : ostate) (e : bool * bool * bool) : ostate :=
  {| s_now := s_now s; s_control := s_control s; s_restart_iin := s_restart_iin s; s_enabled := e;
     s_last := s_last s; s_select := s_select s; s_unsol := s_unsol s; s_unsol_seq := s_unsol_seq s;
     s_deferred := s_deferred s; s_last_recorded := s_last_recorded s; s_last_bcast := s_last_bcast s;
     s_sol_buf := s_sol_buf s; s_unsol_buf := s_unsol_buf s; s_pending := s_pending s;
     s_frame_id := s_frame_id s; s_notify := s_notify s; s_sel_status := s_sel_status s;
     s_op_status := s_op_status s; s_app_iin := s_app_iin s; s_answers := s_answers s;
     s_bcast_rep := s_bcast_rep s |}.
Definition upd_last (s : ostate) (l : option last_request) : ostate :=
  {| s_now := s_now s; s_control := s_control s; s_restart_iin := s_restart_iin s; s_enabled := s_enabled s;
     s_last := l; s_select := s_select s; s_unsol := s_unsol s; s_unsol_seq := s_unsol_seq s;
     s_deferred := s_deferred s; s_last_recorded := s_last_recorded s; s_last_bcast := s_last_bcast s;
     s_sol_buf := s_sol_buf s; s_unsol_buf := s_unsol_buf s; s_pending := s_pending s;
     s_frame_id := s_frame_id s; s_notify := s_notify s; s_sel_status := s_sel_status s;
     s_op_status := s_op_status s; s_app_iin := s_app_iin s; s_answers := s_answers s;
     s_bcast_rep := s_bcast_rep s |}.
Definition upd_select (s : ostate) (x : option select_state) : ostate :=
  {| s_now := s_now s; s_control := s_control s; s_restart_iin := s_restart_iin s; s_enabled := s_enabled s;
     s_last := s_last s; s_select := x; s_unsol := s_unsol s; s_unsol_seq := s_unsol_seq s;
     s_deferred := s_deferred s; s_last_recorded := s_last_recorded s; s_last_bcast := s_last_bcast s;
     s_sol_buf := s_sol_buf s; s_unsol_buf := s_unsol_buf s; s_pending := s_pending s;
     s_frame_id := s_frame_id s; s_notify := s_notify s; s_sel_status := s_sel_status s;
     s_op_status := s_op_status s; s_app_iin := s_app_iin s; s_answers := s_answers s;
     s_bcast_rep := s_bcast_rep s |}.
Definition upd_unsol (s : ostate) (u : unsol_state) : ostate :=
  {| s_now := s_now s; s_control := s_control s; s_restart_iin := s_restart_iin s; s_enabled := s_enabled s;
     s_last := s_last s; s_select := s_select s; s_unsol := u; s_unsol_seq := s_unsol_seq s;
     s_deferred := s_deferred s; s_last_recorded := s_last_recorded s; s_last_bcast := s_last_bcast s;
     s_sol_buf := s_sol_buf s; s_unsol_buf := s_unsol_buf s; s_pending := s_pending s;
     s_frame_id := s_frame_id s; s_notify := s_notify s; s_sel_status := s_sel_status s;
     s_op_status := s_op_status s; s_app_iin := s_app_iin s; s_answers := s_answers s;
     s_bcast_rep := s_bcast_rep s |}.
Definition upd_unsol_seq (s : ostate) (q : N) : ostate :=
  {| s_now := s_now s; s_control := s_control s; s_restart_iin := s_restart_iin s; s_enabled := s_enabled s;
     s_last := s_last s; s_select := s_select s; s_unsol := s_unsol s; s_unsol_seq := q;
     s_deferred := s_deferred s; s_last_recorded := s_last_recorded s; s_last_bcast := s_last_bcast s;
     s_sol_buf := s_sol_buf s; s_unsol_buf := s_unsol_buf s; s_pending := s_pending s;
     s_frame_id := s_frame_id s; s_notify := s_notify s; s_sel_status := s_sel_status s;
     s_op_status := s_op_status s; s_app_iin := s_app_iin s; s_answers := s_answers s;
     s_bcast_rep := s_bcast_rep s |}.
Definition upd_deferred (s : ostate) (d : option deferred) : ostate :=
  {| s_now := s_now s; s_control := s_control s; s_restart_iin := s_restart_iin s; s_enabled := s_enabled s;
     s_last := s_last s; s_select := s_select s; s_unsol := s_unsol s; s_unsol_seq := s_unsol_seq s;
     s_deferred := d; s_last_recorded := s_last_recorded s; s_last_bcast := s_last_bcast s;
     s_sol_buf := s_sol_buf s; s_unsol_buf := s_unsol_buf s; s_pending := s_pending s;
     s_frame_id := s_frame_id s; s_notify := s_notify s; s_sel_status := s_sel_status s;
     s_op_status := s_op_status s; s_app_iin := s_app_iin s; s_answers := s_answers s;
     s_bcast_rep := s_bcast_rep s |}.
Definition upd_last_recorded (s : ostate) (t : option Z) : ostate :=
  {| s_now := s_now s; s_control := s_control s; s_restart_iin := s_restart_iin s; s_enabled := s_enabled s;
     s_last := s_last s; s_select := s_select s; s_unsol := s_unsol s; s_unsol_seq := s_unsol_seq s;
     s_deferred := s_deferred s; s_last_recorded := t; s_last_bcast := s_last_bcast s;
     s_sol_buf := s_sol_buf s; s_unsol_buf := s_unsol_buf s; s_pending := s_pending s;
     s_frame_id := s_frame_id s; s_notify := s_notify s; s_sel_status := s_sel_status s;
     s_op_status := s_op_status s; s_app_iin := s_app_iin s; s_answers := s_answers s;
     s_bcast_rep := s_bcast_rep s |}.
Definition upd_last_bcast (s : ostate) (b : option bcast_mode) : ostate :=
  {| s_now := s_now s; s_control := s_control s; s_restart_iin := s_restart_iin s; s_enabled := s_enabled s;
     s_last := s_last s; s_select := s_select s; s_unsol := s_unsol s; s_unsol_seq := s_unsol_seq s;
     s_deferred := s_deferred s; s_last_recorded := s_last_recorded s; s_last_bcast := b;
     s_sol_buf := s_sol_buf s; s_unsol_buf := s_unsol_buf s; s_pending := s_pending s;
     s_frame_id := s_frame_id s; s_notify := s_notify s; s_sel_status := s_sel_status s;
     s_op_status := s_op_status s; s_app_iin := s_app_iin s; s_answers := s_answers s;
     s_bcast_rep := s_bcast_rep s |}.
Definition upd_bcast_rep (s : ostate) (r : option (bool * N)) : ostate :=
  {| s_now := s_now s; s_control := s_control s; s_restart_iin := s_restart_iin s; s_enabled := s_enabled s;
     s_last := s_last s; s_select := s_select s; s_unsol := s_unsol s; s_unsol_seq := s_unsol_seq s;
     s_deferred := s_deferred s; s_last_recorded := s_last_recorded s; s_last_bcast := s_last_bcast s;
     s_sol_buf := s_sol_buf s; s_unsol_buf := s_unsol_buf s; s_pending := s_pending s;
     s_frame_id := s_frame_id s; s_notify := s_notify s; s_sel_status := s_sel_status s;
     s_op_status := s_op_status s; s_app_iin := s_app_iin s; s_answers := s_answers s;
     s_bcast_rep := r |}.
Definition upd_sol_buf (s : ostate) (b : list N) : ostate :=
  {| s_now := s_now s; s_control := s_control s; s_restart_iin := s_restart_iin s; s_enabled := s_enabled s;
     s_last := s_last s; s_select := s_select s; s_unsol := s_unsol s; s_unsol_seq := s_unsol_seq s;
     s_deferred := s_deferred s; s_last_recorded := s_last_recorded s; s_last_bcast := s_last_bcast s;
     s_sol_buf := b; s_unsol_buf := s_unsol_buf s; s_pending := s_pending s;
     s_frame_id := s_frame_id s; s_notify := s_notify s; s_sel_status := s_sel_status s;
     s_op_status := s_op_status s; s_app_iin := s_app_iin s; s_answers := s_answers s;
     s_bcast_rep := s_bcast_rep s |}.
Definition upd_unsol_buf (s : ostate) (b : list N) : ostate :=
  {| s_now := s_now s; s_control := s_control s; s_restart_iin := s_restart_iin s; s_enabled := s_enabled s;
     s_last := s_last s; s_select := s_select s; s_unsol := s_unsol s; s_unsol_seq := s_unsol_seq s;
     s_deferred := s_deferred s; s_last_recorded := s_last_recorded s; s_last_bcast := s_last_bcast s;
     s_sol_buf := s_sol_buf s; s_unsol_buf := b; s_pending := s_pending s;
     s_frame_id := s_frame_id s; s_notify := s_notify s; s_sel_status := s_sel_status s;
     s_op_status := s_op_status s; s_app_iin := s_app_iin s; s_answers := s_answers s;
     s_bcast_rep := s_bcast_rep s |}.
Definition upd_pending (s : ostate) (p : option (N * option bcast_mode * list N * digest * N)) : ostate :=
  {| s_now := s_now s; s_control := s_control s; s_restart_iin := s_restart_iin s; s_enabled := s_enabled s;
     s_last := s_last s; s_select := s_select s; s_unsol := s_unsol s; s_unsol_seq := s_unsol_seq s;
     s_deferred := s_deferred s; s_last_recorded := s_last_recorded s; s_last_bcast := s_last_bcast s;
     s_sol_buf := s_sol_buf s; s_unsol_buf := s_unsol_buf s; s_pending := p;
     s_frame_id := s_frame_id s; s_notify := s_notify s; s_sel_status := s_sel_status s;
     s_op_status := s_op_status s; s_app_iin := s_app_iin s; s_answers := s_answers s;
     s_bcast_rep := s_bcast_rep s |}.
Definition upd_frame_id (s : ostate) (f : N) : ostate :=
  {| s_now := s_now s; s_control := s_control s; s_restart_iin := s_restart_iin s; s_enabled := s_enabled s;
     s_last := s_last s; s_select := s_select s; s_unsol := s_unsol s; s_unsol_seq := s_unsol_seq s;
     s_deferred := s_deferred s; s_last_recorded := s_last_recorded s; s_last_bcast := s_last_bcast s;
     s_sol_buf := s_sol_buf s; s_unsol_buf := s_unsol_buf s; s_pending := s_pending s;
     s_frame_id := f; s_notify := s_notify s; s_sel_status := s_sel_status s;
     s_op_status := s_op_status s; s_app_iin := s_app_iin s; s_answers := s_answers s;
     s_bcast_rep := s_bcast_rep s |}.
Definition upd_notify (s : ostate) (b : bool) : ostate :=
  {| s_now := s_now s; s_control := s_control s; s_restart_iin := s_restart_iin s; s_enabled := s_enabled s;
     s_last := s_last s; s_select := s_select s; s_unsol := s_unsol s; s_unsol_seq := s_unsol_seq s;
     s_deferred := s_deferred s; s_last_recorded := s_last_recorded s; s_last_bcast := s_last_bcast s;
     s_sol_buf := s_sol_buf s; s_unsol_buf := s_unsol_buf s; s_pending := s_pending s;
     s_frame_id := s_frame_id s; s_notify := b; s_sel_status := s_sel_status s;
     s_op_status := s_op_status s; s_app_iin := s_app_iin s; s_answers := s_answers s;
     s_bcast_rep := s_bcast_rep s |}.
Definition upd_knobs (s : ostate) (sel op appiin : N) : ostate :=
  {| s_now := s_now s; s_control := s_control s; s_restart_iin := s_restart_iin s; s_enabled := s_enabled s;
     s_last := s_last s; s_select := s_select s; s_unsol := s_unsol s; s_unsol_seq := s_unsol_seq s;
     s_deferred := s_deferred s; s_last_recorded := s_last_recorded s; s_last_bcast := s_last_bcast s;
     s_sol_buf := s_sol_buf s; s_unsol_buf := s_unsol_buf s; s_pending := s_pending s;
     s_frame_id := s_frame_id s; s_notify := s_notify s; s_sel_status := sel;
     s_op_status := op; s_app_iin := appiin; s_answers := s_answers s;
     s_bcast_rep := s_bcast_rep s |}.
Definition upd_answers (s : ostate) (a : list answer) : ostate :=
  {| s_now := s_now s; s_control := s_control s; s_restart_iin := s_restart_iin s; s_enabled := s_enabled s;
     s_last := s_last s; s_select := s_select s; s_unsol := s_unsol s; s_unsol_seq := s_unsol_seq s;
     s_deferred := s_deferred s; s_last_recorded := s_last_recorded s; s_last_bcast := s_last_bcast s;
     s_sol_buf := s_sol_buf s; s_unsol_buf := s_unsol_buf s; s_pending := s_pending s;
     s_frame_id := s_frame_id s; s_notify := s_notify s; s_sel_status := s_sel_status s;
     s_op_status := s_op_status s; s_app_iin := s_app_iin s; s_answers := a;
     s_bcast_rep := s_bcast_rep s |}.

(* SessionState::reset *)
Definition session_reset (s : ostate) : ostate :=
  upd_bcast_rep (upd_deferred (upd_select (upd_last s None) None) None) None.

(* ---------- asking the environment ------------------------------------------------------------ *)

Definition ask_evinfo (s : ostate) : ostate * (bool * bool * bool * bool) * list oobs :=
  match s_answers s with
  | AEvinfo a b c o :: rest => (upd_answers s rest, (a, b, c, o), [ODb DbEvinfo])
  | _ => (s, (false, false, false, false), [ODb DbEvinfo; OMissingAnswer])
  end.

Definition ask_iin2 (s : ostate) (call : dbcall) : ostate * N * list oobs :=
  match s_answers s with
  | AIin2 v :: rest => (upd_answers s rest, v, [ODb call])
  | _ => (s, 0, [ODb call; OMissingAnswer])
  end.

Definition ask_write (s : ostate) : ostate * (bool * bool * list N) * list oobs :=
  match s_answers s with
  | AWrite c e b :: rest => (upd_answers s rest, (c, e, b), [ODb DbWrite])
  | _ => (s, (true, false, []), [ODb DbWrite; OMissingAnswer])
  end.

(* the unsolicited probe: when the trace holds no answer the database had nothing to report *)
Definition ask_unsol (s : ostate) : ostate * (N * list N) :=
  match s_answers s with
  | AUnsol n b :: rest => (upd_answers s rest, (n, b))
  | _ => (s, (0, []))
  end.

(* ---------- get_response_iin ------------------------------------------------------------------ *)

Definition b2n (b : bool) (v : N) : N := if b then v else 0.

Definition response_iin (s : ostate) : ostate * (N * N) * list oobs :=
  let '(s1, (c1, c2, c3, ovf), o) := ask_evinfo s in
  let bc := match s_last_bcast s1 with Some _ => 1 | None => 0 end in
  let s2 := match s_last_bcast s1 with
            | Some BMandatory => s1
            | Some _ => upd_last_bcast s1 None
            | None => s1
            end in
  let a := s_app_iin s2 in
  let iin1 := b2n (s_restart_iin s2) 128 + b2n c1 2 + b2n c2 4 + b2n c3 8 + bc
              + b2n (N.testbit a 0) 16 + b2n (N.testbit a 1) 32 + b2n (N.testbit a 2) 64 in
  let iin2 := b2n ovf 8 + b2n (N.testbit a 3) 32 in
  (s2, (iin1, iin2), o).

Definition or_iin (r : response) (iin : N * N) : response :=
  {| r_ctl := r_ctl r; r_fn := r_fn r; r_iin1 := N.lor (r_iin1 r) (fst iin);
     r_iin2 := N.lor (r_iin2 r) (snd iin); r_size := r_size r |}.

Definition with_ctl (r : response) (c : N) : response :=
  {| r_ctl := c; r_fn := r_fn r; r_iin1 := r_iin1 r; r_iin2 := r_iin2 r; r_size := r_size r |}.

(* SessionState::broadcast_reported / broadcast_confirmed (fix F25): a confirm-mandatory indication is cleared
   only by the CONFIRM of the response that reported it *)
Definition bcast_reported (s : ostate) (ctl : N) : ostate :=
  match s_last_bcast s with
  | Some BMandatory => upd_bcast_rep s (Some (ctl_uns ctl, ctl_seq ctl))
  | _ => s
  end.

Definition rep_eqb (r : option (bool * N)) (uns : bool) (seq : N) : bool :=
  match r with
  | Some (u, q) => Bool.eqb u uns && (q =? seq)
  | None => false
  end.

Definition bcast_confirmed (s : ostate) (uns : bool) (seq : N) : ostate :=
  if rep_eqb (s_bcast_rep s) uns seq then upd_last_bcast (upd_bcast_rep s None) None else s.

(* write_solicited: returns the response as sent *)
Definition write_solicited (s : ostate) (dest : N) (r : response) : ostate * response * list oobs :=
  let '(s1, iin, o) := response_iin s in
  let r1 := or_iin r iin in
  let r2 := match s_last_bcast s1 with
            | Some BMandatory => with_ctl r1 (set_con (r_ctl r1))
            | _ => r1
            end in
  (bcast_reported s1 (r_ctl r2), r2, o ++ [OTx dest (response_bytes r2 (s_sol_buf s1))]).

Definition repeat_solicited (s : ostate) (dest : N) (r : response) : list oobs :=
  [OTx dest (response_bytes r (s_sol_buf s))].

Definition write_unsolicited (cfg : ocfg) (s : ostate) (r : response) : ostate * response * list oobs :=
  let '(s1, iin, o) := response_iin s in
  let r1 := or_iin r iin in
  (bcast_reported s1 (r_ctl r1), r1, o ++ [OTx (o_master cfg) (response_bytes r1 (s_unsol_buf s1))]).

Definition repeat_unsolicited (cfg : ocfg) (s : ostate) (r : response) : list oobs :=
  [OTx (o_master cfg) (response_bytes r (s_unsol_buf s))].

(* ---------- classification ---------------------------------------------------------------------- *)

Fixpoint bytes_eqb (a b : list N) : bool :=
  match a, b with
  | [], [] => true
  | x :: a', y :: b' => (x =? y) && bytes_eqb a' b'
  | _, _ => false
  end.

Inductive fragment_type :=
| FtMalformed (iin2 : N)
| FtNewRead (hdrs : list whdr) (rh : list bool)
| FtRepeatRead (resp : option response) (hdrs : list whdr) (rh : list bool)
| FtNewNonRead (hdrs : list whdr)
| FtRepeatNonRead (resp : option response)
| FtBroadcast (m : bcast_mode)
| FtSolConfirm (seq : N)
| FtUnsolConfirm (seq : N).

Definition classify (s : ostate) (bc : option bcast_mode) (bytes : list N) (ctl fn : N) (obj : objres)
  : fragment_type :=
  match bc with
  | Some m => FtBroadcast m
  | None =>
    if fn =? fn_confirm then (if ctl_uns ctl then FtUnsolConfirm (ctl_seq ctl) else FtSolConfirm (ctl_seq ctl))
    else
      match obj with
      | ObjErr iin2 => FtMalformed iin2
      | ObjOk hdrs rh =>
          let repeat := match s_last s with
                        | Some l => (lr_seq l =? ctl_seq ctl) && bytes_eqb (lr_bytes l) bytes
                        | None => false
                        end in
          if repeat then
            (if fn =? fn_read then FtRepeatRead (match s_last s with Some l => lr_response l | None => None end) hdrs rh
             else FtRepeatNonRead (match s_last s with Some l => lr_response l | None => None end))
          else (if fn =? fn_read then FtNewRead hdrs rh else FtNewNonRead hdrs)
      end
  end.

(* ---------- control echo --------------------------------------------------------------------- *)

Definition replace_status (obj : list N) (status : N) : list N :=
  match obj with
  | [] => []
  | _ => firstn (length obj - 1) obj ++ [status]
  end.

Definition index_bytes (prefix idx : N) : list N :=
  if prefix =? 1 then [idx mod 256] else [lo8 idx; hi8 idx].

Definition count_bytes (prefix n : N) : list N :=
  if prefix =? 1 then [n mod 256] else [lo8 n; hi8 n].

Definition qualifier_of (prefix : N) : N := if prefix =? 1 then 23 else 40.

(* PrefixWriter: header on the first item, count patched per item; an item that does not fit
   the remaining space stops everything (WriteError) *)
Section Echo.
  Variable cap : nat.   (* space for the echo = buffer size - 4 *)

  (* one header: items already decided as (index, object-with-status); returns written bytes and
     whether everything fitted *)
  Fixpoint echo_items (g v prefix : N) (written : list N) (n : N) (hdr_start : nat)
           (items : list (N * list N)) : list N * bool :=
    match items with
    | [] => (written, true)
    | (idx, obj) :: rest =>
        let item := index_bytes prefix idx ++ obj in
        let hdr := if n =? 0 then [g; v; qualifier_of prefix] ++ count_bytes prefix 0 else [] in
        let attempt := written ++ hdr ++ item in
        if (cap <? length attempt)%nat then (written, false)
        else
          (* patch the count *)
          let cpos := (hdr_start + 3)%nat in
          let patched := firstn cpos attempt ++ count_bytes prefix (n + 1)
                         ++ skipn (cpos + length (count_bytes prefix 0)) attempt in
          echo_items g v prefix patched (n + 1) hdr_start rest
    end.
End Echo.

Definition first_error (a b : N) : N := if a =? 0 then b else a.

(* run the handler over all control headers; `decide` gives the status of an item (a callback
   is emitted when the handler is consulted) *)
Inductive ctl_mode := CmSelect | CmOperate (t : optype) | CmStatus (status : N).

Definition item_status (s : ostate) (cfg : ocfg) (mode : ctl_mode) (num : N) : N * bool (* consulted *) :=
  match mode with
  | CmStatus st => (st, false)
  | _ =>
      let within := match o_max_controls cfg with None => true | Some m => num <? m end in
      if within then (match mode with CmSelect => s_sel_status s | _ => s_op_status s end, true)
      else (8 (* TooManyOps *), false)
  end.

Fixpoint ctl_items (s : ostate) (cfg : ocfg) (mode : ctl_mode) (g v : N) (num : N) (started : bool)
         (items : list (N * list N))
  : list (N * list N) * list oobs * N (* status *) * N (* num *) * bool (* started *) :=
  match items with
  | [] => ([], [], 0, num, started)
  | (idx, obj) :: rest =>
      let '(st, consulted) := item_status s cfg mode num in
      let cb := if consulted then
                  (if started then [] else [OCb CbBeginFragment]) ++
                  [OCb (match mode with
                        | CmSelect => CbSelect g v idx obj
                        | CmOperate t => CbOperate g v idx t obj
                        | CmStatus _ => CbSelect g v idx obj
                        end)]
                else [] in
      let '(items', cbs, st', num', started') :=
        ctl_items s cfg mode g v (num + 1) (started || consulted) rest in
      ((idx, replace_status obj st) :: items', cb ++ cbs, first_error st st', num', started')
  end.

(* all headers; stops writing at the first item that does not fit, but — as the code does —
   the handler has already been consulted for the items of the header being written only up to
   the failing one.  To stay exact the echo is produced header by header, item by item. *)
Fixpoint ctl_one_header (s : ostate) (cfg : ocfg) (cap : nat) (mode : ctl_mode) (g v prefix : N)
         (written : list N) (n : N) (hdr_start : nat) (num : N) (started : bool)
         (items : list (N * list N))
  : list N * bool (* fitted *) * list oobs * N * N * bool :=
  match items with
  | [] => (written, true, [], 0, num, started)
  | (idx, obj) :: rest =>
      let '(st, consulted) := item_status s cfg mode num in
      let cb := if consulted then
                  (if started then [] else [OCb CbBeginFragment]) ++
                  [OCb (match mode with
                        | CmOperate t => CbOperate g v idx t obj
                        | _ => CbSelect g v idx obj
                        end)]
                else [] in
      let started1 := started || consulted in
      let '(w1, ok) := echo_items cap g v prefix written n hdr_start [(idx, replace_status obj st)] in
      if ok then
        let '(w2, ok2, cbs, st2, num2, started2) :=
          ctl_one_header s cfg cap mode g v prefix w1 (n + 1) hdr_start (num + 1) started1 rest in
        (w2, ok2, cb ++ cbs, first_error st st2, num2, started2)
      else (w1, false, cb, st, num + 1, started1)
  end.

Fixpoint ctl_headers (s : ostate) (cfg : ocfg) (cap : nat) (mode : ctl_mode) (written : list N)
         (num : N) (started : bool) (hdrs : list whdr)
  : list N * bool * list oobs * N * bool :=
  match hdrs with
  | [] => (written, true, [], 0, started)
  | WCtl g v prefix items :: rest =>
      let '(w1, ok, cbs, st, num1, started1) :=
        ctl_one_header s cfg cap mode g v prefix written 0 (length written) num started items in
      if ok then
        let '(w2, ok2, cbs2, st2, started2) := ctl_headers s cfg cap mode w1 num1 started1 rest in
        (w2, ok2, cbs ++ cbs2, first_error st st2, started2)
      else (w1, false, cbs, st, started1)
  | _ :: rest => ctl_headers s cfg cap mode written num started rest
  end.

Definition all_controls (hdrs : list whdr) : bool :=
  forallb (fun h => match h with WCtl _ _ _ _ => true | _ => false end) hdrs.

(* operate_no_ack: no echo, every item within the limit is operated *)
Fixpoint noack_items (s : ostate) (cfg : ocfg) (g v : N) (num : N) (started : bool) (items : list (N * list N))
  : list oobs * N * bool :=
  match items with
  | [] => ([], num, started)
  | (idx, obj) :: rest =>
      let within := match o_max_controls cfg with None => true | Some m => num <? m end in
      let cb := if within then (if started then [] else [OCb CbBeginFragment]) ++ [OCb (CbOperate g v idx OpDoNr obj)] else [] in
      let '(cbs, num', started') := noack_items s cfg g v (num + 1) (started || within) rest in
      (cb ++ cbs, num', started')
  end.

Fixpoint noack_headers (s : ostate) (cfg : ocfg) (num : N) (started : bool) (hdrs : list whdr) : list oobs * bool :=
  match hdrs with
  | [] => ([], started)
  | WCtl g v _ items :: rest =>
      let '(cbs, num1, started1) := noack_items s cfg g v num started items in
      let '(cbs2, started2) := noack_headers s cfg num1 started1 rest in
      (cbs ++ cbs2, started2)
  | _ :: rest => noack_headers s cfg num started rest
  end.

Definition objects_of (bytes : list N) : list N := skipn 2 bytes.

(* SelectState::match_operate *)
Definition match_operate (cfg : ocfg) (s : ostate) (sel : select_state) (seq frame_id : N) (objs : list N)
  : option N (* None = ok, Some status *) :=
  if negb (seq16_next (ss_seq sel) =? seq) then Some 2
  else if negb ((ss_frame_id sel + 1) mod 4294967296 =? frame_id) then Some 2
  else if negb (bytes_eqb (ss_objects sel) objs) then Some 2
  else if (o_select_ms cfg <? s_now s - ss_time sel)%Z then Some 1
  else None.

Definition control_response (seq : N) (status : N) (echo_len : nat) : response :=
  {| r_ctl := ctl_byte true true false false seq; r_fn := fn_response; r_iin1 := 0;
     r_iin2 := if status =? 4 then iin2_param else 0; r_size := (4 + echo_len)%nat |}.

(* handle_controls *)
Definition handle_controls (cfg : ocfg) (s : ostate) (fn seq frame_id : N) (bytes : list N) (hdrs : list whdr)
  : ostate * option response * list oobs :=
  if negb (all_controls hdrs) then
    (s, if fn =? fn_direct_operate_nr then None else Some (empty_solicited seq iin2_param), [])
  else
    let cap := (o_sol_tx cfg - 4)%nat in
    let finish (started : bool) := if started then [OCb CbEndFragment] else [] in
    if fn =? fn_direct_operate_nr then
      let '(cbs, started) := noack_headers s cfg 0 false hdrs in
      (s, None, cbs ++ finish started)
    else if fn =? fn_select then
      let '(echo, ok, cbs, st, started) := ctl_headers s cfg cap CmSelect [] 0 false hdrs in
      let s1 := upd_sol_buf s (buf_set (s_sol_buf s) echo) in
      let s2 := if ok && (st =? 0)
                then upd_select s1 (Some {| ss_seq := seq; ss_frame_id := frame_id; ss_time := s_now s;
                                            ss_objects := objects_of bytes |})
                else s1 in
      (s2, Some (control_response seq (if ok then st else 0) (length echo)), cbs ++ finish started)
    else if fn =? fn_direct_operate then
      let '(echo, ok, cbs, st, started) := ctl_headers s cfg cap (CmOperate OpDo) [] 0 false hdrs in
      (upd_sol_buf s (buf_set (s_sol_buf s) echo),
       Some (control_response seq (if ok then st else 0) (length echo)), cbs ++ finish started)
    else (* OPERATE *)
      let verdict := match s_select s with
                     | Some sel => match_operate cfg s sel seq frame_id (objects_of bytes)
                     | None => Some 2
                     end in
      match verdict with
      | Some status =>
          let '(echo, ok, _, _, _) := ctl_headers s cfg cap (CmStatus status) [] 0 false hdrs in
          (upd_sol_buf s (buf_set (s_sol_buf s) echo), Some (control_response seq status (length echo)), [])
      | None =>
          let '(echo, ok, cbs, st, started) := ctl_headers s cfg cap (CmOperate OpSbo) [] 0 false hdrs in
          (upd_sol_buf s (buf_set (s_sol_buf s) echo),
           Some (control_response seq (if ok then st else 8) (length echo)), cbs ++ finish started)
      end.

(* ---------- the other non-READ functions ---------------------------------------------------- *)

Fixpoint write_iin_bits (s : ostate) (bits : list (N * bool)) : ostate * N * list oobs :=
  match bits with
  | [] => (s, 0, [])
  | (idx, value) :: rest =>
      if idx =? 7 then
        if value then
          let '(s1, v, o) := write_iin_bits s rest in (s1, N.lor iin2_param v, o)
        else
          let '(s1, v, o) := write_iin_bits (upd_restart s false) rest in (s1, v, OInfo IClearRestart :: o)
      else
        let '(s1, v, o) := write_iin_bits s rest in (s1, N.lor iin2_param v, o)
  end.

Definition max_timestamp : N := 281474976710655.

Definition write_header (cfg : ocfg) (s : ostate) (h : whdr) : ostate * N * list oobs :=
  match h with
  | WIin bits => write_iin_bits s bits
  | WAbsTime (Some t) => (s, req_result_iin2 (o_wtime cfg), [OCb (CbWriteTime t)])
  | WAbsTime None => (s, iin2_param, [])
  | WLastRec None => (s, iin2_param, [])
  | WLastRec (Some t) =>
      match s_last_recorded s with
      | None => (s, iin2_param, [])
      | Some t0 =>
          let delay := Z.to_N (s_now s - t0) in
          if max_timestamp - t <? delay then (s, iin2_param, [])
          else (upd_last_recorded s None, req_result_iin2 (o_wtime cfg), [OCb (CbWriteTime (t + delay))])
      end
  | WAttr => (s, iin2_no_func, [])
  | WDb34 => (s, iin2_no_func, [])
  | _ => (s, iin2_no_func, [])
  end.

Fixpoint handle_write_headers (cfg : ocfg) (s : ostate) (hdrs : list whdr) : ostate * N * list oobs :=
  match hdrs with
  | [] => (s, 0, [])
  | h :: rest =>
      let '(s1, v1, o1) := write_header cfg s h in
      let '(s2, v2, o2) := handle_write_headers cfg s1 rest in
      (s2, N.lor v1 v2, o1 ++ o2)
  end.

Definition freeze_header (cfg : ocfg) (ftype time interval : N) (h : whdr) : N * list oobs :=
  match h with
  | WFrzAll => (req_result_iin2 (o_freeze cfg), [OCb (CbFreeze None ftype time interval)])
  | WFrzRange a b => (req_result_iin2 (o_freeze cfg), [OCb (CbFreeze (Some (a, b)) ftype time interval)])
  | _ => (iin2_no_func, [])
  end.

Fixpoint handle_freeze (cfg : ocfg) (ftype : N) (hdrs : list whdr) : N * list oobs :=
  match hdrs with
  | [] => (0, [])
  | h :: rest =>
      let '(v1, o1) := freeze_header cfg ftype 0 0 h in
      let '(v2, o2) := handle_freeze cfg ftype rest in
      (N.lor v1 v2, o1 ++ o2)
  end.

Fixpoint handle_freeze_at_time (cfg : ocfg) (timing : option (N * N)) (hdrs : list whdr) : N * list oobs :=
  match hdrs with
  | [] => (0, [])
  | WFt None :: rest => let '(v, o) := handle_freeze_at_time cfg timing rest in (N.lor iin2_param v, o)
  | WFt (Some x) :: rest => handle_freeze_at_time cfg (Some x) rest
  | h :: rest =>
      match timing with
      | None => let '(v, o) := handle_freeze_at_time cfg timing rest in (N.lor iin2_param v, o)
      | Some (t, i) =>
          let '(v1, o1) := freeze_header cfg 2 t i h in
          let '(v2, o2) := handle_freeze_at_time cfg timing rest in
          (N.lor v1 v2, o1 ++ o2)
      end
  end.

Definition enable_disable (cfg : ocfg) (s : ostate) (enable : bool) (seq : N) (hdrs : list whdr) : ostate * response :=
  if negb (o_unsol cfg) then (s, empty_solicited seq iin2_no_func)
  else
    let step (acc : (bool * bool * bool) * N) (h : whdr) :=
      let '((c1, c2, c3), v) := acc in
      match h with
      | WCls 1 => ((enable, c2, c3), v)
      | WCls 2 => ((c1, enable, c3), v)
      | WCls 3 => ((c1, c2, enable), v)
      | _ => ((c1, c2, c3), N.lor v iin2_no_func)
      end in
    let '(e, v) := fold_left step hdrs (s_enabled s, 0) in
    (upd_enabled s e, empty_solicited seq v).

Definition objects_allowed (fn : N) : bool :=
  negb ((fn =? fn_confirm) || (fn =? fn_cold_restart) || (fn =? fn_warm_restart)
        || (fn =? 15) (* initialize data *) || (fn =? 19) (* save configuration *)
        || (fn =? fn_delay_measure) || (fn =? fn_record_time)).

Definition count_of_one (g v : N) (value : N) : list N := [g; v; 7; 1; lo8 value; hi8 value].

Definition restart_response (seq : N) (s : ostate) (d : option (bool * N)) : ostate * response :=
  match d with
  | None => (s, empty_solicited seq iin2_no_func)
  | Some (ms, v) =>
      let body := count_of_one 52 (if ms then 2 else 1) v in
      (upd_sol_buf s (buf_set (s_sol_buf s) body),
       {| r_ctl := ctl_byte true true false false seq; r_fn := fn_response; r_iin1 := 0; r_iin2 := 0; r_size := 10 |})
  end.

(* handle_non_read; iin2 of get_iin2 is ORed in by the caller through `empty` *)
Definition handle_non_read (cfg : ocfg) (s : ostate) (fn seq frame_id : N) (bytes : list N) (hdrs : list whdr)
  : ostate * option response * list oobs :=
  let extra := if objects_allowed fn then 0 else match hdrs with [] => 0 | _ => iin2_param end in
  let fin (x : ostate * option response * list oobs) :=
    let '(s1, r, o) := x in (s1, match r with Some r => Some (with_iin2 r extra) | None => None end, o) in
  fin (
    if fn =? fn_write then
      let '(s1, v, o) := handle_write_headers cfg s hdrs in (s1, Some (empty_solicited seq v), o)
    else if fn =? fn_delay_measure then
      let body := count_of_one 52 2 (o_delay_ms cfg) in
      (upd_sol_buf s (buf_set (s_sol_buf s) body),
       Some {| r_ctl := ctl_byte true true false false seq; r_fn := fn_response; r_iin1 := 0; r_iin2 := 0; r_size := 10 |}, [])
    else if fn =? fn_record_time then
      (upd_last_recorded s (Some (s_now s)), Some (empty_solicited seq 0), [])
    else if fn =? fn_cold_restart then
      let '(s1, r) := restart_response seq s (o_cold cfg) in (s1, Some r, [OCb CbColdRestart])
    else if fn =? fn_warm_restart then
      let '(s1, r) := restart_response seq s (o_warm cfg) in (s1, Some r, [OCb CbWarmRestart])
    else if (fn =? fn_select) || (fn =? fn_operate) || (fn =? fn_direct_operate) || (fn =? fn_direct_operate_nr) then
      handle_controls cfg s fn seq frame_id bytes hdrs
    else if fn =? fn_immediate_freeze then
      let '(v, o) := handle_freeze cfg 0 hdrs in (s, Some (empty_solicited seq v), o)
    else if fn =? fn_immediate_freeze_nr then
      let '(v, o) := handle_freeze cfg 0 hdrs in (s, None, o)
    else if fn =? fn_freeze_clear then
      let '(v, o) := handle_freeze cfg 1 hdrs in (s, Some (empty_solicited seq v), o)
    else if fn =? fn_freeze_clear_nr then
      let '(v, o) := handle_freeze cfg 1 hdrs in (s, None, o)
    else if fn =? fn_freeze_at_time then
      let '(v, o) := handle_freeze_at_time cfg None hdrs in (s, Some (empty_solicited seq v), o)
    else if fn =? fn_freeze_at_time_nr then
      let '(v, o) := handle_freeze_at_time cfg None hdrs in (s, None, o)
    else if fn =? fn_enable_unsol then
      let '(s1, r) := enable_disable cfg s true seq hdrs in (s1, Some r, [])
    else if fn =? fn_disable_unsol then
      let '(s1, r) := enable_disable cfg s false seq hdrs in (s1, Some r, [])
    else (s, Some (empty_solicited seq iin2_no_func), [])).

(* ---------- READ -------------------------------------------------------------------------------- *)

Definition format_read_response (s : ostate) (fir : bool) (seq iin2 : N)
  : ostate * response * option series * list oobs :=
  let '(s1, (complete, has_events, body), o) := ask_write s in
  let need_confirm := has_events || negb complete in
  let s2 := upd_sol_buf s1 (buf_set (s_sol_buf s1) body) in
  (s2,
   {| r_ctl := ctl_byte fir complete need_confirm false seq; r_fn := fn_response; r_iin1 := 0;
      r_iin2 := iin2; r_size := (4 + length body)%nat |},
   if need_confirm then Some {| se_ecsn := seq; se_fin := complete |} else None,
   o).

Definition format_first_read_response (s : ostate) (seq : N) : ostate * response * option series * list oobs :=
  let '(s1, iin2, o1) := ask_iin2 s DbSelect in
  let '(s2, r, se, o2) := format_read_response s1 true seq iin2 in
  (s2, r, se, o1 ++ o2).

(* ---------- broadcast --------------------------------------------------------------------------- *)

Definition process_broadcast (cfg : ocfg) (s : ostate) (m : bcast_mode) (frame_id ctl fn : N) (bytes : list N)
           (obj : objres) : ostate * list oobs :=
  let s0 := upd_bcast_rep (upd_last_bcast s (Some m)) None in
  if negb (o_broadcast cfg) then (s0, [OInfo (IBroadcast fn 1 0)])
  else match obj with
  | ObjErr _ => (s0, [OInfo (IBroadcast fn 2 0)])
  | ObjOk hdrs _ =>
      let seq := ctl_seq ctl in
      let done (x : ostate * list oobs) := let '(s1, o) := x in (s1, o ++ [OInfo (IBroadcast fn 0 0)]) in
      if fn =? fn_write then
        let '(s1, _, o) := handle_write_headers cfg s0 hdrs in done (s1, o)
      else if fn =? fn_direct_operate_nr then
        let '(s1, _, o) := handle_controls cfg s0 fn seq frame_id bytes hdrs in done (s1, o)
      else if fn =? fn_immediate_freeze_nr then let '(_, o) := handle_freeze cfg 0 hdrs in done (s0, o)
      else if fn =? fn_freeze_clear_nr then let '(_, o) := handle_freeze cfg 1 hdrs in done (s0, o)
      else if fn =? fn_freeze_at_time_nr then let '(_, o) := handle_freeze_at_time cfg None hdrs in done (s0, o)
      else if fn =? fn_record_time then done (upd_last_recorded s0 (Some (s_now s0)), [])
      else if fn =? fn_disable_unsol then let '(s1, _) := enable_disable cfg s0 false seq hdrs in done (s1, [])
      else if fn =? fn_enable_unsol then let '(s1, _) := enable_disable cfg s0 true seq hdrs in done (s1, [])
      else (s0, [OInfo (IBroadcast fn 3 fn)])
  end.

(* BroadcastAction::Processed for a DISABLE_UNSOLICITED *)
Definition bcast_disable_processed (cfg : ocfg) (fn : N) (obj : objres) : bool :=
  o_broadcast cfg && (fn =? fn_disable_unsol) && match obj with ObjOk _ _ => true | ObjErr _ => false end.

(* ---------- requests as the transport reader presents them ---------------------------------------- *)

Inductive treq :=
| TqNone                                  (* filtered: foreign master *)
| TqError (seq : option N)                (* header parse / validation error *)
| TqRequest (ctl fn : N) (obj : objres).

Definition to_treq (cfg : ocfg) (from : N) (d : digest) : treq :=
  if negb (o_any_master cfg) && negb (from =? o_master cfg) then TqNone
  else match d with
  | DInsuf => TqError None
  | DUnknown seq _ => TqError (Some seq)
  | DOk ctl fn RvBad _ => TqError (Some (ctl_seq ctl))
  | DOk ctl fn RvOk obj => TqRequest ctl fn obj
  end.

(* write_error_response (after fix F8: nothing for a broadcast) *)
Definition write_error_response (s : ostate) (from : N) (bc : option bcast_mode) (seq : option N)
  : ostate * list oobs :=
  match bc, seq with
  | None, Some q =>
      let '(s1, _, o) := write_solicited s from (empty_solicited q iin2_no_func) in (s1, o)
  | _, _ => (s, [])
  end.

Definition mk_last (seq : N) (bytes : list N) (r : option response) (se : option series) : option last_request :=
  Some {| lr_seq := seq; lr_bytes := bytes; lr_response := r; lr_series := se |}.

(* DeferredRead::set *)
Definition deferred_set (s : ostate) (bytes : list N) (seq from : N) (rh : list bool) : ostate :=
  upd_deferred s (Some {| df_bytes := bytes; df_seq := seq; df_from := from;
                          df_iin2 := if forallb (fun b => b) rh then 0 else iin2_param |}).

Definition confirm_deadline (cfg : ocfg) (s : ostate) : Z := (s_now s + o_confirm_ms cfg)%Z.

(* handle_one_request_from_idle; the fragment is consumed (guard dropped) *)
Definition handle_from_idle (cfg : ocfg) (s : ostate) (from : N) (bc : option bcast_mode) (bytes : list N)
           (d : digest) (frame_id : N) : ostate * list oobs :=
  match to_treq cfg from d with
  | TqNone => (s, [])
  | TqError seq => write_error_response s from bc seq
  | TqRequest ctl fn obj =>
      let seq := ctl_seq ctl in
      let o0 := [OInfo (IIdleRequest fn seq)] in
      let ft := classify s bc bytes ctl fn obj in
      let finish (s1 : ostate) (resp : option response) (se : option series) (repeat : bool) (o1 : list oobs) :=
        (* write the optional response, record last request, maybe enter confirm wait *)
        match resp with
        | Some r =>
            if repeat then
              let o2 := repeat_solicited s1 from r in
              let se' := match se with None => if ctl_con (r_ctl r) then Some {| se_ecsn := ctl_seq (r_ctl r); se_fin := true |} else None | x => x end in
              let s2 := upd_last s1 (mk_last seq bytes (Some r) se') in
              match se' with
              | Some x => (upd_control s2 (CSolWait x (confirm_deadline cfg s2) RStep2), o0 ++ o1 ++ o2 ++ [OInfo (IEnterSolWait (se_ecsn x))])
              | None => (s2, o0 ++ o1 ++ o2)
              end
            else
              let '(s2, r', o2) := write_solicited s1 from r in
              let se' := match se with None => if ctl_con (r_ctl r') then Some {| se_ecsn := ctl_seq (r_ctl r'); se_fin := true |} else None | x => x end in
              let s3 := upd_last s2 (mk_last seq bytes (Some r') se') in
              match se' with
              | Some x => (upd_control s3 (CSolWait x (confirm_deadline cfg s3) RStep2), o0 ++ o1 ++ o2 ++ [OInfo (IEnterSolWait (se_ecsn x))])
              | None => (s3, o0 ++ o1 ++ o2)
              end
        | None => (upd_last s1 (mk_last seq bytes None se), o0 ++ o1)
        end in
      match ft with
      | FtMalformed iin2 => finish s (Some (empty_solicited seq iin2)) None false []
      | FtNewRead _ _ | FtRepeatRead _ _ _ =>
          let '(s1, r, se, o1) := format_first_read_response s seq in finish s1 (Some r) se false o1
      | FtNewNonRead hdrs =>
          let '(s1, r, o1) := handle_non_read cfg s fn seq frame_id bytes hdrs in finish s1 r None false o1
      | FtRepeatNonRead last =>
          let s1 := match s_select s with
                    | Some sel =>
                        (* SelectState::update_frame_id: only a retransmission directly after the select *)
                        if (ss_frame_id sel + 1) mod 4294967296 =? frame_id
                        then upd_select s (Some {| ss_seq := ss_seq sel; ss_frame_id := frame_id;
                                                   ss_time := ss_time sel; ss_objects := ss_objects sel |})
                        else s
                    | None => s
                    end in
          finish s1 last None true []
      | FtBroadcast m =>
          let '(s1, o1) := process_broadcast cfg s m frame_id ctl fn bytes obj in (s1, o0 ++ o1)
      | FtSolConfirm _ | FtUnsolConfirm _ => (s, o0)
      end
  end.

(* ---------- solicited confirm wait ------------------------------------------------------------------ *)

(* one fragment while waiting for a solicited confirm; None in the first component of the result
   = stay in the wait (possibly with a new deadline) *)
Inductive sol_outcome := SoStay (deadline : Z) | SoConfirmed (respond_to : N) | SoNewRequest.

Definition sol_wait_fragment (cfg : ocfg) (s : ostate) (se : series) (deadline : Z) (from : N)
           (bc : option bcast_mode) (bytes : list N) (d : digest) : sol_outcome * list oobs :=
  match to_treq cfg from d with
  | TqNone => (SoStay deadline, [])
  | TqError _ => (SoNewRequest, [OInfo ISolNewRequest])
  | TqRequest ctl fn obj =>
      match classify s bc bytes ctl fn obj with
      | FtRepeatRead resp _ _ =>
          (SoStay (confirm_deadline cfg s), match resp with Some r => repeat_solicited s from r | None => [] end)
      | FtSolConfirm q =>
          if q =? se_ecsn se then (SoConfirmed from, [OInfo (ISolConfirmed (se_ecsn se))])
          else (SoStay deadline, [OInfo (ISolWrongSeq (se_ecsn se) q)])
      | FtUnsolConfirm q => (SoStay deadline, [OInfo (IUnexpectedConfirm true q)])
      | _ => (SoNewRequest, [OInfo ISolNewRequest])
      end
  end.

(* ---------- unsolicited --------------------------------------------------------------------------- *)

Definition start_unsol (cfg : ocfg) (s : ostate) (r : response) (is_null : bool) : ostate * list oobs :=
  let '(s1, r1, o) := write_unsolicited cfg s r in
  let retries := if is_null then Some 0%nat else o_retries cfg in
  (upd_control s1 (CUnsolWait r1 is_null retries (confirm_deadline cfg s1)),
   o ++ [OInfo (IEnterUnsolWait (ctl_seq (r_ctl r1)))]).

Definition unsol_header (seq : N) (size : nat) : response :=
  {| r_ctl := ctl_byte true true true true seq; r_fn := fn_unsol_response; r_iin1 := 0; r_iin2 := 0; r_size := size |}.

Definition any_enabled (s : ostate) : bool := let '(a, b, c) := s_enabled s in a || b || c.

(* what the end of an unsolicited series does to the state (check_unsolicited's match arms) *)
Inductive unsol_result := UrConfirmed | UrTimeout | UrReturnToIdle.

Definition end_unsol (cfg : ocfg) (s : ostate) (is_null : bool) (res : unsol_result)
  : ostate * bool (* NoSleep *) * list oobs :=
  let s0 := upd_control s CIdle in
  if is_null then
    match res with
    | UrConfirmed => (upd_unsol s0 (UReady None), true, [])
    | _ => (upd_unsol s0 UNullRequired, true, [])
    end
  else
    match res with
    | UrConfirmed => (upd_unsol s0 (UReady None), true, [ODb DbClearWritten])
    | _ =>
        (* SleepUnit(retry_at): with a retry delay of zero the deadline is not in the future, the sleep returns at
           once and run_idle_state loops again in the same instant - the effect of NoSleep *)
        (upd_unsol s0 (UReady (Some (s_now s0 + o_retry_delay_ms cfg)%Z)), (o_retry_delay_ms cfg <=? 0)%Z, [ODb DbReset])
    end.

(* one fragment while waiting for an unsolicited confirm *)
Definition unsol_wait_fragment (cfg : ocfg) (s : ostate) (resp : response) (from : N) (bc : option bcast_mode)
           (bytes : list N) (d : digest) (frame_id : N) : ostate * option unsol_result * list oobs :=
  match to_treq cfg from d with
  | TqNone => (s, None, [])
  | TqError seq =>
      let '(s1, o) := write_error_response (upd_deferred s None) from bc seq in (s1, None, o)
  | TqRequest ctl fn obj =>
      let seq := ctl_seq ctl in
      match classify s bc bytes ctl fn obj with
      | FtUnsolConfirm q =>
          if q =? ctl_seq (r_ctl resp)
          then (bcast_confirmed s true q, Some UrConfirmed, [OInfo (IUnsolConfirmed q)])
          else (s, None, [])
      | FtSolConfirm q => (bcast_confirmed s false q, None, [])
      | FtBroadcast m =>
          let '(s1, o) := process_broadcast cfg (upd_deferred s None) m frame_id ctl fn bytes obj in
          (* fix F30: a DISABLE_UNSOLICITED processed by broadcast cancels the series like a unicast one *)
          (s1, if bcast_disable_processed cfg fn obj then Some UrReturnToIdle else None, o)
      | FtMalformed iin2 =>
          let '(s1, _, o) := write_solicited (upd_deferred s None) from (empty_solicited seq iin2) in (s1, None, o)
      | FtNewNonRead hdrs =>
          let '(s1, r, o1) := handle_non_read cfg (upd_deferred s None) fn seq frame_id bytes hdrs in
          let '(s2, r', o2) := match r with
                               | Some r0 => let '(s2, r1, o2) := write_solicited s1 from r0 in (s2, Some r1, o2)
                               | None => (s1, None, [])
                               end in
          (upd_last s2 (mk_last seq bytes r' None),
           if fn =? fn_disable_unsol then Some UrReturnToIdle else None, o1 ++ o2)
      | FtNewRead _ rh | FtRepeatRead _ _ rh => (deferred_set s bytes seq from rh, None, [])
      | FtRepeatNonRead last =>
          (upd_deferred s None, None, match last with Some r => repeat_solicited s from r | None => [] end)
      end
  end.

(* ---------- the idle loop ------------------------------------------------------------------------- *)

(* check_unsolicited from idle: may start a series (control becomes CUnsolWait) *)
Definition check_unsolicited (cfg : ocfg) (s : ostate) : ostate * bool (* NoSleep: loop again *) * list oobs :=
  if negb (o_unsol cfg) then (s, false, [])
  else match s_unsol s with
  | UNullRequired =>
      let seq := s_unsol_seq s in
      let s1 := upd_unsol_seq s (seq16_next seq) in
      let '(s2, o) := start_unsol cfg s1 (unsol_header seq 0) true in (s2, false, o)
  | UReady deadline =>
      let ready := match deadline with Some t => (t <=? s_now s)%Z | None => true end in
      if negb ready then (s, false, [])
      else if negb (any_enabled s) then (s, false, [])
      else
        let '(s1, (count, body)) := ask_unsol s in
        let '(c1, c2, c3) := s_enabled s in
        if count =? 0 then (s1, false, [])
        else
          let seq := s_unsol_seq s1 in
          let s2 := upd_unsol_buf (upd_unsol_seq s1 (seq16_next seq)) (buf_set (s_unsol_buf s1) body) in
          let '(s3, o) := start_unsol cfg s2 (unsol_header seq (4 + length body)) false in
          (s3, false, ODb (DbWriteUnsol c1 c2 c3) :: o)
  end.

(* handle_deferred_read *)
Definition handle_deferred (cfg : ocfg) (s : ostate) (nosleep : bool) : ostate * list oobs :=
  match s_deferred s with
  | None => (s, [])
  | Some d =>
      let '(s1, iin2, o1) := ask_iin2 (upd_notify (upd_deferred s None) true) DbDeferredSelect in
      let '(s2, r, se, o2) := format_read_response s1 true (df_seq d) (N.lor (df_iin2 d) iin2) in
      let '(s3, r', o3) := write_solicited s2 (df_from d) r in
      let se' := match se with None => if ctl_con (r_ctl r') then Some {| se_ecsn := ctl_seq (r_ctl r'); se_fin := true |} else None | x => x end in
      let s4 := upd_last s3 (mk_last (df_seq d) (df_bytes d) (Some r') se) in
      match se' with
      | Some x => (upd_control s4 (CSolWait x (confirm_deadline cfg s4) (RStep4 nosleep)), o1 ++ o2 ++ o3 ++ [OInfo (IEnterSolWait (se_ecsn x))])
      | None => (s4, o1 ++ o2 ++ o3)
      end
  end.

(* run_idle_state, entered at one of its four stages, iterated until the session blocks *)
Inductive stage := St1 | St2 | St3 (nosleep : bool) | St4 (nosleep : bool).

Fixpoint idle_run (fuel : nat) (cfg : ocfg) (st : stage) (s : ostate) : ostate * list oobs :=
  match fuel with
  | O => (s, [OOutOfFuel])
  | S f =>
      match st with
      | St1 =>
          (* 1. a fragment waiting in the reader *)
          let '(s1, o1) := match s_pending s with
                           | Some (from, bc, bytes, d, fid) => handle_from_idle cfg (upd_pending s None) from bc bytes d fid
                           | None => (s, [])
                           end in
          match s_control s1 with
          | CIdle => let '(s2, o2) := idle_run f cfg St2 s1 in (s2, o1 ++ o2)
          | _ => (s1, o1)
          end
      | St2 =>
          (* 2. unsolicited: starting a series blocks; otherwise the answer is never NoSleep *)
          let '(s2, _, o2) := check_unsolicited cfg s in
          match s_control s2 with
          | CIdle => let '(s3, o3) := idle_run f cfg (St3 false) s2 in (s3, o2 ++ o3)
          | CUnsolWait resp is_null _ _ =>
              (* a fragment retained by an aborted solicited series is read at once in the wait *)
              match s_pending s2 with
              | None => (s2, o2)
              | Some (from, bc, bytes, d, fid) =>
                  let '(s3, res, o3) := unsol_wait_fragment cfg (upd_pending s2 None) resp from bc bytes d fid in
                  match res with
                  | None => (s3, o2 ++ o3)
                  | Some r =>
                      let '(s4, ns, o4) := end_unsol cfg s3 is_null r in
                      let '(s5, o5) := idle_run f cfg (St3 ns) s4 in
                      (s5, o2 ++ o3 ++ o4 ++ o5)
                  end
              end
          | _ => (s2, o2)
          end
      | St3 ns =>
          (* 3. deferred read *)
          let '(s3, o3) := handle_deferred cfg s ns in
          match s_control s3 with
          | CIdle => let '(s4, o4) := idle_run f cfg (St4 ns) s3 in (s4, o3 ++ o4)
          | _ => (s3, o3)
          end
      | St4 ns =>
          (* 4. select!: returns at once on NoSleep, or when the database holds a wake-up permit *)
          match s_pending s with
          | Some _ => idle_run f cfg St1 s          (* the reader holds a fragment *)
          | None =>
              if ns then idle_run f cfg St1 s
              else if s_notify s then idle_run f cfg St1 (upd_notify s false)
              else (s, [])
          end
      end
  end.

Definition idle_loop (fuel : nat) (cfg : ocfg) (s : ostate) : ostate * list oobs := idle_run (4 * fuel) cfg St1 s.

Definition resume_at (cfg : ocfg) (st : stage) (s : ostate) : ostate * list oobs := idle_run 32 cfg st s.

Definition stage_of (r : resume) : stage := match r with RStep2 => St2 | RStep4 ns => St4 ns end.

(* ---------- time ------------------------------------------------------------------------------------ *)

(* the earliest armed deadline *)
Definition next_deadline (cfg : ocfg) (s : ostate) : option Z :=
  match s_control s with
  | CSolWait _ d _ => Some d
  | CUnsolWait _ _ _ d => Some d
  | CIdle =>
      if negb (o_unsol cfg) then None
      else match s_unsol s with
           | UReady (Some t) => if (s_now s <? t)%Z then Some t else None   (* a passed deadline arms no timer *)
           | _ => None
           end
  end.

(* a deadline fires *)
Definition fire_deadline (cfg : ocfg) (s : ostate) : ostate * list oobs :=
  match s_control s with
  | CSolWait se _ r =>
      let '(s1, o) := resume_at cfg (stage_of r) (upd_control s CIdle) in
      (s1, [OInfo (ISolTimeout (se_ecsn se)); ODb DbReset] ++ o)
  | CUnsolWait resp is_null retries _ =>
      let can_retry := match retries with None => true | Some O => false | Some (S _) => true end in
      let retries' := match retries with Some (S n) => Some n | x => x end in
      let retry := can_retry && match s_deferred s with Some _ => false | None => true end in
      let o0 := [OInfo (IUnsolTimeout (ctl_seq (r_ctl resp)) retry)] in
      if retry then
        (upd_control s (CUnsolWait resp is_null retries' (confirm_deadline cfg s)),
         o0 ++ repeat_unsolicited cfg s resp)
      else
        let '(s1, ns, o1) := end_unsol cfg s is_null UrTimeout in
        let '(s2, o2) := resume_at cfg (St3 ns) s1 in
        (s2, o0 ++ o1 ++ o2)
  | CIdle => resume_at cfg St1 s
  end.

Fixpoint advance (fuel : nat) (cfg : ocfg) (s : ostate) (target : Z) : ostate * list oobs :=
  match fuel with
  | O => (upd_now s target, [OOutOfFuel])
  | S f =>
      match next_deadline cfg s with
      | Some d =>
          if (d <=? target)%Z then
            let t := Z.max d (s_now s) in
            let '(s1, o1) := fire_deadline cfg (upd_now s t) in
            let '(s2, o2) := advance f cfg s1 target in
            (s2, OAt t :: o1 ++ o2)
          else (upd_now s target, [])
      | None => (upd_now s target, [])
      end
  end.

(* ---------- the step ----------------------------------------------------------------------------------- *)

Definition on_rx (cfg : ocfg) (s : ostate) (from : N) (bc : option bcast_mode) (bytes : list N) (d : digest)
  : ostate * list oobs :=
  let fid := (s_frame_id s + 1) mod 4294967296 in
  let s0 := upd_frame_id s fid in
  match s_control s0 with
  | CIdle => idle_loop 8 cfg (upd_pending s0 (Some (from, bc, bytes, d, fid)))
  | CSolWait se deadline r =>
      match sol_wait_fragment cfg s0 se deadline from bc bytes d with
      | (SoStay dl, o) => (upd_control s0 (CSolWait se dl r), o)
      | (SoConfirmed respond_to, o) =>
          let s1 := upd_last_bcast s0 None in
          let o1 := [ODb DbClearWritten] in
          if se_fin se then
            let '(s2, o2) := resume_at cfg (stage_of r) (upd_control s1 CIdle) in (s2, o ++ o1 ++ o2)
          else
            let ecsn := seq16_next (se_ecsn se) in
            let '(s2, rsp, next, o2) := format_read_response s1 false ecsn 0 in
            let '(s3, rsp', o3) := write_solicited s2 respond_to rsp in
            let s4 := upd_last s3 (match s_last s3 with
                                   | Some l => Some {| lr_seq := lr_seq l; lr_bytes := lr_bytes l;
                                                       lr_response := Some rsp'; lr_series := lr_series l |}
                                   | None => None
                                   end) in
            match next with
            | Some n => (upd_control s4 (CSolWait n (confirm_deadline cfg s4) r), o ++ o1 ++ o2 ++ o3)
            | None =>
                let '(s5, o5) := resume_at cfg (stage_of r) (upd_control s4 CIdle) in (s5, o ++ o1 ++ o2 ++ o3 ++ o5)
            end
      | (SoNewRequest, o) =>
          (* the fragment is retained: the series is aborted, run_idle_state goes on, and the next
             iteration processes the fragment from idle *)
          let s1 := upd_pending (upd_control s0 CIdle) (Some (from, bc, bytes, d, fid)) in
          let '(s2, o2) := resume_at cfg (stage_of r) s1 in
          (s2, o ++ [ODb DbReset] ++ o2)
      end
  | CUnsolWait resp is_null retries deadline =>
      let '(s1, res, o) := unsol_wait_fragment cfg s0 resp from bc bytes d fid in
      match res with
      | None => (s1, o)
      | Some r =>
          let '(s2, ns, o2) := end_unsol cfg s1 is_null r in
          let '(s3, o3) := resume_at cfg (St3 ns) s2 in
          (s3, o ++ o2 ++ o3)
      end
  end.

Definition settle_ms : Z := 1.

Definition ostep (cfg : ocfg) (s : ostate) (ev : oevent) (answers : list answer) : ostate * list oobs :=
  let s0 := upd_answers s answers in
  let '(s1, o) :=
    match ev with
    | ERx from bc bytes d =>
        let '(s1, o1) := on_rx cfg s0 from bc bytes d in
        let '(s2, o2) := advance 64 cfg s1 (s_now s1 + settle_ms) in (s2, o1 ++ o2)
    | ESleep ms => advance 4096 cfg s0 (s_now s0 + ms)
    | EDbChange =>
        let '(s1, o1) := match s_control s0 with
                         | CIdle => idle_loop 8 cfg s0
                         | _ => (upd_notify s0 true, [])
                         end in
        let '(s2, o2) := advance 64 cfg s1 (s_now s1 + settle_ms) in (s2, o1 ++ o2)
    | EHandler sel op => (upd_knobs s0 sel op (s_app_iin s0), [])
    | EAppIin v => (upd_knobs s0 (s_sel_status s0) (s_op_status s0) v, [])
    | EDisconnect =>
        let s1 := upd_pending (upd_control (session_reset s0) CIdle) None in
        let '(s2, o2) := idle_loop 8 cfg s1 in
        let '(s3, o3) := advance 64 cfg s2 (s_now s2 + settle_ms) in (s3, ODb DbReset :: OSessionEnd :: o2 ++ o3)
    end in
  (s1, o).

(* run a whole history; per event the list of observations *)
Fixpoint orun (cfg : ocfg) (s : ostate) (evs : list (oevent * list answer)) : list (list oobs) :=
  match evs with
  | [] => []
  | (ev, ans) :: rest => let '(s1, o) := ostep cfg s ev ans in o :: orun cfg s1 rest
  end.

(* the session starts by running the idle loop once (null unsolicited at start-up) *)
Definition ostart (cfg : ocfg) (sel op appiin : N) (answers : list answer) : ostate * list oobs :=
  idle_loop 8 cfg (upd_answers (ostate_init cfg sel op appiin) answers).
