(* Outstation/SessionProofs.v — theorems about the outstation session model. *)
From Dnp3V Require Import Outstation.Session.
Open Scope N_scope.
