(* Outstation/SessionLemmas_c11.v — helper lemmas for property C11 over the session model: the
   monitor automaton that reads the observable history of the session and accepts exactly the orderly
   solicited response series, the invariants of the session state that make it accept, and their
   preservation by every function of Session.v (handle_from_idle, the unsolicited wait, the deferred
   READ, the idle loop, the timers, on_rx, ostep). *)
From Dnp3V Require Import Outstation.Session Outstation.SessionLemmas_c05.
From Dnp3V Require Outstation.SessionLemmas_c12.
Module L12 := SessionLemmas_c12.
Import ListNotations.
Open Scope N_scope.

(* ---------- the control octet ------------------------------------------------------------------------ *)

Definition c_fir (c : N) : bool := N.testbit c 7.
Definition c_fin (c : N) : bool := N.testbit c 6.

Lemma set_con_fin c : c_fin (set_con c) = c_fin c.
Proof.
  unfold c_fin, set_con, ctl_con. destruct (N.testbit c 5) eqn:E; [reflexivity|].
  rewrite L12.testbit_div in E. rewrite !L12.testbit_div. change (2 ^ 5) with 32 in E. change (2 ^ 6) with 64.
  lia.
Qed.

(* c' is c as write_solicited transmits it: CON may have been added *)
Definition ctl_sent (c c' : N) : Prop := c' = c \/ c' = set_con c.

Lemma ctl_sent_uns c c' : ctl_sent c c' -> ctl_uns c' = ctl_uns c.
Proof. intros [-> | ->]; [reflexivity|apply L12.set_con_uns]. Qed.
Lemma ctl_sent_fir c c' : ctl_sent c c' -> c_fir c' = c_fir c.
Proof. intros [-> | ->]; [reflexivity|apply L12.set_con_fir]. Qed.
Lemma ctl_sent_fin c c' : ctl_sent c c' -> c_fin c' = c_fin c.
Proof. intros [-> | ->]; [reflexivity|apply set_con_fin]. Qed.
Lemma ctl_sent_seq c c' : ctl_sent c c' -> ctl_seq c' = ctl_seq c.
Proof. intros [-> | ->]; [reflexivity|apply L12.set_con_seq]. Qed.
Lemma ctl_sent_con c c' : ctl_sent c c' -> ctl_con c = true -> ctl_con c' = true.
Proof. intros [-> | ->] H; [exact H|apply L12.set_con_con]. Qed.

Lemma ctl_seq_lt c : ctl_seq c < 16.
Proof. unfold ctl_seq. lia. Qed.

Lemma nth0_response_bytes r buf : nth 0 (response_bytes r buf) 0 = r_ctl r.
Proof. reflexivity. Qed.
Lemma nth1_response_bytes r buf : nth 1 (response_bytes r buf) 0 = r_fn r.
Proof. reflexivity. Qed.

(* ---------- histories and the monitor ------------------------------------------------------------------ *)

(* what an observer of the session sees: the events fed in, with the time they arrive at, and the
   observations the session makes *)
Inductive item := IEv (t : Z) (ev : oevent) | IOb (o : oobs).

(* where the solicited response series stands, as far as the history tells:
     PIdle          no series is open
     PSent c        a first fragment (FIR) with control octet c was transmitted; no wait announced (yet)
     POpen q fin dl the fragment with sequence number q (FIN = fin) awaits its confirm until dl
     PConf q from   the confirm of the non-final fragment q arrived from `from`; the next fragment is due *)
Inductive phase :=
| PIdle
| PSent (c : N)
| POpen (q : N) (fin : bool) (dl : Z)
| PConf (q : N) (from : N).

(* m_cur: when the event being processed is a solicited CONFIRM from a master the session listens to,
   its sequence number and source (consumed by the first ISolConfirmed); m_clock: the virtual time *)
Record mst := { m_ph : phase; m_cur : option (N * N); m_clock : Z }.

Definition set_ph (m : mst) (p : phase) : mst := {| m_ph := p; m_cur := m_cur m; m_clock := m_clock m |}.

Definition confirm_of (cfg : ocfg) (ev : oevent) : option (N * N) :=
  match ev with
  | ERx from None _ (DOk ctl fn RvOk _) =>
      if (o_any_master cfg || (from =? o_master cfg)) && (fn =? fn_confirm) && negb (ctl_uns ctl)
      then Some (ctl_seq ctl, from) else None
  | _ => None
  end.

(* a solicited response never has UNS, and asks for a confirm unless it is final *)
Definition tx_bits_ok (c : N) : bool := negb (ctl_uns c) && (c_fin c || ctl_con c).

(* a transmitted fragment.  `strict`: no retransmission is accepted (what every function except the
   solicited confirm wait itself guarantees) *)
Definition mon_tx (strict : bool) (cms : Z) (m : mst) (dest : N) (b : list N) : option mst :=
  let c := nth 0 b 0 in
  if nth 1 b 0 =? 129 then
    if negb (tx_bits_ok c) then None else
    match m_ph m with
    | PIdle | PSent _ => if c_fir c then Some (set_ph m (PSent c)) else None
    | POpen q f _ =>
        (* only the awaited fragment again; the confirm timer restarts *)
        if negb strict && (ctl_seq c =? q) && Bool.eqb (c_fin c) f && ctl_con c
        then Some (set_ph m (POpen q f (m_clock m + cms))) else None
    | PConf q from =>
        (* the next fragment of the series: no FIR, next sequence number, to the confirming master *)
        if negb (c_fir c) && (ctl_seq c =? seq16_next q) && (dest =? from)
        then Some (set_ph m (if ctl_con c then POpen (ctl_seq c) (c_fin c) (m_clock m + cms) else PIdle))
        else None
    end
  else match m_ph m with PConf _ _ => None | _ => Some m end.

Definition mon_ob (strict : bool) (cms : Z) (m : mst) (o : oobs) : option mst :=
  match o with
  | OTx dest b => mon_tx strict cms m dest b
  | OInfo (IEnterSolWait q) =>
      match m_ph m with
      | PSent c => if ctl_con c && (q =? ctl_seq c)
                   then Some (set_ph m (POpen q (c_fin c) (m_clock m + cms))) else None
      | _ => None
      end
  | OInfo (ISolConfirmed q) =>
      match m_ph m, m_cur m with
      | POpen q' f _, Some (qc, from) =>
          if (q =? q') && (qc =? q)
          then Some {| m_ph := if f then PIdle else PConf q from; m_cur := None; m_clock := m_clock m |}
          else None
      | _, _ => None
      end
  | OInfo ISolNewRequest => match m_ph m with POpen _ _ _ => Some (set_ph m PIdle) | _ => None end
  | OInfo (ISolTimeout q) =>
      match m_ph m with
      | POpen q' _ dl => if (q =? q') && (dl <=? m_clock m)%Z then Some (set_ph m PIdle) else None
      | _ => None
      end
  | OSessionEnd => match m_ph m with PConf _ _ => None | _ => Some (set_ph m PIdle) end
  | OAt t => match m_ph m with
             | PConf _ _ => None
             | _ => Some {| m_ph := m_ph m; m_cur := m_cur m; m_clock := t |}
             end
  | ODb DbClearWritten | ODb DbWrite | ODb DbEvinfo | OMissingAnswer => Some m
  | _ => match m_ph m with PConf _ _ => None | _ => Some m end
  end.

Definition mon (cfg : ocfg) (strict : bool) (m : mst) (it : item) : option mst :=
  match it with
  | IEv t ev =>
      match m_ph m with
      | PConf _ _ => None
      | p => Some {| m_ph := p; m_cur := confirm_of cfg ev; m_clock := t |}
      end
  | IOb o => mon_ob strict (o_confirm_ms cfg) m o
  end.

(* Bad: the history violates the rule; Dead: the model ran out of fuel (nothing is claimed after) *)
Inductive mres := Bad | Dead | Live (m : mst).

Fixpoint mrun (cfg : ocfg) (strict : bool) (m : mst) (l : list item) : mres :=
  match l with
  | [] => Live m
  | IOb OOutOfFuel :: _ => Dead
  | x :: r => match mon cfg strict m x with Some m' => mrun cfg strict m' r | None => Bad end
  end.

Section Run.
  Variable strict : bool.
  Variable cms : Z.

  Fixpoint obrun (m : mst) (o : list oobs) : mres :=
    match o with
    | [] => Live m
    | OOutOfFuel :: _ => Dead
    | x :: r => match mon_ob strict cms m x with Some m' => obrun m' r | None => Bad end
    end.

  Lemma obrun_app o1 : forall o2 m,
    obrun m (o1 ++ o2) = match obrun m o1 with Live m' => obrun m' o2 | x => x end.
  Proof.
    induction o1 as [|x r IH]; intros o2 m; [reflexivity|].
    cbn [app obrun]. destruct x; try (destruct (mon_ob strict cms m _); [apply IH|reflexivity]). reflexivity.
  Qed.

  Definition okrun (m : mst) (o : list oobs) (P : mst -> Prop) : Prop :=
    match obrun m o with Bad => False | Dead => True | Live m' => P m' end.

  Lemma okrun_nil m (P : mst -> Prop) : P m -> okrun m [] P.
  Proof. intros H. exact H. Qed.

  Lemma okrun_app m o1 o2 (Q P : mst -> Prop) :
    okrun m o1 Q -> (forall m1, Q m1 -> okrun m1 o2 P) -> okrun m (o1 ++ o2) P.
  Proof.
    unfold okrun. rewrite obrun_app. destruct (obrun m o1) as [| |m1]; intros H1 H2; [contradiction|exact I|].
    apply (H2 m1 H1).
  Qed.

  Lemma okrun_imp m o (P Q : mst -> Prop) : okrun m o P -> (forall m', P m' -> Q m') -> okrun m o Q.
  Proof. unfold okrun. destruct (obrun m o); auto. Qed.

  Lemma okrun_cons m x m1 r (P : mst -> Prop) :
    x <> OOutOfFuel -> mon_ob strict cms m x = Some m1 -> okrun m1 r P -> okrun m (x :: r) P.
  Proof.
    intros Hx Hm H. unfold okrun. cbn [obrun]. destruct x; try (rewrite Hm; exact H). contradiction Hx. reflexivity.
  Qed.

  Lemma okrun_fuel m r (P : mst -> Prop) : okrun m (OOutOfFuel :: r) P.
  Proof. exact I. Qed.

  Definition nconf (p : phase) : Prop := match p with PConf _ _ => False | _ => True end.
  Definition idlep (p : phase) : Prop := match p with PIdle | PSent _ => True | _ => False end.

  Lemma idlep_nconf p : idlep p -> nconf p.
  Proof. destruct p; cbn; auto. Qed.

  (* observations the monitor ignores (unless the next fragment of a series is due) *)
  Definition neutb (o : oobs) : bool :=
    match o with
    | OTx _ _ | OSessionEnd | OOutOfFuel | OAt _ => false
    | OInfo (ISolConfirmed _) | OInfo ISolNewRequest | OInfo (ISolTimeout _) | OInfo (IEnterSolWait _) => false
    | _ => true
    end.

  (* ... and transmissions that are not solicited responses *)
  Definition nsolb (o : oobs) : bool :=
    match o with OTx _ b => negb (nth 1 b 0 =? 129) | x => neutb x end.

  Lemma neut_nsol o : neutb o = true -> nsolb o = true.
  Proof. destruct o; cbn; auto. discriminate. Qed.

  Lemma mon_ob_nsol m o : nsolb o = true -> nconf (m_ph m) -> mon_ob strict cms m o = Some m /\ o <> OOutOfFuel.
  Proof.
    intros Ho Hp. split; [|intros ->; discriminate Ho].
    destruct o as [d b|c|c|i| |t| |]; cbn [nsolb neutb] in Ho; try discriminate Ho; cbn [mon_ob].
    - unfold mon_tx. apply negb_true_iff in Ho. rewrite Ho. destruct (m_ph m); try reflexivity. contradiction.
    - destruct c; destruct (m_ph m); try reflexivity; contradiction.
    - destruct (m_ph m); try reflexivity; contradiction.
    - destruct i; try discriminate Ho; destruct (m_ph m); try reflexivity; contradiction.
    - reflexivity.
  Qed.

  Lemma okrun_nsol o : forall m (P : mst -> Prop),
    forallb nsolb o = true -> nconf (m_ph m) -> P m -> okrun m o P.
  Proof.
    induction o as [|x r IH]; intros m P Ho Hp H; [exact H|].
    cbn [forallb] in Ho. apply andb_true_iff in Ho as [Hx Hr].
    destruct (mon_ob_nsol m x Hx Hp) as [Hm Hnf].
    eapply okrun_cons; [exact Hnf|exact Hm|]. apply IH; assumption.
  Qed.

  Lemma okrun_neut o m (P : mst -> Prop) :
    forallb neutb o = true -> nconf (m_ph m) -> P m -> okrun m o P.
  Proof. intros Ho. apply okrun_nsol. apply (forallb_imp _ _ _ neut_nsol Ho). Qed.

  (* a first fragment *)
  Lemma mon_ob_tx_fir m dest r buf :
    r_fn r = 129 -> tx_bits_ok (r_ctl r) = true -> c_fir (r_ctl r) = true -> idlep (m_ph m) ->
    mon_ob strict cms m (OTx dest (response_bytes r buf)) = Some (set_ph m (PSent (r_ctl r))).
  Proof.
    intros Hfn Hb Hf Hp. cbn [mon_ob]. unfold mon_tx. rewrite nth1_response_bytes, nth0_response_bytes, Hfn.
    change (129 =? 129) with true. cbv iota. rewrite Hb. cbn [negb]. rewrite Hf.
    destruct (m_ph m); try reflexivity; contradiction.
  Qed.
End Run.

Lemma mrun_obs cfg strict o : forall m,
  mrun cfg strict m (map IOb o) = obrun strict (o_confirm_ms cfg) m o.
Proof.
  induction o as [|x r IH]; intros m; [reflexivity|].
  cbn [map mrun obrun mon]. destruct x; try (destruct (mon_ob strict (o_confirm_ms cfg) m _); [apply IH|reflexivity]).
  reflexivity.
Qed.

Lemma mrun_app cfg strict l1 : forall l2 m,
  mrun cfg strict m (l1 ++ l2) = match mrun cfg strict m l1 with Live m' => mrun cfg strict m' l2 | x => x end.
Proof.
  induction l1 as [|x r IH]; intros l2 m; [reflexivity|].
  cbn [app mrun]. destruct x as [t ev|o].
  - destruct (mon cfg strict m (IEv t ev)); [apply IH|reflexivity].
  - destruct o; try (destruct (mon cfg strict m _); [apply IH|reflexivity]). reflexivity.
Qed.

(* what the strict monitor accepts, the monitor accepts, with the same result *)
Lemma mon_ob_strict cms m o m' : mon_ob true cms m o = Some m' -> mon_ob false cms m o = Some m'.
Proof.
  destruct o as [d b|c|c|i| |t| |]; cbn [mon_ob]; auto.
  unfold mon_tx. destruct (nth 1 b 0 =? 129); [|auto]. destruct (negb (tx_bits_ok (nth 0 b 0))); [auto|].
  destruct (m_ph m); auto. cbn [negb andb]. discriminate.
Qed.

Lemma obrun_strict cms o : forall m,
  match obrun true cms m o with
  | Bad => True
  | Dead => obrun false cms m o = Dead
  | Live m' => obrun false cms m o = Live m'
  end.
Proof.
  induction o as [|x r IH]; intros m; [reflexivity|].
  cbn [obrun].
  destruct x; try (destruct (mon_ob true cms m _) as [m1|] eqn:E; [rewrite (mon_ob_strict _ _ _ _ E); apply IH|exact I]).
  reflexivity.
Qed.

Lemma okrun_strict cms m o (P : mst -> Prop) : okrun true cms m o P -> okrun false cms m o P.
Proof.
  unfold okrun. pose proof (obrun_strict cms o m) as H. destruct (obrun true cms m o); [contradiction|rewrite H; auto|rewrite H; auto].
Qed.

(* ---------- the invariants of the session state ----------------------------------------------------------- *)

(* a recorded / transmitted solicited response *)
Definition resp_ok (r : response) : Prop := r_fn r = 129 /\ tx_bits_ok (r_ctl r) = true.

(* the function code octet of a request says READ *)
Definition is_read_bytes (b : list N) : bool := nth 1 b 0 =? 1.

(* the digest of a fragment was made from its bytes: same function code *)
Definition dcons (bytes : list N) (d : digest) : Prop :=
  match d with DOk _ fn _ _ => nth 1 bytes 0 = fn | _ => True end.

Definition ev_cons (ev : oevent) : Prop :=
  match ev with ERx _ _ bytes d => dcons bytes d | _ => True end.

(* the remembered response is a solicited response; only the response to a READ can be a fragment
   other than a complete single-fragment response *)
Definition g_last (s : ostate) : Prop :=
  forall l r, s_last s = Some l -> lr_response l = Some r ->
    resp_ok r /\ (is_read_bytes (lr_bytes l) = false -> c_fir (r_ctl r) = true /\ c_fin (r_ctl r) = true).

Definition g_def (s : ostate) : Prop :=
  forall d, s_deferred s = Some d -> is_read_bytes (df_bytes d) = true /\ df_seq d < 16.

Definition g_pend (s : ostate) : Prop :=
  forall from bc bytes d fid, s_pending s = Some (from, bc, bytes, d, fid) -> dcons bytes d.

Definition g_uw (s : ostate) : Prop :=
  forall resp n k dl, s_control s = CUnsolWait resp n k dl -> r_fn resp = 130.

(* in the solicited confirm wait the remembered response is the fragment awaiting its confirm *)
Definition g_wait (s : ostate) : Prop :=
  forall se dl rs, s_control s = CSolWait se dl rs ->
    se_ecsn se < 16 /\
    exists l r, s_last s = Some l /\ lr_response l = Some r /\
      ctl_seq (r_ctl r) = se_ecsn se /\ c_fin (r_ctl r) = se_fin se /\ ctl_con (r_ctl r) = true /\
      (se_fin se = false -> is_read_bytes (lr_bytes l) = true).

Definition G (s : ostate) : Prop := g_last s /\ g_def s /\ g_pend s /\ g_uw s /\ g_wait s.

(* the monitor is where the session is *)
Definition rel (s : ostate) (m : mst) : Prop :=
  m_clock m = s_now s /\
  match s_control s with
  | CSolWait se dl _ => m_ph m = POpen (se_ecsn se) (se_fin se) dl
  | _ => idlep (m_ph m)
  end.

Definition Good (s : ostate) (m : mst) : Prop := G s /\ rel s m.

Lemma g_uw_idle s : s_control s = CIdle -> g_uw s.
Proof. intros H resp n k dl X. congruence. Qed.
Lemma g_wait_idle s : s_control s = CIdle -> g_wait s.
Proof. intros H se dl rs X. congruence. Qed.
Lemma g_wait_not s : (forall se dl rs, s_control s <> CSolWait se dl rs) -> g_wait s.
Proof. intros H se dl rs X. destruct (H _ _ _ X). Qed.
Lemma g_uw_not s : (forall resp n k dl, s_control s <> CUnsolWait resp n k dl) -> g_uw s.
Proof. intros H resp n k dl X. destruct (H _ _ _ _ X). Qed.

Lemma tx_bits_ctl_byte fir fin con seq : (fin || con) = true -> tx_bits_ok (ctl_byte fir fin con false seq) = true.
Proof.
  intros H. unfold tx_bits_ok, c_fin. rewrite L12.ctl_byte_uns, L12.ctl_byte_fin, L12.ctl_byte_con, H. reflexivity.
Qed.

Lemma tx_bits_sent c c' : ctl_sent c c' -> tx_bits_ok c = true -> tx_bits_ok c' = true.
Proof.
  intros Hs. unfold tx_bits_ok. rewrite (ctl_sent_uns _ _ Hs), (ctl_sent_fin _ _ Hs).
  intros H. apply andb_true_iff in H as [H1 H2]. rewrite H1. cbn [andb].
  destruct (c_fin c); [reflexivity|]. cbn [orb] in *. apply (ctl_sent_con _ _ Hs H2).
Qed.

Lemma fresh_resp_ok seq r : L12.fresh_resp seq r ->
  resp_ok r /\ c_fir (r_ctl r) = true /\ c_fin (r_ctl r) = true /\ ctl_seq (r_ctl r) = seq mod 16.
Proof.
  intros [Hc Hf]. unfold resp_ok, c_fir, c_fin. rewrite Hc, L12.ctl_byte_fir, L12.ctl_byte_fin, L12.ctl_byte_seq.
  repeat split; auto. apply tx_bits_ctl_byte. reflexivity.
Qed.

(* ---------- READ: the response as formatted ---------------------------------------------------------------- *)

Lemma format_read_response_c11 s fir seq iin2 s1 r se o :
  format_read_response s fir seq iin2 = (s1, r, se, o) ->
  exists complete nc, r_fn r = 129 /\ r_ctl r = ctl_byte fir complete nc false seq /\
    se = (if nc then Some {| se_ecsn := seq; se_fin := complete |} else None) /\
    (complete || nc) = true.
Proof.
  unfold format_read_response. destruct (ask_write s) as [[s0 [[complete has_events] body]] o0].
  intros H; inv_pair H. exists complete, (has_events || negb complete).
  repeat split; auto. destruct complete, has_events; reflexivity.
Qed.

Lemma format_first_read_response_c11 s seq s1 r se o :
  format_first_read_response s seq = (s1, r, se, o) ->
  exists complete nc, r_fn r = 129 /\ r_ctl r = ctl_byte true complete nc false seq /\
    se = (if nc then Some {| se_ecsn := seq; se_fin := complete |} else None) /\
    (complete || nc) = true.
Proof.
  unfold format_first_read_response. destruct (ask_iin2 s DbSelect) as [[s0 v] o0].
  destruct (format_read_response s0 true seq v) as [[[s2 r2] se2] o2] eqn:E.
  apply format_read_response_c11 in E. intros H; inv_pair H. exact E.
Qed.

(* what a formatted READ response looks like to finish_fn *)
Definition finish_pre (bytes : list N) (se : option series) (r : response) : Prop :=
  resp_ok r /\
  match se with
  | Some x => ctl_con (r_ctl r) = true /\ se_ecsn x = ctl_seq (r_ctl r) /\ se_fin x = c_fin (r_ctl r) /\
              is_read_bytes bytes = true
  | None => c_fin (r_ctl r) = true
  end.

Lemma read_finish_pre fir complete nc seq bytes r :
  seq < 16 -> is_read_bytes bytes = true ->
  r_fn r = 129 -> r_ctl r = ctl_byte fir complete nc false seq -> (complete || nc) = true ->
  finish_pre bytes (if nc then Some {| se_ecsn := seq; se_fin := complete |} else None) r.
Proof.
  intros Hq Hb Hfn Hc Hor. split; [split; [exact Hfn|rewrite Hc; apply tx_bits_ctl_byte; exact Hor]|].
  rewrite Hc. unfold c_fin. rewrite L12.ctl_byte_con, L12.ctl_byte_fin, L12.ctl_byte_seq.
  destruct nc; cbn [se_ecsn se_fin].
  - repeat split; auto. rewrite N.mod_small; auto.
  - destruct complete; [reflexivity|discriminate Hor].
Qed.

Lemma finish_pre_sent bytes se r r' :
  r_fn r' = r_fn r -> ctl_sent (r_ctl r) (r_ctl r') -> finish_pre bytes se r -> finish_pre bytes se r'.
Proof.
  intros Hfn Hs [[H1 H2] H3]. split; [split; [congruence|eapply tx_bits_sent; eauto]|].
  destruct se as [x|].
  - destruct H3 as (A & B & C & D). rewrite (ctl_sent_seq _ _ Hs), (ctl_sent_fin _ _ Hs).
    repeat split; auto. eapply ctl_sent_con; eauto.
  - rewrite (ctl_sent_fin _ _ Hs). exact H3.
Qed.

(* ---------- handle_one_request_from_idle -------------------------------------------------------------------- *)

Section Fn.
  Variable cfg : ocfg.
  Variable st : bool.
  Notation cms := (o_confirm_ms cfg).
  Notation ok := (okrun st (o_confirm_ms cfg)).

  Lemma finish_tail from seq bytes s3 r' se lse rsm buf m :
    s_control s3 = CIdle -> g_def s3 -> g_pend s3 -> m_clock m = s_now s3 -> idlep (m_ph m) ->
    finish_pre bytes se r' -> c_fir (r_ctl r') = true ->
    match confirm_series se r' with
    | Some x =>
        ok m ([OTx from (response_bytes r' buf)] ++ [OInfo (IEnterSolWait (se_ecsn x))])
           (Good (upd_control (upd_last s3 (mk_last seq bytes (Some r') lse))
                              (CSolWait x (confirm_deadline cfg (upd_last s3 (mk_last seq bytes (Some r') lse))) rsm)))
    | None => ok m [OTx from (response_bytes r' buf)] (Good (upd_last s3 (mk_last seq bytes (Some r') lse)))
    end.
  Proof.
    intros Hc Hd Hp Hclk Hph [[Hfn Hbits] Hse] Hfir.
    pose proof (mon_ob_tx_fir st cms m from r' buf Hfn Hbits Hfir Hph) as Htx.
    assert (Hwait : forall x, ctl_con (r_ctl r') = true -> se_ecsn x = ctl_seq (r_ctl r') -> se_fin x = c_fin (r_ctl r') ->
              (se_fin x = false -> is_read_bytes bytes = true) ->
              (is_read_bytes bytes = false -> c_fin (r_ctl r') = true) ->
              ok m ([OTx from (response_bytes r' buf)] ++ [OInfo (IEnterSolWait (se_ecsn x))])
                (Good (upd_control (upd_last s3 (mk_last seq bytes (Some r') lse))
                         (CSolWait x (confirm_deadline cfg (upd_last s3 (mk_last seq bytes (Some r') lse))) rsm)))).
    { intros x Hcon Hq Hf Hrd Hnr. cbn [app].
      eapply okrun_cons; [discriminate|exact Htx|].
      eapply okrun_cons; [discriminate| |apply okrun_nil].
      - cbn [mon_ob set_ph m_ph]. rewrite Hcon, Hq, N.eqb_refl. reflexivity.
      - split; [split; [|split; [|split; [|split]]]|].
        + intros l r Hl Hr. psimpl_in Hl. inversion Hl; subst l. cbn [lr_response lr_bytes] in *. inversion Hr; subst r.
          split; [split; assumption|]. intros Hb. split; [exact Hfir|auto].
        + intros d X. psimpl_in X. auto.
        + intros a b c d e X. psimpl_in X. eauto.
        + intros resp n k dl X. psimpl_in X. discriminate.
        + intros se0 dl rs0 X. psimpl_in X. inversion X; subst se0 dl rs0. split; [rewrite Hq; apply ctl_seq_lt|].
          eexists _, r'. psimpl. split; [reflexivity|]. cbn [lr_response lr_bytes]. repeat split; auto.
        + split; [cbn [set_ph m_clock]; psimpl; exact Hclk|]. psimpl. cbn [set_ph m_ph m_clock].
          unfold confirm_deadline. psimpl. rewrite Hclk, Hf, Hq. reflexivity. }
    unfold confirm_series. destruct se as [x|].
    - destruct Hse as (A & B & C & D). apply Hwait; auto. intros X. congruence.
    - destruct (ctl_con (r_ctl r')) eqn:Ec.
      + apply (Hwait {| se_ecsn := ctl_seq (r_ctl r'); se_fin := true |}); auto. cbn. discriminate.
      + eapply okrun_cons; [discriminate|exact Htx|]. apply okrun_nil.
        split; [split; [|split; [|split; [|split]]]|].
        * intros l r Hl Hr. psimpl_in Hl. inversion Hl; subst l. cbn [lr_response lr_bytes] in *. inversion Hr; subst r.
          split; [split; assumption|]. auto.
        * intros d X. psimpl_in X. auto.
        * intros a b c d e X. psimpl_in X. eauto.
        * apply g_uw_idle. exact Hc.
        * apply g_wait_idle. exact Hc.
        * split; [exact Hclk|]. psimpl. rewrite Hc. exact I.
  Qed.
End Fn.

Lemma dbq_neut ob : dbq ob = true -> neutb ob = true.
Proof. destruct ob; cbn; auto; discriminate. Qed.
Lemma exec_neut ob : exec_obs ob = true -> neutb ob = true.
Proof. destruct ob as [| | |i| | | |]; cbn; auto; try discriminate. destruct i; auto; discriminate. Qed.

Lemma process_broadcast_neut cfg s m fid ctl fn bytes obj s1 o :
  process_broadcast cfg s m fid ctl fn bytes obj = (s1, o) -> forallb neutb o = true.
Proof.
  unfold process_broadcast. cbv zeta.
  destruct (negb (o_broadcast cfg)); [intros H; inv_pair H; reflexivity|].
  destruct obj as [iin2|hdrs rh]; [intros H; inv_pair H; reflexivity|].
  destruct (fn =? fn_write).
  { destruct (handle_write_headers cfg (upd_bcast_rep (upd_last_bcast s (Some m)) None) hdrs) as [[s2 v] o2] eqn:E.
    apply handle_write_headers_spec in E as [F S]. intros H; inv_pair H.
    rewrite forallb_app, (forallb_imp _ _ _ exec_neut S). reflexivity. }
  destruct (fn =? fn_direct_operate_nr) eqn:Enr.
  { destruct (handle_controls cfg (upd_bcast_rep (upd_last_bcast s (Some m)) None) fn (ctl_seq ctl) fid bytes hdrs)
      as [[s2 r2] o2] eqn:E.
    apply handle_controls_spec in E as [F [S X]].
    intros H; inv_pair H.
    rewrite forallb_app, (forallb_imp _ _ _ exec_neut S). reflexivity. }
  assert (Hfr : forall ft, (let '(_, o) := handle_freeze cfg ft hdrs in (upd_bcast_rep (upd_last_bcast s (Some m)) None, o ++ [OInfo (IBroadcast fn 0 0)])) = (s1, o) ->
            forallb neutb o = true).
  { intros ft. destruct (handle_freeze cfg ft hdrs) as [v o2] eqn:E. apply handle_freeze_spec in E.
    intros H; inv_pair H.
    rewrite forallb_app, (forallb_imp _ _ _ exec_neut E). reflexivity. }
  destruct (fn =? fn_immediate_freeze_nr); [apply Hfr|].
  destruct (fn =? fn_freeze_clear_nr); [apply Hfr|].
  destruct (fn =? fn_freeze_at_time_nr).
  { destruct (handle_freeze_at_time cfg None hdrs) as [v o2] eqn:E. apply handle_freeze_at_time_spec in E.
    intros H; inv_pair H.
    rewrite forallb_app, (forallb_imp _ _ _ exec_neut E). reflexivity. }
  destruct (fn =? fn_record_time); [intros H; inv_pair H; reflexivity|].
  destruct (fn =? fn_disable_unsol).
  { destruct (enable_disable cfg (upd_bcast_rep (upd_last_bcast s (Some m)) None) false (ctl_seq ctl) hdrs) as [s2 r2] eqn:E.
    intros H; inv_pair H. reflexivity. }
  destruct (fn =? fn_enable_unsol).
  { destruct (enable_disable cfg (upd_bcast_rep (upd_last_bcast s (Some m)) None) true (ctl_seq ctl) hdrs) as [s2 r2] eqn:E.
    intros H; inv_pair H. reflexivity. }
  intros H; inv_pair H; reflexivity.
Qed.

Lemma g_def_same s s' : s_deferred s' = s_deferred s -> g_def s -> g_def s'.
Proof. intros E H d X. rewrite E in X. auto. Qed.
Lemma g_pend_same s s' : s_pending s' = s_pending s -> g_pend s -> g_pend s'.
Proof. intros E H a b c d e X. rewrite E in X. eauto. Qed.
Lemma g_last_same s s' : s_last s' = s_last s -> g_last s -> g_last s'.
Proof. intros E H l r X. rewrite E in X. eauto. Qed.
Lemma g_uw_same s s' : s_control s' = s_control s -> g_uw s -> g_uw s'.
Proof. intros E H a b c d X. rewrite E in X. eauto. Qed.
Lemma g_wait_same s s' : s_control s' = s_control s -> s_last s' = s_last s -> g_wait s -> g_wait s'.
Proof. intros E1 E2 H a b c X. rewrite E1 in X. rewrite E2. eauto. Qed.

Lemma G_same s s' :
  s_control s' = s_control s -> s_last s' = s_last s -> s_deferred s' = s_deferred s ->
  s_pending s' = s_pending s -> G s -> G s'.
Proof.
  intros E1 E2 E3 E4 (A & B & C & D & E). split; [|split; [|split; [|split]]];
    eauto using g_last_same, g_def_same, g_pend_same, g_uw_same, g_wait_same.
Qed.

Lemma rel_same s s' m : s_control s' = s_control s -> s_now s' = s_now s -> rel s m -> rel s' m.
Proof. intros E1 E2 [A B]. split; [congruence|]. rewrite E1. exact B. Qed.

Lemma Good_same s s' m :
  s_control s' = s_control s -> s_last s' = s_last s -> s_deferred s' = s_deferred s ->
  s_pending s' = s_pending s -> s_now s' = s_now s -> Good s m -> Good s' m.
Proof. intros E1 E2 E3 E4 E5 [A B]. split; [eapply G_same; eauto|eapply rel_same; eauto]. Qed.

Section Fn2.
  Variable cfg : ocfg.
  Variable st : bool.
  Notation cms := (o_confirm_ms cfg).
  Notation ok := (okrun st (o_confirm_ms cfg)).

  Lemma okrun_neut_pre m o1 o2 (P : mst -> Prop) :
    forallb neutb o1 = true -> nconf (m_ph m) -> ok m o2 P -> ok m (o1 ++ o2) P.
  Proof.
    intros H1 Hp H2. eapply okrun_app with (Q := fun m1 => m1 = m).
    - apply okrun_neut; auto.
    - intros m1 ->. exact H2.
  Qed.

  Lemma finish_fn_good from seq bytes o0 s1 resp se repeat o1 s2 o m :
    finish_fn cfg from seq bytes o0 s1 resp se repeat o1 = (s2, o) ->
    s_control s1 = CIdle -> g_def s1 -> g_pend s1 ->
    m_clock m = s_now s1 -> idlep (m_ph m) ->
    forallb neutb o0 = true -> forallb neutb o1 = true ->
    (forall r, resp = Some r -> finish_pre bytes se r /\ c_fir (r_ctl r) = true) ->
    ok m o (Good s2).
  Proof.
    unfold finish_fn. intros H Hc Hd Hp Hclk Hph S0 S1 Hr.
    pose proof (idlep_nconf _ Hph) as Hnc.
    destruct resp as [r|].
    2:{ inv_pair H. apply okrun_neut; [fb|exact Hnc|].
        split; [split; [|split; [|split; [|split]]]|].
        - intros l r Hl Hr'. psimpl_in Hl. inversion Hl; subst l. discriminate.
        - intros d X; psimpl_in X; auto.
        - intros a b c d e X; psimpl_in X; eauto.
        - apply g_uw_idle; exact Hc.
        - apply g_wait_idle; exact Hc.
        - split; [exact Hclk|]. psimpl. rewrite Hc. exact Hph. }
    destruct (Hr r eq_refl) as [Hpre Hfir].
    destruct repeat.
    - cbv zeta in H. unfold repeat_solicited in H.
      pose proof (finish_tail cfg st from seq bytes s1 r se (confirm_series se r) RStep2 (s_sol_buf s1) m Hc Hd Hp Hclk Hph Hpre Hfir) as T.
      destruct (confirm_series se r) as [x|]; inv_pair H;
        (apply okrun_neut_pre; [exact S0|exact Hnc|]); (apply okrun_neut_pre; [exact S1|exact Hnc|]); exact T.
    - destruct (write_solicited s1 from r) as [[s3 r'] o2] eqn:Ew.
      pose proof (L12.write_solicited_spec _ _ _ _ _ _ Ew) as (SC & _ & _ & _ & Hctl & _).
      apply write_solicited_spec in Ew as [_ [_ [Hfn [_ [o' [-> S']]]]]].
      destruct SC as (Cn & Cc & _ & _ & _ & Cd & _ & Cp & _).
      assert (Hpre' : finish_pre bytes se r') by (eapply finish_pre_sent; eauto).
      assert (Hfir' : c_fir (r_ctl r') = true) by (rewrite (ctl_sent_fir _ _ Hctl); exact Hfir).
      assert (Hc3 : s_control s3 = CIdle) by congruence.
      assert (Hclk3 : m_clock m = s_now s3) by congruence.
      pose proof (finish_tail cfg st from seq bytes s3 r' se (confirm_series se r') RStep2 (s_sol_buf s3) m Hc3
                    (g_def_same _ _ Cd Hd) (g_pend_same _ _ Cp Hp) Hclk3 Hph Hpre' Hfir') as T.
      cbv zeta in H.
      destruct (confirm_series se r') as [x|]; inv_pair H; rewrite <- ?app_assoc;
        (apply okrun_neut_pre; [exact S0|exact Hnc|]); (apply okrun_neut_pre; [exact S1|exact Hnc|]);
        (apply okrun_neut_pre; [apply (forallb_imp _ _ _ dbq_neut S')|exact Hnc|]); exact T.
  Qed.
End Fn2.

Lemma Good_sc s s' m : L12.same_core s s' -> Good s m -> Good s' m.
Proof.
  intros (Cn & Cc & Cl & _ & _ & Cd & _ & Cp & _). apply Good_same; assumption.
Qed.

Definition nwait (s : ostate) : Prop := match s_control s with CSolWait _ _ _ => False | _ => True end.

Lemma Good_sent s m c : nwait s -> Good s m -> Good s (set_ph m (PSent c)).
Proof.
  unfold nwait. intros Hn [HG [Hc Hr]]. split; [exact HG|]. split; [exact Hc|].
  destruct (s_control s); try exact I. contradiction.
Qed.

Lemma Good_idlep s m : nwait s -> Good s m -> idlep (m_ph m).
Proof. unfold nwait. intros Hn [_ [_ Hr]]. destruct (s_control s); auto. contradiction. Qed.

Lemma touch_select_now s fid : s_now (touch_select s fid) = s_now s.
Proof. unfold touch_select. destruct (s_select s) as [sel|]; [|reflexivity]. destruct (_ =? _); reflexivity. Qed.

Section Fn3.
  Variable cfg : ocfg.
  Variable st : bool.
  Notation cms := (o_confirm_ms cfg).
  Notation ok := (okrun st (o_confirm_ms cfg)).

  (* a complete single-fragment response written outside a series *)
  Lemma write_solicited_good s dest r s1 r' o m :
    write_solicited s dest r = (s1, r', o) ->
    resp_ok r -> c_fir (r_ctl r) = true -> nwait s -> Good s m ->
    ok m o (Good s1) /\ L12.same_core s s1 /\ resp_ok r' /\ ctl_sent (r_ctl r) (r_ctl r').
  Proof.
    intros Ew [Hfn Hb] Hfir Hn HG.
    pose proof (L12.write_solicited_spec _ _ _ _ _ _ Ew) as (SC & _ & Hfn' & _ & Hctl & _).
    apply write_solicited_spec in Ew as [_ [_ [_ [_ [o' [-> S']]]]]].
    assert (Hok' : resp_ok r') by (split; [congruence|eapply tx_bits_sent; eauto]).
    split; [|auto].
    pose proof (Good_idlep _ _ Hn HG) as Hp.
    apply okrun_neut_pre; [apply (forallb_imp _ _ _ dbq_neut S')|apply idlep_nconf; exact Hp|].
    eapply okrun_cons; [discriminate| |apply okrun_nil].
    - apply mon_ob_tx_fir; [apply Hok'|apply Hok'| |exact Hp]. rewrite (ctl_sent_fir _ _ Hctl). exact Hfir.
    - apply Good_sent; [|eapply Good_sc; eauto].
      unfold nwait in *. destruct SC as (_ & Cc & _). rewrite Cc. exact Hn.
  Qed.

  Lemma handle_from_idle_good s from bc bytes d fid s1 o m :
    handle_from_idle cfg s from bc bytes d fid = (s1, o) ->
    s_control s = CIdle -> dcons bytes d -> Good s m ->
    ok m o (Good s1).
  Proof.
    rewrite handle_from_idle_unfold. intros H Hc Hdc HG.
    assert (Hn : nwait s) by (unfold nwait; rewrite Hc; exact I).
    pose proof (Good_idlep _ _ Hn HG) as Hp. pose proof (idlep_nconf _ Hp) as Hnc.
    pose proof HG as [(Gl & Gd & Gp & Gu & Gw) [Hclk _]].
    destruct (to_treq cfg from d) as [|q|ctl fn obj] eqn:Et.
    - inv_pair H. apply okrun_nil. exact HG.
    - unfold write_error_response in H. destruct bc as [mb|]; [inv_pair H; apply okrun_nil; exact HG|].
      destruct q as [q|]; [|inv_pair H; apply okrun_nil; exact HG].
      destruct (write_solicited s from (empty_solicited q iin2_no_func)) as [[s2 r2] o2] eqn:Ew. inv_pair H.
      destruct (fresh_resp_ok _ _ (L12.fresh_empty q iin2_no_func)) as (A & B & _).
      eapply write_solicited_good in Ew; eauto. apply Ew.
    - apply L12.to_treq_request in Et. subst d. cbn [dcons] in Hdc. cbv zeta in H.
      assert (S0 : forallb neutb [OInfo (IIdleRequest fn (ctl_seq ctl))] = true) by reflexivity.
      destruct bc as [mb|].
      { cbn [classify] in H. destruct (process_broadcast cfg s mb fid ctl fn bytes obj) as [s2 o1] eqn:Ef.
        pose proof (process_broadcast_neut _ _ _ _ _ _ _ _ _ _ Ef) as S1.
        apply L12.process_broadcast_spec in Ef as [SC _]. inv_pair H.
        apply okrun_neut; [fb|exact Hnc|]. eapply Good_sc; eauto. }
      pose proof (L12.classify_unicast_cases s bytes ctl fn obj) as Hcl.
      destruct (classify s None bytes ctl fn obj) as [iin2|hdrs rh|resp hdrs rh|hdrs|resp|mb|q|q] eqn:Ecl.
      + destruct (fresh_resp_ok _ _ (L12.fresh_empty (ctl_seq ctl) iin2)) as (A & B & C & _).
        eapply finish_fn_good in H; eauto. intros r Hr; inversion Hr; subst r. split; [split; [exact A|exact C]|exact B].
      + destruct Hcl as (_ & Hrd & _). apply N.eqb_eq in Hrd. rewrite Hrd in Hdc.
        destruct (format_first_read_response s (ctl_seq ctl)) as [[[s2 r] se] o1] eqn:Ef.
        pose proof (format_first_read_response_c11 _ _ _ _ _ _ Ef) as (complete & nc & Hfn & Hctl & Hse & Hor).
        pose proof (L12.format_first_read_response_spec _ _ _ _ _ _ Ef) as ((Cn & Cc & _ & _ & _ & Cd & _ & Cp & _) & _).
        apply format_first_read_response_spec in Ef as [_ [S1 _]].
        eapply finish_fn_good in H; eauto.
        * congruence.
        * eapply g_def_same; eauto.
        * eapply g_pend_same; eauto.
        * congruence.
        * apply (forallb_imp _ _ _ dbq_neut S1).
        * intros r0 Hr; inversion Hr; subst r0. split.
          -- subst se. eapply read_finish_pre; eauto; [apply ctl_seq_lt|unfold is_read_bytes; rewrite Hdc; reflexivity].
          -- rewrite Hctl. apply L12.ctl_byte_fir.
      + destruct Hcl as (_ & Hrd & _). apply N.eqb_eq in Hrd. rewrite Hrd in Hdc.
        destruct (format_first_read_response s (ctl_seq ctl)) as [[[s2 r] se] o1] eqn:Ef.
        pose proof (format_first_read_response_c11 _ _ _ _ _ _ Ef) as (complete & nc & Hfn & Hctl & Hse & Hor).
        pose proof (L12.format_first_read_response_spec _ _ _ _ _ _ Ef) as ((Cn & Cc & _ & _ & _ & Cd & _ & Cp & _) & _).
        apply format_first_read_response_spec in Ef as [_ [S1 _]].
        eapply finish_fn_good in H; eauto.
        * congruence.
        * eapply g_def_same; eauto.
        * eapply g_pend_same; eauto.
        * congruence.
        * apply (forallb_imp _ _ _ dbq_neut S1).
        * intros r0 Hr; inversion Hr; subst r0. split.
          -- subst se. eapply read_finish_pre; eauto; [apply ctl_seq_lt|unfold is_read_bytes; rewrite Hdc; reflexivity].
          -- rewrite Hctl. apply L12.ctl_byte_fir.
      + destruct (handle_non_read cfg s fn (ctl_seq ctl) fid bytes hdrs) as [[s2 r] o1] eqn:Ef.
        pose proof (L12.handle_non_read_spec _ _ _ _ _ _ _ _ _ _ Ef) as ((Cn & Cc & _ & _ & _ & Cd & _ & Cp & _) & _ & Hfresh).
        apply handle_non_read_spec in Ef as [_ S1].
        eapply finish_fn_good in H; eauto.
        * congruence.
        * eapply g_def_same; eauto.
        * eapply g_pend_same; eauto.
        * congruence.
        * apply (forallb_imp _ _ _ exec_neut S1).
        * intros r0 Hr. destruct (fresh_resp_ok _ _ (Hfresh _ Hr)) as (A & B & C & _).
          split; [split; [exact A|exact C]|exact B].
      + destruct Hcl as (_ & Hnr & _ & l & Hl & _ & Hb & Hresp).
        pose proof (touch_select_frame s fid) as [[Fc [Fl [Fd [Fp _]]]] _].
        eapply finish_fn_good in H; eauto.
        * congruence.
        * eapply g_def_same; eauto.
        * eapply g_pend_same; eauto.
        * rewrite touch_select_now. exact Hclk.
        * intros r0 Hr. subst resp. destruct (Gl _ _ Hl Hr) as [A B].
          rewrite Hb in B. unfold is_read_bytes in B. rewrite Hdc in B. destruct (B Hnr) as [B1 B2].
          split; [split; [exact A|exact B2]|exact B1].
      + destruct Hcl.
      + inv_pair H. apply okrun_neut; [reflexivity|exact Hnc|exact HG].
      + inv_pair H. apply okrun_neut; [reflexivity|exact Hnc|exact HG].
  Qed.
End Fn3.

Lemma Good_def_none s m : Good s m -> Good (upd_deferred s None) m.
Proof.
  intros [(A & B & C & D & E) R]. split; [|exact R].
  split; [exact A|]. split; [intros d X; discriminate X|]. auto.
Qed.

Lemma Good_upd_last s m x :
  nwait s -> Good s m ->
  (forall l r, x = Some l -> lr_response l = Some r ->
     resp_ok r /\ (is_read_bytes (lr_bytes l) = false -> c_fir (r_ctl r) = true /\ c_fin (r_ctl r) = true)) ->
  Good (upd_last s x) m.
Proof.
  intros Hn [(A & B & C & D & E) R] Hx. split; [|exact R].
  split; [intros l r Hl Hr; psimpl_in Hl; eauto|]. split; [exact B|]. split; [exact C|]. split; [exact D|].
  intros se dl rs X. psimpl_in X. unfold nwait in Hn. rewrite X in Hn. contradiction.
Qed.

Section Fn4.
  Variable cfg : ocfg.
  Variable st : bool.
  Notation cms := (o_confirm_ms cfg).
  Notation ok := (okrun st (o_confirm_ms cfg)).

  Lemma unsol_wait_fragment_good s resp from bc bytes d fid s1 res o m :
    unsol_wait_fragment cfg s resp from bc bytes d fid = (s1, res, o) ->
    nwait s -> dcons bytes d -> Good s m ->
    ok m o (Good s1).
  Proof.
    unfold unsol_wait_fragment. intros H Hn Hdc HG.
    pose proof (Good_idlep _ _ Hn HG) as Hp. pose proof (idlep_nconf _ Hp) as Hnc.
    assert (Hn0 : nwait (upd_deferred s None)) by exact Hn.
    pose proof (Good_def_none _ _ HG) as HG0.
    destruct (to_treq cfg from d) as [|q|ctl fn obj] eqn:Et.
    - inv_pair H. apply okrun_nil. exact HG.
    - unfold write_error_response in H. destruct bc as [mb|]; [inv_pair H; apply okrun_nil; exact HG0|].
      destruct q as [q|]; [|inv_pair H; apply okrun_nil; exact HG0].
      destruct (write_solicited (upd_deferred s None) from (empty_solicited q iin2_no_func)) as [[s2 r2] o2] eqn:Ew. inv_pair H.
      destruct (fresh_resp_ok _ _ (L12.fresh_empty q iin2_no_func)) as (A & B & _).
      eapply write_solicited_good in Ew; eauto. apply Ew.
    - apply L12.to_treq_request in Et. subst d. cbn [dcons] in Hdc.
      destruct bc as [mb|].
      { cbn [classify] in H. destruct (process_broadcast cfg (upd_deferred s None) mb fid ctl fn bytes obj) as [s2 o1] eqn:Ef.
        pose proof (process_broadcast_neut _ _ _ _ _ _ _ _ _ _ Ef) as S1.
        apply L12.process_broadcast_spec in Ef as [SC _]. inv_pair H.
        apply okrun_neut; [exact S1|exact Hnc|]. eapply Good_sc; eauto. }
      pose proof (L12.classify_unicast_cases s bytes ctl fn obj) as Hcl.
      destruct (classify s None bytes ctl fn obj) as [iin2|hdrs rh|resp0 hdrs rh|hdrs|resp0|mb|q|q] eqn:Ecl.
      + destruct (write_solicited (upd_deferred s None) from (empty_solicited (ctl_seq ctl) iin2)) as [[s2 r2] o2] eqn:Ew. inv_pair H.
        destruct (fresh_resp_ok _ _ (L12.fresh_empty (ctl_seq ctl) iin2)) as (A & B & _).
        eapply write_solicited_good in Ew; eauto. apply Ew.
      + destruct Hcl as (_ & Hrd & _). apply N.eqb_eq in Hrd. rewrite Hrd in Hdc.
        assert (Hrb : is_read_bytes bytes = true) by (unfold is_read_bytes; rewrite Hdc; reflexivity). clear Hdc.
        inv_pair H. apply okrun_nil.
        destruct HG as [(A & B & C & D & E) R]. split; [|exact R].
        split; [exact A|]. split; [|auto].
        intros x X. unfold deferred_set in X. psimpl_in X. inversion X; subst x. cbn [df_bytes df_seq].
        split; [exact Hrb|apply ctl_seq_lt].
      + destruct Hcl as (_ & Hrd & _). apply N.eqb_eq in Hrd. rewrite Hrd in Hdc.
        assert (Hrb : is_read_bytes bytes = true) by (unfold is_read_bytes; rewrite Hdc; reflexivity). clear Hdc.
        inv_pair H. apply okrun_nil.
        destruct HG as [(A & B & C & D & E) R]. split; [|exact R].
        split; [exact A|]. split; [|auto].
        intros x X. unfold deferred_set in X. psimpl_in X. inversion X; subst x. cbn [df_bytes df_seq].
        split; [exact Hrb|apply ctl_seq_lt].
      + destruct (handle_non_read cfg (upd_deferred s None) fn (ctl_seq ctl) fid bytes hdrs) as [[s2 r] o1] eqn:Ef.
        pose proof (L12.handle_non_read_spec _ _ _ _ _ _ _ _ _ _ Ef) as (SC & _ & Hfresh).
        apply handle_non_read_spec in Ef as [_ S1]. apply (forallb_imp _ _ _ exec_neut) in S1.
        pose proof (Good_sc _ _ _ SC HG0) as HG2.
        assert (Hn2 : nwait s2) by (unfold nwait in *; destruct SC as (_ & Cc & _); rewrite Cc; exact Hn).
        destruct r as [r0|].
        * destruct (write_solicited s2 from r0) as [[s3 r1] o2] eqn:Ew. inv_pair H.
          destruct (fresh_resp_ok _ _ (Hfresh _ eq_refl)) as (A & B & C & _).
          eapply write_solicited_good in Ew; eauto. destruct Ew as (W1 & SC3 & W3 & W4).
          apply okrun_neut_pre; [exact S1|exact Hnc|]. eapply okrun_imp; [exact W1|].
          intros m' HG3. apply Good_upd_last; [|exact HG3|].
          -- unfold nwait in *. destruct SC3 as (_ & Cc & _). rewrite Cc. exact Hn2.
          -- intros l r Hl Hr. unfold mk_last in Hl. inversion Hl; subst l. cbn [lr_response lr_bytes] in *.
             inversion Hr; subst r. split; [exact W3|]. intros _.
             rewrite (ctl_sent_fir _ _ W4), (ctl_sent_fin _ _ W4). auto.
        * inv_pair H. rewrite app_nil_r. apply okrun_neut; [exact S1|exact Hnc|].
          apply Good_upd_last; [exact Hn2|exact HG2|].
          intros l r Hl Hr. unfold mk_last in Hl. inversion Hl; subst l. discriminate Hr.
      + destruct Hcl as (_ & Hnr & _ & l & Hl & _ & Hb & Hresp).
        assert (Hrb : is_read_bytes bytes = false) by (unfold is_read_bytes; rewrite Hdc; exact Hnr). clear Hdc.
        inv_pair H.
        destruct (lr_response l) as [r|] eqn:Hresp; [|apply okrun_nil; exact HG0].
        destruct HG as [(Gl & Gr) R]. destruct (Gl _ _ Hl Hresp) as [[A1 A2] B].
        rewrite Hrb in B. destruct (B eq_refl) as [B1 B2].
        unfold repeat_solicited. eapply okrun_cons; [discriminate|apply mon_ob_tx_fir; eauto|apply okrun_nil].
        apply Good_sent; [exact Hn0|exact HG0].
      + destruct Hcl.
      + inv_pair H. apply okrun_nil. eapply Good_sc; [apply L12.sc_bcast_confirmed|exact HG].
      + destruct (q =? ctl_seq (r_ctl resp)); inv_pair H.
        * apply okrun_neut; [reflexivity|exact Hnc|]. eapply Good_sc; [apply L12.sc_bcast_confirmed|exact HG].
        * apply okrun_nil. exact HG.
  Qed.
End Fn4.

(* ---------- unsolicited start, deferred READ, the idle loop ------------------------------------------------ *)

Lemma ustart_notx_neut o : forallb ustart o = true -> Forall L12.no_tx o -> forallb neutb o = true.
Proof.
  induction o as [|x r IH]; intros H1 H2; [reflexivity|].
  cbn [forallb] in *. apply andb_true_iff in H1 as [A B]. inversion H2 as [|? ? C D]; subst.
  rewrite (IH B D), andb_true_r. destruct x as [| | |i| | | |]; cbn in *; auto; try contradiction; try discriminate.
  destruct i; auto; discriminate.
Qed.

Lemma Good_pend_none s m : Good s m -> Good (upd_pending s None) m.
Proof.
  intros [(A & B & C & D & E) R]. split; [|exact R].
  split; [exact A|]. split; [exact B|]. split; [intros a b c d e X; discriminate X|]. auto.
Qed.

Lemma Good_to_idle s s' m :
  nwait s -> s_control s' = CIdle -> s_last s' = s_last s -> s_deferred s' = s_deferred s ->
  s_pending s' = s_pending s -> s_now s' = s_now s -> Good s m -> Good s' m.
Proof.
  intros Hn Hc E2 E3 E4 E5 HG. pose proof (Good_idlep _ _ Hn HG) as Hp.
  destruct HG as [(A & B & C & D & E) [R1 R2]].
  split; [split; [|split; [|split; [|split]]]|].
  - eapply g_last_same; eauto.
  - eapply g_def_same; eauto.
  - eapply g_pend_same; eauto.
  - apply g_uw_idle; exact Hc.
  - apply g_wait_idle; exact Hc.
  - split; [congruence|]. rewrite Hc. exact Hp.
Qed.

Section Fn5.
  Variable cfg : ocfg.
  Variable st : bool.
  Notation cms := (o_confirm_ms cfg).
  Notation ok := (okrun st (o_confirm_ms cfg)).

  Lemma start_unsol_good s r is_null s' o m :
    start_unsol cfg s r is_null = (s', o) ->
    r_fn r = 130 -> s_control s = CIdle -> Good s m -> ok m o (Good s').
  Proof.
    intros H Hfn Hc HG.
    assert (Hn : nwait s) by (unfold nwait; rewrite Hc; exact I).
    pose proof (Good_idlep _ _ Hn HG) as Hp.
    pose proof (start_unsol_spec cfg [] _ _ _ _ _ H) as (_ & Su & _).
    apply L12.start_unsol_spec in H as (s1 & r1 & pre & SC & Hfn1 & _ & _ & -> & -> & Hpre).
    rewrite forallb_app in Su. apply andb_true_iff in Su as [Su _].
    apply okrun_nsol; [|apply idlep_nconf; exact Hp|].
    - rewrite forallb_app, (forallb_imp _ _ _ (neut_nsol) (ustart_notx_neut _ Su Hpre)).
      cbn [forallb nsolb neutb andb]. rewrite nth1_response_bytes, Hfn1, Hfn. reflexivity.
    - pose proof (Good_sc _ _ _ SC HG) as [(A & B & C & D & E) [R1 R2]].
      split; [split; [exact A|split; [exact B|split; [exact C|split]]]|].
      + intros resp n k dl X. psimpl_in X. inversion X; subst. congruence.
      + apply g_wait_not. intros se dl rs X. psimpl_in X. discriminate.
      + split; [exact R1|]. psimpl. exact Hp.
  Qed.

  Lemma check_unsolicited_good s s1 ns o m :
    check_unsolicited cfg s = (s1, ns, o) -> s_control s = CIdle -> Good s m -> ok m o (Good s1).
  Proof.
    unfold check_unsolicited. intros H Hc HG.
    destruct (negb (o_unsol cfg)); [inv_pair H; apply okrun_nil; exact HG|].
    destruct (s_unsol s) as [|deadline].
    - destruct (start_unsol cfg (upd_unsol_seq s (seq16_next (s_unsol_seq s))) (unsol_header (s_unsol_seq s) 0) true)
        as [s2 o2] eqn:Es. inv_pair H.
      eapply start_unsol_good; [exact Es|reflexivity|exact Hc|]. eapply Good_same; [..|exact HG]; reflexivity.
    - destruct (negb match deadline with Some t => (t <=? s_now s)%Z | None => true end);
        [inv_pair H; apply okrun_nil; exact HG|].
      destruct (negb (any_enabled s)); [inv_pair H; apply okrun_nil; exact HG|].
      destruct (ask_unsol s) as [s0 [count body]] eqn:Ea. apply L12.ask_unsol_spec in Ea.
      pose proof (Good_sc _ _ _ Ea HG) as HG0.
      destruct (s_enabled s) as [[c1 c2] c3].
      destruct (count =? 0); [inv_pair H; apply okrun_nil; exact HG0|].
      match type of H with context [start_unsol cfg ?a ?b ?c] => destruct (start_unsol cfg a b c) as [s3 o3] eqn:Es end.
      inv_pair H. change (ODb (DbWriteUnsol c1 c2 c3) :: o3) with ([ODb (DbWriteUnsol c1 c2 c3)] ++ o3).
      destruct Ea as (_ & Cc & _).
      apply okrun_neut_pre; [reflexivity|apply idlep_nconf; eapply Good_idlep; [|exact HG]; unfold nwait; rewrite Hc; exact I|].
      eapply start_unsol_good; [exact Es|reflexivity|psimpl; congruence|].
      eapply Good_same; [..|exact HG0]; reflexivity.
  Qed.

  Lemma end_unsol_good s is_null res s1 ns o m :
    end_unsol cfg s is_null res = (s1, ns, o) -> nwait s -> Good s m ->
    ok m o (Good s1) /\ s_control s1 = CIdle.
  Proof.
    intros H Hn HG. pose proof (end_unsol_spec _ _ _ _ _ _ _ H) as [_ S].
    apply L12.end_unsol_frame in H as (Hc & El & Ed & Ep & _ & _ & _ & _ & En & _).
    split; [|exact Hc].
    apply okrun_neut; [apply (forallb_imp _ _ _ dbq_neut S)|apply idlep_nconf; eapply Good_idlep; eauto|].
    eapply Good_to_idle; eauto.
  Qed.

  Lemma handle_deferred_good s ns s1 o m :
    handle_deferred cfg s ns = (s1, o) -> s_control s = CIdle -> Good s m -> ok m o (Good s1).
  Proof.
    unfold handle_deferred. intros H Hc HG.
    destruct (s_deferred s) as [d|] eqn:Ed; [|inv_pair H; apply okrun_nil; exact HG].
    assert (Hn : nwait s) by (unfold nwait; rewrite Hc; exact I).
    pose proof (Good_idlep _ _ Hn HG) as Hp. pose proof (idlep_nconf _ Hp) as Hnc.
    pose proof HG as [(Gl & Gd & Gp & Gu & Gw) [Hclk _]].
    destruct (Gd _ Ed) as [Hrb Hq].
    destruct (ask_iin2 (upd_notify (upd_deferred s None) true) DbDeferredSelect) as [[s2 iin2] o1] eqn:E1.
    destruct (format_read_response s2 true (df_seq d) (N.lor (df_iin2 d) iin2)) as [[[s3 r] se] o2] eqn:E2.
    destruct (write_solicited s3 (df_from d) r) as [[s4 r'] o3] eqn:E3.
    pose proof (L12.ask_iin2_spec _ _ _ _ _ E1) as [(An & Ac & _ & _ & _ & Ad & _ & Ap & _) _].
    apply ask_iin2_spec in E1 as [_ S1].
    pose proof (format_read_response_c11 _ _ _ _ _ _ _ _ E2) as (complete & nc & Hfn & Hctl & Hse & Hor).
    pose proof (L12.format_read_response_spec _ _ _ _ _ _ _ _ E2) as ((Bn & Bc & _ & _ & _ & Bd & _ & Bp & _) & _).
    apply format_read_response_spec in E2 as [_ [S2 _]].
    pose proof (L12.write_solicited_spec _ _ _ _ _ _ E3) as ((Cn & Cc & _ & _ & _ & Cd & _ & Cp & _) & _ & _ & _ & Hsent & _).
    apply write_solicited_spec in E3 as [_ [_ [Hfn' [_ [o' [-> S3]]]]]].
    psimpl_in An. psimpl_in Ac. psimpl_in Ad. psimpl_in Ap.
    assert (Hpre : finish_pre (df_bytes d) se r) by (subst se; eapply read_finish_pre; eauto).
    assert (Hpre' : finish_pre (df_bytes d) se r') by (eapply finish_pre_sent; eauto).
    assert (Hfir' : c_fir (r_ctl r') = true).
    { rewrite (ctl_sent_fir _ _ Hsent), Hctl. apply L12.ctl_byte_fir. }
    assert (Hc4 : s_control s4 = CIdle) by congruence.
    assert (Hd4 : g_def s4) by (intros x X; congruence).
    assert (Hp4 : g_pend s4).
    { intros a b c e f X. apply (Gp a b c e f). congruence. }
    assert (Hclk4 : m_clock m = s_now s4) by congruence.
    pose proof (finish_tail cfg st (df_from d) (df_seq d) (df_bytes d) s4 r' se se (RStep4 ns) (s_sol_buf s4) m
                  Hc4 Hd4 Hp4 Hclk4 Hp Hpre' Hfir') as T.
    cbv zeta in H. fold (confirm_series se r') in H.
    destruct (confirm_series se r') as [x|]; inv_pair H; rewrite <- ?app_assoc;
      (apply okrun_neut_pre; [apply (forallb_imp _ _ _ dbq_neut S1)|exact Hnc|]);
      (apply okrun_neut_pre; [apply (forallb_imp _ _ _ dbq_neut S2)|exact Hnc|]);
      (apply okrun_neut_pre; [apply (forallb_imp _ _ _ dbq_neut S3)|exact Hnc|]); exact T.
  Qed.
End Fn5.

Section Loop.
  Variable cfg : ocfg.
  Variable st : bool.
  Notation cms := (o_confirm_ms cfg).
  Notation ok := (okrun st (o_confirm_ms cfg)).

  Lemma idle_run_good : forall f stg s s' o m,
    idle_run f cfg stg s = (s', o) -> s_control s = CIdle -> Good s m -> ok m o (Good s').
  Proof.
    induction f as [|f IH]; intros stg s s' o m H Hc HG; cbn [idle_run] in H.
    { inv_pair H. apply okrun_fuel. }
    destruct stg as [| |ns|ns].
    - (* St1 *)
      destruct (s_pending s) as [[[[[from bc] bytes] d] fid]|] eqn:Ep.
      + destruct (handle_from_idle cfg (upd_pending s None) from bc bytes d fid) as [s1 o1] eqn:E1.
        assert (Hdc : dcons bytes d) by (destruct HG as [(_ & _ & Gp & _) _]; eapply Gp; eauto).
        apply handle_from_idle_good with (st := st) (m := m) in E1; [|exact Hc|exact Hdc|apply Good_pend_none; exact HG].
        destruct (s_control s1) eqn:Ec1.
        * destruct (idle_run f cfg St2 s1) as [s2 o2] eqn:E2. inv_pair H.
          eapply okrun_app; [exact E1|]. intros m1 HG1. eapply IH; eauto.
        * inv_pair H. exact E1.
        * inv_pair H. exact E1.
      + rewrite Hc in H. destruct (idle_run f cfg St2 s) as [s2 o2] eqn:E2. inv_pair H.
        cbn [app]. eapply IH; eauto.
    - (* St2 *)
      destruct (check_unsolicited cfg s) as [[s2 b] o2] eqn:E2.
      apply check_unsolicited_good with (st := st) (m := m) in E2; [|exact Hc|exact HG].
      destruct (s_control s2) as [|se dl r|resp n ret dl] eqn:Ec2.
      + destruct (idle_run f cfg (St3 false) s2) as [s3 o3] eqn:E3. inv_pair H.
        eapply okrun_app; [exact E2|]. intros m1 HG1. eapply IH; eauto.
      + inv_pair H. exact E2.
      + destruct (s_pending s2) as [[[[[from bc] bytes] d] fid]|] eqn:Ep2.
        * destruct (unsol_wait_fragment cfg (upd_pending s2 None) resp from bc bytes d fid) as [[s3 res] o3] eqn:E3.
          assert (Hn2 : nwait (upd_pending s2 None)) by (unfold nwait; psimpl; rewrite Ec2; exact I).
          pose proof (L12.unsol_wait_fragment_frame _ _ _ _ _ _ _ _ _ _ _ E3) as [(_ & Fc & _) _].
          psimpl_in Fc.
          assert (W : forall m1, Good s2 m1 -> ok m1 o3 (Good s3)).
          { intros m1 HG1. eapply unsol_wait_fragment_good; [exact E3|exact Hn2| |apply Good_pend_none; exact HG1].
            destruct HG1 as [(_ & _ & Gp & _) _]. eapply Gp; eauto. }
          destruct res as [r|].
          -- destruct (end_unsol cfg s3 n r) as [[s4 ns] o4] eqn:E4.
             destruct (idle_run f cfg (St3 ns) s4) as [s5 o5] eqn:E5. inv_pair H.
             eapply okrun_app; [exact E2|]. intros m1 HG1.
             eapply okrun_app; [apply W; exact HG1|]. intros m2 HG2.
             assert (Hn3 : nwait s3) by (unfold nwait; rewrite Fc, Ec2; exact I).
             destruct (end_unsol_good cfg st _ _ _ _ _ _ m2 E4 Hn3 HG2) as [W4 Hc4].
             eapply okrun_app; [exact W4|]. intros m3 HG3. eapply IH; eauto.
          -- inv_pair H. eapply okrun_app; [exact E2|]. intros m1 HG1. apply W; exact HG1.
        * inv_pair H. exact E2.
    - (* St3 *)
      destruct (handle_deferred cfg s ns) as [s3 o3] eqn:E3.
      apply handle_deferred_good with (st := st) (m := m) in E3; [|exact Hc|exact HG].
      destruct (s_control s3) eqn:Ec3.
      + destruct (idle_run f cfg (St4 ns) s3) as [s4 o4] eqn:E4. inv_pair H.
        eapply okrun_app; [exact E3|]. intros m1 HG1. eapply IH; eauto.
      + inv_pair H. exact E3.
      + inv_pair H. exact E3.
    - (* St4 *)
      destruct (s_pending s) eqn:Ep; [eapply IH; eauto|].
      destruct ns; [eapply IH; eauto|].
      destruct (s_notify s).
      + eapply IH; [exact H|exact Hc|]. eapply Good_same; [..|exact HG]; reflexivity.
      + inv_pair H. apply okrun_nil. exact HG.
  Qed.

  Lemma resume_at_good stg s s' o m :
    resume_at cfg stg s = (s', o) -> s_control s = CIdle -> Good s m -> ok m o (Good s').
  Proof. apply idle_run_good. Qed.

  Lemma idle_loop_good n s s' o m :
    idle_loop n cfg s = (s', o) -> s_control s = CIdle -> Good s m -> ok m o (Good s').
  Proof. apply idle_run_good. Qed.
End Loop.

(* ---------- step boundaries: the clock of the session has moved on, the rest stands ----------------------- *)

Definition relp (s : ostate) (m : mst) : Prop :=
  match s_control s with
  | CSolWait se dl _ => m_ph m = POpen (se_ecsn se) (se_fin se) dl
  | _ => idlep (m_ph m)
  end.

Definition GoodB (s : ostate) (m : mst) : Prop := G s /\ relp s m.

Definition set_clock (m : mst) (t : Z) : mst := {| m_ph := m_ph m; m_cur := m_cur m; m_clock := t |}.

Lemma Good_B s m : Good s m -> GoodB s m.
Proof. intros [A [_ B]]. exact (conj A B). Qed.

Lemma GoodB_Good s m : GoodB s m -> m_clock m = s_now s -> Good s m.
Proof. intros [A B] C. exact (conj A (conj C B)). Qed.

Lemma GoodB_same s s' m :
  s_control s' = s_control s -> s_last s' = s_last s -> s_deferred s' = s_deferred s ->
  s_pending s' = s_pending s -> GoodB s m -> GoodB s' m.
Proof. intros E1 E2 E3 E4 [A B]. split; [eapply G_same; eauto|]. unfold relp in *. rewrite E1. exact B. Qed.

Lemma relp_nconf s m : relp s m -> nconf (m_ph m).
Proof. unfold relp. destruct (s_control s); intros H; try (apply idlep_nconf; exact H). rewrite H. exact I. Qed.

Lemma Good_nconf s m : Good s m -> nconf (m_ph m).
Proof. intros H. apply Good_B in H. destruct H as [_ H]. eapply relp_nconf; eauto. Qed.

(* ---------- the solicited confirm wait ------------------------------------------------------------------------ *)

(* the four observations that may stand between an accepted confirm and the next fragment *)
Definition confb (o : oobs) : bool :=
  match o with ODb DbClearWritten | ODb DbWrite | ODb DbEvinfo | OMissingAnswer => true | _ => false end.

Lemma okrun_conf st cms o : forall m (P : mst -> Prop), forallb confb o = true -> P m -> okrun st cms m o P.
Proof.
  induction o as [|x r IH]; intros m P Ho H; [exact H|].
  cbn [forallb] in Ho. apply andb_true_iff in Ho as [Hx Hr].
  eapply okrun_cons with (m1 := m); [intros ->; discriminate Hx| |apply IH; assumption].
  destruct x as [| c | | | | | |]; try discriminate Hx; [destruct c; try discriminate Hx|]; reflexivity.
Qed.

Lemma ask_write_conf s s1 x o : ask_write s = (s1, x, o) -> forallb confb o = true.
Proof. unfold ask_write. destruct (s_answers s) as [|[] rest]; intros H; inv_pair H; reflexivity. Qed.

Lemma format_read_response_conf s fir seq iin2 s1 r se o :
  format_read_response s fir seq iin2 = (s1, r, se, o) -> forallb confb o = true.
Proof.
  unfold format_read_response. destruct (ask_write s) as [[s0 [[c e] b]] o0] eqn:E.
  apply ask_write_conf in E. intros H; inv_pair H. exact E.
Qed.

Lemma response_iin_conf s s1 iin o : response_iin s = (s1, iin, o) -> forallb confb o = true.
Proof.
  unfold response_iin, ask_evinfo. destruct (s_answers s) as [|[] rest]; intros H; inv_pair H; reflexivity.
Qed.

Lemma write_solicited_conf s dest r s1 r' o :
  write_solicited s dest r = (s1, r', o) ->
  exists pre, o = pre ++ [OTx dest (response_bytes r' (s_sol_buf s1))] /\ forallb confb pre = true.
Proof.
  unfold write_solicited. destruct (response_iin s) as [[s0 iin] o0] eqn:E.
  apply response_iin_conf in E. intros H; inv_pair H. exists o0. rewrite bcast_reported_sol_buf. auto.
Qed.

Lemma to_treq_accept cfg from d ctl fn obj :
  to_treq cfg from d = TqRequest ctl fn obj ->
  d = DOk ctl fn RvOk obj /\ (o_any_master cfg || (from =? o_master cfg)) = true.
Proof.
  intros H. split; [eapply L12.to_treq_request; eauto|]. unfold to_treq in H.
  destruct (o_any_master cfg), (from =? o_master cfg); try reflexivity; discriminate H.
Qed.

Lemma classify_sol_confirm s bc bytes ctl fn obj q :
  classify s bc bytes ctl fn obj = FtSolConfirm q ->
  bc = None /\ (fn =? fn_confirm) = true /\ ctl_uns ctl = false /\ q = ctl_seq ctl.
Proof.
  destruct bc as [mb|]; [discriminate|]. unfold classify.
  destruct (fn =? fn_confirm); [destruct (ctl_uns ctl); intros H; inversion H; auto|].
  destruct obj as [e|hdrs rh]; [discriminate|].
  destruct (match s_last s with Some l => (lr_seq l =? ctl_seq ctl) && bytes_eqb (lr_bytes l) bytes | None => false end);
    destruct (fn =? fn_read); discriminate.
Qed.

Lemma classify_repeat_read s bc bytes ctl fn obj resp hdrs rh :
  classify s bc bytes ctl fn obj = FtRepeatRead resp hdrs rh ->
  bc = None /\ fn = fn_read /\
  exists l, s_last s = Some l /\ resp = lr_response l /\ lr_bytes l = bytes /\ lr_seq l = ctl_seq ctl.
Proof.
  destruct bc as [mb|]; [discriminate|]. unfold classify.
  destruct (fn =? fn_confirm); [destruct (ctl_uns ctl); discriminate|].
  destruct obj as [e|hdrs0 rh0]; [discriminate|].
  destruct (s_last s) as [l|]; [|destruct (fn =? fn_read); discriminate].
  destruct ((lr_seq l =? ctl_seq ctl) && bytes_eqb (lr_bytes l) bytes) eqn:E; destruct (fn =? fn_read) eqn:E1; try discriminate.
  intros H; inversion H; subst. apply andb_true_iff in E as [E2 E3]. apply N.eqb_eq in E2. apply bytes_eqb_eq in E3.
  apply N.eqb_eq in E1. split; [reflexivity|]. split; [exact E1|]. exists l. auto.
Qed.

Lemma sol_wait_fragment_c11 cfg s se dl from bc bytes d out o :
  sol_wait_fragment cfg s se dl from bc bytes d = (out, o) ->
  match out with
  | SoStay dl' =>
      (dl' = dl /\ forallb neutb o = true) \/
      (dl' = confirm_deadline cfg s /\
       exists ctl fn obj resp hdrs rh,
         to_treq cfg from d = TqRequest ctl fn obj /\
         classify s bc bytes ctl fn obj = FtRepeatRead resp hdrs rh /\
         o = match resp with Some r => repeat_solicited s from r | None => [] end)
  | SoConfirmed rt =>
      rt = from /\ o = [OInfo (ISolConfirmed (se_ecsn se))] /\
      confirm_of cfg (ERx from bc bytes d) = Some (se_ecsn se, from)
  | SoNewRequest => o = [OInfo ISolNewRequest]
  end.
Proof.
  unfold sol_wait_fragment. destruct (to_treq cfg from d) as [|q|ctl fn obj] eqn:Et.
  - intros H; inv_pair H. left. auto.
  - intros H; inv_pair H. reflexivity.
  - destruct (classify s bc bytes ctl fn obj) as [iin2|hdrs rh|resp hdrs rh|hdrs|resp|mb|q|q] eqn:Ecl;
      intros H; try (inv_pair H; reflexivity).
    + inv_pair H. right. split; [reflexivity|]. exists ctl, fn, obj, resp, hdrs, rh. auto.
    + apply classify_sol_confirm in Ecl as (-> & E0 & Eu & ->). apply to_treq_accept in Et as [-> Em].
      destruct (ctl_seq ctl =? se_ecsn se) eqn:Eq; inv_pair H; [|left; auto].
      apply N.eqb_eq in Eq. split; [reflexivity|]. split; [reflexivity|].
      cbn [confirm_of]. rewrite Em, E0, Eu, Eq. reflexivity.
    + inv_pair H. left. auto.
Qed.

(* ---------- the timers ------------------------------------------------------------------------------------------ *)

Lemma Good_abort s m :
  Good s m -> Good (upd_control s CIdle) (set_ph m PIdle).
Proof.
  intros [(A & B & C & D & E) [R1 R2]].
  split; [split; [exact A|split; [exact B|split; [exact C|split]]]|].
  - apply g_uw_idle. reflexivity.
  - apply g_wait_idle. reflexivity.
  - split; [exact R1|exact I].
Qed.

Section Timers.
  Variable cfg : ocfg.
  Variable st : bool.
  Notation cms := (o_confirm_ms cfg).
  Notation ok := (okrun st (o_confirm_ms cfg)).

  Lemma fire_deadline_good s s' o m :
    fire_deadline cfg s = (s', o) ->
    (forall se dl r, s_control s = CSolWait se dl r -> (dl <= s_now s)%Z) ->
    Good s m -> ok m o (Good s').
  Proof.
    unfold fire_deadline. intros H Hdl HG.
    destruct (s_control s) as [|se dl r|resp n ret dl] eqn:Ec.
    - eapply resume_at_good; eauto.
    - destruct (resume_at cfg (stage_of r) (upd_control s CIdle)) as [s1 o1] eqn:E1. inv_pair H.
      pose proof HG as [_ [Hclk Hr]]. rewrite Ec in Hr.
      cbn [app]. eapply okrun_cons with (m1 := set_ph m PIdle); [discriminate| |].
      { cbn [mon_ob]. rewrite Hr, N.eqb_refl. cbn [andb].
        specialize (Hdl _ _ _ eq_refl). rewrite Hclk. apply Z.leb_le in Hdl. rewrite Hdl. reflexivity. }
      eapply okrun_cons with (m1 := set_ph m PIdle); [discriminate|reflexivity|].
      eapply resume_at_good; [exact E1|reflexivity|apply Good_abort; exact HG].
    - cbv zeta in H.
      assert (Hn : nwait s) by (unfold nwait; rewrite Ec; exact I).
      pose proof (Good_idlep _ _ Hn HG) as Hp. pose proof (idlep_nconf _ Hp) as Hnc.
      pose proof HG as [(Gl & Gd & Gp & Gu & Gw) [Hclk _]].
      pose proof (Gu _ _ _ _ Ec) as Hfn.
      match type of H with (if ?c then _ else _) = _ => destruct c end.
      + inv_pair H. unfold repeat_unsolicited. apply okrun_nsol.
        * cbn [app forallb nsolb neutb andb]. rewrite nth1_response_bytes, Hfn. reflexivity.
        * exact Hnc.
        * split; [split; [exact Gl|split; [exact Gd|split; [exact Gp|split]]]|].
          -- intros resp0 n0 k0 dl0 X. psimpl_in X. inversion X; subst. exact Hfn.
          -- apply g_wait_not. intros se0 dl0 rs X. psimpl_in X. discriminate.
          -- split; [exact Hclk|]. psimpl. exact Hp.
      + destruct (end_unsol cfg s n UrTimeout) as [[s1 ns] o1] eqn:E1.
        destruct (resume_at cfg (St3 ns) s1) as [s2 o2] eqn:E2. inv_pair H.
        destruct (end_unsol_good cfg st _ _ _ _ _ _ m E1 Hn HG) as [W1 Hc1].
        eapply okrun_cons with (m1 := m); [discriminate|cbn [mon_ob]; destruct (m_ph m); try reflexivity; contradiction|].
        eapply okrun_app; [exact W1|]. intros m1 HG1. eapply resume_at_good; eauto.
  Qed.

  Lemma Good_upd_now s m t : Good s m -> Good (upd_now s t) (set_clock m t).
  Proof.
    intros [HG [_ R]]. split; [exact HG|]. split; [reflexivity|exact R].
  Qed.

  Lemma advance_good : forall f s target s' o m,
    advance f cfg s target = (s', o) -> Good s m -> ok m o (GoodB s').
  Proof.
    induction f as [|f IH]; intros s target s' o m H HG; cbn [advance] in H.
    { inv_pair H. apply okrun_fuel. }
    assert (Hend : ok m [] (GoodB (upd_now s target))).
    { apply okrun_nil. apply Good_B in HG. destruct HG as [A B]. exact (conj A B). }
    destruct (next_deadline cfg s) as [d|] eqn:Ed; [|inv_pair H; exact Hend].
    destruct (d <=? target)%Z; [|inv_pair H; exact Hend].
    destruct (fire_deadline cfg (upd_now s (Z.max d (s_now s)))) as [s1 o1] eqn:E1.
    destruct (advance f cfg s1 target) as [s2 o2] eqn:E2. inv_pair H.
    eapply okrun_cons with (m1 := set_clock m (Z.max d (s_now s))); [discriminate| |].
    { cbn [mon_ob]. unfold set_clock. pose proof (Good_nconf _ _ HG) as Hnc. destruct (m_ph m); try reflexivity. contradiction. }
    eapply okrun_app.
    - eapply fire_deadline_good; [exact E1| |apply Good_upd_now; exact HG].
      intros se dl r X. psimpl_in X. unfold next_deadline in Ed. rewrite X in Ed. inversion Ed; subst d. psimpl. lia.
    - intros m1 HG1. eapply IH; eauto.
  Qed.
End Timers.

(* ---------- a received fragment ------------------------------------------------------------------------------- *)

Lemma format_read_response_bcast s fir seq iin2 s1 r se o :
  format_read_response s fir seq iin2 = (s1, r, se, o) -> s_last_bcast s1 = s_last_bcast s.
Proof.
  unfold format_read_response, ask_write. destruct (s_answers s) as [|[] rest]; intros H; inv_pair H; reflexivity.
Qed.

(* no broadcast to report: the control octet goes out as formatted *)
Lemma write_solicited_nobcast s dest r s1 r' o :
  s_last_bcast s = None -> write_solicited s dest r = (s1, r', o) -> r_ctl r' = r_ctl r.
Proof.
  unfold write_solicited, response_iin, ask_evinfo. intros Hb H.
  destruct (s_answers s) as [|[] rest]; psimpl_in H; rewrite ?Hb in H; psimpl_in H; rewrite ?Hb in H;
    inv_pair H; reflexivity.
Qed.

(* what the solicited confirm wait itself transmits on a received fragment: the next fragment of the
   series after the expected confirm, or the awaited fragment again for a repeat of the READ *)
Definition wait_tx (cfg : ocfg) (s0 : ostate) (se : series) (from : N) (bc : option bcast_mode) (bytes : list N)
           (d : digest) (o_w : list oobs) : Prop :=
  forall dest b, In (OTx dest b) o_w ->
    (confirm_of cfg (ERx from bc bytes d) = Some (se_ecsn se, dest) /\ se_fin se = false /\
     nth 1 b 0 = 129 /\ c_fir (nth 0 b 0) = false /\ ctl_seq (nth 0 b 0) = seq16_next (se_ecsn se) /\
     tx_bits_ok (nth 0 b 0) = true)
    \/
    (exists ctl fn obj hdrs rh l r0,
       to_treq cfg from d = TqRequest ctl fn obj /\
       classify s0 bc bytes ctl fn obj = FtRepeatRead (Some r0) hdrs rh /\
       s_last s0 = Some l /\ lr_response l = Some r0 /\ ctl_seq (r_ctl r0) = se_ecsn se /\
       dest = from /\ b = response_bytes r0 (s_sol_buf s0)).

Section Rx.
  Variable cfg : ocfg.
  Notation cms := (o_confirm_ms cfg).
  Notation ok := (okrun false (o_confirm_ms cfg)).

  (* a fragment received in the solicited confirm wait: the reaction of the wait (o_w), then possibly
     the idle loop resumed from an intermediate state (o_t) *)
  Lemma sol_wait_rx s from bc bytes d s' o m se dl r :
    on_rx cfg s from bc bytes d = (s', o) -> s_control s = CSolWait se dl r ->
    dcons bytes d -> Good s m -> m_cur m = confirm_of cfg (ERx from bc bytes d) ->
    exists o_w o_t s_i m_i,
      o = o_w ++ o_t /\ ok m o_w (fun x => x = m_i) /\ Good s_i m_i /\
      ((s' = s_i /\ o_t = []) \/ exists stg, s_control s_i = CIdle /\ resume_at cfg stg s_i = (s', o_t)) /\
      wait_tx cfg (upd_frame_id s ((s_frame_id s + 1) mod 4294967296)) se from bc bytes d o_w /\
      ~ In OOutOfFuel o_w.
  Proof.
    unfold on_rx. cbv zeta. intros H Ec Hdc HG Hcur.
    set (fid := (s_frame_id s + 1) mod 4294967296) in *.
    set (s0 := upd_frame_id s fid) in *.
    assert (HG0 : Good s0 m) by (eapply Good_same; [..|exact HG]; reflexivity).
    pose proof (Good_nconf _ _ HG0) as Hnc.
    change (s_control s0) with (s_control s) in H. rewrite Ec in H.
    assert (Ec0 : s_control s0 = CSolWait se dl r) by exact Ec.
    destruct (sol_wait_fragment cfg s0 se dl from bc bytes d) as [out o1] eqn:E1.
    pose proof (sol_wait_fragment_c11 _ _ _ _ _ _ _ _ _ _ E1) as Hsw.
    pose proof HG0 as [(Gl & Gd & Gp & Gu & Gw) [Hclk Hr]]. rewrite Ec0 in Hr.
    destruct (Gw _ _ _ Ec0) as (Hq & l & r0 & Hl & Hr0 & Hseq & Hfin & Hcon & Hrd).
    destruct (Gl _ _ Hl Hr0) as [[Hfn0 Hbits0] _].
    destruct out as [dl'|rt|].
    - (* the wait goes on *)
      inv_pair H. destruct Hsw as [[-> Hn]|[-> (ctl & fn & obj & resp & hdrs & rh & Et & Ecl & Ho)]].
      + exists o, [], (upd_control s0 (CSolWait se dl r)), m. split; [rewrite app_nil_r; reflexivity|].
        split; [apply okrun_neut; [exact Hn|exact Hnc|reflexivity]|].
        split; [eapply Good_same; [..|exact HG0]; try reflexivity; psimpl; auto|].
        split; [left; auto|]. split.
        * intros dest b Hin. exfalso. clear - Hn Hin. induction o as [|x o IH]; [exact Hin|].
          cbn [forallb] in Hn. apply andb_true_iff in Hn as [A B]. destruct Hin as [-> |Hin]; [discriminate A|auto].
        * intros Hin. clear - Hn Hin. induction o as [|x o IH]; [exact Hin|].
          cbn [forallb] in Hn. apply andb_true_iff in Hn as [A B]. destruct Hin as [-> |Hin]; [discriminate A|auto].
      + pose proof (classify_repeat_read _ _ _ _ _ _ _ _ _ Ecl) as (_ & _ & l1 & Hl1 & Hresp & _).
        assert (l1 = l) by congruence. subst l1. rewrite Hr0 in Hresp. subst resp o. unfold repeat_solicited.
        set (m1 := set_ph m (POpen (se_ecsn se) (se_fin se) (m_clock m + cms))).
        exists [OTx from (response_bytes r0 (s_sol_buf s0))], [],
               (upd_control s0 (CSolWait se (confirm_deadline cfg s0) r)), m1.
        split; [reflexivity|]. split; [|split; [|split; [left; auto|split]]].
        * eapply okrun_cons with (m1 := m1); [discriminate| |apply okrun_nil; reflexivity].
          cbn [mon_ob]. unfold mon_tx. rewrite nth1_response_bytes, nth0_response_bytes, Hfn0.
          change (129 =? 129) with true. cbv iota. rewrite Hbits0, Hr. cbn [negb andb].
          rewrite Hseq, N.eqb_refl, Hfin, Bool.eqb_reflx, Hcon. reflexivity.
        * split; [split; [exact Gl|split; [exact Gd|split; [exact Gp|split]]]|].
          -- intros a b c e X. psimpl_in X. discriminate.
          -- intros se0 dl0 rs0 X. psimpl_in X. inversion X; subst se0 dl0 rs0. split; [exact Hq|].
             exists l, r0. repeat split; auto.
          -- split; [exact Hclk|]. psimpl. subst m1. cbn [set_ph m_ph]. unfold confirm_deadline. rewrite Hclk. reflexivity.
        * intros dest b [Hin|[]]. inversion Hin; subst dest b. right.
          exists ctl, fn, obj, hdrs, rh, l, r0. repeat split; auto.
        * intros [X|[]]. discriminate X.
    - (* the expected confirm *)
      destruct Hsw as (-> & -> & Hcf). rewrite Hcf in Hcur.
      set (mC := {| m_ph := if se_fin se then PIdle else PConf (se_ecsn se) from; m_cur := None; m_clock := m_clock m |}).
      assert (HmC : mon_ob false cms m (OInfo (ISolConfirmed (se_ecsn se))) = Some mC).
      { cbn [mon_ob]. rewrite Hr, Hcur, !N.eqb_refl. reflexivity. }
      destruct (se_fin se) eqn:Ef.
      + destruct (resume_at cfg (stage_of r) (upd_control (upd_last_bcast s0 None) CIdle)) as [s2 o2] eqn:E2. inv_pair H.
        exists [OInfo (ISolConfirmed (se_ecsn se)); ODb DbClearWritten], o2, (upd_control (upd_last_bcast s0 None) CIdle), mC.
        split; [reflexivity|]. split; [|split; [|split; [right; eauto|split]]].
        * eapply okrun_cons; [discriminate|exact HmC|].
          eapply okrun_cons with (m1 := mC); [discriminate|reflexivity|apply okrun_nil; reflexivity].
        * split; [split; [exact Gl|split; [exact Gd|split; [exact Gp|split]]]|].
          -- apply g_uw_idle. reflexivity.
          -- apply g_wait_idle. reflexivity.
          -- split; [exact Hclk|exact I].
        * intros dest b [X|[X|[]]]; discriminate X.
        * intros [X|[X|[]]]; discriminate X.
      + destruct (format_read_response (upd_last_bcast s0 None) false (seq16_next (se_ecsn se)) 0) as [[[s2 rsp] next] o2] eqn:E2.
        destruct (write_solicited s2 from rsp) as [[s3 rsp'] o3] eqn:E3.
        pose proof (format_read_response_c11 _ _ _ _ _ _ _ _ E2) as (complete & nc & Hfn & Hctl & Hnext & Hor).
        pose proof (format_read_response_conf _ _ _ _ _ _ _ _ E2) as S2.
        pose proof (format_read_response_bcast _ _ _ _ _ _ _ _ E2) as Hb2.
        pose proof (L12.format_read_response_spec _ _ _ _ _ _ _ _ E2) as ((Bn & Bc & Bl & _ & _ & Bd & _ & Bp & _) & _).
        pose proof (write_solicited_nobcast _ _ _ _ _ _ Hb2 E3) as Hctl'.
        pose proof (write_solicited_conf _ _ _ _ _ _ E3) as (pre & -> & S3).
        pose proof (L12.write_solicited_spec _ _ _ _ _ _ E3) as ((Cn & Cc & Cl & _ & _ & Cd & _ & Cp & _) & _ & Hfn' & _).
        clear E2 E3. psimpl_in Bn. psimpl_in Bc. psimpl_in Bl. psimpl_in Bd. psimpl_in Bp.
        assert (Hl3 : s_last s3 = Some l) by (rewrite Cl, Bl; exact Hl).
        assert (Hn3 : s_now s3 = s_now s0) by (rewrite Cn, Bn; reflexivity).
        assert (Hd3 : s_deferred s3 = s_deferred s0) by (rewrite Cd, Bd; reflexivity).
        assert (Hp3 : s_pending s3 = s_pending s0) by (rewrite Cp, Bp; reflexivity).
        rewrite Hl3 in H.
        set (l' := {| lr_seq := lr_seq l; lr_bytes := lr_bytes l; lr_response := Some rsp'; lr_series := lr_series l |}) in *.
        set (s4 := upd_last s3 (Some l')) in *.
        set (q' := seq16_next (se_ecsn se)) in *.
        assert (Hq' : q' < 16) by apply L12.seq16_next_lt.
        assert (Hc' : r_ctl rsp' = ctl_byte false complete nc false q') by congruence.
        assert (Hok' : resp_ok rsp').
        { split; [congruence|]. rewrite Hc'. apply tx_bits_ctl_byte. exact Hor. }
        set (m2 := set_ph mC (if nc then POpen q' complete (m_clock m + cms) else PIdle)).
        set (tx := OTx from (response_bytes rsp' (s_sol_buf s3))).
        assert (Htx : mon_ob false cms mC tx = Some m2).
        { subst tx. cbn [mon_ob]. unfold mon_tx. rewrite nth1_response_bytes, nth0_response_bytes.
          destruct Hok' as [-> ->]. change (129 =? 129) with true. cbv iota. cbn [negb].
          subst mC. cbn [m_ph m_clock]. rewrite Hc'. unfold c_fir, c_fin.
          rewrite L12.ctl_byte_fir, L12.ctl_byte_seq, L12.ctl_byte_con, L12.ctl_byte_fin.
          rewrite (N.mod_small _ _ Hq'). fold q'. rewrite !N.eqb_refl. reflexivity. }
        assert (Hlast4 : g_last s4).
        { intros x y Hx Hy. subst s4 l'. psimpl_in Hx. inversion Hx; subst x. cbn [lr_response lr_bytes] in *.
          inversion Hy; subst y. split; [exact Hok'|]. intros X. rewrite (Hrd eq_refl) in X. discriminate. }
        set (o_w := [OInfo (ISolConfirmed (se_ecsn se))] ++ [ODb DbClearWritten] ++ o2 ++ pre ++ [tx]).
        assert (Hrun : ok m o_w (fun x => x = m2)).
        { subst o_w. cbn [app]. eapply okrun_cons; [discriminate|exact HmC|].
          eapply okrun_cons with (m1 := mC); [discriminate|reflexivity|].
          eapply okrun_app with (Q := fun x => x = mC); [apply okrun_conf; auto|]. intros ? ->.
          eapply okrun_app with (Q := fun x => x = mC); [apply okrun_conf; auto|]. intros ? ->.
          eapply okrun_cons; [discriminate|exact Htx|]. apply okrun_nil. reflexivity. }
        assert (Hconf_in : forall (oo : list oobs) x, forallb confb oo = true -> In x oo -> confb x = true).
        { intros oo x Ho Hin. rewrite forallb_forall in Ho. auto. }
        assert (Hwtx : wait_tx cfg s0 se from bc bytes d o_w).
        { intros dest b Hin. subst o_w. cbn [app] in Hin. destruct Hin as [X|[X|Hin]]; try discriminate X.
          apply in_app_or in Hin as [Hin|Hin]; [apply (Hconf_in _ _ S2) in Hin; discriminate Hin|].
          apply in_app_or in Hin as [Hin|Hin]; [apply (Hconf_in _ _ S3) in Hin; discriminate Hin|].
          destruct Hin as [X|[]]. subst tx. inversion X; subst dest b. left.
          rewrite nth1_response_bytes, nth0_response_bytes. destruct Hok' as [A B].
          split; [exact Hcf|]. split; [exact Ef|]. split; [exact A|]. rewrite Hc'. unfold c_fir.
          rewrite L12.ctl_byte_fir, L12.ctl_byte_seq, (N.mod_small _ _ Hq'). repeat split; auto.
          rewrite <- Hc'. exact B. }
        assert (Hnf : ~ In OOutOfFuel o_w).
        { intros Hin. subst o_w. cbn [app] in Hin. destruct Hin as [X|[X|Hin]]; try discriminate X.
          apply in_app_or in Hin as [Hin|Hin]; [apply (Hconf_in _ _ S2) in Hin; discriminate Hin|].
          apply in_app_or in Hin as [Hin|Hin]; [apply (Hconf_in _ _ S3) in Hin; discriminate Hin|].
          destruct Hin as [X|[]]. subst tx. discriminate X. }
        destruct nc; subst next.
        * inv_pair H.
          exists o_w, [], (upd_control s4 (CSolWait {| se_ecsn := q'; se_fin := complete |} (confirm_deadline cfg s4) r)), m2.
          split; [rewrite app_nil_r; reflexivity|]. split; [exact Hrun|]. split; [|split; [left; auto|split; assumption]].
          split; [split; [exact Hlast4|split; [|split; [|split]]]|].
          -- intros x X. apply (Gd x). subst s4. psimpl_in X. rewrite <- Hd3. exact X.
          -- intros a b c e f X. apply (Gp a b c e f). subst s4. psimpl_in X. rewrite <- Hp3. exact X.
          -- intros a b c e X. psimpl_in X. discriminate.
          -- intros se0 dl0 rs0 X. psimpl_in X. inversion X; subst se0 dl0 rs0. cbn [se_ecsn se_fin].
             split; [exact Hq'|]. exists l', rsp'. subst s4. psimpl. split; [reflexivity|]. split; [reflexivity|].
             rewrite Hc'. unfold c_fin. rewrite L12.ctl_byte_seq, L12.ctl_byte_fin, L12.ctl_byte_con.
             rewrite (N.mod_small _ _ Hq'). repeat split; auto.
          -- split.
             ++ subst m2 mC s4. cbn [set_ph m_clock]. psimpl. rewrite Hn3. exact Hclk.
             ++ subst m2 mC s4. psimpl. cbn [set_ph m_ph se_ecsn se_fin]. unfold confirm_deadline. psimpl.
                rewrite Hclk, Hn3. reflexivity.
        * destruct (resume_at cfg (stage_of r) (upd_control s4 CIdle)) as [s5 o5] eqn:E5. inv_pair H.
          exists o_w, o5, (upd_control s4 CIdle), m2.
          split; [subst o_w tx; cbn [app]; rewrite <- ?app_assoc; reflexivity|].
          split; [exact Hrun|]. split; [|split; [right; eauto|split; assumption]].
          split; [split; [exact Hlast4|split; [|split; [|split]]]|].
          -- intros x X. apply (Gd x). subst s4. psimpl_in X. rewrite <- Hd3. exact X.
          -- intros a b c e f X. apply (Gp a b c e f). subst s4. psimpl_in X. rewrite <- Hp3. exact X.
          -- apply g_uw_idle. reflexivity.
          -- apply g_wait_idle. reflexivity.
          -- split; [|exact I]. subst m2 mC s4. cbn [set_ph m_clock]. psimpl. rewrite Hn3. exact Hclk.
    - (* anything else aborts the series *)
      subst o1.
      destruct (resume_at cfg (stage_of r) (upd_pending (upd_control s0 CIdle) (Some (from, bc, bytes, d, fid))))
        as [s2 o2] eqn:E2. inv_pair H.
      exists [OInfo ISolNewRequest; ODb DbReset], o2, (upd_pending (upd_control s0 CIdle) (Some (from, bc, bytes, d, fid))), (set_ph m PIdle).
      split; [reflexivity|]. split; [|split; [|split; [right; eauto|split]]].
      + eapply okrun_cons with (m1 := set_ph m PIdle); [discriminate|cbn [mon_ob]; rewrite Hr; reflexivity|].
        eapply okrun_cons with (m1 := set_ph m PIdle); [discriminate|reflexivity|apply okrun_nil; reflexivity].
      + split; [split; [exact Gl|split; [exact Gd|split; [|split]]]|].
        * intros a b c e f X. psimpl_in X. inversion X; subst. exact Hdc.
        * apply g_uw_idle. reflexivity.
        * apply g_wait_idle. reflexivity.
        * split; [exact Hclk|exact I].
      + intros dest b [X|[X|[]]]; discriminate X.
      + intros [X|[X|[]]]; discriminate X.
  Qed.

  (* `st = true`: outside the solicited confirm wait the strict monitor accepts too *)
  Lemma on_rx_good st s from bc bytes d s' o m :
    on_rx cfg s from bc bytes d = (s', o) -> dcons bytes d -> Good s m ->
    (~ nwait s -> m_cur m = confirm_of cfg (ERx from bc bytes d)) -> (st = true -> nwait s) ->
    okrun st cms m o (Good s').
  Proof.
    intros H Hdc HG Hcur Hst.
    destruct (s_control s) as [|se dl r|resp n ret dl] eqn:Ec.
    - (* idle *)
      unfold on_rx in H. cbv zeta in H.
      set (fid := (s_frame_id s + 1) mod 4294967296) in *.
      set (s0 := upd_frame_id s fid) in *.
      assert (HG0 : Good s0 m) by (eapply Good_same; [..|exact HG]; reflexivity).
      change (s_control s0) with (s_control s) in H. rewrite Ec in H.
      eapply idle_loop_good; [exact H|exact Ec|].
      destruct HG0 as [(A & B & C & D & E) R]. split; [|exact R].
      split; [exact A|split; [exact B|split; [|split; [exact D|exact E]]]].
      intros a b c e f X. psimpl_in X. inversion X; subst. exact Hdc.
    - (* solicited confirm wait *)
      destruct st; [exfalso; specialize (Hst eq_refl); unfold nwait in Hst; rewrite Ec in Hst; exact Hst|].
      assert (Hcur' : m_cur m = confirm_of cfg (ERx from bc bytes d)).
      { apply Hcur. unfold nwait. rewrite Ec. auto. }
      clear Hcur. rename Hcur' into Hcur.
      destruct (sol_wait_rx _ _ _ _ _ _ _ _ _ _ _ H Ec Hdc HG Hcur)
        as (o_w & o_t & s_i & m_i & -> & Hw & HGi & Ht & _).
      eapply okrun_app; [exact Hw|]. intros ? ->.
      destruct Ht as [[-> ->]|(stg & Hci & Er)]; [apply okrun_nil; exact HGi|].
      eapply resume_at_good; eauto.
    - (* unsolicited confirm wait *)
      unfold on_rx in H. cbv zeta in H.
      set (fid := (s_frame_id s + 1) mod 4294967296) in *.
      set (s0 := upd_frame_id s fid) in *.
      assert (HG0 : Good s0 m) by (eapply Good_same; [..|exact HG]; reflexivity).
      change (s_control s0) with (s_control s) in H. rewrite Ec in H.
      assert (Hn0 : nwait s0) by (unfold nwait; change (s_control s0) with (s_control s); rewrite Ec; exact I).
      destruct (unsol_wait_fragment cfg s0 resp from bc bytes d fid) as [[s1 res] o1] eqn:E1.
      pose proof (L12.unsol_wait_fragment_frame _ _ _ _ _ _ _ _ _ _ _ E1) as [(_ & Fc & _) _].
      pose proof (unsol_wait_fragment_good cfg st _ _ _ _ _ _ _ _ _ _ m E1 Hn0 Hdc HG0) as W.
      destruct res as [x|].
      + destruct (end_unsol cfg s1 n x) as [[s2 ns] o2] eqn:E2.
        destruct (resume_at cfg (St3 ns) s2) as [s3 o3] eqn:E3. inv_pair H.
        eapply okrun_app; [exact W|]. intros m1 HG1.
        assert (Hn1 : nwait s1) by (unfold nwait; rewrite Fc; exact Hn0).
        destruct (end_unsol_good cfg st _ _ _ _ _ _ m1 E2 Hn1 HG1) as [W2 Hc2].
        eapply okrun_app; [exact W2|]. intros m2 HG2. eapply resume_at_good; eauto.
      + inv_pair H. exact W.
  Qed.
End Rx.

(* ---------- one step of the session -------------------------------------------------------------------------- *)

Section Step.
  Variable cfg : ocfg.
  Variable st : bool.
  Notation cms := (o_confirm_ms cfg).
  Notation ok := (okrun st (o_confirm_ms cfg)).

  Lemma ostep_good s ev ans s' o m :
    ostep cfg s ev ans = (s', o) -> ev_cons ev -> Good s m -> (~ nwait s -> m_cur m = confirm_of cfg ev) ->
    (st = true -> nwait s) ->
    ok m o (GoodB s').
  Proof.
    unfold ostep. intros H Hev HG Hcur Hst.
    set (s0 := upd_answers s ans) in *.
    assert (HG0 : Good s0 m) by (eapply Good_same; [..|exact HG]; reflexivity).
    pose proof (Good_nconf _ _ HG0) as Hnc.
    destruct ev as [from bc bytes d|ms| |sel op|v|].
    - destruct (on_rx cfg s0 from bc bytes d) as [s1 o1] eqn:E1.
      destruct (advance 64 cfg s1 (s_now s1 + settle_ms)) as [s2 o2] eqn:E2. inv_pair H.
      eapply okrun_app; [eapply on_rx_good; eauto|]. intros m1 HG1. eapply advance_good; eauto.
    - destruct (advance 4096 cfg s0 (s_now s0 + ms)) as [sa oa] eqn:Ea. inv_pair H.
      eapply advance_good; eauto.
    - change (s_control s0) with (s_control s) in H.
      destruct (s_control s) eqn:Ec.
      + destruct (idle_loop 8 cfg s0) as [s1 o1] eqn:E1.
        destruct (advance 64 cfg s1 (s_now s1 + settle_ms)) as [s2 o2] eqn:E2. inv_pair H.
        eapply okrun_app; [eapply idle_loop_good; eauto|]. intros m1 HG1. eapply advance_good; eauto.
      + destruct (advance 64 cfg (upd_notify s0 true) (s_now (upd_notify s0 true) + settle_ms)) as [s2 o2] eqn:E2.
        inv_pair H. cbn [app]. eapply advance_good; [exact E2|]. eapply Good_same; [..|exact HG0]; reflexivity.
      + destruct (advance 64 cfg (upd_notify s0 true) (s_now (upd_notify s0 true) + settle_ms)) as [s2 o2] eqn:E2.
        inv_pair H. cbn [app]. eapply advance_good; [exact E2|]. eapply Good_same; [..|exact HG0]; reflexivity.
    - inv_pair H. apply okrun_nil. apply Good_B. eapply Good_same; [..|exact HG0]; reflexivity.
    - inv_pair H. apply okrun_nil. apply Good_B. eapply Good_same; [..|exact HG0]; reflexivity.
    - set (s1 := upd_pending (upd_control (session_reset s0) CIdle) None) in *.
      destruct (idle_loop 8 cfg s1) as [s2 o2] eqn:E2.
      destruct (advance 64 cfg s2 (s_now s2 + settle_ms)) as [s3 o3] eqn:E3. inv_pair H.
      eapply okrun_cons with (m1 := m); [discriminate|cbn [mon_ob]; destruct (m_ph m); try reflexivity; contradiction|].
      eapply okrun_cons with (m1 := set_ph m PIdle); [discriminate|cbn [mon_ob]; destruct (m_ph m); try reflexivity; contradiction|].
      eapply okrun_app.
      + eapply idle_loop_good; [exact E2|reflexivity|].
        destruct HG0 as [_ [Hclk _]].
        split; [split; [|split; [|split; [|split]]]|].
        * intros l r X. discriminate X.
        * intros x X. discriminate X.
        * intros a b c e f X. discriminate X.
        * apply g_uw_idle. reflexivity.
        * apply g_wait_idle. reflexivity.
        * split; [exact Hclk|exact I].
      + intros m1 HG1. eapply advance_good; eauto.
  Qed.

  (* start-up *)
  Lemma ostart_good sel op iin a s o m :
    ostart cfg sel op iin a = (s, o) -> m_ph m = PIdle -> m_clock m = 0%Z -> ok m o (Good s).
  Proof.
    unfold ostart. intros H Hp Hc. eapply idle_loop_good; [exact H|reflexivity|].
    split; [split; [|split; [|split; [|split]]]|].
    - intros l r X. discriminate X.
    - intros x X. discriminate X.
    - intros b c e f g X. discriminate X.
    - apply g_uw_idle. reflexivity.
    - apply g_wait_idle. reflexivity.
    - split; [exact Hc|]. cbn. rewrite Hp. exact I.
  Qed.
End Step.

(* ---------- what the strict monitor accepts when no confirm is at hand: only first fragments ------------- *)

Definition sol_tx_fir (o : oobs) : Prop :=
  match o with OTx _ b => nth 1 b 0 = 129 -> c_fir (nth 0 b 0) = true | _ => True end.

Lemma mon_ob_strict_fir cms m x m1 :
  mon_ob true cms m x = Some m1 -> m_cur m = None -> nconf (m_ph m) ->
  m_cur m1 = None /\ nconf (m_ph m1) /\ sol_tx_fir x.
Proof.
  intros H Hc Hp.
  assert (Hsame : m1 = m -> m_cur m1 = None /\ nconf (m_ph m1)) by (intros ->; auto).
  destruct x as [d b|c|c|i| |t| |]; cbn [mon_ob sol_tx_fir] in *.
  - unfold mon_tx in H. destruct (nth 1 b 0 =? 129) eqn:E.
    + destruct (negb (tx_bits_ok (nth 0 b 0))); [discriminate|].
      destruct (m_ph m) eqn:Ep; try contradiction.
      * destruct (c_fir (nth 0 b 0)) eqn:Ef; [inv_pair H|discriminate H]. cbn. auto.
      * destruct (c_fir (nth 0 b 0)) eqn:Ef; [inv_pair H|discriminate H]. cbn. auto.
      * cbn [negb andb] in H. discriminate.
    + apply N.eqb_neq in E. destruct (m_ph m) eqn:Ep; try contradiction; inv_pair H;
        (split; [exact Hc|split; [rewrite Ep; exact I|intros X; contradiction]]).
  - destruct c; destruct (m_ph m) eqn:Ep; try contradiction; inv_pair H; rewrite ?Ep; auto.
  - destruct (m_ph m) eqn:Ep; try contradiction; inv_pair H; rewrite ?Ep; auto.
  - destruct i; destruct (m_ph m) eqn:Ep; try contradiction; try discriminate H;
      try (inv_pair H; rewrite ?Ep; cbn; auto; fail).
    + destruct (ctl_con c && (ecsn =? ctl_seq c)); [inv_pair H|discriminate H]. cbn. auto.
    + destruct ((ecsn =? q) && (dl <=? m_clock m)%Z); [inv_pair H|discriminate H]. cbn. auto.
    + rewrite Hc in H. discriminate.
  - destruct (m_ph m) eqn:Ep; try contradiction; inv_pair H; cbn; auto.
  - destruct (m_ph m) eqn:Ep; try contradiction; inv_pair H; cbn; rewrite ?Ep; auto.
  - inv_pair H. auto.
  - destruct (m_ph m) eqn:Ep; try contradiction; inv_pair H; rewrite ?Ep; auto.
Qed.

Lemma obrun_strict_fir cms : forall o m,
  m_cur m = None -> nconf (m_ph m) -> obrun true cms m o <> Bad -> ~ In OOutOfFuel o -> Forall sol_tx_fir o.
Proof.
  induction o as [|x r IH]; intros m Hc Hp Hb Hf; [constructor|].
  assert (Hx : x <> OOutOfFuel) by (intros ->; apply Hf; left; reflexivity).
  destruct (mon_ob true cms m x) as [m1|] eqn:E.
  - destruct (mon_ob_strict_fir _ _ _ _ E Hc Hp) as (A & B & C).
    constructor; [exact C|]. apply (IH m1); auto.
    + cbn [obrun] in Hb. destruct x; try (rewrite E in Hb; exact Hb). contradiction Hx. reflexivity.
    + intros X. apply Hf. right. exact X.
  - exfalso. apply Hb. cbn [obrun]. destruct x; try (rewrite E; reflexivity). contradiction Hx. reflexivity.
Qed.

Lemma okrun_not_bad st cms m o (P : mst -> Prop) : okrun st cms m o P -> obrun st cms m o <> Bad.
Proof. unfold okrun. destruct (obrun st cms m o); [contradiction|discriminate|discriminate]. Qed.

Lemma Good_set_cur s m c : Good s m -> Good s {| m_ph := m_ph m; m_cur := c; m_clock := m_clock m |}.
Proof. intros H. exact H. Qed.

Lemma okrun_live st cms m o (P : mst -> Prop) :
  okrun st cms m o P -> ~ In OOutOfFuel o -> exists m', obrun st cms m o = Live m' /\ P m'.
Proof.
  revert m. induction o as [|x r IH]; intros m H Hf; [exists m; split; [reflexivity|exact H]|].
  assert (Hx : x <> OOutOfFuel) by (intros ->; apply Hf; left; reflexivity).
  unfold okrun in *. cbn [obrun] in *.
  destruct (mon_ob st cms m x) as [m1|] eqn:E.
  - destruct x; try (apply IH; [exact H|intros X; apply Hf; right; exact X]); contradiction Hx; reflexivity.
  - destruct x; try contradiction; contradiction Hx; reflexivity.
Qed.
