(* Outstation/SessionLemmas_c05.v — helper lemmas for property C05 over the session model:
   which state fields each function of Session.v touches ("frame" lemmas), what kinds of
   observations it can emit ("shape" lemmas), and that the idle loop never runs out of fuel. *)
From Dnp3V Require Import Outstation.Session.
Open Scope N_scope.

(* ---------- simplification of projections over the upd_* functions ------------------------------ *)

Ltac psimpl :=
  cbn [s_now s_control s_restart_iin s_enabled s_last s_select s_unsol s_unsol_seq s_deferred
       s_last_recorded s_last_bcast s_sol_buf s_unsol_buf s_pending s_frame_id s_notify
       s_sel_status s_op_status s_app_iin s_answers
       upd_control upd_now upd_restart upd_enabled upd_last upd_select upd_unsol upd_unsol_seq
       upd_deferred upd_last_recorded upd_last_bcast upd_sol_buf upd_unsol_buf upd_pending
       upd_frame_id upd_notify upd_knobs upd_answers session_reset deferred_set fst snd].

Ltac psimpl_in H :=
  cbn [s_now s_control s_restart_iin s_enabled s_last s_select s_unsol s_unsol_seq s_deferred
       s_last_recorded s_last_bcast s_sol_buf s_unsol_buf s_pending s_frame_id s_notify
       s_sel_status s_op_status s_app_iin s_answers
       upd_control upd_now upd_restart upd_enabled upd_last upd_select upd_unsol upd_unsol_seq
       upd_deferred upd_last_recorded upd_last_bcast upd_sol_buf upd_unsol_buf upd_pending
       upd_frame_id upd_notify upd_knobs upd_answers session_reset deferred_set fst snd] in H.

Ltac inv_pair H := injection H as ?; subst.

(* split syntactic conjunctions only (never unfolds a definition) *)
Ltac splits := repeat match goal with |- _ /\ _ => split end.

(* ---------- predicates on observations -------------------------------------------------------------- *)

(* a database call (or its missing answer) *)
Definition dbq (ob : oobs) : bool :=
  match ob with ODb _ | OMissingAnswer => true | _ => false end.

(* what executing a request may emit: handler / application callbacks and the RESTART clearing *)
Definition exec_obs (ob : oobs) : bool :=
  match ob with OCb _ | OInfo IClearRestart => true | _ => false end.

(* everything the processing of one received fragment (from idle, or in the unsolicited wait) may emit *)
Definition req_obs (ob : oobs) : bool :=
  match ob with
  | OCb _ | ODb _ | OTx _ _ | OMissingAnswer => true
  | OInfo IClearRestart | OInfo (IBroadcast _ _ _) | OInfo (IIdleRequest _ _)
  | OInfo (IEnterSolWait _) | OInfo (IUnsolConfirmed _) => true
  | _ => false
  end.

(* "the idle loop going on": nothing is executed, no request is taken up from idle *)
Definition bg (ob : oobs) : bool :=
  match ob with
  | OCb _ | OInfo IClearRestart | OInfo (IIdleRequest _ _) => false
  | _ => true
  end.

(* what the promise of C05 is about: no callback, no clearing of the RESTART bit *)
Definition quiet (ob : oobs) : bool :=
  match ob with OCb _ | OInfo IClearRestart => false | _ => true end.

(* what check_unsolicited emits when it starts an unsolicited response *)
Definition ustart (ob : oobs) : bool :=
  match ob with
  | ODb _ | OMissingAnswer | OTx _ _ | OInfo (IEnterUnsolWait _) => true
  | _ => false
  end.

(* what answering a (deferred) READ emits *)
Definition rd_obs (ob : oobs) : bool :=
  match ob with ODb _ | OMissingAnswer | OTx _ _ | OInfo (IEnterSolWait _) => true | _ => false end.

Definition no_oof (ob : oobs) : bool := match ob with OOutOfFuel => false | _ => true end.

Definition not_enter_unsol (ob : oobs) : bool :=
  match ob with OInfo (IEnterUnsolWait _) => false | _ => true end.

Lemma forallb_imp {A} (p q : A -> bool) l :
  (forall x, p x = true -> q x = true) -> forallb p l = true -> forallb q l = true.
Proof.
  intros Hpq. induction l as [|x l IH]; cbn [forallb]; auto.
  intros H. apply andb_true_iff in H as [H1 H2]. rewrite (Hpq _ H1), (IH H2). reflexivity.
Qed.

Lemma dbq_req ob : dbq ob = true -> req_obs ob = true.
Proof. destruct ob; cbn; auto; discriminate. Qed.
Lemma dbq_bg ob : dbq ob = true -> bg ob = true.
Proof. destruct ob; cbn; auto; discriminate. Qed.
Lemma exec_req ob : exec_obs ob = true -> req_obs ob = true.
Proof. destruct ob as [| | |i| | | |]; cbn; auto; try discriminate. destruct i; auto. Qed.
Lemma req_neu ob : req_obs ob = true -> not_enter_unsol ob = true.
Proof. destruct ob as [| | |i| | | |]; cbn; auto. destruct i; auto. Qed.
Lemma bg_quiet ob : bg ob = true -> quiet ob = true.
Proof. destruct ob as [| | |i| | | |]; cbn; auto. destruct i; auto. Qed.
Lemma dbq_ustart ob : dbq ob = true -> ustart ob = true.
Proof. destruct ob; cbn; auto; discriminate. Qed.
Lemma dbq_neu ob : dbq ob = true -> not_enter_unsol ob = true.
Proof. destruct ob; cbn; auto; discriminate. Qed.
Lemma dbq_rd ob : dbq ob = true -> rd_obs ob = true.
Proof. destruct ob; cbn; auto; discriminate. Qed.
Lemma rd_bg ob : rd_obs ob = true -> bg ob = true.
Proof. destruct ob as [| | |i| | | |]; cbn; auto; try discriminate. destruct i; auto. Qed.
Lemma rd_neu ob : rd_obs ob = true -> not_enter_unsol ob = true.
Proof. destruct ob as [| | |i| | | |]; cbn; auto. destruct i; auto. Qed.
Lemma rd_no_oof ob : rd_obs ob = true -> no_oof ob = true.
Proof. destruct ob; cbn; auto. Qed.
Lemma req_no_oof ob : req_obs ob = true -> no_oof ob = true.
Proof. destruct ob; cbn; auto. Qed.
Lemma ustart_no_oof ob : ustart ob = true -> no_oof ob = true.
Proof. destruct ob; cbn; auto. Qed.
Lemma dbq_no_oof ob : dbq ob = true -> no_oof ob = true.
Proof. destruct ob; cbn; auto. Qed.
Lemma ustart_bg ob : ustart ob = true -> bg ob = true.
Proof. destruct ob as [| | |i| | | |]; cbn; auto; try discriminate. destruct i; auto. Qed.

(* solve  forallb p (o1 ++ o2 ++ [x] ...) = true  from hypotheses about the pieces *)
Ltac fb :=
  repeat rewrite forallb_app; cbn [forallb app];
  repeat match goal with
         | H : forallb ?p ?o = true |- context [forallb ?p ?o] => rewrite H
         end;
  cbn [andb]; try reflexivity; auto.

(* ---------- frames ------------------------------------------------------------------------------------- *)

(* the fields the C05 invariants speak about, except the solicited buffer *)
Definition frameB (s s1 : ostate) : Prop :=
  s_control s1 = s_control s /\ s_last s1 = s_last s /\ s_deferred s1 = s_deferred s /\
  s_pending s1 = s_pending s /\ s_notify s1 = s_notify s /\ s_unsol_buf s1 = s_unsol_buf s.

Definition frame (s s1 : ostate) : Prop := frameB s s1 /\ s_sol_buf s1 = s_sol_buf s.

Lemma frameB_refl s : frameB s s.
Proof. unfold frameB; auto 10. Qed.
Lemma frame_refl s : frame s s.
Proof. split; [apply frameB_refl | reflexivity]. Qed.
Lemma frameB_trans a b c : frameB a b -> frameB b c -> frameB a c.
Proof. unfold frameB; intuition congruence. Qed.
Lemma frame_trans a b c : frame a b -> frame b c -> frame a c.
Proof. unfold frame, frameB; intuition congruence. Qed.
Lemma frame_frameB a b : frame a b -> frameB a b.
Proof. intros [H _]; exact H. Qed.

Ltac frame_tac := unfold frame, frameB in *; psimpl; intuition congruence.

(* ---------- asking the environment ------------------------------------------------------------------------ *)

Lemma ask_evinfo_spec s s1 x o :
  ask_evinfo s = (s1, x, o) -> frame s s1 /\ forallb dbq o = true.
Proof.
  unfold ask_evinfo. destruct (s_answers s) as [|[] rest]; intros H; inv_pair H;
    (split; [frame_tac | reflexivity]).
Qed.

Lemma ask_iin2_spec s c s1 v o :
  ask_iin2 s c = (s1, v, o) -> frame s s1 /\ forallb dbq o = true.
Proof.
  unfold ask_iin2. destruct (s_answers s) as [|[] rest]; intros H; inv_pair H;
    (split; [frame_tac | reflexivity]).
Qed.

Lemma ask_write_spec s s1 x o :
  ask_write s = (s1, x, o) -> frame s s1 /\ forallb dbq o = true.
Proof.
  unfold ask_write. destruct (s_answers s) as [|[] rest]; intros H; inv_pair H;
    (split; [frame_tac | reflexivity]).
Qed.

Lemma ask_unsol_spec s s1 x :
  ask_unsol s = (s1, x) -> frame s s1.
Proof.
  unfold ask_unsol. destruct (s_answers s) as [|[] rest]; intros H; inv_pair H; frame_tac.
Qed.

Lemma response_iin_spec s s1 iin o :
  response_iin s = (s1, iin, o) -> frame s s1 /\ forallb dbq o = true.
Proof.
  unfold response_iin. destruct (ask_evinfo s) as [[s0 [[[c1 c2] c3] ovf]] o0] eqn:E.
  apply ask_evinfo_spec in E as [F S]. intros H. inv_pair H. split; [|exact S].
  destruct (s_last_bcast s0) as [[]|]; frame_tac.
Qed.

(* ---------- transmitting ------------------------------------------------------------------------------------ *)

Lemma set_con_seq c : ctl_seq (set_con c) = ctl_seq c.
Proof. unfold set_con, ctl_seq. destruct (ctl_con c); lia. Qed.

Lemma write_solicited_spec s dest r s1 r' o :
  write_solicited s dest r = (s1, r', o) ->
  frame s s1 /\ r_size r' = r_size r /\ r_fn r' = r_fn r /\ ctl_seq (r_ctl r') = ctl_seq (r_ctl r) /\
  exists o', o = o' ++ [OTx dest (response_bytes r' (s_sol_buf s1))] /\ forallb dbq o' = true.
Proof.
  unfold write_solicited. destruct (response_iin s) as [[s0 iin] o0] eqn:E.
  apply response_iin_spec in E as [F S]. intros H. inv_pair H.
  split; [exact F|].
  repeat split.
  - destruct (s_last_bcast s1) as [[]|]; reflexivity.
  - destruct (s_last_bcast s1) as [[]|]; reflexivity.
  - destruct (s_last_bcast s1) as [[]|]; cbn [with_ctl or_iin r_ctl]; auto using set_con_seq.
  - exists o0. split; [reflexivity | exact S].
Qed.

Lemma write_unsolicited_spec cfg s r s1 r' o :
  write_unsolicited cfg s r = (s1, r', o) ->
  frame s s1 /\ r_size r' = r_size r /\ r_fn r' = r_fn r /\ r_ctl r' = r_ctl r /\
  exists o', o = o' ++ [OTx (o_master cfg) (response_bytes r' (s_unsol_buf s1))] /\ forallb dbq o' = true.
Proof.
  unfold write_unsolicited. destruct (response_iin s) as [[s0 iin] o0] eqn:E.
  apply response_iin_spec in E as [F S]. intros H. inv_pair H.
  split; [exact F|]. repeat split. exists o0. split; [reflexivity | exact S].
Qed.

(* ---------- the non-READ functions ---------------------------------------------------------------------- *)

Lemma write_iin_bits_spec bits : forall s s1 v o,
  write_iin_bits s bits = (s1, v, o) -> frame s s1 /\ forallb exec_obs o = true.
Proof.
  induction bits as [|[idx value] rest IH]; intros s s1 v o H; cbn [write_iin_bits] in H.
  - inv_pair H. split; [apply frame_refl | reflexivity].
  - destruct (idx =? 7); [destruct value|].
    + destruct (write_iin_bits s rest) as [[s2 v2] o2] eqn:E. inv_pair H. eapply IH; eauto.
    + destruct (write_iin_bits (upd_restart s false) rest) as [[s2 v2] o2] eqn:E. inv_pair H.
      apply IH in E as [F S]. split; [|cbn [forallb exec_obs]; exact S].
      eapply frame_trans; [|exact F]. frame_tac.
    + destruct (write_iin_bits s rest) as [[s2 v2] o2] eqn:E. inv_pair H. eapply IH; eauto.
Qed.

Lemma write_header_spec cfg s h s1 v o :
  write_header cfg s h = (s1, v, o) -> frame s s1 /\ forallb exec_obs o = true.
Proof.
  destruct h as [bits|t|t|c| |a b|x| | |g v0 p items|]; cbn [write_header]; intros H;
    try (inv_pair H; split; [apply frame_refl | reflexivity]).
  - eapply write_iin_bits_spec; eauto.
  - destruct t; inv_pair H; (split; [apply frame_refl | reflexivity]).
  - destruct t as [t|]; [|inv_pair H; split; [apply frame_refl | reflexivity]].
    destruct (s_last_recorded s) as [t0|]; [|inv_pair H; split; [apply frame_refl | reflexivity]].
    destruct (max_timestamp - t <? Z.to_N (s_now s - t0)); inv_pair H;
      (split; [frame_tac | reflexivity]).
Qed.

Lemma handle_write_headers_spec cfg hdrs : forall s s1 v o,
  handle_write_headers cfg s hdrs = (s1, v, o) -> frame s s1 /\ forallb exec_obs o = true.
Proof.
  induction hdrs as [|h rest IH]; intros s s1 v o H; cbn [handle_write_headers] in H.
  - inv_pair H. split; [apply frame_refl | reflexivity].
  - destruct (write_header cfg s h) as [[s2 v2] o2] eqn:E1.
    destruct (handle_write_headers cfg s2 rest) as [[s3 v3] o3] eqn:E2. inv_pair H.
    apply write_header_spec in E1 as [F1 S1]. apply IH in E2 as [F2 S2].
    split; [eapply frame_trans; eauto | fb].
Qed.

Lemma freeze_header_spec cfg ft t i h v o :
  freeze_header cfg ft t i h = (v, o) -> forallb exec_obs o = true.
Proof. destruct h; cbn [freeze_header]; intros H; inv_pair H; reflexivity. Qed.

Lemma handle_freeze_spec cfg ft hdrs : forall v o,
  handle_freeze cfg ft hdrs = (v, o) -> forallb exec_obs o = true.
Proof.
  induction hdrs as [|h rest IH]; intros v o H; cbn [handle_freeze] in H.
  - inv_pair H. reflexivity.
  - destruct (freeze_header cfg ft 0 0 h) as [v1 o1] eqn:E1.
    destruct (handle_freeze cfg ft rest) as [v2 o2] eqn:E2. inv_pair H.
    apply freeze_header_spec in E1. specialize (IH _ _ eq_refl). fb.
Qed.

Lemma handle_freeze_at_time_spec cfg hdrs : forall timing v o,
  handle_freeze_at_time cfg timing hdrs = (v, o) -> forallb exec_obs o = true.
Proof.
  induction hdrs as [|h rest IH]; intros timing v o H; cbn [handle_freeze_at_time] in H.
  - inv_pair H. reflexivity.
  - assert (G : forall v o, (match timing with
      | None => let '(v, o) := handle_freeze_at_time cfg timing rest in (N.lor iin2_param v, o)
      | Some (t, i) =>
          let '(v1, o1) := freeze_header cfg 2 t i h in
          let '(v2, o2) := handle_freeze_at_time cfg timing rest in
          (N.lor v1 v2, o1 ++ o2)
      end) = (v, o) -> forallb exec_obs o = true).
    { intros v' o' G. destruct timing as [[t i]|].
      - destruct (freeze_header cfg 2 t i h) as [v1 o1] eqn:E1.
        destruct (handle_freeze_at_time cfg (Some (t, i)) rest) as [v2 o2] eqn:E2. inv_pair G.
        apply freeze_header_spec in E1. apply IH in E2. fb.
      - destruct (handle_freeze_at_time cfg None rest) as [v2 o2] eqn:E2. inv_pair G.
        eapply IH; eauto. }
    destruct h as [bits|t|t|c| |a b|x| | |g v0 p items|]; try (eapply G; exact H).
    destruct x as [x|].
    + eapply IH; eauto.
    + destruct (handle_freeze_at_time cfg timing rest) as [v2 o2] eqn:E2. inv_pair H.
      eapply IH; eauto.
Qed.

Lemma enable_disable_spec cfg s en seq hdrs s1 r :
  enable_disable cfg s en seq hdrs = (s1, r) -> frame s s1 /\ r_size r = 0%nat.
Proof.
  unfold enable_disable. destruct (negb (o_unsol cfg)).
  - intros H; inv_pair H. split; [apply frame_refl | reflexivity].
  - match goal with |- context [fold_left ?f ?l ?a] => destruct (fold_left f l a) as [e v] end.
    intros H; inv_pair H. split; [frame_tac | reflexivity].
Qed.

Lemma restart_response_spec seq s d s1 r :
  restart_response seq s d = (s1, r) -> frameB s s1.
Proof.
  unfold restart_response. destruct d as [[ms v]|]; intros H; inv_pair H; frame_tac.
Qed.

(* control handling emits only handler callbacks *)
Lemma ctl_one_header_shape s cfg cap mode g v prefix items : forall written n hs num started w ok cbs st num' started',
  ctl_one_header s cfg cap mode g v prefix written n hs num started items = (w, ok, cbs, st, num', started') ->
  forallb exec_obs cbs = true.
Proof.
  induction items as [|[idx obj] rest IH]; intros written n hs num started w ok cbs st num' started' H;
    cbn [ctl_one_header] in H.
  - inv_pair H. reflexivity.
  - destruct (item_status s cfg mode num) as [st0 consulted] eqn:Ei.
    destruct (echo_items cap g v prefix written n hs [(idx, replace_status obj st0)]) as [w1 ok1] eqn:Ee.
    assert (Hcb : forall x, forallb exec_obs (if consulted then (if started then [] else [OCb CbBeginFragment]) ++ [OCb x] else []) = true).
    { intros x. destruct consulted, started; reflexivity. }
    destruct ok1.
    + destruct (ctl_one_header s cfg cap mode g v prefix w1 (n + 1) hs (num + 1) (started || consulted) rest)
        as [[[[[w2 ok2] cbs2] st2] num2] started2] eqn:E2.
      inv_pair H. apply IH in E2. rewrite forallb_app, Hcb, E2. reflexivity.
    + inv_pair H. apply Hcb.
Qed.

Lemma ctl_headers_shape s cfg cap mode hdrs : forall written num started w ok cbs st started',
  ctl_headers s cfg cap mode written num started hdrs = (w, ok, cbs, st, started') ->
  forallb exec_obs cbs = true.
Proof.
  induction hdrs as [|h rest IH]; intros written num started w ok cbs st started' H; cbn [ctl_headers] in H.
  - inv_pair H. reflexivity.
  - destruct h as [bits|t|t|c| |a b|x| | |g v0 p items|]; try (eapply IH; exact H).
    destruct (ctl_one_header s cfg cap mode g v0 p written 0 (length written) num started items)
      as [[[[[w1 ok1] cbs1] st1] num1] started1] eqn:E1.
    apply ctl_one_header_shape in E1.
    destruct ok1.
    + destruct (ctl_headers s cfg cap mode w1 num1 started1 rest) as [[[[w2 ok2] cbs2] st2] started2] eqn:E2.
      inv_pair H. apply IH in E2. fb.
    + inv_pair H. exact E1.
Qed.

Lemma noack_items_shape s cfg g v items : forall num started cbs num' started',
  noack_items s cfg g v num started items = (cbs, num', started') -> forallb exec_obs cbs = true.
Proof.
  induction items as [|[idx obj] rest IH]; intros num started cbs num' started' H; cbn [noack_items] in H.
  - inv_pair H. reflexivity.
  - match type of H with context [noack_items s cfg g v ?a ?b rest] =>
      destruct (noack_items s cfg g v a b rest) as [[cbs2 num2] started2] eqn:E2 end.
    inv_pair H. apply IH in E2. rewrite forallb_app, E2.
    destruct (match o_max_controls cfg with Some m => num <? m | None => true end), started; reflexivity.
Qed.

Lemma noack_headers_shape s cfg hdrs : forall num started cbs started',
  noack_headers s cfg num started hdrs = (cbs, started') -> forallb exec_obs cbs = true.
Proof.
  induction hdrs as [|h rest IH]; intros num started cbs started' H; cbn [noack_headers] in H.
  - inv_pair H. reflexivity.
  - destruct h as [bits|t|t|c| |a b|x| | |g v0 p items|]; try (eapply IH; exact H).
    destruct (noack_items s cfg g v0 num started items) as [[cbs1 num1] started1] eqn:E1.
    destruct (noack_headers s cfg num1 started1 rest) as [cbs2 started2] eqn:E2.
    inv_pair H. apply noack_items_shape in E1. apply IH in E2. fb.
Qed.

Lemma finish_shape (started : bool) : forallb exec_obs (if started then [OCb CbEndFragment] else []) = true.
Proof. destruct started; reflexivity. Qed.

Lemma handle_controls_spec cfg s fn seq fid bytes hdrs s1 r o :
  handle_controls cfg s fn seq fid bytes hdrs = (s1, r, o) ->
  frameB s s1 /\ forallb exec_obs o = true /\ (fn = fn_direct_operate_nr -> s1 = s /\ r = None).
Proof.
  unfold handle_controls. destruct (negb (all_controls hdrs)).
  { intros H; inv_pair H. split; [apply frameB_refl|]. split; [reflexivity|].
    intros ->. cbn. auto. }
  destruct (fn =? fn_direct_operate_nr) eqn:Enr.
  { destruct (noack_headers s cfg 0 false hdrs) as [cbs started] eqn:E. intros H; inv_pair H.
    apply noack_headers_shape in E. split; [apply frameB_refl|]. split; [|auto].
    rewrite forallb_app, E, finish_shape. reflexivity. }
  assert (Hne : fn = fn_direct_operate_nr -> forall P : Prop, P).
  { intros ->. cbn in Enr. discriminate. }
  destruct (fn =? fn_select).
  { destruct (ctl_headers s cfg (o_sol_tx cfg - 4) CmSelect [] 0 false hdrs) as [[[[echo ok] cbs] st] started] eqn:E.
    apply ctl_headers_shape in E. intros H; inv_pair H.
    split; [destruct (ok && (st =? 0)); frame_tac|]. split; [|intros X; apply (Hne X)].
    rewrite forallb_app, E, finish_shape. reflexivity. }
  destruct (fn =? fn_direct_operate).
  { destruct (ctl_headers s cfg (o_sol_tx cfg - 4) (CmOperate OpDo) [] 0 false hdrs) as [[[[echo ok] cbs] st] started] eqn:E.
    apply ctl_headers_shape in E. intros H; inv_pair H.
    split; [frame_tac|]. split; [|intros X; apply (Hne X)].
    rewrite forallb_app, E, finish_shape. reflexivity. }
  destruct (match s_select s with Some sel => match_operate cfg s sel seq fid (objects_of bytes) | None => Some 2 end) as [status|].
  - destruct (ctl_headers s cfg (o_sol_tx cfg - 4) (CmStatus status) [] 0 false hdrs) as [[[[echo ok] cbs] st] started] eqn:E.
    intros H; inv_pair H. split; [frame_tac|]. split; [reflexivity|intros X; apply (Hne X)].
  - destruct (ctl_headers s cfg (o_sol_tx cfg - 4) (CmOperate OpSbo) [] 0 false hdrs) as [[[[echo ok] cbs] st] started] eqn:E.
    apply ctl_headers_shape in E. intros H; inv_pair H.
    split; [frame_tac|]. split; [|intros X; apply (Hne X)].
    rewrite forallb_app, E, finish_shape. reflexivity.
Qed.

Lemma handle_non_read_spec cfg s fn seq fid bytes hdrs s1 r o :
  handle_non_read cfg s fn seq fid bytes hdrs = (s1, r, o) ->
  frameB s s1 /\ forallb exec_obs o = true.
Proof.
  intros H. unfold handle_non_read in H. cbv beta zeta in H.
  match type of H with (match ?body with _ => _ end) = _ => destruct body as [[s2 r2] o2] eqn:E end.
  inv_pair H.
  repeat match type of E with
  | (if ?c then _ else _) = _ => destruct c
  end;
  repeat match type of E with
  | (match ?x with _ => _ end) = _ => let E1 := fresh "E1" in destruct x as [? ?] eqn:E1
  end;
  try (inv_pair E);
  try match goal with
  | E1 : handle_write_headers _ _ _ = _ |- _ => apply handle_write_headers_spec in E1 as [F S]; apply frame_frameB in F
  | E1 : restart_response _ _ _ = _ |- _ => apply restart_response_spec in E1
  | E1 : handle_controls _ _ _ _ _ _ _ = _ |- _ => apply handle_controls_spec in E1 as [F [S _]]
  | E1 : handle_freeze _ _ _ = _ |- _ => apply handle_freeze_spec in E1
  | E1 : handle_freeze_at_time _ _ _ = _ |- _ => apply handle_freeze_at_time_spec in E1
  | E1 : enable_disable _ _ _ _ _ = _ |- _ => apply enable_disable_spec in E1 as [F _]; apply frame_frameB in F
  end;
  (split; [first [assumption | apply frameB_refl | frame_tac] | first [assumption | reflexivity]]).
Qed.

(* ---------- READ ---------------------------------------------------------------------------------------- *)

Lemma format_read_response_spec s fir seq iin2 s1 r se o :
  format_read_response s fir seq iin2 = (s1, r, se, o) ->
  frameB s s1 /\ forallb dbq o = true /\
  ctl_seq (r_ctl r) = seq mod 16 /\ (forall x, se = Some x -> se_ecsn x = seq).
Proof.
  unfold format_read_response. destruct (ask_write s) as [[s0 [[complete has_events] body]] o0] eqn:E.
  apply ask_write_spec in E as [F S]. intros H; inv_pair H.
  split; [frame_tac|]. split; [exact S|]. split.
  - cbn [r_ctl]. unfold ctl_seq, ctl_byte.
    destruct fir, complete, has_events; cbn [orb negb]; lia.
  - intros x. destruct (has_events || negb complete); intros X; inversion X; reflexivity.
Qed.

Lemma format_first_read_response_spec s seq s1 r se o :
  format_first_read_response s seq = (s1, r, se, o) ->
  frameB s s1 /\ forallb dbq o = true /\
  ctl_seq (r_ctl r) = seq mod 16 /\ (forall x, se = Some x -> se_ecsn x = seq).
Proof.
  unfold format_first_read_response. destruct (ask_iin2 s DbSelect) as [[s0 v] o0] eqn:E0.
  destruct (format_read_response s0 true seq v) as [[[s2 r2] se2] o2] eqn:E1.
  apply ask_iin2_spec in E0 as [F0 S0]. apply format_read_response_spec in E1 as [F1 [S1 [Q1 Q2]]].
  intros H; inv_pair H. split; [eapply frameB_trans; [apply frame_frameB; exact F0 | exact F1]|].
  split; [fb|]. auto.
Qed.

(* ---------- broadcast, error responses --------------------------------------------------------------------- *)

Lemma process_broadcast_spec cfg s m fid ctl fn bytes obj s1 o :
  process_broadcast cfg s m fid ctl fn bytes obj = (s1, o) ->
  frame s s1 /\ forallb req_obs o = true.
Proof.
  unfold process_broadcast. cbv zeta.
  destruct (negb (o_broadcast cfg)); [intros H; inv_pair H; split; [frame_tac | reflexivity]|].
  destruct obj as [iin2|hdrs rh]; [intros H; inv_pair H; split; [frame_tac | reflexivity]|].
  destruct (fn =? fn_write).
  { destruct (handle_write_headers cfg (upd_last_bcast s (Some m)) hdrs) as [[s2 v] o2] eqn:E.
    apply handle_write_headers_spec in E as [F S]. intros H; inv_pair H.
    split; [eapply frame_trans; [|exact F]; frame_tac|].
    rewrite forallb_app, (forallb_imp _ _ _ exec_req S). reflexivity. }
  destruct (fn =? fn_direct_operate_nr) eqn:Enr.
  { apply N.eqb_eq in Enr. subst fn.
    destruct (handle_controls cfg (upd_last_bcast s (Some m)) fn_direct_operate_nr (ctl_seq ctl) fid bytes hdrs)
      as [[s2 r2] o2] eqn:E.
    apply handle_controls_spec in E as [F [S X]]. destruct (X eq_refl) as [-> ->].
    intros H; inv_pair H. split; [frame_tac|].
    rewrite forallb_app, (forallb_imp _ _ _ exec_req S). reflexivity. }
  assert (Hfr : forall ft, (let '(_, o) := handle_freeze cfg ft hdrs in (upd_last_bcast s (Some m), o ++ [OInfo (IBroadcast fn 0 0)])) = (s1, o) ->
            frame s s1 /\ forallb req_obs o = true).
  { intros ft. destruct (handle_freeze cfg ft hdrs) as [v o2] eqn:E. apply handle_freeze_spec in E.
    intros H; inv_pair H. split; [frame_tac|].
    rewrite forallb_app, (forallb_imp _ _ _ exec_req E). reflexivity. }
  destruct (fn =? fn_immediate_freeze_nr); [apply Hfr|].
  destruct (fn =? fn_freeze_clear_nr); [apply Hfr|].
  destruct (fn =? fn_freeze_at_time_nr).
  { destruct (handle_freeze_at_time cfg None hdrs) as [v o2] eqn:E. apply handle_freeze_at_time_spec in E.
    intros H; inv_pair H. split; [frame_tac|].
    rewrite forallb_app, (forallb_imp _ _ _ exec_req E). reflexivity. }
  destruct (fn =? fn_record_time); [intros H; inv_pair H; split; [frame_tac | reflexivity]|].
  destruct (fn =? fn_disable_unsol).
  { destruct (enable_disable cfg (upd_last_bcast s (Some m)) false (ctl_seq ctl) hdrs) as [s2 r2] eqn:E.
    apply enable_disable_spec in E as [F _]. intros H; inv_pair H.
    split; [eapply frame_trans; [|exact F]; frame_tac | reflexivity]. }
  destruct (fn =? fn_enable_unsol).
  { destruct (enable_disable cfg (upd_last_bcast s (Some m)) true (ctl_seq ctl) hdrs) as [s2 r2] eqn:E.
    apply enable_disable_spec in E as [F _]. intros H; inv_pair H.
    split; [eapply frame_trans; [|exact F]; frame_tac | reflexivity]. }
  intros H; inv_pair H; split; [frame_tac | reflexivity].
Qed.

Lemma write_error_response_spec s from bc seq s1 o :
  write_error_response s from bc seq = (s1, o) ->
  frame s s1 /\ forallb req_obs o = true /\ forallb bg o = true.
Proof.
  unfold write_error_response. destruct bc; [intros H; inv_pair H; split; [apply frame_refl | auto]|].
  destruct seq as [q|]; [|intros H; inv_pair H; split; [apply frame_refl | auto]].
  destruct (write_solicited s from (empty_solicited q iin2_no_func)) as [[s2 r2] o2] eqn:E.
  apply write_solicited_spec in E as [F [_ [_ [_ [o' [-> S]]]]]]. intros H; inv_pair H.
  split; [exact F|]. split.
  - rewrite forallb_app, (forallb_imp _ _ _ dbq_req S). reflexivity.
  - rewrite forallb_app, (forallb_imp _ _ _ dbq_bg S). reflexivity.
Qed.

(* ---------- the C05 invariants ------------------------------------------------------------------------------- *)

(* a fragment with these bytes has been transmitted; when only the configured master is listened to,
   it went to that master *)
Definition tx_known (cfg : ocfg) (h : list oobs) (b : list N) : Prop :=
  exists dest, In (OTx dest b) h /\ (o_any_master cfg = false -> dest = o_master cfg).

(* the remembered response, rendered over the solicited buffer as it is now, is a fragment sent before *)
Definition sol_coh (cfg : ocfg) (h : list oobs) (s : ostate) : Prop :=
  forall l r, s_last s = Some l -> lr_response l = Some r ->
    tx_known cfg h (response_bytes r (s_sol_buf s)).

(* fragment b went out to dest and opened the unsolicited confirm wait that is still the last one *)
Definition opened_by (h : list oobs) (dest : N) (b : list N) (q : N) : Prop :=
  exists h1 h2, h = h1 ++ OTx dest b :: OInfo (IEnterUnsolWait q) :: h2 /\
                forallb not_enter_unsol h2 = true.

Definition unsol_coh (cfg : ocfg) (h : list oobs) (s : ostate) : Prop :=
  forall resp n rt dl, s_control s = CUnsolWait resp n rt dl ->
    opened_by h (o_master cfg) (response_bytes resp (s_unsol_buf s)) (ctl_seq (r_ctl resp)) /\
    r_fn resp = fn_unsol_response.

(* in a solicited confirm wait the remembered response is the fragment whose confirmation is awaited *)
Definition wait_coh (s : ostate) : Prop :=
  forall se dl rs, s_control s = CSolWait se dl rs ->
    exists l r, s_last s = Some l /\ lr_response l = Some r /\ ctl_seq (r_ctl r) = se_ecsn se mod 16.

Lemma tx_known_app_l cfg h o b : tx_known cfg h b -> tx_known cfg (h ++ o) b.
Proof. intros [d [H1 H2]]. exists d. split; [apply in_or_app; auto | exact H2]. Qed.

Lemma tx_known_app_r cfg h o b : tx_known cfg o b -> tx_known cfg (h ++ o) b.
Proof. intros [d [H1 H2]]. exists d. split; [apply in_or_app; auto | exact H2]. Qed.

Lemma sol_coh_frame cfg h s s1 o :
  s_last s1 = s_last s -> s_sol_buf s1 = s_sol_buf s -> sol_coh cfg h s -> sol_coh cfg (h ++ o) s1.
Proof.
  intros E1 E2 H l r Hl Hr. rewrite E2. apply tx_known_app_l. rewrite E1 in Hl. eauto.
Qed.

Lemma opened_by_app h o dest b q :
  forallb not_enter_unsol o = true -> opened_by h dest b q -> opened_by (h ++ o) dest b q.
Proof.
  intros Ho [h1 [h2 [-> H2]]]. exists h1, (h2 ++ o). split.
  - rewrite <- app_assoc. reflexivity.
  - rewrite forallb_app, H2, Ho. reflexivity.
Qed.

Lemma unsol_coh_frame cfg h s s1 o :
  s_control s1 = s_control s -> s_unsol_buf s1 = s_unsol_buf s -> forallb not_enter_unsol o = true ->
  unsol_coh cfg h s -> unsol_coh cfg (h ++ o) s1.
Proof.
  intros E1 E2 Ho H resp n rt dl Hc. rewrite E1 in Hc. destruct (H _ _ _ _ Hc) as [H1 H2].
  split; [|exact H2]. rewrite E2. apply opened_by_app; assumption.
Qed.

Lemma unsol_coh_vacuous cfg h s :
  (forall resp n rt dl, s_control s <> CUnsolWait resp n rt dl) -> unsol_coh cfg h s.
Proof. intros H resp n rt dl Hc. destruct (H _ _ _ _ Hc). Qed.

Lemma wait_coh_frame s s1 :
  s_control s1 = s_control s -> s_last s1 = s_last s -> wait_coh s -> wait_coh s1.
Proof. intros E1 E2 H se dl rs Hc. rewrite E1 in Hc. rewrite E2. eauto. Qed.

(* the source remembered with a deferred READ is a master the session listens to *)
Definition def_ok (cfg : ocfg) (s : ostate) : Prop :=
  forall d, s_deferred s = Some d -> o_any_master cfg = false -> df_from d = o_master cfg.

(* ---------- handle_one_request_from_idle ----------------------------------------------------------------------- *)

Definition confirm_series (se : option series) (r : response) : option series :=
  match se with
  | None => if ctl_con (r_ctl r) then Some {| se_ecsn := ctl_seq (r_ctl r); se_fin := true |} else None
  | x => x
  end.

Definition finish_fn (cfg : ocfg) (from seq : N) (bytes : list N) (o0 : list oobs)
           (s1 : ostate) (resp : option response) (se : option series) (repeat : bool) (o1 : list oobs)
  : ostate * list oobs :=
  match resp with
  | Some r =>
      if repeat then
        let o2 := repeat_solicited s1 from r in
        let se' := confirm_series se r in
        let s2 := upd_last s1 (mk_last seq bytes (Some r) se') in
        match se' with
        | Some x => (upd_control s2 (CSolWait x (confirm_deadline cfg s2) RStep2), o0 ++ o1 ++ o2 ++ [OInfo (IEnterSolWait (se_ecsn x))])
        | None => (s2, o0 ++ o1 ++ o2)
        end
      else
        let '(s2, r', o2) := write_solicited s1 from r in
        let se' := confirm_series se r' in
        let s3 := upd_last s2 (mk_last seq bytes (Some r') se') in
        match se' with
        | Some x => (upd_control s3 (CSolWait x (confirm_deadline cfg s3) RStep2), o0 ++ o1 ++ o2 ++ [OInfo (IEnterSolWait (se_ecsn x))])
        | None => (s3, o0 ++ o1 ++ o2)
        end
  | None => (upd_last s1 (mk_last seq bytes None se), o0 ++ o1)
  end.

(* SelectState::update_frame_id on a repeated request *)
Definition touch_select (s : ostate) (frame_id : N) : ostate :=
  match s_select s with
  | Some sel =>
      if (ss_frame_id sel + 1) mod 4294967296 =? frame_id
      then upd_select s (Some {| ss_seq := ss_seq sel; ss_frame_id := frame_id;
                                 ss_time := ss_time sel; ss_objects := ss_objects sel |})
      else s
  | None => s
  end.

Lemma touch_select_frame s fid : frame s (touch_select s fid).
Proof.
  unfold touch_select. destruct (s_select s) as [sel|]; [|apply frame_refl].
  destruct (_ =? _); [frame_tac | apply frame_refl].
Qed.

Lemma handle_from_idle_unfold cfg s from bc bytes d frame_id :
  handle_from_idle cfg s from bc bytes d frame_id =
  match to_treq cfg from d with
  | TqNone => (s, [])
  | TqError seq => write_error_response s from bc seq
  | TqRequest ctl fn obj =>
      let seq := ctl_seq ctl in
      let o0 := [OInfo (IIdleRequest fn seq)] in
      let finish := finish_fn cfg from seq bytes o0 in
      match classify s bc bytes ctl fn obj with
      | FtMalformed iin2 => finish s (Some (empty_solicited seq iin2)) None false []
      | FtNewRead _ _ | FtRepeatRead _ _ _ =>
          let '(s1, r, se, o1) := format_first_read_response s seq in finish s1 (Some r) se false o1
      | FtNewNonRead hdrs =>
          let '(s1, r, o1) := handle_non_read cfg s fn seq frame_id bytes hdrs in finish s1 r None false o1
      | FtRepeatNonRead last =>
          finish (touch_select s frame_id) last None true []
      | FtBroadcast m =>
          let '(s1, o1) := process_broadcast cfg s m frame_id ctl fn bytes obj in (s1, o0 ++ o1)
      | FtSolConfirm _ | FtUnsolConfirm _ => (s, o0)
      end
  end.
Proof. reflexivity. Qed.

Lemma to_treq_from cfg from d ctl fn obj :
  to_treq cfg from d = TqRequest ctl fn obj -> o_any_master cfg = false -> from = o_master cfg.
Proof.
  unfold to_treq. intros H Ha. rewrite Ha in H. cbn [negb andb] in H.
  destruct (from =? o_master cfg) eqn:E; [apply N.eqb_eq in E; exact E | discriminate].
Qed.

Lemma to_treq_from_err cfg from d q :
  to_treq cfg from d = TqError q -> o_any_master cfg = false -> from = o_master cfg.
Proof.
  unfold to_treq. intros H Ha. rewrite Ha in H. cbn [negb andb] in H.
  destruct (from =? o_master cfg) eqn:E; [apply N.eqb_eq in E; exact E | discriminate].
Qed.

(* what handle_from_idle leaves alone, whatever the fragment *)
Definition idle_frame (s s1 : ostate) : Prop :=
  s_deferred s1 = s_deferred s /\ s_pending s1 = s_pending s /\ s_notify s1 = s_notify s /\
  s_unsol_buf s1 = s_unsol_buf s /\
  (s_control s1 = s_control s \/ exists se dl, s_control s1 = CSolWait se dl RStep2).

Lemma frameB_idle_frame s s1 : frameB s s1 -> idle_frame s s1.
Proof. unfold frameB, idle_frame. intuition. Qed.

Lemma finish_fn_spec cfg h from seq bytes o0 s1 resp se repeat o1 s2 o :
  finish_fn cfg from seq bytes o0 s1 resp se repeat o1 = (s2, o) ->
  (o_any_master cfg = false -> from = o_master cfg) ->
  (forall x r, se = Some x -> resp = Some r -> ctl_seq (r_ctl r) = se_ecsn x mod 16) ->
  s_control s1 = CIdle ->
  forallb req_obs o0 = true -> forallb req_obs o1 = true ->
  sol_coh cfg (h ++ o) s2 /\ wait_coh s2 /\ idle_frame s1 s2 /\ forallb req_obs o = true.
Proof.
  unfold finish_fn. intros H Hfrom Hse Hc S0 S1.
  destruct resp as [r|].
  2:{ inv_pair H. split; [|split; [|split]].
      - intros l r Hl Hr. psimpl_in Hl. inversion Hl; subst l. discriminate.
      - intros x dl rs Hx. psimpl_in Hx. congruence.
      - unfold idle_frame; psimpl; auto 10.
      - fb. }
  assert (Hws : forall x r', confirm_series se r' = Some x -> ctl_seq (r_ctl r') = ctl_seq (r_ctl r) ->
                ctl_seq (r_ctl r') = se_ecsn x mod 16).
  { intros x r' Hx Hq. unfold confirm_series in Hx. destruct se as [y|].
    - inversion Hx; subst y. rewrite Hq. eauto.
    - destruct (ctl_con (r_ctl r')); inversion Hx; subst x. cbn [se_ecsn]. unfold ctl_seq. lia. }
  destruct repeat.
  - cbv zeta in H. unfold repeat_solicited in H.
    assert (Hk : forall s3 o4, s_last s3 = mk_last seq bytes (Some r) (confirm_series se r) ->
                 s_sol_buf s3 = s_sol_buf s1 ->
                 sol_coh cfg (h ++ o0 ++ o1 ++ [OTx from (response_bytes r (s_sol_buf s1))] ++ o4) s3).
    { intros s3 o4 Hl Hb l r0 Hl0 Hr0. rewrite Hl in Hl0. inversion Hl0; subst l. cbn [lr_response] in Hr0.
      inversion Hr0; subst r0. rewrite Hb. exists from. split; [|exact Hfrom].
      rewrite ?in_app_iff. cbn [In]. tauto. }
    destruct (confirm_series se r) as [x|] eqn:Ecs; inv_pair H.
    + split; [|split; [|split]].
      * apply (Hk _ [OInfo (IEnterSolWait (se_ecsn x))]); psimpl; auto.
      * intros se0 dl rs Hx. psimpl_in Hx. inversion Hx; subst. psimpl.
        eexists _, r. split; [reflexivity|]. split; [reflexivity|]. apply Hws; auto.
      * unfold idle_frame; psimpl. repeat split; eauto.
      * fb.
    + split; [|split; [|split]].
      * specialize (Hk (upd_last s1 (mk_last seq bytes (Some r) None)) []). rewrite app_nil_r in Hk.
        apply Hk; psimpl; auto.
      * intros se0 dl rs Hx. psimpl_in Hx. congruence.
      * unfold idle_frame; psimpl. repeat split; eauto.
      * fb.
  - destruct (write_solicited s1 from r) as [[s3 r'] o2] eqn:Ew.
    apply write_solicited_spec in Ew as [F [_ [_ [Hq [o' [-> S']]]]]].
    cbv zeta in H.
    assert (Hk : forall s4 o4, s_last s4 = mk_last seq bytes (Some r') (confirm_series se r') ->
                 s_sol_buf s4 = s_sol_buf s3 ->
                 sol_coh cfg (h ++ o0 ++ o1 ++ (o' ++ [OTx from (response_bytes r' (s_sol_buf s3))]) ++ o4) s4).
    { intros s4 o4 Hl Hb l r0 Hl0 Hr0. rewrite Hl in Hl0. inversion Hl0; subst l. cbn [lr_response] in Hr0.
      inversion Hr0; subst r0. rewrite Hb. exists from. split; [|exact Hfrom].
      rewrite ?in_app_iff. cbn [In]. tauto. }
    assert (Sreq : forallb req_obs o' = true) by (apply (forallb_imp _ _ _ dbq_req S')).
    destruct F as [[Fc [Fl [Fd [Fp [Fn Fu]]]]] Fb].
    destruct (confirm_series se r') as [x|] eqn:Ecs; inv_pair H.
    + split; [|split; [|split]].
      * apply Hk; psimpl; auto.
      * intros se0 dl rs Hx. psimpl_in Hx. inversion Hx; subst. psimpl.
        eexists _, r'. split; [reflexivity|]. split; [reflexivity|]. apply Hws; auto.
      * unfold idle_frame; psimpl. repeat split; eauto.
      * fb.
    + split; [|split; [|split]].
      * specialize (Hk (upd_last s3 (mk_last seq bytes (Some r') None)) []). rewrite app_nil_r in Hk.
        apply Hk; psimpl; auto.
      * intros se0 dl rs Hx. psimpl_in Hx. congruence.
      * unfold idle_frame; psimpl. repeat split; auto.
      * fb.
Qed.

Lemma wait_coh_not_wait s : (forall se dl rs, s_control s <> CSolWait se dl rs) -> wait_coh s.
Proof. intros H se dl rs Hc. destruct (H _ _ _ Hc). Qed.

Lemma idle_frame_trans_l s s1 s2 : frameB s s1 -> idle_frame s1 s2 -> idle_frame s s2.
Proof. unfold frameB, idle_frame. intros [A [B [C [D [E F]]]]] [G [I [J [K L]]]]. rewrite <- A. intuition congruence. Qed.

Lemma handle_from_idle_pres cfg h s from bc bytes d fid s1 o :
  handle_from_idle cfg s from bc bytes d fid = (s1, o) ->
  s_control s = CIdle ->
  sol_coh cfg h s ->
  sol_coh cfg (h ++ o) s1 /\ wait_coh s1 /\ idle_frame s s1 /\ forallb req_obs o = true.
Proof.
  rewrite handle_from_idle_unfold. intros H Hc Hcoh.
  assert (Hsame : forall s', frame s s' -> forall o', forallb req_obs o' = true ->
            sol_coh cfg (h ++ o') s' /\ wait_coh s' /\ idle_frame s s' /\ forallb req_obs o' = true).
  { intros s' F o' So. pose proof F as [[Fc [Fl _]] Fb]. split; [|split; [|split]].
    - apply sol_coh_frame with (s := s); auto.
    - apply wait_coh_not_wait. intros se dl rs. rewrite Fc, Hc. discriminate.
    - apply frameB_idle_frame, frame_frameB, F.
    - exact So. }
  destruct (to_treq cfg from d) as [|q|ctl fn obj] eqn:Et.
  - inv_pair H. apply Hsame; [apply frame_refl | reflexivity].
  - apply write_error_response_spec in H as [F [S _]]. apply Hsame; assumption.
  - pose proof (to_treq_from _ _ _ _ _ _ Et) as Hfrom. cbv zeta in H.
    assert (S0 : forallb req_obs [OInfo (IIdleRequest fn (ctl_seq ctl))] = true) by reflexivity.
    destruct (classify s bc bytes ctl fn obj) as [iin2|hdrs rh|resp hdrs rh|hdrs|resp|m|q|q] eqn:Ecl.
    + eapply finish_fn_spec in H; eauto. discriminate.
    + destruct (format_first_read_response s (ctl_seq ctl)) as [[[s2 r] se] o1] eqn:Ef.
      apply format_first_read_response_spec in Ef as [F [S [Q1 Q2]]].
      eapply finish_fn_spec with (h := h) in H; eauto.
      * destruct H as [A [B [C D]]]. split; [exact A|]. split; [exact B|]. split; [|exact D]. eapply idle_frame_trans_l; eauto.
      * intros x r0 Hx Hr. inversion Hr; subst r0. rewrite (Q2 _ Hx). exact Q1.
      * destruct F as [Fc _]. congruence.
      * apply (forallb_imp _ _ _ dbq_req S).
    + destruct (format_first_read_response s (ctl_seq ctl)) as [[[s2 r] se] o1] eqn:Ef.
      apply format_first_read_response_spec in Ef as [F [S [Q1 Q2]]].
      eapply finish_fn_spec with (h := h) in H; eauto.
      * destruct H as [A [B [C D]]]. split; [exact A|]. split; [exact B|]. split; [|exact D]. eapply idle_frame_trans_l; eauto.
      * intros x r0 Hx Hr. inversion Hr; subst r0. rewrite (Q2 _ Hx). exact Q1.
      * destruct F as [Fc _]. congruence.
      * apply (forallb_imp _ _ _ dbq_req S).
    + destruct (handle_non_read cfg s fn (ctl_seq ctl) fid bytes hdrs) as [[s2 r] o1] eqn:Ef.
      apply handle_non_read_spec in Ef as [F S].
      eapply finish_fn_spec with (h := h) in H; eauto.
      * destruct H as [A [B [C D]]]. split; [exact A|]. split; [exact B|]. split; [|exact D]. eapply idle_frame_trans_l; eauto.
      * discriminate.
      * destruct F as [Fc _]. congruence.
      * apply (forallb_imp _ _ _ exec_req S).
    + pose proof (touch_select_frame s fid) as F.
      eapply finish_fn_spec with (h := h) in H; eauto.
      * destruct H as [A [B [C D]]]. split; [exact A|]. split; [exact B|]. split; [|exact D]. eapply idle_frame_trans_l; eauto. apply frame_frameB, F.
      * discriminate.
      * destruct F as [[Fc _] _]. congruence.
    + destruct (process_broadcast cfg s m fid ctl fn bytes obj) as [s2 o1] eqn:Ef.
      apply process_broadcast_spec in Ef as [F S]. inv_pair H. apply Hsame; [exact F|]. fb.
    + inv_pair H. apply Hsame; [apply frame_refl | reflexivity].
    + inv_pair H. apply Hsame; [apply frame_refl | reflexivity].
Qed.

(* ---------- one fragment in the unsolicited confirm wait ----------------------------------------------------------- *)

Definition wait_frame (s s1 : ostate) : Prop :=
  s_control s1 = s_control s /\ s_pending s1 = s_pending s /\ s_notify s1 = s_notify s /\
  s_unsol_buf s1 = s_unsol_buf s.

Lemma unsol_wait_fragment_pres cfg h s resp from bc bytes d fid s1 res o :
  unsol_wait_fragment cfg s resp from bc bytes d fid = (s1, res, o) ->
  sol_coh cfg h s ->
  sol_coh cfg (h ++ o) s1 /\ wait_frame s s1 /\ forallb req_obs o = true /\
  (res <> None -> s_deferred s1 = s_deferred s \/ s_deferred s1 = None).
Proof.
  unfold unsol_wait_fragment. intros H Hcoh.
  assert (Hsame : forall s' o', s_last s' = s_last s -> s_sol_buf s' = s_sol_buf s -> wait_frame s s' ->
            forallb req_obs o' = true ->
            (res <> None -> s_deferred s' = s_deferred s \/ s_deferred s' = None) ->
            sol_coh cfg (h ++ o') s' /\ wait_frame s s' /\ forallb req_obs o' = true /\
            (res <> None -> s_deferred s' = s_deferred s \/ s_deferred s' = None)).
  { intros s' o' Fl Fb Fw So Hd. split; [|auto]. apply sol_coh_frame with (s := s); auto. }
  destruct (to_treq cfg from d) as [|q|ctl fn obj] eqn:Et.
  - inv_pair H. apply Hsame; auto; try reflexivity. unfold wait_frame; auto.
  - destruct (write_error_response (upd_deferred s None) from bc q) as [s2 o2] eqn:Ew.
    apply write_error_response_spec in Ew as [[[Fc [Fl [Fd [Fp [Fn Fu]]]]] Fb] [S _]]. inv_pair H.
    psimpl_in Fc. psimpl_in Fl. psimpl_in Fp. psimpl_in Fn. psimpl_in Fu. psimpl_in Fb.
    apply Hsame; auto. unfold wait_frame; auto.
  - pose proof (to_treq_from _ _ _ _ _ _ Et) as Hfrom.
    destruct (classify s bc bytes ctl fn obj) as [iin2|hdrs rh|resp0 hdrs rh|hdrs|resp0|m|q|q] eqn:Ecl.
    + destruct (write_solicited (upd_deferred s None) from (empty_solicited (ctl_seq ctl) iin2)) as [[s2 r2] o2] eqn:Ew.
      apply write_solicited_spec in Ew as [[[Fc [Fl [Fd [Fp [Fn Fu]]]]] Fb] [_ [_ [_ [o' [-> S]]]]]]. inv_pair H.
      psimpl_in Fc. psimpl_in Fl. psimpl_in Fp. psimpl_in Fn. psimpl_in Fu. psimpl_in Fb.
      apply Hsame; auto. { unfold wait_frame; auto. }
      rewrite forallb_app, (forallb_imp _ _ _ dbq_req S). reflexivity.
    + inv_pair H. apply Hsame; auto; try reflexivity; [|intros X; congruence]. unfold wait_frame; psimpl; auto.
    + inv_pair H. apply Hsame; auto; try reflexivity; [|intros X; congruence]. unfold wait_frame; psimpl; auto.
    + destruct (handle_non_read cfg (upd_deferred s None) fn (ctl_seq ctl) fid bytes hdrs) as [[s2 r] o1] eqn:Eh.
      apply handle_non_read_spec in Eh as [[Fc [Fl [Fd [Fp [Fn Fu]]]]] S1].
      psimpl_in Fc. psimpl_in Fl. psimpl_in Fp. psimpl_in Fn. psimpl_in Fu. psimpl_in Fd.
      apply (forallb_imp _ _ _ exec_req) in S1.
      destruct r as [r0|].
      * destruct (write_solicited s2 from r0) as [[s3 r1] o2] eqn:Ew.
        apply write_solicited_spec in Ew as [[[Gc [Gl [Gd [Gp [Gn Gu]]]]] Gb] [_ [_ [_ [o' [-> S]]]]]]. inv_pair H.
        apply (forallb_imp _ _ _ dbq_req) in S.
        split; [|split; [|split]].
        -- intros l r Hl Hr. psimpl_in Hl. inversion Hl; subst l. cbn [lr_response] in Hr. inversion Hr; subst r.
           psimpl. exists from. split; [|exact Hfrom]. rewrite ?in_app_iff. cbn [In]. tauto.
        -- unfold wait_frame; psimpl. repeat split; congruence.
        -- fb.
        -- intros _. right. psimpl. congruence.
      * inv_pair H. split; [|split; [|split]].
        -- intros l r Hl Hr. psimpl_in Hl. inversion Hl; subst l. discriminate.
        -- unfold wait_frame; psimpl. repeat split; congruence.
        -- fb.
        -- intros _. right. psimpl. congruence.
    + inv_pair H. apply Hsame; auto; try reflexivity. { unfold wait_frame; psimpl; auto. }
      destruct resp0; reflexivity.
    + destruct (process_broadcast cfg (upd_deferred s None) m fid ctl fn bytes obj) as [s2 o2] eqn:Ep.
      apply process_broadcast_spec in Ep as [[[Fc [Fl [Fd [Fp [Fn Fu]]]]] Fb] S]. inv_pair H.
      psimpl_in Fc. psimpl_in Fl. psimpl_in Fp. psimpl_in Fn. psimpl_in Fu. psimpl_in Fb.
      apply Hsame; auto. unfold wait_frame; auto.
    + destruct (s_last_bcast s) as [[]|]; inv_pair H; apply Hsame; auto; try reflexivity;
        try (intros X; congruence); try (unfold wait_frame; psimpl; auto).
    + destruct (q =? ctl_seq (r_ctl resp)); inv_pair H; apply Hsame; auto; try reflexivity;
        try (intros X; congruence); try (unfold wait_frame; psimpl; auto).
Qed.

Lemma unsol_wait_fragment_def_ok cfg s resp from bc bytes d fid s1 res o :
  unsol_wait_fragment cfg s resp from bc bytes d fid = (s1, res, o) ->
  def_ok cfg s -> def_ok cfg s1.
Proof.
  unfold unsol_wait_fragment. intros H Hd.
  assert (Hnone : forall s', s_deferred s' = None -> def_ok cfg s').
  { intros s' E x Hx. congruence. }
  assert (Hsame : forall s', s_deferred s' = s_deferred s -> def_ok cfg s').
  { intros s' E x Hx. rewrite E in Hx. auto. }
  destruct (to_treq cfg from d) as [|q|ctl fn obj] eqn:Et.
  - inv_pair H. exact Hd.
  - destruct (write_error_response (upd_deferred s None) from bc q) as [s2 o2] eqn:Ew.
    apply write_error_response_spec in Ew as [[[Fc [Fl [Fd _]]] Fb] _]. inv_pair H. apply Hnone. exact Fd.
  - pose proof (to_treq_from _ _ _ _ _ _ Et) as Hfrom.
    destruct (classify s bc bytes ctl fn obj) as [iin2|hdrs rh|resp0 hdrs rh|hdrs|resp0|m|q|q] eqn:Ecl.
    + destruct (write_solicited (upd_deferred s None) from (empty_solicited (ctl_seq ctl) iin2)) as [[s2 r2] o2] eqn:Ew.
      apply write_solicited_spec in Ew as [[[Fc [Fl [Fd _]]] Fb] _]. inv_pair H. apply Hnone. exact Fd.
    + inv_pair H. intros x Hx. psimpl_in Hx. inversion Hx; subst x. exact Hfrom.
    + inv_pair H. intros x Hx. psimpl_in Hx. inversion Hx; subst x. exact Hfrom.
    + destruct (handle_non_read cfg (upd_deferred s None) fn (ctl_seq ctl) fid bytes hdrs) as [[s2 r] o1] eqn:Eh.
      apply handle_non_read_spec in Eh as [[Fc [Fl [Fd _]]] S1]. psimpl_in Fd.
      destruct r as [r0|].
      * destruct (write_solicited s2 from r0) as [[s3 r1] o2] eqn:Ew.
        apply write_solicited_spec in Ew as [[[Gc [Gl [Gd _]]] Gb] _]. inv_pair H.
        apply Hnone. psimpl. congruence.
      * inv_pair H. apply Hnone. psimpl. congruence.
    + inv_pair H. apply Hnone. reflexivity.
    + destruct (process_broadcast cfg (upd_deferred s None) m fid ctl fn bytes obj) as [s2 o2] eqn:Ep.
      apply process_broadcast_spec in Ep as [[[Fc [Fl [Fd _]]] Fb] S]. inv_pair H. apply Hnone. exact Fd.
    + destruct (s_last_bcast s) as [[]|]; inv_pair H; apply Hsame; reflexivity.
    + destruct (q =? ctl_seq (r_ctl resp)); inv_pair H; apply Hsame; reflexivity.
Qed.

(* ---------- unsolicited: starting and ending a series ------------------------------------------------------------------ *)

Lemma start_unsol_spec cfg h s r is_null s1 o :
  start_unsol cfg s r is_null = (s1, o) ->
  frame (upd_control s (s_control s1)) s1 /\ forallb ustart o = true /\
  exists r1 rt dl, s_control s1 = CUnsolWait r1 is_null rt dl /\ r_fn r1 = r_fn r /\
    opened_by (h ++ o) (o_master cfg) (response_bytes r1 (s_unsol_buf s1)) (ctl_seq (r_ctl r1)).
Proof.
  unfold start_unsol. destruct (write_unsolicited cfg s r) as [[s0 r1] o0] eqn:Ew.
  apply write_unsolicited_spec in Ew as [F [_ [Hfn [_ [o' [-> S]]]]]]. intros H; inv_pair H.
  split; [frame_tac|]. split.
  - rewrite !forallb_app, (forallb_imp _ _ _ dbq_ustart S). reflexivity.
  - eexists r1, _, _. psimpl. split; [reflexivity|]. split; [exact Hfn|].
    exists (h ++ o'), []. split; [|reflexivity]. rewrite <- !app_assoc. reflexivity.
Qed.

Lemma check_unsolicited_spec cfg h s s1 ns o :
  check_unsolicited cfg s = (s1, ns, o) ->
  s_control s = CIdle ->
  s_last s1 = s_last s /\ s_sol_buf s1 = s_sol_buf s /\ s_deferred s1 = s_deferred s /\
  s_pending s1 = s_pending s /\ s_notify s1 = s_notify s /\
  forallb ustart o = true /\ unsol_coh cfg (h ++ o) s1 /\
  (s_control s1 = CIdle \/ exists r1 n rt dl, s_control s1 = CUnsolWait r1 n rt dl).
Proof.
  unfold check_unsolicited. intros H Hc.
  assert (Hsame : forall s', frame s s' ->
     s_last s' = s_last s /\ s_sol_buf s' = s_sol_buf s /\ s_deferred s' = s_deferred s /\
     s_pending s' = s_pending s /\ s_notify s' = s_notify s /\
     forallb ustart [] = true /\ unsol_coh cfg (h ++ []) s' /\
     (s_control s' = CIdle \/ exists r1 n rt dl, s_control s' = CUnsolWait r1 n rt dl)).
  { intros s' [[Fc [Fl [Fd [Fp [Fn Fu]]]]] Fb]. splits; auto.
    - apply unsol_coh_vacuous. intros resp n rt dl X. rewrite Fc, Hc in X. discriminate.
    - left. congruence. }
  assert (Hstart : forall s0 r is_null pre s1' o', start_unsol cfg s0 r is_null = (s1', o') ->
     frame s (upd_unsol_buf s0 (s_unsol_buf s)) -> r_fn r = fn_unsol_response -> forallb ustart pre = true ->
     s_last s1' = s_last s /\ s_sol_buf s1' = s_sol_buf s /\ s_deferred s1' = s_deferred s /\
     s_pending s1' = s_pending s /\ s_notify s1' = s_notify s /\
     forallb ustart (pre ++ o') = true /\ unsol_coh cfg (h ++ pre ++ o') s1' /\
     (s_control s1' = CIdle \/ exists r1 n rt dl, s_control s1' = CUnsolWait r1 n rt dl)).
  { intros s0 r is_null pre s1' o' Hs F Hfn Sp.
    apply start_unsol_spec with (h := h ++ pre) in Hs as [[[Gc [Gl [Gd [Gp [Gn Gu]]]]] Gb] [S [r1 [rt [dl [Hc1 [Hfn1 Hop]]]]]]].
    destruct F as [[Fc [Fl [Fd [Fp [Fn Fu]]]]] Fb].
    psimpl_in Gl. psimpl_in Gd. psimpl_in Gp. psimpl_in Gn. psimpl_in Gb.
    psimpl_in Fl. psimpl_in Fd. psimpl_in Fp. psimpl_in Fn. psimpl_in Fb.
    splits; try congruence.
    - rewrite forallb_app, Sp, S. reflexivity.
    - intros resp n rt' dl' Hc'. rewrite Hc1 in Hc'. inversion Hc'; subst. split; [|congruence].
      rewrite app_assoc. exact Hop.
    - right. eauto. }
  destruct (negb (o_unsol cfg)); [inv_pair H; apply Hsame, frame_refl|].
  destruct (s_unsol s) as [|deadline].
  - destruct (start_unsol cfg (upd_unsol_seq s (seq16_next (s_unsol_seq s))) (unsol_header (s_unsol_seq s) 0) true)
      as [s2 o2] eqn:Es. inv_pair H.
    apply (Hstart _ _ _ []) in Es; auto. frame_tac.
  - destruct (negb match deadline with Some t => (t <=? s_now s)%Z | None => true end);
      [inv_pair H; apply Hsame, frame_refl|].
    destruct (negb (any_enabled s)); [inv_pair H; apply Hsame, frame_refl|].
    destruct (ask_unsol s) as [s0 [count body]] eqn:Ea. apply ask_unsol_spec in Ea.
    destruct (s_enabled s) as [[c1 c2] c3].
    destruct (count =? 0); [inv_pair H; apply Hsame; exact Ea|].
    match type of H with context [start_unsol cfg ?a ?b ?c] => destruct (start_unsol cfg a b c) as [s3 o3] eqn:Es end.
    inv_pair H.
    apply (Hstart _ _ _ [ODb (DbWriteUnsol c1 c2 c3)]) in Es; auto.
    destruct Ea as [[Fc [Fl [Fd [Fp [Fn Fu]]]]] Fb]. frame_tac.
Qed.

Lemma end_unsol_spec cfg s is_null res s1 ns o :
  end_unsol cfg s is_null res = (s1, ns, o) ->
  frame (upd_control s CIdle) s1 /\ forallb dbq o = true.
Proof.
  unfold end_unsol. destruct is_null, res; intros H; inv_pair H; (split; [frame_tac | reflexivity]).
Qed.

(* ---------- handle_deferred_read -------------------------------------------------------------------------------------- *)

Lemma handle_deferred_none cfg s ns : s_deferred s = None -> handle_deferred cfg s ns = (s, []).
Proof. unfold handle_deferred. intros ->. reflexivity. Qed.

Lemma handle_deferred_pres cfg h s ns s1 o :
  handle_deferred cfg s ns = (s1, o) ->
  s_control s = CIdle -> def_ok cfg s ->
  sol_coh cfg h s ->
  sol_coh cfg (h ++ o) s1 /\ wait_coh s1 /\
  s_deferred s1 = None /\ s_pending s1 = s_pending s /\ s_unsol_buf s1 = s_unsol_buf s /\
  (s_control s1 = CIdle \/ exists se dl, s_control s1 = CSolWait se dl (RStep4 ns)) /\
  forallb rd_obs o = true.
Proof.
  unfold handle_deferred. intros H Hc Hdef Hcoh.
  destruct (s_deferred s) as [d|] eqn:Ed.
  2:{ inv_pair H. splits; auto.
      - apply sol_coh_frame with (s := s1); auto.
      - apply wait_coh_not_wait. intros se dl rs. rewrite Hc. discriminate. }
  destruct (ask_iin2 (upd_notify (upd_deferred s None) true) DbDeferredSelect) as [[s2 iin2] o1] eqn:E1.
  destruct (format_read_response s2 true (df_seq d) (N.lor (df_iin2 d) iin2)) as [[[s3 r] se] o2] eqn:E2.
  destruct (write_solicited s3 (df_from d) r) as [[s4 r'] o3] eqn:E3.
  apply ask_iin2_spec in E1 as [[[Ac [Al [Ad [Ap [An Au]]]]] Ab] S1].
  apply format_read_response_spec in E2 as [[Bc [Bl [Bd [Bp [Bn Bu]]]]] [S2 [Q1 Q2]]].
  apply write_solicited_spec in E3 as [[[Cc [Cl [Cd [Cp [Cn Cu]]]]] Cb] [_ [_ [Hq [o' [-> S3]]]]]].
  psimpl_in Ac. psimpl_in Al. psimpl_in Ad. psimpl_in Ap. psimpl_in Au.
  cbv zeta in H.
  assert (Hk : forall s5 o4, s_last s5 = mk_last (df_seq d) (df_bytes d) (Some r') se ->
               s_sol_buf s5 = s_sol_buf s4 ->
               sol_coh cfg (h ++ o1 ++ o2 ++ (o' ++ [OTx (df_from d) (response_bytes r' (s_sol_buf s4))]) ++ o4) s5).
  { intros s5 o4 Hl Hb l r0 Hl0 Hr0. rewrite Hl in Hl0. inversion Hl0; subst l. cbn [lr_response] in Hr0.
    inversion Hr0; subst r0. rewrite Hb. exists (df_from d). split; [|apply Hdef; exact Ed].
    rewrite ?in_app_iff. cbn [In]. tauto. }
  assert (Hws : forall x, match se with
                          | None => if ctl_con (r_ctl r') then Some {| se_ecsn := ctl_seq (r_ctl r'); se_fin := true |} else None
                          | x => x end = Some x -> ctl_seq (r_ctl r') = se_ecsn x mod 16).
  { intros x Hx. destruct se as [y|].
    - inversion Hx; subst y. rewrite Hq, (Q2 _ eq_refl). exact Q1.
    - destruct (ctl_con (r_ctl r')); inversion Hx; subst x. cbn [se_ecsn]. unfold ctl_seq. lia. }
  assert (Sbg : forallb rd_obs (o1 ++ o2 ++ o' ++ [OTx (df_from d) (response_bytes r' (s_sol_buf s4))]) = true).
  { rewrite !forallb_app, (forallb_imp _ _ _ dbq_rd S1), (forallb_imp _ _ _ dbq_rd S2), (forallb_imp _ _ _ dbq_rd S3). reflexivity. }
  match type of H with (match ?c with _ => _ end) = _ => destruct c as [x|] eqn:Ese end; inv_pair H.
  - splits.
    + apply Hk; psimpl; auto.
    + intros se0 dl rs Hx. psimpl_in Hx. inversion Hx; subst. psimpl.
      eexists _, r'. split; [reflexivity|]. split; [reflexivity|]. apply Hws. reflexivity.
    + psimpl. congruence.
    + psimpl. congruence.
    + psimpl. congruence.
    + right. psimpl. eauto.
    + rewrite !app_assoc, forallb_app. rewrite <- !app_assoc, Sbg. reflexivity.
  - splits.
    + specialize (Hk (upd_last s4 (mk_last (df_seq d) (df_bytes d) (Some r') se)) []). rewrite app_nil_r in Hk.
      apply Hk; psimpl; auto.
    + apply wait_coh_not_wait. intros se0 dl rs. psimpl. rewrite Cc, Bc, Ac, Hc. discriminate.
    + psimpl. congruence.
    + psimpl. congruence.
    + psimpl. congruence.
    + left. psimpl. congruence.
    + exact Sbg.
Qed.

(* what handle_deferred does to the wake-up permit: set when there was a deferred READ *)
Lemma handle_deferred_notify cfg s ns s1 o :
  handle_deferred cfg s ns = (s1, o) ->
  match s_deferred s with None => s_notify s1 = s_notify s | Some _ => s_notify s1 = true end.
Proof.
  unfold handle_deferred. intros H.
  destruct (s_deferred s) as [d|] eqn:Ed; [|inv_pair H; reflexivity].
  destruct (ask_iin2 (upd_notify (upd_deferred s None) true) DbDeferredSelect) as [[s2 iin2] o1] eqn:E1.
  destruct (format_read_response s2 true (df_seq d) (N.lor (df_iin2 d) iin2)) as [[[s3 r] se] o2] eqn:E2.
  destruct (write_solicited s3 (df_from d) r) as [[s4 r'] o3] eqn:E3.
  apply ask_iin2_spec in E1 as [[[Ac [Al [Ad [Ap [An Au]]]]] Ab] S1].
  apply format_read_response_spec in E2 as [[Bc [Bl [Bd [Bp [Bn Bu]]]]] [S2 [Q1 Q2]]].
  apply write_solicited_spec in E3 as [[[Cc [Cl [Cd [Cp [Cn Cu]]]]] Cb] _].
  psimpl_in An. cbv zeta in H.
  match type of H with (match ?c with _ => _ end) = _ => destruct c as [x|] end; inv_pair H; psimpl; congruence.
Qed.
