(* Outstation/SessionLemmas_c05.v — helper lemmas for property C05 over the session model:
   which state fields each function of Session.v touches ("frame" lemmas), what kinds of
   observations it can emit ("shape" lemmas), and that the idle loop never runs out of fuel. *)
From Dnp3V Require Import Outstation.Session.
Open Scope N_scope.

(* ---------- simplification of projections over the upd_* functions ------------------------------ *)

Ltac psimpl :=
  cbn [s_now s_control s_restart_iin s_enabled s_last s_select s_unsol s_unsol_seq s_deferred
       s_last_recorded s_last_bcast s_sol_buf s_unsol_buf s_pending s_frame_id s_notify
       s_sel_status s_op_status s_app_iin s_answers s_bcast_rep upd_bcast_rep
       upd_control upd_now upd_restart upd_enabled upd_last upd_select upd_unsol upd_unsol_seq
       upd_deferred upd_last_recorded upd_last_bcast upd_sol_buf upd_unsol_buf upd_pending
       upd_frame_id upd_notify upd_knobs upd_answers session_reset deferred_set fst snd].

Ltac psimpl_in H :=
  cbn [s_now s_control s_restart_iin s_enabled s_last s_select s_unsol s_unsol_seq s_deferred
       s_last_recorded s_last_bcast s_sol_buf s_unsol_buf s_pending s_frame_id s_notify
       s_sel_status s_op_status s_app_iin s_answers s_bcast_rep upd_bcast_rep
       upd_control upd_now upd_restart upd_enabled upd_last upd_select upd_unsol upd_unsol_seq
       upd_deferred upd_last_recorded upd_last_bcast upd_sol_buf upd_unsol_buf upd_pending
       upd_frame_id upd_notify upd_knobs upd_answers session_reset deferred_set fst snd] in H.

Ltac inv_pair H := injection H as ?; subst.

(* split syntactic conjunctions only (never unfolds a definition) *)
Ltac splits := repeat match goal with |- _ /\ _ => split end.

(* ---------- predicates on observations -------------------------------------------------------------- *)

(* a database call (or its missing answer) *)
Definition dbq (ob : oobs) : bool :=
  match ob with ODb _ | OMissingAnswer => true | _ => false end.

(* what executing a request may emit: handler / application callbacks and the RESTART clearing *)
Definition exec_obs (ob : oobs) : bool :=
  match ob with OCb _ | OInfo IClearRestart => true | _ => false end.

(* everything the processing of one received fragment (from idle, or in the unsolicited wait) may emit *)
Definition req_obs (ob : oobs) : bool :=
  match ob with
  | OCb _ | ODb _ | OTx _ _ | OMissingAnswer => true
  | OInfo IClearRestart | OInfo (IBroadcast _ _ _) | OInfo (IIdleRequest _ _)
  | OInfo (IEnterSolWait _) | OInfo (IUnsolConfirmed _) => true
  | _ => false
  end.

(* "the idle loop going on": nothing is executed, no request is taken up from idle *)
Definition bg (ob : oobs) : bool :=
  match ob with
  | OCb _ | OInfo IClearRestart | OInfo (IIdleRequest _ _) => false
  | _ => true
  end.

(* what the promise of C05 is about: no callback, no clearing of the RESTART bit *)
Definition quiet (ob : oobs) : bool :=
  match ob with OCb _ | OInfo IClearRestart => false | _ => true end.

(* what check_unsolicited emits when it starts an unsolicited response *)
Definition ustart (ob : oobs) : bool :=
  match ob with
  | ODb _ | OMissingAnswer | OTx _ _ | OInfo (IEnterUnsolWait _) => true
  | _ => false
  end.

(* what answering a (deferred) READ emits *)
Definition rd_obs (ob : oobs) : bool :=
  match ob with ODb _ | OMissingAnswer | OTx _ _ | OInfo (IEnterSolWait _) => true | _ => false end.

Definition no_oof (ob : oobs) : bool := match ob with OOutOfFuel => false | _ => true end.

Definition not_enter_unsol (ob : oobs) : bool :=
  match ob with OInfo (IEnterUnsolWait _) => false | _ => true end.

Lemma forallb_imp {A} (p q : A -> bool) l :
  (forall x, p x = true -> q x = true) -> forallb p l = true -> forallb q l = true.
Proof.
  intros Hpq. induction l as [|x l IH]; cbn [forallb]; auto.
  intros H. apply andb_true_iff in H as [H1 H2]. rewrite (Hpq _ H1), (IH H2). reflexivity.
Qed.

Lemma dbq_req ob : dbq ob = true -> req_obs ob = true.
Proof. destruct ob; cbn; auto; discriminate. Qed.
Lemma dbq_bg ob : dbq ob = true -> bg ob = true.
Proof. destruct ob; cbn; auto; discriminate. Qed.
Lemma exec_req ob : exec_obs ob = true -> req_obs ob = true.
Proof. destruct ob as [| | |i| | | |]; cbn; auto; try discriminate. destruct i; auto. Qed.
Lemma req_neu ob : req_obs ob = true -> not_enter_unsol ob = true.
Proof. destruct ob as [| | |i| | | |]; cbn; auto. destruct i; auto. Qed.
Lemma bg_quiet ob : bg ob = true -> quiet ob = true.
Proof. destruct ob as [| | |i| | | |]; cbn; auto. destruct i; auto. Qed.
Lemma dbq_ustart ob : dbq ob = true -> ustart ob = true.
Proof. destruct ob; cbn; auto; discriminate. Qed.
Lemma dbq_neu ob : dbq ob = true -> not_enter_unsol ob = true.
Proof. destruct ob; cbn; auto; discriminate. Qed.
Lemma dbq_rd ob : dbq ob = true -> rd_obs ob = true.
Proof. destruct ob; cbn; auto; discriminate. Qed.
Lemma rd_bg ob : rd_obs ob = true -> bg ob = true.
Proof. destruct ob as [| | |i| | | |]; cbn; auto; try discriminate. destruct i; auto. Qed.
Lemma rd_neu ob : rd_obs ob = true -> not_enter_unsol ob = true.
Proof. destruct ob as [| | |i| | | |]; cbn; auto. destruct i; auto. Qed.
Lemma rd_no_oof ob : rd_obs ob = true -> no_oof ob = true.
Proof. destruct ob; cbn; auto. Qed.
Lemma req_no_oof ob : req_obs ob = true -> no_oof ob = true.
Proof. destruct ob; cbn; auto. Qed.
Lemma ustart_no_oof ob : ustart ob = true -> no_oof ob = true.
Proof. destruct ob; cbn; auto. Qed.
Lemma dbq_no_oof ob : dbq ob = true -> no_oof ob = true.
Proof. destruct ob; cbn; auto. Qed.
Lemma ustart_bg ob : ustart ob = true -> bg ob = true.
Proof. destruct ob as [| | |i| | | |]; cbn; auto; try discriminate. destruct i; auto. Qed.

(* solve  forallb p (o1 ++ o2 ++ [x] ...) = true  from hypotheses about the pieces *)
Ltac fb :=
  repeat rewrite forallb_app; cbn [forallb app];
  repeat match goal with
         | H : forallb ?p ?o = true |- context [forallb ?p ?o] => rewrite H
         end;
  cbn [andb]; try reflexivity; auto.

(* ---------- frames ------------------------------------------------------------------------------------- *)

(* the fields the C05 invariants speak about, except the solicited buffer *)
Definition frameB (s s1 : ostate) : Prop :=
  s_control s1 = s_control s /\ s_last s1 = s_last s /\ s_deferred s1 = s_deferred s /\
  s_pending s1 = s_pending s /\ s_notify s1 = s_notify s /\ s_unsol_buf s1 = s_unsol_buf s.

Definition frame (s s1 : ostate) : Prop := frameB s s1 /\ s_sol_buf s1 = s_sol_buf s.

Lemma frameB_refl s : frameB s s.
Proof. unfold frameB; auto 10. Qed.
Lemma frame_refl s : frame s s.
Proof. split; [apply frameB_refl | reflexivity]. Qed.
Lemma frameB_trans a b c : frameB a b -> frameB b c -> frameB a c.
Proof. unfold frameB; intuition congruence. Qed.
Lemma frame_trans a b c : frame a b -> frame b c -> frame a c.
Proof. unfold frame, frameB; intuition congruence. Qed.
Lemma frame_frameB a b : frame a b -> frameB a b.
Proof. intros [H _]; exact H. Qed.

Ltac frame_tac := unfold frame, frameB in *; psimpl; intuition congruence.

(* ---------- asking the environment ------------------------------------------------------------------------ *)

Lemma ask_evinfo_spec s s1 x o :
  ask_evinfo s = (s1, x, o) -> frame s s1 /\ forallb dbq o = true.
Proof.
  unfold ask_evinfo. destruct (s_answers s) as [|[] rest]; intros H; inv_pair H;
    (split; [frame_tac | reflexivity]).
Qed.

Lemma ask_iin2_spec s c s1 v o :
  ask_iin2 s c = (s1, v, o) -> frame s s1 /\ forallb dbq o = true.
Proof.
  unfold ask_iin2. destruct (s_answers s) as [|[] rest]; intros H; inv_pair H;
    (split; [frame_tac | reflexivity]).
Qed.

Lemma ask_write_spec s s1 x o :
  ask_write s = (s1, x, o) -> frame s s1 /\ forallb dbq o = true.
Proof.
  unfold ask_write. destruct (s_answers s) as [|[] rest]; intros H; inv_pair H;
    (split; [frame_tac | reflexivity]).
Qed.

Lemma ask_unsol_spec s s1 x :
  ask_unsol s = (s1, x) -> frame s s1.
Proof.
  unfold ask_unsol. destruct (s_answers s) as [|[] rest]; intros H; inv_pair H; frame_tac.
Qed.

Lemma response_iin_spec s s1 iin o :
  response_iin s = (s1, iin, o) -> frame s s1 /\ forallb dbq o = true.
Proof.
  unfold response_iin. destruct (ask_evinfo s) as [[s0 [[[c1 c2] c3] ovf]] o0] eqn:E.
  apply ask_evinfo_spec in E as [F S]. intros H. inv_pair H. split; [|exact S].
  destruct (s_last_bcast s0) as [[]|]; frame_tac.
Qed.

(* ---------- transmitting ------------------------------------------------------------------------------------ *)

Lemma set_con_seq c : ctl_seq (set_con c) = ctl_seq c.
Proof. unfold set_con, ctl_seq. destruct (ctl_con c); lia. Qed.

(* fix F25: recording / clearing which response reported a broadcast touches none of the framed fields *)
Lemma bcast_reported_frame s c : frame s (bcast_reported s c).
Proof. unfold bcast_reported. destruct (s_last_bcast s) as [[]|]; frame_tac. Qed.
Lemma bcast_confirmed_frame s u q : frame s (bcast_confirmed s u q).
Proof. unfold bcast_confirmed. destruct (rep_eqb _ _ _); frame_tac. Qed.
Lemma bcast_reported_sol_buf s c : s_sol_buf (bcast_reported s c) = s_sol_buf s.
Proof. unfold bcast_reported. destruct (s_last_bcast s) as [[]|]; reflexivity. Qed.
Lemma bcast_reported_unsol_buf s c : s_unsol_buf (bcast_reported s c) = s_unsol_buf s.
Proof. unfold bcast_reported. destruct (s_last_bcast s) as [[]|]; reflexivity. Qed.

Lemma write_solicited_spec s dest r s1 r' o :
  write_solicited s dest r = (s1, r', o) ->
  frame s s1 /\ r_size r' = r_size r /\ r_fn r' = r_fn r /\ ctl_seq (r_ctl r') = ctl_seq (r_ctl r) /\
  exists o', o = o' ++ [OTx dest (response_bytes r' (s_sol_buf s1))] /\ forallb dbq o' = true.
Proof.
  unfold write_solicited. destruct (response_iin s) as [[s0 iin] o0] eqn:E.
  apply response_iin_spec in E as [F S]. intros H. inv_pair H.
  split; [eapply frame_trans; [exact F|apply bcast_reported_frame]|].
  repeat split.
  - destruct (s_last_bcast s0) as [[]|]; reflexivity.
  - destruct (s_last_bcast s0) as [[]|]; reflexivity.
  - destruct (s_last_bcast s0) as [[]|]; cbn [with_ctl or_iin r_ctl]; auto using set_con_seq.
  - exists o0. rewrite bcast_reported_sol_buf. split; [reflexivity | exact S].
Qed.

Lemma write_unsolicited_spec cfg s r s1 r' o :
  write_unsolicited cfg s r = (s1, r', o) ->
  frame s s1 /\ r_size r' = r_size r /\ r_fn r' = r_fn r /\ r_ctl r' = r_ctl r /\
  exists o', o = o' ++ [OTx (o_master cfg) (response_bytes r' (s_unsol_buf s1))] /\ forallb dbq o' = true.
Proof.
  unfold write_unsolicited. destruct (response_iin s) as [[s0 iin] o0] eqn:E.
  apply response_iin_spec in E as [F S]. intros H. inv_pair H.
  split; [eapply frame_trans; [exact F|apply bcast_reported_frame]|]. repeat split.
  exists o0. rewrite bcast_reported_unsol_buf. split; [reflexivity | exact S].
Qed.

(* ---------- the non-READ functions ---------------------------------------------------------------------- *)

Lemma write_iin_bits_spec bits : forall s s1 v o,
  write_iin_bits s bits = (s1, v, o) -> frame s s1 /\ forallb exec_obs o = true.
Proof.
  induction bits as [|[idx value] rest IH]; intros s s1 v o H; cbn [write_iin_bits] in H.
  - inv_pair H. split; [apply frame_refl | reflexivity].
  - destruct (idx =? 7); [destruct value|].
    + destruct (write_iin_bits s rest) as [[s2 v2] o2] eqn:E. inv_pair H. eapply IH; eauto.
    + destruct (write_iin_bits (upd_restart s false) rest) as [[s2 v2] o2] eqn:E. inv_pair H.
      apply IH in E as [F S]. split; [|cbn [forallb exec_obs]; exact S].
      eapply frame_trans; [|exact F]. frame_tac.
    + destruct (write_iin_bits s rest) as [[s2 v2] o2] eqn:E. inv_pair H. eapply IH; eauto.
Qed.

Lemma write_header_spec cfg s h s1 v o :
  write_header cfg s h = (s1, v, o) -> frame s s1 /\ forallb exec_obs o = true.
Proof.
  destruct h as [bits|t|t|c| |a b|x| | |g v0 p items|]; cbn [write_header]; intros H;
    try (inv_pair H; split; [apply frame_refl | reflexivity]).
  - eapply write_iin_bits_spec; eauto.
  - destruct t; inv_pair H; (split; [apply frame_refl | reflexivity]).
  - destruct t as [t|]; [|inv_pair H; split; [apply frame_refl | reflexivity]].
    destruct (s_last_recorded s) as [t0|]; [|inv_pair H; split; [apply frame_refl | reflexivity]].
    destruct (max_timestamp - t <? Z.to_N (s_now s - t0)); inv_pair H;
      (split; [frame_tac | reflexivity]).
Qed.

Lemma handle_write_headers_spec cfg hdrs : forall s s1 v o,
  handle_write_headers cfg s hdrs = (s1, v, o) -> frame s s1 /\ forallb exec_obs o = true.
Proof.
  induction hdrs as [|h rest IH]; intros s s1 v o H; cbn [handle_write_headers] in H.
  - inv_pair H. split; [apply frame_refl | reflexivity].
  - destruct (write_header cfg s h) as [[s2 v2] o2] eqn:E1.
    destruct (handle_write_headers cfg s2 rest) as [[s3 v3] o3] eqn:E2. inv_pair H.
    apply write_header_spec in E1 as [F1 S1]. apply IH in E2 as [F2 S2].
    split; [eapply frame_trans; eauto | fb].
Qed.

Lemma freeze_header_spec cfg ft t i h v o :
  freeze_header cfg ft t i h = (v, o) -> forallb exec_obs o = true.
Proof. destruct h; cbn [freeze_header]; intros H; inv_pair H; reflexivity. Qed.

Lemma handle_freeze_spec cfg ft hdrs : forall v o,
  handle_freeze cfg ft hdrs = (v, o) -> forallb exec_obs o = true.
Proof.
  induction hdrs as [|h rest IH]; intros v o H; cbn [handle_freeze] in H.
  - inv_pair H. reflexivity.
  - destruct (freeze_header cfg ft 0 0 h) as [v1 o1] eqn:E1.
    destruct (handle_freeze cfg ft rest) as [v2 o2] eqn:E2. inv_pair H.
    apply freeze_header_spec in E1. specialize (IH _ _ eq_refl). fb.
Qed.

Lemma handle_freeze_at_time_spec cfg hdrs : forall timing v o,
  handle_freeze_at_time cfg timing hdrs = (v, o) -> forallb exec_obs o = true.
Proof.
  induction hdrs as [|h rest IH]; intros timing v o H; cbn [handle_freeze_at_time] in H.
  - inv_pair H. reflexivity.
  - assert (G : forall v o, (match timing with
      | None => let '(v, o) := handle_freeze_at_time cfg timing rest in (N.lor iin2_param v, o)
      | Some (t, i) =>
          let '(v1, o1) := freeze_header cfg 2 t i h in
          let '(v2, o2) := handle_freeze_at_time cfg timing rest in
          (N.lor v1 v2, o1 ++ o2)
      end) = (v, o) -> forallb exec_obs o = true).
    { intros v' o' G. destruct timing as [[t i]|].
      - destruct (freeze_header cfg 2 t i h) as [v1 o1] eqn:E1.
        destruct (handle_freeze_at_time cfg (Some (t, i)) rest) as [v2 o2] eqn:E2. inv_pair G.
        apply freeze_header_spec in E1. apply IH in E2. fb.
      - destruct (handle_freeze_at_time cfg None rest) as [v2 o2] eqn:E2. inv_pair G.
        eapply IH; eauto. }
    destruct h as [bits|t|t|c| |a b|x| | |g v0 p items|]; try (eapply G; exact H).
    destruct x as [x|].
    + eapply IH; eauto.
    + destruct (handle_freeze_at_time cfg timing rest) as [v2 o2] eqn:E2. inv_pair H.
      eapply IH; eauto.
Qed.

Lemma enable_disable_spec cfg s en seq hdrs s1 r :
  enable_disable cfg s en seq hdrs = (s1, r) -> frame s s1 /\ r_size r = 0%nat.
Proof.
  unfold enable_disable. destruct (negb (o_unsol cfg)).
  - intros H; inv_pair H. split; [apply frame_refl | reflexivity].
  - match goal with |- context [fold_left ?f ?l ?a] => destruct (fold_left f l a) as [e v] end.
    intros H; inv_pair H. split; [frame_tac | reflexivity].
Qed.

Lemma restart_response_spec seq s d s1 r :
  restart_response seq s d = (s1, r) -> frameB s s1.
Proof.
  unfold restart_response. destruct d as [[ms v]|]; intros H; inv_pair H; frame_tac.
Qed.

(* control handling emits only handler callbacks *)
Lemma ctl_one_header_shape s cfg cap mode g v prefix items : forall written n hs num started w ok cbs st num' started',
  ctl_one_header s cfg cap mode g v prefix written n hs num started items = (w, ok, cbs, st, num', started') ->
  forallb exec_obs cbs = true.
Proof.
  induction items as [|[idx obj] rest IH]; intros written n hs num started w ok cbs st num' started' H;
    cbn [ctl_one_header] in H.
  - inv_pair H. reflexivity.
  - destruct (item_status s cfg mode num) as [st0 consulted] eqn:Ei.
    destruct (echo_items cap g v prefix written n hs [(idx, replace_status obj st0)]) as [w1 ok1] eqn:Ee.
    assert (Hcb : forall x, forallb exec_obs (if consulted then (if started then [] else [OCb CbBeginFragment]) ++ [OCb x] else []) = true).
    { intros x. destruct consulted, started; reflexivity. }
    destruct ok1.
    + destruct (ctl_one_header s cfg cap mode g v prefix w1 (n + 1) hs (num + 1) (started || consulted) rest)
        as [[[[[w2 ok2] cbs2] st2] num2] started2] eqn:E2.
      inv_pair H. apply IH in E2. rewrite forallb_app, Hcb, E2. reflexivity.
    + inv_pair H. apply Hcb.
Qed.

Lemma ctl_headers_shape s cfg cap mode hdrs : forall written num started w ok cbs st started',
  ctl_headers s cfg cap mode written num started hdrs = (w, ok, cbs, st, started') ->
  forallb exec_obs cbs = true.
Proof.
  induction hdrs as [|h rest IH]; intros written num started w ok cbs st started' H; cbn [ctl_headers] in H.
  - inv_pair H. reflexivity.
  - destruct h as [bits|t|t|c| |a b|x| | |g v0 p items|]; try (eapply IH; exact H).
    destruct (ctl_one_header s cfg cap mode g v0 p written 0 (length written) num started items)
      as [[[[[w1 ok1] cbs1] st1] num1] started1] eqn:E1.
    apply ctl_one_header_shape in E1.
    destruct ok1.
    + destruct (ctl_headers s cfg cap mode w1 num1 started1 rest) as [[[[w2 ok2] cbs2] st2] started2] eqn:E2.
      inv_pair H. apply IH in E2. fb.
    + inv_pair H. exact E1.
Qed.

Lemma noack_items_shape s cfg g v items : forall num started cbs num' started',
  noack_items s cfg g v num started items = (cbs, num', started') -> forallb exec_obs cbs = true.
Proof.
  induction items as [|[idx obj] rest IH]; intros num started cbs num' started' H; cbn [noack_items] in H.
  - inv_pair H. reflexivity.
  - match type of H with context [noack_items s cfg g v ?a ?b rest] =>
      destruct (noack_items s cfg g v a b rest) as [[cbs2 num2] started2] eqn:E2 end.
    inv_pair H. apply IH in E2. rewrite forallb_app, E2.
    destruct (match o_max_controls cfg with Some m => num <? m | None => true end), started; reflexivity.
Qed.

Lemma noack_headers_shape s cfg hdrs : forall num started cbs started',
  noack_headers s cfg num started hdrs = (cbs, started') -> forallb exec_obs cbs = true.
Proof.
  induction hdrs as [|h rest IH]; intros num started cbs started' H; cbn [noack_headers] in H.
  - inv_pair H. reflexivity.
  - destruct h as [bits|t|t|c| |a b|x| | |g v0 p items|]; try (eapply IH; exact H).
    destruct (noack_items s cfg g v0 num started items) as [[cbs1 num1] started1] eqn:E1.
    destruct (noack_headers s cfg num1 started1 rest) as [cbs2 started2] eqn:E2.
    inv_pair H. apply noack_items_shape in E1. apply IH in E2. fb.
Qed.

Lemma finish_shape (started : bool) : forallb exec_obs (if started then [OCb CbEndFragment] else []) = true.
Proof. destruct started; reflexivity. Qed.

Lemma handle_controls_spec cfg s fn seq fid bytes hdrs s1 r o :
  handle_controls cfg s fn seq fid bytes hdrs = (s1, r, o) ->
  frameB s s1 /\ forallb exec_obs o = true /\ (fn = fn_direct_operate_nr -> s1 = s /\ r = None).
Proof.
  unfold handle_controls. destruct (negb (all_controls hdrs)).
  { intros H; inv_pair H. split; [apply frameB_refl|]. split; [reflexivity|].
    intros ->. cbn. auto. }
  destruct (fn =? fn_direct_operate_nr) eqn:Enr.
  { destruct (noack_headers s cfg 0 false hdrs) as [cbs started] eqn:E. intros H; inv_pair H.
    apply noack_headers_shape in E. split; [apply frameB_refl|]. split; [|auto].
    rewrite forallb_app, E, finish_shape. reflexivity. }
  assert (Hne : fn = fn_direct_operate_nr -> forall P : Prop, P).
  { intros ->. cbn in Enr. discriminate. }
  destruct (fn =? fn_select).
  { destruct (ctl_headers s cfg (o_sol_tx cfg - 4) CmSelect [] 0 false hdrs) as [[[[echo ok] cbs] st] started] eqn:E.
    apply ctl_headers_shape in E. intros H; inv_pair H.
    split; [destruct (ok && (st =? 0)); frame_tac|]. split; [|intros X; apply (Hne X)].
    rewrite forallb_app, E, finish_shape. reflexivity. }
  destruct (fn =? fn_direct_operate).
  { destruct (ctl_headers s cfg (o_sol_tx cfg - 4) (CmOperate OpDo) [] 0 false hdrs) as [[[[echo ok] cbs] st] started] eqn:E.
    apply ctl_headers_shape in E. intros H; inv_pair H.
    split; [frame_tac|]. split; [|intros X; apply (Hne X)].
    rewrite forallb_app, E, finish_shape. reflexivity. }
  destruct (match s_select s with Some sel => match_operate cfg s sel seq fid (objects_of bytes) | None => Some 2 end) as [status|].
  - destruct (ctl_headers s cfg (o_sol_tx cfg - 4) (CmStatus status) [] 0 false hdrs) as [[[[echo ok] cbs] st] started] eqn:E.
    intros H; inv_pair H. split; [frame_tac|]. split; [reflexivity|intros X; apply (Hne X)].
  - destruct (ctl_headers s cfg (o_sol_tx cfg - 4) (CmOperate OpSbo) [] 0 false hdrs) as [[[[echo ok] cbs] st] started] eqn:E.
    apply ctl_headers_shape in E. intros H; inv_pair H.
    split; [frame_tac|]. split; [|intros X; apply (Hne X)].
    rewrite forallb_app, E, finish_shape. reflexivity.
Qed.

Lemma handle_non_read_spec cfg s fn seq fid bytes hdrs s1 r o :
  handle_non_read cfg s fn seq fid bytes hdrs = (s1, r, o) ->
  frameB s s1 /\ forallb exec_obs o = true.
Proof.
  intros H. unfold handle_non_read in H. cbv beta zeta in H.
  match type of H with (match ?body with _ => _ end) = _ => destruct body as [[s2 r2] o2] eqn:E end.
  inv_pair H.
  repeat match type of E with
  | (if ?c then _ else _) = _ => destruct c
  end;
  repeat match type of E with
  | (match ?x with _ => _ end) = _ => let E1 := fresh "E1" in destruct x as [? ?] eqn:E1
  end;
  try (inv_pair E);
  try match goal with
  | E1 : handle_write_headers _ _ _ = _ |- _ => apply handle_write_headers_spec in E1 as [F S]; apply frame_frameB in F
  | E1 : restart_response _ _ _ = _ |- _ => apply restart_response_spec in E1
  | E1 : handle_controls _ _ _ _ _ _ _ = _ |- _ => apply handle_controls_spec in E1 as [F [S _]]
  | E1 : handle_freeze _ _ _ = _ |- _ => apply handle_freeze_spec in E1
  | E1 : handle_freeze_at_time _ _ _ = _ |- _ => apply handle_freeze_at_time_spec in E1
  | E1 : enable_disable _ _ _ _ _ = _ |- _ => apply enable_disable_spec in E1 as [F _]; apply frame_frameB in F
  end;
  (split; [first [assumption | apply frameB_refl | frame_tac] | first [assumption | reflexivity]]).
Qed.

(* ---------- READ ---------------------------------------------------------------------------------------- *)

Lemma format_read_response_spec s fir seq iin2 s1 r se o :
  format_read_response s fir seq iin2 = (s1, r, se, o) ->
  frameB s s1 /\ forallb dbq o = true /\
  ctl_seq (r_ctl r) = seq mod 16 /\ (forall x, se = Some x -> se_ecsn x = seq).
Proof.
  unfold format_read_response. destruct (ask_write s) as [[s0 [[complete has_events] body]] o0] eqn:E.
  apply ask_write_spec in E as [F S]. intros H; inv_pair H.
  split; [frame_tac|]. split; [exact S|]. split.
  - cbn [r_ctl]. unfold ctl_seq, ctl_byte.
    destruct fir, complete, has_events; cbn [orb negb]; lia.
  - intros x. destruct (has_events || negb complete); intros X; inversion X; reflexivity.
Qed.

Lemma format_first_read_response_spec s seq s1 r se o :
  format_first_read_response s seq = (s1, r, se, o) ->
  frameB s s1 /\ forallb dbq o = true /\
  ctl_seq (r_ctl r) = seq mod 16 /\ (forall x, se = Some x -> se_ecsn x = seq).
Proof.
  unfold format_first_read_response. destruct (ask_iin2 s DbSelect) as [[s0 v] o0] eqn:E0.
  destruct (format_read_response s0 true seq v) as [[[s2 r2] se2] o2] eqn:E1.
  apply ask_iin2_spec in E0 as [F0 S0]. apply format_read_response_spec in E1 as [F1 [S1 [Q1 Q2]]].
  intros H; inv_pair H. split; [eapply frameB_trans; [apply frame_frameB; exact F0 | exact F1]|].
  split; [fb|]. auto.
Qed.

(* ---------- broadcast, error responses --------------------------------------------------------------------- *)

Lemma process_broadcast_spec cfg s m fid ctl fn bytes obj s1 o :
  process_broadcast cfg s m fid ctl fn bytes obj = (s1, o) ->
  frame s s1 /\ forallb req_obs o = true.
Proof.
  unfold process_broadcast. cbv zeta.
  destruct (negb (o_broadcast cfg)); [intros H; inv_pair H; split; [frame_tac | reflexivity]|].
  destruct obj as [iin2|hdrs rh]; [intros H; inv_pair H; split; [frame_tac | reflexivity]|].
  destruct (fn =? fn_write).
  { destruct (handle_write_headers cfg (upd_bcast_rep (upd_last_bcast s (Some m)) None) hdrs) as [[s2 v] o2] eqn:E.
    apply handle_write_headers_spec in E as [F S]. intros H; inv_pair H.
    split; [eapply frame_trans; [|exact F]; frame_tac|].
    rewrite forallb_app, (forallb_imp _ _ _ exec_req S). reflexivity. }
  destruct (fn =? fn_direct_operate_nr) eqn:Enr.
  { apply N.eqb_eq in Enr. subst fn.
    destruct (handle_controls cfg (upd_bcast_rep (upd_last_bcast s (Some m)) None) fn_direct_operate_nr (ctl_seq ctl) fid bytes hdrs)
      as [[s2 r2] o2] eqn:E.
    apply handle_controls_spec in E as [F [S X]]. destruct (X eq_refl) as [-> ->].
    intros H; inv_pair H. split; [frame_tac|].
    rewrite forallb_app, (forallb_imp _ _ _ exec_req S). reflexivity. }
  assert (Hfr : forall ft, (let '(_, o) := handle_freeze cfg ft hdrs in (upd_bcast_rep (upd_last_bcast s (Some m)) None, o ++ [OInfo (IBroadcast fn 0 0)])) = (s1, o) ->
            frame s s1 /\ forallb req_obs o = true).
  { intros ft. destruct (handle_freeze cfg ft hdrs) as [v o2] eqn:E. apply handle_freeze_spec in E.
    intros H; inv_pair H. split; [frame_tac|].
    rewrite forallb_app, (forallb_imp _ _ _ exec_req E). reflexivity. }
  destruct (fn =? fn_immediate_freeze_nr); [apply Hfr|].
  destruct (fn =? fn_freeze_clear_nr); [apply Hfr|].
  destruct (fn =? fn_freeze_at_time_nr).
  { destruct (handle_freeze_at_time cfg None hdrs) as [v o2] eqn:E. apply handle_freeze_at_time_spec in E.
    intros H; inv_pair H. split; [frame_tac|].
    rewrite forallb_app, (forallb_imp _ _ _ exec_req E). reflexivity. }
  destruct (fn =? fn_record_time); [intros H; inv_pair H; split; [frame_tac | reflexivity]|].
  destruct (fn =? fn_disable_unsol).
  { destruct (enable_disable cfg (upd_bcast_rep (upd_last_bcast s (Some m)) None) false (ctl_seq ctl) hdrs) as [s2 r2] eqn:E.
    apply enable_disable_spec in E as [F _]. intros H; inv_pair H.
    split; [eapply frame_trans; [|exact F]; frame_tac | reflexivity]. }
  destruct (fn =? fn_enable_unsol).
  { destruct (enable_disable cfg (upd_bcast_rep (upd_last_bcast s (Some m)) None) true (ctl_seq ctl) hdrs) as [s2 r2] eqn:E.
    apply enable_disable_spec in E as [F _]. intros H; inv_pair H.
    split; [eapply frame_trans; [|exact F]; frame_tac | reflexivity]. }
  intros H; inv_pair H; split; [frame_tac | reflexivity].
Qed.

Lemma write_error_response_spec s from bc seq s1 o :
  write_error_response s from bc seq = (s1, o) ->
  frame s s1 /\ forallb req_obs o = true /\ forallb bg o = true.
Proof.
  unfold write_error_response. destruct bc; [intros H; inv_pair H; split; [apply frame_refl | auto]|].
  destruct seq as [q|]; [|intros H; inv_pair H; split; [apply frame_refl | auto]].
  destruct (write_solicited s from (empty_solicited q iin2_no_func)) as [[s2 r2] o2] eqn:E.
  apply write_solicited_spec in E as [F [_ [_ [_ [o' [-> S]]]]]]. intros H; inv_pair H.
  split; [exact F|]. split.
  - rewrite forallb_app, (forallb_imp _ _ _ dbq_req S). reflexivity.
  - rewrite forallb_app, (forallb_imp _ _ _ dbq_bg S). reflexivity.
Qed.

(* ---------- the C05 invariants ------------------------------------------------------------------------------- *)

(* a fragment with these bytes has been transmitted; when only the configured master is listened to,
   it went to that master *)
Definition tx_known (cfg : ocfg) (h : list oobs) (b : list N) : Prop :=
  exists dest, In (OTx dest b) h /\ (o_any_master cfg = false -> dest = o_master cfg).

(* the remembered response, rendered over the solicited buffer as it is now, is a fragment sent before *)
Definition sol_coh (cfg : ocfg) (h : list oobs) (s : ostate) : Prop :=
  forall l r, s_last s = Some l -> lr_response l = Some r ->
    tx_known cfg h (response_bytes r (s_sol_buf s)).

(* fragment b went out to dest and opened the unsolicited confirm wait that is still the last one *)
Definition opened_by (h : list oobs) (dest : N) (b : list N) (q : N) : Prop :=
  exists h1 h2, h = h1 ++ OTx dest b :: OInfo (IEnterUnsolWait q) :: h2 /\
                forallb not_enter_unsol h2 = true.

Definition unsol_coh (cfg : ocfg) (h : list oobs) (s : ostate) : Prop :=
  forall resp n rt dl, s_control s = CUnsolWait resp n rt dl ->
    opened_by h (o_master cfg) (response_bytes resp (s_unsol_buf s)) (ctl_seq (r_ctl resp)) /\
    r_fn resp = fn_unsol_response.

(* in a solicited confirm wait the remembered response is the fragment whose confirmation is awaited *)
Definition wait_coh (s : ostate) : Prop :=
  forall se dl rs, s_control s = CSolWait se dl rs ->
    exists l r, s_last s = Some l /\ lr_response l = Some r /\ ctl_seq (r_ctl r) = se_ecsn se mod 16.

Lemma tx_known_app_l cfg h o b : tx_known cfg h b -> tx_known cfg (h ++ o) b.
Proof. intros [d [H1 H2]]. exists d. split; [apply in_or_app; auto | exact H2]. Qed.

Lemma tx_known_app_r cfg h o b : tx_known cfg o b -> tx_known cfg (h ++ o) b.
Proof. intros [d [H1 H2]]. exists d. split; [apply in_or_app; auto | exact H2]. Qed.

Lemma sol_coh_frame cfg h s s1 o :
  s_last s1 = s_last s -> s_sol_buf s1 = s_sol_buf s -> sol_coh cfg h s -> sol_coh cfg (h ++ o) s1.
Proof.
  intros E1 E2 H l r Hl Hr. rewrite E2. apply tx_known_app_l. rewrite E1 in Hl. eauto.
Qed.

Lemma opened_by_app h o dest b q :
  forallb not_enter_unsol o = true -> opened_by h dest b q -> opened_by (h ++ o) dest b q.
Proof.
  intros Ho [h1 [h2 [-> H2]]]. exists h1, (h2 ++ o). split.
  - rewrite <- app_assoc. reflexivity.
  - rewrite forallb_app, H2, Ho. reflexivity.
Qed.

Lemma unsol_coh_frame cfg h s s1 o :
  s_control s1 = s_control s -> s_unsol_buf s1 = s_unsol_buf s -> forallb not_enter_unsol o = true ->
  unsol_coh cfg h s -> unsol_coh cfg (h ++ o) s1.
Proof.
  intros E1 E2 Ho H resp n rt dl Hc. rewrite E1 in Hc. destruct (H _ _ _ _ Hc) as [H1 H2].
  split; [|exact H2]. rewrite E2. apply opened_by_app; assumption.
Qed.

Lemma unsol_coh_vacuous cfg h s :
  (forall resp n rt dl, s_control s <> CUnsolWait resp n rt dl) -> unsol_coh cfg h s.
Proof. intros H resp n rt dl Hc. destruct (H _ _ _ _ Hc). Qed.

Lemma wait_coh_frame s s1 :
  s_control s1 = s_control s -> s_last s1 = s_last s -> wait_coh s -> wait_coh s1.
Proof. intros E1 E2 H se dl rs Hc. rewrite E1 in Hc. rewrite E2. eauto. Qed.

(* the source remembered with a deferred READ is a master the session listens to *)
Definition def_ok (cfg : ocfg) (s : ostate) : Prop :=
  forall d, s_deferred s = Some d -> o_any_master cfg = false -> df_from d = o_master cfg.

(* ---------- handle_one_request_from_idle ----------------------------------------------------------------------- *)

Definition confirm_series (se : option series) (r : response) : option series :=
  match se with
  | None => if ctl_con (r_ctl r) then Some {| se_ecsn := ctl_seq (r_ctl r); se_fin := true |} else None
  | x => x
  end.

Definition finish_fn (cfg : ocfg) (from seq : N) (bytes : list N) (o0 : list oobs)
           (s1 : ostate) (resp : option response) (se : option series) (repeat : bool) (o1 : list oobs)
  : ostate * list oobs :=
  match resp with
  | Some r =>
      if repeat then
        let o2 := repeat_solicited s1 from r in
        let se' := confirm_series se r in
        let s2 := upd_last s1 (mk_last seq bytes (Some r) se') in
        match se' with
        | Some x => (upd_control s2 (CSolWait x (confirm_deadline cfg s2) RStep2), o0 ++ o1 ++ o2 ++ [OInfo (IEnterSolWait (se_ecsn x))])
        | None => (s2, o0 ++ o1 ++ o2)
        end
      else
        let '(s2, r', o2) := write_solicited s1 from r in
        let se' := confirm_series se r' in
        let s3 := upd_last s2 (mk_last seq bytes (Some r') se') in
        match se' with
        | Some x => (upd_control s3 (CSolWait x (confirm_deadline cfg s3) RStep2), o0 ++ o1 ++ o2 ++ [OInfo (IEnterSolWait (se_ecsn x))])
        | None => (s3, o0 ++ o1 ++ o2)
        end
  | None => (upd_last s1 (mk_last seq bytes None se), o0 ++ o1)
  end.

(* SelectState::update_frame_id on a repeated request *)
Definition touch_select (s : ostate) (frame_id : N) : ostate :=
  match s_select s with
  | Some sel =>
      if (ss_frame_id sel + 1) mod 4294967296 =? frame_id
      then upd_select s (Some {| ss_seq := ss_seq sel; ss_frame_id := frame_id;
                                 ss_time := ss_time sel; ss_objects := ss_objects sel |})
      else s
  | None => s
  end.

Lemma touch_select_frame s fid : frame s (touch_select s fid).
Proof.
  unfold touch_select. destruct (s_select s) as [sel|]; [|apply frame_refl].
  destruct (_ =? _); [frame_tac | apply frame_refl].
Qed.

Lemma handle_from_idle_unfold cfg s from bc bytes d frame_id :
  handle_from_idle cfg s from bc bytes d frame_id =
  match to_treq cfg from d with
  | TqNone => (s, [])
  | TqError seq => write_error_response s from bc seq
  | TqRequest ctl fn obj =>
      let seq := ctl_seq ctl in
      let o0 := [OInfo (IIdleRequest fn seq)] in
      let finish := finish_fn cfg from seq bytes o0 in
      match classify s bc bytes ctl fn obj with
      | FtMalformed iin2 => finish s (Some (empty_solicited seq iin2)) None false []
      | FtNewRead _ _ | FtRepeatRead _ _ _ =>
          let '(s1, r, se, o1) := format_first_read_response s seq in finish s1 (Some r) se false o1
      | FtNewNonRead hdrs =>
          let '(s1, r, o1) := handle_non_read cfg s fn seq frame_id bytes hdrs in finish s1 r None false o1
      | FtRepeatNonRead last =>
          finish (touch_select s frame_id) last None true []
      | FtBroadcast m =>
          let '(s1, o1) := process_broadcast cfg s m frame_id ctl fn bytes obj in (s1, o0 ++ o1)
      | FtSolConfirm _ | FtUnsolConfirm _ => (s, o0)
      end
  end.
Proof. reflexivity. Qed.

Lemma to_treq_from cfg from d ctl fn obj :
  to_treq cfg from d = TqRequest ctl fn obj -> o_any_master cfg = false -> from = o_master cfg.
Proof.
  unfold to_treq. intros H Ha. rewrite Ha in H. cbn [negb andb] in H.
  destruct (from =? o_master cfg) eqn:E; [apply N.eqb_eq in E; exact E | discriminate].
Qed.

Lemma to_treq_from_err cfg from d q :
  to_treq cfg from d = TqError q -> o_any_master cfg = false -> from = o_master cfg.
Proof.
  unfold to_treq. intros H Ha. rewrite Ha in H. cbn [negb andb] in H.
  destruct (from =? o_master cfg) eqn:E; [apply N.eqb_eq in E; exact E | discriminate].
Qed.

(* what handle_from_idle leaves alone, whatever the fragment *)
Definition idle_frame (s s1 : ostate) : Prop :=
  s_deferred s1 = s_deferred s /\ s_pending s1 = s_pending s /\ s_notify s1 = s_notify s /\
  s_unsol_buf s1 = s_unsol_buf s /\
  (s_control s1 = s_control s \/ exists se dl, s_control s1 = CSolWait se dl RStep2).

Lemma frameB_idle_frame s s1 : frameB s s1 -> idle_frame s s1.
Proof. unfold frameB, idle_frame. intuition. Qed.

Lemma finish_fn_spec cfg h from seq bytes o0 s1 resp se repeat o1 s2 o :
  finish_fn cfg from seq bytes o0 s1 resp se repeat o1 = (s2, o) ->
  (o_any_master cfg = false -> from = o_master cfg) ->
  (forall x r, se = Some x -> resp = Some r -> ctl_seq (r_ctl r) = se_ecsn x mod 16) ->
  s_control s1 = CIdle ->
  forallb req_obs o0 = true -> forallb req_obs o1 = true ->
  sol_coh cfg (h ++ o) s2 /\ wait_coh s2 /\ idle_frame s1 s2 /\ forallb req_obs o = true.
Proof.
  unfold finish_fn. intros H Hfrom Hse Hc S0 S1.
  destruct resp as [r|].
  2:{ inv_pair H. split; [|split; [|split]].
      - intros l r Hl Hr. psimpl_in Hl. inversion Hl; subst l. discriminate.
      - intros x dl rs Hx. psimpl_in Hx. congruence.
      - unfold idle_frame; psimpl; auto 10.
      - fb. }
  assert (Hws : forall x r', confirm_series se r' = Some x -> ctl_seq (r_ctl r') = ctl_seq (r_ctl r) ->
                ctl_seq (r_ctl r') = se_ecsn x mod 16).
  { intros x r' Hx Hq. unfold confirm_series in Hx. destruct se as [y|].
    - inversion Hx; subst y. rewrite Hq. eauto.
    - destruct (ctl_con (r_ctl r')); inversion Hx; subst x. cbn [se_ecsn]. unfold ctl_seq. lia. }
  destruct repeat.
  - cbv zeta in H. unfold repeat_solicited in H.
    assert (Hk : forall s3 o4, s_last s3 = mk_last seq bytes (Some r) (confirm_series se r) ->
                 s_sol_buf s3 = s_sol_buf s1 ->
                 sol_coh cfg (h ++ o0 ++ o1 ++ [OTx from (response_bytes r (s_sol_buf s1))] ++ o4) s3).
    { intros s3 o4 Hl Hb l r0 Hl0 Hr0. rewrite Hl in Hl0. inversion Hl0; subst l. cbn [lr_response] in Hr0.
      inversion Hr0; subst r0. rewrite Hb. exists from. split; [|exact Hfrom].
      rewrite ?in_app_iff. cbn [In]. tauto. }
    destruct (confirm_series se r) as [x|] eqn:Ecs; inv_pair H.
    + split; [|split; [|split]].
      * apply (Hk _ [OInfo (IEnterSolWait (se_ecsn x))]); psimpl; auto.
      * intros se0 dl rs Hx. psimpl_in Hx. inversion Hx; subst. psimpl.
        eexists _, r. split; [reflexivity|]. split; [reflexivity|]. apply Hws; auto.
      * unfold idle_frame; psimpl. repeat split; eauto.
      * fb.
    + split; [|split; [|split]].
      * specialize (Hk (upd_last s1 (mk_last seq bytes (Some r) None)) []). rewrite app_nil_r in Hk.
        apply Hk; psimpl; auto.
      * intros se0 dl rs Hx. psimpl_in Hx. congruence.
      * unfold idle_frame; psimpl. repeat split; eauto.
      * fb.
  - destruct (write_solicited s1 from r) as [[s3 r'] o2] eqn:Ew.
    apply write_solicited_spec in Ew as [F [_ [_ [Hq [o' [-> S']]]]]].
    cbv zeta in H.
    assert (Hk : forall s4 o4, s_last s4 = mk_last seq bytes (Some r') (confirm_series se r') ->
                 s_sol_buf s4 = s_sol_buf s3 ->
                 sol_coh cfg (h ++ o0 ++ o1 ++ (o' ++ [OTx from (response_bytes r' (s_sol_buf s3))]) ++ o4) s4).
    { intros s4 o4 Hl Hb l r0 Hl0 Hr0. rewrite Hl in Hl0. inversion Hl0; subst l. cbn [lr_response] in Hr0.
      inversion Hr0; subst r0. rewrite Hb. exists from. split; [|exact Hfrom].
      rewrite ?in_app_iff. cbn [In]. tauto. }
    assert (Sreq : forallb req_obs o' = true) by (apply (forallb_imp _ _ _ dbq_req S')).
    destruct F as [[Fc [Fl [Fd [Fp [Fn Fu]]]]] Fb].
    destruct (confirm_series se r') as [x|] eqn:Ecs; inv_pair H.
    + split; [|split; [|split]].
      * apply Hk; psimpl; auto.
      * intros se0 dl rs Hx. psimpl_in Hx. inversion Hx; subst. psimpl.
        eexists _, r'. split; [reflexivity|]. split; [reflexivity|]. apply Hws; auto.
      * unfold idle_frame; psimpl. repeat split; eauto.
      * fb.
    + split; [|split; [|split]].
      * specialize (Hk (upd_last s3 (mk_last seq bytes (Some r') None)) []). rewrite app_nil_r in Hk.
        apply Hk; psimpl; auto.
      * intros se0 dl rs Hx. psimpl_in Hx. congruence.
      * unfold idle_frame; psimpl. repeat split; auto.
      * fb.
Qed.

Lemma wait_coh_not_wait s : (forall se dl rs, s_control s <> CSolWait se dl rs) -> wait_coh s.
Proof. intros H se dl rs Hc. destruct (H _ _ _ Hc). Qed.

Lemma idle_frame_trans_l s s1 s2 : frameB s s1 -> idle_frame s1 s2 -> idle_frame s s2.
Proof. unfold frameB, idle_frame. intros [A [B [C [D [E F]]]]] [G [I [J [K L]]]]. rewrite <- A. intuition congruence. Qed.

Lemma handle_from_idle_pres cfg h s from bc bytes d fid s1 o :
  handle_from_idle cfg s from bc bytes d fid = (s1, o) ->
  s_control s = CIdle ->
  sol_coh cfg h s ->
  sol_coh cfg (h ++ o) s1 /\ wait_coh s1 /\ idle_frame s s1 /\ forallb req_obs o = true.
Proof.
  rewrite handle_from_idle_unfold. intros H Hc Hcoh.
  assert (Hsame : forall s', frame s s' -> forall o', forallb req_obs o' = true ->
            sol_coh cfg (h ++ o') s' /\ wait_coh s' /\ idle_frame s s' /\ forallb req_obs o' = true).
  { intros s' F o' So. pose proof F as [[Fc [Fl _]] Fb]. split; [|split; [|split]].
    - apply sol_coh_frame with (s := s); auto.
    - apply wait_coh_not_wait. intros se dl rs. rewrite Fc, Hc. discriminate.
    - apply frameB_idle_frame, frame_frameB, F.
    - exact So. }
  destruct (to_treq cfg from d) as [|q|ctl fn obj] eqn:Et.
  - inv_pair H. apply Hsame; [apply frame_refl | reflexivity].
  - apply write_error_response_spec in H as [F [S _]]. apply Hsame; assumption.
  - pose proof (to_treq_from _ _ _ _ _ _ Et) as Hfrom. cbv zeta in H.
    assert (S0 : forallb req_obs [OInfo (IIdleRequest fn (ctl_seq ctl))] = true) by reflexivity.
    destruct (classify s bc bytes ctl fn obj) as [iin2|hdrs rh|resp hdrs rh|hdrs|resp|m|q|q] eqn:Ecl.
    + eapply finish_fn_spec in H; eauto. discriminate.
    + destruct (format_first_read_response s (ctl_seq ctl)) as [[[s2 r] se] o1] eqn:Ef.
      apply format_first_read_response_spec in Ef as [F [S [Q1 Q2]]].
      eapply finish_fn_spec with (h := h) in H; eauto.
      * destruct H as [A [B [C D]]]. split; [exact A|]. split; [exact B|]. split; [|exact D]. eapply idle_frame_trans_l; eauto.
      * intros x r0 Hx Hr. inversion Hr; subst r0. rewrite (Q2 _ Hx). exact Q1.
      * destruct F as [Fc _]. congruence.
      * apply (forallb_imp _ _ _ dbq_req S).
    + destruct (format_first_read_response s (ctl_seq ctl)) as [[[s2 r] se] o1] eqn:Ef.
      apply format_first_read_response_spec in Ef as [F [S [Q1 Q2]]].
      eapply finish_fn_spec with (h := h) in H; eauto.
      * destruct H as [A [B [C D]]]. split; [exact A|]. split; [exact B|]. split; [|exact D]. eapply idle_frame_trans_l; eauto.
      * intros x r0 Hx Hr. inversion Hr; subst r0. rewrite (Q2 _ Hx). exact Q1.
      * destruct F as [Fc _]. congruence.
      * apply (forallb_imp _ _ _ dbq_req S).
    + destruct (handle_non_read cfg s fn (ctl_seq ctl) fid bytes hdrs) as [[s2 r] o1] eqn:Ef.
      apply handle_non_read_spec in Ef as [F S].
      eapply finish_fn_spec with (h := h) in H; eauto.
      * destruct H as [A [B [C D]]]. split; [exact A|]. split; [exact B|]. split; [|exact D]. eapply idle_frame_trans_l; eauto.
      * discriminate.
      * destruct F as [Fc _]. congruence.
      * apply (forallb_imp _ _ _ exec_req S).
    + pose proof (touch_select_frame s fid) as F.
      eapply finish_fn_spec with (h := h) in H; eauto.
      * destruct H as [A [B [C D]]]. split; [exact A|]. split; [exact B|]. split; [|exact D]. eapply idle_frame_trans_l; eauto. apply frame_frameB, F.
      * discriminate.
      * destruct F as [[Fc _] _]. congruence.
    + destruct (process_broadcast cfg s m fid ctl fn bytes obj) as [s2 o1] eqn:Ef.
      apply process_broadcast_spec in Ef as [F S]. inv_pair H. apply Hsame; [exact F|]. fb.
    + inv_pair H. apply Hsame; [apply frame_refl | reflexivity].
    + inv_pair H. apply Hsame; [apply frame_refl | reflexivity].
Qed.

(* ---------- one fragment in the unsolicited confirm wait ----------------------------------------------------------- *)

Definition wait_frame (s s1 : ostate) : Prop :=
  s_control s1 = s_control s /\ s_pending s1 = s_pending s /\ s_notify s1 = s_notify s /\
  s_unsol_buf s1 = s_unsol_buf s.

Lemma unsol_wait_fragment_pres cfg h s resp from bc bytes d fid s1 res o :
  unsol_wait_fragment cfg s resp from bc bytes d fid = (s1, res, o) ->
  sol_coh cfg h s ->
  sol_coh cfg (h ++ o) s1 /\ wait_frame s s1 /\ forallb req_obs o = true /\
  (res <> None -> s_deferred s1 = s_deferred s \/ s_deferred s1 = None).
Proof.
  unfold unsol_wait_fragment. intros H Hcoh.
  assert (Hsame : forall s' o', s_last s' = s_last s -> s_sol_buf s' = s_sol_buf s -> wait_frame s s' ->
            forallb req_obs o' = true ->
            (res <> None -> s_deferred s' = s_deferred s \/ s_deferred s' = None) ->
            sol_coh cfg (h ++ o') s' /\ wait_frame s s' /\ forallb req_obs o' = true /\
            (res <> None -> s_deferred s' = s_deferred s \/ s_deferred s' = None)).
  { intros s' o' Fl Fb Fw So Hd. split; [|auto]. apply sol_coh_frame with (s := s); auto. }
  destruct (to_treq cfg from d) as [|q|ctl fn obj] eqn:Et.
  - inv_pair H. apply Hsame; auto; try reflexivity. unfold wait_frame; auto.
  - destruct (write_error_response (upd_deferred s None) from bc q) as [s2 o2] eqn:Ew.
    apply write_error_response_spec in Ew as [[[Fc [Fl [Fd [Fp [Fn Fu]]]]] Fb] [S _]]. inv_pair H.
    psimpl_in Fc. psimpl_in Fl. psimpl_in Fp. psimpl_in Fn. psimpl_in Fu. psimpl_in Fb.
    apply Hsame; auto. unfold wait_frame; auto.
  - pose proof (to_treq_from _ _ _ _ _ _ Et) as Hfrom.
    destruct (classify s bc bytes ctl fn obj) as [iin2|hdrs rh|resp0 hdrs rh|hdrs|resp0|m|q|q] eqn:Ecl.
    + destruct (write_solicited (upd_deferred s None) from (empty_solicited (ctl_seq ctl) iin2)) as [[s2 r2] o2] eqn:Ew.
      apply write_solicited_spec in Ew as [[[Fc [Fl [Fd [Fp [Fn Fu]]]]] Fb] [_ [_ [_ [o' [-> S]]]]]]. inv_pair H.
      psimpl_in Fc. psimpl_in Fl. psimpl_in Fp. psimpl_in Fn. psimpl_in Fu. psimpl_in Fb.
      apply Hsame; auto. { unfold wait_frame; auto. }
      rewrite forallb_app, (forallb_imp _ _ _ dbq_req S). reflexivity.
    + inv_pair H. apply Hsame; auto; try reflexivity; [|intros X; congruence]. unfold wait_frame; psimpl; auto.
    + inv_pair H. apply Hsame; auto; try reflexivity; [|intros X; congruence]. unfold wait_frame; psimpl; auto.
    + destruct (handle_non_read cfg (upd_deferred s None) fn (ctl_seq ctl) fid bytes hdrs) as [[s2 r] o1] eqn:Eh.
      apply handle_non_read_spec in Eh as [[Fc [Fl [Fd [Fp [Fn Fu]]]]] S1].
      psimpl_in Fc. psimpl_in Fl. psimpl_in Fp. psimpl_in Fn. psimpl_in Fu. psimpl_in Fd.
      apply (forallb_imp _ _ _ exec_req) in S1.
      destruct r as [r0|].
      * destruct (write_solicited s2 from r0) as [[s3 r1] o2] eqn:Ew.
        apply write_solicited_spec in Ew as [[[Gc [Gl [Gd [Gp [Gn Gu]]]]] Gb] [_ [_ [_ [o' [-> S]]]]]]. inv_pair H.
        apply (forallb_imp _ _ _ dbq_req) in S.
        split; [|split; [|split]].
        -- intros l r Hl Hr. psimpl_in Hl. inversion Hl; subst l. cbn [lr_response] in Hr. inversion Hr; subst r.
           psimpl. exists from. split; [|exact Hfrom]. rewrite ?in_app_iff. cbn [In]. tauto.
        -- unfold wait_frame; psimpl. repeat split; congruence.
        -- fb.
        -- intros _. right. psimpl. congruence.
      * inv_pair H. split; [|split; [|split]].
        -- intros l r Hl Hr. psimpl_in Hl. inversion Hl; subst l. discriminate.
        -- unfold wait_frame; psimpl. repeat split; congruence.
        -- fb.
        -- intros _. right. psimpl. congruence.
    + inv_pair H. apply Hsame; auto; try reflexivity. { unfold wait_frame; psimpl; auto. }
      destruct resp0; reflexivity.
    + destruct (process_broadcast cfg (upd_deferred s None) m fid ctl fn bytes obj) as [s2 o2] eqn:Ep.
      apply process_broadcast_spec in Ep as [[[Fc [Fl [Fd [Fp [Fn Fu]]]]] Fb] S]. inv_pair H.
      psimpl_in Fc. psimpl_in Fl. psimpl_in Fp. psimpl_in Fn. psimpl_in Fu. psimpl_in Fb.
      apply Hsame; auto. unfold wait_frame; auto.
    + pose proof (bcast_confirmed_frame s false q) as [[Fc [Fl [Fd [Fp [Fn Fu]]]]] Fb].
      inv_pair H; apply Hsame; auto; try reflexivity;
        try (intros X; congruence); try (unfold wait_frame; psimpl; auto).
    + pose proof (bcast_confirmed_frame s true q) as [[Fc [Fl [Fd [Fp [Fn Fu]]]]] Fb].
      destruct (q =? ctl_seq (r_ctl resp)); inv_pair H; apply Hsame; auto; try reflexivity;
        try (intros X; congruence); try (unfold wait_frame; psimpl; auto).
Qed.

Lemma unsol_wait_fragment_def_ok cfg s resp from bc bytes d fid s1 res o :
  unsol_wait_fragment cfg s resp from bc bytes d fid = (s1, res, o) ->
  def_ok cfg s -> def_ok cfg s1.
Proof.
  unfold unsol_wait_fragment. intros H Hd.
  assert (Hnone : forall s', s_deferred s' = None -> def_ok cfg s').
  { intros s' E x Hx. congruence. }
  assert (Hsame : forall s', s_deferred s' = s_deferred s -> def_ok cfg s').
  { intros s' E x Hx. rewrite E in Hx. auto. }
  destruct (to_treq cfg from d) as [|q|ctl fn obj] eqn:Et.
  - inv_pair H. exact Hd.
  - destruct (write_error_response (upd_deferred s None) from bc q) as [s2 o2] eqn:Ew.
    apply write_error_response_spec in Ew as [[[Fc [Fl [Fd _]]] Fb] _]. inv_pair H. apply Hnone. exact Fd.
  - pose proof (to_treq_from _ _ _ _ _ _ Et) as Hfrom.
    destruct (classify s bc bytes ctl fn obj) as [iin2|hdrs rh|resp0 hdrs rh|hdrs|resp0|m|q|q] eqn:Ecl.
    + destruct (write_solicited (upd_deferred s None) from (empty_solicited (ctl_seq ctl) iin2)) as [[s2 r2] o2] eqn:Ew.
      apply write_solicited_spec in Ew as [[[Fc [Fl [Fd _]]] Fb] _]. inv_pair H. apply Hnone. exact Fd.
    + inv_pair H. intros x Hx. psimpl_in Hx. inversion Hx; subst x. exact Hfrom.
    + inv_pair H. intros x Hx. psimpl_in Hx. inversion Hx; subst x. exact Hfrom.
    + destruct (handle_non_read cfg (upd_deferred s None) fn (ctl_seq ctl) fid bytes hdrs) as [[s2 r] o1] eqn:Eh.
      apply handle_non_read_spec in Eh as [[Fc [Fl [Fd _]]] S1]. psimpl_in Fd.
      destruct r as [r0|].
      * destruct (write_solicited s2 from r0) as [[s3 r1] o2] eqn:Ew.
        apply write_solicited_spec in Ew as [[[Gc [Gl [Gd _]]] Gb] _]. inv_pair H.
        apply Hnone. psimpl. congruence.
      * inv_pair H. apply Hnone. psimpl. congruence.
    + inv_pair H. apply Hnone. reflexivity.
    + destruct (process_broadcast cfg (upd_deferred s None) m fid ctl fn bytes obj) as [s2 o2] eqn:Ep.
      apply process_broadcast_spec in Ep as [[[Fc [Fl [Fd _]]] Fb] S]. inv_pair H. apply Hnone. exact Fd.
    + pose proof (bcast_confirmed_frame s false q) as [[Fc [Fl [Fd _]]] Fb].
      inv_pair H; apply Hsame; assumption.
    + pose proof (bcast_confirmed_frame s true q) as [[Fc [Fl [Fd _]]] Fb].
      destruct (q =? ctl_seq (r_ctl resp)); inv_pair H; apply Hsame; first [assumption | reflexivity].
Qed.

(* ---------- unsolicited: starting and ending a series ------------------------------------------------------------------ *)

Lemma start_unsol_spec cfg h s r is_null s1 o :
  start_unsol cfg s r is_null = (s1, o) ->
  frame (upd_control s (s_control s1)) s1 /\ forallb ustart o = true /\
  exists r1 rt dl, s_control s1 = CUnsolWait r1 is_null rt dl /\ r_fn r1 = r_fn r /\
    opened_by (h ++ o) (o_master cfg) (response_bytes r1 (s_unsol_buf s1)) (ctl_seq (r_ctl r1)).
Proof.
  unfold start_unsol. destruct (write_unsolicited cfg s r) as [[s0 r1] o0] eqn:Ew.
  apply write_unsolicited_spec in Ew as [F [_ [Hfn [_ [o' [-> S]]]]]]. intros H; inv_pair H.
  split; [frame_tac|]. split.
  - rewrite !forallb_app, (forallb_imp _ _ _ dbq_ustart S). reflexivity.
  - eexists r1, _, _. psimpl. split; [reflexivity|]. split; [exact Hfn|].
    exists (h ++ o'), []. split; [|reflexivity]. rewrite <- !app_assoc. reflexivity.
Qed.

Lemma check_unsolicited_spec cfg h s s1 ns o :
  check_unsolicited cfg s = (s1, ns, o) ->
  s_control s = CIdle ->
  s_last s1 = s_last s /\ s_sol_buf s1 = s_sol_buf s /\ s_deferred s1 = s_deferred s /\
  s_pending s1 = s_pending s /\ s_notify s1 = s_notify s /\
  forallb ustart o = true /\ unsol_coh cfg (h ++ o) s1 /\
  (s_control s1 = CIdle \/ exists r1 n rt dl, s_control s1 = CUnsolWait r1 n rt dl).
Proof.
  unfold check_unsolicited. intros H Hc.
  assert (Hsame : forall s', frame s s' ->
     s_last s' = s_last s /\ s_sol_buf s' = s_sol_buf s /\ s_deferred s' = s_deferred s /\
     s_pending s' = s_pending s /\ s_notify s' = s_notify s /\
     forallb ustart [] = true /\ unsol_coh cfg (h ++ []) s' /\
     (s_control s' = CIdle \/ exists r1 n rt dl, s_control s' = CUnsolWait r1 n rt dl)).
  { intros s' [[Fc [Fl [Fd [Fp [Fn Fu]]]]] Fb]. splits; auto.
    - apply unsol_coh_vacuous. intros resp n rt dl X. rewrite Fc, Hc in X. discriminate.
    - left. congruence. }
  assert (Hstart : forall s0 r is_null pre s1' o', start_unsol cfg s0 r is_null = (s1', o') ->
     frame s (upd_unsol_buf s0 (s_unsol_buf s)) -> r_fn r = fn_unsol_response -> forallb ustart pre = true ->
     s_last s1' = s_last s /\ s_sol_buf s1' = s_sol_buf s /\ s_deferred s1' = s_deferred s /\
     s_pending s1' = s_pending s /\ s_notify s1' = s_notify s /\
     forallb ustart (pre ++ o') = true /\ unsol_coh cfg (h ++ pre ++ o') s1' /\
     (s_control s1' = CIdle \/ exists r1 n rt dl, s_control s1' = CUnsolWait r1 n rt dl)).
  { intros s0 r is_null pre s1' o' Hs F Hfn Sp.
    apply start_unsol_spec with (h := h ++ pre) in Hs as [[[Gc [Gl [Gd [Gp [Gn Gu]]]]] Gb] [S [r1 [rt [dl [Hc1 [Hfn1 Hop]]]]]]].
    destruct F as [[Fc [Fl [Fd [Fp [Fn Fu]]]]] Fb].
    psimpl_in Gl. psimpl_in Gd. psimpl_in Gp. psimpl_in Gn. psimpl_in Gb.
    psimpl_in Fl. psimpl_in Fd. psimpl_in Fp. psimpl_in Fn. psimpl_in Fb.
    splits; try congruence.
    - rewrite forallb_app, Sp, S. reflexivity.
    - intros resp n rt' dl' Hc'. rewrite Hc1 in Hc'. inversion Hc'; subst. split; [|congruence].
      rewrite app_assoc. exact Hop.
    - right. eauto. }
  destruct (negb (o_unsol cfg)); [inv_pair H; apply Hsame, frame_refl|].
  destruct (s_unsol s) as [|deadline].
  - destruct (start_unsol cfg (upd_unsol_seq s (seq16_next (s_unsol_seq s))) (unsol_header (s_unsol_seq s) 0) true)
      as [s2 o2] eqn:Es. inv_pair H.
    apply (Hstart _ _ _ []) in Es; auto. frame_tac.
  - destruct (negb match deadline with Some t => (t <=? s_now s)%Z | None => true end);
      [inv_pair H; apply Hsame, frame_refl|].
    destruct (negb (any_enabled s)); [inv_pair H; apply Hsame, frame_refl|].
    destruct (ask_unsol s) as [s0 [count body]] eqn:Ea. apply ask_unsol_spec in Ea.
    destruct (s_enabled s) as [[c1 c2] c3].
    destruct (count =? 0); [inv_pair H; apply Hsame; exact Ea|].
    match type of H with context [start_unsol cfg ?a ?b ?c] => destruct (start_unsol cfg a b c) as [s3 o3] eqn:Es end.
    inv_pair H.
    apply (Hstart _ _ _ [ODb (DbWriteUnsol c1 c2 c3)]) in Es; auto.
    destruct Ea as [[Fc [Fl [Fd [Fp [Fn Fu]]]]] Fb]. frame_tac.
Qed.

Lemma end_unsol_spec cfg s is_null res s1 ns o :
  end_unsol cfg s is_null res = (s1, ns, o) ->
  frame (upd_control s CIdle) s1 /\ forallb dbq o = true.
Proof.
  unfold end_unsol. destruct is_null, res; intros H; inv_pair H; (split; [frame_tac | reflexivity]).
Qed.

(* ---------- handle_deferred_read -------------------------------------------------------------------------------------- *)

Lemma handle_deferred_none cfg s ns : s_deferred s = None -> handle_deferred cfg s ns = (s, []).
Proof. unfold handle_deferred. intros ->. reflexivity. Qed.

Lemma handle_deferred_pres cfg h s ns s1 o :
  handle_deferred cfg s ns = (s1, o) ->
  s_control s = CIdle -> def_ok cfg s ->
  sol_coh cfg h s ->
  sol_coh cfg (h ++ o) s1 /\ wait_coh s1 /\
  s_deferred s1 = None /\ s_pending s1 = s_pending s /\ s_unsol_buf s1 = s_unsol_buf s /\
  (s_control s1 = CIdle \/ exists se dl, s_control s1 = CSolWait se dl (RStep4 ns)) /\
  forallb rd_obs o = true.
Proof.
  unfold handle_deferred. intros H Hc Hdef Hcoh.
  destruct (s_deferred s) as [d|] eqn:Ed.
  2:{ inv_pair H. splits; auto.
      - apply sol_coh_frame with (s := s1); auto.
      - apply wait_coh_not_wait. intros se dl rs. rewrite Hc. discriminate. }
  destruct (ask_iin2 (upd_notify (upd_deferred s None) true) DbDeferredSelect) as [[s2 iin2] o1] eqn:E1.
  destruct (format_read_response s2 true (df_seq d) (N.lor (df_iin2 d) iin2)) as [[[s3 r] se] o2] eqn:E2.
  destruct (write_solicited s3 (df_from d) r) as [[s4 r'] o3] eqn:E3.
  apply ask_iin2_spec in E1 as [[[Ac [Al [Ad [Ap [An Au]]]]] Ab] S1].
  apply format_read_response_spec in E2 as [[Bc [Bl [Bd [Bp [Bn Bu]]]]] [S2 [Q1 Q2]]].
  apply write_solicited_spec in E3 as [[[Cc [Cl [Cd [Cp [Cn Cu]]]]] Cb] [_ [_ [Hq [o' [-> S3]]]]]].
  psimpl_in Ac. psimpl_in Al. psimpl_in Ad. psimpl_in Ap. psimpl_in Au.
  cbv zeta in H.
  assert (Hk : forall s5 o4, s_last s5 = mk_last (df_seq d) (df_bytes d) (Some r') se ->
               s_sol_buf s5 = s_sol_buf s4 ->
               sol_coh cfg (h ++ o1 ++ o2 ++ (o' ++ [OTx (df_from d) (response_bytes r' (s_sol_buf s4))]) ++ o4) s5).
  { intros s5 o4 Hl Hb l r0 Hl0 Hr0. rewrite Hl in Hl0. inversion Hl0; subst l. cbn [lr_response] in Hr0.
    inversion Hr0; subst r0. rewrite Hb. exists (df_from d). split; [|apply Hdef; exact Ed].
    rewrite ?in_app_iff. cbn [In]. tauto. }
  assert (Hws : forall x, match se with
                          | None => if ctl_con (r_ctl r') then Some {| se_ecsn := ctl_seq (r_ctl r'); se_fin := true |} else None
                          | x => x end = Some x -> ctl_seq (r_ctl r') = se_ecsn x mod 16).
  { intros x Hx. destruct se as [y|].
    - inversion Hx; subst y. rewrite Hq, (Q2 _ eq_refl). exact Q1.
    - destruct (ctl_con (r_ctl r')); inversion Hx; subst x. cbn [se_ecsn]. unfold ctl_seq. lia. }
  assert (Sbg : forallb rd_obs (o1 ++ o2 ++ o' ++ [OTx (df_from d) (response_bytes r' (s_sol_buf s4))]) = true).
  { rewrite !forallb_app, (forallb_imp _ _ _ dbq_rd S1), (forallb_imp _ _ _ dbq_rd S2), (forallb_imp _ _ _ dbq_rd S3). reflexivity. }
  match type of H with (match ?c with _ => _ end) = _ => destruct c as [x|] eqn:Ese end; inv_pair H.
  - splits.
    + apply Hk; psimpl; auto.
    + intros se0 dl rs Hx. psimpl_in Hx. inversion Hx; subst. psimpl.
      eexists _, r'. split; [reflexivity|]. split; [reflexivity|]. apply Hws. reflexivity.
    + psimpl. congruence.
    + psimpl. congruence.
    + psimpl. congruence.
    + right. psimpl. eauto.
    + rewrite !app_assoc, forallb_app. rewrite <- !app_assoc, Sbg. reflexivity.
  - splits.
    + specialize (Hk (upd_last s4 (mk_last (df_seq d) (df_bytes d) (Some r') se)) []). rewrite app_nil_r in Hk.
      apply Hk; psimpl; auto.
    + apply wait_coh_not_wait. intros se0 dl rs. psimpl. rewrite Cc, Bc, Ac, Hc. discriminate.
    + psimpl. congruence.
    + psimpl. congruence.
    + psimpl. congruence.
    + left. psimpl. congruence.
    + exact Sbg.
Qed.

(* what handle_deferred does to the wake-up permit: set when there was a deferred READ *)
Lemma handle_deferred_notify cfg s ns s1 o :
  handle_deferred cfg s ns = (s1, o) ->
  match s_deferred s with None => s_notify s1 = s_notify s | Some _ => s_notify s1 = true end.
Proof.
  unfold handle_deferred. intros H.
  destruct (s_deferred s) as [d|] eqn:Ed; [|inv_pair H; reflexivity].
  destruct (ask_iin2 (upd_notify (upd_deferred s None) true) DbDeferredSelect) as [[s2 iin2] o1] eqn:E1.
  destruct (format_read_response s2 true (df_seq d) (N.lor (df_iin2 d) iin2)) as [[[s3 r] se] o2] eqn:E2.
  destruct (write_solicited s3 (df_from d) r) as [[s4 r'] o3] eqn:E3.
  apply ask_iin2_spec in E1 as [[[Ac [Al [Ad [Ap [An Au]]]]] Ab] S1].
  apply format_read_response_spec in E2 as [[Bc [Bl [Bd [Bp [Bn Bu]]]]] [S2 [Q1 Q2]]].
  apply write_solicited_spec in E3 as [[[Cc [Cl [Cd [Cp [Cn Cu]]]]] Cb] _].
  psimpl_in An. cbv zeta in H.
  match type of H with (match ?c with _ => _ end) = _ => destruct c as [x|] end; inv_pair H; psimpl; congruence.
Qed.

(* ---------- the idle loop: invariants and fuel ------------------------------------------------------------------------- *)

Definition b2nat (b : bool) : nat := if b then 1%nat else 0%nat.
Definition has {A} (o : option A) : bool := match o with Some _ => true | None => false end.

(* what can make run_idle_state go round again *)
Definition potential (s : ostate) : nat :=
  (b2nat (has (s_pending s)) + b2nat (s_notify s) + 2 * b2nat (has (s_deferred s)))%nat.

Definition need (st : stage) (s : ostate) : nat :=
  match st with
  | St1 => 4 * (potential s - b2nat (has (s_pending s))) + 4
  | St2 => 4 * potential s + 3
  | St3 ns => 4 * (potential s + b2nat ns) + 2
  | St4 ns => 4 * (potential s + b2nat ns) + 1
  end%nat.

Lemma need_le_32 st s : (need st s <= 22)%nat.
Proof.
  unfold need, potential. destruct st as [| |ns|ns]; try destruct ns;
    destruct (has (s_pending s)), (s_notify s), (has (s_deferred s)); cbn [b2nat]; lia.
Qed.

(* what holds of a deferred READ when the loop is at a given stage *)
Definition stage_ok (st : stage) (s : ostate) : Prop :=
  match st with
  | St3 _ => s_pending s <> None -> s_deferred s = None
  | _ => s_deferred s = None
  end.

(* where the session blocks: no fragment is held back, a deferred READ exists only in the
   unsolicited confirm wait *)
Definition rest_ok (s : ostate) : Prop :=
  s_pending s = None /\
  (s_deferred s <> None -> exists resp n rt dl, s_control s = CUnsolWait resp n rt dl).

Definition inv1 (cfg : ocfg) (h : list oobs) (s : ostate) : Prop :=
  sol_coh cfg h s /\ unsol_coh cfg h s /\ wait_coh s /\ def_ok cfg s.

Definition inv (cfg : ocfg) (h : list oobs) (s : ostate) : Prop := inv1 cfg h s /\ rest_ok s.

Lemma def_ok_same cfg s s1 : s_deferred s1 = s_deferred s -> def_ok cfg s -> def_ok cfg s1.
Proof. intros E H d Hd. rewrite E in Hd. auto. Qed.

Lemma def_ok_none cfg s : s_deferred s = None -> def_ok cfg s.
Proof. intros E d Hd. congruence. Qed.

Lemma sol_coh_same cfg h s s1 :
  s_last s1 = s_last s -> s_sol_buf s1 = s_sol_buf s -> sol_coh cfg h s -> sol_coh cfg h s1.
Proof. intros E1 E2 H l r Hl Hr. rewrite E2. rewrite E1 in Hl. eauto. Qed.

Lemma idle_run_pres cfg : forall f st s h s' o,
  idle_run f cfg st s = (s', o) -> (need st s <= f)%nat ->
  s_control s = CIdle -> stage_ok st s -> def_ok cfg s -> sol_coh cfg h s ->
  inv cfg (h ++ o) s' /\ forallb no_oof o = true.
Proof.
  induction f as [|f IH]; intros st s h s' o H Hf Hc Hst Hdef Hcoh.
  { exfalso. destruct st; cbn [need] in Hf; lia. }
  cbn [idle_run] in H. destruct st as [| |ns|ns]; cbn [stage_ok] in Hst.
  - (* St1 *)
    destruct (s_pending s) as [[[[[from bc] bytes] d] fid]|] eqn:Ep.
    + destruct (handle_from_idle cfg (upd_pending s None) from bc bytes d fid) as [s1 o1] eqn:Eh.
      apply handle_from_idle_pres with (h := h) in Eh as [A [B [[Cd [Cp [Cn [Cu Cc]]]] D]]];
        [| psimpl; auto | apply sol_coh_same with (s := s); auto].
      psimpl_in Cd. psimpl_in Cp. psimpl_in Cn. psimpl_in Cu. psimpl_in Cc.
      destruct (s_control s1) as [|se dl rs|resp n rt dl] eqn:Ec1.
      * destruct (idle_run f cfg St2 s1) as [s2 o2] eqn:E2. inv_pair H.
        apply IH with (h := h ++ o1) in E2; auto.
        -- rewrite <- app_assoc in E2. destruct E2 as [E2 E3]. split; [exact E2|].
           rewrite forallb_app, (forallb_imp _ _ _ req_no_oof D), E3. reflexivity.
        -- unfold need, potential in *. rewrite Cp, Cn, Cd. rewrite Ep in Hf. cbn [has b2nat] in *. lia.
        -- cbn [stage_ok]. congruence.
        -- eapply def_ok_same; eauto.
      * inv_pair H. split; [|apply (forallb_imp _ _ _ req_no_oof D)].
        split; [split; [exact A | split; [|split; [exact B|]]]|].
        -- apply unsol_coh_vacuous. intros. rewrite Ec1. discriminate.
        -- eapply def_ok_same; eauto.
        -- split; [exact Cp|]. intros X. rewrite Cd, Hst in X. congruence.
      * exfalso. rewrite Hc in Cc. destruct Cc as [X|[se [dl' X]]]; discriminate.
    + rewrite Hc in H. destruct (idle_run f cfg St2 s) as [s2 o2] eqn:E2. inv_pair H.
      apply IH with (h := h) in E2; auto.
      unfold need, potential in *. rewrite Ep in *. cbn [has b2nat] in *. lia.
  - (* St2 *)
    destruct (check_unsolicited cfg s) as [[s2 ns2] o2] eqn:Eu.
    apply check_unsolicited_spec with (h := h) in Eu as [Ul [Ub [Ud [Up [Un [Us [Uc Uk]]]]]]]; auto.
    assert (Hcoh2 : sol_coh cfg (h ++ o2) s2) by (apply sol_coh_frame with (s := s); auto).
    destruct (s_control s2) as [|se dl rs|resp n rt dl] eqn:Ec2.
    + destruct (idle_run f cfg (St3 false) s2) as [s3 o3] eqn:E3. inv_pair H.
      apply IH with (h := h ++ o2) in E3; auto.
      * rewrite <- app_assoc in E3. destruct E3 as [E3 E4]. split; [exact E3|].
        rewrite forallb_app, (forallb_imp _ _ _ ustart_no_oof Us), E4. reflexivity.
      * unfold need, potential in *. rewrite Up, Un, Ud. cbn [b2nat]. lia.
      * cbn [stage_ok]. intros _. congruence.
      * eapply def_ok_same; eauto.
    + exfalso. destruct Uk as [X|[r1 [n [rt [dl' X]]]]]; discriminate.
    + destruct (s_pending s2) as [[[[[from bc] bytes] d] fid]|] eqn:Ep2.
      * destruct (unsol_wait_fragment cfg (upd_pending s2 None) resp from bc bytes d fid) as [[s3 res] o3] eqn:Ew.
        pose proof (unsol_wait_fragment_def_ok _ _ _ _ _ _ _ _ _ _ _ Ew) as Hdef3.
        apply unsol_wait_fragment_pres with (h := h ++ o2) in Ew as [A [[Wc [Wp [Wn Wu]]] [D Wd]]];
          [| apply sol_coh_same with (s := s2); auto].
        psimpl_in Wc. psimpl_in Wp. psimpl_in Wn. psimpl_in Wu. psimpl_in Wd.
        assert (Hd3 : def_ok cfg s3).
        { apply Hdef3. apply def_ok_same with (s := s); auto. }
        destruct res as [r|].
        -- destruct (end_unsol cfg s3 n r) as [[s4 ns4] o4] eqn:Ee.
           apply end_unsol_spec in Ee as [[[Ec [El [Ed [Ep4 [En Eu']]]]] Eb] Se].
           psimpl_in Ec. psimpl_in El. psimpl_in Ed. psimpl_in Ep4. psimpl_in En. psimpl_in Eu'. psimpl_in Eb.
           destruct (idle_run f cfg (St3 ns4) s4) as [s5 o5] eqn:E5. inv_pair H.
           apply IH with (h := (h ++ o2 ++ o3) ++ o4) in E5; auto.
           ++ rewrite <- !app_assoc in E5. destruct E5 as [E5 E6]. split; [exact E5|].
              rewrite !forallb_app, (forallb_imp _ _ _ ustart_no_oof Us), (forallb_imp _ _ _ req_no_oof D),
                (forallb_imp _ _ _ dbq_no_oof Se), E6. reflexivity.
           ++ assert (Hd0 : s_deferred s4 = None).
              { rewrite Ed. destruct Wd as [X|X]; [discriminate| |exact X]. rewrite X, Ud. exact Hst. }
              unfold need, potential in *. rewrite Ep4, Wp, En, Wn, Un, Hd0. rewrite <- Up in Hf.
              cbn [has b2nat] in *. destruct ns4; cbn [b2nat]; lia.
           ++ cbn [stage_ok]. intros X. rewrite Ep4, Wp in X. congruence.
           ++ eapply def_ok_same; eauto.
           ++ apply sol_coh_frame with (s := s3); auto. rewrite app_assoc. exact A.
        -- inv_pair H. split.
           ++ split; [split; [rewrite app_assoc; exact A | split; [|split]]|].
              ** rewrite app_assoc. apply unsol_coh_frame with (s := s2); auto.
                 apply (forallb_imp _ _ _ req_neu D).
              ** apply wait_coh_not_wait. intros. rewrite Wc, Ec2. discriminate.
              ** exact Hd3.
              ** split; [exact Wp|]. intros _. rewrite Wc, Ec2. eauto.
           ++ rewrite forallb_app, (forallb_imp _ _ _ ustart_no_oof Us), (forallb_imp _ _ _ req_no_oof D). reflexivity.
      * inv_pair H. split; [|apply (forallb_imp _ _ _ ustart_no_oof Us)].
        split; [split; [exact Hcoh2 | split; [exact Uc | split]]|].
        -- apply wait_coh_not_wait. intros. rewrite Ec2. discriminate.
        -- eapply def_ok_same; eauto.
        -- split; [exact Ep2|]. intros _. rewrite Ec2. eauto.
  - (* St3 *)
    destruct (handle_deferred cfg s ns) as [s3 o3] eqn:Ed.
    pose proof (handle_deferred_notify _ _ _ _ _ Ed) as Hn.
    pose proof Ed as Ed'.
    apply handle_deferred_pres with (h := h) in Ed as [A [B [Dd [Dp [Du [Dc D]]]]]]; auto.
    destruct (s_control s3) as [|se dl rs|resp n rt dl] eqn:Ec3.
    + destruct (idle_run f cfg (St4 ns) s3) as [s4 o4] eqn:E4. inv_pair H.
      apply IH with (h := h ++ o3) in E4; auto.
      * rewrite <- app_assoc in E4. destruct E4 as [E4 E5]. split; [exact E4|].
        rewrite forallb_app, (forallb_imp _ _ _ rd_no_oof D), E5. reflexivity.
      * unfold need, potential in *. rewrite Dp, Dd.
        destruct (s_deferred s); rewrite Hn; cbn [has b2nat] in *; destruct (s_notify s); cbn [b2nat] in *; lia.
      * apply def_ok_none; exact Dd.
    + inv_pair H. split; [|apply (forallb_imp _ _ _ rd_no_oof D)].
      split; [split; [exact A | split; [|split; [exact B|]]]|].
      * apply unsol_coh_vacuous. intros. rewrite Ec3. discriminate.
      * apply def_ok_none; exact Dd.
      * split; [|intros X; congruence]. rewrite Dp.
        destruct (s_pending s) eqn:Ep; [|reflexivity]. exfalso.
        rewrite handle_deferred_none in Ed' by (apply Hst; discriminate). inv_pair Ed'. congruence.
    + exfalso. destruct Dc as [X|[se [dl' X]]]; discriminate.
  - (* St4 *)
    destruct (s_pending s) as [p|] eqn:Ep.
    + apply IH with (h := h) in H; auto.
      unfold need, potential in *. rewrite Ep in *. cbn [has b2nat] in *. lia.
    + destruct ns.
      * apply IH with (h := h) in H; auto.
        unfold need, potential in *. rewrite Ep in *. cbn [has b2nat] in *. lia.
      * destruct (s_notify s) eqn:En.
        -- apply IH with (h := h) in H; auto.
           unfold need, potential in *. psimpl. rewrite Ep in *. rewrite En in Hf. cbn [has b2nat] in *. lia.
        -- inv_pair H. split; [|reflexivity]. rewrite app_nil_r.
           split; [split; [exact Hcoh | split; [|split; [|exact Hdef]]]|].
           ++ apply unsol_coh_vacuous. intros. rewrite Hc. discriminate.
           ++ apply wait_coh_not_wait. intros. rewrite Hc. discriminate.
           ++ split; [exact Ep|]. intros X. congruence.
Qed.

(* ---------- the idle loop with nothing in the reader: nothing is executed -------------------------------------------- *)

Lemma check_unsolicited_pending cfg s s1 ns o :
  check_unsolicited cfg s = (s1, ns, o) -> s_pending s1 = s_pending s /\ forallb ustart o = true.
Proof.
  unfold check_unsolicited. intros H.
  assert (Hstart : forall s0 r is_null s1' o', start_unsol cfg s0 r is_null = (s1', o') ->
            s_pending s1' = s_pending s0 /\ forallb ustart o' = true).
  { intros s0 r is_null s1' o' Hs. apply start_unsol_spec with (h := []) in Hs as [[[_ [_ [_ [Gp _]]]] _] [S _]].
    psimpl_in Gp. auto. }
  destruct (negb (o_unsol cfg)); [inv_pair H; auto|].
  destruct (s_unsol s) as [|deadline].
  - match type of H with context [start_unsol cfg ?a ?b ?c] => destruct (start_unsol cfg a b c) as [s3 o3] eqn:Es end.
    inv_pair H. apply Hstart in Es as [A B]. psimpl_in A. auto.
  - destruct (negb match deadline with Some t => (t <=? s_now s)%Z | None => true end); [inv_pair H; auto|].
    destruct (negb (any_enabled s)); [inv_pair H; auto|].
    destruct (ask_unsol s) as [s0 [count body]] eqn:Ea. apply ask_unsol_spec in Ea as [[_ [_ [_ [Fp _]]]] _].
    destruct (s_enabled s) as [[c1 c2] c3].
    destruct (count =? 0); [inv_pair H; auto|].
    match type of H with context [start_unsol cfg ?a ?b ?c] => destruct (start_unsol cfg a b c) as [s3 o3] eqn:Es end.
    inv_pair H. apply Hstart in Es as [A B]. psimpl_in A. split; [congruence|]. cbn [forallb ustart]. exact B.
Qed.

Lemma handle_deferred_shape cfg s ns s1 o :
  handle_deferred cfg s ns = (s1, o) -> s_pending s1 = s_pending s /\ forallb rd_obs o = true.
Proof.
  unfold handle_deferred. intros H.
  destruct (s_deferred s) as [d|] eqn:Ed; [|inv_pair H; auto].
  destruct (ask_iin2 (upd_notify (upd_deferred s None) true) DbDeferredSelect) as [[s2 iin2] o1] eqn:E1.
  destruct (format_read_response s2 true (df_seq d) (N.lor (df_iin2 d) iin2)) as [[[s3 r] se] o2] eqn:E2.
  destruct (write_solicited s3 (df_from d) r) as [[s4 r'] o3] eqn:E3.
  apply ask_iin2_spec in E1 as [[[Ac [Al [Ad [Ap [An Au]]]]] Ab] S1].
  apply format_read_response_spec in E2 as [[Bc [Bl [Bd [Bp [Bn Bu]]]]] [S2 _]].
  apply write_solicited_spec in E3 as [[[Cc [Cl [Cd [Cp [Cn Cu]]]]] Cb] [_ [_ [_ [o' [-> S3]]]]]].
  psimpl_in Ap. cbv zeta in H.
  assert (Sbg : forallb rd_obs (o1 ++ o2 ++ o' ++ [OTx (df_from d) (response_bytes r' (s_sol_buf s4))]) = true).
  { rewrite !forallb_app, (forallb_imp _ _ _ dbq_rd S1), (forallb_imp _ _ _ dbq_rd S2), (forallb_imp _ _ _ dbq_rd S3). reflexivity. }
  match type of H with (match ?c with _ => _ end) = _ => destruct c as [x|] end; inv_pair H; psimpl.
  - split; [congruence|]. rewrite !app_assoc, forallb_app. rewrite <- !app_assoc, Sbg. reflexivity.
  - split; [congruence|]. exact Sbg.
Qed.

Lemma idle_run_bg cfg : forall f st s s' o,
  idle_run f cfg st s = (s', o) -> s_pending s = None ->
  s_pending s' = None /\ forallb bg o = true.
Proof.
  induction f as [|f IH]; intros st s s' o H Hp.
  { cbn [idle_run] in H. inv_pair H. auto. }
  cbn [idle_run] in H. destruct st as [| |ns|ns].
  - rewrite Hp in H. destruct (s_control s); [|inv_pair H; auto..].
    destruct (idle_run f cfg St2 s) as [s2 o2] eqn:E2. inv_pair H. eapply IH; eauto.
  - destruct (check_unsolicited cfg s) as [[s2 ns2] o2] eqn:Eu.
    apply check_unsolicited_pending in Eu as [Up Us]. rewrite Hp in Up.
    apply (forallb_imp _ _ _ ustart_bg) in Us.
    destruct (s_control s2).
    + destruct (idle_run f cfg (St3 false) s2) as [s3 o3] eqn:E3. inv_pair H.
      apply IH in E3 as [A B]; auto. split; [exact A|]. fb.
    + inv_pair H. auto.
    + rewrite Up in H. inv_pair H. auto.
  - destruct (handle_deferred cfg s ns) as [s3 o3] eqn:Ed.
    apply handle_deferred_shape in Ed as [Dp D]. rewrite Hp in Dp.
    apply (forallb_imp _ _ _ rd_bg) in D.
    destruct (s_control s3); [|inv_pair H; auto..].
    destruct (idle_run f cfg (St4 ns) s3) as [s4 o4] eqn:E4. inv_pair H.
    apply IH in E4 as [A B]; auto. split; [exact A|]. fb.
  - rewrite Hp in H. destruct ns; [eapply IH; eauto|].
    destruct (s_notify s); [eapply IH; eauto|]. inv_pair H. auto.
Qed.

(* ---------- deadlines ---------------------------------------------------------------------------------------------------- *)

Lemma end_unsol_bg cfg s is_null res s1 ns o :
  end_unsol cfg s is_null res = (s1, ns, o) -> s_pending s1 = s_pending s /\ forallb bg o = true.
Proof.
  intros H. apply end_unsol_spec in H as [[[_ [_ [_ [Fp _]]]] _] S]. psimpl_in Fp.
  split; [exact Fp | apply (forallb_imp _ _ _ dbq_bg S)].
Qed.

Lemma fire_deadline_bg cfg s s' o :
  fire_deadline cfg s = (s', o) -> s_pending s = None -> s_pending s' = None /\ forallb bg o = true.
Proof.
  unfold fire_deadline, resume_at. intros H Hp.
  destruct (s_control s) as [|se dl r|resp is_null retries dl].
  - eapply idle_run_bg; eauto.
  - destruct (idle_run 32 cfg (stage_of r) (upd_control s CIdle)) as [s1 o1] eqn:E. inv_pair H.
    apply idle_run_bg in E as [A B]; auto.
  - match type of H with (if ?c then _ else _) = _ => destruct c end.
    + inv_pair H. split; [exact Hp | reflexivity].
    + destruct (end_unsol cfg s is_null UrTimeout) as [[s1 ns] o1] eqn:Ee.
      apply end_unsol_bg in Ee as [Ep Se]. rewrite Hp in Ep.
      destruct (idle_run 32 cfg (St3 ns) s1) as [s2 o2] eqn:E. inv_pair H.
      apply idle_run_bg in E as [A B]; auto. split; [exact A|]. cbn [app forallb bg]. fb.
Qed.

Lemma advance_bg cfg : forall f s target s' o,
  advance f cfg s target = (s', o) -> s_pending s = None -> s_pending s' = None /\ forallb bg o = true.
Proof.
  induction f as [|f IH]; intros s target s' o H Hp; cbn [advance] in H.
  { inv_pair H. auto. }
  destruct (next_deadline cfg s) as [d|]; [|inv_pair H; auto].
  destruct (d <=? target)%Z; [|inv_pair H; auto].
  destruct (fire_deadline cfg (upd_now s (Z.max d (s_now s)))) as [s1 o1] eqn:Ef.
  destruct (advance f cfg s1 target) as [s2 o2] eqn:Ea. inv_pair H.
  apply fire_deadline_bg in Ef as [A B]; auto. apply IH in Ea as [C D]; auto.
  split; [exact C|]. cbn [forallb bg]. fb.
Qed.

(* ---------- the invariant through deadlines ---------------------------------------------------------------------------- *)

Lemma inv_same' cfg h s s1 :
  s_control s1 = s_control s -> s_last s1 = s_last s -> s_deferred s1 = s_deferred s ->
  s_pending s1 = s_pending s -> s_unsol_buf s1 = s_unsol_buf s -> s_sol_buf s1 = s_sol_buf s ->
  inv cfg h s -> inv cfg h s1.
Proof.
  intros Fc Fl Fd Fp Fu Fb [[A [B [C D]]] [E1 E2]].
  split; [split; [|split; [|split]]|split].
  - apply sol_coh_same with (s := s); auto.
  - intros resp n rt dl Hc. rewrite Fc in Hc. rewrite Fu. eauto.
  - apply wait_coh_frame with (s := s); auto.
  - apply def_ok_same with (s := s); auto.
  - congruence.
  - rewrite Fd, Fc. exact E2.
Qed.

Lemma inv_same cfg h s s1 : frame s s1 -> inv cfg h s -> inv cfg h s1.
Proof. intros [[Fc [Fl [Fd [Fp [Fn Fu]]]]] Fb]. apply inv_same'; assumption. Qed.

Lemma idle_loop_8_eq cfg s : idle_loop 8 cfg s = resume_at cfg St1 s.
Proof.
  unfold idle_loop, resume_at. assert (E : (4 * 8 = 32)%nat) by reflexivity. rewrite E. reflexivity.
Qed.

Lemma resume_pres cfg h st s s' o pre :
  resume_at cfg st s = (s', o) ->
  s_control s = CIdle -> stage_ok st s -> def_ok cfg s -> sol_coh cfg (h ++ pre) s ->
  inv cfg (h ++ pre ++ o) s'.
Proof.
  unfold resume_at. intros H Hc Hst Hd Hcoh.
  apply idle_run_pres with (h := h ++ pre) in H as [A _]; auto.
  - rewrite <- app_assoc in A. exact A.
  - pose proof (need_le_32 st s). lia.
Qed.

Lemma rest_ok_deferred_none s :
  rest_ok s -> (forall resp n rt dl, s_control s <> CUnsolWait resp n rt dl) -> s_deferred s = None.
Proof.
  intros [_ H] Hc. destruct (s_deferred s) eqn:E; [|reflexivity].
  destruct H as [resp [n [rt [dl X]]]]; [discriminate|]. destruct (Hc _ _ _ _ X).
Qed.

Lemma stage_ok_of_none st s : s_deferred s = None -> stage_ok st s.
Proof. destruct st; cbn [stage_ok]; auto. Qed.

Lemma fire_deadline_pres cfg h s s' o :
  fire_deadline cfg s = (s', o) -> inv cfg h s -> inv cfg (h ++ o) s'.
Proof.
  unfold fire_deadline. intros H Hinv.
  destruct (s_control s) as [|se dl r|resp is_null retries dl] eqn:Ec;
    pose proof Hinv as [[A [B [C D]]] [E1 E2]].
  - apply resume_pres with (h := h) (pre := []) in H; auto.
    + apply stage_ok_of_none. apply rest_ok_deferred_none; [split; auto|]. intros. rewrite Ec. discriminate.
    + rewrite app_nil_r. exact A.
  - destruct (resume_at cfg (stage_of r) (upd_control s CIdle)) as [s1 o1] eqn:E. inv_pair H.
    apply resume_pres with (h := h) (pre := [OInfo (ISolTimeout (se_ecsn se)); ODb DbReset]) in E; auto.
    + apply stage_ok_of_none. psimpl. apply rest_ok_deferred_none; [split; auto|]. intros. rewrite Ec. discriminate.
    + apply sol_coh_frame with (s := s); auto.
  - match type of H with (if ?c then _ else _) = _ => destruct c end.
    + inv_pair H. unfold repeat_unsolicited. split; [split; [|split; [|split]]|split].
      * apply sol_coh_frame with (s := s); auto.
      * intros resp' n rt' dl' Hc. psimpl_in Hc. inversion Hc; subst. psimpl.
        destruct (B _ _ _ _ Ec) as [B1 B2]. split; [|exact B2]. apply opened_by_app; [reflexivity | exact B1].
      * apply wait_coh_not_wait. intros. psimpl. discriminate.
      * exact D.
      * exact E1.
      * intros _. psimpl. eauto.
    + destruct (end_unsol cfg s is_null UrTimeout) as [[s1 ns] o1] eqn:Ee.
      apply end_unsol_spec in Ee as [[[Fc [Fl [Fd [Fp [Fn Fu]]]]] Fb] Se].
      psimpl_in Fc. psimpl_in Fl. psimpl_in Fd. psimpl_in Fp. psimpl_in Fn. psimpl_in Fb.
      destruct (resume_at cfg (St3 ns) s1) as [s2 o2] eqn:E. inv_pair H.
      apply resume_pres with (h := h) (pre := [OInfo (IUnsolTimeout (ctl_seq (r_ctl resp)) false)] ++ o1) in E; auto.
      * cbn [stage_ok]. intros X. congruence.
      * apply def_ok_same with (s := s); auto.
      * apply sol_coh_frame with (s := s); auto.
Qed.

Lemma inv_upd_now cfg h s t : inv cfg h s -> inv cfg h (upd_now s t).
Proof. apply inv_same. frame_tac. Qed.

Lemma advance_pres cfg : forall f s target h s' o,
  advance f cfg s target = (s', o) -> inv cfg h s -> inv cfg (h ++ o) s'.
Proof.
  induction f as [|f IH]; intros s target h s' o H Hinv; cbn [advance] in H.
  { inv_pair H. apply inv_upd_now. destruct Hinv as [[A [B [C D]]] E]. split; [split; [|split; [|split]]|]; auto.
    - apply sol_coh_frame with (s := s); auto.
    - apply unsol_coh_frame with (s := s); auto. }
  assert (Hstay : inv cfg (h ++ []) (upd_now s target)) by (rewrite app_nil_r; apply inv_upd_now; exact Hinv).
  destruct (next_deadline cfg s) as [d|]; [|inv_pair H; exact Hstay].
  destruct (d <=? target)%Z; [|inv_pair H; exact Hstay].
  destruct (fire_deadline cfg (upd_now s (Z.max d (s_now s)))) as [s1 o1] eqn:Ef.
  destruct (advance f cfg s1 target) as [s2 o2] eqn:Ea. inv_pair H.
  apply fire_deadline_pres with (h := h ++ [OAt (Z.max d (s_now s))]) in Ef.
  - apply IH with (h := (h ++ [OAt (Z.max d (s_now s))]) ++ o1) in Ea; auto.
    rewrite <- !app_assoc in Ea. exact Ea.
  - apply inv_upd_now. destruct Hinv as [[A [B [C D]]] E]. split; [split; [|split; [|split]]|]; auto.
    + apply sol_coh_frame with (s := s); auto.
    + apply unsol_coh_frame with (s := s); auto.
Qed.

(* ---------- a received fragment ------------------------------------------------------------------------------------------- *)

Lemma sol_wait_fragment_spec cfg s se dl from bc bytes d out o :
  sol_wait_fragment cfg s se dl from bc bytes d = (out, o) ->
  forallb bg o = true /\ forallb not_enter_unsol o = true /\
  (forall rt, out = SoConfirmed rt -> rt = from /\ (o_any_master cfg = false -> from = o_master cfg)).
Proof.
  unfold sol_wait_fragment. intros H.
  destruct (to_treq cfg from d) as [|q|ctl fn obj] eqn:Et.
  - inv_pair H. splits; auto. discriminate.
  - inv_pair H. splits; auto. discriminate.
  - pose proof (to_treq_from _ _ _ _ _ _ Et) as Hfrom.
    destruct (classify s bc bytes ctl fn obj) as [iin2|hdrs rh|resp hdrs rh|hdrs|resp|m|q|q];
      try (inv_pair H; splits; auto; discriminate).
    + inv_pair H. unfold repeat_solicited. destruct resp; splits; auto; discriminate.
    + destruct (q =? se_ecsn se); inv_pair H; splits; auto; try discriminate.
      intros rt X. inversion X; subst. auto.
Qed.

Lemma inv_sol_coh_app cfg h s o : sol_coh cfg h s -> sol_coh cfg (h ++ o) s.
Proof. apply sol_coh_frame; reflexivity. Qed.

Lemma on_rx_pres cfg h s from bc bytes d s' o :
  on_rx cfg s from bc bytes d = (s', o) -> inv cfg h s -> inv cfg (h ++ o) s'.
Proof.
  unfold on_rx. cbv zeta. intros H Hinv.
  set (fid := (s_frame_id s + 1) mod 4294967296) in *.
  set (s0 := upd_frame_id s fid) in *.
  assert (Hinv0 : inv cfg h s0) by (apply inv_same with (s := s); [subst s0; frame_tac | exact Hinv]).
  clearbody s0. clear Hinv.
  destruct (s_control s0) as [|se dl r|resp is_null retries dl] eqn:Ec;
    pose proof Hinv0 as [[A [B [C D]]] [E1 E2]].
  - (* idle *)
    rewrite idle_loop_8_eq in H.
    apply resume_pres with (h := h) (pre := []) in H; auto.
    + apply stage_ok_of_none. psimpl. apply rest_ok_deferred_none; [split; auto|]. intros ? ? ? ? X. rewrite Ec in X. discriminate.
    + rewrite app_nil_r. apply sol_coh_same with (s := s0); auto.
  - (* solicited confirm wait *)
    assert (Hdn : s_deferred s0 = None).
    { apply rest_ok_deferred_none; [split; auto|]. intros ? ? ? ? X. rewrite Ec in X. discriminate. }
    destruct (sol_wait_fragment cfg s0 se dl from bc bytes d) as [out o1] eqn:Ew.
    apply sol_wait_fragment_spec in Ew as [S1 [S2 Hrt]].
    destruct out as [dl'|rt|].
    + inv_pair H. split; [split; [|split; [|split]]|split]; psimpl; auto.
      * apply sol_coh_frame with (s := s0); auto.
      * apply unsol_coh_vacuous. intros. psimpl. discriminate.
      * intros se0 dl0 rs0 X. psimpl_in X. inversion X; subst. psimpl. eapply C; eauto.
      * intros X. congruence.
    + destruct (Hrt _ eq_refl) as [-> Hfrom].
      destruct (se_fin se).
      * destruct (resume_at cfg (stage_of r) (upd_control (upd_last_bcast s0 None) CIdle)) as [s2 o2] eqn:E.
        inv_pair H.
        apply resume_pres with (h := h) (pre := o1 ++ [ODb DbClearWritten]) in E; auto.
        -- rewrite <- !app_assoc in E. exact E.
        -- apply stage_ok_of_none. psimpl. exact Hdn.
        -- apply sol_coh_frame with (s := s0); auto.
      * destruct (format_read_response (upd_last_bcast s0 None) false (seq16_next (se_ecsn se)) 0)
          as [[[s2 rsp] next] o2] eqn:Ef.
        destruct (write_solicited s2 from rsp) as [[s3 rsp'] o3] eqn:Es.
        apply format_read_response_spec in Ef as [[Fc [Fl [Fd [Fp [Fn Fu]]]]] [Sf [Q1 Q2]]].
        apply write_solicited_spec in Es as [[[Gc [Gl [Gd [Gp [Gn Gu]]]]] Gb] [_ [_ [Hq [o' [-> Ss]]]]]].
        psimpl_in Fc. psimpl_in Fl. psimpl_in Fd. psimpl_in Fp. psimpl_in Fn. psimpl_in Fu.
        destruct (C _ _ _ Ec) as [l0 [r0 [Hl0 [Hr0 _]]]].
        assert (Hl3 : s_last s3 = Some l0) by congruence. rewrite Hl3 in H.
        set (s4 := upd_last s3 (Some {| lr_seq := lr_seq l0; lr_bytes := lr_bytes l0;
                                        lr_response := Some rsp'; lr_series := lr_series l0 |})) in *.
        assert (Hcoh4 : forall o4, sol_coh cfg (h ++ o1 ++ [ODb DbClearWritten] ++ o2 ++ (o' ++ [OTx from (response_bytes rsp' (s_sol_buf s3))]) ++ o4) s4).
        { intros o4 l rx Hl Hr. subst s4. psimpl_in Hl. inversion Hl; subst l. cbn [lr_response] in Hr.
          inversion Hr; subst rx. psimpl. exists from. split; [|exact Hfrom].
          rewrite ?in_app_iff. cbn [In]. tauto. }
        destruct next as [n|].
        -- inv_pair H. specialize (Hcoh4 []). rewrite app_nil_r in Hcoh4.
           split; [split; [exact Hcoh4|split; [|split]]|split]; subst s4; psimpl.
           ++ apply unsol_coh_vacuous. intros. psimpl. discriminate.
           ++ intros se0 dl0 rs0 X. psimpl_in X. inversion X; subst. psimpl.
              eexists _, rsp'. split; [reflexivity|]. split; [reflexivity|].
              rewrite Hq, Q1, (Q2 _ eq_refl). unfold seq16_next. lia.
           ++ apply def_ok_none. psimpl. congruence.
           ++ congruence.
           ++ intros X. congruence.
        -- destruct (resume_at cfg (stage_of r) (upd_control s4 CIdle)) as [s5 o5] eqn:E. inv_pair H.
           apply resume_pres with (h := h)
             (pre := o1 ++ [ODb DbClearWritten] ++ o2 ++ (o' ++ [OTx from (response_bytes rsp' (s_sol_buf s3))])) in E; auto.
           ++ rewrite <- !app_assoc in E. rewrite <- !app_assoc. exact E.
           ++ apply stage_ok_of_none. subst s4. psimpl. congruence.
           ++ apply def_ok_none. subst s4. psimpl. congruence.
           ++ specialize (Hcoh4 []). rewrite app_nil_r in Hcoh4.
              apply sol_coh_same with (s := s4); auto.
    + destruct (resume_at cfg (stage_of r) (upd_pending (upd_control s0 CIdle) (Some (from, bc, bytes, d, fid))))
        as [s2 o2] eqn:E. inv_pair H.
      apply resume_pres with (h := h) (pre := o1 ++ [ODb DbReset]) in E; auto.
      * rewrite <- !app_assoc in E. exact E.
      * apply stage_ok_of_none. psimpl. exact Hdn.
      * apply sol_coh_frame with (s := s0); auto.
  - (* unsolicited confirm wait *)
    destruct (unsol_wait_fragment cfg s0 resp from bc bytes d fid) as [[s1 res] o1] eqn:Ew.
    pose proof (unsol_wait_fragment_def_ok _ _ _ _ _ _ _ _ _ _ _ Ew D) as Hd1.
    apply unsol_wait_fragment_pres with (h := h) in Ew as [A1 [[Wc [Wp [Wn Wu]]] [S1 Wd]]]; auto.
    destruct res as [r|].
    + destruct (end_unsol cfg s1 is_null r) as [[s2 ns] o2] eqn:Ee.
      apply end_unsol_spec in Ee as [[[Fc [Fl [Fd [Fp [Fn Fu]]]]] Fb] Se].
      psimpl_in Fc. psimpl_in Fl. psimpl_in Fd. psimpl_in Fp. psimpl_in Fn. psimpl_in Fb.
      destruct (resume_at cfg (St3 ns) s2) as [s3 o3] eqn:E. inv_pair H.
      apply resume_pres with (h := h) (pre := o1 ++ o2) in E; auto.
      * rewrite <- !app_assoc in E. exact E.
      * cbn [stage_ok]. intros X. congruence.
      * apply def_ok_same with (s := s1); auto.
      * rewrite app_assoc. apply sol_coh_frame with (s := s1); auto.
    + inv_pair H. split; [split; [exact A1|split; [|split]]|split].
      * apply unsol_coh_frame with (s := s0); auto. apply (forallb_imp _ _ _ req_neu S1).
      * apply wait_coh_not_wait. intros ? ? ? X. rewrite Wc, Ec in X. discriminate.
      * exact Hd1.
      * congruence.
      * intros _. rewrite Wc, Ec. eauto.
Qed.

(* ---------- one step, and reachable states ------------------------------------------------------------------------------------ *)

Lemma inv_app_quiet cfg h s o :
  forallb not_enter_unsol o = true -> inv cfg h s -> inv cfg (h ++ o) s.
Proof.
  intros So [[A [B [C D]]] E]. split; [split; [|split; [|split]]|]; auto.
  - apply sol_coh_frame with (s := s); auto.
  - apply unsol_coh_frame with (s := s); auto.
Qed.

Lemma idle_loop_pres cfg h s s' o pre :
  idle_loop 8 cfg s = (s', o) ->
  s_control s = CIdle -> s_deferred s = None -> sol_coh cfg (h ++ pre) s ->
  inv cfg (h ++ pre ++ o) s'.
Proof.
  rewrite idle_loop_8_eq. intros H Hc Hd Hcoh.
  eapply resume_pres; eauto. apply def_ok_none; exact Hd.
Qed.

Lemma ostep_pres cfg h s ev ans s' o :
  ostep cfg s ev ans = (s', o) -> inv cfg h s -> inv cfg (h ++ o) s'.
Proof.
  unfold ostep. intros H Hinv.
  assert (Hinv0 : inv cfg h (upd_answers s ans)) by (apply inv_same with (s := s); [frame_tac | exact Hinv]).
  set (s0 := upd_answers s ans) in *. clearbody s0. clear Hinv.
  destruct ev as [from bc bytes d|ms| |sel op|v|].
  - destruct (on_rx cfg s0 from bc bytes d) as [s1 o1] eqn:E1.
    destruct (advance 64 cfg s1 (s_now s1 + settle_ms)) as [s2 o2] eqn:E2. inv_pair H.
    apply on_rx_pres with (h := h) in E1; auto. apply advance_pres with (h := h ++ o1) in E2; auto.
    rewrite <- app_assoc in E2. exact E2.
  - destruct (advance 4096 cfg s0 (s_now s0 + ms)) as [s2 o2] eqn:E2. inv_pair H.
    eapply advance_pres; eauto.
  - destruct (s_control s0) as [|se dl r|resp is_null retries dl] eqn:Ec;
      pose proof Hinv0 as [[A [B [C D]]] [E1 E2]].
    + destruct (idle_loop 8 cfg s0) as [s1 o1] eqn:El.
      destruct (advance 64 cfg s1 (s_now s1 + settle_ms)) as [s2 o2] eqn:Ea. inv_pair H.
      assert (Hd0 : s_deferred s0 = None).
      { apply rest_ok_deferred_none; [split; auto|]. intros ? ? ? ? X. rewrite Ec in X. discriminate. }
      assert (Hc0 : sol_coh cfg (h ++ []) s0) by (rewrite app_nil_r; exact A).
      apply idle_loop_pres with (h := h) (pre := []) in El; auto.
      apply advance_pres with (h := h ++ o1) in Ea; auto. rewrite <- app_assoc in Ea. exact Ea.
    + destruct (advance 64 cfg (upd_notify s0 true) (s_now (upd_notify s0 true) + settle_ms)) as [s2 o2] eqn:Ea.
      inv_pair H. apply advance_pres with (h := h) in Ea; [exact Ea|].
      apply inv_same' with (s := s0); try reflexivity; exact Hinv0.
    + destruct (advance 64 cfg (upd_notify s0 true) (s_now (upd_notify s0 true) + settle_ms)) as [s2 o2] eqn:Ea.
      inv_pair H. apply advance_pres with (h := h) in Ea; [exact Ea|].
      apply inv_same' with (s := s0); try reflexivity; exact Hinv0.
  - inv_pair H. rewrite app_nil_r. apply inv_same with (s := s0); [frame_tac | exact Hinv0].
  - inv_pair H. rewrite app_nil_r. apply inv_same with (s := s0); [frame_tac | exact Hinv0].
  - destruct (idle_loop 8 cfg (upd_pending (upd_control (session_reset s0) CIdle) None)) as [s2 o2] eqn:El.
    destruct (advance 64 cfg s2 (s_now s2 + settle_ms)) as [s3 o3] eqn:Ea. inv_pair H.
    assert (Hc0 : sol_coh cfg (h ++ [ODb DbReset; OSessionEnd]) (upd_pending (upd_control (session_reset s0) CIdle) None)).
    { intros l r X. psimpl_in X. discriminate. }
    apply idle_loop_pres with (h := h) (pre := [ODb DbReset; OSessionEnd]) in El; auto.
    apply advance_pres with (h := h ++ [ODb DbReset; OSessionEnd] ++ o2) in Ea; auto.
    rewrite <- !app_assoc in Ea. exact Ea.
Qed.

Lemma ostart_inv cfg sel op iin a s o : ostart cfg sel op iin a = (s, o) -> inv cfg o s.
Proof.
  unfold ostart. intros H.
  apply idle_loop_pres with (h := []) (pre := []) in H; auto.
  intros l r X. psimpl_in X. discriminate.
Qed.


(* ---------- classification of a repeated request --------------------------------------------------------------------------- *)

Lemma classify_last s s1 bc bytes ctl fn obj :
  s_last s1 = s_last s -> classify s1 bc bytes ctl fn obj = classify s bc bytes ctl fn obj.
Proof. unfold classify. intros ->. reflexivity. Qed.

Lemma bytes_eqb_eq a : forall b, bytes_eqb a b = true <-> a = b.
Proof.
  induction a as [|x a IH]; intros [|y b]; cbn [bytes_eqb]; split; intros H; try discriminate; auto.
  - apply andb_true_iff in H as [H1 H2]. apply N.eqb_eq in H1. apply IH in H2. congruence.
  - inversion H; subst. rewrite N.eqb_refl. cbn [andb]. apply IH. reflexivity.
Qed.

(* FtRepeatNonRead: the fragment is, byte for byte and with the same sequence number, the request
   recorded last, and its function is neither CONFIRM nor READ *)
Lemma classify_repeat_nonread_iff s bytes ctl fn obj resp :
  classify s None bytes ctl fn obj = FtRepeatNonRead resp <->
  fn <> fn_confirm /\ fn <> fn_read /\ (exists hdrs rh, obj = ObjOk hdrs rh) /\
  exists l, s_last s = Some l /\ lr_seq l = ctl_seq ctl /\ lr_bytes l = bytes /\ resp = lr_response l.
Proof.
  unfold classify. split.
  - destruct (fn =? fn_confirm) eqn:E0; [destruct (ctl_uns ctl); discriminate|].
    destruct obj as [iin2|hdrs rh]; [discriminate|].
    destruct (s_last s) as [l|]; [|destruct (fn =? fn_read); discriminate].
    destruct ((lr_seq l =? ctl_seq ctl) && bytes_eqb (lr_bytes l) bytes) eqn:Er;
      [|destruct (fn =? fn_read); discriminate].
    destruct (fn =? fn_read) eqn:E1; [discriminate|]. intros H. inversion H; subst.
    apply andb_true_iff in Er as [Er1 Er2]. apply N.eqb_eq in Er1. apply bytes_eqb_eq in Er2.
    apply N.eqb_neq in E0. apply N.eqb_neq in E1. splits; eauto 10.
  - intros [H0 [H1 [[hdrs [rh ->]] [l [Hl [Hs [Hb ->]]]]]]].
    apply N.eqb_neq in H0. apply N.eqb_neq in H1. rewrite H0, H1, Hl, Hs, N.eqb_refl.
    cbn [andb]. destruct (bytes_eqb (lr_bytes l) bytes) eqn:E; [reflexivity|].
    exfalso. assert (X : bytes_eqb (lr_bytes l) bytes = true) by (apply bytes_eqb_eq; exact Hb). congruence.
Qed.

(* ---------- what a repeated non-READ request produces ------------------------------------------------------------------------ *)

Definition echo_of (s : ostate) (from : N) (resp : option response) : list oobs :=
  match resp with Some r => [OTx from (response_bytes r (s_sol_buf s))] | None => [] end.

Lemma echo_of_buf s s1 from resp : s_sol_buf s1 = s_sol_buf s -> echo_of s1 from resp = echo_of s from resp.
Proof. unfold echo_of. intros ->. reflexivity. Qed.

Lemma handle_from_idle_repeat cfg s from bytes d fid ctl fn obj resp s1 o :
  to_treq cfg from d = TqRequest ctl fn obj ->
  classify s None bytes ctl fn obj = FtRepeatNonRead resp ->
  handle_from_idle cfg s from None bytes d fid = (s1, o) ->
  s_pending s1 = s_pending s /\
  exists tail, o = [OInfo (IIdleRequest fn (ctl_seq ctl))] ++ echo_of s from resp ++ tail /\ forallb bg tail = true.
Proof.
  intros Et Ecl. rewrite handle_from_idle_unfold, Et. cbv zeta. rewrite Ecl.
  pose proof (touch_select_frame s fid) as [[Fc [Fl [Fd [Fp [Fn Fu]]]]] Fb].
  unfold finish_fn. destruct resp as [r|].
  - unfold repeat_solicited. rewrite Fb. cbv zeta.
    destruct (confirm_series None r) as [x|]; intros H; inv_pair H; psimpl; (split; [exact Fp|]).
    + exists [OInfo (IEnterSolWait (se_ecsn x))]. split; reflexivity.
    + exists []. split; reflexivity.
  - intros H; inv_pair H; psimpl. split; [exact Fp|]. exists []. split; reflexivity.
Qed.

Lemma idle_run_S f cfg st s :
  idle_run (S f) cfg st s =
  match st with
  | St1 =>
      let '(s1, o1) := match s_pending s with
                       | Some (from, bc, bytes, d, fid) => handle_from_idle cfg (upd_pending s None) from bc bytes d fid
                       | None => (s, [])
                       end in
      match s_control s1 with
      | CIdle => let '(s2, o2) := idle_run f cfg St2 s1 in (s2, o1 ++ o2)
      | _ => (s1, o1)
      end
  | St2 =>
      let '(s2, _, o2) := check_unsolicited cfg s in
      match s_control s2 with
      | CIdle => let '(s3, o3) := idle_run f cfg (St3 false) s2 in (s3, o2 ++ o3)
      | CUnsolWait resp is_null _ _ =>
          match s_pending s2 with
          | None => (s2, o2)
          | Some (from, bc, bytes, d, fid) =>
              let '(s3, res, o3) := unsol_wait_fragment cfg (upd_pending s2 None) resp from bc bytes d fid in
              match res with
              | None => (s3, o2 ++ o3)
              | Some r =>
                  let '(s4, ns, o4) := end_unsol cfg s3 is_null r in
                  let '(s5, o5) := idle_run f cfg (St3 ns) s4 in
                  (s5, o2 ++ o3 ++ o4 ++ o5)
              end
          end
      | _ => (s2, o2)
      end
  | St3 ns =>
      let '(s3, o3) := handle_deferred cfg s ns in
      match s_control s3 with
      | CIdle => let '(s4, o4) := idle_run f cfg (St4 ns) s3 in (s4, o3 ++ o4)
      | _ => (s3, o3)
      end
  | St4 ns =>
      match s_pending s with
      | Some _ => idle_run f cfg St1 s
      | None =>
          if ns then idle_run f cfg St1 s
          else if s_notify s then idle_run f cfg St1 (upd_notify s false)
          else (s, [])
      end
  end.
Proof. reflexivity. Qed.

(* the loop at stage 1 with a repeated request in the reader *)
Lemma idle_run_repeat_St1 cfg f s from bytes d fid ctl fn obj resp s' o :
  s_pending s = Some (from, None, bytes, d, fid) ->
  to_treq cfg from d = TqRequest ctl fn obj ->
  classify s None bytes ctl fn obj = FtRepeatNonRead resp ->
  idle_run (S f) cfg St1 s = (s', o) ->
  s_pending s' = None /\
  exists post, o = [OInfo (IIdleRequest fn (ctl_seq ctl))] ++ echo_of s from resp ++ post /\ forallb bg post = true.
Proof.
  intros Hp Et Ecl. rewrite idle_run_S, Hp.
  destruct (handle_from_idle cfg (upd_pending s None) from None bytes d fid) as [s1 o1] eqn:Eh.
  apply handle_from_idle_repeat with (ctl := ctl) (fn := fn) (obj := obj) (resp := resp) in Eh
    as [Hp1 [tail [-> St]]]; auto.
  psimpl_in Hp1. rewrite (echo_of_buf s (upd_pending s None)) by reflexivity.
  destruct (s_control s1).
  - destruct (idle_run f cfg St2 s1) as [s2 o2] eqn:E2. intros H; inv_pair H.
    apply idle_run_bg in E2 as [A B]; auto. split; [exact A|].
    exists (tail ++ o2). split; [rewrite <- !app_assoc; reflexivity | fb].
  - intros H; inv_pair H. split; [exact Hp1|]. exists tail. auto.
  - intros H; inv_pair H. split; [exact Hp1|]. exists tail. auto.
Qed.

Lemma unsol_wait_fragment_repeat cfg s resp0 from bytes d fid ctl fn obj resp :
  to_treq cfg from d = TqRequest ctl fn obj ->
  classify s None bytes ctl fn obj = FtRepeatNonRead resp ->
  unsol_wait_fragment cfg s resp0 from None bytes d fid = (upd_deferred s None, None, echo_of s from resp).
Proof.
  intros Et Ecl. unfold unsol_wait_fragment. rewrite Et, Ecl. reflexivity.
Qed.

(* the loop resumed after an aborted solicited series, the repeated request held by the reader *)
Lemma idle_run_repeat cfg f st s from bytes d fid ctl fn obj resp s' o :
  (st = St2 \/ exists ns, st = St4 ns) ->
  s_pending s = Some (from, None, bytes, d, fid) ->
  s_control s = CIdle -> s_deferred s = None ->
  to_treq cfg from d = TqRequest ctl fn obj ->
  classify s None bytes ctl fn obj = FtRepeatNonRead resp ->
  idle_run (S (S (S (S (S f))))) cfg st s = (s', o) ->
  s_pending s' = None /\
  exists u i post, o = u ++ i ++ echo_of s from resp ++ post /\
    forallb ustart u = true /\ (i = [] \/ i = [OInfo (IIdleRequest fn (ctl_seq ctl))]) /\
    forallb bg post = true.
Proof.
  intros Hst Hp Hc Hd Et Ecl H.
  destruct Hst as [->|[ns ->]].
  2:{ rewrite idle_run_S, Hp in H.
      eapply idle_run_repeat_St1 in H as [A [post [Eo B]]]; eauto. subst o.
      split; [exact A|]. exists [], [OInfo (IIdleRequest fn (ctl_seq ctl))], post. auto. }
  rewrite idle_run_S in H.
  destruct (check_unsolicited cfg s) as [[s2 ns2] o2] eqn:Eu.
  apply check_unsolicited_spec with (h := []) in Eu as [Ul [Ub [Ud [Up [Un [Us [_ Uk]]]]]]]; auto.
  assert (Ecl2 : forall sx, s_last sx = s_last s2 -> classify sx None bytes ctl fn obj = FtRepeatNonRead resp).
  { intros sx X. rewrite (classify_last s sx); [exact Ecl | congruence]. }
  destruct Uk as [Uk|[r1 [n [rt [dl Uk]]]]]; rewrite Uk in H.
  - rewrite idle_run_S in H. rewrite handle_deferred_none in H by congruence. rewrite Uk in H.
    rewrite idle_run_S in H. rewrite Up, Hp in H.
    destruct (idle_run (S (S f)) cfg St1 s2) as [s4 o4] eqn:E4.
    apply (idle_run_repeat_St1 cfg (S f) s2 from bytes d fid ctl fn obj resp) in E4 as [A [post [Eo B]]];
      [ | congruence | exact Et | apply Ecl2; reflexivity ].
    inv_pair H. split; [exact A|].
    exists o2, [OInfo (IIdleRequest fn (ctl_seq ctl))], post.
    rewrite (echo_of_buf s s2) by exact Ub. auto.
  - rewrite Up, Hp in H.
    rewrite (unsol_wait_fragment_repeat cfg (upd_pending s2 None) r1 from bytes d fid ctl fn obj resp) in H; auto.
    inv_pair H. psimpl. split; [reflexivity|].
    exists o2, [], []. rewrite (echo_of_buf s (upd_pending s2 None)) by exact Ub.
    rewrite app_nil_r. auto.
Qed.


(* ---------- shapes without preconditions, for the trace property of unsolicited retries -------------------------------- *)

Definition nrt (ob : oobs) : bool :=
  match ob with OInfo (IUnsolTimeout _ true) => false | _ => true end.

Lemma req_nrt ob : req_obs ob = true -> nrt ob = true.
Proof. destruct ob as [| | |i| | | |]; cbn; auto. destruct i; auto; discriminate. Qed.
Lemma ustart_nrt ob : ustart ob = true -> nrt ob = true.
Proof. destruct ob as [| | |i| | | |]; cbn; auto. destruct i; auto; discriminate. Qed.
Lemma rd_nrt ob : rd_obs ob = true -> nrt ob = true.
Proof. destruct ob as [| | |i| | | |]; cbn; auto. destruct i; auto; discriminate. Qed.
Lemma dbq_nrt ob : dbq ob = true -> nrt ob = true.
Proof. destruct ob; cbn; auto; discriminate. Qed.

Lemma finish_fn_shape cfg from seq bytes o0 s1 resp se repeat o1 s2 o :
  finish_fn cfg from seq bytes o0 s1 resp se repeat o1 = (s2, o) ->
  forallb req_obs o0 = true -> forallb req_obs o1 = true -> forallb req_obs o = true.
Proof.
  unfold finish_fn. intros H S0 S1. destruct resp as [r|]; [|inv_pair H; fb].
  destruct repeat.
  - cbv zeta in H. unfold repeat_solicited in H.
    destruct (confirm_series se r); inv_pair H; fb.
  - destruct (write_solicited s1 from r) as [[s3 r'] o2] eqn:Ew.
    apply write_solicited_spec in Ew as [_ [_ [_ [_ [o' [-> S']]]]]].
    apply (forallb_imp _ _ _ dbq_req) in S'. cbv zeta in H.
    destruct (confirm_series se r'); inv_pair H; fb.
Qed.

Lemma handle_from_idle_shape cfg s from bc bytes d fid s1 o :
  handle_from_idle cfg s from bc bytes d fid = (s1, o) -> forallb req_obs o = true.
Proof.
  rewrite handle_from_idle_unfold. intros H.
  destruct (to_treq cfg from d) as [|q|ctl fn obj].
  - inv_pair H. reflexivity.
  - apply write_error_response_spec in H as [_ [S _]]. exact S.
  - cbv zeta in H.
    assert (S0 : forallb req_obs [OInfo (IIdleRequest fn (ctl_seq ctl))] = true) by reflexivity.
    destruct (classify s bc bytes ctl fn obj) as [iin2|hdrs rh|resp hdrs rh|hdrs|resp|m|q|q].
    + eapply finish_fn_shape; eauto.
    + destruct (format_first_read_response s (ctl_seq ctl)) as [[[s2 r] se] o1] eqn:Ef.
      apply format_first_read_response_spec in Ef as [_ [S _]].
      eapply finish_fn_shape; eauto. apply (forallb_imp _ _ _ dbq_req S).
    + destruct (format_first_read_response s (ctl_seq ctl)) as [[[s2 r] se] o1] eqn:Ef.
      apply format_first_read_response_spec in Ef as [_ [S _]].
      eapply finish_fn_shape; eauto. apply (forallb_imp _ _ _ dbq_req S).
    + destruct (handle_non_read cfg s fn (ctl_seq ctl) fid bytes hdrs) as [[s2 r] o1] eqn:Ef.
      apply handle_non_read_spec in Ef as [_ S].
      eapply finish_fn_shape; eauto. apply (forallb_imp _ _ _ exec_req S).
    + eapply finish_fn_shape; eauto.
    + destruct (process_broadcast cfg s m fid ctl fn bytes obj) as [s2 o1] eqn:Ef.
      apply process_broadcast_spec in Ef as [_ S]. inv_pair H. fb.
    + inv_pair H. reflexivity.
    + inv_pair H. reflexivity.
Qed.

Lemma unsol_wait_fragment_shape cfg s resp from bc bytes d fid s1 res o :
  unsol_wait_fragment cfg s resp from bc bytes d fid = (s1, res, o) -> forallb req_obs o = true.
Proof.
  unfold unsol_wait_fragment. intros H.
  destruct (to_treq cfg from d) as [|q|ctl fn obj].
  - inv_pair H. reflexivity.
  - destruct (write_error_response (upd_deferred s None) from bc q) as [s2 o2] eqn:Ew.
    apply write_error_response_spec in Ew as [_ [S _]]. inv_pair H. exact S.
  - destruct (classify s bc bytes ctl fn obj) as [iin2|hdrs rh|resp0 hdrs rh|hdrs|resp0|m|q|q].
    + destruct (write_solicited (upd_deferred s None) from (empty_solicited (ctl_seq ctl) iin2)) as [[s2 r2] o2] eqn:Ew.
      apply write_solicited_spec in Ew as [_ [_ [_ [_ [o' [-> S]]]]]]. inv_pair H.
      apply (forallb_imp _ _ _ dbq_req) in S. fb.
    + inv_pair H. reflexivity.
    + inv_pair H. reflexivity.
    + destruct (handle_non_read cfg (upd_deferred s None) fn (ctl_seq ctl) fid bytes hdrs) as [[s2 r] o1] eqn:Eh.
      apply handle_non_read_spec in Eh as [_ S1]. apply (forallb_imp _ _ _ exec_req) in S1.
      destruct r as [r0|].
      * destruct (write_solicited s2 from r0) as [[s3 r1] o2] eqn:Ew.
        apply write_solicited_spec in Ew as [_ [_ [_ [_ [o' [-> S]]]]]]. inv_pair H.
        apply (forallb_imp _ _ _ dbq_req) in S. fb.
      * inv_pair H. fb.
    + inv_pair H. destruct resp0; reflexivity.
    + destruct (process_broadcast cfg (upd_deferred s None) m fid ctl fn bytes obj) as [s2 o2] eqn:Ep.
      apply process_broadcast_spec in Ep as [_ S]. inv_pair H. exact S.
    + inv_pair H. reflexivity.
    + destruct (q =? ctl_seq (r_ctl resp)); inv_pair H; reflexivity.
Qed.

Lemma idle_run_nrt cfg : forall f st s s' o,
  idle_run f cfg st s = (s', o) -> forallb nrt o = true.
Proof.
  induction f as [|f IH]; intros st s s' o H.
  { cbn [idle_run] in H. inv_pair H. reflexivity. }
  rewrite idle_run_S in H. destruct st as [| |ns|ns].
  - match type of H with (let '(_, _) := ?x in _) = _ => destruct x as [s1 o1] eqn:E1 end.
    assert (S1 : forallb nrt o1 = true).
    { destruct (s_pending s) as [[[[[from bc] bytes] d] fid]|].
      - apply handle_from_idle_shape in E1. apply (forallb_imp _ _ _ req_nrt E1).
      - inv_pair E1. reflexivity. }
    destruct (s_control s1); [|inv_pair H; exact S1..].
    destruct (idle_run f cfg St2 s1) as [s2 o2] eqn:E2. inv_pair H. apply IH in E2. fb.
  - destruct (check_unsolicited cfg s) as [[s2 ns2] o2] eqn:Eu.
    apply check_unsolicited_pending in Eu as [_ Us]. apply (forallb_imp _ _ _ ustart_nrt) in Us.
    destruct (s_control s2) as [|se dl rs|resp n rt dl].
    + destruct (idle_run f cfg (St3 false) s2) as [s3 o3] eqn:E3. inv_pair H. apply IH in E3. fb.
    + inv_pair H. exact Us.
    + destruct (s_pending s2) as [[[[[from bc] bytes] d] fid]|]; [|inv_pair H; exact Us].
      destruct (unsol_wait_fragment cfg (upd_pending s2 None) resp from bc bytes d fid) as [[s3 res] o3] eqn:Ew.
      apply unsol_wait_fragment_shape in Ew. apply (forallb_imp _ _ _ req_nrt) in Ew.
      destruct res as [r|]; [|inv_pair H; fb].
      destruct (end_unsol cfg s3 n r) as [[s4 ns4] o4] eqn:Ee.
      apply end_unsol_spec in Ee as [_ Se]. apply (forallb_imp _ _ _ dbq_nrt) in Se.
      destruct (idle_run f cfg (St3 ns4) s4) as [s5 o5] eqn:E5. inv_pair H. apply IH in E5. fb.
  - destruct (handle_deferred cfg s ns) as [s3 o3] eqn:Ed.
    apply handle_deferred_shape in Ed as [_ D]. apply (forallb_imp _ _ _ rd_nrt) in D.
    destruct (s_control s3); [|inv_pair H; exact D..].
    destruct (idle_run f cfg (St4 ns) s3) as [s4 o4] eqn:E4. inv_pair H. apply IH in E4. fb.
  - destruct (s_pending s); [eapply IH; eauto|].
    destruct ns; [eapply IH; eauto|].
    destruct (s_notify s); [eapply IH; eauto|]. inv_pair H. reflexivity.
Qed.


(* ---------- the trace property: every retry mark is followed by the fragment that opened the wait ------------------------ *)

Definition retries_identical (h : list oobs) : Prop :=
  forall h1 q rest, h = h1 ++ OInfo (IUnsolTimeout q true) :: rest ->
    exists dest b h2, rest = OTx dest b :: h2 /\ opened_by h1 dest b q.

Lemma retries_identical_nil : retries_identical [].
Proof. intros h1 q rest H. destruct h1; discriminate. Qed.

Lemma nrt_not_in o q : forallb nrt o = true -> ~ In (OInfo (IUnsolTimeout q true)) o.
Proof.
  intros H Hin. rewrite forallb_forall in H. specialize (H _ Hin). discriminate.
Qed.

Lemma retries_identical_app_nrt h o :
  retries_identical h -> forallb nrt o = true -> retries_identical (h ++ o).
Proof.
  intros R So h1 q rest H. apply app_eq_app in H as [l [[H1 H2]|[H1 H2]]].
  - destruct l as [|x l].
    + exfalso. apply (nrt_not_in o q So). cbn [app] in H2. rewrite <- H2. left. reflexivity.
    + cbn [app] in H2. inversion H2; subst x rest. rewrite H1 in R.
      destruct (R h1 q l eq_refl) as [dest [b [h2 [-> Hop]]]].
      exists dest, b, (h2 ++ o). split; [reflexivity | exact Hop].
  - exfalso. apply (nrt_not_in o q So). rewrite H2. apply in_or_app. right. left. reflexivity.
Qed.

Lemma retries_identical_app_retry h dest b q :
  retries_identical h -> opened_by h dest b q ->
  retries_identical (h ++ [OInfo (IUnsolTimeout q true); OTx dest b]).
Proof.
  intros R Hop h1 q' rest H. apply app_eq_app in H as [l [[H1 H2]|[H1 H2]]].
  - destruct l as [|x l].
    + cbn [app] in H2. inversion H2; subst q' rest. rewrite app_nil_r in H1. subst h1. eauto.
    + cbn [app] in H2. inversion H2; subst x rest. rewrite H1 in R.
      destruct (R h1 q' l eq_refl) as [dest' [b' [h2 [-> Hop']]]].
      exists dest', b', (h2 ++ [OInfo (IUnsolTimeout q true); OTx dest b]). split; [reflexivity | exact Hop'].
  - destruct l as [|x [|y [|z l]]]; cbn [app] in H2.
    + inversion H2; subst q' rest. rewrite app_nil_r in H1. subst h1. eauto.
    + inversion H2.
    + inversion H2.
    + inversion H2.
Qed.

Ltac fbn :=
  repeat (progress (repeat rewrite forallb_app; cbn [forallb app nrt andb]));
  repeat match goal with H : forallb nrt ?o = true |- context [forallb nrt ?o] => rewrite H end;
  reflexivity.

Lemma sol_wait_fragment_nrt cfg s se dl from bc bytes d out o :
  sol_wait_fragment cfg s se dl from bc bytes d = (out, o) -> forallb nrt o = true.
Proof.
  unfold sol_wait_fragment. intros H.
  destruct (to_treq cfg from d) as [|q|ctl fn obj]; try (inv_pair H; reflexivity).
  destruct (classify s bc bytes ctl fn obj) as [iin2|hdrs rh|resp hdrs rh|hdrs|resp|m|q|q];
    try (inv_pair H; reflexivity).
  - inv_pair H. destruct resp; reflexivity.
  - destruct (q =? se_ecsn se); inv_pair H; reflexivity.
Qed.

Lemma resume_at_nrt cfg st s s' o : resume_at cfg st s = (s', o) -> forallb nrt o = true.
Proof. unfold resume_at. apply idle_run_nrt. Qed.

Lemma on_rx_nrt cfg s from bc bytes d s' o :
  on_rx cfg s from bc bytes d = (s', o) -> forallb nrt o = true.
Proof.
  unfold on_rx. cbv zeta. intros H.
  match type of H with (match ?c with _ => _ end) = _ => destruct c as [|se dl r|resp is_null retries dl] end.
  - rewrite idle_loop_8_eq in H. eapply resume_at_nrt; eauto.
  - match type of H with context [sol_wait_fragment ?a ?b ?c ?d ?e ?f ?g ?i] =>
      destruct (sol_wait_fragment a b c d e f g i) as [out o1] eqn:Ew end.
    apply sol_wait_fragment_nrt in Ew.
    destruct out as [dl'|rt|].
    + inv_pair H. exact Ew.
    + destruct (se_fin se).
      * match type of H with context [resume_at cfg ?st ?sx] => destruct (resume_at cfg st sx) as [s2 o2] eqn:E end.
        inv_pair H. apply resume_at_nrt in E. fbn.
      * match type of H with context [format_read_response ?a ?b ?c ?d] =>
          destruct (format_read_response a b c d) as [[[s2 rsp] next] o2] eqn:Ef end.
        destruct (write_solicited s2 rt rsp) as [[s3 rsp'] o3] eqn:Es.
        apply format_read_response_spec in Ef as [_ [Sf _]]. apply (forallb_imp _ _ _ dbq_nrt) in Sf.
        apply write_solicited_spec in Es as [_ [_ [_ [_ [o' [-> Ss]]]]]]. apply (forallb_imp _ _ _ dbq_nrt) in Ss.
        destruct next as [n|].
        -- inv_pair H. fbn.
        -- match type of H with context [resume_at cfg ?st ?sx] => destruct (resume_at cfg st sx) as [s5 o5] eqn:E end.
           inv_pair H. apply resume_at_nrt in E. fbn.
    + match type of H with context [resume_at cfg ?st ?sx] => destruct (resume_at cfg st sx) as [s2 o2] eqn:E end.
      inv_pair H. apply resume_at_nrt in E. fbn.
  - match type of H with context [unsol_wait_fragment ?a ?b ?c ?d ?e ?f ?g ?i] =>
      destruct (unsol_wait_fragment a b c d e f g i) as [[s1 res] o1] eqn:Ew end.
    apply unsol_wait_fragment_shape in Ew. apply (forallb_imp _ _ _ req_nrt) in Ew.
    destruct res as [r|]; [|inv_pair H; exact Ew].
    destruct (end_unsol cfg s1 is_null r) as [[s2 ns] o2] eqn:Ee.
    apply end_unsol_spec in Ee as [_ Se]. apply (forallb_imp _ _ _ dbq_nrt) in Se.
    destruct (resume_at cfg (St3 ns) s2) as [s3 o3] eqn:E. inv_pair H. apply resume_at_nrt in E. fbn.
Qed.

Lemma fire_deadline_retries cfg h s s' o :
  fire_deadline cfg s = (s', o) -> inv cfg h s -> retries_identical h -> retries_identical (h ++ o).
Proof.
  unfold fire_deadline. intros H Hinv R.
  destruct (s_control s) as [|se dl r|resp is_null retries dl] eqn:Ec.
  - apply resume_at_nrt in H. apply retries_identical_app_nrt; assumption.
  - destruct (resume_at cfg (stage_of r) (upd_control s CIdle)) as [s1 o1] eqn:E. inv_pair H.
    apply resume_at_nrt in E. apply retries_identical_app_nrt; [assumption|]. cbn [app forallb nrt andb]. exact E.
  - match type of H with (if ?c then _ else _) = _ => destruct c end.
    + inv_pair H. unfold repeat_unsolicited. cbn [app].
      apply retries_identical_app_retry; [assumption|].
      destruct Hinv as [[_ [B _]] _]. destruct (B _ _ _ _ Ec) as [B1 _]. exact B1.
    + destruct (end_unsol cfg s is_null UrTimeout) as [[s1 ns] o1] eqn:Ee.
      apply end_unsol_spec in Ee as [_ Se]. apply (forallb_imp _ _ _ dbq_nrt) in Se.
      destruct (resume_at cfg (St3 ns) s1) as [s2 o2] eqn:E. inv_pair H. apply resume_at_nrt in E.
      apply retries_identical_app_nrt; [assumption|]. cbn [app forallb nrt andb]. fb.
Qed.

Lemma advance_retries cfg : forall f s target h s' o,
  advance f cfg s target = (s', o) -> inv cfg h s -> retries_identical h -> retries_identical (h ++ o).
Proof.
  induction f as [|f IH]; intros s target h s' o H Hinv R; cbn [advance] in H.
  { inv_pair H. apply retries_identical_app_nrt; [assumption | reflexivity]. }
  destruct (next_deadline cfg s) as [d|]; [|inv_pair H; rewrite app_nil_r; exact R].
  destruct (d <=? target)%Z; [|inv_pair H; rewrite app_nil_r; exact R].
  destruct (fire_deadline cfg (upd_now s (Z.max d (s_now s)))) as [s1 o1] eqn:Ef.
  destruct (advance f cfg s1 target) as [s2 o2] eqn:Ea. inv_pair H.
  assert (Hinv1 : inv cfg (h ++ [OAt (Z.max d (s_now s))]) (upd_now s (Z.max d (s_now s)))).
  { apply inv_upd_now. apply inv_app_quiet; [reflexivity | exact Hinv]. }
  assert (R1 : retries_identical (h ++ [OAt (Z.max d (s_now s))])).
  { apply retries_identical_app_nrt; [assumption | reflexivity]. }
  pose proof (fire_deadline_pres _ _ _ _ _ Ef Hinv1) as Hinv2.
  pose proof (fire_deadline_retries _ _ _ _ _ Ef Hinv1 R1) as R2.
  pose proof (IH _ _ _ _ _ Ea Hinv2 R2) as R3.
  rewrite <- !app_assoc in R3. exact R3.
Qed.

Lemma ostep_retries cfg h s ev ans s' o :
  ostep cfg s ev ans = (s', o) -> inv cfg h s -> retries_identical h -> retries_identical (h ++ o).
Proof.
  unfold ostep. intros H Hinv R.
  assert (Hinv0 : inv cfg h (upd_answers s ans)) by (apply inv_same with (s := s); [frame_tac | exact Hinv]).
  set (s0 := upd_answers s ans) in *. clearbody s0. clear Hinv.
  destruct ev as [from bc bytes d|ms| |sel op|v|].
  - destruct (on_rx cfg s0 from bc bytes d) as [s1 o1] eqn:E1.
    destruct (advance 64 cfg s1 (s_now s1 + settle_ms)) as [s2 o2] eqn:E2. inv_pair H.
    pose proof (on_rx_pres _ _ _ _ _ _ _ _ _ E1 Hinv0) as Hinv1.
    apply on_rx_nrt in E1. rewrite app_assoc.
    eapply advance_retries; eauto. apply retries_identical_app_nrt; assumption.
  - destruct (advance 4096 cfg s0 (s_now s0 + ms)) as [s2 o2] eqn:E2. inv_pair H.
    eapply advance_retries; eauto.
  - destruct (s_control s0) as [|se dl r|resp is_null retries dl] eqn:Ec.
    + destruct (idle_loop 8 cfg s0) as [s1 o1] eqn:El.
      destruct (advance 64 cfg s1 (s_now s1 + settle_ms)) as [s2 o2] eqn:Ea. inv_pair H.
      assert (Hinv1 : inv cfg (h ++ o1) s1).
      { pose proof Hinv0 as [[A _] Hr].
        apply (idle_loop_pres cfg h s0 s1 o1 []) in El; auto.
        - apply rest_ok_deferred_none; [exact Hr|]. intros ? ? ? ? X. rewrite Ec in X. discriminate.
        - rewrite app_nil_r. exact A. }
      rewrite idle_loop_8_eq in El. apply resume_at_nrt in El. rewrite app_assoc.
      eapply advance_retries; eauto. apply retries_identical_app_nrt; assumption.
    + destruct (advance 64 cfg (upd_notify s0 true) (s_now (upd_notify s0 true) + settle_ms)) as [s2 o2] eqn:Ea.
      inv_pair H. eapply advance_retries; eauto;
        apply inv_same' with (s := s0); try reflexivity; exact Hinv0.
    + destruct (advance 64 cfg (upd_notify s0 true) (s_now (upd_notify s0 true) + settle_ms)) as [s2 o2] eqn:Ea.
      inv_pair H. eapply advance_retries; eauto;
        apply inv_same' with (s := s0); try reflexivity; exact Hinv0.
  - inv_pair H. rewrite app_nil_r. exact R.
  - inv_pair H. rewrite app_nil_r. exact R.
  - destruct (idle_loop 8 cfg (upd_pending (upd_control (session_reset s0) CIdle) None)) as [s2 o2] eqn:El.
    destruct (advance 64 cfg s2 (s_now s2 + settle_ms)) as [s3 o3] eqn:Ea. inv_pair H.
    assert (Hinv1 : inv cfg (h ++ [ODb DbReset; OSessionEnd] ++ o2) s2).
    { apply (idle_loop_pres cfg h _ s2 o2 [ODb DbReset; OSessionEnd]) in El; auto.
      intros l r X. psimpl_in X. discriminate. }
    rewrite idle_loop_8_eq in El. apply resume_at_nrt in El.
    change (ODb DbReset :: OSessionEnd :: o2 ++ o3) with (([ODb DbReset; OSessionEnd] ++ o2) ++ o3).
    rewrite app_assoc. eapply advance_retries; eauto.
    apply retries_identical_app_nrt; [assumption|]. cbn [app forallb nrt andb]. exact El.
Qed.

Lemma ostart_retries cfg sel op iin a s o : ostart cfg sel op iin a = (s, o) -> retries_identical o.
Proof.
  unfold ostart. rewrite idle_loop_8_eq. intros H. apply resume_at_nrt in H.
  apply (retries_identical_app_nrt [] o retries_identical_nil H).
Qed.
