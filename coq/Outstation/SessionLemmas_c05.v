(* Outstation/SessionLemmas_c05.v — helper lemmas for property C05 over the session model:
   which state fields each function of Session.v touches ("frame" lemmas), what kinds of
   observations it can emit ("shape" lemmas), and that the idle loop never runs out of fuel. *)
From Dnp3V Require Import Outstation.Session.
Open Scope N_scope.

(* ---------- simplification of projections over the upd_* functions ------------------------------ *)

Ltac psimpl :=
  cbn [s_now s_control s_restart_iin s_enabled s_last s_select s_unsol s_unsol_seq s_deferred
       s_last_recorded s_last_bcast s_sol_buf s_unsol_buf s_pending s_frame_id s_notify
       s_sel_status s_op_status s_app_iin s_answers
       upd_control upd_now upd_restart upd_enabled upd_last upd_select upd_unsol upd_unsol_seq
       upd_deferred upd_last_recorded upd_last_bcast upd_sol_buf upd_unsol_buf upd_pending
       upd_frame_id upd_notify upd_knobs upd_answers session_reset deferred_set fst snd].

Ltac psimpl_in H :=
  cbn [s_now s_control s_restart_iin s_enabled s_last s_select s_unsol s_unsol_seq s_deferred
       s_last_recorded s_last_bcast s_sol_buf s_unsol_buf s_pending s_frame_id s_notify
       s_sel_status s_op_status s_app_iin s_answers
       upd_control upd_now upd_restart upd_enabled upd_last upd_select upd_unsol upd_unsol_seq
       upd_deferred upd_last_recorded upd_last_bcast upd_sol_buf upd_unsol_buf upd_pending
       upd_frame_id upd_notify upd_knobs upd_answers session_reset deferred_set fst snd] in H.

Ltac inv_pair H := injection H as ?; subst.

(* ---------- predicates on observations -------------------------------------------------------------- *)

(* a database call (or its missing answer) *)
Definition dbq (ob : oobs) : bool :=
  match ob with ODb _ | OMissingAnswer => true | _ => false end.

(* what executing a request may emit: handler / application callbacks and the RESTART clearing *)
Definition exec_obs (ob : oobs) : bool :=
  match ob with OCb _ | OInfo IClearRestart => true | _ => false end.

(* everything the processing of one received fragment (from idle, or in the unsolicited wait) may emit *)
Definition req_obs (ob : oobs) : bool :=
  match ob with
  | OCb _ | ODb _ | OTx _ _ | OMissingAnswer => true
  | OInfo IClearRestart | OInfo (IBroadcast _ _ _) | OInfo (IIdleRequest _ _)
  | OInfo (IEnterSolWait _) | OInfo (IUnsolConfirmed _) => true
  | _ => false
  end.

(* "the idle loop going on": nothing is executed, no request is taken up from idle *)
Definition bg (ob : oobs) : bool :=
  match ob with
  | OCb _ | OInfo IClearRestart | OInfo (IIdleRequest _ _) => false
  | _ => true
  end.

(* what the promise of C05 is about: no callback, no clearing of the RESTART bit *)
Definition quiet (ob : oobs) : bool :=
  match ob with OCb _ | OInfo IClearRestart => false | _ => true end.

(* what check_unsolicited emits when it starts an unsolicited response *)
Definition ustart (ob : oobs) : bool :=
  match ob with
  | ODb (DbWriteUnsol _ _ _) | ODb DbEvinfo | OMissingAnswer | OTx _ _ | OInfo (IEnterUnsolWait _) => true
  | _ => false
  end.

Definition not_enter_unsol (ob : oobs) : bool :=
  match ob with OInfo (IEnterUnsolWait _) => false | _ => true end.

Lemma forallb_imp {A} (p q : A -> bool) l :
  (forall x, p x = true -> q x = true) -> forallb p l = true -> forallb q l = true.
Proof.
  intros Hpq. induction l as [|x l IH]; cbn [forallb]; auto.
  intros H. apply andb_true_iff in H as [H1 H2]. rewrite (Hpq _ H1), (IH H2). reflexivity.
Qed.

Lemma dbq_req ob : dbq ob = true -> req_obs ob = true.
Proof. destruct ob; cbn; auto; discriminate. Qed.
Lemma dbq_bg ob : dbq ob = true -> bg ob = true.
Proof. destruct ob; cbn; auto; discriminate. Qed.
Lemma exec_req ob : exec_obs ob = true -> req_obs ob = true.
Proof. destruct ob as [| | |i| | | |]; cbn; auto; try discriminate. destruct i; auto. Qed.
Lemma req_neu ob : req_obs ob = true -> not_enter_unsol ob = true.
Proof. destruct ob as [| | |i| | | |]; cbn; auto. destruct i; auto. Qed.
Lemma bg_quiet ob : bg ob = true -> quiet ob = true.
Proof. destruct ob as [| | |i| | | |]; cbn; auto. destruct i; auto. Qed.
Lemma ustart_bg ob : ustart ob = true -> bg ob = true.
Proof. destruct ob as [| | |i| | | |]; cbn; auto; try discriminate. destruct i; auto. Qed.

(* solve  forallb p (o1 ++ o2 ++ [x] ...) = true  from hypotheses about the pieces *)
Ltac fb :=
  repeat rewrite forallb_app; cbn [forallb app];
  repeat match goal with
         | H : forallb ?p ?o = true |- context [forallb ?p ?o] => rewrite H
         end;
  cbn [andb]; try reflexivity; auto.

(* ---------- frames ------------------------------------------------------------------------------------- *)

(* the fields the C05 invariants speak about, except the solicited buffer *)
Definition frameB (s s1 : ostate) : Prop :=
  s_control s1 = s_control s /\ s_last s1 = s_last s /\ s_deferred s1 = s_deferred s /\
  s_pending s1 = s_pending s /\ s_notify s1 = s_notify s /\ s_unsol_buf s1 = s_unsol_buf s.

Definition frame (s s1 : ostate) : Prop := frameB s s1 /\ s_sol_buf s1 = s_sol_buf s.

Lemma frameB_refl s : frameB s s.
Proof. unfold frameB; auto 10. Qed.
Lemma frame_refl s : frame s s.
Proof. split; [apply frameB_refl | reflexivity]. Qed.
Lemma frameB_trans a b c : frameB a b -> frameB b c -> frameB a c.
Proof. unfold frameB; intuition congruence. Qed.
Lemma frame_trans a b c : frame a b -> frame b c -> frame a c.
Proof. unfold frame, frameB; intuition congruence. Qed.
Lemma frame_frameB a b : frame a b -> frameB a b.
Proof. intros [H _]; exact H. Qed.

Ltac frame_tac := unfold frame, frameB in *; psimpl; intuition congruence.

(* ---------- asking the environment ------------------------------------------------------------------------ *)

Lemma ask_evinfo_spec s s1 x o :
  ask_evinfo s = (s1, x, o) -> frame s s1 /\ forallb dbq o = true.
Proof.
  unfold ask_evinfo. destruct (s_answers s) as [|[] rest]; intros H; inv_pair H;
    (split; [frame_tac | reflexivity]).
Qed.

Lemma ask_iin2_spec s c s1 v o :
  ask_iin2 s c = (s1, v, o) -> frame s s1 /\ forallb dbq o = true.
Proof.
  unfold ask_iin2. destruct (s_answers s) as [|[] rest]; intros H; inv_pair H;
    (split; [frame_tac | reflexivity]).
Qed.

Lemma ask_write_spec s s1 x o :
  ask_write s = (s1, x, o) -> frame s s1 /\ forallb dbq o = true.
Proof.
  unfold ask_write. destruct (s_answers s) as [|[] rest]; intros H; inv_pair H;
    (split; [frame_tac | reflexivity]).
Qed.

Lemma ask_unsol_spec s s1 x :
  ask_unsol s = (s1, x) -> frame s s1.
Proof.
  unfold ask_unsol. destruct (s_answers s) as [|[] rest]; intros H; inv_pair H; frame_tac.
Qed.

Lemma response_iin_spec s s1 iin o :
  response_iin s = (s1, iin, o) -> frame s s1 /\ forallb dbq o = true.
Proof.
  unfold response_iin. destruct (ask_evinfo s) as [[s0 [[[c1 c2] c3] ovf]] o0] eqn:E.
  apply ask_evinfo_spec in E as [F S]. intros H. inv_pair H. split; [|exact S].
  destruct (s_last_bcast s0) as [[]|]; frame_tac.
Qed.

(* ---------- transmitting ------------------------------------------------------------------------------------ *)

Lemma set_con_seq c : ctl_seq (set_con c) = ctl_seq c.
Proof. unfold set_con, ctl_seq. destruct (ctl_con c); lia. Qed.

Lemma write_solicited_spec s dest r s1 r' o :
  write_solicited s dest r = (s1, r', o) ->
  frame s s1 /\ r_size r' = r_size r /\ r_fn r' = r_fn r /\ ctl_seq (r_ctl r') = ctl_seq (r_ctl r) /\
  exists o', o = o' ++ [OTx dest (response_bytes r' (s_sol_buf s1))] /\ forallb dbq o' = true.
Proof.
  unfold write_solicited. destruct (response_iin s) as [[s0 iin] o0] eqn:E.
  apply response_iin_spec in E as [F S]. intros H. inv_pair H.
  split; [exact F|].
  repeat split.
  - destruct (s_last_bcast s1) as [[]|]; reflexivity.
  - destruct (s_last_bcast s1) as [[]|]; reflexivity.
  - destruct (s_last_bcast s1) as [[]|]; cbn [with_ctl or_iin r_ctl]; auto using set_con_seq.
  - exists o0. split; [reflexivity | exact S].
Qed.

Lemma write_unsolicited_spec cfg s r s1 r' o :
  write_unsolicited cfg s r = (s1, r', o) ->
  frame s s1 /\ r_size r' = r_size r /\ r_fn r' = r_fn r /\ r_ctl r' = r_ctl r /\
  exists o', o = o' ++ [OTx (o_master cfg) (response_bytes r' (s_unsol_buf s1))] /\ forallb dbq o' = true.
Proof.
  unfold write_unsolicited. destruct (response_iin s) as [[s0 iin] o0] eqn:E.
  apply response_iin_spec in E as [F S]. intros H. inv_pair H.
  split; [exact F|]. repeat split. exists o0. split; [reflexivity | exact S].
Qed.

(* ---------- the non-READ functions ---------------------------------------------------------------------- *)

Lemma write_iin_bits_spec bits : forall s s1 v o,
  write_iin_bits s bits = (s1, v, o) -> frame s s1 /\ forallb exec_obs o = true.
Proof.
  induction bits as [|[idx value] rest IH]; intros s s1 v o H; cbn [write_iin_bits] in H.
  - inv_pair H. split; [apply frame_refl | reflexivity].
  - destruct (idx =? 7); [destruct value|].
    + destruct (write_iin_bits s rest) as [[s2 v2] o2] eqn:E. inv_pair H. eapply IH; eauto.
    + destruct (write_iin_bits (upd_restart s false) rest) as [[s2 v2] o2] eqn:E. inv_pair H.
      apply IH in E as [F S]. split; [|cbn [forallb exec_obs]; exact S].
      eapply frame_trans; [|exact F]. frame_tac.
    + destruct (write_iin_bits s rest) as [[s2 v2] o2] eqn:E. inv_pair H. eapply IH; eauto.
Qed.

Lemma write_header_spec cfg s h s1 v o :
  write_header cfg s h = (s1, v, o) -> frame s s1 /\ forallb exec_obs o = true.
Proof.
  destruct h as [bits|t|t|c| |a b|x| | |g v0 p items|]; cbn [write_header]; intros H;
    try (inv_pair H; split; [apply frame_refl | reflexivity]).
  - eapply write_iin_bits_spec; eauto.
  - destruct t; inv_pair H; (split; [apply frame_refl | reflexivity]).
  - destruct t as [t|]; [|inv_pair H; split; [apply frame_refl | reflexivity]].
    destruct (s_last_recorded s) as [t0|]; [|inv_pair H; split; [apply frame_refl | reflexivity]].
    destruct (max_timestamp - t <? Z.to_N (s_now s - t0)); inv_pair H;
      (split; [frame_tac | reflexivity]).
Qed.

Lemma handle_write_headers_spec cfg hdrs : forall s s1 v o,
  handle_write_headers cfg s hdrs = (s1, v, o) -> frame s s1 /\ forallb exec_obs o = true.
Proof.
  induction hdrs as [|h rest IH]; intros s s1 v o H; cbn [handle_write_headers] in H.
  - inv_pair H. split; [apply frame_refl | reflexivity].
  - destruct (write_header cfg s h) as [[s2 v2] o2] eqn:E1.
    destruct (handle_write_headers cfg s2 rest) as [[s3 v3] o3] eqn:E2. inv_pair H.
    apply write_header_spec in E1 as [F1 S1]. apply IH in E2 as [F2 S2].
    split; [eapply frame_trans; eauto | fb].
Qed.

Lemma freeze_header_spec cfg ft t i h v o :
  freeze_header cfg ft t i h = (v, o) -> forallb exec_obs o = true.
Proof. destruct h; cbn [freeze_header]; intros H; inv_pair H; reflexivity. Qed.

Lemma handle_freeze_spec cfg ft hdrs : forall v o,
  handle_freeze cfg ft hdrs = (v, o) -> forallb exec_obs o = true.
Proof.
  induction hdrs as [|h rest IH]; intros v o H; cbn [handle_freeze] in H.
  - inv_pair H. reflexivity.
  - destruct (freeze_header cfg ft 0 0 h) as [v1 o1] eqn:E1.
    destruct (handle_freeze cfg ft rest) as [v2 o2] eqn:E2. inv_pair H.
    apply freeze_header_spec in E1. specialize (IH _ _ eq_refl). fb.
Qed.

Lemma handle_freeze_at_time_spec cfg hdrs : forall timing v o,
  handle_freeze_at_time cfg timing hdrs = (v, o) -> forallb exec_obs o = true.
Proof.
  induction hdrs as [|h rest IH]; intros timing v o H; cbn [handle_freeze_at_time] in H.
  - inv_pair H. reflexivity.
  - assert (G : forall v o, (match timing with
      | None => let '(v, o) := handle_freeze_at_time cfg timing rest in (N.lor iin2_param v, o)
      | Some (t, i) =>
          let '(v1, o1) := freeze_header cfg 2 t i h in
          let '(v2, o2) := handle_freeze_at_time cfg timing rest in
          (N.lor v1 v2, o1 ++ o2)
      end) = (v, o) -> forallb exec_obs o = true).
    { intros v' o' G. destruct timing as [[t i]|].
      - destruct (freeze_header cfg 2 t i h) as [v1 o1] eqn:E1.
        destruct (handle_freeze_at_time cfg (Some (t, i)) rest) as [v2 o2] eqn:E2. inv_pair G.
        apply freeze_header_spec in E1. apply IH in E2. fb.
      - destruct (handle_freeze_at_time cfg None rest) as [v2 o2] eqn:E2. inv_pair G.
        eapply IH; eauto. }
    destruct h as [bits|t|t|c| |a b|x| | |g v0 p items|]; try (eapply G; exact H).
    destruct x as [x|].
    + eapply IH; eauto.
    + destruct (handle_freeze_at_time cfg timing rest) as [v2 o2] eqn:E2. inv_pair H.
      eapply IH; eauto.
Qed.

Lemma enable_disable_spec cfg s en seq hdrs s1 r :
  enable_disable cfg s en seq hdrs = (s1, r) -> frame s s1 /\ r_size r = 0%nat.
Proof.
  unfold enable_disable. destruct (negb (o_unsol cfg)).
  - intros H; inv_pair H. split; [apply frame_refl | reflexivity].
  - match goal with |- context [fold_left ?f ?l ?a] => destruct (fold_left f l a) as [e v] end.
    intros H; inv_pair H. split; [frame_tac | reflexivity].
Qed.

Lemma restart_response_spec seq s d s1 r :
  restart_response seq s d = (s1, r) -> frameB s s1.
Proof.
  unfold restart_response. destruct d as [[ms v]|]; intros H; inv_pair H; frame_tac.
Qed.

(* control handling emits only handler callbacks *)
Lemma ctl_one_header_shape s cfg cap mode g v prefix items : forall written n hs num started w ok cbs st num' started',
  ctl_one_header s cfg cap mode g v prefix written n hs num started items = (w, ok, cbs, st, num', started') ->
  forallb exec_obs cbs = true.
Proof.
  induction items as [|[idx obj] rest IH]; intros written n hs num started w ok cbs st num' started' H;
    cbn [ctl_one_header] in H.
  - inv_pair H. reflexivity.
  - destruct (item_status s cfg mode num) as [st0 consulted] eqn:Ei.
    destruct (echo_items cap g v prefix written n hs [(idx, replace_status obj st0)]) as [w1 ok1] eqn:Ee.
    assert (Hcb : forall x, forallb exec_obs (if consulted then (if started then [] else [OCb CbBeginFragment]) ++ [OCb x] else []) = true).
    { intros x. destruct consulted, started; reflexivity. }
    destruct ok1.
    + destruct (ctl_one_header s cfg cap mode g v prefix w1 (n + 1) hs (num + 1) (started || consulted) rest)
        as [[[[[w2 ok2] cbs2] st2] num2] started2] eqn:E2.
      inv_pair H. apply IH in E2. rewrite forallb_app, Hcb, E2. reflexivity.
    + inv_pair H. apply Hcb.
Qed.

Lemma ctl_headers_shape s cfg cap mode hdrs : forall written num started w ok cbs st started',
  ctl_headers s cfg cap mode written num started hdrs = (w, ok, cbs, st, started') ->
  forallb exec_obs cbs = true.
Proof.
  induction hdrs as [|h rest IH]; intros written num started w ok cbs st started' H; cbn [ctl_headers] in H.
  - inv_pair H. reflexivity.
  - destruct h as [bits|t|t|c| |a b|x| | |g v0 p items|]; try (eapply IH; exact H).
    destruct (ctl_one_header s cfg cap mode g v0 p written 0 (length written) num started items)
      as [[[[[w1 ok1] cbs1] st1] num1] started1] eqn:E1.
    apply ctl_one_header_shape in E1.
    destruct ok1.
    + destruct (ctl_headers s cfg cap mode w1 num1 started1 rest) as [[[[w2 ok2] cbs2] st2] started2] eqn:E2.
      inv_pair H. apply IH in E2. fb.
    + inv_pair H. exact E1.
Qed.

Lemma noack_items_shape s cfg g v items : forall num started cbs num' started',
  noack_items s cfg g v num started items = (cbs, num', started') -> forallb exec_obs cbs = true.
Proof.
  induction items as [|[idx obj] rest IH]; intros num started cbs num' started' H; cbn [noack_items] in H.
  - inv_pair H. reflexivity.
  - match type of H with context [noack_items s cfg g v ?a ?b rest] =>
      destruct (noack_items s cfg g v a b rest) as [[cbs2 num2] started2] eqn:E2 end.
    inv_pair H. apply IH in E2. rewrite forallb_app, E2.
    destruct (match o_max_controls cfg with Some m => num <? m | None => true end), started; reflexivity.
Qed.

Lemma noack_headers_shape s cfg hdrs : forall num started cbs started',
  noack_headers s cfg num started hdrs = (cbs, started') -> forallb exec_obs cbs = true.
Proof.
  induction hdrs as [|h rest IH]; intros num started cbs started' H; cbn [noack_headers] in H.
  - inv_pair H. reflexivity.
  - destruct h as [bits|t|t|c| |a b|x| | |g v0 p items|]; try (eapply IH; exact H).
    destruct (noack_items s cfg g v0 num started items) as [[cbs1 num1] started1] eqn:E1.
    destruct (noack_headers s cfg num1 started1 rest) as [cbs2 started2] eqn:E2.
    inv_pair H. apply noack_items_shape in E1. apply IH in E2. fb.
Qed.

Lemma finish_shape (started : bool) : forallb exec_obs (if started then [OCb CbEndFragment] else []) = true.
Proof. destruct started; reflexivity. Qed.

Lemma handle_controls_spec cfg s fn seq fid bytes hdrs s1 r o :
  handle_controls cfg s fn seq fid bytes hdrs = (s1, r, o) ->
  frameB s s1 /\ forallb exec_obs o = true /\ (fn = fn_direct_operate_nr -> s1 = s /\ r = None).
Proof.
  unfold handle_controls. destruct (negb (all_controls hdrs)).
  { intros H; inv_pair H. split; [apply frameB_refl|]. split; [reflexivity|].
    intros ->. cbn. auto. }
  destruct (fn =? fn_direct_operate_nr) eqn:Enr.
  { destruct (noack_headers s cfg 0 false hdrs) as [cbs started] eqn:E. intros H; inv_pair H.
    apply noack_headers_shape in E. split; [apply frameB_refl|]. split; [|auto].
    rewrite forallb_app, E, finish_shape. reflexivity. }
  assert (Hne : fn = fn_direct_operate_nr -> forall P : Prop, P).
  { intros ->. cbn in Enr. discriminate. }
  destruct (fn =? fn_select).
  { destruct (ctl_headers s cfg (o_sol_tx cfg - 4) CmSelect [] 0 false hdrs) as [[[[echo ok] cbs] st] started] eqn:E.
    apply ctl_headers_shape in E. intros H; inv_pair H.
    split; [destruct (ok && (st =? 0)); frame_tac|]. split; [|intros X; apply (Hne X)].
    rewrite forallb_app, E, finish_shape. reflexivity. }
  destruct (fn =? fn_direct_operate).
  { destruct (ctl_headers s cfg (o_sol_tx cfg - 4) (CmOperate OpDo) [] 0 false hdrs) as [[[[echo ok] cbs] st] started] eqn:E.
    apply ctl_headers_shape in E. intros H; inv_pair H.
    split; [frame_tac|]. split; [|intros X; apply (Hne X)].
    rewrite forallb_app, E, finish_shape. reflexivity. }
  destruct (match s_select s with Some sel => match_operate cfg s sel seq fid (objects_of bytes) | None => Some 2 end) as [status|].
  - destruct (ctl_headers s cfg (o_sol_tx cfg - 4) (CmStatus status) [] 0 false hdrs) as [[[[echo ok] cbs] st] started] eqn:E.
    intros H; inv_pair H. split; [frame_tac|]. split; [reflexivity|intros X; apply (Hne X)].
  - destruct (ctl_headers s cfg (o_sol_tx cfg - 4) (CmOperate OpSbo) [] 0 false hdrs) as [[[[echo ok] cbs] st] started] eqn:E.
    apply ctl_headers_shape in E. intros H; inv_pair H.
    split; [frame_tac|]. split; [|intros X; apply (Hne X)].
    rewrite forallb_app, E, finish_shape. reflexivity.
Qed.

Lemma handle_non_read_spec cfg s fn seq fid bytes hdrs s1 r o :
  handle_non_read cfg s fn seq fid bytes hdrs = (s1, r, o) ->
  frameB s s1 /\ forallb exec_obs o = true.
Proof.
  intros H. unfold handle_non_read in H. cbv beta zeta in H.
  match type of H with (match ?body with _ => _ end) = _ => destruct body as [[s2 r2] o2] eqn:E end.
  inv_pair H.
  repeat match type of E with
  | (if ?c then _ else _) = _ => destruct c
  end;
  repeat match type of E with
  | (match ?x with _ => _ end) = _ => let E1 := fresh "E1" in destruct x as [? ?] eqn:E1
  end;
  try (inv_pair E);
  try match goal with
  | E1 : handle_write_headers _ _ _ = _ |- _ => apply handle_write_headers_spec in E1 as [F S]; apply frame_frameB in F
  | E1 : restart_response _ _ _ = _ |- _ => apply restart_response_spec in E1
  | E1 : handle_controls _ _ _ _ _ _ _ = _ |- _ => apply handle_controls_spec in E1 as [F [S _]]
  | E1 : handle_freeze _ _ _ = _ |- _ => apply handle_freeze_spec in E1
  | E1 : handle_freeze_at_time _ _ _ = _ |- _ => apply handle_freeze_at_time_spec in E1
  | E1 : enable_disable _ _ _ _ _ = _ |- _ => apply enable_disable_spec in E1 as [F _]; apply frame_frameB in F
  end;
  (split; [first [assumption | apply frameB_refl | frame_tac] | first [assumption | reflexivity]]).
Qed.

(* ---------- READ ---------------------------------------------------------------------------------------- *)

Lemma format_read_response_spec s fir seq iin2 s1 r se o :
  format_read_response s fir seq iin2 = (s1, r, se, o) ->
  frameB s s1 /\ forallb dbq o = true /\
  ctl_seq (r_ctl r) = seq mod 16 /\ (forall x, se = Some x -> se_ecsn x = seq).
Proof.
  unfold format_read_response. destruct (ask_write s) as [[s0 [[complete has_events] body]] o0] eqn:E.
  apply ask_write_spec in E as [F S]. intros H; inv_pair H.
  split; [frame_tac|]. split; [exact S|]. split.
  - cbn [r_ctl]. unfold ctl_seq, ctl_byte.
    destruct fir, complete, has_events; cbn [orb negb]; lia.
  - intros x. destruct (has_events || negb complete); intros X; inversion X; reflexivity.
Qed.

Lemma format_first_read_response_spec s seq s1 r se o :
  format_first_read_response s seq = (s1, r, se, o) ->
  frameB s s1 /\ forallb dbq o = true /\
  ctl_seq (r_ctl r) = seq mod 16 /\ (forall x, se = Some x -> se_ecsn x = seq).
Proof.
  unfold format_first_read_response. destruct (ask_iin2 s DbSelect) as [[s0 v] o0] eqn:E0.
  destruct (format_read_response s0 true seq v) as [[[s2 r2] se2] o2] eqn:E1.
  apply ask_iin2_spec in E0 as [F0 S0]. apply format_read_response_spec in E1 as [F1 [S1 [Q1 Q2]]].
  intros H; inv_pair H. split; [eapply frameB_trans; [apply frame_frameB; exact F0 | exact F1]|].
  split; [fb|]. auto.
Qed.

(* ---------- broadcast, error responses --------------------------------------------------------------------- *)

Lemma process_broadcast_spec cfg s m fid ctl fn bytes obj s1 o :
  process_broadcast cfg s m fid ctl fn bytes obj = (s1, o) ->
  frame s s1 /\ forallb req_obs o = true.
Proof.
  unfold process_broadcast. cbv zeta.
  destruct (negb (o_broadcast cfg)); [intros H; inv_pair H; split; [frame_tac | reflexivity]|].
  destruct obj as [iin2|hdrs rh]; [intros H; inv_pair H; split; [frame_tac | reflexivity]|].
  destruct (fn =? fn_write).
  { destruct (handle_write_headers cfg (upd_last_bcast s (Some m)) hdrs) as [[s2 v] o2] eqn:E.
    apply handle_write_headers_spec in E as [F S]. intros H; inv_pair H.
    split; [eapply frame_trans; [|exact F]; frame_tac|].
    rewrite forallb_app, (forallb_imp _ _ _ exec_req S). reflexivity. }
  destruct (fn =? fn_direct_operate_nr) eqn:Enr.
  { apply N.eqb_eq in Enr. subst fn.
    destruct (handle_controls cfg (upd_last_bcast s (Some m)) fn_direct_operate_nr (ctl_seq ctl) fid bytes hdrs)
      as [[s2 r2] o2] eqn:E.
    apply handle_controls_spec in E as [F [S X]]. destruct (X eq_refl) as [-> ->].
    intros H; inv_pair H. split; [frame_tac|].
    rewrite forallb_app, (forallb_imp _ _ _ exec_req S). reflexivity. }
  assert (Hfr : forall ft, (let '(_, o) := handle_freeze cfg ft hdrs in (upd_last_bcast s (Some m), o ++ [OInfo (IBroadcast fn 0 0)])) = (s1, o) ->
            frame s s1 /\ forallb req_obs o = true).
  { intros ft. destruct (handle_freeze cfg ft hdrs) as [v o2] eqn:E. apply handle_freeze_spec in E.
    intros H; inv_pair H. split; [frame_tac|].
    rewrite forallb_app, (forallb_imp _ _ _ exec_req E). reflexivity. }
  destruct (fn =? fn_immediate_freeze_nr); [apply Hfr|].
  destruct (fn =? fn_freeze_clear_nr); [apply Hfr|].
  destruct (fn =? fn_freeze_at_time_nr).
  { destruct (handle_freeze_at_time cfg None hdrs) as [v o2] eqn:E. apply handle_freeze_at_time_spec in E.
    intros H; inv_pair H. split; [frame_tac|].
    rewrite forallb_app, (forallb_imp _ _ _ exec_req E). reflexivity. }
  destruct (fn =? fn_record_time); [intros H; inv_pair H; split; [frame_tac | reflexivity]|].
  destruct (fn =? fn_disable_unsol).
  { destruct (enable_disable cfg (upd_last_bcast s (Some m)) false (ctl_seq ctl) hdrs) as [s2 r2] eqn:E.
    apply enable_disable_spec in E as [F _]. intros H; inv_pair H.
    split; [eapply frame_trans; [|exact F]; frame_tac | reflexivity]. }
  destruct (fn =? fn_enable_unsol).
  { destruct (enable_disable cfg (upd_last_bcast s (Some m)) true (ctl_seq ctl) hdrs) as [s2 r2] eqn:E.
    apply enable_disable_spec in E as [F _]. intros H; inv_pair H.
    split; [eapply frame_trans; [|exact F]; frame_tac | reflexivity]. }
  intros H; inv_pair H; split; [frame_tac | reflexivity].
Qed.

Lemma write_error_response_spec s from bc seq s1 o :
  write_error_response s from bc seq = (s1, o) ->
  frame s s1 /\ forallb req_obs o = true /\ forallb bg o = true.
Proof.
  unfold write_error_response. destruct bc; [intros H; inv_pair H; split; [apply frame_refl | auto]|].
  destruct seq as [q|]; [|intros H; inv_pair H; split; [apply frame_refl | auto]].
  destruct (write_solicited s from (empty_solicited q iin2_no_func)) as [[s2 r2] o2] eqn:E.
  apply write_solicited_spec in E as [F [_ [_ [_ [o' [-> S]]]]]]. intros H; inv_pair H.
  split; [exact F|]. split.
  - rewrite forallb_app, (forallb_imp _ _ _ dbq_req S). reflexivity.
  - rewrite forallb_app, (forallb_imp _ _ _ dbq_bg S). reflexivity.
Qed.
