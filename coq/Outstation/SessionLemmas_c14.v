(* Outstation/SessionLemmas_c14.v — helper lemmas for property C14 over the session model: frame and shape lemmas of the solicited side, and the decomposition of a step into micro-steps. *)
From Dnp3V Require Import Outstation.Session.
Open Scope N_scope.

Ltac psimpl :=
  cbn [s_now s_control s_restart_iin s_enabled s_last s_select s_unsol s_unsol_seq s_deferred
       s_last_recorded s_last_bcast s_sol_buf s_unsol_buf s_pending s_frame_id s_notify
       s_sel_status s_op_status s_app_iin s_answers s_bcast_rep upd_bcast_rep
       upd_control upd_now upd_restart upd_enabled upd_last upd_select upd_unsol upd_unsol_seq
       upd_deferred upd_last_recorded upd_last_bcast upd_sol_buf upd_unsol_buf upd_pending
       upd_frame_id upd_notify upd_knobs upd_answers session_reset deferred_set fst snd].

Ltac psimpl_in H :=
  cbn [s_now s_control s_restart_iin s_enabled s_last s_select s_unsol s_unsol_seq s_deferred
       s_last_recorded s_last_bcast s_sol_buf s_unsol_buf s_pending s_frame_id s_notify
       s_sel_status s_op_status s_app_iin s_answers s_bcast_rep upd_bcast_rep
       upd_control upd_now upd_restart upd_enabled upd_last upd_select upd_unsol upd_unsol_seq
       upd_deferred upd_last_recorded upd_last_bcast upd_sol_buf upd_unsol_buf upd_pending
       upd_frame_id upd_notify upd_knobs upd_answers session_reset deferred_set fst snd] in H.

(* destructure the `let '(a, b) := x in ...` of a hypothesis *)
Ltac dlet_in H :=
  repeat match type of H with
  | context [match ?x with pair _ _ => _ end] =>
      first [ is_var x; destruct x as [? ?]
            | let E := fresh "E" in destruct x as [? ?] eqn:E ]
  end.

Ltac inv_pair H := injection H as ?; subst.

(* ---------- the fields the solicited side never touches ---------------------------------------- *)

Definition uview (s : ostate) :=
  (s_unsol s, s_unsol_seq s, s_unsol_buf s, s_now s, s_deferred s, s_pending s, s_frame_id s, s_notify s).

(* frame: low-level helpers touch none of these *)
Definition fview (s : ostate) := (uview s, s_control s, s_last s, s_enabled s).

Definition frame (s s' : ostate) : Prop := fview s' = fview s.

Lemma frame_refl : forall s, frame s s.
Proof. reflexivity. Qed.

Lemma frame_trans : forall a b c, frame a b -> frame b c -> frame a c.
Proof. unfold frame. intros a b c H1 H2. congruence. Qed.

Lemma ask_evinfo_frame : forall s s' x o, ask_evinfo s = (s', x, o) -> frame s s'.
Proof.
  intros s s' x o H. unfold ask_evinfo in H.
  destruct (s_answers s) as [|[] rest]; inv_pair H; reflexivity.
Qed.

Lemma ask_iin2_frame : forall s c s' x o, ask_iin2 s c = (s', x, o) -> frame s s'.
Proof.
  intros s c s' x o H. unfold ask_iin2 in H.
  destruct (s_answers s) as [|[] rest]; inv_pair H; reflexivity.
Qed.

Lemma ask_write_frame : forall s s' x o, ask_write s = (s', x, o) -> frame s s'.
Proof.
  intros s s' x o H. unfold ask_write in H.
  destruct (s_answers s) as [|[] rest]; inv_pair H; reflexivity.
Qed.

Lemma response_iin_frame : forall s s' x o, response_iin s = (s', x, o) -> frame s s'.
Proof.
  intros s s' x o H. unfold response_iin in H.
  destruct (ask_evinfo s) as [[s1 [[[c1 c2] c3] ovf]] o1] eqn:E.
  apply ask_evinfo_frame in E. inv_pair H.
  eapply frame_trans; [exact E|].
  destruct (s_last_bcast s1) as [[]|]; reflexivity.
Qed.

Lemma bcast_reported_frame : forall s c, frame s (bcast_reported s c).
Proof. intros s c. unfold bcast_reported. destruct (s_last_bcast s) as [[]|]; reflexivity. Qed.

Lemma bcast_confirmed_frame : forall s u q, frame s (bcast_confirmed s u q).
Proof. intros s u q. unfold bcast_confirmed. destruct (rep_eqb _ _ _); reflexivity. Qed.

Lemma bcast_reported_sol_buf : forall s c, s_sol_buf (bcast_reported s c) = s_sol_buf s.
Proof. intros s c. unfold bcast_reported. destruct (s_last_bcast s) as [[]|]; reflexivity. Qed.

Lemma bcast_reported_unsol_buf : forall s c, s_unsol_buf (bcast_reported s c) = s_unsol_buf s.
Proof. intros s c. unfold bcast_reported. destruct (s_last_bcast s) as [[]|]; reflexivity. Qed.

Lemma bcast_reported_last_bcast : forall s c, s_last_bcast (bcast_reported s c) = s_last_bcast s.
Proof. intros s c. unfold bcast_reported. destruct (s_last_bcast s) as [[]|] eqn:E; psimpl; auto. Qed.

Lemma write_solicited_frame : forall s d r s' r' o, write_solicited s d r = (s', r', o) -> frame s s'.
Proof.
  intros s d r s' r' o H. unfold write_solicited in H.
  destruct (response_iin s) as [[s1 iin] o1] eqn:E. apply response_iin_frame in E.
  inv_pair H. eapply frame_trans; [exact E|apply bcast_reported_frame].
Qed.

Lemma write_iin_bits_frame : forall bits s s' v o, write_iin_bits s bits = (s', v, o) -> frame s s'.
Proof.
  induction bits as [|[idx value] rest IH]; intros s s' v o H; cbn [write_iin_bits] in H.
  - inv_pair H. reflexivity.
  - destruct (idx =? 7).
    + destruct value.
      * destruct (write_iin_bits s rest) as [[s1 v1] o1] eqn:E. inv_pair H. eauto.
      * destruct (write_iin_bits (upd_restart s false) rest) as [[s1 v1] o1] eqn:E. inv_pair H.
        apply IH in E. eapply frame_trans; [|exact E]. reflexivity.
    + destruct (write_iin_bits s rest) as [[s1 v1] o1] eqn:E. inv_pair H. eauto.
Qed.

Lemma write_header_frame : forall cfg s h s' v o, write_header cfg s h = (s', v, o) -> frame s s'.
Proof.
  intros cfg s h s' v o H. unfold write_header in H.
  destruct h as [bits|t|t| | | | | | | |]; try (inv_pair H; reflexivity).
  - eapply write_iin_bits_frame; eauto.
  - destruct t; inv_pair H; reflexivity.
  - destruct t as [t|]; [|inv_pair H; reflexivity].
    destruct (s_last_recorded s); [|inv_pair H; reflexivity].
    destruct (_ <? _); inv_pair H; reflexivity.
Qed.

Lemma handle_write_headers_frame : forall cfg hdrs s s' v o,
  handle_write_headers cfg s hdrs = (s', v, o) -> frame s s'.
Proof.
  induction hdrs as [|h rest IH]; intros s s' v o H; cbn [handle_write_headers] in H.
  - inv_pair H. reflexivity.
  - destruct (write_header cfg s h) as [[s1 v1] o1] eqn:E1.
    destruct (handle_write_headers cfg s1 rest) as [[s2 v2] o2] eqn:E2.
    inv_pair H. eapply frame_trans; [eapply write_header_frame; eauto|eauto].
Qed.

Lemma handle_controls_frame : forall cfg s fn seq fid bytes hdrs s' r o,
  handle_controls cfg s fn seq fid bytes hdrs = (s', r, o) -> frame s s'.
Proof.
  intros cfg s fn seq fid bytes hdrs s' r o H. unfold handle_controls in H.
  destruct (negb (all_controls hdrs)); [inv_pair H; reflexivity|].
  destruct (fn =? fn_direct_operate_nr).
  { dlet_in H. inv_pair H. reflexivity. }
  destruct (fn =? fn_select).
  { dlet_in H. inv_pair H. destruct (_ && _); reflexivity. }
  destruct (fn =? fn_direct_operate).
  { dlet_in H. inv_pair H. reflexivity. }
  destruct (match s_select s with Some sel => _ | None => _ end).
  - dlet_in H. inv_pair H. reflexivity.
  - dlet_in H. inv_pair H. reflexivity.
Qed.

Lemma restart_response_frame : forall seq s d s' r, restart_response seq s d = (s', r) -> frame s s'.
Proof.
  intros seq s d s' r H. unfold restart_response in H.
  destruct d as [[ms v]|]; inv_pair H; reflexivity.
Qed.

(* enable_disable: everything but s_enabled *)
Definition gview (s : ostate) := (uview s, s_control s, s_last s).

Definition cls_step (enable : bool) (acc : (bool * bool * bool) * N) (h : whdr) :=
  let '((c1, c2, c3), v) := acc in
  match h with
  | WCls 1 => ((enable, c2, c3), v)
  | WCls 2 => ((c1, enable, c3), v)
  | WCls 3 => ((c1, c2, enable), v)
  | _ => ((c1, c2, c3), N.lor v iin2_no_func)
  end.

Definition set_classes (enable : bool) (hdrs : list whdr) (e : bool * bool * bool) : bool * bool * bool :=
  fst (fold_left (cls_step enable) hdrs (e, 0)).

Lemma enable_disable_spec : forall cfg s enable seq hdrs s' r,
  enable_disable cfg s enable seq hdrs = (s', r) ->
  gview s' = gview s /\
  (if o_unsol cfg then s_enabled s' = set_classes enable hdrs (s_enabled s) else s_enabled s' = s_enabled s).
Proof.
  intros cfg s enable seq hdrs s' r H. unfold enable_disable in H.
  destruct (o_unsol cfg); cbn [negb] in H.
  - fold (cls_step enable) in H. unfold set_classes.
    destruct (fold_left (cls_step enable) hdrs (s_enabled s, 0)) as [e v] eqn:E.
    inv_pair H. split; reflexivity.
  - inv_pair H. split; reflexivity.
Qed.

(* ---------- kinds of observations ------------------------------------------------------------------ *)

(* an observation of the solicited side: nothing the unsolicited rules talk about *)
Definition solob (o : oobs) : Prop :=
  match o with
  | OTx _ b => nth 1 b 0 = 129
  | ODb (DbWriteUnsol _ _ _) | ODb DbDeferredSelect => False
  | ODb _ => True
  | OCb _ => True
  | OInfo (IEnterUnsolWait _) | OInfo (IUnsolTimeout _ _) | OInfo (IUnsolConfirmed _) => False
  | OInfo _ => True
  | OMissingAnswer => True
  | OSessionEnd | OAt _ | OOutOfFuel => False
  end.

(* the event-info probe of get_response_iin *)
Definition evq (o : oobs) : Prop := o = ODb DbEvinfo \/ o = OMissingAnswer.

(* executing a request: callbacks and the clearing of RESTART *)
Definition exob (o : oobs) : Prop :=
  match o with OCb _ | OInfo IClearRestart => True | _ => False end.

Lemma evq_solob : forall o, evq o -> solob o.
Proof. intros o [H|H]; subst; exact I. Qed.

Lemma exob_solob : forall o, exob o -> solob o.
Proof. intros [] H; try destruct H; try exact I. destruct i; try destruct H; exact I. Qed.

Lemma Forall_imp : forall (P Q : oobs -> Prop) l, (forall o, P o -> Q o) -> Forall P l -> Forall Q l.
Proof. intros P Q l H F. eapply Forall_impl; eauto. Qed.

Ltac fa_tac := repeat (apply Forall_app; split); repeat (first [apply Forall_nil | apply Forall_cons]);
  cbn; auto.

Lemma ask_evinfo_out : forall s s' x o, ask_evinfo s = (s', x, o) -> Forall evq o.
Proof.
  intros s s' x o H. unfold ask_evinfo in H.
  destruct (s_answers s) as [|[] rest]; inv_pair H; unfold evq; fa_tac.
Qed.

Lemma response_iin_out : forall s s' x o, response_iin s = (s', x, o) -> Forall evq o.
Proof.
  intros s s' x o H. unfold response_iin in H.
  destruct (ask_evinfo s) as [[s1 [[[c1 c2] c3] ovf]] o1] eqn:E.
  apply ask_evinfo_out in E. inv_pair H. exact E.
Qed.

Lemma nth1_response_bytes : forall r buf, nth 1 (response_bytes r buf) 0 = r_fn r.
Proof. reflexivity. Qed.

Lemma nth0_response_bytes : forall r buf, nth 0 (response_bytes r buf) 0 = r_ctl r.
Proof. reflexivity. Qed.

Lemma ctl_seq_set_con : forall c, ctl_seq (set_con c) = ctl_seq c.
Proof.
  intros c. unfold set_con, ctl_seq. destruct (ctl_con c); [reflexivity|].
  replace (c + 32) with (c + 2 * 16) by lia. rewrite N.mod_add by lia. reflexivity.
Qed.

(* write_solicited: the probe, then exactly one fragment to `dest` *)
Lemma write_solicited_spec : forall s d r s' r' o,
  write_solicited s d r = (s', r', o) ->
  exists o1, o = o1 ++ [OTx d (response_bytes r' (s_sol_buf s'))] /\ Forall evq o1 /\
             r_fn r' = r_fn r /\ ctl_seq (r_ctl r') = ctl_seq (r_ctl r) /\ r_size r' = r_size r /\
             s_sol_buf s' = s_sol_buf s.
Proof.
  intros s d r s' r' o H. unfold write_solicited in H.
  destruct (response_iin s) as [[s1 iin] o1] eqn:E.
  pose proof (response_iin_out _ _ _ _ E) as Ho.
  assert (Hb : s_sol_buf s1 = s_sol_buf s).
  { unfold response_iin in E. destruct (ask_evinfo s) as [[s0 [[[c1 c2] c3] ovf]] o0] eqn:E0.
    inv_pair E. unfold ask_evinfo in E0.
    destruct (s_answers s) as [|[] rest]; inv_pair E0; destruct (s_last_bcast _) as [[]|]; reflexivity. }
  inv_pair H. exists o1. rewrite bcast_reported_sol_buf. repeat split; auto.
  - destruct (s_last_bcast s1) as [[]|]; reflexivity.
  - destruct (s_last_bcast s1) as [[]|]; try reflexivity.
    cbn [with_ctl r_ctl or_iin]. apply ctl_seq_set_con.
  - destruct (s_last_bcast s1) as [[]|]; reflexivity.
Qed.

Lemma write_solicited_out : forall s d r s' r' o,
  write_solicited s d r = (s', r', o) -> r_fn r = 129 -> Forall solob o /\ r_fn r' = 129.
Proof.
  intros s d r s' r' o H Hr. apply write_solicited_spec in H.
  destruct H as (o1 & -> & Ho & Hf & _). split; [|congruence].
  apply Forall_app; split; [eapply Forall_imp; [apply evq_solob|exact Ho]|].
  constructor; [|constructor]. cbn [solob]. rewrite nth1_response_bytes. congruence.
Qed.

(* ---------- outputs of request execution -------------------------------------------------------- *)

Lemma write_iin_bits_out : forall bits s s' v o, write_iin_bits s bits = (s', v, o) -> Forall exob o.
Proof.
  induction bits as [|[idx value] rest IH]; intros s s' v o H; cbn [write_iin_bits] in H.
  - inv_pair H. constructor.
  - destruct (idx =? 7).
    + destruct value.
      * destruct (write_iin_bits s rest) as [[s1 v1] o1] eqn:E. inv_pair H. eauto.
      * destruct (write_iin_bits (upd_restart s false) rest) as [[s1 v1] o1] eqn:E. inv_pair H.
        constructor; [exact I|eauto].
    + destruct (write_iin_bits s rest) as [[s1 v1] o1] eqn:E. inv_pair H. eauto.
Qed.

Lemma write_header_out : forall cfg s h s' v o, write_header cfg s h = (s', v, o) -> Forall exob o.
Proof.
  intros cfg s h s' v o H. unfold write_header in H.
  destruct h as [bits|t|t| | | | | | | |]; try (inv_pair H; fa_tac).
  - eapply write_iin_bits_out; eauto.
  - destruct t; inv_pair H; fa_tac.
  - destruct t as [t|]; [|inv_pair H; fa_tac].
    destruct (s_last_recorded s); [|inv_pair H; fa_tac].
    destruct (_ <? _); inv_pair H; fa_tac.
Qed.

Lemma handle_write_headers_out : forall cfg hdrs s s' v o,
  handle_write_headers cfg s hdrs = (s', v, o) -> Forall exob o.
Proof.
  induction hdrs as [|h rest IH]; intros s s' v o H; cbn [handle_write_headers] in H.
  - inv_pair H. constructor.
  - destruct (write_header cfg s h) as [[s1 v1] o1] eqn:E1.
    destruct (handle_write_headers cfg s1 rest) as [[s2 v2] o2] eqn:E2.
    inv_pair H. apply Forall_app; split; [eapply write_header_out; eauto|eauto].
Qed.

Lemma freeze_header_out : forall cfg ft t i h v o, freeze_header cfg ft t i h = (v, o) -> Forall exob o.
Proof. intros cfg ft t i h v o H. unfold freeze_header in H. destruct h; inv_pair H; fa_tac. Qed.

Lemma handle_freeze_out : forall cfg ft hdrs v o, handle_freeze cfg ft hdrs = (v, o) -> Forall exob o.
Proof.
  induction hdrs as [|h rest IH]; intros v o H; cbn [handle_freeze] in H.
  - inv_pair H. constructor.
  - destruct (freeze_header cfg ft 0 0 h) as [v1 o1] eqn:E1.
    destruct (handle_freeze cfg ft rest) as [v2 o2] eqn:E2. inv_pair H.
    apply Forall_app; split; [eapply freeze_header_out; eauto|eauto].
Qed.

Lemma handle_freeze_at_time_out : forall cfg hdrs timing v o,
  handle_freeze_at_time cfg timing hdrs = (v, o) -> Forall exob o.
Proof.
  induction hdrs as [|h rest IH]; intros timing v o H; cbn [handle_freeze_at_time] in H.
  - inv_pair H. constructor.
  - assert (Hgen : forall v o,
      match timing with
      | None => let '(v, o) := handle_freeze_at_time cfg timing rest in (N.lor iin2_param v, o)
      | Some (t, i) =>
          let '(v1, o1) := freeze_header cfg 2 t i h in
          let '(v2, o2) := handle_freeze_at_time cfg timing rest in
          (N.lor v1 v2, o1 ++ o2)
      end = (v, o) -> Forall exob o).
    { intros v' o' H'. destruct timing as [[t i]|].
      - destruct (freeze_header cfg 2 t i h) as [v1 o1] eqn:E1.
        destruct (handle_freeze_at_time cfg (Some (t, i)) rest) as [v2 o2] eqn:E2. inv_pair H'.
        apply Forall_app; split; [eapply freeze_header_out; eauto|eauto].
      - destruct (handle_freeze_at_time cfg None rest) as [v2 o2] eqn:E2. inv_pair H'. eauto. }
    destruct h; try (apply Hgen in H; exact H).
    destruct x as [x|].
    + eauto.
    + destruct (handle_freeze_at_time cfg timing rest) as [v2 o2] eqn:E2. inv_pair H. eauto.
Qed.

Lemma ctl_one_header_out : forall s cfg cap mode g v prefix items written n hs num started w ok o st num' started',
  ctl_one_header s cfg cap mode g v prefix written n hs num started items = (w, ok, o, st, num', started') ->
  Forall exob o.
Proof.
  induction items as [|[idx obj] rest IH]; intros written n hs num started w ok o st num' started' H;
    cbn [ctl_one_header] in H.
  - inv_pair H. constructor.
  - destruct (item_status s cfg mode num) as [st0 consulted].
    destruct (echo_items cap g v prefix written n hs [(idx, replace_status obj st0)]) as [w1 ok1].
    assert (Hcb : Forall exob (if consulted
               then (if started then [] else [OCb CbBeginFragment]) ++
                    [OCb match mode with CmOperate t => CbOperate g v idx t obj | _ => CbSelect g v idx obj end]
               else [])).
    { destruct consulted, started; fa_tac. }
    destruct ok1.
    + destruct (ctl_one_header s cfg cap mode g v prefix w1 (n + 1) hs (num + 1) (started || consulted) rest)
        as [[[[[w2 ok2] cbs] st2] num2] started2] eqn:E.
      inv_pair H. apply Forall_app; split; [exact Hcb|eauto].
    + inv_pair H. exact Hcb.
Qed.

Lemma ctl_headers_out : forall s cfg cap mode hdrs written num started w ok o st started',
  ctl_headers s cfg cap mode written num started hdrs = (w, ok, o, st, started') -> Forall exob o.
Proof.
  induction hdrs as [|h rest IH]; intros written num started w ok o st started' H; cbn [ctl_headers] in H.
  - inv_pair H. constructor.
  - destruct h; eauto.
    destruct (ctl_one_header s cfg cap mode g v prefix written 0 (length written) num started items)
      as [[[[[w1 ok1] cbs] st1] num1] started1] eqn:E1.
    apply ctl_one_header_out in E1.
    destruct ok1.
    + destruct (ctl_headers s cfg cap mode w1 num1 started1 rest) as [[[[w2 ok2] cbs2] st2] started2] eqn:E2.
      inv_pair H. apply Forall_app; split; eauto.
    + inv_pair H. exact E1.
Qed.

Lemma noack_items_out : forall s cfg g v items num started o num' started',
  noack_items s cfg g v num started items = (o, num', started') -> Forall exob o.
Proof.
  induction items as [|[idx obj] rest IH]; intros num started o num' started' H; cbn [noack_items] in H.
  - inv_pair H. constructor.
  - destruct (noack_items s cfg g v (num + 1)
               (started || match o_max_controls cfg with None => true | Some m => num <? m end) rest)
      as [[cbs n1] st1] eqn:E.
    inv_pair H. apply Forall_app; split; [|eauto].
    destruct (match o_max_controls cfg with None => true | Some m => num <? m end), started; fa_tac.
Qed.

Lemma noack_headers_out : forall s cfg hdrs num started o started',
  noack_headers s cfg num started hdrs = (o, started') -> Forall exob o.
Proof.
  induction hdrs as [|h rest IH]; intros num started o started' H; cbn [noack_headers] in H.
  - inv_pair H. constructor.
  - destruct h; eauto.
    destruct (noack_items s cfg g v num started items) as [[cbs n1] st1] eqn:E1.
    destruct (noack_headers s cfg n1 st1 rest) as [cbs2 st2] eqn:E2.
    inv_pair H. apply Forall_app; split; [eapply noack_items_out; eauto|eauto].
Qed.

Definition sol_ctl (seq : N) : N := ctl_byte true true false false seq.

(* a response produced by executing a request *)
Definition req_resp (seq : N) (r : response) : Prop := r_fn r = 129 /\ r_ctl r = sol_ctl seq.

Lemma handle_controls_out : forall cfg s fn seq fid bytes hdrs s' r o,
  handle_controls cfg s fn seq fid bytes hdrs = (s', r, o) ->
  Forall exob o /\ (forall x, r = Some x -> req_resp seq x) /\ (r = None -> fn = 6).
Proof.
  intros cfg s fn seq fid bytes hdrs s' r o H. unfold handle_controls in H.
  assert (Hfin : forall b : bool, Forall exob (if b then [OCb CbEndFragment] else [])).
  { intros []; fa_tac. }
  destruct (negb (all_controls hdrs)).
  { inv_pair H. split; [constructor|]. split.
    - intros x Hx. destruct (fn =? fn_direct_operate_nr); inversion Hx; subst. split; reflexivity.
    - destruct (fn =? fn_direct_operate_nr) eqn:E; [|discriminate]. intros _. apply N.eqb_eq in E. exact E. }
  destruct (fn =? fn_direct_operate_nr) eqn:Enr.
  { destruct (noack_headers s cfg 0 false hdrs) as [cbs started] eqn:E. inv_pair H.
    split; [apply Forall_app; split; [eapply noack_headers_out; eauto|apply Hfin]|].
    split; [discriminate|]. intros _. apply N.eqb_eq in Enr. exact Enr. }
  destruct (fn =? fn_select).
  { destruct (ctl_headers s cfg (o_sol_tx cfg - 4) CmSelect [] 0 false hdrs) as [[[[echo ok] cbs] st] started] eqn:E.
    inv_pair H. split; [apply Forall_app; split; [eapply ctl_headers_out; eauto|apply Hfin]|].
    split; [|discriminate]. intros x Hx. inversion Hx; subst. split; reflexivity. }
  destruct (fn =? fn_direct_operate).
  { destruct (ctl_headers s cfg (o_sol_tx cfg - 4) (CmOperate OpDo) [] 0 false hdrs) as [[[[echo ok] cbs] st] started] eqn:E.
    inv_pair H. split; [apply Forall_app; split; [eapply ctl_headers_out; eauto|apply Hfin]|].
    split; [|discriminate]. intros x Hx. inversion Hx; subst. split; reflexivity. }
  destruct (match s_select s with Some sel => _ | None => _ end).
  - destruct (ctl_headers s cfg (o_sol_tx cfg - 4) (CmStatus n) [] 0 false hdrs) as [[[[echo ok] cbs] st] started] eqn:E.
    inv_pair H. split; [constructor|]. split; [|discriminate].
    intros x Hx. inversion Hx; subst. split; reflexivity.
  - destruct (ctl_headers s cfg (o_sol_tx cfg - 4) (CmOperate OpSbo) [] 0 false hdrs) as [[[[echo ok] cbs] st] started] eqn:E.
    inv_pair H. split; [apply Forall_app; split; [eapply ctl_headers_out; eauto|apply Hfin]|].
    split; [|discriminate]. intros x Hx. inversion Hx; subst. split; reflexivity.
Qed.

Lemma frame_gview : forall s s', frame s s' -> gview s' = gview s /\ s_enabled s' = s_enabled s.
Proof. unfold frame, fview, gview. intros s s' H. split; congruence. Qed.

Definition noresp_fn (fn : N) : Prop := fn = 6 \/ fn = 8 \/ fn = 10 \/ fn = 12.

Lemma restart_response_resp : forall seq s d s' r, restart_response seq s d = (s', r) -> req_resp seq r.
Proof.
  intros seq s d s' r H. unfold restart_response in H.
  destruct d as [[ms v]|]; inv_pair H; split; reflexivity.
Qed.

Lemma req_resp_empty : forall seq v, req_resp seq (empty_solicited seq v).
Proof. intros; split; reflexivity. Qed.

Definition enabled_change (cfg : ocfg) (fn : N) (hdrs : list whdr) (s s' : ostate) : Prop :=
  s_enabled s' = s_enabled s \/
  (o_unsol cfg = true /\ (fn = 20 \/ fn = 21) /\ s_enabled s' = set_classes (fn =? 20) hdrs (s_enabled s)).

Ltac spl := split; [|split; [|split; [|split]]].

Lemma handle_non_read_spec : forall cfg s fn seq fid bytes hdrs s' r o,
  handle_non_read cfg s fn seq fid bytes hdrs = (s', r, o) ->
  gview s' = gview s /\ Forall exob o /\
  (forall x, r = Some x -> req_resp seq x) /\ (r = None -> noresp_fn fn) /\
  enabled_change cfg fn hdrs s s'.
Proof.
  intros cfg s fn seq fid bytes hdrs s' r o H. unfold handle_non_read in H. cbv beta zeta in H.
  match type of H with (let '(_, _) := ?X in _) = _ => destruct X as [[s1 r1] o1] eqn:E end.
  inv_pair H.
  assert (Hin : gview s' = gview s /\ Forall exob o /\
                (forall x, r1 = Some x -> req_resp seq x) /\ (r1 = None -> noresp_fn fn) /\
                enabled_change cfg fn hdrs s s').
  2:{ destruct Hin as (Hg & Ho & Hr & Hn & He). spl; auto.
      - intros x Hx. destruct r1 as [r1|]; [|discriminate]. inversion Hx; subst.
        destruct (Hr r1 eq_refl) as [Hf Hc]. split; [exact Hf|exact Hc].
      - intros Hx. destruct r1; [discriminate|]. auto. }
  assert (Hfr : forall s0, frame s s0 -> gview s0 = gview s /\ enabled_change cfg fn hdrs s s0).
  { intros s0 Hf. apply frame_gview in Hf. destruct Hf as [Hg He]. split; [exact Hg|left; exact He]. }
  assert (Hsome : forall x v, Some (empty_solicited seq v) = Some x -> req_resp seq x).
  { intros x v Hx. inversion Hx; subst. apply req_resp_empty. }
  destruct (fn =? fn_write) eqn:E1.
  { destruct (handle_write_headers cfg s hdrs) as [[s2 v] o2] eqn:E2. inv_pair E.
    destruct (Hfr _ (handle_write_headers_frame _ _ _ _ _ _ E2)) as [Hg He].
    spl; eauto using handle_write_headers_out. discriminate. }
  destruct (fn =? fn_delay_measure) eqn:E2.
  { inv_pair E. destruct (Hfr s (frame_refl _)) as [Hg He].
    spl; [reflexivity|constructor| |discriminate|left; reflexivity].
    intros x Hx. inversion Hx; subst. split; reflexivity. }
  destruct (fn =? fn_record_time) eqn:E3.
  { inv_pair E. spl; [reflexivity|constructor|eauto|discriminate|left; reflexivity]. }
  destruct (fn =? fn_cold_restart) eqn:E4.
  { destruct (restart_response seq s (o_cold cfg)) as [s2 r2] eqn:Er. inv_pair E.
    destruct (Hfr _ (restart_response_frame _ _ _ _ _ Er)) as [Hg He].
    spl; [exact Hg|fa_tac| |discriminate|exact He].
    intros x Hx. inversion Hx; subst. eapply restart_response_resp; eauto. }
  destruct (fn =? fn_warm_restart) eqn:E5.
  { destruct (restart_response seq s (o_warm cfg)) as [s2 r2] eqn:Er. inv_pair E.
    destruct (Hfr _ (restart_response_frame _ _ _ _ _ Er)) as [Hg He].
    spl; [exact Hg|fa_tac| |discriminate|exact He].
    intros x Hx. inversion Hx; subst. eapply restart_response_resp; eauto. }
  destruct ((fn =? fn_select) || (fn =? fn_operate) || (fn =? fn_direct_operate) || (fn =? fn_direct_operate_nr)) eqn:E6.
  { destruct (Hfr _ (handle_controls_frame _ _ _ _ _ _ _ _ _ _ E)) as [Hg He].
    destruct (handle_controls_out _ _ _ _ _ _ _ _ _ _ E) as (Ho & Hr & Hn).
    spl; auto. intros Hx. left. auto. }
  destruct (fn =? fn_immediate_freeze) eqn:E7.
  { destruct (handle_freeze cfg 0 hdrs) as [v o2] eqn:Ef. inv_pair E.
    destruct (Hfr s' (frame_refl _)) as [Hg He].
    spl; eauto using handle_freeze_out. discriminate. }
  destruct (fn =? fn_immediate_freeze_nr) eqn:E8.
  { destruct (handle_freeze cfg 0 hdrs) as [v o2] eqn:Ef. inv_pair E.
    destruct (Hfr s' (frame_refl _)) as [Hg He]. apply N.eqb_eq in E8.
    spl; eauto using handle_freeze_out; try discriminate. intros _. right; left. exact E8. }
  destruct (fn =? fn_freeze_clear) eqn:E9.
  { destruct (handle_freeze cfg 1 hdrs) as [v o2] eqn:Ef. inv_pair E.
    destruct (Hfr s' (frame_refl _)) as [Hg He].
    spl; eauto using handle_freeze_out. discriminate. }
  destruct (fn =? fn_freeze_clear_nr) eqn:E10.
  { destruct (handle_freeze cfg 1 hdrs) as [v o2] eqn:Ef. inv_pair E.
    destruct (Hfr s' (frame_refl _)) as [Hg He]. apply N.eqb_eq in E10.
    spl; eauto using handle_freeze_out; try discriminate. intros _. right; right; left. exact E10. }
  destruct (fn =? fn_freeze_at_time) eqn:E11.
  { destruct (handle_freeze_at_time cfg None hdrs) as [v o2] eqn:Ef. inv_pair E.
    destruct (Hfr s' (frame_refl _)) as [Hg He].
    spl; eauto using handle_freeze_at_time_out. discriminate. }
  destruct (fn =? fn_freeze_at_time_nr) eqn:E12.
  { destruct (handle_freeze_at_time cfg None hdrs) as [v o2] eqn:Ef. inv_pair E.
    destruct (Hfr s' (frame_refl _)) as [Hg He]. apply N.eqb_eq in E12.
    spl; eauto using handle_freeze_at_time_out; try discriminate. intros _. right; right; right. exact E12. }
  assert (Hed : forall en s2 r2 x, enable_disable cfg s en seq hdrs = (s2, r2) -> Some r2 = Some x -> req_resp seq x).
  { intros en s2 r2 x Ee' Hx. inversion Hx; subst. unfold enable_disable in Ee'.
    destruct (negb (o_unsol cfg)); [inv_pair Ee'; apply req_resp_empty|].
    destruct (fold_left _ hdrs (s_enabled s, 0)) as [e v]. inv_pair Ee'. apply req_resp_empty. }
  destruct (fn =? fn_enable_unsol) eqn:E13.
  { destruct (enable_disable cfg s true seq hdrs) as [s2 r2] eqn:Ee. inv_pair E.
    pose proof Ee as Ee'. apply enable_disable_spec in Ee. destruct Ee as [Hg He].
    apply N.eqb_eq in E13. subst fn.
    spl; [exact Hg|constructor|intros x Hx; eapply Hed; eauto|discriminate|].
    destruct (o_unsol cfg) eqn:Eu; [right|left; exact He]. split; [exact Eu|]. split; [left; reflexivity|exact He]. }
  destruct (fn =? fn_disable_unsol) eqn:E14.
  { destruct (enable_disable cfg s false seq hdrs) as [s2 r2] eqn:Ee. inv_pair E.
    pose proof Ee as Ee'. apply enable_disable_spec in Ee. destruct Ee as [Hg He].
    apply N.eqb_eq in E14. subst fn.
    spl; [exact Hg|constructor|intros x Hx; eapply Hed; eauto|discriminate|].
    destruct (o_unsol cfg) eqn:Eu; [right|left; exact He]. split; [exact Eu|]. split; [right; reflexivity|exact He]. }
  inv_pair E. destruct (Hfr s' (frame_refl _)) as [Hg He].
  spl; [exact Hg|constructor|eauto|discriminate|exact He].
Qed.

(* ---------- READ responses, broadcast, error responses --------------------------------------------- *)

Lemma ctl_seq_ctl_byte : forall a b c d q, ctl_seq (ctl_byte a b c d q) = q mod 16.
Proof. intros a b c d q. unfold ctl_seq, ctl_byte. destruct a, b, c, d; lia. Qed.

Definition dbq (o : oobs) : Prop :=
  match o with ODb DbSelect | ODb DbWrite | ODb DbEvinfo | OMissingAnswer => True | _ => False end.

Lemma dbq_solob : forall o, dbq o -> solob o.
Proof. intros [] H; try destruct H; try exact I. destruct c; try destruct H; exact I. Qed.

Lemma evq_dbq : forall o, evq o -> dbq o.
Proof. intros o [H|H]; subst; exact I. Qed.

Lemma format_read_response_spec : forall s fir seq iin2 s' r se o,
  format_read_response s fir seq iin2 = (s', r, se, o) ->
  frame s s' /\ r_fn r = 129 /\ ctl_seq (r_ctl r) = seq mod 16 /\ Forall dbq o /\
  (forall x, se = Some x -> se_ecsn x = seq).
Proof.
  intros s fir seq iin2 s' r se o H. unfold format_read_response in H.
  destruct (ask_write s) as [[s1 [[complete has_events] body]] o1] eqn:E.
  pose proof (ask_write_frame _ _ _ _ E) as Hf. inv_pair H.
  split; [eapply frame_trans; [exact Hf|reflexivity]|].
  split; [reflexivity|]. split; [apply ctl_seq_ctl_byte|]. split.
  - unfold ask_write in E. destruct (s_answers s) as [|[] rest]; inv_pair E; fa_tac.
  - intros x Hx. destruct (has_events || negb complete); inversion Hx; subst. reflexivity.
Qed.

Lemma ask_iin2_out : forall s c s' v o, ask_iin2 s c = (s', v, o) ->
  o = [ODb c] \/ o = [ODb c; OMissingAnswer].
Proof.
  intros s c s' v o H. unfold ask_iin2 in H.
  destruct (s_answers s) as [|[] rest]; inv_pair H; auto.
Qed.

Lemma format_first_read_response_spec : forall s seq s' r se o,
  format_first_read_response s seq = (s', r, se, o) ->
  frame s s' /\ r_fn r = 129 /\ ctl_seq (r_ctl r) = seq mod 16 /\ Forall dbq o.
Proof.
  intros s seq s' r se o H. unfold format_first_read_response in H.
  destruct (ask_iin2 s DbSelect) as [[s1 iin2] o1] eqn:E1.
  destruct (format_read_response s1 true seq iin2) as [[[s2 r2] se2] o2] eqn:E2.
  inv_pair H. apply format_read_response_spec in E2. destruct E2 as (Hf & Hr & Hc & Ho & _).
  split; [eapply frame_trans; [eapply ask_iin2_frame; eauto|exact Hf]|].
  split; [exact Hr|]. split; [exact Hc|].
  apply Forall_app; split; [|exact Ho].
  destruct (ask_iin2_out _ _ _ _ _ E1) as [-> | ->]; fa_tac.
Qed.

Lemma process_broadcast_spec : forall cfg s m fid ctl fn bytes obj s' o,
  process_broadcast cfg s m fid ctl fn bytes obj = (s', o) ->
  gview s' = gview s /\ Forall solob o /\
  (s_enabled s' = s_enabled s \/
   exists hdrs rh, obj = ObjOk hdrs rh /\ o_broadcast cfg = true /\
                   enabled_change cfg fn hdrs s s').
Proof.
  intros cfg s m fid ctl fn bytes obj s' o H. unfold process_broadcast in H.
  assert (H0 : gview (upd_bcast_rep (upd_last_bcast s (Some m)) None) = gview s) by reflexivity.
  assert (He0 : s_enabled (upd_bcast_rep (upd_last_bcast s (Some m)) None) = s_enabled s) by reflexivity.
  set (s0 := upd_bcast_rep (upd_last_bcast s (Some m)) None) in *.
  assert (Hfr : forall s1, frame s0 s1 -> gview s1 = gview s /\ s_enabled s1 = s_enabled s).
  { intros s1 Hf. apply frame_gview in Hf. destruct Hf as [Hg He]. split; congruence. }
  destruct (negb (o_broadcast cfg)) eqn:Eb.
  { inv_pair H. split; [exact H0|]. split; [fa_tac|left; exact He0]. }
  destruct obj as [iin2|hdrs rh].
  { inv_pair H. split; [exact H0|]. split; [fa_tac|left; exact He0]. }
  cbv zeta in H.
  assert (Hdone : forall o1, Forall exob o1 -> Forall solob (o1 ++ [OInfo (IBroadcast fn 0 0)])).
  { intros o1 Ho1. apply Forall_app; split; [eapply Forall_imp; [apply exob_solob|exact Ho1]|fa_tac]. }
  destruct (fn =? fn_write).
  { destruct (handle_write_headers cfg s0 hdrs) as [[s1 v] o1] eqn:E. inv_pair H.
    destruct (Hfr _ (handle_write_headers_frame _ _ _ _ _ _ E)) as [Hg He].
    split; [exact Hg|]. split; [apply Hdone; eapply handle_write_headers_out; eauto|left; exact He]. }
  destruct (fn =? fn_direct_operate_nr).
  { destruct (handle_controls cfg s0 fn (ctl_seq ctl) fid bytes hdrs) as [[s1 r1] o1] eqn:E. inv_pair H.
    destruct (Hfr _ (handle_controls_frame _ _ _ _ _ _ _ _ _ _ E)) as [Hg He].
    destruct (handle_controls_out _ _ _ _ _ _ _ _ _ _ E) as (Ho & _).
    split; [exact Hg|]. split; [apply Hdone; exact Ho|left; exact He]. }
  destruct (fn =? fn_immediate_freeze_nr).
  { destruct (handle_freeze cfg 0 hdrs) as [v o1] eqn:E. inv_pair H.
    split; [exact H0|]. split; [apply Hdone; eapply handle_freeze_out; eauto|left; exact He0]. }
  destruct (fn =? fn_freeze_clear_nr).
  { destruct (handle_freeze cfg 1 hdrs) as [v o1] eqn:E. inv_pair H.
    split; [exact H0|]. split; [apply Hdone; eapply handle_freeze_out; eauto|left; exact He0]. }
  destruct (fn =? fn_freeze_at_time_nr).
  { destruct (handle_freeze_at_time cfg None hdrs) as [v o1] eqn:E. inv_pair H.
    split; [exact H0|]. split; [apply Hdone; eapply handle_freeze_at_time_out; eauto|left; exact He0]. }
  destruct (fn =? fn_record_time).
  { inv_pair H. split; [reflexivity|]. split; [apply (Hdone []); constructor|left; reflexivity]. }
  assert (Hb : o_broadcast cfg = true) by (destruct (o_broadcast cfg); [reflexivity|discriminate]).
  destruct (fn =? fn_disable_unsol) eqn:E21.
  { destruct (enable_disable cfg s0 false (ctl_seq ctl) hdrs) as [s1 r1] eqn:E. inv_pair H.
    apply enable_disable_spec in E. destruct E as [Hg He]. apply N.eqb_eq in E21. subst fn.
    split; [congruence|]. split; [apply (Hdone []); constructor|].
    right. exists hdrs, rh. split; [reflexivity|]. split; [exact Hb|].
    unfold enabled_change. destruct (o_unsol cfg) eqn:Eu; [right|left; congruence].
    split; [first [exact Eu|reflexivity]|]. split; [right; reflexivity|]. rewrite He, He0. reflexivity. }
  destruct (fn =? fn_enable_unsol) eqn:E20.
  { destruct (enable_disable cfg s0 true (ctl_seq ctl) hdrs) as [s1 r1] eqn:E. inv_pair H.
    apply enable_disable_spec in E. destruct E as [Hg He]. apply N.eqb_eq in E20. subst fn.
    split; [congruence|]. split; [apply (Hdone []); constructor|].
    right. exists hdrs, rh. split; [reflexivity|]. split; [exact Hb|].
    unfold enabled_change. destruct (o_unsol cfg) eqn:Eu; [right|left; congruence].
    split; [first [exact Eu|reflexivity]|]. split; [left; reflexivity|]. rewrite He, He0. reflexivity. }
  inv_pair H. split; [exact H0|]. split; [fa_tac|left; exact He0].
Qed.

(* a DISABLE_UNSOLICITED processed by broadcast: the only observation is the report of the processing *)
Lemma process_broadcast_disable : forall cfg s m fid ctl fn bytes obj s' o,
  bcast_disable_processed cfg fn obj = true ->
  process_broadcast cfg s m fid ctl fn bytes obj = (s', o) ->
  fn = 21 /\ o = [OInfo (IBroadcast 21 0 0)].
Proof.
  intros cfg s m fid ctl fn bytes obj s' o Hb H. unfold bcast_disable_processed in Hb.
  apply andb_prop in Hb. destruct Hb as [Hb Hobj]. apply andb_prop in Hb. destruct Hb as [Hbc Hfn].
  apply N.eqb_eq in Hfn. subst fn. destruct obj as [iin2|hdrs rh]; [discriminate Hobj|].
  unfold process_broadcast in H. rewrite Hbc in H. cbn [negb] in H. cbv zeta in H.
  change (fn_disable_unsol =? fn_write) with false in H.
  change (fn_disable_unsol =? fn_direct_operate_nr) with false in H.
  change (fn_disable_unsol =? fn_immediate_freeze_nr) with false in H.
  change (fn_disable_unsol =? fn_freeze_clear_nr) with false in H.
  change (fn_disable_unsol =? fn_freeze_at_time_nr) with false in H.
  change (fn_disable_unsol =? fn_record_time) with false in H.
  change (fn_disable_unsol =? fn_disable_unsol) with true in H. cbv iota in H.
  destruct (enable_disable cfg _ false (ctl_seq ctl) hdrs) as [s1 r1]. inv_pair H.
  split; reflexivity.
Qed.

Lemma write_error_response_spec : forall s from bc seq s' o,
  write_error_response s from bc seq = (s', o) -> frame s s' /\ Forall solob o.
Proof.
  intros s from bc seq s' o H. unfold write_error_response in H.
  destruct bc as [m|]; [inv_pair H; split; [reflexivity|constructor]|].
  destruct seq as [q|]; [|inv_pair H; split; [reflexivity|constructor]].
  destruct (write_solicited s from (empty_solicited q iin2_no_func)) as [[s1 r1] o1] eqn:E.
  inv_pair H. split; [eapply write_solicited_frame; eauto|].
  eapply write_solicited_out; eauto.
Qed.

(* ---------- classification ---------------------------------------------------------------------- *)

Lemma to_treq_request : forall cfg from d ctl fn obj,
  to_treq cfg from d = TqRequest ctl fn obj -> d = DOk ctl fn RvOk obj.
Proof.
  intros cfg from d ctl fn obj H. unfold to_treq in H.
  destruct (_ && _); [discriminate|].
  destruct d as [|q c|c f rv ob]; try discriminate. destruct rv; [|discriminate].
  inversion H; subst. reflexivity.
Qed.

Definition last_response (s : ostate) : option response :=
  match s_last s with Some l => lr_response l | None => None end.

Lemma classify_cases : forall s bc bytes ctl fn obj,
  match classify s bc bytes ctl fn obj with
  | FtMalformed iin2 => bc = None /\ obj = ObjErr iin2 /\ fn <> 0
  | FtNewRead hdrs rh => bc = None /\ obj = ObjOk hdrs rh /\ fn = 1
  | FtRepeatRead resp hdrs rh => bc = None /\ obj = ObjOk hdrs rh /\ fn = 1 /\ resp = last_response s
  | FtNewNonRead hdrs => bc = None /\ (exists rh, obj = ObjOk hdrs rh) /\ fn <> 1 /\ fn <> 0
  | FtRepeatNonRead resp => bc = None /\ resp = last_response s /\ fn <> 1 /\ fn <> 0
  | FtBroadcast m => bc = Some m
  | FtSolConfirm q => bc = None /\ fn = 0 /\ q = ctl_seq ctl /\ ctl_uns ctl = false
  | FtUnsolConfirm q => bc = None /\ fn = 0 /\ q = ctl_seq ctl /\ ctl_uns ctl = true
  end.
Proof.
  intros s bc bytes ctl fn obj. unfold classify.
  destruct bc as [m|]; [reflexivity|].
  destruct (fn =? fn_confirm) eqn:E0.
  { apply N.eqb_eq in E0. destruct (ctl_uns ctl) eqn:Eu; repeat split; auto. }
  apply N.eqb_neq in E0.
  destruct obj as [iin2|hdrs rh]; [repeat split; auto|].
  destruct (match s_last s with Some l => _ | None => false end).
  - destruct (fn =? fn_read) eqn:E1.
    + apply N.eqb_eq in E1. repeat split; auto.
    + apply N.eqb_neq in E1. repeat split; auto.
  - destruct (fn =? fn_read) eqn:E1.
    + apply N.eqb_eq in E1. repeat split; auto.
    + apply N.eqb_neq in E1. repeat split; eauto.
Qed.

Definition last_ok (s : ostate) : Prop :=
  forall l r, s_last s = Some l -> lr_response l = Some r -> r_fn r = 129.

Lemma last_ok_response : forall s r, last_ok s -> last_response s = Some r -> r_fn r = 129.
Proof.
  intros s r H Hl. unfold last_response in Hl. destruct (s_last s) as [l|] eqn:E; [|discriminate].
  eapply H; eauto.
Qed.

Lemma last_ok_mk : forall s seq bytes r se,
  (forall x, r = Some x -> r_fn x = 129) -> last_ok (upd_last s (mk_last seq bytes r se)).
Proof.
  intros s seq bytes r se H l x Hl Hx. cbn in Hl. inversion Hl; subst. cbn in Hx. auto.
Qed.

(* ---------- handle_one_request_from_idle ------------------------------------------------------------- *)

Definition add_con_series (se : option series) (r : response) : option series :=
  match se with
  | None => if ctl_con (r_ctl r) then Some {| se_ecsn := ctl_seq (r_ctl r); se_fin := true |} else None
  | x => x
  end.

(* the local `finish` of handle_from_idle *)
Definition hfi_finish (cfg : ocfg) (from fn seq : N) (bytes : list N)
           (s1 : ostate) (resp : option response) (se : option series) (repeat : bool) (o1 : list oobs)
  : ostate * list oobs :=
  let o0 := [OInfo (IIdleRequest fn seq)] in
  match resp with
  | Some r =>
      if repeat then
        let o2 := repeat_solicited s1 from r in
        let se' := add_con_series se r in
        let s2 := upd_last s1 (mk_last seq bytes (Some r) se') in
        match se' with
        | Some x => (upd_control s2 (CSolWait x (confirm_deadline cfg s2) RStep2), o0 ++ o1 ++ o2 ++ [OInfo (IEnterSolWait (se_ecsn x))])
        | None => (s2, o0 ++ o1 ++ o2)
        end
      else
        let '(s2, r', o2) := write_solicited s1 from r in
        let se' := add_con_series se r' in
        let s3 := upd_last s2 (mk_last seq bytes (Some r') se') in
        match se' with
        | Some x => (upd_control s3 (CSolWait x (confirm_deadline cfg s3) RStep2), o0 ++ o1 ++ o2 ++ [OInfo (IEnterSolWait (se_ecsn x))])
        | None => (s3, o0 ++ o1 ++ o2)
        end
  | None => (upd_last s1 (mk_last seq bytes None se), o0 ++ o1)
  end.

Lemma handle_from_idle_eq : forall cfg s from bc bytes d fid,
  handle_from_idle cfg s from bc bytes d fid =
  match to_treq cfg from d with
  | TqNone => (s, [])
  | TqError seq => write_error_response s from bc seq
  | TqRequest ctl fn obj =>
      let seq := ctl_seq ctl in
      let o0 := [OInfo (IIdleRequest fn seq)] in
      let finish := hfi_finish cfg from fn seq bytes in
      match classify s bc bytes ctl fn obj with
      | FtMalformed iin2 => finish s (Some (empty_solicited seq iin2)) None false []
      | FtNewRead _ _ | FtRepeatRead _ _ _ =>
          let '(s1, r, se, o1) := format_first_read_response s seq in finish s1 (Some r) se false o1
      | FtNewNonRead hdrs =>
          let '(s1, r, o1) := handle_non_read cfg s fn seq fid bytes hdrs in finish s1 r None false o1
      | FtRepeatNonRead last =>
          let s1 := match s_select s with
                    | Some sel =>
                        if (ss_frame_id sel + 1) mod 4294967296 =? fid
                        then upd_select s (Some {| ss_seq := ss_seq sel; ss_frame_id := fid;
                                                   ss_time := ss_time sel; ss_objects := ss_objects sel |})
                        else s
                    | None => s
                    end in
          finish s1 last None true []
      | FtBroadcast m =>
          let '(s1, o1) := process_broadcast cfg s m fid ctl fn bytes obj in (s1, o0 ++ o1)
      | FtSolConfirm _ | FtUnsolConfirm _ => (s, o0)
      end
  end.
Proof. reflexivity. Qed.

Definition ctl_step_sol (s s' : ostate) : Prop :=
  s_control s' = s_control s \/ exists x dl r, s_control s' = CSolWait x dl r.

Lemma hfi_finish_spec : forall cfg from fn seq bytes s1 resp se repeat o1 s' o,
  hfi_finish cfg from fn seq bytes s1 resp se repeat o1 = (s', o) ->
  (forall r, resp = Some r -> r_fn r = 129) -> Forall solob o1 ->
  uview s' = uview s1 /\ s_enabled s' = s_enabled s1 /\ ctl_step_sol s1 s' /\ Forall solob o /\ last_ok s'.
Proof.
  intros cfg from fn seq bytes s1 resp se repeat o1 s' o H Hr Ho1. unfold hfi_finish in H. cbv zeta in H.
  assert (Hi : solob (OInfo (IIdleRequest fn seq))) by exact I.
  destruct resp as [r|].
  - specialize (Hr r eq_refl). destruct repeat.
    + assert (Ho2 : Forall solob (repeat_solicited s1 from r)).
      { unfold repeat_solicited. constructor; [|constructor]. cbn [solob]. rewrite nth1_response_bytes. exact Hr. }
      destruct (add_con_series se r) as [x|]; inv_pair H.
      * split; [reflexivity|]. split; [reflexivity|]. split; [right; do 3 eexists; reflexivity|]. split.
        -- constructor; [exact Hi|]. fa_tac.
        -- intros l x0 Hl Hx. cbn in Hl. inversion Hl; subst. cbn in Hx. inversion Hx; subst. exact Hr.
      * split; [reflexivity|]. split; [reflexivity|]. split; [left; reflexivity|]. split.
        -- constructor; [exact Hi|]. fa_tac.
        -- apply last_ok_mk. intros x0 Hx. inversion Hx; subst. exact Hr.
    + destruct (write_solicited s1 from r) as [[s2 r'] o2] eqn:E.
      pose proof (write_solicited_frame _ _ _ _ _ _ E) as Hf. apply frame_gview in Hf.
      destruct Hf as [Hg He]. unfold gview in Hg.
      destruct (write_solicited_out _ _ _ _ _ _ E Hr) as [Ho2 Hr'].
      destruct (add_con_series se r') as [x|]; inv_pair H.
      * split; [transitivity (uview s2); [reflexivity|congruence]|]. split; [exact He|]. split; [right; do 3 eexists; reflexivity|]. split.
        -- constructor; [exact Hi|]. fa_tac.
        -- intros l x0 Hl Hx. cbn in Hl. inversion Hl; subst. cbn in Hx. inversion Hx; subst. exact Hr'.
      * split; [transitivity (uview s2); [reflexivity|congruence]|]. split; [exact He|]. split; [left; transitivity (s_control s2); [reflexivity|congruence]|]. split.
        -- constructor; [exact Hi|]. fa_tac.
        -- apply last_ok_mk. intros x0 Hx. inversion Hx; subst. exact Hr'.
  - inv_pair H. split; [reflexivity|]. split; [reflexivity|]. split; [left; reflexivity|]. split.
    + constructor; [exact Hi|]. exact Ho1.
    + apply last_ok_mk. discriminate.
Qed.

(* what a request does to the enabled classes *)
Definition enable_req (cfg : ocfg) (d : digest) (s s' : ostate) : Prop :=
  s_enabled s' = s_enabled s \/
  exists ctl fn hdrs rh, d = DOk ctl fn RvOk (ObjOk hdrs rh) /\ o_unsol cfg = true /\ (fn = 20 \/ fn = 21) /\
                         s_enabled s' = set_classes (fn =? 20) hdrs (s_enabled s).

Lemma enabled_change_req : forall cfg ctl fn hdrs rh s s' s1,
  enabled_change cfg fn hdrs s s1 -> s_enabled s' = s_enabled s1 ->
  enable_req cfg (DOk ctl fn RvOk (ObjOk hdrs rh)) s s'.
Proof.
  intros cfg ctl fn hdrs rh s s' s1 [H|(Hu & Hf & He)] Hs.
  - left. congruence.
  - right. exists ctl, fn, hdrs, rh. repeat split; auto. congruence.
Qed.

Lemma handle_from_idle_spec : forall cfg s from bc bytes d fid s' o,
  handle_from_idle cfg s from bc bytes d fid = (s', o) ->
  uview s' = uview s /\ ctl_step_sol s s' /\ enable_req cfg d s s' /\
  (last_ok s -> Forall solob o /\ last_ok s').
Proof.
  intros cfg s from bc bytes d fid s' o H. rewrite handle_from_idle_eq in H.
  destruct (to_treq cfg from d) as [|q|ctl fn obj] eqn:Et.
  - inv_pair H. split; [reflexivity|]. split; [left; reflexivity|]. split; [left; reflexivity|].
    intros Hl. split; [constructor|exact Hl].
  - apply write_error_response_spec in H. destruct H as [Hf Ho].
    apply frame_gview in Hf. destruct Hf as [Hg He]. unfold gview in Hg.
    split; [congruence|]. split; [left; congruence|]. split; [left; exact He|].
    intros Hl. split; [exact Ho|]. intros l r Hs. apply Hl. congruence.
  - apply to_treq_request in Et. subst d. cbv zeta in H.
    pose proof (classify_cases s bc bytes ctl fn obj) as Hc.
    assert (Hreads : (let '(s1, r, se, o1) := format_first_read_response s (ctl_seq ctl) in
                      hfi_finish cfg from fn (ctl_seq ctl) bytes s1 (Some r) se false o1) = (s', o) ->
            uview s' = uview s /\ ctl_step_sol s s' /\ s_enabled s' = s_enabled s /\ Forall solob o /\ last_ok s').
    { intros H'. destruct (format_first_read_response s (ctl_seq ctl)) as [[[s1 r] se] o1] eqn:E.
      apply format_first_read_response_spec in E. destruct E as (Hf & Hr & _ & Ho1).
      apply frame_gview in Hf. destruct Hf as [Hg He]. unfold gview in Hg.
      eapply hfi_finish_spec in H'.
      - destruct H' as (Hu & He' & Hc' & Ho & Hl). split; [congruence|].
        split; [destruct Hc' as [Hc'|Hc']; [left; congruence|right; exact Hc']|].
        split; [congruence|]. split; assumption.
      - intros x Hx. inversion Hx; subst. exact Hr.
      - eapply Forall_imp; [apply dbq_solob|exact Ho1]. }
    destruct (classify s bc bytes ctl fn obj) as [iin2|hdrs rh|resp hdrs rh|hdrs|resp|m|q|q].
    + eapply hfi_finish_spec in H; [|intros x Hx; inversion Hx; subst; reflexivity|constructor].
      destruct H as (Hu & He & Hc' & Ho & Hl).
      split; [exact Hu|]. split; [exact Hc'|]. split; [left; exact He|]. intros _. split; assumption.
    + apply Hreads in H. destruct H as (Hu & Hc' & He & Ho & Hl).
      split; [exact Hu|]. split; [exact Hc'|]. split; [left; exact He|]. intros _. split; assumption.
    + apply Hreads in H. destruct H as (Hu & Hc' & He & Ho & Hl).
      split; [exact Hu|]. split; [exact Hc'|]. split; [left; exact He|]. intros _. split; assumption.
    + destruct (handle_non_read cfg s fn (ctl_seq ctl) fid bytes hdrs) as [[s1 r] o1] eqn:E.
      apply handle_non_read_spec in E. destruct E as (Hg & Ho1 & Hr & _ & Hen). unfold gview in Hg.
      eapply hfi_finish_spec in H.
      * destruct H as (Hu & He & Hc' & Ho & Hl). split; [congruence|].
        split; [destruct Hc' as [Hc'|Hc']; [left; congruence|right; exact Hc']|].
        destruct Hc as (_ & [rh ->] & _).
        split; [eapply enabled_change_req; eauto|]. intros _. split; assumption.
      * intros x Hx. apply Hr in Hx. apply Hx.
      * eapply Forall_imp; [apply exob_solob|exact Ho1].
    + destruct Hc as (_ & -> & _). cbv zeta in H. clear Hreads.
      set (s1 := match s_select s with Some sel => _ | None => s end) in H.
      assert (Hs1 : uview s1 = uview s /\ s_control s1 = s_control s /\ s_enabled s1 = s_enabled s).
      { subst s1. destruct (s_select s); [destruct (_ =? _)|]; repeat split. }
      destruct Hs1 as (Hu1 & Hc1 & He1).
      split; [|split; [|split]].
      4:{ intros Hl. eapply hfi_finish_spec in H; [|intros x Hx; eapply last_ok_response; eauto|constructor].
          destruct H as (_ & _ & _ & Ho & Hl'). split; assumption. }
      all: destruct (last_response s) as [r|] eqn:El.
      all: unfold hfi_finish in H; cbv zeta in H.
      all: try (destruct (add_con_series None r) as [x|]; inv_pair H).
      all: try (inv_pair H).
      all: try (cbn; congruence).
      all: try (left; cbn; congruence).
      all: try (right; do 3 eexists; reflexivity).
      all: exact Hu1.
    + destruct (process_broadcast cfg s m fid ctl fn bytes obj) as [s1 o1] eqn:E. inv_pair H.
      apply process_broadcast_spec in E. destruct E as (Hg & Ho1 & Hen). unfold gview in Hg.
      split; [congruence|]. split; [left; congruence|]. split.
      * destruct Hen as [Hen|(hdrs & rh & -> & _ & Hen)]; [left; exact Hen|].
        eapply enabled_change_req; eauto.
      * intros Hl. split; [constructor; [exact I|exact Ho1]|].
        intros l r Hs. apply Hl. congruence.
    + inv_pair H. split; [reflexivity|]. split; [left; reflexivity|]. split; [left; reflexivity|].
      intros Hl. split; [fa_tac|exact Hl].
    + inv_pair H. split; [reflexivity|]. split; [left; reflexivity|]. split; [left; reflexivity|].
      intros Hl. split; [fa_tac|exact Hl].
Qed.

(* ---------- a fragment during the unsolicited confirm wait ------------------------------------------ *)

Definition wview (s : ostate) :=
  (s_unsol s, s_unsol_seq s, s_unsol_buf s, s_now s, s_pending s, s_control s).

Lemma gview_wview : forall a b, gview a = gview b ->
  wview a = wview b /\ s_deferred a = s_deferred b /\ s_last a = s_last b.
Proof. unfold gview, uview, wview. intros a b H. repeat split; congruence. Qed.

Lemma frame_wview : forall a b, frame a b ->
  wview b = wview a /\ s_deferred b = s_deferred a /\ s_last b = s_last a /\ s_enabled b = s_enabled a.
Proof.
  intros a b H. apply frame_gview in H. destruct H as [Hg He]. apply gview_wview in Hg.
  destruct Hg as (H1 & H2 & H3). repeat split; assumption.
Qed.

Lemma last_ok_same : forall s s', s_last s' = s_last s -> last_ok s -> last_ok s'.
Proof. intros s s' H Hl l r Hs. apply Hl. congruence. Qed.

Lemma enable_req_refl : forall cfg d s s', s_enabled s' = s_enabled s -> enable_req cfg d s s'.
Proof. intros. left. assumption. Qed.

Lemma unsol_wait_fragment_spec : forall cfg s resp from bc bytes d fid s1 res o,
  unsol_wait_fragment cfg s resp from bc bytes d fid = (s1, res, o) ->
  wview s1 = wview s /\ enable_req cfg d s s1 /\ (last_ok s -> last_ok s1) /\
  match res with
  | Some UrConfirmed =>
      o = [OInfo (IUnsolConfirmed (ctl_seq (r_ctl resp)))] /\ s_deferred s1 = s_deferred s /\
      s_enabled s1 = s_enabled s
  | Some UrReturnToIdle =>
      (* a DISABLE_UNSOLICITED: answered when addressed to this outstation, only reported when broadcast *)
      (last_ok s -> Forall solob o) /\ s_deferred s1 = None /\
      (exists ctl obj, d = DOk ctl 21 RvOk obj) /\
      match bc with
      | None => exists o1 b, o = o1 ++ [OTx from b]
      | Some _ => o = [OInfo (IBroadcast 21 0 0)]
      end
  | Some UrTimeout => False
  | None => last_ok s -> Forall solob o
  end.
Proof.
  intros cfg s resp from bc bytes d fid s1 res o H. unfold unsol_wait_fragment in H.
  destruct (to_treq cfg from d) as [|q|ctl fn obj] eqn:Et.
  { inv_pair H. split; [reflexivity|]. split; [left; reflexivity|]. split; [auto|]. intros _. constructor. }
  { destruct (write_error_response (upd_deferred s None) from bc q) as [s2 o2] eqn:E. inv_pair H.
    apply write_error_response_spec in E. destruct E as [Hf Ho]. apply frame_wview in Hf.
    destruct Hf as (Hw & _ & Hl & He).
    split; [rewrite Hw; reflexivity|]. split; [left; rewrite He; reflexivity|].
    split; [intros Hk; eapply last_ok_same; [|exact Hk]; rewrite Hl; reflexivity|]. intros _. exact Ho. }
  apply to_treq_request in Et. subst d. cbv zeta in H.
  pose proof (classify_cases s bc bytes ctl fn obj) as Hc.
  destruct (classify s bc bytes ctl fn obj) as [iin2|hdrs rh|rsp hdrs rh|hdrs|rsp|m|q|q].
  - (* malformed *)
    destruct (write_solicited (upd_deferred s None) from (empty_solicited (ctl_seq ctl) iin2)) as [[s2 r2] o2] eqn:E.
    inv_pair H. pose proof (write_solicited_frame _ _ _ _ _ _ E) as Hf. apply frame_wview in Hf.
    destruct Hf as (Hw & _ & Hl & He).
    split; [rewrite Hw; reflexivity|]. split; [left; rewrite He; reflexivity|].
    split; [intros Hk; eapply last_ok_same; [|exact Hk]; rewrite Hl; reflexivity|]. intros _.
    eapply write_solicited_out; eauto.
  - inv_pair H. split; [reflexivity|]. split; [left; reflexivity|]. split; [auto|]. intros _. constructor.
  - inv_pair H. split; [reflexivity|]. split; [left; reflexivity|]. split; [auto|]. intros _. constructor.
  - (* new non-read *)
    destruct (handle_non_read cfg (upd_deferred s None) fn (ctl_seq ctl) fid bytes hdrs) as [[s2 r] o1] eqn:E1.
    apply handle_non_read_spec in E1. destruct E1 as (Hg & Ho1 & Hr & Hn & Hen).
    apply gview_wview in Hg. destruct Hg as (Hw & Hd & Hl).
    destruct Hc as (Hbc & [rh ->] & Hf1 & Hf0).
    assert (Hen' : forall s3, s_enabled s3 = s_enabled s2 -> enable_req cfg (DOk ctl fn RvOk (ObjOk hdrs rh)) s s3).
    { intros s3 H3. eapply enabled_change_req; [|exact H3].
      destruct Hen as [Hen|(Hu & Hfn & Hen)]; [left; exact Hen|right; repeat split; auto]. }
    destruct r as [r0|].
    + destruct (write_solicited s2 from r0) as [[s3 r1] o2] eqn:E2. inv_pair H.
      pose proof (write_solicited_frame _ _ _ _ _ _ E2) as Hf. apply frame_wview in Hf.
      destruct Hf as (Hw3 & Hd3 & Hl3 & He3).
      destruct (Hr r0 eq_refl) as [Hr0 _].
      destruct (write_solicited_out _ _ _ _ _ _ E2 Hr0) as [Ho2 Hr1].
      split; [transitivity (wview s3); [reflexivity|]; rewrite Hw3, Hw; reflexivity|].
      split; [apply Hen'; exact He3|].
      split; [intros _; apply last_ok_mk; intros x Hx; inversion Hx; subst; exact Hr1|].
      assert (Hout : Forall solob (o1 ++ o2)).
      { apply Forall_app; split; [eapply Forall_imp; [apply exob_solob|exact Ho1]|exact Ho2]. }
      destruct (fn =? fn_disable_unsol) eqn:E21; [|intros _; exact Hout].
      apply N.eqb_eq in E21. subst fn.
      split; [intros _; exact Hout|]. split; [cbn; rewrite Hd3, Hd; reflexivity|].
      split; [eauto|].
      apply write_solicited_spec in E2. destruct E2 as (o' & -> & _).
      exists (o1 ++ o'). eexists. rewrite app_assoc. reflexivity.
    + inv_pair H.
      split; [transitivity (wview s2); [reflexivity|]; rewrite Hw; reflexivity|].
      split; [apply Hen'; reflexivity|].
      split; [intros _; apply last_ok_mk; discriminate|].
      destruct (fn =? fn_disable_unsol) eqn:E21.
      * apply N.eqb_eq in E21. subst fn. destruct (Hn eq_refl) as [X|[X|[X|X]]]; discriminate X.
      * intros _. rewrite app_nil_r. eapply Forall_imp; [apply exob_solob|exact Ho1].
  - (* repeat non-read *)
    inv_pair H. split; [reflexivity|]. split; [left; reflexivity|]. split; [auto|].
    intros Hl. destruct Hc as (_ & -> & _). destruct (last_response s) as [r|] eqn:El; [|constructor].
    unfold repeat_solicited. constructor; [|constructor]. cbn [solob]. rewrite nth1_response_bytes.
    eapply last_ok_response; eauto.
  - (* broadcast *)
    destruct (process_broadcast cfg (upd_deferred s None) m fid ctl fn bytes obj) as [s2 o2] eqn:E. inv_pair H.
    pose proof (fun Hb => process_broadcast_disable _ _ _ _ _ _ _ _ _ _ Hb E) as Hdis.
    apply process_broadcast_spec in E. destruct E as (Hg & Ho & Hen).
    apply gview_wview in Hg. destruct Hg as (Hw & Hd & Hl).
    split; [rewrite Hw; reflexivity|]. split.
    { destruct Hen as [Hen|(hdrs & rh & -> & _ & Hen)]; [left; exact Hen|].
      eapply enabled_change_req; [|reflexivity].
      destruct Hen as [Hen|(Hu & Hfn & Hen)]; [left; exact Hen|right; repeat split; auto]. }
    split; [intros Hk; eapply last_ok_same; [|exact Hk]; rewrite Hl; reflexivity|].
    destruct (bcast_disable_processed cfg fn obj); [|intros _; exact Ho].
    (* fix F30: the broadcast DISABLE_UNSOLICITED ends the wait *)
    destruct (Hdis eq_refl) as [-> ->].
    split; [intros _; exact Ho|]. split; [rewrite Hd; reflexivity|]. split; [eauto|reflexivity].
  - (* solicited confirm *)
    inv_pair H. pose proof (bcast_confirmed_frame s false q) as Hf. apply frame_wview in Hf.
    destruct Hf as (Hw & _ & Hl & He).
    split; [exact Hw|]. split; [left; exact He|].
    split; [intros Hk; eapply last_ok_same; [|exact Hk]; exact Hl|].
    intros _. constructor.
  - (* unsolicited confirm *)
    destruct (q =? ctl_seq (r_ctl resp)) eqn:Eq.
    + apply N.eqb_eq in Eq. subst q. inv_pair H.
      pose proof (bcast_confirmed_frame s true (ctl_seq (r_ctl resp))) as Hf. apply frame_wview in Hf.
      destruct Hf as (Hw & Hd & Hl & He).
      split; [exact Hw|]. split; [left; exact He|].
      split; [intros Hk; eapply last_ok_same; [|exact Hk]; exact Hl|]. repeat split; assumption.
    + inv_pair H. split; [reflexivity|]. split; [left; reflexivity|]. split; [auto|]. intros _. constructor.
Qed.

(* ---------- the fields property C14 is about ---------------------------------------------------- *)

Definition kview (s : ostate) := (wview s, s_deferred s, s_enabled s, s_last s).

Definition is_uw (c : control) : bool := match c with CUnsolWait _ _ _ _ => true | _ => false end.

(* ---------- handle_deferred_read --------------------------------------------------------------- *)

Definition dview (s : ostate) :=
  (s_unsol s, s_unsol_seq s, s_unsol_buf s, s_now s, s_pending s, s_enabled s).

Lemma frame_dview : forall a b, frame a b -> dview b = dview a /\ s_control b = s_control a /\ s_deferred b = s_deferred a.
Proof. unfold frame, fview, uview, dview. intros a b H. repeat split; congruence. Qed.

Lemma handle_deferred_spec : forall cfg s ns s' o,
  handle_deferred cfg s ns = (s', o) ->
  match s_deferred s with
  | None => s' = s /\ o = []
  | Some d =>
      s_deferred s' = None /\ dview s' = dview s /\ ctl_step_sol s s' /\ last_ok s' /\
      exists o1 b o2, o = ODb DbDeferredSelect :: o1 ++ OTx (df_from d) b :: o2 /\ Forall dbq o1 /\
                      nth 1 b 0 = 129 /\ ctl_seq (nth 0 b 0) = df_seq d mod 16 /\
                      (o2 = [] \/ exists q, o2 = [OInfo (IEnterSolWait q)])
  end.
Proof.
  intros cfg s ns s' o H. unfold handle_deferred in H.
  destruct (s_deferred s) as [d|] eqn:Ed; [|inv_pair H; split; reflexivity].
  destruct (ask_iin2 (upd_notify (upd_deferred s None) true) DbDeferredSelect) as [[s1 iin2] o1] eqn:E1.
  destruct (format_read_response s1 true (df_seq d) (N.lor (df_iin2 d) iin2)) as [[[s2 r] se] o2] eqn:E2.
  destruct (write_solicited s2 (df_from d) r) as [[s3 r'] o3] eqn:E3.
  pose proof (ask_iin2_frame _ _ _ _ _ E1) as F1.
  apply format_read_response_spec in E2. destruct E2 as (F2 & Hr & Hc & Ho2 & _).
  pose proof (write_solicited_frame _ _ _ _ _ _ E3) as F3.
  pose proof (frame_trans _ _ _ (frame_trans _ _ _ F1 F2) F3) as F.
  apply frame_dview in F. destruct F as (Hd & Hctl & Hdef).
  apply write_solicited_spec in E3. destruct E3 as (o3' & -> & Ho3 & Hf' & Hc' & _).
  assert (Hout : forall tail, (tail = [] \/ exists q, tail = [OInfo (IEnterSolWait q)]) ->
     exists oa b ob, o1 ++ o2 ++ (o3' ++ [OTx (df_from d) (response_bytes r' (s_sol_buf s3))]) ++ tail
                     = ODb DbDeferredSelect :: oa ++ OTx (df_from d) b :: ob /\ Forall dbq oa /\
                       nth 1 b 0 = 129 /\ ctl_seq (nth 0 b 0) = df_seq d mod 16 /\
                       (ob = [] \/ exists q, ob = [OInfo (IEnterSolWait q)])).
  { intros tail Ht.
    assert (Ho1 : exists x, o1 = ODb DbDeferredSelect :: x /\ Forall dbq x).
    { destruct (ask_iin2_out _ _ _ _ _ E1) as [-> | ->]; eexists; split; try reflexivity; fa_tac. }
    destruct Ho1 as (x & -> & Hx).
    exists (x ++ o2 ++ o3'), (response_bytes r' (s_sol_buf s3)), tail.
    split; [cbn [app]; rewrite <- !app_assoc; reflexivity|].
    split; [repeat (apply Forall_app; split); auto; eapply Forall_imp; [apply evq_dbq|exact Ho3]|].
    split; [rewrite nth1_response_bytes; congruence|].
    split; [rewrite nth0_response_bytes; congruence|exact Ht]. }
  assert (Hlast : forall c sx, last_ok (upd_control (upd_last s3 (mk_last (df_seq d) (df_bytes d) (Some r') sx)) c)).
  { intros c sx l x Hl Hx. cbn in Hl. inversion Hl; subst. cbn in Hx. inversion Hx; subst. congruence. }
  match type of H with match ?X with _ => _ end = _ => destruct X as [x|] end; inv_pair H.
  - split; [cbn; rewrite Hdef; reflexivity|]. split; [exact Hd|].
    split; [right; do 3 eexists; reflexivity|]. split; [apply Hlast|].
    apply Hout. right. eauto.
  - split; [cbn; rewrite Hdef; reflexivity|]. split; [exact Hd|].
    split; [left; exact Hctl|]. split; [apply last_ok_mk; intros y Hy; inversion Hy; subst; congruence|].
    rewrite <- (app_nil_r (o3' ++ _)). apply Hout. left. reflexivity.
Qed.

(* ---------- check_unsolicited ------------------------------------------------------------------- *)

Definition uns_ctl (seq : N) : N := ctl_byte true true true true seq.

(* a series was started: the response written, the wait entered *)
Definition started (cfg : ocfg) (s s' : ostate) (is_null : bool) (size : nat) (buf : list N) (o : list oobs) : Prop :=
  exists r o1,
    o = o1 ++ [OTx (o_master cfg) (response_bytes r buf); OInfo (IEnterUnsolWait (ctl_seq (r_ctl r)))] /\
    Forall evq o1 /\ r_fn r = 130 /\ r_ctl r = uns_ctl (s_unsol_seq s) /\ r_size r = size /\
    s_control s' = CUnsolWait r is_null (if is_null then Some 0%nat else o_retries cfg)
                              (s_now s + o_confirm_ms cfg)%Z /\
    s_unsol_seq s' = seq16_next (s_unsol_seq s) /\ s_unsol_buf s' = buf /\
    s_unsol s' = s_unsol s /\ s_now s' = s_now s /\ s_deferred s' = s_deferred s /\
    s_pending s' = s_pending s /\ s_enabled s' = s_enabled s /\ s_last s' = s_last s.

Definition unsol_ready (s : ostate) (dl : option Z) : bool :=
  match dl with Some t => (t <=? s_now s)%Z | None => true end.

Lemma start_unsol_spec : forall cfg s0 s r n s' o,
  start_unsol cfg s r n = (s', o) ->
  r_fn r = 130 -> r_ctl r = uns_ctl (s_unsol_seq s0) -> s_unsol_seq s = seq16_next (s_unsol_seq s0) ->
  s_unsol s = s_unsol s0 -> s_now s = s_now s0 -> s_deferred s = s_deferred s0 -> s_pending s = s_pending s0 ->
  s_enabled s = s_enabled s0 -> s_last s = s_last s0 ->
  started cfg s0 s' n (r_size r) (s_unsol_buf s) o.
Proof.
  intros cfg s0 s r n s' o H Hf Hc Hq Hu Hn Hd Hp He Hl. unfold start_unsol in H.
  destruct (write_unsolicited cfg s r) as [[s1 r1] o1] eqn:E. inv_pair H.
  unfold write_unsolicited in E. destruct (response_iin s) as [[s2 iin] o2] eqn:Ei.
  remember (bcast_reported s2 (r_ctl (or_iin r iin))) as s1' eqn:Es1.
  rewrite <- (bcast_reported_unsol_buf s2 (r_ctl (or_iin r iin))), <- Es1 in E.
  assert (Hfr : frame s2 s1') by (subst s1'; apply bcast_reported_frame). clear Es1. inv_pair E.
  pose proof (response_iin_out _ _ _ _ Ei) as Ho2.
  apply response_iin_frame in Ei. pose proof (frame_trans _ _ _ Ei Hfr) as Ei'. clear Ei Hfr. rename Ei' into Ei.
  assert (Hv : uview s1 = uview s /\ s_enabled s1 = s_enabled s /\ s_last s1 = s_last s).
  { unfold frame, fview in Ei. repeat split; congruence. }
  destruct Hv as (Hv & He1 & Hl1). unfold uview in Hv.
  exists (or_iin r iin), o2. assert (Hb1 : s_unsol_buf s1 = s_unsol_buf s) by congruence.
  assert (Hn1 : s_now s1 = s_now s) by congruence.
  split; [rewrite <- app_assoc; cbn [app]; rewrite Hb1; reflexivity|].
  split; [exact Ho2|]. split; [exact Hf|]. split; [exact Hc|]. split; [reflexivity|].
  split; [cbn; unfold confirm_deadline; cbn; rewrite Hn1, Hn; reflexivity|].
  cbn. repeat split; congruence.
Qed.

Lemma check_unsolicited_spec : forall cfg s s' b o,
  check_unsolicited cfg s = (s', b, o) ->
  (o = [] /\ kview s' = kview s) \/
  (o_unsol cfg = true /\ s_unsol s = UNullRequired /\ started cfg s s' true 0 (s_unsol_buf s) o) \/
  (o_unsol cfg = true /\
   exists dl c1 c2 c3 body o',
     s_unsol s = UReady dl /\ unsol_ready s dl = true /\ any_enabled s = true /\ s_enabled s = (c1, c2, c3) /\
     o = ODb (DbWriteUnsol c1 c2 c3) :: o' /\
     started cfg s s' false (4 + length body) (buf_set (s_unsol_buf s) body) o').
Proof.
  intros cfg s s' b o H. unfold check_unsolicited in H.
  destruct (o_unsol cfg) eqn:Eu; cbn [negb] in H; [|inv_pair H; left; split; reflexivity].
  destruct (s_unsol s) as [|dl] eqn:Es.
  - destruct (start_unsol cfg (upd_unsol_seq s (seq16_next (s_unsol_seq s))) (unsol_header (s_unsol_seq s) 0) true)
      as [s2 o2] eqn:E. inv_pair H.
    right; left. split; [reflexivity|]. split; [reflexivity|].
    eapply (start_unsol_spec cfg s) in E; try reflexivity. exact E.
  - fold (unsol_ready s dl) in H. destruct (unsol_ready s dl) eqn:Er; cbn [negb] in H;
      [|inv_pair H; left; split; reflexivity].
    destruct (any_enabled s) eqn:Ea; cbn [negb] in H; [|inv_pair H; left; split; reflexivity].
    destruct (ask_unsol s) as [s1 [count body]] eqn:Ea1.
    assert (Hs1 : kview s1 = kview s /\ s_unsol_buf s1 = s_unsol_buf s /\ s_unsol_seq s1 = s_unsol_seq s).
    { unfold ask_unsol in Ea1. destruct (s_answers s) as [|[] rest]; inv_pair Ea1; repeat split. }
    destruct Hs1 as (Hk & Hb1 & Hq1).
    destruct (s_enabled s) as [[c1 c2] c3] eqn:Een.
    destruct (count =? 0); [inv_pair H; left; split; [reflexivity|]; rewrite Hk; unfold kview; rewrite Een; reflexivity|].
    match type of H with (let '(_, _) := ?X in _) = _ => destruct X as [s3 o3] eqn:E end. inv_pair H.
    right; right. split; [reflexivity|]. exists dl, c1, c2, c3, body, o3.
    split; [reflexivity|]. split; [first [exact Er|reflexivity]|]. split; [first [exact Ea|reflexivity]|]. split; [first [exact Een|reflexivity]|]. split; [reflexivity|].
    unfold kview, wview in Hk.
    eapply (start_unsol_spec cfg s) in E.
    + psimpl_in E. cbn [r_size unsol_header] in E. rewrite Hb1 in E. exact E.
    + reflexivity.
    + cbn [r_ctl unsol_header]. rewrite Hq1. reflexivity.
    + psimpl. rewrite Hq1. reflexivity.
    + psimpl. congruence.
    + psimpl. congruence.
    + psimpl. congruence.
    + psimpl. congruence.
    + psimpl. congruence.
    + psimpl. congruence.
Qed.

Lemma end_unsol_spec : forall cfg s n r s' ns o,
  end_unsol cfg s n r = (s', ns, o) ->
  s_control s' = CIdle /\
  (s_unsol_seq s', s_unsol_buf s', s_now s', s_pending s', s_deferred s', s_enabled s', s_last s') =
  (s_unsol_seq s, s_unsol_buf s, s_now s, s_pending s, s_deferred s, s_enabled s, s_last s) /\
  s_unsol s' = match r with
               | UrConfirmed => UReady None
               | _ => if n then UNullRequired else UReady (Some (s_now s + o_retry_delay_ms cfg)%Z)
               end /\
  o = (if n then [] else match r with UrConfirmed => [ODb DbClearWritten] | _ => [ODb DbReset] end) /\
  ns = (if n then true else match r with UrConfirmed => true | _ => (o_retry_delay_ms cfg <=? 0)%Z end).
Proof.
  intros cfg s n r s' ns o H. unfold end_unsol in H.
  destruct n, r; inv_pair H; repeat split.
Qed.

(* ---------- solicited confirm wait ---------------------------------------------------------------- *)

Lemma sol_wait_fragment_out : forall cfg s se dl from bc bytes d out o,
  sol_wait_fragment cfg s se dl from bc bytes d = (out, o) -> last_ok s -> Forall solob o.
Proof.
  intros cfg s se dl from bc bytes d out o H Hl. unfold sol_wait_fragment in H.
  destruct (to_treq cfg from d) as [|q|ctl fn obj]; [inv_pair H; constructor|inv_pair H; fa_tac|].
  pose proof (classify_cases s bc bytes ctl fn obj) as Hc.
  destruct (classify s bc bytes ctl fn obj) as [iin2|hdrs rh|rsp hdrs rh|hdrs|rsp|m|q|q];
    try (inv_pair H; fa_tac; fail).
  - destruct Hc as (_ & _ & _ & ->). inv_pair H.
    destruct (last_response s) as [r|] eqn:El; [|constructor].
    unfold repeat_solicited. constructor; [|constructor]. cbn [solob]. rewrite nth1_response_bytes.
    eapply last_ok_response; eauto.
  - destruct (q =? se_ecsn se); inv_pair H; fa_tac.
Qed.

(* ---------- a step of the session as a sequence of micro-steps --------------------------------- *)

Definition dec_retries (r : option nat) : option nat := match r with Some (S n) => Some n | x => x end.
Definition can_retry (r : option nat) : bool :=
  match r with None => true | Some O => false | Some (S _) => true end.

(* something the solicited confirm wait does *)
Record sol_step (s : ostate) (o : list oobs) (s' : ostate) : Prop := {
  sol_view : (s_unsol s', s_unsol_seq s', s_unsol_buf s', s_now s', s_deferred s', s_pending s', s_enabled s')
             = (s_unsol s, s_unsol_seq s, s_unsol_buf s, s_now s, s_deferred s, s_pending s, s_enabled s);
  sol_uw : is_uw (s_control s) = false /\ is_uw (s_control s') = false;
  sol_out : last_ok s -> Forall solob o /\ last_ok s'
}.

(* a fragment read during the unsolicited confirm wait, and the end of the wait if it ends it *)
Definition wait_rx (cfg : ocfg) (s : ostate) (resp : response) (n : bool) (from : N) (bc : option bcast_mode)
           (bytes : list N) (d : digest) (fid : N) (o : list oobs) (s' : ostate) : Prop :=
  exists s1 res o1, unsol_wait_fragment cfg s resp from bc bytes d fid = (s1, res, o1) /\
    match res with
    | None => s' = s1 /\ o = o1
    | Some r => exists ns o2, end_unsol cfg s1 n r = (s', ns, o2) /\ o = o1 ++ o2
    end.

Inductive micro (cfg : ocfg) (e : option oevent) : ostate -> list oobs -> ostate -> Prop :=
| mi_skip : forall s s', kview s' = kview s -> micro cfg e s [] s'
| mi_pend_set : forall s from bc bytes d fid,
    e = Some (ERx from bc bytes d) -> is_uw (s_control s) = false ->
    micro cfg e s [] (upd_pending s (Some (from, bc, bytes, d, fid)))
| mi_req : forall s from bc bytes d fid s' o,
    s_control s = CIdle -> s_pending s = Some (from, bc, bytes, d, fid) ->
    handle_from_idle cfg (upd_pending s None) from bc bytes d fid = (s', o) -> micro cfg e s o s'
| mi_sol : forall s o s', sol_step s o s' -> micro cfg e s o s'
| mi_check : forall s s' b o,
    s_control s = CIdle -> check_unsolicited cfg s = (s', b, o) -> micro cfg e s o s'
| mi_wait_ev : forall s resp n ret dl from bc bytes d fid o s',
    s_control s = CUnsolWait resp n ret dl -> e = Some (ERx from bc bytes d) ->
    wait_rx cfg s resp n from bc bytes d fid o s' -> micro cfg e s o s'
| mi_wait_pend : forall s resp n ret dl from bc bytes d fid o s',
    s_control s = CUnsolWait resp n ret dl -> s_pending s = Some (from, bc, bytes, d, fid) ->
    wait_rx cfg (upd_pending s None) resp n from bc bytes d fid o s' -> micro cfg e s o s'
| mi_deferred : forall s ns s' o,
    s_control s = CIdle -> handle_deferred cfg s ns = (s', o) -> micro cfg e s o s'
| mi_retry : forall s resp n ret dl t,
    s_control s = CUnsolWait resp n ret dl -> s_deferred s = None -> can_retry ret = true ->
    t = Z.max dl (s_now s) ->
    micro cfg e s (OAt t :: OInfo (IUnsolTimeout (ctl_seq (r_ctl resp)) true) :: repeat_unsolicited cfg s resp)
          (upd_control (upd_now s t) (CUnsolWait resp n (dec_retries ret) (t + o_confirm_ms cfg)%Z))
| mi_timeout : forall s resp n ret dl t s' ns o2,
    s_control s = CUnsolWait resp n ret dl -> (can_retry ret = false \/ s_deferred s <> None) ->
    t = Z.max dl (s_now s) -> end_unsol cfg (upd_now s t) n UrTimeout = (s', ns, o2) ->
    micro cfg e s (OAt t :: OInfo (IUnsolTimeout (ctl_seq (r_ctl resp)) false) :: o2) s'
| mi_sol_timeout : forall s se dl r t,
    s_control s = CSolWait se dl r -> t = Z.max dl (s_now s) ->
    micro cfg e s [OAt t; OInfo (ISolTimeout (se_ecsn se)); ODb DbReset] (upd_control (upd_now s t) CIdle)
| mi_tick : forall s t,
    s_control s = CIdle -> o_unsol cfg = true -> s_unsol s = UReady (Some t) -> (s_now s < t)%Z ->
    micro cfg e s [OAt t] (upd_now s t)
| mi_disconnect : forall s,
    e = Some EDisconnect ->
    micro cfg e s [ODb DbReset; OSessionEnd] (upd_pending (upd_control (session_reset s) CIdle) None)
| mi_fuel : forall s, micro cfg e s [OOutOfFuel] s.

Inductive micros (cfg : ocfg) (e : option oevent) : ostate -> list oobs -> ostate -> Prop :=
| ms_nil : forall s, micros cfg e s [] s
| ms_cons : forall s o1 s1 o2 s2 o,
    micro cfg e s o1 s1 -> micros cfg e s1 o2 s2 -> o = o1 ++ o2 -> micros cfg e s o s2.

Lemma ms_one : forall cfg e s o s', micro cfg e s o s' -> micros cfg e s o s'.
Proof. intros. eapply ms_cons; [eassumption|apply ms_nil|]. rewrite app_nil_r. reflexivity. Qed.

Lemma ms_app : forall cfg e s o1 s1, micros cfg e s o1 s1 ->
  forall o2 s2 o, micros cfg e s1 o2 s2 -> o = o1 ++ o2 -> micros cfg e s o s2.
Proof.
  induction 1 as [s|s oa sa ob sb oo Hm Hms IH Ho]; intros o2 s2 o H2 Heq.
  - subst. exact H2.
  - subst. eapply ms_cons; [exact Hm|eapply IH; [exact H2|reflexivity]|]. rewrite app_assoc. reflexivity.
Qed.

Lemma end_unsol_idle : forall cfg s n r s' ns o, end_unsol cfg s n r = (s', ns, o) -> s_control s' = CIdle.
Proof. intros. eapply end_unsol_spec in H. apply H. Qed.

Lemma idle_run_micros : forall cfg e fuel st s s' o,
  s_control s = CIdle -> idle_run fuel cfg st s = (s', o) -> micros cfg e s o s'.
Proof.
  induction fuel as [|f IH]; intros st s s' o Hc H; cbn [idle_run] in H.
  { inv_pair H. apply ms_one. apply mi_fuel. }
  destruct st as [| |ns|ns].
  - (* St1 *)
    destruct (s_pending s) as [[[[[from bc] bytes] d] fid]|] eqn:Ep.
    + destruct (handle_from_idle cfg (upd_pending s None) from bc bytes d fid) as [s1 o1] eqn:E1.
      assert (M1 : micro cfg e s o1 s1) by (eapply mi_req; eauto).
      destruct (s_control s1) eqn:Ec1.
      * destruct (idle_run f cfg St2 s1) as [s2 o2] eqn:E2. inv_pair H.
        eapply ms_cons; [exact M1|eapply IH; eauto|reflexivity].
      * inv_pair H. apply ms_one. exact M1.
      * inv_pair H. apply ms_one. exact M1.
    + rewrite Hc in H. destruct (idle_run f cfg St2 s) as [s2 o2] eqn:E2. inv_pair H.
      eapply IH; eauto.
  - (* St2 *)
    destruct (check_unsolicited cfg s) as [[s2 b] o2] eqn:E2.
    assert (M2 : micro cfg e s o2 s2) by (eapply mi_check; eauto).
    destruct (s_control s2) as [|se dl r|resp n ret dl] eqn:Ec2.
    + destruct (idle_run f cfg (St3 false) s2) as [s3 o3] eqn:E3. inv_pair H.
      eapply ms_cons; [exact M2|eapply IH; eauto|reflexivity].
    + inv_pair H. apply ms_one. exact M2.
    + destruct (s_pending s2) as [[[[[from bc] bytes] d] fid]|] eqn:Ep2.
      * destruct (unsol_wait_fragment cfg (upd_pending s2 None) resp from bc bytes d fid) as [[s3 res] o3] eqn:E3.
        destruct res as [r|].
        -- destruct (end_unsol cfg s3 n r) as [[s4 ns] o4] eqn:E4.
           destruct (idle_run f cfg (St3 ns) s4) as [s5 o5] eqn:E5. inv_pair H.
           eapply ms_cons; [exact M2| |reflexivity].
           eapply ms_cons; [| eapply IH; [|exact E5]; eapply end_unsol_idle; eauto|].
           ++ eapply mi_wait_pend; [exact Ec2|exact Ep2|].
              exists s3, (Some r), o3. split; [exact E3|]. exists ns, o4. split; [exact E4|reflexivity].
           ++ rewrite <- app_assoc. reflexivity.
        -- inv_pair H. eapply ms_cons; [exact M2| |reflexivity]. apply ms_one.
           eapply mi_wait_pend; [exact Ec2|exact Ep2|].
           exists s', None, o3. split; [exact E3|]. split; reflexivity.
      * inv_pair H. apply ms_one. exact M2.
  - (* St3 *)
    destruct (handle_deferred cfg s ns) as [s3 o3] eqn:E3.
    assert (M3 : micro cfg e s o3 s3) by (eapply mi_deferred; eauto).
    destruct (s_control s3) eqn:Ec3.
    + destruct (idle_run f cfg (St4 ns) s3) as [s4 o4] eqn:E4. inv_pair H.
      eapply ms_cons; [exact M3|eapply IH; eauto|reflexivity].
    + inv_pair H. apply ms_one. exact M3.
    + inv_pair H. apply ms_one. exact M3.
  - (* St4 *)
    destruct (s_pending s) eqn:Ep; [eapply IH; eauto|].
    destruct ns; [eapply IH; eauto|].
    destruct (s_notify s).
    + eapply ms_cons; [apply (mi_skip cfg e s (upd_notify s false)); reflexivity|eapply IH; [|exact H]; exact Hc|reflexivity].
    + inv_pair H. apply ms_nil.
Qed.

(* the kernel must unfold these wrappers, not the fixpoint under them, when it compares the two *)
Strategy expand [resume_at idle_loop ostart].

Lemma resume_at_micros : forall cfg e st s s' o,
  s_control s = CIdle -> resume_at cfg st s = (s', o) -> micros cfg e s o s'.
Proof. intros. eapply idle_run_micros; eauto. Qed.

Lemma idle_loop_micros : forall cfg e n s s' o,
  s_control s = CIdle -> idle_loop n cfg s = (s', o) -> micros cfg e s o s'.
Proof. intros. eapply idle_run_micros; eauto. Qed.

Lemma fire_micros : forall cfg e s d t s1 o1,
  next_deadline cfg s = Some d -> t = Z.max d (s_now s) ->
  fire_deadline cfg (upd_now s t) = (s1, o1) -> micros cfg e s (OAt t :: o1) s1.
Proof.
  intros cfg e s d t s1 o1 Hd Ht H. unfold fire_deadline in H. unfold next_deadline in Hd.
  change (s_control (upd_now s t)) with (s_control s) in H.
  destruct (s_control s) as [|se dl r|resp n ret dl] eqn:Ec.
  - (* idle: the retry deadline *)
    destruct (o_unsol cfg) eqn:Eu; cbn [negb] in Hd; [|discriminate].
    destruct (s_unsol s) as [|[t0|]] eqn:Es; try discriminate.
    destruct (s_now s <? t0)%Z eqn:El; [|discriminate]. inversion Hd; subst d.
    apply Z.ltb_lt in El. assert (Ht' : t = t0) by lia. subst t. rewrite Ht' in H |- *.
    eapply ms_cons; [eapply mi_tick; eauto|eapply resume_at_micros; [|exact H]; exact Ec|reflexivity].
  - inversion Hd; subst d.
    destruct (resume_at cfg (stage_of r) (upd_control (upd_now s t) CIdle)) as [s2 o2] eqn:E. inv_pair H.
    eapply ms_cons; [eapply mi_sol_timeout; eauto|eapply resume_at_micros; [|exact E]; reflexivity|reflexivity].
  - inversion Hd; subst d. cbv zeta in H.
    change (s_deferred (upd_now s t)) with (s_deferred s) in H.
    fold (can_retry ret) in H. fold (dec_retries ret) in H.
    destruct (can_retry ret && match s_deferred s with Some _ => false | None => true end) eqn:Er.
    + inv_pair H. apply andb_true_iff in Er. destruct Er as [Er1 Er2].
      apply ms_one. eapply (mi_retry cfg e s resp n ret dl); eauto.
      destruct (s_deferred s); [discriminate|reflexivity].
    + destruct (end_unsol cfg (upd_now s t) n UrTimeout) as [[s2 ns] o2] eqn:E2.
      destruct (resume_at cfg (St3 ns) s2) as [s3 o3] eqn:E3. inv_pair H.
      eapply ms_cons; [eapply (mi_timeout cfg e s resp n ret dl); eauto| |].
      * apply andb_false_iff in Er. destruct Er as [Er|Er]; [left; exact Er|right].
        destruct (s_deferred s); [discriminate|discriminate Er].
      * eapply resume_at_micros; [|exact E3]. eapply end_unsol_idle; eauto.
      * cbn [app]. reflexivity.
Qed.

(* nothing is due up to time t *)
Definition quiet_until (cfg : ocfg) (s : ostate) (t : Z) : Prop :=
  match next_deadline cfg s with Some d => (t < d)%Z | None => True end.

Lemma advance_micros : forall cfg e fuel s target s' o,
  advance fuel cfg s target = (s', o) ->
  exists s1, micros cfg e s o s1 /\ s' = upd_now s1 target /\ (In OOutOfFuel o \/ quiet_until cfg s1 target).
Proof.
  induction fuel as [|f IH]; intros s target s' o H; cbn [advance] in H.
  { inv_pair H. exists s. split; [apply ms_one; apply mi_fuel|]. split; [reflexivity|left; left; reflexivity]. }
  destruct (next_deadline cfg s) as [d|] eqn:Ed.
  - destruct (d <=? target)%Z eqn:El.
    + destruct (fire_deadline cfg (upd_now s (Z.max d (s_now s)))) as [s1 o1] eqn:E1.
      destruct (advance f cfg s1 target) as [s2 o2] eqn:E2. inv_pair H.
      apply IH in E2. destruct E2 as (s3 & Hm & Hs & Hq).
      exists s3. split; [|split; [exact Hs|]].
      * eapply ms_app; [eapply fire_micros; eauto|exact Hm|reflexivity].
      * destruct Hq as [Hq|Hq]; [left; right; apply in_or_app; right; exact Hq|right; exact Hq].
    + inv_pair H. exists s. split; [apply ms_nil|]. split; [reflexivity|right].
      unfold quiet_until. rewrite Ed. apply Z.leb_gt in El. exact El.
  - inv_pair H. exists s. split; [apply ms_nil|]. split; [reflexivity|right].
    unfold quiet_until. rewrite Ed. exact I.
Qed.

Lemma on_rx_micros : forall cfg s from bc bytes d s' o,
  on_rx cfg s from bc bytes d = (s', o) -> micros cfg (Some (ERx from bc bytes d)) s o s'.
Proof.
  intros cfg s from bc bytes d s' o H. unfold on_rx in H. cbv zeta in H.
  set (e := Some (ERx from bc bytes d)).
  set (fid := (s_frame_id s + 1) mod 4294967296) in *.
  set (s0 := upd_frame_id s fid) in *.
  assert (M0 : micro cfg e s [] s0) by (apply mi_skip; reflexivity).
  change (s_control s0) with (s_control s) in H.
  destruct (s_control s) as [|se dl r|resp n ret dl] eqn:Ec.
  - eapply ms_cons; [exact M0| |reflexivity].
    eapply ms_cons; [eapply (mi_pend_set cfg e s0 from bc bytes d fid); [reflexivity|]| |reflexivity].
    + change (s_control s0) with (s_control s). rewrite Ec. reflexivity.
    + eapply idle_loop_micros; [|exact H]. exact Ec.
  - destruct (sol_wait_fragment cfg s0 se dl from bc bytes d) as [out o1] eqn:E1.
    assert (Ho1 : last_ok s0 -> Forall solob o1) by (eapply sol_wait_fragment_out; eauto).
    assert (Hu0 : is_uw (s_control s0) = false) by (change (s_control s0) with (s_control s); rewrite Ec; reflexivity).
    destruct out as [dl'|rt|].
    + inv_pair H. eapply ms_cons; [exact M0| |reflexivity]. apply ms_one. apply mi_sol.
      split; [reflexivity|split; [exact Hu0|reflexivity]|]. intros Hl. split; [auto|exact Hl].
    + destruct (se_fin se).
      * destruct (resume_at cfg (stage_of r) (upd_control (upd_last_bcast s0 None) CIdle)) as [s2 o2] eqn:E2.
        inv_pair H. eapply ms_cons; [exact M0| |reflexivity].
        eapply (ms_cons cfg e s0 (o1 ++ [ODb DbClearWritten]) _ o2); [apply mi_sol|eapply resume_at_micros; [|exact E2]; reflexivity|rewrite <- app_assoc; reflexivity].
        split; [reflexivity|split; [exact Hu0|reflexivity]|]. intros Hl. split; [|exact Hl].
        apply Forall_app; split; [auto|fa_tac].
      * destruct (format_read_response (upd_last_bcast s0 None) false (seq16_next (se_ecsn se)) 0)
          as [[[s2 rsp] next] o2] eqn:E2.
        destruct (write_solicited s2 rt rsp) as [[s3 rsp'] o3] eqn:E3.
        apply format_read_response_spec in E2. destruct E2 as (F2 & Hr2 & _ & Ho2 & _).
        pose proof (write_solicited_frame _ _ _ _ _ _ E3) as F3.
        destruct (write_solicited_out _ _ _ _ _ _ E3 Hr2) as [Ho3 Hr3].
        pose proof (frame_trans _ _ _ F2 F3) as F. unfold frame, fview, uview in F.
        set (s4 := upd_last s3 _) in H.
        assert (Hstep : forall c, is_uw c = false -> sol_step s0 (o1 ++ [ODb DbClearWritten] ++ o2 ++ o3) (upd_control s4 c)).
        { intros c Hcu. split.
          - subst s4. psimpl. psimpl_in F. congruence.
          - split; [exact Hu0|exact Hcu].
          - intros Hl. split.
            + apply Forall_app; split; [auto|]. apply Forall_app; split; [fa_tac|].
              apply Forall_app; split; [eapply Forall_imp; [apply dbq_solob|exact Ho2]|exact Ho3].
            + intros l x Hs Hx. subst s4. cbn in Hs. destruct (s_last s3) as [l0|]; [|discriminate].
              inversion Hs; subst. cbn in Hx. inversion Hx; subst. exact Hr3. }
        destruct next as [nx|].
        -- inv_pair H. eapply ms_cons; [exact M0| |reflexivity]. apply ms_one. apply mi_sol.
           apply Hstep. reflexivity.
        -- destruct (resume_at cfg (stage_of r) (upd_control s4 CIdle)) as [s5 o5] eqn:E5. inv_pair H.
           eapply ms_cons; [exact M0| |reflexivity].
           eapply ms_cons; [apply mi_sol; apply (Hstep CIdle); reflexivity|eapply resume_at_micros; [|exact E5]; reflexivity|].
           rewrite <- !app_assoc. reflexivity.
    + destruct (resume_at cfg (stage_of r) (upd_pending (upd_control s0 CIdle) (Some (from, bc, bytes, d, fid))))
        as [s2 o2] eqn:E2. inv_pair H.
      eapply ms_cons; [exact M0| |reflexivity].
      eapply (ms_cons cfg e s0 (o1 ++ [ODb DbReset]) (upd_control s0 CIdle) o2); [apply mi_sol| |rewrite <- app_assoc; reflexivity].
      *         split; [reflexivity|split; [exact Hu0|reflexivity]|]. intros Hl. split; [|exact Hl].
        apply Forall_app; split; [auto|fa_tac].
      * eapply ms_cons; [eapply (mi_pend_set cfg e _ from bc bytes d fid); reflexivity| |reflexivity].
        eapply resume_at_micros; [|exact E2]. reflexivity.
  - destruct (unsol_wait_fragment cfg s0 resp from bc bytes d fid) as [[s1 res] o1] eqn:E1.
    destruct res as [r|].
    + destruct (end_unsol cfg s1 n r) as [[s2 ns] o2] eqn:E2.
      destruct (resume_at cfg (St3 ns) s2) as [s3 o3] eqn:E3. inv_pair H.
      eapply ms_cons; [exact M0| |reflexivity].
      eapply ms_cons; [|eapply resume_at_micros; [|exact E3]; eapply end_unsol_idle; eauto|rewrite <- app_assoc; reflexivity].
      eapply (mi_wait_ev cfg e s0 resp n ret dl from bc bytes d fid); [exact Ec|reflexivity|].
      exists s1, (Some r), o1. split; [exact E1|]. exists ns, o2. split; [exact E2|reflexivity].
    + inv_pair H. eapply ms_cons; [exact M0| |reflexivity]. apply ms_one.
      eapply (mi_wait_ev cfg e s0 resp n ret dl from bc bytes d fid); [exact Ec|reflexivity|].
      exists s', None, o. split; [exact E1|]. split; reflexivity.
Qed.

Lemma in_fuel_app_r : forall (a b : list oobs), In OOutOfFuel b -> In OOutOfFuel (a ++ b).
Proof. intros. apply in_or_app. right. assumption. Qed.

Theorem ostep_micros : forall cfg s ev a s' o,
  ostep cfg s ev a = (s', o) ->
  exists s1, micros cfg (Some ev) s o s1 /\
             (s' = s1 \/ exists t, s' = upd_now s1 t /\ (In OOutOfFuel o \/ quiet_until cfg s1 t)).
Proof.
  intros cfg s ev a s' o H. unfold ostep in H.
  set (e := Some ev).
  set (s0 := upd_answers s a) in *.
  assert (M0 : micro cfg e s [] s0) by (apply mi_skip; reflexivity).
  destruct ev as [from bc bytes d|ms| |sel op|v|].
  - destruct (on_rx cfg s0 from bc bytes d) as [s1 o1] eqn:E1.
    destruct (advance 64 cfg s1 (s_now s1 + settle_ms)) as [s2 o2] eqn:E2. inv_pair H.
    apply on_rx_micros in E1. apply (advance_micros cfg e) in E2. destruct E2 as (s3 & Hm & Hs & Hq).
    exists s3. split.
    + eapply ms_cons; [exact M0|eapply ms_app; [exact E1|exact Hm|reflexivity]|reflexivity].
    + right. eexists. split; [exact Hs|]. destruct Hq as [Hq|Hq]; [left; apply in_fuel_app_r; exact Hq|right; exact Hq].
  - destruct (advance 4096 cfg s0 (s_now s0 + ms)) as [sa oa] eqn:Ea. inv_pair H.
    apply (advance_micros cfg e) in Ea. destruct Ea as (s3 & Hm & Hs & Hq).
    exists s3. split; [eapply ms_cons; [exact M0|exact Hm|reflexivity]|].
    right. eexists. split; [exact Hs|exact Hq].
  - change (s_control s0) with (s_control s) in H.
    assert (Hfirst : exists s1 o1 s2 o2, micros cfg e s0 o1 s1 /\ advance 64 cfg s1 (s_now s1 + settle_ms) = (s2, o2) /\
                                         s' = s2 /\ o = o1 ++ o2).
    { destruct (s_control s) eqn:Ec.
      - destruct (idle_loop 8 cfg s0) as [s1 o1] eqn:E1.
        destruct (advance 64 cfg s1 (s_now s1 + settle_ms)) as [s2 o2] eqn:E2. inv_pair H.
        exists s1, o1, s', o2. split; [eapply idle_loop_micros; [|exact E1]; exact Ec|]. repeat split; auto.
      - destruct (advance 64 cfg (upd_notify s0 true) (s_now (upd_notify s0 true) + settle_ms)) as [s2 o2] eqn:E2.
        inv_pair H. exists (upd_notify s0 true), []. do 2 eexists.
        split; [apply ms_one; apply mi_skip; reflexivity|]. split; [exact E2|]. split; reflexivity.
      - destruct (advance 64 cfg (upd_notify s0 true) (s_now (upd_notify s0 true) + settle_ms)) as [s2 o2] eqn:E2.
        inv_pair H. exists (upd_notify s0 true), []. do 2 eexists.
        split; [apply ms_one; apply mi_skip; reflexivity|]. split; [exact E2|]. split; reflexivity. }
    destruct Hfirst as (s1 & o1 & s2 & o2 & Hm1 & E2 & -> & ->).
    apply (advance_micros cfg e) in E2. destruct E2 as (s3 & Hm & Hs & Hq).
    exists s3. split.
    + eapply ms_cons; [exact M0|eapply ms_app; [exact Hm1|exact Hm|reflexivity]|reflexivity].
    + right. eexists. split; [exact Hs|]. destruct Hq as [Hq|Hq]; [left; apply in_fuel_app_r; exact Hq|right; exact Hq].
  - cbv beta iota in H. inv_pair H. exists (upd_knobs s0 sel op (s_app_iin s0)). split; [|left; reflexivity].
    eapply ms_cons; [exact M0|apply ms_one; apply mi_skip; reflexivity|reflexivity].
  - cbv beta iota in H. inv_pair H. exists (upd_knobs s0 (s_sel_status s0) (s_op_status s0) v). split; [|left; reflexivity].
    eapply ms_cons; [exact M0|apply ms_one; apply mi_skip; reflexivity|reflexivity].
  - set (s1 := upd_pending (upd_control (session_reset s0) CIdle) None) in H.
    destruct (idle_loop 8 cfg s1) as [s2 o2] eqn:E2.
    destruct (advance 64 cfg s2 (s_now s2 + settle_ms)) as [s3 o3] eqn:E3. inv_pair H.
    apply (idle_loop_micros cfg e) in E2; [|reflexivity].
    apply (advance_micros cfg e) in E3. destruct E3 as (s4 & Hm & Hs & Hq).
    exists s4. split.
    + eapply ms_cons; [exact M0| |reflexivity].
      eapply (ms_cons cfg e s0 [ODb DbReset; OSessionEnd] s1); [apply mi_disconnect; reflexivity| |reflexivity].
      eapply ms_app; [exact E2|exact Hm|reflexivity].
    + right. eexists. split; [exact Hs|].
      destruct Hq as [Hq|Hq]; [left; right; right; apply in_fuel_app_r; exact Hq|right; exact Hq].
Qed.

Theorem ostart_micros : forall cfg sel op iin a s' o,
  ostart cfg sel op iin a = (s', o) ->
  micros cfg None (upd_answers (ostate_init cfg sel op iin) a) o s'.
Proof. intros. eapply idle_loop_micros; [|exact H]. reflexivity. Qed.

(* ---------- micro-steps as seen by the unsolicited rules ---------------------------------------- *)

Definition qob (o : oobs) : Prop := solob o \/ o = ODb DbDeferredSelect.

Definition qv (s : ostate) := (s_unsol s, s_unsol_seq s, s_unsol_buf s, s_now s).

(* a fragment held by the reader is the one of the current event *)
Definition pend_ok (e : option oevent) (s : ostate) : Prop :=
  forall from bc bytes d fid, s_pending s = Some (from, bc, bytes, d, fid) -> e = Some (ERx from bc bytes d).

Definition frag_src (e : option oevent) (s : ostate) (from : N) (bc : option bcast_mode) (bytes : list N)
           (d : digest) : Prop :=
  e = Some (ERx from bc bytes d) \/ exists fid, s_pending s = Some (from, bc, bytes, d, fid).

Definition en_step (cfg : ocfg) (e : option oevent) (s s' : ostate) : Prop :=
  s_enabled s' = s_enabled s \/
  exists from bc bytes d, frag_src e s from bc bytes d /\ enable_req cfg d s s'.

Record base (cfg : ocfg) (e : option oevent) (s s' : ostate) : Prop := {
  b_last : last_ok s -> last_ok s';
  b_pend : pend_ok e s -> pend_ok e s';
  b_en : en_step cfg e s s'
}.

Definition ctl_quiet (s s' : ostate) : Prop :=
  s_control s' = s_control s \/ (is_uw (s_control s) = false /\ is_uw (s_control s') = false).

Inductive ustep (cfg : ocfg) (e : option oevent) (s : ostate) (o : list oobs) (s' : ostate) : Prop :=
| us_quiet :
    base cfg e s s' -> (last_ok s -> Forall qob o) -> qv s' = qv s -> ctl_quiet s s' -> ustep cfg e s o s'
| us_null :
    s_control s = CIdle -> o_unsol cfg = true -> s_unsol s = UNullRequired ->
    started cfg s s' true 0 (s_unsol_buf s) o -> ustep cfg e s o s'
| us_data : forall dl c1 c2 c3 body o',
    s_control s = CIdle -> o_unsol cfg = true -> s_unsol s = UReady dl -> unsol_ready s dl = true ->
    any_enabled s = true -> s_enabled s = (c1, c2, c3) -> o = ODb (DbWriteUnsol c1 c2 c3) :: o' ->
    started cfg s s' false (4 + length body) (buf_set (s_unsol_buf s) body) o' -> ustep cfg e s o s'
| us_confirm : forall resp n ret dl,
    s_control s = CUnsolWait resp n ret dl ->
    o = OInfo (IUnsolConfirmed (ctl_seq (r_ctl resp))) :: (if n then [] else [ODb DbClearWritten]) ->
    s_control s' = CIdle -> s_unsol s' = UReady None ->
    (s_unsol_seq s', s_unsol_buf s', s_now s', s_deferred s', s_enabled s')
    = (s_unsol_seq s, s_unsol_buf s, s_now s, s_deferred s, s_enabled s) ->
    (last_ok s -> last_ok s') -> (pend_ok e s -> pend_ok e s') -> ustep cfg e s o s'
| us_disable : forall resp n ret dl from bc bytes ctl obj o1,
    s_control s = CUnsolWait resp n ret dl ->
    frag_src e s from bc bytes (DOk ctl 21 RvOk obj) ->
    o = o1 ++ (if n then [] else [ODb DbReset]) -> (last_ok s -> Forall solob o1) ->
    (* the request is answered when addressed to this outstation; a broadcast one is only reported *)
    match bc with
    | None => exists oa b, o1 = oa ++ [OTx from b]
    | Some _ => o1 = [OInfo (IBroadcast 21 0 0)]
    end ->
    s_control s' = CIdle ->
    s_unsol s' = (if n then UNullRequired else UReady (Some (s_now s + o_retry_delay_ms cfg)%Z)) ->
    (s_unsol_seq s', s_unsol_buf s', s_now s') = (s_unsol_seq s, s_unsol_buf s, s_now s) ->
    s_deferred s' = None -> base cfg e s s' -> ustep cfg e s o s'
| us_retry : forall resp n ret dl t,
    s_control s = CUnsolWait resp n ret dl -> s_deferred s = None -> can_retry ret = true ->
    t = Z.max dl (s_now s) ->
    o = OAt t :: OInfo (IUnsolTimeout (ctl_seq (r_ctl resp)) true) :: repeat_unsolicited cfg s resp ->
    s' = upd_control (upd_now s t) (CUnsolWait resp n (dec_retries ret) (t + o_confirm_ms cfg)%Z) ->
    ustep cfg e s o s'
| us_timeout : forall resp n ret dl t,
    s_control s = CUnsolWait resp n ret dl -> (can_retry ret = false \/ s_deferred s <> None) ->
    t = Z.max dl (s_now s) ->
    o = OAt t :: OInfo (IUnsolTimeout (ctl_seq (r_ctl resp)) false) :: (if n then [] else [ODb DbReset]) ->
    s_control s' = CIdle ->
    s_unsol s' = (if n then UNullRequired else UReady (Some (t + o_retry_delay_ms cfg)%Z)) ->
    s_now s' = t ->
    (s_unsol_seq s', s_unsol_buf s', s_pending s', s_deferred s', s_enabled s', s_last s')
    = (s_unsol_seq s, s_unsol_buf s, s_pending s, s_deferred s, s_enabled s, s_last s) ->
    ustep cfg e s o s'
| us_sol_timeout : forall se dl r t,
    s_control s = CSolWait se dl r -> t = Z.max dl (s_now s) ->
    o = [OAt t; OInfo (ISolTimeout (se_ecsn se)); ODb DbReset] -> s' = upd_control (upd_now s t) CIdle ->
    ustep cfg e s o s'
| us_tick : forall t,
    s_control s = CIdle -> o_unsol cfg = true -> s_unsol s = UReady (Some t) -> (s_now s < t)%Z ->
    o = [OAt t] -> s' = upd_now s t -> ustep cfg e s o s'
| us_disconnect :
    e = Some EDisconnect -> o = [ODb DbReset; OSessionEnd] ->
    s' = upd_pending (upd_control (session_reset s) CIdle) None -> ustep cfg e s o s'
| us_fuel : o = [OOutOfFuel] -> s' = s -> ustep cfg e s o s'.

Lemma solob_qob : forall l, Forall solob l -> Forall qob l.
Proof. intros l H. eapply Forall_imp; [|exact H]. intros o Ho. left. exact Ho. Qed.

Lemma ctl_step_sol_idle : forall s s', ctl_step_sol s s' -> s_control s = CIdle ->
  is_uw (s_control s) = false /\ is_uw (s_control s') = false.
Proof.
  intros s s' [H|(x & dl & r & H)] Hc; rewrite H; [rewrite Hc|rewrite Hc]; split; reflexivity.
Qed.

Lemma base_same : forall cfg e s s',
  s_last s' = s_last s -> s_pending s' = s_pending s -> s_enabled s' = s_enabled s -> base cfg e s s'.
Proof.
  intros cfg e s s' Hl Hp He. split.
  - apply last_ok_same. exact Hl.
  - intros H from bc bytes d fid Hs. eapply H. rewrite <- Hp. exact Hs.
  - left. exact He.
Qed.

Lemma pend_ok_none : forall e s, s_pending s = None -> pend_ok e s.
Proof. intros e s H from bc bytes d fid Hs. congruence. Qed.

(* a fragment in the wait *)
Lemma wait_rx_ustep : forall cfg e s0 s resp n ret dl from bc bytes d fid o s',
  s_control s0 = CUnsolWait resp n ret dl ->
  frag_src e s0 from bc bytes d ->
  (s = s0 \/ s = upd_pending s0 None) ->
  wait_rx cfg s resp n from bc bytes d fid o s' -> ustep cfg e s0 o s'.
Proof.
  intros cfg e s0 s resp n ret dl from bc bytes d fid o s' Hc Hsrc Hs (s1 & res & o1 & E & Hres).
  apply unsol_wait_fragment_spec in E. destruct E as (Hw & Hen & Hl & Hr).
  assert (Hs0 : (s_unsol s, s_unsol_seq s, s_unsol_buf s, s_now s, s_control s, s_deferred s, s_enabled s, s_last s)
                = (s_unsol s0, s_unsol_seq s0, s_unsol_buf s0, s_now s0, s_control s0, s_deferred s0, s_enabled s0, s_last s0)
                /\ (pend_ok e s0 -> pend_ok e s)).
  { destruct Hs as [-> | ->]; split; try reflexivity; auto. intros _. apply pend_ok_none. reflexivity. }
  destruct Hs0 as [Hs0 Hp0].
  assert (Hl0 : last_ok s0 -> last_ok s) by (apply last_ok_same; congruence).
  assert (Hen0 : en_step cfg e s0 s1).
  { right. exists from, bc, bytes, d. split; [exact Hsrc|].
    destruct Hen as [Hen|(c & fn & hdrs & rh & Hd & Hu & Hf & He)]; [left; congruence|].
    right. exists c, fn, hdrs, rh. repeat split; auto. congruence. }
  assert (Hp1 : pend_ok e s0 -> pend_ok e s1).
  { intros Hp from' bc' bytes' d' fid' Hx. apply Hp0 in Hp. eapply Hp.
    unfold wview in Hw. replace (s_pending s) with (s_pending s1) by congruence. exact Hx. }
  unfold wview in Hw.
  destruct res as [[| |]|].
  - (* confirmed *)
    destruct Hres as (ns & o2 & E2 & ->). destruct Hr as (-> & Hd & He).
    apply end_unsol_spec in E2. destruct E2 as (Hc2 & Hv2 & Hu2 & -> & _).
    eapply (us_confirm cfg e s0 _ s' resp n ret dl); [exact Hc|destruct n; reflexivity|exact Hc2|exact Hu2|congruence| |].
    + intros Hk. apply Hl0 in Hk. apply Hl in Hk. eapply last_ok_same; [|exact Hk]. congruence.
    + intros Hp. apply Hp1 in Hp. intros from' bc' bytes' d' fid' Hx. eapply Hp.
      replace (s_pending s1) with (s_pending s') by congruence. exact Hx.
  - destruct Hr.
  - (* DISABLE_UNSOLICITED *)
    destruct Hres as (ns & o2 & E2 & ->). destruct Hr as (Ho1 & Hd & (ctl & obj & ->) & Hex).
    apply end_unsol_spec in E2. destruct E2 as (Hc2 & Hv2 & Hu2 & -> & _).
    assert (Hn1 : s_now s1 = s_now s0) by congruence.
    eapply (us_disable cfg e s0 _ s' resp n ret dl from bc bytes ctl obj o1);
      [exact Hc|exact Hsrc|destruct n; reflexivity|auto|exact Hex|exact Hc2|
       destruct n; rewrite Hu2; [reflexivity|rewrite Hn1; reflexivity]|congruence|congruence|].
    split.
      * intros Hk. apply Hl0 in Hk. apply Hl in Hk. eapply last_ok_same; [|exact Hk]. congruence.
      * intros Hp. apply Hp1 in Hp. intros from' bc' bytes' d' fid' Hx. eapply Hp.
        replace (s_pending s1) with (s_pending s') by congruence. exact Hx.
      * destruct Hen0 as [He|(f' & b' & y' & d' & Hsrc' & He)].
        -- left. congruence.
        -- right. exists f', b', y', d'. split; [exact Hsrc'|].
           destruct He as [He|(c & fn & hdrs & rh & Hd' & Hu & Hf & He)]; [left; congruence|].
           right. exists c, fn, hdrs, rh. repeat split; auto. congruence.
  - destruct Hres as [-> ->]. apply us_quiet.
    + split; [auto|exact Hp1|exact Hen0].
    + intros Hk. apply solob_qob. auto.
    + unfold qv. congruence.
    + left. congruence.
Qed.

Lemma micro_ustep : forall cfg e s o s', micro cfg e s o s' -> ustep cfg e s o s'.
Proof.
  intros cfg e s o s' H. destruct H.
  - (* skip *)
    unfold kview, wview in H. apply us_quiet.
    + apply base_same; congruence.
    + intros _. constructor.
    + unfold qv. congruence.
    + left. congruence.
  - (* pending set *)
    apply us_quiet.
    + split; [auto| |left; reflexivity].
      intros _ from' bc' bytes' d' fid' Hx. cbn in Hx. inversion Hx; subst. reflexivity.
    + intros _. constructor.
    + reflexivity.
    + left. reflexivity.
  - (* request from idle *)
    apply handle_from_idle_spec in H1. destruct H1 as (Hu & Hc & Hen & Ho).
    unfold uview in Hu. psimpl_in Hu.
    apply us_quiet.
    + split.
      * intros Hk. apply Ho. exact Hk.
      * intros _. apply pend_ok_none. congruence.
      * right. exists from, bc, bytes, d. split; [right; eauto|exact Hen].
    + intros Hk. apply solob_qob. apply Ho. exact Hk.
    + unfold qv. congruence.
    + right. apply (ctl_step_sol_idle (upd_pending s None)); [exact Hc|exact H].
  - (* solicited wait *)
    destruct H as [Hv Hu Ho]. apply us_quiet.
    + split; [apply Ho| |left; congruence].
      intros Hp from' bc' bytes' d' fid' Hx. eapply Hp. replace (s_pending s) with (s_pending s') by congruence. exact Hx.
    + intros Hk. apply solob_qob. apply Ho. exact Hk.
    + unfold qv. congruence.
    + right. exact Hu.
  - (* check_unsolicited *)
    apply check_unsolicited_spec in H0. destruct H0 as [[-> Hk]|[(Hu & Hs & Hst)|(Hu & dl & c1 & c2 & c3 & body & o' & Hs & Hr & Ha & He & -> & Hst)]].
    + unfold kview, wview in Hk. apply us_quiet.
      * apply base_same; congruence.
      * intros _. constructor.
      * unfold qv. congruence.
      * left. congruence.
    + apply us_null; assumption.
    + eapply us_data; eauto.
  - eapply wait_rx_ustep; [exact H|left; exact H0|left; reflexivity|exact H1].
  - eapply wait_rx_ustep; [exact H|right; eauto|right; reflexivity|exact H1].
  - (* deferred read *)
    apply handle_deferred_spec in H0. destruct (s_deferred s) as [d|] eqn:Ed.
    + destruct H0 as (Hd & Hv & Hc & Hl & o1 & b & o2 & -> & Ho1 & Hb1 & _ & Ho2).
      unfold dview in Hv. apply us_quiet.
      * split; [intros _; exact Hl| |left; congruence].
        intros Hp from' bc' bytes' d' fid' Hx. eapply Hp. replace (s_pending s) with (s_pending s') by congruence. exact Hx.
      * intros _. constructor; [right; reflexivity|]. apply Forall_app; split.
        -- apply solob_qob. eapply Forall_imp; [apply dbq_solob|exact Ho1].
        -- constructor; [left; exact Hb1|]. destruct Ho2 as [-> |[q ->]]; [constructor|].
           constructor; [left; exact I|constructor].
      * unfold qv. congruence.
      * right. apply ctl_step_sol_idle; assumption.
    + destruct H0 as [-> ->]. apply us_quiet.
      * apply base_same; reflexivity.
      * intros _. constructor.
      * reflexivity.
      * left. reflexivity.
  - eapply us_retry; eauto.
  - apply end_unsol_spec in H2. destruct H2 as (Hc2 & Hv2 & Hu2 & -> & _). psimpl_in Hv2. psimpl_in Hu2.
    eapply (us_timeout cfg e s _ s' resp n ret dl t); [exact H|exact H0|exact H1|destruct n; reflexivity|exact Hc2|exact Hu2|congruence|congruence].
  - eapply us_sol_timeout; eauto.
  - eapply us_tick; eauto.
  - apply us_disconnect; auto.
  - apply us_fuel; reflexivity.
Qed.

(* ---------- between steps the reader holds no fragment, and a deferred READ exists only in the wait -- *)

Definition good (s : ostate) : Prop :=
  s_pending s = None /\ (is_uw (s_control s) = false -> s_deferred s = None).

Definition stage_pre (st : stage) (s : ostate) : Prop :=
  match st with
  | St4 _ => s_deferred s = None
  | _ => s_pending s = None \/ s_deferred s = None
  end.

Lemma check_unsolicited_frame : forall cfg s s' b o,
  check_unsolicited cfg s = (s', b, o) -> s_control s = CIdle ->
  s_pending s' = s_pending s /\ s_deferred s' = s_deferred s /\
  (s_control s' = CIdle \/ is_uw (s_control s') = true).
Proof.
  intros cfg s s' b o H Hc. apply check_unsolicited_spec in H.
  destruct H as [[_ Hk]|[(_ & _ & Hst)|(_ & dl & c1 & c2 & c3 & body & o' & _ & _ & _ & _ & _ & Hst)]].
  - unfold kview, wview in Hk. repeat split; try congruence. left. congruence.
  - destruct Hst as (r & o1 & _ & _ & _ & _ & _ & Hc' & _ & _ & _ & _ & Hd & Hp & _).
    repeat split; try assumption. right. rewrite Hc'. reflexivity.
  - destruct Hst as (r & o1 & _ & _ & _ & _ & _ & Hc' & _ & _ & _ & _ & Hd & Hp & _).
    repeat split; try assumption. right. rewrite Hc'. reflexivity.
Qed.

Lemma idle_run_good : forall cfg fuel st s s' o,
  idle_run fuel cfg st s = (s', o) -> s_control s = CIdle -> stage_pre st s ->
  In OOutOfFuel o \/ good s'.
Proof.
  induction fuel as [|f IH]; intros st s s' o H Hc Hpre; cbn [idle_run] in H.
  { inv_pair H. left. left. reflexivity. }
  assert (Happ : forall (a b : list oobs) g, In OOutOfFuel b \/ g -> In OOutOfFuel (a ++ b) \/ g).
  { intros a b g [X|X]; [left; apply in_or_app; right; exact X|right; exact X]. }
  destruct st as [| |ns|ns]; cbn [stage_pre] in Hpre.
  - destruct (s_pending s) as [[[[[from bc] bytes] d] fid]|] eqn:Ep.
    + destruct (handle_from_idle cfg (upd_pending s None) from bc bytes d fid) as [s1 o1] eqn:E1.
      apply handle_from_idle_spec in E1. destruct E1 as (Hu & Hcs & _). unfold uview in Hu. psimpl_in Hu.
      assert (Hp1 : s_pending s1 = None) by congruence.
      assert (Hd1 : s_deferred s1 = None) by (destruct Hpre as [X|X]; [discriminate X|congruence]).
      destruct (s_control s1) eqn:Ec1.
      * destruct (idle_run f cfg St2 s1) as [s2 o2] eqn:E2. inv_pair H. apply Happ.
        eapply IH; [exact E2|exact Ec1|left; exact Hp1].
      * inv_pair H. right. split; [exact Hp1|intros _; exact Hd1].
      * inv_pair H. right. split; [exact Hp1|intros _; exact Hd1].
    + rewrite Hc in H. destruct (idle_run f cfg St2 s) as [s2 o2] eqn:E2. inv_pair H.
      eapply IH; [exact E2|exact Hc|left; exact Ep].
  - destruct (check_unsolicited cfg s) as [[s2 b] o2] eqn:E2.
    apply check_unsolicited_frame in E2; [|exact Hc]. destruct E2 as (Hp2 & Hd2 & Hc2).
    destruct (s_control s2) as [|se dl r|resp n ret dl] eqn:Ec2.
    + destruct (idle_run f cfg (St3 false) s2) as [s3 o3] eqn:E3. inv_pair H. apply Happ.
      eapply IH; [exact E3|exact Ec2|]. cbn [stage_pre]. rewrite Hp2, Hd2. exact Hpre.
    + destruct Hc2 as [X|X]; discriminate X.
    + destruct (s_pending s2) as [[[[[from bc] bytes] d] fid]|] eqn:Ep2.
      * destruct (unsol_wait_fragment cfg (upd_pending s2 None) resp from bc bytes d fid) as [[s3 res] o3] eqn:E3.
        apply unsol_wait_fragment_spec in E3. destruct E3 as (Hw & _). unfold wview in Hw. psimpl_in Hw.
        assert (Hp3 : s_pending s3 = None) by congruence.
        destruct res as [r|].
        -- destruct (end_unsol cfg s3 n r) as [[s4 ns] o4] eqn:E4.
           destruct (idle_run f cfg (St3 ns) s4) as [s5 o5] eqn:E5. inv_pair H.
           apply end_unsol_spec in E4. destruct E4 as (Hc4 & Hv4 & _).
           apply Happ. apply Happ. apply Happ.
           eapply IH; [exact E5|exact Hc4|]. cbn [stage_pre]. left. congruence.
        -- inv_pair H. right. split; [exact Hp3|].
           replace (s_control s') with (s_control s2) by congruence. rewrite Ec2. discriminate.
      * inv_pair H. right. split; [exact Ep2|]. rewrite Ec2. discriminate.
  - destruct (handle_deferred cfg s ns) as [s3 o3] eqn:E3.
    apply handle_deferred_spec in E3.
    assert (H3 : s_deferred s3 = None /\ s_pending s3 = s_pending s /\ (s_deferred s <> None -> s_pending s = None)).
    { destruct (s_deferred s) as [d|] eqn:Ed.
      - destruct E3 as (Hd & Hv & _). unfold dview in Hv. split; [exact Hd|]. split; [congruence|].
        intros _. destruct Hpre as [X|X]; [exact X|discriminate X].
      - destruct E3 as [-> _]. split; [exact Ed|]. split; [reflexivity|]. intros X. contradiction. }
    destruct H3 as (Hd3 & Hp3 & Hdp).
    destruct (s_control s3) eqn:Ec3.
    + destruct (idle_run f cfg (St4 ns) s3) as [s4 o4] eqn:E4. inv_pair H. apply Happ.
      eapply IH; [exact E4|exact Ec3|exact Hd3].
    + inv_pair H. right. split; [|intros _; exact Hd3].
      destruct (s_deferred s) as [d|] eqn:Ed; [rewrite Hp3; apply Hdp; discriminate|].
      destruct E3 as [-> _]. rewrite Hc in Ec3. discriminate.
    + inv_pair H. right. split; [|intros _; exact Hd3].
      destruct (s_deferred s) as [d|] eqn:Ed; [rewrite Hp3; apply Hdp; discriminate|].
      destruct E3 as [-> _]. rewrite Hc in Ec3. discriminate.
  - destruct (s_pending s) eqn:Ep.
    + eapply IH; [exact H|exact Hc|right; exact Hpre].
    + destruct ns; [eapply IH; [exact H|exact Hc|right; exact Hpre]|].
      destruct (s_notify s).
      * eapply IH; [exact H|exact Hc|right; exact Hpre].
      * inv_pair H. right. split; [exact Ep|intros _; exact Hpre].
Qed.

Lemma fuel_app : forall (a b : list oobs) (g : Prop), In OOutOfFuel b \/ g -> In OOutOfFuel (a ++ b) \/ g.
Proof. intros a b g [X|X]; [left; apply in_or_app; right; exact X|right; exact X]. Qed.

Lemma stage_pre_good : forall r s, s_pending s = None -> s_deferred s = None -> stage_pre (stage_of r) s.
Proof. intros [|ns] s Hp Hd; cbn; auto. Qed.

Lemma resume_at_good : forall cfg st s s' o,
  resume_at cfg st s = (s', o) -> s_control s = CIdle -> stage_pre st s -> In OOutOfFuel o \/ good s'.
Proof. intros cfg st s s' o H. unfold resume_at in H. eapply idle_run_good; exact H. Qed.

Lemma idle_loop_good : forall cfg n s s' o,
  idle_loop n cfg s = (s', o) -> s_control s = CIdle -> stage_pre St1 s -> In OOutOfFuel o \/ good s'.
Proof. intros cfg n s s' o H. unfold idle_loop in H. eapply idle_run_good; exact H. Qed.

Lemma fire_good : forall cfg s t s1 o1,
  good s -> fire_deadline cfg (upd_now s t) = (s1, o1) -> In OOutOfFuel o1 \/ good s1.
Proof.
  intros cfg s t s1 o1 [Hp Hd] H. unfold fire_deadline in H.
  change (s_control (upd_now s t)) with (s_control s) in H.
  destruct (s_control s) as [|se dl r|resp n ret dl] eqn:Ec.
  - eapply resume_at_good; [exact H|exact Ec|left; exact Hp].
  - destruct (resume_at cfg (stage_of r) (upd_control (upd_now s t) CIdle)) as [s2 o2] eqn:E. inv_pair H.
    apply (fuel_app [_; _]). eapply resume_at_good; [exact E|reflexivity|].
    apply stage_pre_good; [exact Hp|apply Hd; reflexivity].
  - cbv zeta in H. destruct (_ && _).
    + inv_pair H. right. split; [exact Hp|]. cbn. discriminate.
    + destruct (end_unsol cfg (upd_now s t) n UrTimeout) as [[s2 ns] o2] eqn:E2.
      destruct (resume_at cfg (St3 ns) s2) as [s3 o3] eqn:E3. inv_pair H.
      apply end_unsol_spec in E2. destruct E2 as (Hc2 & Hv2 & _). psimpl_in Hv2.
      apply (fuel_app [_]). apply fuel_app.
      eapply resume_at_good; [exact E3|exact Hc2|]. left. congruence.
Qed.

Lemma good_upd_now : forall s t, good s -> good (upd_now s t).
Proof. intros s t H. exact H. Qed.

Lemma advance_good : forall cfg fuel s target s' o,
  good s -> advance fuel cfg s target = (s', o) -> In OOutOfFuel o \/ good s'.
Proof.
  induction fuel as [|f IH]; intros s target s' o Hg H; cbn [advance] in H.
  { inv_pair H. left. left. reflexivity. }
  destruct (next_deadline cfg s) as [d|].
  - destruct (d <=? target)%Z.
    + destruct (fire_deadline cfg (upd_now s (Z.max d (s_now s)))) as [s1 o1] eqn:E1.
      destruct (advance f cfg s1 target) as [s2 o2] eqn:E2. inv_pair H.
      apply fire_good in E1; [|exact Hg]. destruct E1 as [X|Hg1].
      * left. right. apply in_or_app. left. exact X.
      * apply (fuel_app (_ :: o1)). eapply IH; eauto.
    + inv_pair H. right. exact Hg.
  - inv_pair H. right. exact Hg.
Qed.

Lemma on_rx_good : forall cfg s from bc bytes d s' o,
  good s -> on_rx cfg s from bc bytes d = (s', o) -> In OOutOfFuel o \/ good s'.
Proof.
  intros cfg s from bc bytes d s' o [Hp Hd] H. unfold on_rx in H. cbv zeta in H.
  set (fid := (s_frame_id s + 1) mod 4294967296) in *.
  set (s0 := upd_frame_id s fid) in *.
  change (s_control s0) with (s_control s) in H.
  destruct (s_control s) as [|se dl r|resp n ret dl] eqn:Ec.
  - eapply idle_loop_good; [exact H|exact Ec|]. right. apply Hd. reflexivity.
  - specialize (Hd eq_refl).
    destruct (sol_wait_fragment cfg s0 se dl from bc bytes d) as [out o1] eqn:E1.
    destruct out as [dl'|rt|].
    + inv_pair H. right. split; [exact Hp|intros _; exact Hd].
    + destruct (se_fin se).
      * destruct (resume_at cfg (stage_of r) (upd_control (upd_last_bcast s0 None) CIdle)) as [s2 o2] eqn:E2.
        inv_pair H. apply fuel_app. apply (fuel_app [_]).
        eapply resume_at_good; [exact E2|reflexivity|]. apply stage_pre_good; [exact Hp|exact Hd].
      * destruct (format_read_response (upd_last_bcast s0 None) false (seq16_next (se_ecsn se)) 0)
          as [[[s2 rsp] next] o2] eqn:E2.
        destruct (write_solicited s2 rt rsp) as [[s3 rsp'] o3] eqn:E3.
        apply format_read_response_spec in E2. destruct E2 as (F2 & _).
        pose proof (write_solicited_frame _ _ _ _ _ _ E3) as F3.
        pose proof (frame_trans _ _ _ F2 F3) as F. apply frame_dview in F. destruct F as (Fv & _ & Fd).
        unfold dview in Fv. unfold s0 in Fv, Fd. psimpl_in Fv. psimpl_in Fd.
        assert (Hp3 : s_pending s3 = None) by congruence.
        assert (Hd3 : s_deferred s3 = None) by congruence.
        destruct next as [nx|].
        -- inv_pair H. right. split; [exact Hp3|intros _; exact Hd3].
        -- match type of H with (let '(_, _) := ?X in _) = _ => destruct X as [s5 o5] eqn:E5 end. inv_pair H.
           apply fuel_app. apply (fuel_app [_]). apply fuel_app. apply fuel_app.
           eapply resume_at_good; [exact E5|reflexivity|]. apply stage_pre_good; [exact Hp3|exact Hd3].
    + destruct (resume_at cfg (stage_of r) (upd_pending (upd_control s0 CIdle) (Some (from, bc, bytes, d, fid))))
        as [s2 o2] eqn:E2. inv_pair H.
      apply fuel_app. apply (fuel_app [_]).
      eapply resume_at_good; [exact E2|reflexivity|]. destruct r; cbn; auto.
  - destruct (unsol_wait_fragment cfg s0 resp from bc bytes d fid) as [[s1 res] o1] eqn:E1.
    apply unsol_wait_fragment_spec in E1. destruct E1 as (Hw & _). unfold wview in Hw. unfold s0 in Hw. psimpl_in Hw.
    assert (Hp1 : s_pending s1 = None) by congruence.
    destruct res as [r|].
    + destruct (end_unsol cfg s1 n r) as [[s2 ns] o2] eqn:E2.
      destruct (resume_at cfg (St3 ns) s2) as [s3 o3] eqn:E3. inv_pair H.
      apply end_unsol_spec in E2. destruct E2 as (Hc2 & Hv2 & _).
      apply fuel_app. apply fuel_app.
      eapply resume_at_good; [exact E3|exact Hc2|]. left. congruence.
    + inv_pair H. right. split; [exact Hp1|].
      replace (s_control s') with (s_control s) by congruence. rewrite Ec. discriminate.
Qed.

Theorem ostep_good : forall cfg s ev a s' o,
  good s -> ostep cfg s ev a = (s', o) -> In OOutOfFuel o \/ good s'.
Proof.
  intros cfg s ev a s' o Hg H. unfold ostep in H.
  set (s0 := upd_answers s a) in *.
  assert (Hg0 : good s0) by exact Hg.
  destruct ev as [from bc bytes d|ms| |sel op|v|].
  - destruct (on_rx cfg s0 from bc bytes d) as [s1 o1] eqn:E1.
    destruct (advance 64 cfg s1 (s_now s1 + settle_ms)) as [s2 o2] eqn:E2. inv_pair H.
    apply on_rx_good in E1; [|exact Hg0]. destruct E1 as [X|Hg1]; [left; apply in_or_app; left; exact X|].
    apply fuel_app. eapply advance_good; [exact Hg1|exact E2].
  - destruct (advance 4096 cfg s0 (s_now s0 + ms)) as [sa oa] eqn:Ea. inv_pair H.
    eapply advance_good; [exact Hg0|exact Ea].
  - change (s_control s0) with (s_control s) in H.
    assert (Hfirst : exists s1 o1 o2, (In OOutOfFuel o1 \/ good s1) /\
                       advance 64 cfg s1 (s_now s1 + settle_ms) = (s', o2) /\ o = o1 ++ o2).
    { destruct (s_control s) eqn:Ec.
      - destruct (idle_loop 8 cfg s0) as [s1 o1] eqn:E1.
        destruct (advance 64 cfg s1 (s_now s1 + settle_ms)) as [s2 o2] eqn:E2. inv_pair H.
        exists s1, o1, o2. split; [|split; [exact E2|reflexivity]].
        eapply idle_loop_good; [exact E1|exact Ec|]. left. apply Hg.
      - destruct (advance 64 cfg (upd_notify s0 true) (s_now (upd_notify s0 true) + settle_ms)) as [s2 o2] eqn:E2.
        inv_pair H. exists (upd_notify s0 true), []. eexists. split; [right; exact Hg|]. split; [exact E2|reflexivity].
      - destruct (advance 64 cfg (upd_notify s0 true) (s_now (upd_notify s0 true) + settle_ms)) as [s2 o2] eqn:E2.
        inv_pair H. exists (upd_notify s0 true), []. eexists. split; [right; exact Hg|]. split; [exact E2|reflexivity]. }
    destruct Hfirst as (s1 & o1 & o2 & [X|Hg1] & E2 & ->); [left; apply in_or_app; left; exact X|].
    apply fuel_app. eapply advance_good; [exact Hg1|exact E2].
  - cbv beta iota in H. inv_pair H. right. exact Hg.
  - cbv beta iota in H. inv_pair H. right. exact Hg.
  - set (s1 := upd_pending (upd_control (session_reset s0) CIdle) None) in H.
    destruct (idle_loop 8 cfg s1) as [s2 o2] eqn:E2.
    destruct (advance 64 cfg s2 (s_now s2 + settle_ms)) as [s3 o3] eqn:E3. inv_pair H.
    apply (fuel_app [_; _]).
    apply idle_loop_good in E2; [|reflexivity|left; reflexivity].
    destruct E2 as [X|Hg2]; [left; apply in_or_app; left; exact X|].
    apply fuel_app. eapply advance_good; [exact Hg2|exact E3].
Qed.

Theorem ostart_good : forall cfg sel op iin a s' o,
  ostart cfg sel op iin a = (s', o) -> In OOutOfFuel o \/ good s'.
Proof. intros. unfold ostart in H. eapply idle_loop_good; [exact H|reflexivity|left; reflexivity]. Qed.
