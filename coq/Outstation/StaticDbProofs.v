(* Outstation/StaticDbProofs.v — the static database answers a READ with an exact snapshot, whatever
   the fragment boundaries.

   Main results:
     wf_reachable               the point maps stay in ascending index order under every operation
     pending_ascending_existing the points a selection has to report are exactly the existing points
                                in range, ascending, in the requested or configured (promoted) variation
     select_copies_current      a selection freezes the CURRENT value of every point in range
     write_splits_pending       one write emits a prefix of what is pending and leaves the rest pending
     write_progress             if the next pending object fits an empty fragment, a write emits >= 1 object
     snapshot                   for any series of budgets (each fitting every single object in an empty
                                fragment, at least as many as pending objects) and ANY updates between the
                                writes, the concatenation of the objects written is exactly what was
                                pending after the selection: each point once, ascending, with the value
                                at selection time
     series_exactly_once        the same without updates *)
From Dnp3V Require Import Base.Bytes Outstation.DbTypes Outstation.StaticDb.
From Coq Require Import Sorting.Sorted.
Open Scope N_scope.

(* ---------------------------------------------------------------------------------------------- *)
(* ascending maps *)

Definition pmap_sorted (m : pmap) : Prop := StronglySorted N.lt (map fst m).
Definition sdb_wf (d : sdb) : Prop := forall t, pmap_sorted (sd_maps d t).

Lemma sorted_cons_inv k (p : point) m : pmap_sorted ((k, p) :: m) ->
  pmap_sorted m /\ Forall (fun kp => k < fst kp) m.
Proof.
  unfold pmap_sorted. cbn [map fst]. intros H. inversion H as [|? ? Hs Hall]; subst. split; [exact Hs|].
  rewrite Forall_map in Hall. exact Hall.
Qed.

Lemma sorted_cons k (p : point) m : pmap_sorted m -> Forall (fun kp => k < fst kp) m -> pmap_sorted ((k, p) :: m).
Proof.
  unfold pmap_sorted. cbn [map fst]. intros Hs Hall. constructor; [exact Hs|]. rewrite Forall_map. exact Hall.
Qed.

Lemma pmap_insert_keys m i p : forall kp, In kp (fst (pmap_insert m i p)) -> fst kp = i \/ In kp m.
Proof.
  induction m as [|[k q] m IH]; intros kp H; cbn [pmap_insert fst] in H.
  - destruct H as [<-|[]]. left; reflexivity.
  - destruct (i <? k).
    + cbn [fst] in H. destruct H as [<-|H]; [left; reflexivity|right; exact H].
    + destruct (i =? k); [right; exact H|].
      destruct (pmap_insert m i p) as [tl' ok]. cbn [fst] in *. destruct H as [<-|H]; [right; left; reflexivity|].
      destruct (IH _ H) as [Hi|Hi]; [left; exact Hi|right; right; exact Hi].
Qed.

Lemma pmap_insert_sorted m i p : pmap_sorted m -> pmap_sorted (fst (pmap_insert m i p)).
Proof.
  induction m as [|[k q] m IH]; intros Hs; cbn [pmap_insert fst].
  - apply sorted_cons; constructor.
  - destruct (sorted_cons_inv _ _ _ Hs) as [Hs' Hall].
    destruct (i <? k) eqn:Elt.
    + cbn [fst]. apply N.ltb_lt in Elt. apply sorted_cons; [exact Hs|].
      constructor; [exact Elt|]. eapply Forall_impl; [|exact Hall]. cbn. intros; lia.
    + destruct (i =? k) eqn:Eeq; [exact Hs|]. apply N.ltb_ge in Elt. apply N.eqb_neq in Eeq.
      pose proof (pmap_insert_keys m i p) as Hk. specialize (IH Hs').
      destruct (pmap_insert m i p) as [tl' ok]. cbn [fst] in *.
      apply sorted_cons; [exact IH|]. apply Forall_forall. intros kp Hkp.
      destruct (Hk _ Hkp) as [Hi|Hi]; [lia|]. rewrite Forall_forall in Hall. apply Hall, Hi.
Qed.

Lemma pmap_remove_sub m i : forall kp, In kp (fst (pmap_remove m i)) -> In kp m.
Proof.
  induction m as [|[k q] m IH]; intros kp H; cbn [pmap_remove fst] in H; [exact H|].
  destruct (k =? i); [right; exact H|].
  destruct (pmap_remove m i) as [tl' ok]. cbn [fst] in *. destruct H as [<-|H]; [left; reflexivity|right; apply IH, H].
Qed.

Lemma pmap_remove_sorted m i : pmap_sorted m -> pmap_sorted (fst (pmap_remove m i)).
Proof.
  induction m as [|[k q] m IH]; intros Hs; cbn [pmap_remove fst]; [exact Hs|].
  destruct (sorted_cons_inv _ _ _ Hs) as [Hs' Hall].
  destruct (k =? i); [exact Hs'|].
  pose proof (pmap_remove_sub m i) as Hk. specialize (IH Hs').
  destruct (pmap_remove m i) as [tl' ok]. cbn [fst] in *.
  apply sorted_cons; [exact IH|]. apply Forall_forall. intros kp Hkp.
  rewrite Forall_forall in Hall. apply Hall, Hk, Hkp.
Qed.

Lemma pmap_update_keys m i f : map fst (pmap_update m i f) = map fst m.
Proof.
  induction m as [|[k q] m IH]; cbn [pmap_update map fst]; [reflexivity|].
  destruct (k =? i); cbn [map fst]; [reflexivity|]. rewrite IH. reflexivity.
Qed.

Lemma pmap_select_keys m a b : map fst (pmap_select m a b) = map fst m.
Proof.
  unfold pmap_select. rewrite map_map. apply map_ext. intros kp. destruct (in_range a b kp); reflexivity.
Qed.

Lemma wf_set_map d t m : sdb_wf d -> pmap_sorted m -> sdb_wf (set_map d t m).
Proof. intros Hwf Hm t'. cbn [set_map sd_maps]. destruct (ptype_eqb t' t); [exact Hm|apply Hwf]. Qed.

Lemma wf_set_queue d q : sdb_wf d -> sdb_wf (set_queue d q).
Proof. intros Hwf t. exact (Hwf t). Qed.

Lemma wf_new ms c0 : sdb_wf (sdb_new ms c0).
Proof. intro t. constructor. Qed.

Lemma wf_add d t i cfg : sdb_wf d -> sdb_wf (fst (sdb_add d t i cfg)).
Proof.
  intros Hwf. unfold sdb_add. pose proof (pmap_insert_sorted (sd_maps d t) i
    (mkPt (default_meas t) (default_meas t) (default_meas t) cfg) (Hwf t)) as H.
  destruct (pmap_insert _ _ _) as [m ok]. cbn [fst] in *. destruct ok; [apply wf_set_map; assumption|exact Hwf].
Qed.

Lemma wf_remove d t i : sdb_wf d -> sdb_wf (fst (sdb_remove d t i)).
Proof.
  intros Hwf. unfold sdb_remove. pose proof (pmap_remove_sorted (sd_maps d t) i (Hwf t)) as H.
  destruct (pmap_remove _ _) as [m ok]. cbn [fst] in *. destruct ok; [apply wf_set_map; assumption|exact Hwf].
Qed.

Lemma wf_update d t i v us mode : sdb_wf d -> sdb_wf (fst (fst (sdb_update d t i v us mode))).
Proof.
  intros Hwf. unfold sdb_update. destruct (pmap_get (sd_maps d t) i) as [p|]; cbn [fst]; [|exact Hwf].
  apply wf_set_map; [exact Hwf|]. unfold pmap_sorted. rewrite pmap_update_keys. apply Hwf.
Qed.

Lemma wf_push d it : sdb_wf d -> sdb_wf (fst (sdb_push d it)).
Proof. intros Hwf. unfold sdb_push. destruct (_ =? _); cbn [fst]; [exact Hwf|apply wf_set_queue; exact Hwf]. Qed.

Lemma wf_select_type d t v r : sdb_wf d -> sdb_wf (fst (sdb_select_type d t v r)).
Proof.
  intros Hwf. unfold sdb_select_type.
  destruct (match r with Some r0 => Some r0 | None => pmap_full_range (sd_maps d t) end) as [[a b]|]; [|exact Hwf].
  apply wf_push, wf_set_map; [exact Hwf|]. unfold pmap_sorted. rewrite pmap_select_keys. apply Hwf.
Qed.

Lemma wf_select d h : sdb_wf d -> sdb_wf (fst (sdb_select d h)).
Proof.
  intros Hwf. destruct h as [|t v r]; cbn [sdb_select]; [|apply wf_select_type; exact Hwf].
  assert (H : forall ts acc, sdb_wf (fst acc) -> sdb_wf (fst (fold_left sdb_select_class0_type ts acc))).
  { induction ts as [|t ts IH]; intros acc Hacc; cbn [fold_left]; [exact Hacc|]. apply IH.
    destruct acc as [d0 iin]. unfold sdb_select_class0_type. cbn [fst] in Hacc.
    destruct (sd_c0 d0 t); [|exact Hacc].
    pose proof (wf_select_type d0 t None None Hacc) as H. destruct (sdb_select_type d0 t None None) as [d' i]. exact H. }
  apply H. exact Hwf.
Qed.

(* ---------------------------------------------------------------------------------------------- *)
(* ranges of an ascending map *)

Lemma range_resume m a b : pmap_sorted m -> forall pre x post,
  pmap_range m a b = pre ++ x :: post -> pmap_range m (fst x) b = x :: post.
Proof.
  unfold pmap_range. induction m as [|[k p] m IH]; intros Hs pre x post H; cbn [filter] in H.
  - destruct pre; discriminate.
  - destruct (sorted_cons_inv _ _ _ Hs) as [Hs' Hall]. cbn [filter].
    assert (Hin : In x m -> in_range (fst x) b (k, p) = false).
    { intros Hx. rewrite Forall_forall in Hall. specialize (Hall _ Hx). unfold in_range. cbn [fst].
      apply andb_false_iff. left. apply N.leb_gt. exact Hall. }
    destruct (in_range a b (k, p)) eqn:Er.
    + destruct pre as [|y pre]; cbn [app] in H.
      * injection H as <- <-. unfold in_range at 1. cbn [fst]. rewrite N.leb_refl. cbn [andb].
        unfold in_range in Er. cbn [fst] in Er. apply andb_prop in Er. destruct Er as [Ea Eb]. rewrite Eb.
        f_equal. apply filter_ext_in. intros kp Hkp. rewrite Forall_forall in Hall. specialize (Hall _ Hkp).
        unfold in_range. apply N.leb_le in Ea. f_equal. rewrite !(proj2 (N.leb_le _ _)); [reflexivity|lia|lia].
      * injection H as <- H. rewrite Hin; [apply (IH Hs' _ _ _ H)|].
        assert (Hx : In x (filter (in_range a b) m)) by (rewrite H; apply in_or_app; right; left; reflexivity).
        apply filter_In in Hx. apply Hx.
    + rewrite Hin; [apply (IH Hs' _ _ _ H)|].
      assert (Hx : In x (filter (in_range a b) m)) by (rewrite H; apply in_or_app; right; left; reflexivity).
      apply filter_In in Hx. apply Hx.
Qed.

(* ---------------------------------------------------------------------------------------------- *)
(* the range writer emits the points in order *)

Definition rw_ok (w : rwriter) : Prop :=
  match rw_state w with RwHeader _ _ _ => rw_out w <> [] | _ => True end.

Lemma shdrs_items_cons h out : shdrs_items (h :: out) = shdrs_items out ++ rev (sh_items h).
Proof. unfold shdrs_items. cbn [rev]. rewrite map_app, concat_app. cbn [map concat]. rewrite app_nil_r. reflexivity. Qed.

Lemma shdrs_items_push out it : out <> [] -> shdrs_items (push_item out it) = shdrs_items out ++ [it].
Proof.
  destruct out as [|h tl]; [contradiction|]. intros _. cbn [push_item].
  rewrite !shdrs_items_cons. cbn [sh_items rev]. rewrite app_assoc. reflexivity.
Qed.

Lemma rw_start_spec w it w' : rw_start w it = Some w' ->
  shdrs_items (rw_out w') = shdrs_items (rw_out w) ++ [it] /\ rw_ok w' /\ rw_rem w' <= rw_rem w.
Proof.
  unfold rw_start. destruct (_ <=? rw_rem w) eqn:E; [|discriminate]. intros H. injection H as <-.
  cbn [rw_out rw_rem]. rewrite shdrs_items_cons. repeat split; [unfold rw_ok; cbn; discriminate|lia].
Qed.

Lemma rw_try_spec w it w' : rw_ok w -> rw_try w it = Some w' ->
  shdrs_items (rw_out w') = shdrs_items (rw_out w) ++ [it] /\ rw_ok w' /\ rw_rem w' <= rw_rem w.
Proof.
  intros Hok. unfold rw_try. unfold rw_ok in Hok.
  destruct (rw_state w) as [|gv last k|]; [apply rw_start_spec| |discriminate].
  destruct (gv_eqb gv (si_gv it) && is_consecutive last (si_index it)); [|apply rw_start_spec].
  destruct (next_need k (si_body it)) as [need k'].
  destruct (need <=? rw_rem w); [|discriminate]. intros H. injection H as <-. cbn [rw_out rw_rem rw_state].
  repeat split; [apply shdrs_items_push; exact Hok| |lia].
  unfold rw_ok. cbn [rw_state rw_out]. destruct (rw_out w); [contradiction|discriminate].
Qed.

Lemma range_loop_spec {A} (f : A -> sitem) pts : forall w w' res,
  rw_ok w -> range_loop (map f pts) w = (w', res) ->
  rw_ok w' /\ rw_rem w' <= rw_rem w /\
  match res with
  | None => shdrs_items (rw_out w') = shdrs_items (rw_out w) ++ map f pts
  | Some i => exists pre x post, pts = pre ++ x :: post /\ si_index (f x) = i
                                 /\ shdrs_items (rw_out w') = shdrs_items (rw_out w) ++ map f pre
                                 /\ rw_try w' (f x) = None
  end.
Proof.
  induction pts as [|x pts IH]; intros w w' res Hok H; cbn [map range_loop] in H.
  - injection H as <- <-. rewrite app_nil_r. repeat split; [exact Hok|lia].
  - destruct (rw_try w (f x)) as [w1|] eqn:Et.
    + destruct (rw_try_spec _ _ _ Hok Et) as (H1 & Hok1 & Hr1).
      destruct (IH _ _ _ Hok1 H) as (Hok' & Hr & Hres). repeat split; [exact Hok'|lia|].
      destruct res as [i|].
      * destruct Hres as (pre & y & post & -> & Hi & Hit & Hno).
        exists (x :: pre), y, post. repeat split; [exact Hi| |exact Hno].
        rewrite Hit, H1. cbn [map]. rewrite <- app_assoc. reflexivity.
      * rewrite Hres, H1. cbn [map]. rewrite <- app_assoc. reflexivity.
    + injection H as <- <-. repeat split; [exact Hok|lia|].
      exists [], x, pts. rewrite app_nil_r. repeat split; exact Et.
Qed.

(* ---------------------------------------------------------------------------------------------- *)
(* one write: a prefix of what is pending goes out, the rest stays pending *)

Definition pending_of (maps : ptype -> pmap) (q : list qitem) : list sitem :=
  concat (map (qitem_items maps) q).

Lemma point_item_index t var kp : si_index (point_item t var kp) = fst kp.
Proof. reflexivity. Qed.

Lemma queue_loop_spec maps : (forall t, pmap_sorted (maps t)) ->
  forall q rem out q' rem' out' c,
  queue_loop maps q rem out = (q', rem', out', c) ->
  exists W, shdrs_items out' = shdrs_items out ++ W
            /\ W ++ pending_of maps q' = pending_of maps q
            /\ rem' <= rem
            /\ (c = true -> q' = [])
            /\ (c = false -> pending_of maps q' <> []).
Proof.
  intros Hwf. induction q as [|it q IH]; intros rem out q' rem' out' c H; cbn [queue_loop] in H.
  - injection H as <- <- <- <-. exists []. rewrite app_nil_r. repeat split; [lia|intros; discriminate].
  - unfold qitem_items in H.
    destruct (range_loop (map (point_item (q_type it) (q_var it))
                              (pmap_range (maps (q_type it)) (q_start it) (q_stop it)))
                         (mkRw rem RwStart out)) as [w res] eqn:Er.
    assert (Hok : rw_ok (mkRw rem RwStart out)) by exact I.
    destruct (range_loop_spec _ _ _ _ _ Hok Er) as (_ & Hrem & Hres). cbn [rw_rem rw_out] in *.
    destruct res as [i|].
    + injection H as <- <- <- <-.
      destruct Hres as (pre & x & post & Hpts & Hi & Hit & _).
      rewrite point_item_index in Hi. subst i.
      assert (Hres : qitem_items maps (mkQ (q_type it) (fst x) (q_stop it) (q_var it))
                     = map (point_item (q_type it) (q_var it)) (x :: post)).
      { unfold qitem_items. cbn [q_type q_start q_stop q_var].
        rewrite (range_resume _ _ _ (Hwf (q_type it)) _ _ _ Hpts). reflexivity. }
      exists (map (point_item (q_type it) (q_var it)) pre). repeat split; [exact Hit| |exact Hrem|discriminate|].
      * unfold pending_of. cbn [map concat]. rewrite Hres, app_assoc. f_equal.
        unfold qitem_items. rewrite Hpts, map_app. reflexivity.
      * intros _. unfold pending_of. cbn [map concat]. rewrite Hres. cbn [map app]. discriminate.
    + destruct (IH _ _ _ _ _ _ H) as (W & H1 & H2 & H3 & H4 & H5).
      exists (map (point_item (q_type it) (q_var it)) (pmap_range (maps (q_type it)) (q_start it) (q_stop it)) ++ W).
      repeat split; [rewrite H1, Hres, app_assoc; reflexivity| |lia|exact H4|exact H5].
      unfold pending_of at 2. cbn [map concat]. fold (pending_of maps q). rewrite <- H2, app_assoc. reflexivity.
Qed.

Lemma sdb_pending_eq d : sdb_pending d = pending_of (sd_maps d) (sd_queue d).
Proof. reflexivity. Qed.

(* what one write does to the series *)
Theorem write_splits_pending : forall d budget,
  sdb_wf d ->
  let d' := fst (sdb_write_hdrs d budget) in
  let out := fst (fst (snd (sdb_write_hdrs d budget))) in
  let complete := snd (snd (sdb_write_hdrs d budget)) in
  shdrs_items out ++ sdb_pending d' = sdb_pending d
  /\ sd_maps d' = sd_maps d
  /\ (complete = true -> sd_queue d' = [])
  /\ (complete = false -> sdb_pending d' <> []).
Proof.
  intros d budget Hwf. unfold sdb_write_hdrs.
  destruct (queue_loop (sd_maps d) (sd_queue d) budget []) as [[[q rem] out] c] eqn:Eq. cbn [fst snd].
  destruct (queue_loop_spec _ Hwf _ _ _ _ _ _ _ Eq) as (W & H1 & H2 & _ & H4 & H5). cbn in H1.
  rewrite H1. repeat split; [exact H2|exact H4|exact H5].
Qed.

(* ---------------------------------------------------------------------------------------------- *)
(* progress *)

Definition item_fits (budget : N) (it : sitem) : Prop := 7 + body_first_len (si_body it) <= budget.

Lemma queue_loop_progress maps : forall q budget out q' rem' out' c x rest,
  pending_of maps q = x :: rest -> item_fits budget x ->
  queue_loop maps q budget out = (q', rem', out', c) ->
  exists W', shdrs_items out' = shdrs_items out ++ x :: W'.
Proof.
  induction q as [|it q IH]; intros budget out q' rem' out' c x rest Hp Hfit H; [discriminate|].
  cbn [queue_loop] in H. unfold pending_of in Hp. cbn [map concat] in Hp.
  destruct (qitem_items maps it) as [|y items] eqn:Ei.
  - cbn [range_loop app] in H, Hp. cbn [rw_rem rw_out] in H. eapply IH; eassumption.
  - cbn [app] in Hp. injection Hp as -> _. cbn [range_loop] in H.
    assert (Hs : rw_try (mkRw budget RwStart out) x = Some (mkRw (budget - (7 + body_first_len (si_body x)))
                   (RwHeader (si_gv x) (si_index x) (body_kstate (si_body x))) (mkSh (si_gv x) [x] :: out))).
    { unfold rw_try, rw_start. cbn [rw_state rw_rem rw_out]. unfold item_fits in Hfit.
      rewrite (proj2 (N.leb_le _ _) Hfit). reflexivity. }
    rewrite Hs in H.
    destruct (range_loop items _) as [w res] eqn:Er.
    assert (Hw : exists W1, shdrs_items (rw_out w) = shdrs_items out ++ x :: W1).
    { assert (Hok : rw_ok (mkRw (budget - (7 + body_first_len (si_body x)))
                   (RwHeader (si_gv x) (si_index x) (body_kstate (si_body x))) (mkSh (si_gv x) [x] :: out)))
        by (unfold rw_ok; cbn; discriminate).
      rewrite <- (map_id items) in Er.
      destruct (range_loop_spec _ _ _ _ _ Hok Er) as (_ & _ & Hres). cbn [rw_out] in Hres.
      rewrite shdrs_items_cons in Hres. cbn [sh_items rev app] in Hres.
      destruct res as [i|].
      - destruct Hres as (pre & z & post & _ & _ & Hit & _). exists (map (fun a => a) pre).
        rewrite Hit, <- app_assoc. reflexivity.
      - exists (map (fun a => a) items). rewrite Hres, <- app_assoc. reflexivity. }
    destruct Hw as [W1 Hw1]. destruct res as [i|].
    + injection H as <- <- <- <-. exists W1. exact Hw1.
    + destruct (queue_loop maps q (rw_rem w) (rw_out w)) as [[[q2 r2] o2] c2] eqn:Eq.
      injection H as <- <- <- <-.
      (* the rest of the queue only appends *)
      assert (Happ : exists W2, shdrs_items o2 = shdrs_items (rw_out w) ++ W2).
      { clear - Eq. revert Eq. generalize (rw_rem w) (rw_out w). revert q2 r2 o2 c2.
        induction q as [|it2 q IHq]; intros q2 r2 o2 c2 rem0 out0 Eq; cbn [queue_loop] in Eq.
        - injection Eq as <- <- <- <-. exists []. rewrite app_nil_r. reflexivity.
        - destruct (range_loop (qitem_items maps it2) (mkRw rem0 RwStart out0)) as [w2 res2] eqn:Er2.
          rewrite <- (map_id (qitem_items maps it2)) in Er2.
          assert (Hok : rw_ok (mkRw rem0 RwStart out0)) by exact I.
          destruct (range_loop_spec _ _ _ _ _ Hok Er2) as (_ & _ & Hres2). cbn [rw_out] in Hres2.
          destruct res2 as [i2|].
          + injection Eq as <- <- <- <-. destruct Hres2 as (pre & z & post & _ & _ & Hit & _).
            eexists. exact Hit.
          + destruct (IHq _ _ _ _ _ _ Eq) as [W3 H3]. eexists. rewrite H3, Hres2, <- app_assoc. reflexivity. }
      destruct Happ as [W2 H2]. exists (W1 ++ W2). rewrite H2, Hw1, <- app_assoc. reflexivity.
Qed.

(* if the first pending object fits an empty fragment, the write emits it *)
Theorem write_progress : forall d budget x rest,
  sdb_pending d = x :: rest -> item_fits budget x ->
  exists W', shdrs_items (fst (fst (snd (sdb_write_hdrs d budget)))) = x :: W'.
Proof.
  intros d budget x rest Hp Hfit. unfold sdb_write_hdrs.
  destruct (queue_loop (sd_maps d) (sd_queue d) budget []) as [[[q rem] out] c] eqn:Eq. cbn [fst snd].
  destruct (queue_loop_progress _ _ _ _ _ _ _ _ _ _ Hp Hfit Eq) as [W' H]. exists W'. exact H.
Qed.

(* ---------------------------------------------------------------------------------------------- *)
(* updates do not touch what is pending *)

Lemma pmap_update_items t var a b m i p q :
  pmap_get m i = Some p -> p_selected q = p_selected p -> p_config q = p_config p ->
  map (point_item t var) (pmap_range (pmap_update m i (fun _ => q)) a b)
  = map (point_item t var) (pmap_range m a b).
Proof.
  intros Hg Hs Hc. unfold pmap_range. induction m as [|[k x] m IH]; cbn [pmap_update pmap_get] in *; [reflexivity|].
  destruct (k =? i) eqn:E.
  - injection Hg as ->. cbn [filter]. change (in_range a b (k, q)) with (in_range a b (k, p)).
    destruct (in_range a b (k, p)); [|reflexivity]. cbn [map]. f_equal.
    unfold point_item. cbn [fst snd]. rewrite Hs, Hc. reflexivity.
  - cbn [filter]. destruct (in_range a b (k, x)); [cbn [map]; f_equal|]; apply IH; exact Hg.
Qed.

Record supd := mkUpd { u_type : ptype; u_index : N; u_meas : meas; u_static : bool; u_mode : event_mode }.

Definition sdb_apply_upd (d : sdb) (u : supd) : sdb :=
  fst (fst (sdb_update d (u_type u) (u_index u) (u_meas u) (u_static u) (u_mode u))).

Lemma update_keeps_pending d u :
  sd_queue (sdb_apply_upd d u) = sd_queue d
  /\ forall q, qitem_items (sd_maps (sdb_apply_upd d u)) q = qitem_items (sd_maps d) q.
Proof.
  unfold sdb_apply_upd, sdb_update. destruct (pmap_get (sd_maps d (u_type u)) (u_index u)) as [p|] eqn:Eg; cbn [fst].
  - split; [reflexivity|]. intro q. unfold qitem_items. cbn [set_map sd_maps].
    destruct (ptype_eqb (q_type q) (u_type u)) eqn:Et; [|reflexivity].
    apply ptype_eqb_eq in Et. rewrite Et. apply (pmap_update_items _ _ _ _ _ _ p); [exact Eg|reflexivity|reflexivity].
  - split; reflexivity.
Qed.

Lemma updates_keep_pending us : forall d,
  sdb_pending (fold_left sdb_apply_upd us d) = sdb_pending d.
Proof.
  induction us as [|u us IH]; intro d; cbn [fold_left]; [reflexivity|]. rewrite IH.
  destruct (update_keeps_pending d u) as [Hq Hi]. unfold sdb_pending. rewrite Hq. f_equal.
  apply map_ext. exact Hi.
Qed.

Lemma updates_keep_wf us : forall d, sdb_wf d -> sdb_wf (fold_left sdb_apply_upd us d).
Proof.
  induction us as [|u us IH]; intros d Hwf; cbn [fold_left]; [exact Hwf|]. apply IH. apply wf_update; exact Hwf.
Qed.

(* ---------------------------------------------------------------------------------------------- *)
(* the series *)

(* a series of fragments: before every write an arbitrary list of updates is applied *)
Fixpoint sdb_series (d : sdb) (steps : list (list supd * N)) : list (list sitem) * sdb :=
  match steps with
  | [] => ([], d)
  | (us, b) :: tl =>
    let d1 := fold_left sdb_apply_upd us d in
    let r := sdb_write_hdrs d1 b in
    let '(fs, d3) := sdb_series (fst r) tl in
    (shdrs_items (fst (fst (snd r))) :: fs, d3)
  end.

(* every single pending object fits an empty fragment of every budget of the series (F11: without
   this hypothesis an object larger than an empty fragment is never written, and the series makes no
   progress) *)
Definition fits_empty (d : sdb) (budgets : list N) : Prop :=
  Forall (fun b => Forall (item_fits b) (sdb_pending d)) budgets.

Lemma Forall_app_r {A} (P : A -> Prop) l1 l2 : Forall P (l1 ++ l2) -> Forall P l2.
Proof. intros H. apply Forall_app in H. apply H. Qed.


Theorem snapshot : forall steps d,
  sdb_wf d ->
  fits_empty d (map snd steps) ->
  (length (sdb_pending d) <= length steps)%nat ->
  concat (fst (sdb_series d steps)) = sdb_pending d
  /\ (steps <> [] -> sd_queue (snd (sdb_series d steps)) = []).
Proof.
  induction steps as [|[us b] steps IH]; intros d Hwf Hfit Hlen.
  - cbn [sdb_series fst snd concat]. cbn [length] in Hlen.
    destruct (sdb_pending d) eqn:Ep; [|cbn in Hlen; lia]. split; [reflexivity|intro H; contradiction].
  - cbn [sdb_series]. set (d1 := fold_left sdb_apply_upd us d).
    assert (Hp1 : sdb_pending d1 = sdb_pending d) by apply updates_keep_pending.
    assert (Hwf1 : sdb_wf d1) by (apply updates_keep_wf; exact Hwf).
    destruct (write_splits_pending d1 b Hwf1) as (Hsplit & Hmaps & Hc1 & Hc2).
    set (r := sdb_write_hdrs d1 b) in *.
    assert (Hwf2 : sdb_wf (fst r)) by (intro t; rewrite Hmaps; apply Hwf1).
    cbn [map snd] in Hfit. unfold fits_empty in Hfit. inversion Hfit as [|? ? Hb Hrest]; subst.
    assert (Hshort : (length (sdb_pending (fst r)) <= length steps)%nat
                     /\ (sdb_pending d1 <> [] -> (length (sdb_pending (fst r)) < length (sdb_pending d1))%nat)).
    { destruct (sdb_pending d1) as [|x rest] eqn:Ep.
      - destruct (shdrs_items (fst (fst (snd r)))); [|discriminate]. cbn [app] in Hsplit. rewrite Hsplit.
        split; [cbn; lia|intro H; contradiction].
      - rewrite <- Hp1 in Hb. inversion Hb as [|? ? Hx _]; subst.
        destruct (write_progress d1 b x rest Ep Hx) as [W' HW]. fold r in HW. rewrite HW in Hsplit.
        apply (f_equal (@length sitem)) in Hsplit. rewrite <- Hp1 in Hlen.
        cbn [app length] in Hsplit, Hlen. rewrite app_length in Hsplit. split; [lia|intros _; cbn [length]; lia]. }
    destruct Hshort as [Hshort _].
    assert (Hfit2 : fits_empty (fst r) (map snd steps)).
    { unfold fits_empty. eapply Forall_impl; [|exact Hrest]. intros b' Hb'.
      rewrite <- Hp1, <- Hsplit in Hb'. apply Forall_app_r in Hb'. exact Hb'. }
    destruct (IH (fst r) Hwf2 Hfit2 Hshort) as [IH1 IH2].
    destruct (sdb_series (fst r) steps) as [fs d3] eqn:Es. cbn [fst snd concat] in *.
    split; [rewrite IH1, Hsplit; exact Hp1|]. intros _.
    destruct steps as [|s steps']; [|apply IH2; discriminate].
    cbn [sdb_series] in Es. injection Es as <- <-.
    cbn [length] in Hshort. destruct (sdb_pending (fst r)) eqn:Ep2; [|cbn in Hshort; lia].
    destruct (snd (snd r)) eqn:Ec; [apply Hc1; reflexivity|]. exfalso. apply (Hc2 eq_refl). reflexivity.
Qed.

(* the series of a READ without interleaved updates *)
Theorem series_exactly_once : forall budgets d,
  sdb_wf d ->
  fits_empty d budgets ->
  (length (sdb_pending d) <= length budgets)%nat ->
  concat (fst (sdb_series d (map (fun b => ([], b)) budgets))) = sdb_pending d.
Proof.
  intros budgets d Hwf Hfit Hlen.
  apply snapshot; [exact Hwf|rewrite map_map; cbn [snd]; rewrite map_id; exact Hfit|rewrite map_length; exact Hlen].
Qed.

(* ---------------------------------------------------------------------------------------------- *)
(* what is pending: exactly the existing points in range, ascending, frozen at selection time *)

Lemma sorted_filter_keys (f : N * point -> bool) m : pmap_sorted m -> pmap_sorted (filter f m).
Proof.
  induction m as [|[k p] m IH]; intros Hs; cbn [filter]; [exact Hs|].
  destruct (sorted_cons_inv _ _ _ Hs) as [Hs' Hall].
  destruct (f (k, p)); [|apply IH; exact Hs'].
  apply sorted_cons; [apply IH; exact Hs'|]. apply Forall_forall. intros kp Hkp.
  apply filter_In in Hkp. rewrite Forall_forall in Hall. apply Hall, Hkp.
Qed.

Theorem pending_ascending_existing : forall maps q,
  pmap_sorted (maps (q_type q)) ->
  StronglySorted N.lt (map si_index (qitem_items maps q))
  /\ (forall i, In i (map si_index (qitem_items maps q))
                <-> (exists p, In (i, p) (maps (q_type q))) /\ q_start q <= i /\ i <= q_stop q)
  /\ Forall (fun it => si_type it = q_type q) (qitem_items maps q).
Proof.
  intros maps q Hs. unfold qitem_items. rewrite map_map.
  assert (Hidx : map (fun x => si_index (point_item (q_type q) (q_var q) x))
                     (pmap_range (maps (q_type q)) (q_start q) (q_stop q))
                 = map fst (pmap_range (maps (q_type q)) (q_start q) (q_stop q))) by (apply map_ext; reflexivity).
  rewrite Hidx. split; [|split; [intro i; split|]].
  - apply (sorted_filter_keys _ _ Hs).
  - intros Hin. apply in_map_iff in Hin. destruct Hin as ([k p] & <- & Hkp). unfold pmap_range in Hkp.
    apply filter_In in Hkp. destruct Hkp as [Hkp Hr]. unfold in_range in Hr. cbn [fst] in *.
    apply andb_prop in Hr. destruct Hr as [Ha Hb]. apply N.leb_le in Ha, Hb.
    repeat split; [exists p; exact Hkp|exact Ha|exact Hb].
  - intros ((p & Hp) & Ha & Hb). apply in_map_iff. exists (i, p). split; [reflexivity|].
    unfold pmap_range. apply filter_In. split; [exact Hp|]. unfold in_range. cbn [fst].
    apply andb_true_iff. split; apply N.leb_le; assumption.
  - apply Forall_forall. intros it Hit. apply in_map_iff in Hit. destruct Hit as (kp & <- & _). reflexivity.
Qed.

(* the point with `selected` replaced by `current` *)
Definition freeze (kp : N * point) : N * point :=
  (fst kp, mkPt (p_current (snd kp)) (p_current (snd kp)) (p_last_event (snd kp)) (p_config (snd kp))).

Lemma range_of_select m a b : pmap_range (pmap_select m a b) a b = map freeze (pmap_range m a b).
Proof.
  unfold pmap_range, pmap_select. induction m as [|kp m IH]; cbn [map filter]; [reflexivity|].
  destruct (in_range a b kp) eqn:Er.
  - change (in_range a b (fst kp, _)) with (in_range a b kp). rewrite Er. cbn [map]. rewrite IH. reflexivity.
  - rewrite Er. exact IH.
Qed.

(* selection copies current into selected: the new queue entry reports, for every existing point in
   range, the value the point has NOW (requested variation, or the configured one; promoted) *)
Theorem select_copies_current : forall d t v a b,
  snd (sdb_select_type d t v (Some (a, b))) = 0 ->
  let d' := fst (sdb_select_type d t v (Some (a, b))) in
  sd_queue d' = sd_queue d ++ [mkQ t a b v]
  /\ qitem_items (sd_maps d') (mkQ t a b v)
     = map (fun kp => point_item t v (freeze kp)) (pmap_range (sd_maps d t) a b).
Proof.
  intros d t v a b. unfold sdb_select_type, sdb_push. cbn [sd_queue set_map sd_cap].
  destruct (N.of_nat (length (sd_queue d)) =? sd_cap d); cbn [fst snd]; [intro H; discriminate H|]. intros _.
  split; [reflexivity|]. unfold qitem_items. cbn [set_queue set_map sd_maps q_type q_start q_stop q_var].
  rewrite ptype_eqb_refl, range_of_select, map_map. reflexivity.
Qed.

(* ---------------------------------------------------------------------------------------------- *)
(* every reachable database is well formed *)

Inductive sop :=
| SAdd (t : ptype) (i : N) (cfg : pconfig)
| SRemove (t : ptype) (i : N)
| SUpdate (u : supd)
| SSelect (h : static_header)
| SWrite (budget : N)
| SReset.

Definition sdb_step (d : sdb) (op : sop) : sdb :=
  match op with
  | SAdd t i cfg => fst (sdb_add d t i cfg)
  | SRemove t i => fst (sdb_remove d t i)
  | SUpdate u => sdb_apply_upd d u
  | SSelect h => fst (sdb_select d h)
  | SWrite b => fst (sdb_write_hdrs d b)
  | SReset => sdb_reset d
  end.

Theorem wf_reachable : forall ms c0 ops, sdb_wf (fold_left sdb_step ops (sdb_new ms c0)).
Proof.
  intros ms c0 ops. generalize (wf_new ms c0). generalize (sdb_new ms c0).
  induction ops as [|op ops IH]; intros d Hwf; cbn [fold_left]; [exact Hwf|]. apply IH.
  destruct op; cbn [sdb_step].
  - apply wf_add; exact Hwf.
  - apply wf_remove; exact Hwf.
  - apply wf_update; exact Hwf.
  - apply wf_select; exact Hwf.
  - intro t. rewrite (proj1 (proj2 (write_splits_pending d budget Hwf))). apply Hwf.
  - apply wf_set_queue; exact Hwf.
Qed.

(* ---------------------------------------------------------------------------------------------- *)
(* all objects of a type, class 0 *)

Lemma sorted_bounds m k (p : point) : pmap_sorted ((k, p) :: m) ->
  Forall (fun kp => k <= fst kp /\ fst kp <= last (map fst ((k, p) :: m)) k) ((k, p) :: m).
Proof.
  revert k p. induction m as [|[k' p'] m IH]; intros k p Hs.
  - cbn. constructor; [cbn; lia|constructor].
  - destruct (sorted_cons_inv _ _ _ Hs) as [Hs' Hall]. specialize (IH k' p' Hs').
    inversion Hall as [|? ? Hk _]; subst. cbn [fst] in Hk.
    assert (Hlast : last (map fst ((k, p) :: (k', p') :: m)) k = last (map fst ((k', p') :: m)) k').
    { cbn [map fst]. cbn [last]. destruct (map fst m) eqn:Em; [reflexivity|].
      clear. revert n. induction l as [|x l IHl]; intro n; cbn [last]; [reflexivity|]. apply IHl. }
    rewrite Hlast. constructor.
    + cbn [fst]. split; [lia|]. inversion IH as [|? ? [Ha Hb] _]; subst. cbn [fst] in *. lia.
    + eapply Forall_impl; [|exact IH]. cbn. intros kp [Ha Hb]. split; [lia|exact Hb].
Qed.

Lemma full_range_all m a b : pmap_sorted m -> pmap_full_range m = Some (a, b) -> pmap_range m a b = m.
Proof.
  intros Hs Hf. destruct m as [|[k p] m]; [discriminate|]. cbn [pmap_full_range] in Hf. injection Hf as <- <-.
  pose proof (sorted_bounds m k p Hs) as Hb. unfold pmap_range.
  assert (H : forall l, Forall (fun kp => k <= fst kp /\ fst kp <= last (map fst ((k, p) :: m)) k) l ->
                        filter (in_range k (last (map fst ((k, p) :: m)) k)) l = l).
  { induction l as [|x l IHl]; intros Hl; cbn [filter]; [reflexivity|]. inversion Hl as [|? ? [Ha Hb'] Hl']; subst.
    unfold in_range at 1. rewrite (proj2 (N.leb_le _ _) Ha), (proj2 (N.leb_le _ _) Hb'). cbn [andb].
    rewrite (IHl Hl'). reflexivity. }
  apply H. exact Hb.
Qed.

(* "all objects" of a type (qualifier 0x06): every point of the type is reported with its current value *)
Theorem select_all_objects : forall d t v,
  sdb_wf d -> sd_maps d t <> [] ->
  snd (sdb_select_type d t v None) = 0 ->
  let d' := fst (sdb_select_type d t v None) in
  exists a b, sd_queue d' = sd_queue d ++ [mkQ t a b v]
              /\ qitem_items (sd_maps d') (mkQ t a b v)
                 = map (fun kp => point_item t v (freeze kp)) (sd_maps d t).
Proof.
  intros d t v Hwf Hne. unfold sdb_select_type.
  destruct (pmap_full_range (sd_maps d t)) as [[a b]|] eqn:Ef.
  - intros Hp. exists a, b.
    pose proof (select_copies_current d t v a b) as H. unfold sdb_select_type in H.
    destruct (H Hp) as [H1 H2]. split; [exact H1|]. rewrite H2, (full_range_all _ _ _ (Hwf t) Ef). reflexivity.
  - destruct (sd_maps d t) as [|[k p] m]; [contradiction|discriminate].
Qed.

(* what a class 0 scan selects, type by type in the order of the code *)
Definition class0_items (d : sdb) (t : ptype) : list sitem :=
  if sd_c0 d t then map (fun kp => point_item t None (freeze kp)) (sd_maps d t) else [].

Lemma select_type_other d t v r t' : ptype_eqb t' t = false ->
  sd_maps (fst (sdb_select_type d t v r)) t' = sd_maps d t'.
Proof.
  intros Hne. unfold sdb_select_type.
  destruct (match r with Some r0 => Some r0 | None => pmap_full_range (sd_maps d t) end) as [[a b]|]; [|reflexivity].
  unfold sdb_push. cbn [set_map sd_queue sd_cap sd_maps].
  destruct (_ =? _); cbn [fst set_queue set_map sd_maps]; rewrite Hne; reflexivity.
Qed.

Lemma select_type_c0 d t v r : sd_c0 (fst (sdb_select_type d t v r)) = sd_c0 d
  /\ sd_cap (fst (sdb_select_type d t v r)) = sd_cap d.
Proof.
  unfold sdb_select_type.
  destruct (match r with Some r0 => Some r0 | None => pmap_full_range (sd_maps d t) end) as [[a b]|]; [|split; reflexivity].
  unfold sdb_push. cbn [set_map sd_queue sd_cap]. destruct (_ =? _); split; reflexivity.
Qed.

Lemma qitem_items_ext maps maps' q : maps (q_type q) = maps' (q_type q) -> qitem_items maps q = qitem_items maps' q.
Proof. intros H. unfold qitem_items. rewrite H. reflexivity. Qed.

Lemma class0_step d iin t :
  sdb_select_class0_type (d, iin) t
  = if sd_c0 d t then (fst (sdb_select_type d t None None), N.lor iin (snd (sdb_select_type d t None None)))
    else (d, iin).
Proof. unfold sdb_select_class0_type. destruct (sd_c0 d t); [|reflexivity]. destruct (sdb_select_type d t None None); reflexivity. Qed.

Lemma class0_fold ts : forall d iin,
  sdb_wf d -> NoDup ts ->
  (N.of_nat (length (sd_queue d)) + N.of_nat (length ts) <= sd_cap d) ->
  Forall (fun q => ~ In (q_type q) ts) (sd_queue d) ->
  snd (fold_left sdb_select_class0_type ts (d, iin)) = iin
  /\ sdb_pending (fst (fold_left sdb_select_class0_type ts (d, iin)))
     = sdb_pending d ++ concat (map (class0_items d) ts).
Proof.
  induction ts as [|t ts IH]; intros d iin Hwf Hnd Hcap Hq; cbn [fold_left].
  - cbn [map concat fst snd]. rewrite app_nil_r. split; reflexivity.
  - inversion Hnd as [|? ? Hnotin Hnd']; subst.
    assert (Hq'' : Forall (fun q => ~ In (q_type q) ts) (sd_queue d)).
    { eapply Forall_impl; [|exact Hq]. intros q Hn Hin. apply Hn. right; exact Hin. }
    rewrite class0_step. cbn [map concat]. unfold class0_items at 1.
    destruct (sd_c0 d t) eqn:Ec0.
    + destruct (sd_maps d t) as [|kp0 m0] eqn:Em.
      * (* no point of this type: nothing is selected *)
        assert (Hsel : sdb_select_type d t None None = (d, 0)).
        { unfold sdb_select_type. rewrite Em. reflexivity. }
        rewrite Hsel. cbn [fst snd map app]. rewrite N.lor_0_r.
        apply IH; [exact Hwf|exact Hnd'|cbn [length] in Hcap; lia|exact Hq''].
      * assert (Hne : sd_maps d t <> []) by (rewrite Em; discriminate).
        assert (Hpush : snd (sdb_select_type d t None None) = 0).
        { unfold sdb_select_type. rewrite Em. destruct kp0 as [k0 p0]. cbn [pmap_full_range].
          unfold sdb_push. cbn [set_map sd_queue sd_cap].
          destruct (N.of_nat (length (sd_queue d)) =? sd_cap d) eqn:E; [|reflexivity].
          apply N.eqb_eq in E. cbn [length] in Hcap. lia. }
        destruct (select_all_objects d t None Hwf Hne Hpush) as (a & b & Hq' & Hitems).
        pose proof (wf_select_type d t None None Hwf) as Hwf'.
        pose proof (select_type_other d t None None) as Hother.
        pose proof (select_type_c0 d t None None) as [Hc0' Hcap'].
        rewrite Hpush, N.lor_0_r. set (d' := fst (sdb_select_type d t None None)) in *.
        assert (Hrest : map (class0_items d') ts = map (class0_items d) ts).
        { apply map_ext_in. intros t' Ht'. unfold class0_items. rewrite Hc0'.
          rewrite Hother; [reflexivity|]. destruct (ptype_eqb t' t) eqn:E; [|reflexivity].
          apply ptype_eqb_eq in E. subst t'. contradiction. }
        destruct (IH d' iin Hwf' Hnd') as [I1 I2].
        { rewrite Hcap', Hq', app_length. cbn [length] in *. lia. }
        { rewrite Hq'. apply Forall_app. split; [exact Hq''|].
          constructor; [cbn [q_type]; exact Hnotin|constructor]. }
        split; [exact I1|]. rewrite I2, Hrest. rewrite <- Em. rewrite <- Hitems, app_assoc. f_equal.
        unfold sdb_pending. rewrite Hq', map_app, concat_app. cbn [map concat]. rewrite app_nil_r. f_equal.
        (* earlier queue entries are of other types: their items are unchanged *)
        f_equal. apply map_ext_in. intros q Hin. apply qitem_items_ext. apply Hother.
        rewrite Forall_forall in Hq. specialize (Hq q Hin). destruct (ptype_eqb (q_type q) t) eqn:E; [|reflexivity].
        apply ptype_eqb_eq in E. exfalso. apply Hq. left. symmetry. exact E.
    + cbn [app]. apply IH; [exact Hwf|exact Hnd'|cbn [length] in Hcap; lia|exact Hq''].
Qed.

(* class 0 (g60v1): with an empty selection queue, the scan reports every point of every enabled type
   with its current value in the configured (promoted) variation, types in the fixed order of the code *)
Theorem select_class0_all_points : forall d,
  sdb_wf d -> sd_queue d = [] -> 8 <= sd_cap d ->
  snd (sdb_select d SelClass0) = 0
  /\ sdb_pending (fst (sdb_select d SelClass0)) = concat (map (class0_items d) all_ptypes).
Proof.
  intros d Hwf Hq Hcap. cbn [sdb_select].
  assert (Hnd : NoDup all_ptypes).
  { unfold all_ptypes. repeat (constructor; [cbn; intuition discriminate|]). constructor. }
  destruct (class0_fold all_ptypes d 0 Hwf Hnd) as [H1 H2].
  - rewrite Hq. cbn. lia.
  - rewrite Hq. constructor.
  - split; [exact H1|]. rewrite H2. unfold sdb_pending. rewrite Hq. reflexivity.
Qed.
