(* Transport/TransportProofs.v — segmentation and reassembly. *)
From Dnp3V Require Import Transport.Segment Link.CrcProofs Link.ParserProofs.
Open Scope N_scope.
