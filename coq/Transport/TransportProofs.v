(* Transport/TransportProofs.v — segmentation and reassembly. *)
From Dnp3V Require Import Transport.Segment Link.CrcProofs Link.ParserProofs.
Open Scope N_scope.

(* ---------- 1. the transport header byte ---------------------------------------------------- *)

Definition tp_eqb (a b : tp_header) : bool :=
  Bool.eqb (t_fin a) (t_fin b) && Bool.eqb (t_fir a) (t_fir b) && (t_seq a =? t_seq b).

Lemma tp_eqb_eq a b : tp_eqb a b = true -> a = b.
Proof.
  destruct a as [f1 r1 s1], b as [f2 r2 s2]. unfold tp_eqb. cbn [t_fin t_fir t_seq].
  intro H. apply andb_prop in H. destruct H as [H Hs]. apply andb_prop in H. destruct H as [Hf Hr].
  apply eqb_prop in Hf. apply eqb_prop in Hr. apply N.eqb_eq in Hs. subst. reflexivity.
Qed.

Lemma tp_to_from_check : forallb (fun b => tp_to_u8 (tp_from_u8 b) =? b) (nrange 256) = true.
Proof. vm_compute. reflexivity. Qed.

Lemma tp_to_from b : b < 256 -> tp_to_u8 (tp_from_u8 b) = b.
Proof. intro H. apply N.eqb_eq. exact (forallb_nrange _ 256 tp_to_from_check b H). Qed.

Lemma tp_from_to_check :
  forallb (fun s =>
    tp_eqb (tp_from_u8 (tp_to_u8 {| t_fin := false; t_fir := false; t_seq := s |}))
           {| t_fin := false; t_fir := false; t_seq := s |} &&
    tp_eqb (tp_from_u8 (tp_to_u8 {| t_fin := false; t_fir := true; t_seq := s |}))
           {| t_fin := false; t_fir := true; t_seq := s |} &&
    tp_eqb (tp_from_u8 (tp_to_u8 {| t_fin := true; t_fir := false; t_seq := s |}))
           {| t_fin := true; t_fir := false; t_seq := s |} &&
    tp_eqb (tp_from_u8 (tp_to_u8 {| t_fin := true; t_fir := true; t_seq := s |}))
           {| t_fin := true; t_fir := true; t_seq := s |} &&
    (tp_to_u8 {| t_fin := false; t_fir := false; t_seq := s |} <? 256) &&
    (tp_to_u8 {| t_fin := false; t_fir := true; t_seq := s |} <? 256) &&
    (tp_to_u8 {| t_fin := true; t_fir := false; t_seq := s |} <? 256) &&
    (tp_to_u8 {| t_fin := true; t_fir := true; t_seq := s |} <? 256))
  (nrange 64) = true.
Proof. vm_compute. reflexivity. Qed.

Lemma tp_from_to h : t_seq h < 64 -> tp_from_u8 (tp_to_u8 h) = h.
Proof.
  destruct h as [fin fir s]. cbn [t_seq]. intro H.
  pose proof (forallb_nrange _ 64 tp_from_to_check s H) as C. cbv beta in C.
  do 7 (apply andb_prop in C; destruct C as [C ?]).
  destruct fin, fir; apply tp_eqb_eq; assumption.
Qed.

Lemma tp_to_u8_byte h : t_seq h < 64 -> tp_to_u8 h < 256.
Proof.
  destruct h as [fin fir s]. cbn [t_seq]. intro H.
  pose proof (forallb_nrange _ 64 tp_from_to_check s H) as C. cbv beta in C.
  do 7 (apply andb_prop in C; destruct C as [C ?]).
  destruct fin, fir; apply N.ltb_lt; assumption.
Qed.

Lemma tp_from_u8_seq b : t_seq (tp_from_u8 b) < 64.
Proof.
  unfold tp_from_u8. cbn [t_seq]. change c_tp_seq_max with (N.ones 6).
  rewrite N.land_ones. change (2 ^ 6) with 64. apply N.mod_lt. discriminate.
Qed.

Theorem tp_header_round_trip :
  (forall b, b < 256 -> tp_to_u8 (tp_from_u8 b) = b) /\
  (forall fin fir s, s < 64 ->
     tp_from_u8 (tp_to_u8 {| t_fin := fin; t_fir := fir; t_seq := s |})
     = {| t_fin := fin; t_fir := fir; t_seq := s |}).
Proof. split; [exact tp_to_from|]. intros fin fir s H. apply tp_from_to. exact H. Qed.

Lemma seq_next_mod s : s < 64 -> seq_next s = (s + 1) mod 64.
Proof.
  intro H. unfold seq_next. change c_tp_seq_max with 63.
  destruct (s =? 63) eqn:E; [apply N.eqb_eq in E; subst; reflexivity|].
  apply N.eqb_neq in E. rewrite N.mod_small by lia. reflexivity.
Qed.

Lemma seq_next_bound s : s < 64 -> seq_next s < 64.
Proof. intro H. rewrite seq_next_mod by assumption. apply N.mod_lt. discriminate. Qed.

Lemma seq_iter k s : s < 64 -> Nat.iter k seq_next s = (s + N.of_nat k) mod 64.
Proof.
  intro H. induction k as [|k IH].
  - change (Nat.iter 0 seq_next s) with s. rewrite N.add_0_r, N.mod_small by assumption. reflexivity.
  - change (Nat.iter (S k) seq_next s) with (seq_next (Nat.iter k seq_next s)). rewrite IH. rewrite seq_next_mod by (apply N.mod_lt; discriminate).
    rewrite N.add_mod_idemp_l by discriminate. f_equal. lia.
Qed.

Lemma seq_iter_bound k s : s < 64 -> Nat.iter k seq_next s < 64.
Proof. intro H. rewrite seq_iter by assumption. apply N.mod_lt. discriminate. Qed.

(* period exactly 64 *)
Theorem seq_next_cycle s : s < 64 ->
  seq_next s < 64 /\ Nat.iter 64 seq_next s = s /\
  forall k, (0 < k < 64)%nat -> Nat.iter k seq_next s <> s.
Proof.
  intro H. split; [apply seq_next_bound; assumption|]. split.
  - rewrite seq_iter by assumption. change (N.of_nat 64) with 64. lia.
  - intros k Hk. rewrite seq_iter by assumption. lia.
Qed.

(* ---------- 2. segmentation ------------------------------------------------------------------- *)

Definition seg_hdr_of (seq : N) (first : bool) (rest : list (list N)) : tp_header :=
  {| t_fin := match rest with [] => true | _ => false end; t_fir := first; t_seq := seq |}.

Fixpoint segs_of (seq : N) (first : bool) (cs : list (list N)) : list (tp_header * list N) :=
  match cs with
  | [] => []
  | c :: rest => (seg_hdr_of seq first rest, c) :: segs_of (seq_next seq) false rest
  end.

Definition seg_frame (cfg : wcfg) (dest : N) (s : tp_header * list N) : option (list N) :=
  format_data_frame (data_header cfg dest) (tp_to_u8 (fst s)) (snd s).

Lemma iter_shift n s : Nat.iter (S n) seq_next s = Nat.iter n seq_next (seq_next s).
Proof.
  induction n as [|n IH]; [reflexivity|].
  change (Nat.iter (S (S n)) seq_next s) with (seq_next (Nat.iter (S n) seq_next s)).
  rewrite IH. reflexivity.
Qed.

Lemma write_chunks_segs cfg dest : forall cs seq first,
  write_chunks cfg dest seq first cs =
  (map (fun s => match seg_frame cfg dest s with Some f => f | None => [] end) (segs_of seq first cs),
   Nat.iter (length cs) seq_next seq).
Proof.
  induction cs as [|c rest IH]; intros seq first; [reflexivity|].
  cbn [write_chunks segs_of map length]. rewrite IH. unfold seg_frame at 1, seg_hdr_of. cbn [fst snd].
  f_equal. symmetry. apply iter_shift.
Qed.

Lemma seg_frame_some cfg dest s : (length (snd s) <= 249)%nat ->
  seg_frame cfg dest s =
  Some (format_frame (data_header cfg dest) (tp_to_u8 (fst s) :: snd s)).
Proof.
  intro H. unfold seg_frame, format_data_frame. change (N.to_nat c_max_app_bytes_per_frame) with 249%nat.
  replace (249 <? length (snd s))%nat with false by (symmetry; apply Nat.ltb_ge; lia).
  unfold format_frame. cbn [length]. do 3 f_equal. lia.
Qed.

Lemma segs_of_payloads : forall cs seq first, map snd (segs_of seq first cs) = cs.
Proof. induction cs as [|c rest IH]; intros; [reflexivity|]. cbn [segs_of map snd]. rewrite IH. reflexivity. Qed.

Lemma segs_of_length cs seq first : length (segs_of seq first cs) = length cs.
Proof. rewrite <- (segs_of_payloads cs seq first) at 2. rewrite map_length. reflexivity. Qed.

Lemma segs_of_seq_bound : forall cs seq first, seq < 64 ->
  Forall (fun s => t_seq (fst s) < 64) (segs_of seq first cs).
Proof.
  induction cs as [|c rest IH]; intros seq first H; [constructor|].
  cbn [segs_of]. constructor; [exact H|]. apply IH. apply seq_next_bound. exact H.
Qed.

Lemma chunks_length_le k l : (0 < k)%nat -> Forall (fun c => (length c <= k)%nat) (chunks k l).
Proof.
  intro Hk. remember (length l) as n eqn:Hn. assert (Hl : (length l <= n)%nat) by lia. clear Hn.
  revert l Hl. induction n as [|n IH]; intros l Hl.
  - destruct l; [constructor|cbn in Hl; lia].
  - destruct l as [|x l]; [constructor|].
    rewrite chunks_cons by (assumption || discriminate). constructor.
    + rewrite firstn_length. lia.
    + apply IH. rewrite skipn_length. cbn [length] in *. lia.
Qed.

(* the frames of one write are the link frames of the segments, all well formed *)
Theorem write_fragment_frames cfg dest seq fragment :
  let segs := segs_of seq true (chunks 249 fragment) in
  write_fragment cfg dest seq fragment =
    (map (fun s => format_frame (data_header cfg dest) (tp_to_u8 (fst s) :: snd s)) segs,
     Nat.iter (length segs) seq_next seq) /\
  map (seg_frame cfg dest) segs =
    map (fun s => Some (format_frame (data_header cfg dest) (tp_to_u8 (fst s) :: snd s))) segs /\
  concat (map snd segs) = fragment.
Proof.
  cbv zeta. unfold write_fragment. change (N.to_nat c_max_app_bytes_per_frame) with 249%nat.
  rewrite write_chunks_segs.
  pose proof (chunks_length_le 249 fragment ltac:(lia)) as Hc.
  assert (Hs : Forall (fun s : tp_header * list N => (length (snd s) <= 249)%nat)
                      (segs_of seq true (chunks 249 fragment))).
  { rewrite <- (segs_of_payloads (chunks 249 fragment) seq true) in Hc.
    rewrite Forall_map in Hc. exact Hc. }
  split; [|split].
  - f_equal.
    + apply map_ext_in. intros s Hin. rewrite Forall_forall in Hs.
      rewrite seg_frame_some by (apply Hs; exact Hin). reflexivity.
    + rewrite segs_of_length. reflexivity.
  - apply map_ext_in. intros s Hin. rewrite Forall_forall in Hs. apply seg_frame_some, Hs, Hin.
  - rewrite segs_of_payloads. apply (chunks_concat 249 ltac:(lia) _ fragment (le_n _)).
Qed.

(* ---------- reassembly of what was segmented, from ANY assembler state ------------------------- *)

Definition feed_segs (a : assembler) (info : frame_info) (segs : list (tp_header * list N)) : assembler :=
  fold_left (fun a s => assemble a info (fst s) (snd s)) segs a.

Lemma info_eqb_refl i : info_eqb i i = true.
Proof.
  unfold info_eqb. rewrite N.eqb_refl.
  destruct (fi_broadcast i) as [[| |]|], (fi_type i); reflexivity.
Qed.

Definition completed (a : assembler) (info : frame_info) (buf : list N) : assembler :=
  {| a_state := AComplete {| fg_id := a_frame_id a; fg_source := fi_source info;
                             fg_broadcast := fi_broadcast info |} buf;
     a_frame_id := (a_frame_id a + 1) mod 4294967296;
     a_cap := a_cap a |}.

Lemma append_fits a info h acc d : (length (acc ++ d) <= a_cap a)%nat ->
  append a info h acc d = if t_fin h then completed a info (acc ++ d) else with_state a (ARunning info h (acc ++ d)).
Proof.
  intro H. unfold append.
  replace (a_cap a <? length (acc ++ d))%nat with false by (symmetry; apply Nat.ltb_ge; exact H).
  reflexivity.
Qed.

Lemma with_state_idem a s s' : with_state (with_state a s) s' = with_state a s'.
Proof. reflexivity. Qed.

Lemma reassemble_tail info : fi_broadcast info = None ->
  forall cs a ph acc seq,
  cs <> [] ->
  a_state a = ARunning info ph acc -> seq = seq_next (t_seq ph) ->
  (length (acc ++ concat cs) <= a_cap a)%nat ->
  feed_segs a info (segs_of seq false cs) = completed a info (acc ++ concat cs).
Proof.
  intros Hb. induction cs as [|c rest IH]; intros a ph acc seq Hne Hst Hseq Hlen; [congruence|].
  cbn [segs_of feed_segs fold_left fst snd]. fold (feed_segs (assemble a info (seg_hdr_of seq false rest) c) info
                                                  (segs_of (seq_next seq) false rest)).
  assert (Hstep : assemble a info (seg_hdr_of seq false rest) c
                  = append a info (seg_hdr_of seq false rest) acc c).
  { unfold assemble. cbn [seg_hdr_of t_fir t_seq]. rewrite Hb, Hst, <- Hseq, N.eqb_refl, info_eqb_refl.
    reflexivity. }
  rewrite Hstep. cbn [concat] in Hlen. rewrite app_assoc in Hlen.
  rewrite append_fits by (rewrite app_length in Hlen; lia).
  destruct rest as [|c2 rest].
  - cbn [seg_hdr_of t_fin segs_of feed_segs fold_left concat]. rewrite app_nil_r. reflexivity.
  - cbn [seg_hdr_of t_fin].
    rewrite (IH (with_state a (ARunning info (seg_hdr_of seq false (c2 :: rest)) (acc ++ c)))
                (seg_hdr_of seq false (c2 :: rest)) (acc ++ c) (seq_next seq)).
    + cbn [concat]. rewrite <- app_assoc. reflexivity.
    + discriminate.
    + reflexivity.
    + reflexivity.
    + cbn [with_state a_cap]. exact Hlen.
Qed.

Lemma reassemble_chunks info : fi_broadcast info = None ->
  forall cs a seq, cs <> [] -> (length (concat cs) <= a_cap a)%nat ->
  feed_segs a info (segs_of seq true cs) = completed a info (concat cs).
Proof.
  intros Hb cs a seq Hne Hlen. destruct cs as [|c rest]; [congruence|].
  cbn [segs_of feed_segs fold_left fst snd].
  fold (feed_segs (assemble a info (seg_hdr_of seq true rest) c) info (segs_of (seq_next seq) false rest)).
  assert (Hstep : assemble a info (seg_hdr_of seq true rest) c
                  = append (with_state a AEmpty) info (seg_hdr_of seq true rest) [] c).
  { unfold assemble. cbn [seg_hdr_of t_fir]. rewrite Hb. reflexivity. }
  rewrite Hstep. cbn [concat] in Hlen.
  rewrite append_fits by (cbn [app with_state a_cap]; rewrite app_length in Hlen; lia).
  cbn [app]. destruct rest as [|c2 rest].
  - cbn [seg_hdr_of t_fin segs_of feed_segs fold_left concat]. rewrite app_nil_r. reflexivity.
  - cbn [seg_hdr_of t_fin]. rewrite with_state_idem.
    rewrite (reassemble_tail info Hb (c2 :: rest) _ (seg_hdr_of seq true (c2 :: rest)) c (seq_next seq)).
    + reflexivity.
    + discriminate.
    + reflexivity.
    + reflexivity.
    + cbn [with_state a_cap]. exact Hlen.
Qed.

Lemma chunks_nonempty k l : (0 < k)%nat -> l <> [] -> chunks k l <> [].
Proof. intros Hk Hl. rewrite chunks_cons by assumption. discriminate. Qed.

Theorem segment_reassemble : forall a info seq0 fragment,
  fi_broadcast info = None -> fragment <> [] -> (length fragment <= a_cap a)%nat ->
  feed_segs a info (segs_of seq0 true (chunks 249 fragment)) =
  {| a_state := AComplete {| fg_id := a_frame_id a; fg_source := fi_source info; fg_broadcast := None |} fragment;
     a_frame_id := (a_frame_id a + 1) mod 4294967296;
     a_cap := a_cap a |}.
Proof.
  intros a info seq0 fragment Hb Hne Hlen.
  pose proof (chunks_concat 249 ltac:(lia) _ fragment (le_n _)) as Hcat.
  rewrite reassemble_chunks.
  - unfold completed. rewrite Hcat, Hb. reflexivity.
  - exact Hb.
  - apply chunks_nonempty; [lia|exact Hne].
  - rewrite Hcat. exact Hlen.
Qed.

(* ---------- the assembler step by step ------------------------------------------------------- *)

(* ---------- one step of the assembler, classified ------------------------------------------- *)

Definition seg := (frame_info * tp_header * list N)%type.
Definition seg_info (s : seg) : frame_info := fst (fst s).
Definition seg_hdr (s : seg) : tp_header := snd (fst s).
Definition seg_data (s : seg) : list N := snd s.

(* a segment the assembler does not look at: a broadcast frame without FIR *)
Definition is_ignored (s : seg) : bool :=
  match fi_broadcast (seg_info s) with Some _ => negb (t_fir (seg_hdr s)) | None => false end.

Inductive astep (a : assembler) (i : frame_info) (h : tp_header) (d : list N) (a' : assembler) : Prop :=
| st_reset : a_state a' = AEmpty -> a_frame_id a' = a_frame_id a -> a_cap a' = a_cap a -> astep a i h d a'
| st_ignore : a' = a -> is_ignored (i, h, d) = true -> astep a i h d a'
| st_start : t_fir h = true -> t_fin h = false -> fi_broadcast i = None ->
    a' = with_state a (ARunning i h d) -> (length d <= a_cap a)%nat -> astep a i h d a'
| st_cont pi ph acc : a_state a = ARunning pi ph acc -> t_fir h = false -> t_fin h = false ->
    fi_broadcast i = None -> t_seq h = seq_next (t_seq ph) -> info_eqb i pi = true ->
    a' = with_state a (ARunning i h (acc ++ d)) -> (length (acc ++ d) <= a_cap a)%nat -> astep a i h d a'
| st_single : t_fir h = true -> t_fin h = true ->
    a' = completed a i d -> (length d <= a_cap a)%nat -> astep a i h d a'
| st_final pi ph acc : a_state a = ARunning pi ph acc -> t_fir h = false -> t_fin h = true ->
    fi_broadcast i = None -> t_seq h = seq_next (t_seq ph) -> info_eqb i pi = true ->
    a' = completed a i (acc ++ d) -> (length (acc ++ d) <= a_cap a)%nat -> astep a i h d a'.

Lemma append_cases a i h acc d :
  (append a i h acc d = with_state a AEmpty) \/
  ((length (acc ++ d) <= a_cap a)%nat /\
   append a i h acc d = if t_fin h then completed a i (acc ++ d) else with_state a (ARunning i h (acc ++ d))).
Proof.
  destruct (a_cap a <? length (acc ++ d))%nat eqn:E.
  - left. unfold append. rewrite E. reflexivity.
  - right. apply Nat.ltb_ge in E. split; [exact E|]. apply append_fits. exact E.
Qed.

Lemma assemble_spec a i h d : is_complete a = false -> astep a i h d (assemble a i h d).
Proof.
  intro Hnc. unfold assemble.
  destruct (t_fir h) eqn:Efir.
  - (* FIR: the state is cleared first *)
    destruct (fi_broadcast i) eqn:Eb.
    + cbn [andb]. destruct (t_fin h) eqn:Efin.
      * destruct (append_cases (with_state a AEmpty) i h [] d) as [E|[Hlen E]]; rewrite E.
        -- apply st_reset; reflexivity.
        -- rewrite Efin. cbn [app with_state a_cap] in *. apply st_single; auto.
      * apply st_reset; reflexivity.
    + cbn [with_state a_state negb].
      destruct (append_cases (with_state a AEmpty) i h [] d) as [E|[Hlen E]]; rewrite E.
      * apply st_reset; reflexivity.
      * cbn [app with_state a_cap] in *. destruct (t_fin h) eqn:Efin.
        -- apply st_single; auto.
        -- apply st_start; auto.
  - destruct (fi_broadcast i) eqn:Eb.
    + cbn [andb]. apply st_ignore; [reflexivity|]. unfold is_ignored, seg_info, seg_hdr. cbn [fst snd].
      rewrite Eb, Efir. reflexivity.
    + destruct (a_state a) as [|pi ph acc|fi0 buf0] eqn:Est.
      * cbn [negb]. apply st_reset; auto.
      * destruct (t_seq h =? seq_next (t_seq ph)) eqn:Eseq; cbn [negb]; [|apply st_reset; reflexivity].
        apply N.eqb_eq in Eseq.
        destruct (info_eqb i pi) eqn:Einfo; cbn [negb]; [|apply st_reset; reflexivity].
        destruct (append_cases a i h acc d) as [E|[Hlen E]]; rewrite E.
        -- apply st_reset; reflexivity.
        -- destruct (t_fin h) eqn:Efin.
           ++ eapply st_final; eauto.
           ++ eapply st_cont; eauto.
      * unfold is_complete in Hnc. rewrite Est in Hnc. discriminate.
Qed.

(* ---------- 3. what a delivered fragment is made of ------------------------------------------ *)

(* the data segments the transport reader takes from the link layer's output, in order (the reader
   stops at the first link error) *)
Fixpoint data_segments (obs : list lobs) : list seg :=
  match obs with
  | [] => []
  | LTx _ :: rest => data_segments rest
  | LInfo i payload :: rest =>
      match fi_type i, payload with
      | FData, t :: d => (i, tp_from_u8 t, d) :: data_segments rest
      | _, _ => data_segments rest
      end
  | _ => []
  end.

(* l continues and completes a run whose latest segment is (pi, ph): no FIR, consecutive sequence
   numbers, the same frame info, FIN exactly on the last one *)
Fixpoint cont (pi : frame_info) (ph : tp_header) (l : list seg) : Prop :=
  match l with
  | [] => False
  | s :: l' =>
      t_fir (seg_hdr s) = false /\ t_seq (seg_hdr s) = seq_next (t_seq ph) /\
      info_eqb (seg_info s) pi = true /\
      if t_fin (seg_hdr s) then l' = [] else cont (seg_info s) (seg_hdr s) l'
  end.

Definition complete_run (run : list seg) : Prop :=
  match run with
  | [] => False
  | s :: l' =>
      t_fir (seg_hdr s) = true /\
      if t_fin (seg_hdr s) then l' = [] else cont (seg_info s) (seg_hdr s) l'
  end.

(* r is embedded in m, the elements of m that are skipped are ignored segments lying strictly
   inside (before the last element of r) *)
Inductive cembed : list seg -> list seg -> Prop :=
| ce_nil : cembed [] []
| ce_take s r m : cembed r m -> cembed (s :: r) (s :: m)
| ce_skip y r m : is_ignored y = true -> r <> [] -> cembed r m -> cembed r (y :: m).

Definition embed (run mid : list seg) : Prop :=
  exists s r m, run = s :: r /\ mid = s :: m /\ cembed r m.

Inductive sublist {A} : list A -> list A -> Prop :=
| sl_nil : sublist [] []
| sl_take x r m : sublist r m -> sublist (x :: r) (x :: m)
| sl_skip y r m : sublist r m -> sublist r (y :: m).

Definition frag_of_run (cap : nat) (run : list seg) (fi : fragment_info) (buf : list N) : Prop :=
  complete_run run /\
  buf = concat (map seg_data run) /\ (length buf <= cap)%nat /\
  exists i, Forall (fun s => seg_info s = i) run /\
            fg_source fi = fi_source i /\ fg_broadcast fi = fi_broadcast i /\
            (fi_broadcast i <> None -> length run = 1%nat).

Definition fresh (cap : nat) (segs : list seg) (fi : fragment_info) (buf : list N) : Prop :=
  exists pre mid post run, segs = pre ++ mid ++ post /\ embed run mid /\ frag_of_run cap run fi buf.

Definition continues (cap : nat) (pi : frame_info) (ph : tp_header) (acc : list N)
  (segs : list seg) (fi : fragment_info) (buf : list N) : Prop :=
  exists r mid post, segs = mid ++ post /\ cembed r mid /\ cont pi ph r /\
    buf = acc ++ concat (map seg_data r) /\ (length buf <= cap)%nat /\
    fg_source fi = fi_source pi /\ fg_broadcast fi = fi_broadcast pi.

Lemma info_eqb_eq a b : info_eqb a b = true -> a = b.
Proof.
  destruct a as [s1 b1 t1], b as [s2 b2 t2]. unfold info_eqb. cbn [fi_source fi_broadcast fi_type].
  intro H. apply andb_prop in H. destruct H as [H Ht]. apply andb_prop in H. destruct H as [Hs Hb].
  apply N.eqb_eq in Hs. subst.
  assert (b1 = b2) by (destruct b1 as [[| |]|], b2 as [[| |]|]; cbn in Hb; congruence).
  assert (t1 = t2) by (destruct t1, t2; cbn in Ht; congruence).
  subst. reflexivity.
Qed.

Lemma cont_infos : forall r pi ph, cont pi ph r -> Forall (fun s => seg_info s = pi) r.
Proof.
  induction r as [|s r IH]; intros pi ph H; [constructor|].
  cbn [cont] in H. destruct H as (_ & _ & Hi & Hrest). apply info_eqb_eq in Hi.
  constructor; [exact Hi|]. destruct (t_fin (seg_hdr s)).
  - subst r. constructor.
  - rewrite <- Hi. eapply IH. exact Hrest.
Qed.

Lemma cont_nonempty pi ph r : cont pi ph r -> r <> [].
Proof. destruct r; [intros []|discriminate]. Qed.

Lemma fresh_cons cap s segs fi buf : fresh cap segs fi buf -> fresh cap (s :: segs) fi buf.
Proof.
  intros (pre & mid & post & run & E & He & Hf). exists (s :: pre), mid, post, run.
  split; [rewrite E; reflexivity|]. split; assumption.
Qed.

Lemma is_complete_with_state a s : is_complete (with_state a s) = match s with AComplete _ _ => true | _ => false end.
Proof. reflexivity. Qed.

Lemma treader_gen cap : forall obs a, a_cap a = cap -> is_complete a = false ->
  forall fi buf, In (TFrag fi buf) (treader_obs a obs) ->
  (exists pi ph acc, a_state a = ARunning pi ph acc /\ fi_broadcast pi = None /\
                     continues cap pi ph acc (data_segments obs) fi buf)
  \/ fresh cap (data_segments obs) fi buf.
Proof.
  induction obs as [|o obs IH]; intros a Hcap Hnc fi buf Hin; [destruct Hin|].
  destruct o as [b|i payload|e| |].
  - cbn [treader_obs data_segments] in *. destruct Hin as [Hin|Hin]; [discriminate|]. eauto.
  - cbn [treader_obs data_segments] in *.
    destruct (fi_type i) eqn:Et.
    2,3: destruct Hin as [Hin|Hin]; [discriminate|];
         destruct payload; eauto.
    destruct payload as [|t d]; [eauto|].
    set (h := tp_from_u8 t) in *. set (s := (i, h, d) : seg).
    pose proof (assemble_spec a i h d Hnc) as Hstep.
    remember (assemble a i h d) as a' eqn:Ea'. clear Ea'.
    destruct Hstep as [Hst Hid Hc|Heq Hign|Hfir Hfin Hb Heq Hlen
                      |pi ph acc Hst Hfir Hfin Hb Hseq Hinfo Heq Hlen
                      |Hfir Hfin Heq Hlen|pi ph acc Hst Hfir Hfin Hb Hseq Hinfo Heq Hlen].
    + (* reset *)
      rewrite Hst in Hin.
      destruct (IH a' ltac:(congruence) ltac:(unfold is_complete; rewrite Hst; reflexivity) fi buf Hin)
        as [(pi & ph & acc & Hst' & _)|Hf]; [congruence|].
      right. apply fresh_cons. exact Hf.
    + (* ignored *)
      subst a'.
      assert (Hin' : In (TFrag fi buf) (treader_obs a obs)).
      { unfold is_complete in Hnc. destruct (a_state a); try discriminate; exact Hin. }
      destruct (IH a Hcap Hnc fi buf Hin') as [(pi & ph & acc & Hst' & Hbp & Hc)|Hf].
      * left. exists pi, ph, acc. split; [exact Hst'|]. split; [exact Hbp|].
        destruct Hc as (r & mid & post & E & Hce & Hcont & Hrest).
        exists r, (s :: mid), post. split; [rewrite E; reflexivity|]. split; [|split; assumption].
        apply ce_skip; [exact Hign|eapply cont_nonempty; eassumption|exact Hce].
      * right. apply fresh_cons. exact Hf.
    + (* start of a run *)
      subst a'. cbn [with_state a_state] in Hin.
      destruct (IH (with_state a (ARunning i h d)) Hcap eq_refl fi buf Hin)
        as [(pi & ph & acc & Hst' & Hbp & Hc)|Hf].
      * cbn [with_state a_state] in Hst'. injection Hst' as <- <- <-.
        destruct Hc as (r & mid & post & E & Hce & Hcont & Hbuf & Hl & Hsrc & Hbc).
        right. exists [], (s :: mid), post, (s :: r).
        split; [rewrite E; reflexivity|]. split; [exists s, r, mid; auto|].
        split; [|split; [exact Hbuf|split; [exact Hl|]]].
        -- cbn [complete_run]. unfold s at 1 2 3. unfold seg_hdr, seg_info. cbn [fst snd].
           rewrite Hfin. split; [exact Hfir|exact Hcont].
        -- exists i. split; [constructor; [reflexivity|eapply cont_infos; eassumption]|].
           split; [exact Hsrc|]. split; [exact Hbc|]. intro Hx. congruence.
      * right. apply fresh_cons. exact Hf.
    + (* continuation *)
      subst a'. cbn [with_state a_state] in Hin.
      apply info_eqb_eq in Hinfo. subst pi.
      destruct (IH (with_state a (ARunning i h (acc ++ d))) Hcap eq_refl fi buf Hin)
        as [(pi' & ph' & acc' & Hst' & Hbp & Hc)|Hf].
      * cbn [with_state a_state] in Hst'. injection Hst' as <- <- <-.
        destruct Hc as (r & mid & post & E & Hce & Hcont & Hbuf & Hl & Hsrc & Hbc).
        left. exists i, ph, acc. split; [exact Hst|]. split; [exact Hb|].
        exists (s :: r), (s :: mid), post. split; [rewrite E; reflexivity|].
        split; [apply ce_take; exact Hce|]. split; [|split; [|auto]].
        -- cbn [cont]. unfold s at 1 2 3 4. unfold seg_hdr, seg_info. cbn [fst snd].
           rewrite Hfin. split; [exact Hfir|]. split; [exact Hseq|]. split; [apply info_eqb_refl|exact Hcont].
        -- rewrite Hbuf. cbn [map concat]. unfold s at 1. unfold seg_data. cbn [snd].
           rewrite app_assoc. reflexivity.
      * right. apply fresh_cons. exact Hf.
    + (* a single-segment fragment *)
      subst a'. cbn [completed a_state] in Hin. destruct Hin as [Hin|Hin].
      * injection Hin as <- <-. right. exists [], [s], (data_segments obs), [s].
        split; [reflexivity|]. split; [exists s, [], []; repeat split; constructor|].
        split; [|split; [|split]].
        -- cbn [complete_run]. unfold s. unfold seg_hdr. cbn [fst snd]. rewrite Hfin. auto.
        -- cbn [map concat]. rewrite app_nil_r. reflexivity.
        -- congruence.
        -- exists i. split; [repeat constructor|]. cbn [fg_source fg_broadcast]. auto.
      * destruct (IH (with_state (completed a i d) AEmpty) Hcap eq_refl fi buf Hin)
          as [(pi & ph & acc & Hst' & _)|Hf]; [discriminate|].
        right. apply fresh_cons. exact Hf.
    + (* the last segment of a run *)
      subst a'. cbn [completed a_state] in Hin.
      apply info_eqb_eq in Hinfo. subst pi. destruct Hin as [Hin|Hin].
      * injection Hin as <- <-. left. exists i, ph, acc. split; [exact Hst|]. split; [exact Hb|].
        exists [s], [s], (data_segments obs). split; [reflexivity|].
        split; [apply ce_take, ce_nil|]. split; [|split; [|split; [congruence|]]].
        -- cbn [cont]. unfold s. unfold seg_hdr, seg_info. cbn [fst snd]. rewrite Hfin.
           split; [exact Hfir|]. split; [exact Hseq|]. split; [apply info_eqb_refl|reflexivity].
        -- cbn [map concat]. rewrite app_nil_r. reflexivity.
        -- cbn [fg_source fg_broadcast]. auto.
      * destruct (IH (with_state (completed a i (acc ++ d)) AEmpty) Hcap eq_refl fi buf Hin)
          as [(pi & ph' & acc' & Hst' & _)|Hf]; [discriminate|].
        right. apply fresh_cons. exact Hf.
  - destruct Hin as [Hin|[]]; discriminate.
  - destruct Hin as [Hin|[]]; discriminate.
  - destruct Hin as [Hin|[]]; discriminate.
Qed.

Lemma cembed_sublist r m : cembed r m -> sublist r m.
Proof. induction 1; constructor; assumption. Qed.

Lemma sublist_app_l {A} (pre : list A) r m : sublist r m -> sublist r (pre ++ m).
Proof. intro H. induction pre as [|x pre IH]; [exact H|]. cbn [app]. apply sl_skip. exact IH. Qed.

Lemma sublist_app_r {A} (post : list A) r m : sublist r m -> sublist r (m ++ post).
Proof.
  induction 1 as [|x r m H IH|y r m H IH]; cbn [app].
  - induction post as [|x post IH]; constructor. exact IH.
  - apply sl_take. exact IH.
  - apply sl_skip. exact IH.
Qed.

Lemma embed_sublist run pre mid post : embed run mid -> sublist run (pre ++ mid ++ post).
Proof.
  intros (s & r & m & -> & -> & H). apply sublist_app_l, sublist_app_r, sl_take, cembed_sublist, H.
Qed.

(* Every fragment the transport reader delivers is the concatenation of a well-formed complete run
   of segments that occurs in the input in this order.  The run lies inside a contiguous window
   `mid` of the data segments that starts with the run's FIR segment and ends with its FIN segment;
   the only elements of the window that are not part of the run are segments the assembler ignores
   without changing its state: broadcast frames whose transport header has no FIR (is_ignored). *)
Theorem delivered_is_run_window : forall cap obs fi buf,
  In (TFrag fi buf) (treader_obs (assembler_init cap) obs) ->
  exists pre mid post run,
    data_segments obs = pre ++ mid ++ post /\ embed run mid /\
    complete_run run /\
    buf = concat (map seg_data run) /\ (length buf <= cap)%nat /\
    exists i, Forall (fun s => seg_info s = i) run /\
              fg_source fi = fi_source i /\ fg_broadcast fi = fi_broadcast i /\
              (fi_broadcast i <> None -> length run = 1%nat).
Proof.
  intros cap obs fi buf Hin.
  destruct (treader_gen cap obs (assembler_init cap) eq_refl eq_refl fi buf Hin)
    as [(pi & ph & acc & Hst & _)|Hf]; [discriminate|exact Hf].
Qed.

Theorem delivered_is_run : forall cap obs fi buf,
  In (TFrag fi buf) (treader_obs (assembler_init cap) obs) ->
  exists run,
    sublist run (data_segments obs) /\
    complete_run run /\
    buf = concat (map seg_data run) /\ (length buf <= cap)%nat /\
    exists i, Forall (fun s => seg_info s = i) run /\
              fg_source fi = fi_source i /\ fg_broadcast fi = fi_broadcast i /\
              (fi_broadcast i <> None -> length run = 1%nat).
Proof.
  intros cap obs fi buf Hin.
  destruct (delivered_is_run_window cap obs fi buf Hin) as (pre & mid & post & run & E & He & Hrest).
  exists run. split; [rewrite E; apply embed_sublist; exact He|exact Hrest].
Qed.

(* readable consequences of complete_run: FIR on the first segment only, FIN on the last only *)
Lemma cont_shape : forall r pi ph, cont pi ph r ->
  Forall (fun s => t_fir (seg_hdr s) = false) r /\
  exists body lst, r = body ++ [lst] /\ t_fin (seg_hdr lst) = true /\
                   Forall (fun s => t_fin (seg_hdr s) = false) body.
Proof.
  induction r as [|s r IH]; intros pi ph H; [destruct H|].
  cbn [cont] in H. destruct H as (Hfir & _ & _ & Hrest).
  destruct (t_fin (seg_hdr s)) eqn:Efin.
  - subst r. split; [repeat constructor; exact Hfir|]. exists [], s. repeat split; auto.
  - destruct (IH _ _ Hrest) as (H1 & body & lst & E & H2 & H3).
    split; [constructor; assumption|]. exists (s :: body), lst.
    split; [rewrite E; reflexivity|]. split; [exact H2|constructor; assumption].
Qed.

Lemma complete_run_shape run : complete_run run ->
  exists first rest body lst,
    run = first :: rest /\ run = body ++ [lst] /\
    t_fir (seg_hdr first) = true /\ Forall (fun s => t_fir (seg_hdr s) = false) rest /\
    t_fin (seg_hdr lst) = true /\ Forall (fun s => t_fin (seg_hdr s) = false) body.
Proof.
  destruct run as [|s r]; [intros []|]. cbn [complete_run]. intros (Hfir & Hrest).
  destruct (t_fin (seg_hdr s)) eqn:Efin.
  - subst r. exists s, [], [], s. repeat split; auto.
  - destruct (cont_shape _ _ _ Hrest) as (H1 & body & lst & E & H2 & H3).
    exists s, r, (s :: body), lst. split; [reflexivity|]. split; [rewrite E; reflexivity|].
    repeat split; auto.
Qed.

(* ---------- 4. fragment ids --------------------------------------------------------------------- *)

Fixpoint frag_ids (l : list tobs) : list N :=
  match l with
  | [] => []
  | TFrag fi _ :: rest => fg_id fi :: frag_ids rest
  | _ :: rest => frag_ids rest
  end.

Lemma ids_shift id n : id < 4294967296 ->
  id :: map (fun k => ((id + 1) mod 4294967296 + N.of_nat k) mod 4294967296) (seq 0 n)
  = map (fun k => (id + N.of_nat k) mod 4294967296) (seq 0 (S n)).
Proof.
  intro H. cbn [seq map]. f_equal.
  - change (N.of_nat 0) with 0. rewrite N.add_0_r, N.mod_small by assumption. reflexivity.
  - rewrite <- seq_shift, map_map. apply map_ext. intro k.
    rewrite N.add_mod_idemp_l by discriminate. f_equal. lia.
Qed.

Lemma frame_ids_gen : forall obs a, is_complete a = false -> a_frame_id a < 4294967296 ->
  frag_ids (treader_obs a obs) =
  map (fun k => (a_frame_id a + N.of_nat k) mod 4294967296)
      (seq 0 (length (frag_ids (treader_obs a obs)))).
Proof.
  induction obs as [|o obs IH]; intros a Hnc Hid; [reflexivity|].
  destruct o as [b|i payload|e| |]; try reflexivity.
  - cbn [treader_obs frag_ids]. apply IH; assumption.
  - cbn [treader_obs].
    destruct (fi_type i) eqn:Et.
    2,3: cbn [frag_ids]; apply IH; assumption.
    destruct payload as [|t d]; [apply IH; assumption|].
    set (h := tp_from_u8 t).
    pose proof (assemble_spec a i h d Hnc) as Hstep.
    remember (assemble a i h d) as a' eqn:Ea'. clear Ea'.
    assert (Hcomp : forall buf, a' = completed a i buf ->
      frag_ids (match a_state a' with
                | AComplete fi0 buf0 => TFrag fi0 buf0 :: treader_obs (with_state a' AEmpty) obs
                | _ => treader_obs a' obs end) =
      map (fun k => (a_frame_id a + N.of_nat k) mod 4294967296)
          (seq 0 (length (frag_ids (match a_state a' with
                | AComplete fi0 buf0 => TFrag fi0 buf0 :: treader_obs (with_state a' AEmpty) obs
                | _ => treader_obs a' obs end))))).
    { intros buf ->. cbn [completed a_state frag_ids fg_id length].
      rewrite <- ids_shift by assumption. f_equal.
      apply (IH (with_state (completed a i buf) AEmpty)); [reflexivity|].
      cbn [with_state completed a_frame_id]. apply N.mod_lt. discriminate. }
    assert (Hsame : is_complete a' = false -> a_frame_id a' = a_frame_id a ->
      frag_ids (match a_state a' with
                | AComplete fi0 buf0 => TFrag fi0 buf0 :: treader_obs (with_state a' AEmpty) obs
                | _ => treader_obs a' obs end) =
      map (fun k => (a_frame_id a + N.of_nat k) mod 4294967296)
          (seq 0 (length (frag_ids (match a_state a' with
                | AComplete fi0 buf0 => TFrag fi0 buf0 :: treader_obs (with_state a' AEmpty) obs
                | _ => treader_obs a' obs end))))).
    { intros Hnc' Hid'. rewrite <- Hid'. rewrite <- Hid' in Hid. pose proof Hnc' as Hnc2.
      unfold is_complete in Hnc2.
      destruct (a_state a') eqn:Est; try discriminate; apply IH; assumption. }
    destruct Hstep as [Hst Hid' Hc|Heq Hign|Hfir Hfin Hb Heq Hlen
                      |pi ph acc Hst Hfir Hfin Hb Hseq Hinfo Heq Hlen
                      |Hfir Hfin Heq Hlen|pi ph acc Hst Hfir Hfin Hb Hseq Hinfo Heq Hlen].
    + apply Hsame; [unfold is_complete; rewrite Hst; reflexivity|exact Hid'].
    + subst a'. apply Hsame; auto.
    + apply Hsame; subst a'; reflexivity.
    + apply Hsame; subst a'; reflexivity.
    + eapply Hcomp; eassumption.
    + eapply Hcomp; eassumption.
Qed.

(* the ids of the fragments delivered since start-up are 0, 1, 2, ... (mod 2^32) in this order *)
Theorem frame_ids_consecutive : forall cap obs,
  frag_ids (treader_obs (assembler_init cap) obs) =
  map (fun k => N.of_nat k mod 4294967296)
      (seq 0 (length (frag_ids (treader_obs (assembler_init cap) obs)))).
Proof.
  intros cap obs. rewrite (frame_ids_gen obs (assembler_init cap) eq_refl) at 1 by reflexivity.
  reflexivity.
Qed.

(* ---------- the transport reader on the segments of one fragment ----------------------------- *)

Lemma assemble_first a info h c : fi_broadcast info = None -> t_fir h = true -> (length c <= a_cap a)%nat ->
  assemble a info h c = if t_fin h then completed a info c else with_state a (ARunning info h c).
Proof.
  intros Hb Hfir Hlen. unfold assemble. rewrite Hb, Hfir. cbn [with_state a_state negb].
  rewrite append_fits by exact Hlen. destruct (t_fin h); reflexivity.
Qed.

Lemma assemble_cont a info ph acc h c : fi_broadcast info = None -> a_state a = ARunning info ph acc ->
  t_fir h = false -> t_seq h = seq_next (t_seq ph) -> (length (acc ++ c) <= a_cap a)%nat ->
  assemble a info h c = if t_fin h then completed a info (acc ++ c) else with_state a (ARunning info h (acc ++ c)).
Proof.
  intros Hb Hst Hfir Hseq Hlen. unfold assemble. rewrite Hb, Hfir, Hst, Hseq, N.eqb_refl, info_eqb_refl.
  cbn [negb]. apply append_fits. exact Hlen.
Qed.

Definition seg_obs (info : frame_info) (s : tp_header * list N) : lobs :=
  LInfo info (tp_to_u8 (fst s) :: snd s).

Definition popped (a : assembler) : assembler :=
  {| a_state := AEmpty; a_frame_id := (a_frame_id a + 1) mod 4294967296; a_cap := a_cap a |}.

Lemma treader_tail info : fi_broadcast info = None -> fi_type info = FData ->
  forall cs a ph acc seq rest,
  cs <> [] -> a_state a = ARunning info ph acc -> seq = seq_next (t_seq ph) -> seq < 64 ->
  (length (acc ++ concat cs) <= a_cap a)%nat ->
  treader_obs a (map (seg_obs info) (segs_of seq false cs) ++ rest) =
  TFrag {| fg_id := a_frame_id a; fg_source := fi_source info; fg_broadcast := None |} (acc ++ concat cs)
  :: treader_obs (popped a) rest.
Proof.
  intros Hb Ht. induction cs as [|c cs IH]; intros a ph acc seq rest Hne Hst Hseq Hlt Hlen; [congruence|].
  cbn [segs_of map app]. unfold seg_obs at 1. cbn [fst snd treader_obs]. rewrite Ht.
  rewrite tp_from_to by exact Hlt. cbn [concat] in Hlen. rewrite app_assoc in Hlen.
  rewrite (assemble_cont a info ph acc) by
    (try assumption; try reflexivity; rewrite app_length in Hlen; lia).
  destruct cs as [|c2 cs].
  - cbn [seg_hdr_of t_fin completed a_state segs_of map app concat]. rewrite app_nil_r, Hb. reflexivity.
  - cbn [seg_hdr_of t_fin with_state a_state].
    rewrite (IH (with_state a (ARunning info (seg_hdr_of seq false (c2 :: cs)) (acc ++ c)))
                (seg_hdr_of seq false (c2 :: cs)) (acc ++ c) (seq_next seq) rest).
    + cbn [concat]. rewrite <- app_assoc. reflexivity.
    + discriminate.
    + reflexivity.
    + reflexivity.
    + apply seq_next_bound. exact Hlt.
    + exact Hlen.
Qed.

(* every fragment that was segmented is delivered, whatever the receiver was doing before; the
   reader goes on with an empty assembler and the next frame id *)
Theorem segments_delivered : forall a info seq0 fragment rest,
  fi_broadcast info = None -> fi_type info = FData -> seq0 < 64 ->
  fragment <> [] -> (length fragment <= a_cap a)%nat ->
  treader_obs a (map (seg_obs info) (segs_of seq0 true (chunks 249 fragment)) ++ rest) =
  TFrag {| fg_id := a_frame_id a; fg_source := fi_source info; fg_broadcast := None |} fragment
  :: treader_obs (popped a) rest.
Proof.
  intros a info seq0 fragment rest Hb Ht Hlt Hne Hlen.
  pose proof (chunks_concat 249 ltac:(lia) _ fragment (le_n _)) as Hcat.
  pose proof (chunks_nonempty 249 fragment ltac:(lia) Hne) as Hcne.
  destruct (chunks 249 fragment) as [|c cs]; [congruence|]. clear Hcne.
  cbn [segs_of map app]. unfold seg_obs at 1. cbn [fst snd treader_obs]. rewrite Ht.
  rewrite tp_from_to by exact Hlt. cbn [concat] in Hcat.
  assert (Hlen' : (length (c ++ concat cs) <= a_cap a)%nat) by (rewrite Hcat; exact Hlen).
  rewrite assemble_first by (try assumption; try reflexivity; rewrite app_length in Hlen'; lia).
  destruct cs as [|c2 cs].
  - cbn [seg_hdr_of t_fin completed a_state segs_of map app concat] in *. rewrite app_nil_r in Hcat.
    rewrite Hb, Hcat. reflexivity.
  - cbn [seg_hdr_of t_fin with_state a_state].
    rewrite (treader_tail info Hb Ht (c2 :: cs) (with_state a (ARunning info (seg_hdr_of seq0 true (c2 :: cs)) c))
                (seg_hdr_of seq0 true (c2 :: cs)) c (seq_next seq0) rest).
    + rewrite Hcat. reflexivity.
    + discriminate.
    + reflexivity.
    + reflexivity.
    + apply seq_next_bound. exact Hlt.
    + exact Hlen'.
Qed.

(* ---------- damage costs only the affected fragment ------------------------------------------ *)

(* the assembler after the reader has worked through obs (popping every completed fragment) *)
Fixpoint treader_after (a : assembler) (obs : list lobs) : assembler :=
  match obs with
  | [] => a
  | LInfo i payload :: rest =>
      match fi_type i, payload with
      | FData, t :: data =>
          let a' := assemble a i (tp_from_u8 t) data in
          match a_state a' with
          | AComplete _ _ => treader_after (with_state a' AEmpty) rest
          | _ => treader_after a' rest
          end
      | _, _ => treader_after a rest
      end
  | LTx _ :: rest => treader_after a rest
  | _ => a
  end.

Definition no_link_error (obs : list lobs) : Prop :=
  Forall (fun o => match o with LErr _ | LOverflow | LStall => False | _ => True end) obs.

Lemma treader_obs_app : forall junk a more, no_link_error junk ->
  treader_obs a (junk ++ more) = treader_obs a junk ++ treader_obs (treader_after a junk) more.
Proof.
  induction junk as [|o junk IH]; intros a more Hok; [reflexivity|].
  inversion Hok as [|? ? Ho Hok']; subst.
  destruct o as [b|i payload|e| |]; try contradiction.
  - cbn [app treader_obs treader_after]. rewrite IH by assumption. reflexivity.
  - cbn [app treader_obs treader_after].
    destruct (fi_type i); [|cbn [app]; rewrite IH by assumption; reflexivity..].
    destruct payload as [|t d]; [apply IH; assumption|]. cbv zeta.
    destruct (a_state (assemble a i (tp_from_u8 t) d)); try (apply IH; assumption).
    cbn [app]. rewrite IH by assumption. reflexivity.
Qed.

Lemma append_cap a i h acc d : a_cap (append a i h acc d) = a_cap a.
Proof. unfold append. destruct (a_cap a <? length (acc ++ d))%nat; [reflexivity|]. destruct (t_fin h); reflexivity. Qed.

Lemma assemble_cap a i h d : a_cap (assemble a i h d) = a_cap a.
Proof.
  unfold assemble. destruct (t_fir h); cbn [andb negb].
  - destruct (fi_broadcast i).
    + destruct (t_fin h); [rewrite append_cap|]; reflexivity.
    + cbn [with_state a_state]. rewrite append_cap. reflexivity.
  - destruct (fi_broadcast i); [reflexivity|].
    destruct (a_state a) as [|pi ph acc|fi0 b0]; try reflexivity.
    + destruct (negb (t_seq h =? seq_next (t_seq ph))); [reflexivity|].
      destruct (negb (info_eqb i pi)); [reflexivity|apply append_cap].
    + rewrite append_cap. reflexivity.
Qed.

Lemma treader_after_cap : forall obs a, a_cap (treader_after a obs) = a_cap a.
Proof.
  induction obs as [|o obs IH]; intro a; [reflexivity|].
  destruct o as [b|i payload|e| |]; try reflexivity.
  - cbn [treader_after]. apply IH.
  - cbn [treader_after].
    destruct (fi_type i); try apply IH. destruct payload as [|t d]; [apply IH|]. cbv zeta.
    destruct (a_state (assemble a i (tp_from_u8 t) d)); rewrite IH; apply assemble_cap.
Qed.

(* A damaged segment stream costs only the affected fragments: whatever data segments, link status
   frames and replies came before (junk - any headers, sources, orders, lengths), the next fragment
   that arrives as it was segmented is delivered intact. *)
Theorem next_fragment_intact : forall a junk info seq0 fragment rest,
  no_link_error junk ->
  fi_broadcast info = None -> fi_type info = FData -> seq0 < 64 ->
  fragment <> [] -> (length fragment <= a_cap a)%nat ->
  treader_obs a (junk ++ map (seg_obs info) (segs_of seq0 true (chunks 249 fragment)) ++ rest) =
  treader_obs a junk ++
  TFrag {| fg_id := a_frame_id (treader_after a junk); fg_source := fi_source info; fg_broadcast := None |}
        fragment
  :: treader_obs (popped (treader_after a junk)) rest.
Proof.
  intros a junk info seq0 fragment rest Hok Hb Ht Hseq Hne Hlen.
  rewrite treader_obs_app by exact Hok. f_equal.
  apply segments_delivered; try assumption. rewrite treader_after_cap. exact Hlen.
Qed.

(* ---------- 5. composition with the link layer ----------------------------------------------- *)

(* ---------- frames of bounded length ---------------------------------------------------------- *)

Lemma format_frame_length h p : (length p <= 250)%nat ->
  (1 <= length (format_frame h p) <= 292)%nat.
Proof.
  intro Hp. unfold format_frame, format_header, format_body. change (N.to_nat c_max_block_size) with 16%nat.
  pose proof (chunks_wf 16 ltac:(lia) _ p (le_n _)) as Hwf.
  pose proof (chunks_concat 16 ltac:(lia) _ p (le_n _)) as Hcat.
  rewrite !app_length, format_body_length_aux by exact Hwf. rewrite (blocks_count _ Hwf), Hcat.
  cbn [length header_fields].
  assert ((length p + 15) / 16 < 17)%nat by (apply Nat.div_lt_upper_bound; lia). lia.
Qed.

Definition frame_wf (f : header * list N) : Prop :=
  (exists ctrl dest src, header_ok ctrl dest src /\ fst f = mk_header ctrl dest src) /\
  bytes_ok (snd f) /\ (length (snd f) <= 250)%nat.

Definition fmt (f : header * list N) : list N := format_frame (fst f) (snd f).
Definition oframe (f : header * list N) : robs := OFrame (fst f) (snd f).

Lemma parse_frame mode f rest : frame_wf f ->
  parse mode FindSync1 (fmt f ++ rest) = (FindSync1, rest, PFrame (fst f) (snd f)).
Proof.
  intros ((ctrl & dest & src & Hok & Eh) & Hb & Hl). unfold fmt. rewrite Eh.
  pose proof (frame_round_trip ctrl dest src (snd f) rest Hok Hb Hl) as RT.
  destruct mode; cbn [parse]; [exact RT|].
  cbn [parse_discard]. rewrite RT. reflexivity.
Qed.

Lemma fmt_nonempty f : frame_wf f -> fmt f <> [].
Proof.
  intros (_ & _ & Hl) E. pose proof (format_frame_length (fst f) (snd f) Hl) as H.
  unfold fmt in E. rewrite E in H. cbn in H. lia.
Qed.

Lemma feed_loop_frames cfg : forall fps fuel b, Forall frame_wf fps -> (length fps < fuel)%nat ->
  exists rs', feed_loop fuel cfg []
                {| r_begin := b; r_unread := concat (map fmt fps); r_pstate := FindSync1 |}
              = (rs', map oframe fps, true).
Proof.
  induction fps as [|f fps IH]; intros fuel b Hwf Hfuel.
  - destruct fuel as [|fuel]; [cbn in Hfuel; lia|].
    cbn [map concat feed_loop read_frame step_parse r_unread].
    unfold shift_if_full, r_end. cbn [r_begin r_unread r_pstate length Nat.add].
    destruct (0 =? r_cap cfg)%nat; eexists; reflexivity.
  - destruct fuel as [|fuel]; [cbn in Hfuel; lia|].
    inversion Hwf as [|? ? Hf Hwf']; subst.
    cbn [map concat feed_loop].
    assert (Hrf : forall reads, read_frame cfg reads
              {| r_begin := b; r_unread := fmt f ++ concat (map fmt fps); r_pstate := FindSync1 |}
            = ({| r_begin := b + length (fmt f ++ concat (map fmt fps)) - length (concat (map fmt fps));
                  r_unread := concat (map fmt fps); r_pstate := FindSync1 |}, reads, RFrame (fst f) (snd f))).
    { intro reads. destruct reads; cbn [read_frame]; unfold step_parse; cbn [r_unread r_pstate r_mode];
      (destruct (fmt f ++ concat (map fmt fps)) eqn:E;
       [apply app_eq_nil in E; destruct E as [E _]; exfalso; exact (fmt_nonempty f Hf E)|]);
      rewrite <- E; rewrite parse_frame by exact Hf; reflexivity. }
    rewrite Hrf.
    destruct (IH fuel (b + length (fmt f ++ concat (map fmt fps)) - length (concat (map fmt fps)))%nat Hwf'
                ltac:(cbn [length] in Hfuel; lia)) as (rs' & E).
    rewrite E. eexists. reflexivity.
Qed.

Lemma concat_fmt_length n : forall fps, Forall frame_wf fps -> (length fps <= n)%nat ->
  (length (concat (map fmt fps)) <= n * 292)%nat /\ (length fps <= length (concat (map fmt fps)))%nat.
Proof.
  induction n as [|n IH]; intros fps Hwf Hn.
  - destruct fps; [cbn; lia|cbn in Hn; lia].
  - destruct fps as [|f fps]; [cbn; lia|]. inversion Hwf as [|? ? Hf Hwf']; subst.
    cbn [map concat length] in *. rewrite app_length.
    destruct Hf as (_ & _ & Hl). pose proof (format_frame_length (fst f) (snd f) Hl) as H. fold (fmt f) in H.
    destruct (IH fps Hwf' ltac:(lia)). lia.
Qed.

(* the link reader on ONE physical read that holds a sequence of well-formed frames *)
Theorem run_link_frames mode rm frag fps : fps <> [] -> Forall frame_wf fps ->
  (length fps <= num_link_frames frag)%nat ->
  run_link mode rm frag [concat (map fmt fps)] = map oframe fps.
Proof.
  intros Hne Hwf Hn. unfold run_link. cbn [run_feeds]. unfold feed. cbn [rstate_init r_unread length Nat.add].
  set (cfg := {| r_mode := mode; r_read := rm; r_cap := read_buffer_size frag |}).
  set (c := concat (map fmt fps)).
  destruct (concat_fmt_length _ fps Hwf Hn) as [Hlen Hcount]. fold c in Hlen, Hcount.
  assert (Hcap : (length c < r_cap cfg)%nat).
  { cbn [cfg r_cap]. unfold read_buffer_size. change (N.to_nat c_max_link_frame_length) with 292%nat.
    destruct (num_link_frames frag =? 0)%nat eqn:E; [apply Nat.eqb_eq in E; lia|lia]. }
  assert (Hcne : c <> []).
  { destruct fps as [|f fps]; [congruence|]. inversion Hwf as [|? ? Hf _]; subst.
    unfold c. cbn [map concat]. intro E. apply app_eq_nil in E. destruct E as [E _].
    exact (fmt_nonempty f Hf E). }
  destruct (feed_loop_frames cfg fps (length c + 2) 0 Hwf ltac:(lia)) as (rs' & E).
  fold c in E.
  assert (Hfirst : forall fuel, feed_loop (S fuel) cfg [c] rstate_init =
                                feed_loop (S fuel) cfg [] {| r_begin := 0; r_unread := c; r_pstate := FindSync1 |}).
  { intro fuel. cbn [feed_loop].
    assert (Hrf : read_frame cfg [c] rstate_init
                  = read_frame cfg [] {| r_begin := 0; r_unread := c; r_pstate := FindSync1 |}).
    { cbn [read_frame rstate_init step_parse r_unread r_pstate].
      unfold shift_if_full, r_end. cbn [r_begin r_unread length Nat.add].
      replace (0 =? r_cap cfg)%nat with false by (symmetry; apply Nat.eqb_neq; lia).
      unfold r_writable, r_end. cbn [r_begin r_unread length Nat.add].
      replace (r_cap cfg - 0 <? length c)%nat with false by (symmetry; apply Nat.ltb_ge; lia).
      destruct c as [|x c'] eqn:Ec; [congruence|]. rewrite <- Ec.
      unfold append_read. cbn [r_begin r_unread r_pstate app]. reflexivity. }
    rewrite Hrf. reflexivity. }
  replace (length c + 2)%nat with (S (length c + 1)) in * by lia.
  rewrite Hfirst, E. rewrite app_nil_r. reflexivity.
Qed.

(* ---------- the link layer hands the segments up --------------------------------------------- *)

Lemma address_from_endpoint x : x < 65520 -> address_from x = AEndpoint x.
Proof.
  intro H. unfold address_from.
  change c_broadcast_confirm_optional with 65535. change c_broadcast_confirm_mandatory with 65534.
  change c_broadcast_confirm_not_required with 65533. change c_self_address with 65532.
  change c_reserved_start with 65520.
  replace (x =? 65535) with false by (symmetry; apply N.eqb_neq; lia).
  replace (x =? 65534) with false by (symmetry; apply N.eqb_neq; lia).
  replace (x =? 65533) with false by (symmetry; apply N.eqb_neq; lia).
  replace (x =? 65532) with false by (symmetry; apply N.eqb_neq; lia).
  replace (65520 <=? x) with false by (symmetry; apply N.leb_gt; lia).
  reflexivity.
Qed.

Definition data_ctrl (t : endpoint_type) : N := match t with Master => 196 | Outstation => 68 end.

Lemma data_header_mk cfg dest :
  data_header cfg dest = mk_header (data_ctrl (w_type cfg)) dest (w_addr cfg).
Proof. unfold data_header, mk_header. destruct (w_type cfg); reflexivity. Qed.

Lemma process_header_data lcfg wcfg ss :
  w_type wcfg <> l_type lcfg -> w_addr wcfg < 65520 -> l_addr lcfg < 65520 ->
  process_header lcfg ss (data_header wcfg (l_addr lcfg))
  = (ss, Some (mk_info (w_addr wcfg) None FData), None).
Proof.
  intros Ht Hs Hd. unfold process_header, data_header. cbn [h_control h_src h_dest c_master c_func c_fcv].
  rewrite !address_from_endpoint by assumption. rewrite N.eqb_refl.
  destruct (w_type wcfg), (l_type lcfg); try congruence; reflexivity.
Qed.

Lemma layer_obs_data lcfg wcfg ss : w_type wcfg <> l_type lcfg -> w_addr wcfg < 65520 -> l_addr lcfg < 65520 ->
  forall ps, layer_obs lcfg ss (map (fun p => OFrame (data_header wcfg (l_addr lcfg)) p) ps)
           = map (fun p => LInfo (mk_info (w_addr wcfg) None FData) p) ps.
Proof.
  intros Ht Hs Hd. induction ps as [|p ps IH]; [reflexivity|].
  cbn [map layer_obs]. rewrite process_header_data by assumption. cbn [app]. rewrite IH. reflexivity.
Qed.

Lemma chunks_count_bound bs : blocks_wf 249 bs -> (length bs * 249 < length (concat bs) + 249)%nat.
Proof.
  induction 1 as [|b Hne Hlen|b b' bs Hlen Hwf IH].
  - cbn. lia.
  - cbn [concat length]. rewrite app_nil_r. destruct b; [congruence|cbn [length]; lia].
  - cbn [concat length] in *. rewrite app_length. lia.
Qed.

Lemma num_link_frames_bound frag : (frag <= num_link_frames frag * 249)%nat.
Proof.
  unfold num_link_frames. change (N.to_nat c_max_app_bytes_per_frame) with 249%nat.
  pose proof (Nat.div_mod frag 249 ltac:(lia)) as H.
  destruct (frag mod 249 =? 0)%nat eqn:E.
  - apply Nat.eqb_eq in E. lia.
  - pose proof (Nat.mod_upper_bound frag 249 ltac:(lia)). lia.
Qed.

(* One fragment written by a transport writer and received, in one physical read, by the transport
   reader of the addressed station of the opposite type: exactly this fragment is delivered, from
   the writer's address, and nothing else happens. *)
Theorem write_read_round_trip : forall mode rm frag lcfg wcfg seq fragment,
  w_type wcfg <> l_type lcfg -> w_addr wcfg < 65520 -> l_addr lcfg < 65520 ->
  seq < 64 -> bytes_ok fragment -> fragment <> [] -> (length fragment <= frag)%nat ->
  run_treader mode rm frag lcfg [concat (fst (write_fragment wcfg (l_addr lcfg) seq fragment))]
  = [TFrag {| fg_id := 0; fg_source := w_addr wcfg; fg_broadcast := None |} fragment].
Proof.
  intros mode rm frag lcfg wcfg seq fragment Ht Hs Hd Hseq Hb Hne Hlen.
  destruct (write_fragment_frames wcfg (l_addr lcfg) seq fragment) as (Hw & _ & Hcat). cbv zeta in *.
  rewrite Hw. cbn [fst]. set (segs := segs_of seq true (chunks 249 fragment)) in *.
  set (h := data_header wcfg (l_addr lcfg)).
  set (fps := map (fun s : tp_header * list N => (h, tp_to_u8 (fst s) :: snd s)) segs).
  assert (Hfmt : map (fun s : tp_header * list N => format_frame h (tp_to_u8 (fst s) :: snd s)) segs
                 = map fmt fps).
  { unfold fps. rewrite map_map. reflexivity. }
  rewrite Hfmt.
  pose proof (chunks_wf 249 ltac:(lia) _ fragment (le_n _)) as Hcwf.
  pose proof (chunks_concat 249 ltac:(lia) _ fragment (le_n _)) as Hccat.
  pose proof (chunks_length_le 249 fragment ltac:(lia)) as Hcl.
  pose proof (chunks_bytes 249 fragment ltac:(lia) Hb) as Hcb.
  pose proof (segs_of_seq_bound (chunks 249 fragment) seq true Hseq) as Hsb. fold segs in Hsb.
  pose proof (segs_of_payloads (chunks 249 fragment) seq true) as Hsp. fold segs in Hsp.
  assert (Hwf : Forall frame_wf fps).
  { unfold fps. rewrite Forall_map. rewrite <- Hsp in Hcl, Hcb. rewrite Forall_map in Hcl, Hcb.
    rewrite Forall_forall in *. intros s Hin. unfold frame_wf. cbn [fst snd]. split; [|split].
    - exists (data_ctrl (w_type wcfg)), (l_addr lcfg), (w_addr wcfg). split; [|apply data_header_mk].
      unfold header_ok. destruct (w_type wcfg); cbn [data_ctrl]; lia.
    - constructor; [apply tp_to_u8_byte, Hsb, Hin|apply Hcb, Hin].
    - cbn [length]. specialize (Hcl s Hin). cbv beta in Hcl. lia. }
  assert (Hcount : (length fps <= num_link_frames frag)%nat).
  { unfold fps. rewrite map_length. unfold segs. rewrite segs_of_length.
    pose proof (chunks_count_bound _ Hcwf) as H1. rewrite Hccat in H1.
    pose proof (num_link_frames_bound frag) as H2. nia. }
  assert (Hfne : fps <> []).
  { unfold fps, segs. pose proof (chunks_nonempty 249 fragment ltac:(lia) Hne) as H.
    destruct (chunks 249 fragment); [congruence|discriminate]. }
  unfold run_treader, run_layer. rewrite (run_link_frames mode rm frag fps Hfne Hwf Hcount).
  assert (Hobs : map oframe fps = map (fun p => OFrame h p) (map (fun s : tp_header * list N => tp_to_u8 (fst s) :: snd s) segs)).
  { unfold fps. rewrite !map_map. reflexivity. }
  rewrite Hobs. unfold h. rewrite layer_obs_data by assumption. rewrite map_map.
  pose proof (segments_delivered (assembler_init frag) (mk_info (w_addr wcfg) None FData) seq fragment []
                eq_refl eq_refl Hseq Hne Hlen) as Hdel.
  rewrite app_nil_r in Hdel. fold segs in Hdel. unfold seg_obs in Hdel. rewrite Hdel. reflexivity.
Qed.
