(* Transport/Segment.v — model of dnp3/src/transport/real/writer.rs.  Definitions only. *)
From Dnp3V Require Export Transport.Assembler.
Open Scope N_scope.

Record wcfg := { w_type : endpoint_type; w_addr : N }.

Definition data_header (cfg : wcfg) (dest : N) : header :=
  {| h_control := {| c_func := PriUnconfirmedUserData; c_master := dir_bit (w_type cfg);
                     c_fcb := false; c_fcv := false |};
     h_dest := address_from dest; h_src := address_from (w_addr cfg) |}.

(* the frames of one Writer::write; seq is the writer's running sequence number *)
Fixpoint write_chunks (cfg : wcfg) (dest : N) (seq : N) (first : bool) (cs : list (list N))
  : list (list N) * N :=
  match cs with
  | [] => ([], seq)
  | c :: rest =>
      let h := {| t_fin := match rest with [] => true | _ => false end; t_fir := first; t_seq := seq |} in
      let frame := match format_data_frame (data_header cfg dest) (tp_to_u8 h) c with
                   | Some f => f | None => [] end in
      let '(fs, seq') := write_chunks cfg dest (seq_next seq) false rest in
      (frame :: fs, seq')
  end.

Definition write_fragment (cfg : wcfg) (dest : N) (seq : N) (fragment : list N) : list (list N) * N :=
  write_chunks cfg dest seq true (chunks (N.to_nat c_max_app_bytes_per_frame) fragment).

Definition link_status_request (cfg : wcfg) (dest : N) : list N :=
  format_header_only
    {| h_control := {| c_func := PriRequestLinkStatus; c_master := dir_bit (w_type cfg);
                       c_fcb := false; c_fcv := false |};
       h_dest := AEndpoint dest; h_src := AEndpoint (w_addr cfg) |}.

Inductive wop := WWrite (dest : N) (fragment : list N) | WLinkStatus (dest : N) | WReset.

Fixpoint run_twriter (cfg : wcfg) (seq : N) (ops : list wop) : list (option (list N)) :=
  match ops with
  | [] => []
  | WWrite dest f :: rest =>
      let '(frames, seq') := write_fragment cfg dest seq f in
      map Some frames ++ run_twriter cfg seq' rest
  | WLinkStatus dest :: rest => Some (link_status_request cfg dest) :: run_twriter cfg seq rest
  | WReset :: rest => None :: run_twriter cfg 0 rest
  end.
