(* Transport/Assembler.v — model of dnp3/src/transport/real/{header,sequence,assembler,reader}.rs.
   Definitions only. *)
From Dnp3V Require Export Link.Layer.
Open Scope N_scope.

Record tp_header := { t_fin : bool; t_fir : bool; t_seq : N }.

Definition tp_from_u8 (b : N) : tp_header :=
  {| t_fin := bit_set b c_tp_fin_mask; t_fir := bit_set b c_tp_fir_mask; t_seq := N.land b c_tp_seq_max |}.

Definition tp_to_u8 (h : tp_header) : N :=
  N.lor (N.lor (if t_fin h then c_tp_fin_mask else 0) (if t_fir h then c_tp_fir_mask else 0)) (t_seq h).

Definition seq_next (s : N) : N := if s =? c_tp_seq_max then 0 else s + 1.

Record fragment_info := { fg_id : N; fg_source : N; fg_broadcast : option bcast_mode }.

Inductive astate :=
| AEmpty
| ARunning (info : frame_info) (hdr : tp_header) (buf : list N)
| AComplete (fi : fragment_info) (buf : list N).

Record assembler := { a_state : astate; a_frame_id : N; a_cap : nat }.

Definition assembler_init (cap : nat) : assembler := {| a_state := AEmpty; a_frame_id := 0; a_cap := cap |}.

Definition with_state (a : assembler) (s : astate) : assembler :=
  {| a_state := s; a_frame_id := a_frame_id a; a_cap := a_cap a |}.

Definition bcast_eqb (a b : option bcast_mode) : bool :=
  match a, b with
  | None, None => true
  | Some BOptional, Some BOptional | Some BMandatory, Some BMandatory
  | Some BNotRequired, Some BNotRequired => true
  | _, _ => false
  end.

Definition ftype_eqb (a b : frame_type) : bool :=
  match a, b with
  | FData, FData | FLinkStatusRequest, FLinkStatusRequest
  | FLinkStatusResponse, FLinkStatusResponse => true
  | _, _ => false
  end.

Definition info_eqb (a b : frame_info) : bool :=
  (fi_source a =? fi_source b) && bcast_eqb (fi_broadcast a) (fi_broadcast b)
  && ftype_eqb (fi_type a) (fi_type b).

(* Assembler::append; acc = the bytes accumulated so far *)
Definition append (a : assembler) (info : frame_info) (h : tp_header) (acc data : list N) : assembler :=
  let new := acc ++ data in
  if (a_cap a <? length new)%nat then with_state a AEmpty
  else if t_fin h then
    {| a_state := AComplete {| fg_id := a_frame_id a; fg_source := fi_source info;
                               fg_broadcast := fi_broadcast info |} new;
       a_frame_id := (a_frame_id a + 1) mod 4294967296;
       a_cap := a_cap a |}
  else with_state a (ARunning info h new).

(* Assembler::assemble *)
Definition assemble (a0 : assembler) (info : frame_info) (h : tp_header) (payload : list N) : assembler :=
  let a := if t_fir h then with_state a0 AEmpty else a0 in
  match fi_broadcast info with
  | Some _ => if t_fir h && t_fin h then append a info h [] payload else a
  | None =>
      match a_state a with
      | AComplete _ _ => append (with_state a AEmpty) info h [] payload
      | AEmpty => if negb (t_fir h) then a else append a info h [] payload
      | ARunning pinfo phdr acc =>
          if negb (t_seq h =? seq_next (t_seq phdr)) then with_state a AEmpty
          else if negb (info_eqb info pinfo) then with_state a AEmpty
          else append a info h acc payload
      end
  end.

Definition is_complete (a : assembler) : bool :=
  match a_state a with AComplete _ _ => true | _ => false end.

Inductive tobs :=
| TTx (bytes : list N)
| TFrag (fi : fragment_info) (data : list N)
| TLinkMsg (source : N) (is_request : bool)
| TErr (e : rerr)
| TOverflow
| TStall.

(* transport::real::reader::Reader::read followed by pop, over what the link layer delivers *)
Fixpoint treader_obs (a : assembler) (obs : list lobs) : list tobs :=
  match obs with
  | [] => []
  | LTx b :: rest => TTx b :: treader_obs a rest
  | LInfo i payload :: rest =>
      match fi_type i with
      | FData =>
          match payload with
          | [] => treader_obs a rest
          | t :: data =>
              let a' := assemble a i (tp_from_u8 t) data in
              match a_state a' with
              | AComplete fi buf => TFrag fi buf :: treader_obs (with_state a' AEmpty) rest
              | _ => treader_obs a' rest
              end
          end
      | FLinkStatusRequest => TLinkMsg (fi_source i) true :: treader_obs a rest
      | FLinkStatusResponse => TLinkMsg (fi_source i) false :: treader_obs a rest
      end
  | LErr e :: _ => [TErr e]
  | LOverflow :: _ => [TOverflow]
  | LStall :: _ => [TStall]
  end.

Definition run_treader (mode : error_mode) (rm : read_mode) (frag : nat) (cfg : lcfg)
  (cs : list (list N)) : list tobs :=
  treader_obs (assembler_init frag) (run_layer mode rm frag cfg cs).
