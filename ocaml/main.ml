(* entry point: driver <scripts>            run every script through its engine's model
                driver --concretize <scripts>  rewrite abstract ops into concrete ones (test generation)
                driver --codes <scripts>    `C <id>` / one line of numbers per observation / `E`: the numeric
                                            serialisation compared with the in-Coq evaluation (tools/coqeval.py) *)
open Driver

let () =
  if Sys.argv.(1) = "--concretize" then begin
    List.iter (fun s ->
      print_string (String.concat " " (["S"; s.id; s.engine] @ List.map (fun (k, v) -> k ^ "=" ^ v) s.cfg) ^ "\n");
      let lines = match Hashtbl.find_opt concretizers s.engine with
        | Some f -> f s
        | None -> List.map (String.concat " ") s.ops in
      List.iter (fun l -> print_string l; print_char '\n') lines;
      print_string "E\n") (read_scripts Sys.argv.(2));
    exit 0
  end;
  if Sys.argv.(1) = "--codes" then begin
    List.iter (fun s ->
      let lines = try (match Hashtbl.find_opt coders s.engine with
        | Some f -> f s
        | None -> ["no-coder " ^ s.engine])
        with Failure m -> ["model-failure " ^ (String.map (fun c -> if c = ' ' then '_' else c) m)] in
      print_string ("C " ^ s.id ^ "\n");
      List.iter (fun l -> print_string l; print_char '\n') lines;
      print_string "E\n") (read_scripts Sys.argv.(2));
    exit 0
  end;
  let scripts = read_scripts Sys.argv.(1) in
  List.iter (fun s ->
    let lines = try (match Hashtbl.find_opt engines s.engine with
      | Some f -> f s
      | None -> ["unknown-engine " ^ s.engine])
      with Failure m -> ["model-failure " ^ (String.map (fun c -> if c = ' ' then '_' else c) m)] in
    print_string ("T " ^ s.id ^ "\n");
    List.iter (fun l -> print_string l; print_char '\n') lines;
    print_string "E\n") scripts
