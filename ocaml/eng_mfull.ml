open Model
open Driver

(* ---- mfull engine (second pass of C15, C16): the extracted COMPOSED model Master/MFull.v ----
   Reads the SAME scripts as engine `master` (eng_master.ml; token parsing and printing are the same)
   but IGNORES the verdict and item tokens of `rx` ops: MF.run computes both from the received octets
   (App/Grammar.v + App/Convert.v).  A script with a fragment whose callbacks the conversion model does not
   describe (MF.covered = false) is marked `model-unmodelled` and not compared.  The lines must be identical
   to those of /verif/harness/master.rs. *)

let string_of_chars (l : n list) : string =
  String.concat "" (List.map (fun c -> String.make 1 (Char.chr (int_of_n c))) l)

let strip_prefix p s =
  let lp = String.length p in
  if String.length s >= lp && String.sub s 0 lp = p
  then Some (String.sub s lp (String.length s - lp)) else None

(* `<g>.<v>/<8|16>/<idx>=<hex>,<idx>=<hex>` *)
let pheader_of_token (t : string) : MCmd.pheader =
  match String.split_on_char '/' t with
  | [gv; w; items] ->
    let g, v = match String.split_on_char '.' gv with
      | [g; v] -> (int_of_string g, int_of_string v) | _ -> failwith "bad variation" in
    let wide = match w with "8" -> false | "16" -> true | _ -> failwith "bad index width" in
    let its = if items = "-" then [] else
        List.map (fun it -> match String.split_on_char '=' it with
            | [i; h] -> (n_of_int (int_of_string i), unhex h)
            | _ -> failwith "bad item") (String.split_on_char ',' items) in
    { MCmd.ph_group = n_of_int g; ph_var = n_of_int v; ph_wide = wide; ph_items = its }
  | _ -> failwith "bad header token"

let verdict_text = function MT.VOk -> "ok" | MT.VBad -> "bad" | MT.VNone -> "none"

let terr_text = function
  | MT.ETooMany -> "too_many_requests" | MT.ELink -> "link" | MT.ETransport -> "transport"
  | MT.ERejected (a, b) -> Printf.sprintf "rejected:%02x%02x" (int_of_n a) (int_of_n b)
  | MT.EMalformed -> "malformed" | MT.EBadHeaders -> "bad_headers"
  | MT.ENonFinWithoutCon -> "non_fin_without_con" | MT.ENeverFir -> "never_fir"
  | MT.EUnexpectedFir -> "unexpected_fir" | MT.EMultiFragment -> "multi_fragment"
  | MT.ETimeout -> "timeout" | MT.EWriteError -> "write_error"
  | MT.ENoAssociation -> "no_association" | MT.ENoConnection -> "no_connection"
  | MT.EShutdown_ -> "shutdown" | MT.EDisabled -> "disabled"

let cerr_text = function
  | MCmd.CHeaderCount -> "header_count" | MCmd.CHeaderType -> "header_type"
  | MCmd.CObjectCount -> "object_count" | MCmd.CObjectValue -> "object_value"
  | MCmd.CBadStatus s -> Printf.sprintf "status:%d" (int_of_n s)

let ttype_text = function
  | MT.TUserRead -> "user_read" | MT.TIntegrity -> "startup_integrity" | MT.TCommand -> "command"
  | MT.TClear -> "clear_restart" | MT.TEnable -> "enable_unsol" | MT.TDisable -> "disable_unsol"
  | MT.TRestart -> "restart" | MT.TDeadBands -> "write_dead_bands"
  | MT.TEmpty fc -> Printf.sprintf "empty_response:%d" (int_of_n fc)

let rt_text = function MT.RtIntegrity -> "integrity" | MT.RtUnsol -> "unsol" | MT.RtSingle -> "single"
let stop_text = function MT.StDisable -> "disable" | MT.StShutdown -> "shutdown" | MT.StLink -> "link"

let run_mfull_engine (s : script) : string list =
  let toks : (string, int) Hashtbl.t = Hashtbl.create 16 in
  let names : (int, string) Hashtbl.t = Hashtbl.create 16 in
  let tok_id (t : string) : n =
    match Hashtbl.find_opt toks t with
    | Some i -> n_of_int i
    | None -> let i = Hashtbl.length toks in
      Hashtbl.add toks t i; Hashtbl.add names i t; n_of_int i in
  let tok_name (x : n) : string = Hashtbl.find names (int_of_n x) in
  let cfg = { MT.c_addr = n_of_int (cfg_int s "addr" 1024);
              c_timeout = n_of_int (cfg_int s "timeout" 1000);
              c_disable = n_of_int (cfg_int s "disable_unsol" 0);
              c_enable = n_of_int (cfg_int s "enable_unsol" 0);
              c_integrity = n_of_int (cfg_int s "integrity" 0);
              c_retry_min = n_of_int (cfg_int s "retry_min" 1000);
              c_retry_max = n_of_int (cfg_int s "retry_max" 10000);
              c_maxq = nat_of_int (cfg_int s "maxq" 16);
              c_txsize = nat_of_int (cfg_int s "txsize" 249) } in
  let objs_arg (a : string) : n list =
    match strip_prefix "class:" a with
    | Some m -> MT.class_objs (n_of_int (int_of_string m))
    | None -> (match strip_prefix "hdr:" a with Some h -> unhex h | None -> failwith "bad objects") in
  let event_of (op : string list) : MT.mevent =
    match op with
    | "rx" :: from :: h :: _ ->
      (* the verdict and item tokens (oracle inputs of engine `master`) are not read *)
      MT.ERx (n_of_int (int_of_string from), unhex h, MT.VNone, [])
    | ["sleep"; ms] -> MT.ESleep (n_of_int (int_of_string ms))
    | "user" :: tok :: "read" :: [a] -> MT.EUser (tok_id tok, MT.URead (objs_arg a))
    | "user" :: tok :: "sbo" :: hs -> MT.EUser (tok_id tok, MT.UCommand (true, List.map pheader_of_token hs))
    | "user" :: tok :: "do" :: hs -> MT.EUser (tok_id tok, MT.UCommand (false, List.map pheader_of_token hs))
    | "user" :: tok :: "deadband" :: hs -> MT.EUser (tok_id tok, MT.UDeadBand (List.map pheader_of_token hs))
    | ["user"; tok; "empty"; fc; a] -> MT.EUser (tok_id tok, MT.UEmpty (n_of_int (int_of_string fc), objs_arg a))
    | ["user"; tok; "cold_restart"] -> MT.EUser (tok_id tok, MT.URestart true)
    | ["user"; tok; "warm_restart"] -> MT.EUser (tok_id tok, MT.URestart false)
    | ["user"; tok; "link_status"] -> MT.EUser (tok_id tok, MT.ULinkStatus)
    | ["disable"] -> MT.EDisable | ["enable"] -> MT.EEnable | ["drop_io"] -> MT.EDropIo
    | ["connect"] -> MT.EConnect | ["remove"] -> MT.ERemove | ["shutdown"] -> MT.EShutdown
    | _ -> failwith ("master engine: bad op " ^ String.concat "_" op) in
  let opno = ref (-1) in
  let line ((t, o) : n * MT.mobs) : string =
    Printf.sprintf "%d %s" (int_of_n t) (match o with
      | MT.OStep -> incr opno; Printf.sprintf "op %d" !opno
      | MT.OPv v -> "pv " ^ verdict_text v
      | MT.ORxNoConn -> "rx no_connection"
      | MT.OTxReq (d, q, fc, objs) -> Printf.sprintf "tx %d %s" (int_of_n d) (hex (MT.request_bytes q fc objs))
      | MT.OTxConfirm (d, uns, q) -> Printf.sprintf "tx %d %s" (int_of_n d) (hex (MT.confirm_bytes uns q))
      | MT.OTxLinkStatus -> "tx-link-status-request"
      | MT.OCbBegin (rt, h) -> Printf.sprintf "cb begin %s %s" (rt_text rt) (hex h)
      | MT.OCbItem it -> "cb " ^ string_of_chars it
      | MT.OCbEnd (rt, h) -> Printf.sprintf "cb end %s %s" (rt_text rt) (hex h)
      | MT.OInfoStart (ty, fc, q) -> Printf.sprintf "info task_start %s %d %d" (ttype_text ty) (int_of_n fc) (int_of_n q)
      | MT.OInfoSuccess (ty, fc, q) -> Printf.sprintf "info task_success %s %d %d" (ttype_text ty) (int_of_n fc) (int_of_n q)
      | MT.OInfoFail (ty, e) -> Printf.sprintf "info task_fail %s %s" (ttype_text ty) (terr_text e)
      | MT.OInfoUnsol (d, q) -> Printf.sprintf "info unsolicited %d %d" (if d then 1 else 0) (int_of_n q)
      | MT.ORes (tok, r) -> Printf.sprintf "res %s %s" (tok_name tok) (match r with
          | MT.ROk -> "ok" | MT.ROkMs ms -> Printf.sprintf "ok %d" (int_of_n ms)
          | MT.RErr e -> "err " ^ terr_text e | MT.RCmdErr e -> "err " ^ cerr_text e
          | MT.RDropped -> "dropped")
      | MT.OChanConnected -> "chan connected"
      | MT.OChanRunEnd w -> "chan run_end " ^ stop_text w
      | MT.OChanStopped -> "chan stopped"
      | MT.OIgnored -> "ignored") in
  let is_res = function (_, MT.ORes _) -> true | _ -> false in
  (* promise completions are observed by a waiter task: the harness prints them after the other
     lines of the op *)
  let group (obs : (n * MT.mobs) list) : string list =
    List.map line (List.filter (fun o -> not (is_res o)) obs) @ List.map line (List.filter is_res obs) in
  let evs = List.map event_of s.ops in
  (if MF.covered evs then [] else ["model-unmodelled"])
  @ List.concat (List.map group (MF.run cfg evs)) @ ["end"]

let () = register "mfull" run_mfull_engine
